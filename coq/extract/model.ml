
(** val negb : bool -> bool **)

let negb = function
| true -> false
| false -> true

type nat =
| O
| S of nat

type ('a, 'b) sum =
| Inl of 'a
| Inr of 'b

(** val fst : ('a1 * 'a2) -> 'a1 **)

let fst = function
| (x, _) -> x

(** val snd : ('a1 * 'a2) -> 'a2 **)

let snd = function
| (_, y) -> y

(** val length : 'a1 list -> nat **)

let rec length = function
| [] -> O
| _ :: l' -> S (length l')

(** val app : 'a1 list -> 'a1 list -> 'a1 list **)

let rec app l m =
  match l with
  | [] -> m
  | a :: l1 -> a :: (app l1 m)

type comparison =
| Eq
| Lt
| Gt

(** val compOpp : comparison -> comparison **)

let compOpp = function
| Eq -> Eq
| Lt -> Gt
| Gt -> Lt

module Coq__1 = struct
 (** val add : nat -> nat -> nat **)
 let rec add n1 m =
   match n1 with
   | O -> m
   | S p -> S (add p m)
end
include Coq__1

(** val mul : nat -> nat -> nat **)

let rec mul n1 m =
  match n1 with
  | O -> O
  | S p -> add m (mul p m)

(** val sub : nat -> nat -> nat **)

let rec sub n1 m =
  match n1 with
  | O -> n1
  | S k -> (match m with
            | O -> n1
            | S l -> sub k l)

(** val max : nat -> nat -> nat **)

let rec max n1 m =
  match n1 with
  | O -> m
  | S n' -> (match m with
             | O -> n1
             | S m' -> S (max n' m'))

(** val eqb : bool -> bool -> bool **)

let eqb b1 b2 =
  if b1 then b2 else if b2 then false else true

module Nat =
 struct
  (** val eqb : nat -> nat -> bool **)

  let rec eqb n1 m =
    match n1 with
    | O -> (match m with
            | O -> true
            | S _ -> false)
    | S n' -> (match m with
               | O -> false
               | S m' -> eqb n' m')

  (** val leb : nat -> nat -> bool **)

  let rec leb n1 m =
    match n1 with
    | O -> true
    | S n' -> (match m with
               | O -> false
               | S m' -> leb n' m')

  (** val ltb : nat -> nat -> bool **)

  let ltb n1 m =
    leb (S n1) m
 end

(** val hd : 'a1 -> 'a1 list -> 'a1 **)

let hd default = function
| [] -> default
| x :: _ -> x

(** val tl : 'a1 list -> 'a1 list **)

let tl = function
| [] -> []
| _ :: m -> m

(** val nth : nat -> 'a1 list -> 'a1 -> 'a1 **)

let rec nth n1 l default =
  match n1 with
  | O -> (match l with
          | [] -> default
          | x :: _ -> x)
  | S m -> (match l with
            | [] -> default
            | _ :: t -> nth m t default)

(** val nth_error : 'a1 list -> nat -> 'a1 option **)

let rec nth_error l = function
| O -> (match l with
        | [] -> None
        | x :: _ -> Some x)
| S n2 -> (match l with
           | [] -> None
           | _ :: l0 -> nth_error l0 n2)

(** val removelast : 'a1 list -> 'a1 list **)

let rec removelast = function
| [] -> []
| a :: l0 -> (match l0 with
              | [] -> []
              | _ :: _ -> a :: (removelast l0))

(** val rev : 'a1 list -> 'a1 list **)

let rec rev = function
| [] -> []
| x :: l' -> app (rev l') (x :: [])

(** val concat : 'a1 list list -> 'a1 list **)

let rec concat = function
| [] -> []
| x :: l0 -> app x (concat l0)

(** val map : ('a1 -> 'a2) -> 'a1 list -> 'a2 list **)

let rec map f = function
| [] -> []
| a :: t -> (f a) :: (map f t)

(** val flat_map : ('a1 -> 'a2 list) -> 'a1 list -> 'a2 list **)

let rec flat_map f = function
| [] -> []
| x :: t -> app (f x) (flat_map f t)

(** val fold_left : ('a1 -> 'a2 -> 'a1) -> 'a2 list -> 'a1 -> 'a1 **)

let rec fold_left f l a0 =
  match l with
  | [] -> a0
  | b :: t -> fold_left f t (f a0 b)

(** val fold_right : ('a2 -> 'a1 -> 'a1) -> 'a1 -> 'a2 list -> 'a1 **)

let rec fold_right f a0 = function
| [] -> a0
| b :: t -> f b (fold_right f a0 t)

(** val existsb : ('a1 -> bool) -> 'a1 list -> bool **)

let rec existsb f = function
| [] -> false
| a :: l0 -> (||) (f a) (existsb f l0)

(** val forallb : ('a1 -> bool) -> 'a1 list -> bool **)

let rec forallb f = function
| [] -> true
| a :: l0 -> (&&) (f a) (forallb f l0)

(** val filter : ('a1 -> bool) -> 'a1 list -> 'a1 list **)

let rec filter f = function
| [] -> []
| x :: l0 -> if f x then x :: (filter f l0) else filter f l0

(** val combine : 'a1 list -> 'a2 list -> ('a1 * 'a2) list **)

let rec combine l l' =
  match l with
  | [] -> []
  | x :: tl0 ->
    (match l' with
     | [] -> []
     | y :: tl' -> (x, y) :: (combine tl0 tl'))

(** val firstn : nat -> 'a1 list -> 'a1 list **)

let rec firstn n1 l =
  match n1 with
  | O -> []
  | S n2 -> (match l with
             | [] -> []
             | a :: l0 -> a :: (firstn n2 l0))

(** val skipn : nat -> 'a1 list -> 'a1 list **)

let rec skipn n1 l =
  match n1 with
  | O -> l
  | S n2 -> (match l with
             | [] -> []
             | _ :: l0 -> skipn n2 l0)

(** val seq : nat -> nat -> nat list **)

let rec seq start = function
| O -> []
| S len0 -> start :: (seq (S start) len0)

(** val list_max : nat list -> nat **)

let list_max l =
  fold_right max O l

type positive =
| XI of positive
| XO of positive
| XH

type n =
| N0
| Npos of positive

type z =
| Z0
| Zpos of positive
| Zneg of positive

module Pos =
 struct
  (** val succ : positive -> positive **)

  let rec succ = function
  | XI p -> XO (succ p)
  | XO p -> XI p
  | XH -> XO XH

  (** val add : positive -> positive -> positive **)

  let rec add x y =
    match x with
    | XI p ->
      (match y with
       | XI q -> XO (add_carry p q)
       | XO q -> XI (add p q)
       | XH -> XO (succ p))
    | XO p ->
      (match y with
       | XI q -> XI (add p q)
       | XO q -> XO (add p q)
       | XH -> XI p)
    | XH -> (match y with
             | XI q -> XO (succ q)
             | XO q -> XI q
             | XH -> XO XH)

  (** val add_carry : positive -> positive -> positive **)

  and add_carry x y =
    match x with
    | XI p ->
      (match y with
       | XI q -> XI (add_carry p q)
       | XO q -> XO (add_carry p q)
       | XH -> XI (succ p))
    | XO p ->
      (match y with
       | XI q -> XO (add_carry p q)
       | XO q -> XI (add p q)
       | XH -> XO (succ p))
    | XH ->
      (match y with
       | XI q -> XI (succ q)
       | XO q -> XO (succ q)
       | XH -> XI XH)

  (** val pred_double : positive -> positive **)

  let rec pred_double = function
  | XI p -> XI (XO p)
  | XO p -> XI (pred_double p)
  | XH -> XH

  (** val mul : positive -> positive -> positive **)

  let rec mul x y =
    match x with
    | XI p -> add y (XO (mul p y))
    | XO p -> XO (mul p y)
    | XH -> y

  (** val compare_cont : comparison -> positive -> positive -> comparison **)

  let rec compare_cont r x y =
    match x with
    | XI p ->
      (match y with
       | XI q -> compare_cont r p q
       | XO q -> compare_cont Gt p q
       | XH -> Gt)
    | XO p ->
      (match y with
       | XI q -> compare_cont Lt p q
       | XO q -> compare_cont r p q
       | XH -> Gt)
    | XH -> (match y with
             | XH -> r
             | _ -> Lt)

  (** val compare : positive -> positive -> comparison **)

  let compare =
    compare_cont Eq

  (** val eqb : positive -> positive -> bool **)

  let rec eqb p q =
    match p with
    | XI p0 -> (match q with
                | XI q0 -> eqb p0 q0
                | _ -> false)
    | XO p0 -> (match q with
                | XO q0 -> eqb p0 q0
                | _ -> false)
    | XH -> (match q with
             | XH -> true
             | _ -> false)

  (** val iter_op : ('a1 -> 'a1 -> 'a1) -> positive -> 'a1 -> 'a1 **)

  let rec iter_op op p a =
    match p with
    | XI p0 -> op a (iter_op op p0 (op a a))
    | XO p0 -> iter_op op p0 (op a a)
    | XH -> a

  (** val to_nat : positive -> nat **)

  let to_nat x =
    iter_op Coq__1.add x (S O)

  (** val of_succ_nat : nat -> positive **)

  let rec of_succ_nat = function
  | O -> XH
  | S x -> succ (of_succ_nat x)
 end

module N =
 struct
  (** val add : n -> n -> n **)

  let add n1 m =
    match n1 with
    | N0 -> m
    | Npos p -> (match m with
                 | N0 -> n1
                 | Npos q -> Npos (Pos.add p q))

  (** val mul : n -> n -> n **)

  let mul n1 m =
    match n1 with
    | N0 -> N0
    | Npos p -> (match m with
                 | N0 -> N0
                 | Npos q -> Npos (Pos.mul p q))

  (** val compare : n -> n -> comparison **)

  let compare n1 m =
    match n1 with
    | N0 -> (match m with
             | N0 -> Eq
             | Npos _ -> Lt)
    | Npos n' -> (match m with
                  | N0 -> Gt
                  | Npos m' -> Pos.compare n' m')

  (** val leb : n -> n -> bool **)

  let leb x y =
    match compare x y with
    | Gt -> false
    | _ -> true

  (** val ltb : n -> n -> bool **)

  let ltb x y =
    match compare x y with
    | Lt -> true
    | _ -> false

  (** val of_nat : nat -> n **)

  let of_nat = function
  | O -> N0
  | S n' -> Npos (Pos.of_succ_nat n')
 end

module Z =
 struct
  (** val double : z -> z **)

  let double = function
  | Z0 -> Z0
  | Zpos p -> Zpos (XO p)
  | Zneg p -> Zneg (XO p)

  (** val succ_double : z -> z **)

  let succ_double = function
  | Z0 -> Zpos XH
  | Zpos p -> Zpos (XI p)
  | Zneg p -> Zneg (Pos.pred_double p)

  (** val pred_double : z -> z **)

  let pred_double = function
  | Z0 -> Zneg XH
  | Zpos p -> Zpos (Pos.pred_double p)
  | Zneg p -> Zneg (XI p)

  (** val pos_sub : positive -> positive -> z **)

  let rec pos_sub x y =
    match x with
    | XI p ->
      (match y with
       | XI q -> double (pos_sub p q)
       | XO q -> succ_double (pos_sub p q)
       | XH -> Zpos (XO p))
    | XO p ->
      (match y with
       | XI q -> pred_double (pos_sub p q)
       | XO q -> double (pos_sub p q)
       | XH -> Zpos (Pos.pred_double p))
    | XH ->
      (match y with
       | XI q -> Zneg (XO q)
       | XO q -> Zneg (Pos.pred_double q)
       | XH -> Z0)

  (** val add : z -> z -> z **)

  let add x y =
    match x with
    | Z0 -> y
    | Zpos x' ->
      (match y with
       | Z0 -> x
       | Zpos y' -> Zpos (Pos.add x' y')
       | Zneg y' -> pos_sub x' y')
    | Zneg x' ->
      (match y with
       | Z0 -> x
       | Zpos y' -> pos_sub y' x'
       | Zneg y' -> Zneg (Pos.add x' y'))

  (** val opp : z -> z **)

  let opp = function
  | Z0 -> Z0
  | Zpos x0 -> Zneg x0
  | Zneg x0 -> Zpos x0

  (** val sub : z -> z -> z **)

  let sub m n1 =
    add m (opp n1)

  (** val mul : z -> z -> z **)

  let mul x y =
    match x with
    | Z0 -> Z0
    | Zpos x' ->
      (match y with
       | Z0 -> Z0
       | Zpos y' -> Zpos (Pos.mul x' y')
       | Zneg y' -> Zneg (Pos.mul x' y'))
    | Zneg x' ->
      (match y with
       | Z0 -> Z0
       | Zpos y' -> Zneg (Pos.mul x' y')
       | Zneg y' -> Zpos (Pos.mul x' y'))

  (** val compare : z -> z -> comparison **)

  let compare x y =
    match x with
    | Z0 -> (match y with
             | Z0 -> Eq
             | Zpos _ -> Lt
             | Zneg _ -> Gt)
    | Zpos x' -> (match y with
                  | Zpos y' -> Pos.compare x' y'
                  | _ -> Gt)
    | Zneg x' ->
      (match y with
       | Zneg y' -> compOpp (Pos.compare x' y')
       | _ -> Lt)

  (** val leb : z -> z -> bool **)

  let leb x y =
    match compare x y with
    | Gt -> false
    | _ -> true

  (** val ltb : z -> z -> bool **)

  let ltb x y =
    match compare x y with
    | Lt -> true
    | _ -> false

  (** val gtb : z -> z -> bool **)

  let gtb x y =
    match compare x y with
    | Gt -> true
    | _ -> false

  (** val eqb : z -> z -> bool **)

  let eqb x y =
    match x with
    | Z0 -> (match y with
             | Z0 -> true
             | _ -> false)
    | Zpos p -> (match y with
                 | Zpos q -> Pos.eqb p q
                 | _ -> false)
    | Zneg p -> (match y with
                 | Zneg q -> Pos.eqb p q
                 | _ -> false)

  (** val to_nat : z -> nat **)

  let to_nat = function
  | Zpos p -> Pos.to_nat p
  | _ -> O

  (** val of_nat : nat -> z **)

  let of_nat = function
  | O -> Z0
  | S n2 -> Zpos (Pos.of_succ_nat n2)

  (** val pos_div_eucl : positive -> z -> z * z **)

  let rec pos_div_eucl a b =
    match a with
    | XI a' ->
      let (q, r) = pos_div_eucl a' b in
      let r' = add (mul (Zpos (XO XH)) r) (Zpos XH) in
      if ltb r' b
      then ((mul (Zpos (XO XH)) q), r')
      else ((add (mul (Zpos (XO XH)) q) (Zpos XH)), (sub r' b))
    | XO a' ->
      let (q, r) = pos_div_eucl a' b in
      let r' = mul (Zpos (XO XH)) r in
      if ltb r' b
      then ((mul (Zpos (XO XH)) q), r')
      else ((add (mul (Zpos (XO XH)) q) (Zpos XH)), (sub r' b))
    | XH -> if leb (Zpos (XO XH)) b then (Z0, (Zpos XH)) else ((Zpos XH), Z0)

  (** val div_eucl : z -> z -> z * z **)

  let div_eucl a b =
    match a with
    | Z0 -> (Z0, Z0)
    | Zpos a' ->
      (match b with
       | Z0 -> (Z0, a)
       | Zpos _ -> pos_div_eucl a' b
       | Zneg b' ->
         let (q, r) = pos_div_eucl a' (Zpos b') in
         (match r with
          | Z0 -> ((opp q), Z0)
          | _ -> ((opp (add q (Zpos XH))), (add b r))))
    | Zneg a' ->
      (match b with
       | Z0 -> (Z0, a)
       | Zpos _ ->
         let (q, r) = pos_div_eucl a' b in
         (match r with
          | Z0 -> ((opp q), Z0)
          | _ -> ((opp (add q (Zpos XH))), (sub b r)))
       | Zneg b' -> let (q, r) = pos_div_eucl a' (Zpos b') in (q, (opp r)))

  (** val modulo : z -> z -> z **)

  let modulo a b =
    let (_, r) = div_eucl a b in r
 end

type ascii =
| Ascii of bool * bool * bool * bool * bool * bool * bool * bool

(** val zero : ascii **)

let zero =
  Ascii (false, false, false, false, false, false, false, false)

(** val one : ascii **)

let one =
  Ascii (true, false, false, false, false, false, false, false)

(** val shift : bool -> ascii -> ascii **)

let shift c = function
| Ascii (a1, a2, a3, a4, a5, a6, a7, _) ->
  Ascii (c, a1, a2, a3, a4, a5, a6, a7)

(** val eqb0 : ascii -> ascii -> bool **)

let eqb0 a b =
  let Ascii (a0, a1, a2, a3, a4, a5, a6, a7) = a in
  let Ascii (b0, b1, b2, b3, b4, b5, b6, b7) = b in
  if if if if if if if eqb a0 b0 then eqb a1 b1 else false
                 then eqb a2 b2
                 else false
              then eqb a3 b3
              else false
           then eqb a4 b4
           else false
        then eqb a5 b5
        else false
     then eqb a6 b6
     else false
  then eqb a7 b7
  else false

(** val ascii_of_pos : positive -> ascii **)

let ascii_of_pos =
  let rec loop n1 p =
    match n1 with
    | O -> zero
    | S n' ->
      (match p with
       | XI p' -> shift true (loop n' p')
       | XO p' -> shift false (loop n' p')
       | XH -> one)
  in loop (S (S (S (S (S (S (S (S O))))))))

(** val ascii_of_N : n -> ascii **)

let ascii_of_N = function
| N0 -> zero
| Npos p -> ascii_of_pos p

(** val ascii_of_nat : nat -> ascii **)

let ascii_of_nat a =
  ascii_of_N (N.of_nat a)

(** val n_of_digits : bool list -> n **)

let rec n_of_digits = function
| [] -> N0
| b :: l' ->
  N.add (if b then Npos XH else N0) (N.mul (Npos (XO XH)) (n_of_digits l'))

(** val n_of_ascii : ascii -> n **)

let n_of_ascii = function
| Ascii (a0, a1, a2, a3, a4, a5, a6, a7) ->
  n_of_digits
    (a0 :: (a1 :: (a2 :: (a3 :: (a4 :: (a5 :: (a6 :: (a7 :: []))))))))

type rule = { lhs : nat; rhs : nat list }

type grammar = rule list

type item = nat * nat

type state = { items : item list; gotos : (nat * nat) list }

type automaton = state list

type action =
| Shift of nat
| Reduce of nat
| Accept
| Error

type table = nat -> nat -> action

(** val eof : nat **)

let eof =
  S O

(** val assoc : nat -> (nat * nat) list -> nat option **)

let rec assoc k = function
| [] -> None
| p :: l' -> let (k', v) = p in if Nat.eqb k k' then Some v else assoc k l'

(** val st : automaton -> nat -> state **)

let st aut q =
  nth q aut { items = []; gotos = [] }

(** val goto : automaton -> nat -> nat -> nat option **)

let goto aut q x =
  assoc x (st aut q).gotos

(** val rhs_of : grammar -> nat -> nat list **)

let rhs_of g r =
  match nth_error g r with
  | Some r0 -> r0.rhs
  | None -> []

(** val lhs_of : grammar -> nat -> nat **)

let lhs_of g r =
  match nth_error g r with
  | Some r0 -> r0.lhs
  | None -> O

(** val next_sym : grammar -> item -> nat option **)

let next_sym g it =
  nth_error (rhs_of g (fst it)) (snd it)

(** val rules_for_aux : nat -> grammar -> nat -> item list **)

let rec rules_for_aux b g i =
  match g with
  | [] -> []
  | r :: g' ->
    app (if Nat.eqb r.lhs b then (i, O) :: [] else [])
      (rules_for_aux b g' (S i))

(** val rules_for : grammar -> nat -> item list **)

let rules_for g b =
  rules_for_aux b g O

(** val item_eqb : item -> item -> bool **)

let item_eqb a b =
  (&&) (Nat.eqb (fst a) (fst b)) (Nat.eqb (snd a) (snd b))

(** val mem : item -> item list -> bool **)

let rec mem x = function
| [] -> false
| y :: l' -> (||) (item_eqb x y) (mem x l')

(** val add_new : item list -> item list -> item list **)

let rec add_new news i =
  match news with
  | [] -> i
  | x :: n' -> if mem x i then add_new n' i else add_new n' (app i (x :: []))

(** val expand : grammar -> item -> item list **)

let expand g it =
  match next_sym g it with
  | Some b -> rules_for g b
  | None -> []

(** val closure_round : grammar -> item list -> item list **)

let closure_round g i =
  add_new (flat_map (expand g) i) i

(** val closure_iter : nat -> grammar -> item list -> item list **)

let rec closure_iter fuel g i =
  match fuel with
  | O -> i
  | S f ->
    let i' = closure_round g i in
    if Nat.eqb (length i') (length i) then i else closure_iter f g i'

(** val item_leb : item -> item -> bool **)

let item_leb a b =
  (||) (Nat.ltb (fst a) (fst b))
    ((&&) (Nat.eqb (fst a) (fst b)) (Nat.leb (snd a) (snd b)))

(** val insert : item -> item list -> item list **)

let rec insert x l = match l with
| [] -> x :: []
| y :: l' -> if item_leb x y then x :: l else y :: (insert x l')

(** val isort : item list -> item list **)

let rec isort = function
| [] -> []
| x :: l' -> insert x (isort l')

(** val closure : grammar -> item list -> item list **)

let closure g k =
  isort (closure_iter (S (length g)) g k)

(** val nmem : nat -> nat list -> bool **)

let rec nmem x = function
| [] -> false
| y :: l' -> (||) (Nat.eqb x y) (nmem x l')

(** val syms_after_aux : grammar -> item list -> nat list -> nat list **)

let rec syms_after_aux g i acc =
  match i with
  | [] -> acc
  | it :: i' ->
    (match next_sym g it with
     | Some x ->
       if nmem x acc
       then syms_after_aux g i' acc
       else syms_after_aux g i' (app acc (x :: []))
     | None -> syms_after_aux g i' acc)

(** val syms_after : grammar -> item list -> nat list **)

let syms_after g i =
  syms_after_aux g i []

(** val has_next : grammar -> nat -> item -> bool **)

let has_next g x it =
  match next_sym g it with
  | Some y -> Nat.eqb y x
  | None -> false

(** val advance : grammar -> item list -> nat -> item list **)

let advance g i x =
  map (fun it -> ((fst it), (S (snd it)))) (filter (has_next g x) i)

(** val list_eqb : item list -> item list -> bool **)

let rec list_eqb a b =
  match a with
  | [] -> (match b with
           | [] -> true
           | _ :: _ -> false)
  | x :: a' ->
    (match b with
     | [] -> false
     | y :: b' -> (&&) (item_eqb x y) (list_eqb a' b'))

(** val find_state : item list -> state list -> nat -> nat option **)

let rec find_state t sts i =
  match sts with
  | [] -> None
  | s :: sts' ->
    if list_eqb s.items t then Some i else find_state t sts' (S i)

(** val register :
    grammar -> item list -> nat list -> state list -> (nat * nat) list ->
    state list * (nat * nat) list **)

let rec register g i xs sts gts =
  match xs with
  | [] -> (sts, gts)
  | x :: xs' ->
    let t = closure g (advance g i x) in
    (match find_state t sts O with
     | Some j -> register g i xs' sts (app gts ((x, j) :: []))
     | None ->
       register g i xs' (app sts ({ items = t; gotos = [] } :: []))
         (app gts ((x, (length sts)) :: [])))

(** val set_gotos : state list -> nat -> (nat * nat) list -> state list **)

let rec set_gotos sts i gts =
  match sts with
  | [] -> []
  | s :: tl0 ->
    (match i with
     | O -> { items = s.items; gotos = gts } :: tl0
     | S i' -> s :: (set_gotos tl0 i' gts))

(** val build_loop :
    nat -> grammar -> state list -> nat -> state list option **)

let rec build_loop fuel g sts i =
  match fuel with
  | O -> None
  | S f ->
    (match nth_error sts i with
     | Some s ->
       let (sts', gts) = register g s.items (syms_after g s.items) sts [] in
       build_loop f g (set_gotos sts' i gts) (S i)
     | None -> Some sts)

(** val build : grammar -> automaton option **)

let build g =
  build_loop (S (S (S (S (S (S (S (S (S (S (S (S (S (S (S (S (S (S (S (S (S
    (S (S (S (S (S (S (S (S (S (S (S (S (S (S (S (S (S (S (S (S (S (S (S (S
    (S (S (S (S (S (S (S (S (S (S (S (S (S (S (S (S (S (S (S (S (S (S (S (S
    (S (S (S (S (S (S (S (S (S (S (S (S (S (S (S (S (S (S (S (S (S (S (S (S
    (S (S (S (S (S (S (S (S (S (S (S (S (S (S (S (S (S (S (S (S (S (S (S (S
    (S (S (S (S (S (S (S (S (S (S (S (S (S (S (S (S (S (S (S (S (S (S (S (S
    (S (S (S (S (S (S (S (S (S (S (S (S (S (S (S (S (S (S (S (S (S (S (S (S
    (S (S (S (S (S (S (S (S (S (S (S (S (S (S (S (S (S (S (S (S (S (S (S (S
    (S (S (S (S (S (S (S (S (S (S (S (S (S (S (S (S (S (S (S (S (S (S (S (S
    (S (S (S (S (S (S (S (S (S (S (S (S (S (S (S (S (S (S (S (S (S (S (S (S
    (S (S (S (S (S (S (S (S (S (S (S (S (S (S (S (S (S (S (S (S (S (S (S (S
    (S (S (S (S (S (S (S (S (S (S (S (S (S (S (S (S (S (S (S (S (S (S (S (S
    (S (S (S (S (S (S (S (S (S (S (S (S (S (S (S (S (S (S (S (S (S (S (S (S
    (S (S (S (S (S (S (S (S (S (S (S (S (S (S (S (S (S (S (S (S (S (S (S (S
    (S (S (S (S (S (S (S (S (S (S (S (S (S (S (S (S (S (S (S (S (S (S (S (S
    (S (S (S (S (S (S (S (S (S (S (S (S (S (S (S (S (S (S (S (S (S (S (S (S
    (S (S (S (S (S (S (S (S (S (S (S (S (S (S (S (S (S (S (S (S (S (S (S (S
    (S (S (S (S (S (S (S (S (S (S (S (S (S (S (S (S (S (S (S (S (S (S (S (S
    (S (S (S (S (S (S (S (S (S (S (S (S (S (S (S (S (S (S (S (S (S (S (S (S
    (S (S (S (S (S (S (S (S (S (S (S (S (S (S (S (S (S (S (S (S (S (S (S (S
    (S (S (S (S (S (S (S (S (S (S (S (S (S (S (S (S (S (S (S (S (S (S (S (S
    (S (S (S (S (S (S (S (S (S (S (S (S (S (S (S (S (S (S (S (S (S (S (S (S
    (S (S (S (S (S (S (S (S (S (S (S (S (S (S (S (S (S (S (S (S (S (S (S (S
    (S (S (S (S (S (S (S (S (S (S (S (S (S (S (S (S (S (S (S (S (S (S (S (S
    (S (S (S (S (S (S (S (S (S (S (S (S (S (S (S (S (S (S (S (S (S (S (S (S
    (S (S (S (S (S (S (S (S (S (S (S (S (S (S (S (S (S (S (S (S (S (S (S (S
    (S (S (S (S (S (S (S (S (S (S (S (S (S (S (S (S (S (S (S (S (S (S (S (S
    (S (S (S (S (S (S (S (S (S (S (S (S (S (S (S (S (S (S (S (S (S (S (S (S
    (S (S (S (S (S (S (S (S (S (S (S (S (S (S (S (S (S (S (S (S (S (S (S (S
    (S (S (S (S (S (S (S (S (S (S (S (S (S (S (S (S (S (S (S (S (S (S (S (S
    (S (S (S (S (S (S (S (S (S (S (S (S (S (S (S (S (S (S (S (S (S (S (S (S
    (S (S (S (S (S (S (S (S (S (S (S (S (S (S (S (S (S (S (S (S (S (S (S (S
    (S (S (S (S (S (S (S (S (S (S (S (S (S (S (S (S (S (S (S (S (S (S (S (S
    (S (S (S (S (S (S (S (S (S (S (S (S (S (S (S (S (S (S (S (S (S (S (S (S
    (S (S (S (S (S (S (S (S (S (S (S (S (S (S (S (S (S (S (S (S (S (S (S (S
    (S (S (S (S (S (S (S (S (S (S (S (S (S (S (S (S (S (S (S (S (S (S (S (S
    (S (S (S (S (S (S (S (S (S (S (S (S (S (S (S (S (S (S (S (S (S (S (S (S
    (S (S (S (S (S (S (S (S (S (S (S (S (S (S (S (S (S (S (S (S (S (S (S (S
    (S (S (S (S (S (S (S (S (S (S (S (S (S (S (S (S (S (S (S (S (S (S (S (S
    (S (S (S (S (S (S (S (S (S (S (S (S (S (S (S (S (S (S (S (S (S (S (S (S
    (S (S (S (S (S (S (S (S (S (S (S (S (S (S (S (S (S (S (S (S (S (S (S (S
    (S (S (S (S (S (S (S (S (S (S (S (S (S (S (S (S (S (S (S (S (S (S (S (S
    (S (S (S (S (S (S (S (S (S (S (S (S (S (S (S (S (S (S (S (S (S (S (S (S
    (S (S (S (S (S (S (S (S (S (S (S (S (S (S (S (S (S (S (S (S (S (S (S (S
    (S (S (S (S (S (S (S (S (S (S (S (S (S (S (S (S (S (S (S (S (S (S (S (S
    (S (S (S (S (S (S (S (S (S (S (S (S (S (S (S (S (S (S (S (S (S (S (S (S
    (S (S (S (S (S (S (S (S (S (S (S (S (S (S (S (S (S (S (S (S (S (S (S (S
    (S (S (S (S (S (S (S (S (S (S (S (S (S (S (S (S (S (S (S (S (S (S (S (S
    (S (S (S (S (S (S (S (S (S (S (S (S (S (S (S (S (S (S (S (S (S (S (S (S
    (S (S (S (S (S (S (S (S (S (S (S (S (S (S (S (S (S (S (S (S (S (S (S (S
    (S (S (S (S (S (S (S (S (S (S (S (S (S (S (S (S (S (S (S (S (S (S (S (S
    (S (S (S (S (S (S (S (S (S (S (S (S (S (S (S (S (S (S (S (S (S (S (S (S
    (S (S (S (S (S (S (S (S (S (S (S (S (S (S (S (S (S (S (S (S (S (S (S (S
    (S (S (S (S (S (S (S (S (S (S (S (S (S (S (S (S (S (S (S (S (S (S (S (S
    (S (S (S (S (S (S (S (S (S (S (S (S (S (S (S (S (S (S (S (S (S (S (S (S
    (S (S (S (S (S (S (S (S (S (S (S (S (S (S (S (S (S (S (S (S (S (S (S (S
    (S (S (S (S (S (S (S (S (S (S (S (S (S (S (S (S (S (S (S (S (S (S (S (S
    (S (S (S (S (S (S (S (S (S (S (S (S (S (S (S (S (S (S (S (S (S (S (S (S
    (S (S (S (S (S (S (S (S (S (S (S (S (S (S (S (S (S (S (S (S (S (S (S (S
    (S (S (S (S (S (S (S (S (S (S (S (S (S (S (S (S (S (S (S (S (S (S (S (S
    (S (S (S (S (S (S (S (S (S (S (S (S (S (S (S (S (S (S (S (S (S (S (S (S
    (S (S (S (S (S (S (S (S (S (S (S (S (S (S (S (S (S (S (S (S (S (S (S (S
    (S (S (S (S (S (S (S (S (S (S (S (S (S (S (S (S (S (S (S (S (S (S (S (S
    (S (S (S (S (S (S (S (S (S (S (S (S (S (S (S (S (S (S (S (S (S (S (S (S
    (S (S (S (S (S (S (S (S (S (S (S (S (S (S (S (S (S (S (S (S (S (S (S (S
    (S (S (S (S (S (S (S (S (S (S (S (S (S (S (S (S (S (S (S (S (S (S (S (S
    (S (S (S (S (S (S (S (S (S (S (S (S (S (S (S (S (S (S (S (S (S (S (S (S
    (S (S (S (S (S (S (S (S (S (S (S (S (S (S (S (S (S (S (S (S (S (S (S (S
    (S (S (S (S (S (S (S (S (S (S (S (S (S (S (S (S (S (S (S (S (S (S (S (S
    (S (S (S (S (S (S (S (S (S (S (S (S (S (S (S (S (S (S (S (S (S (S (S (S
    (S (S (S (S (S (S (S (S (S (S (S (S (S (S (S (S (S (S (S (S (S (S (S (S
    (S (S (S (S (S (S (S (S (S (S (S (S (S (S (S (S (S (S (S (S (S (S (S (S
    (S (S (S (S (S (S (S (S (S (S (S (S (S (S (S (S (S (S (S (S (S (S (S (S
    (S (S (S (S (S (S (S (S (S (S (S (S (S (S (S (S (S (S (S (S (S (S (S (S
    (S (S (S (S (S (S (S (S (S (S (S (S (S (S (S (S (S (S (S (S (S (S (S (S
    (S (S (S (S (S (S (S (S (S (S (S (S (S (S (S (S (S (S (S (S (S (S (S (S
    (S (S (S (S (S (S (S (S (S (S (S (S (S (S (S (S (S (S (S (S (S (S (S (S
    (S (S (S (S (S (S (S (S (S (S (S (S (S (S (S (S (S (S (S (S (S (S (S (S
    (S (S (S (S (S (S (S (S (S (S (S (S (S (S (S (S (S (S (S (S (S (S (S (S
    (S (S (S (S (S (S (S (S (S (S (S (S (S (S (S (S (S (S (S (S (S (S (S (S
    (S (S (S (S (S (S (S (S (S (S (S (S (S (S (S (S (S (S (S (S (S (S (S (S
    (S (S (S (S (S (S (S (S (S (S (S (S (S (S (S (S (S (S (S (S (S (S (S (S
    (S (S (S (S (S (S (S (S (S (S (S (S (S (S (S (S (S (S (S (S (S (S (S (S
    (S (S (S (S (S (S (S (S (S (S (S
    O))))))))))))))))))))))))))))))))))))))))))))))))))))))))))))))))))))))))))))))))))))))))))))))))))))))))))))))))))))))))))))))))))))))))))))))))))))))))))))))))))))))))))))))))))))))))))))))))))))))))))))))))))))))))))))))))))))))))))))))))))))))))))))))))))))))))))))))))))))))))))))))))))))))))))))))))))))))))))))))))))))))))))))))))))))))))))))))))))))))))))))))))))))))))))))))))))))))))))))))))))))))))))))))))))))))))))))))))))))))))))))))))))))))))))))))))))))))))))))))))))))))))))))))))))))))))))))))))))))))))))))))))))))))))))))))))))))))))))))))))))))))))))))))))))))))))))))))))))))))))))))))))))))))))))))))))))))))))))))))))))))))))))))))))))))))))))))))))))))))))))))))))))))))))))))))))))))))))))))))))))))))))))))))))))))))))))))))))))))))))))))))))))))))))))))))))))))))))))))))))))))))))))))))))))))))))))))))))))))))))))))))))))))))))))))))))))))))))))))))))))))))))))))))))))))))))))))))))))))))))))))))))))))))))))))))))))))))))))))))))))))))))))))))))))))))))))))))))))))))))))))))))))))))))))))))))))))))))))))))))))))))))))))))))))))))))))))))))))))))))))))))))))))))))))))))))))))))))))))))))))))))))))))))))))))))))))))))))))))))))))))))))))))))))))))))))))))))))))))))))))))))))))))))))))))))))))))))))))))))))))))))))))))))))))))))))))))))))))))))))))))))))))))))))))))))))))))))))))))))))))))))))))))))))))))))))))))))))))))))))))))))))))))))))))))))))))))))))))))))))))))))))))))))))))))))))))))))))))))))))))))))))))))))))))))))))))))))))))))))))))))))))))))))))))))))))))))))))))))))))))))))))))))))))))))))))))))))))))))))))))))))))))))))))))))))))))))))))))))))))))))))))))))))))))))))))))))))))))))))))))))))))))))))))))))))))))))))))))))))))))))))))))))))))))))))))))))))))))))))))))))))))))))))))))))))))))))))))))))))))))))))))))))))))))))))))))))))))))))))))))))))))))))))))))))))))))))))))))))))))))))))))))))))))))))))))))))))))))))))))))))))))))))))))))))))))))))))))))))))))))))))))))))))))))))))))))))))))))))))))))))))))))))))))))))))))))))))))))))))))
    g ({ items = (closure g ((O, O) :: [])); gotos = [] } :: []) O

type assoc0 =
| LEFT
| RIGHT
| NONE

type kind =
| KShift of nat
| KReduce of nat
| KError

type cand = { c_kind : kind; c_prec : z; c_assoc : assoc0 }

(** val is_shift : cand -> bool **)

let is_shift a =
  match a.c_kind with
  | KShift _ -> true
  | _ -> false

(** val is_reduce : cand -> bool **)

let is_reduce a =
  match a.c_kind with
  | KReduce _ -> true
  | _ -> false

(** val action_index : cand -> z **)

let action_index a =
  match a.c_kind with
  | KShift q -> Z.of_nat q
  | KReduce r -> Z.opp (Z.of_nat r)
  | KError -> Z0

(** val resolve_pair : cand -> cand -> cand option **)

let resolve_pair a1 a2 =
  if (&&) (is_reduce a2) (is_shift a1)
  then if (||) (Z.eqb a2.c_prec (Zneg XH)) (Z.eqb a1.c_prec (Zneg XH))
       then None
       else if Z.gtb a2.c_prec a1.c_prec
            then Some a2
            else if Z.eqb a2.c_prec a1.c_prec
                 then (match a2.c_assoc with
                       | LEFT ->
                         (match a1.c_assoc with
                          | NONE ->
                            Some { c_kind = KError; c_prec = a2.c_prec;
                              c_assoc = NONE }
                          | _ -> Some a2)
                       | RIGHT ->
                         (match a1.c_assoc with
                          | NONE ->
                            Some { c_kind = KError; c_prec = a2.c_prec;
                              c_assoc = NONE }
                          | _ -> Some a1)
                       | NONE ->
                         Some { c_kind = KError; c_prec = a2.c_prec;
                           c_assoc = NONE })
                 else Some a1
  else if (||) (Z.eqb a1.c_prec (Zneg XH)) (Z.eqb a2.c_prec (Zneg XH))
       then None
       else if Z.gtb a1.c_prec a2.c_prec
            then Some a1
            else if Z.eqb a1.c_prec a2.c_prec
                 then (match a1.c_assoc with
                       | LEFT ->
                         (match a2.c_assoc with
                          | NONE ->
                            Some { c_kind = KError; c_prec = a1.c_prec;
                              c_assoc = NONE }
                          | _ -> Some a1)
                       | RIGHT ->
                         (match a2.c_assoc with
                          | NONE ->
                            Some { c_kind = KError; c_prec = a1.c_prec;
                              c_assoc = NONE }
                          | _ -> Some a2)
                       | NONE ->
                         Some { c_kind = KError; c_prec = a1.c_prec;
                           c_assoc = NONE })
                 else Some a2

(** val default_pair : cand -> cand -> cand **)

let default_pair a1 a2 =
  if is_shift a1
  then a1
  else if is_shift a2
       then a2
       else if Z.ltb (action_index a1) (action_index a2) then a2 else a1

(** val resolve_from : cand -> cand list -> cand * bool **)

let rec resolve_from a = function
| [] -> (a, false)
| b :: rest' ->
  (match resolve_pair a b with
   | Some w -> resolve_from w rest'
   | None -> let (w, _) = resolve_from (default_pair a b) rest' in (w, true))

(** val resolve : cand list -> (cand * bool) option **)

let resolve = function
| [] -> None
| a :: rest -> Some (resolve_from a rest)

(** val sh : nat -> z -> assoc0 -> cand **)

let sh q p a =
  { c_kind = (KShift q); c_prec = p; c_assoc = a }

(** val rd : nat -> z -> assoc0 -> cand **)

let rd r p a =
  { c_kind = (KReduce r); c_prec = p; c_assoc = a }

(** val complete_rules : grammar -> automaton -> nat -> nat list **)

let complete_rules g aut q =
  map fst
    (filter (fun it -> Nat.eqb (snd it) (length (rhs_of g (fst it))))
      (st aut q).items)

(** val nmem0 : nat -> nat list -> bool **)

let rec nmem0 x = function
| [] -> false
| y :: l' -> (||) (Nat.eqb x y) (nmem0 x l')

(** val la' : (nat -> nat -> nat list) -> nat -> nat -> nat list **)

let la' la0 q r =
  if Nat.eqb r O then eof :: [] else la0 q r

(** val candidates :
    grammar -> automaton -> (nat -> nat -> nat list) -> (nat -> z * assoc0)
    -> (nat -> z * assoc0) -> nat -> nat -> cand list **)

let candidates g aut la0 sprec rprec q a =
  app
    (match goto aut q a with
     | Some q' -> (sh q' (fst (sprec a)) (snd (sprec a))) :: []
     | None -> [])
    (map (fun r -> rd r (fst (rprec r)) (snd (rprec r)))
      (filter (fun r -> nmem0 a (la' la0 q r)) (complete_rules g aut q)))

(** val decode : kind -> action **)

let decode = function
| KShift q' -> Shift q'
| KReduce r -> (match r with
                | O -> Accept
                | S _ -> Reduce r)
| KError -> Error

(** val gen_table :
    grammar -> automaton -> (nat -> nat -> nat list) -> (nat -> z * assoc0)
    -> (nat -> z * assoc0) -> table **)

let gen_table g aut la0 sprec rprec q a =
  match resolve (candidates g aut la0 sprec rprec q a) with
  | Some p -> let (w, _) = p in decode w.c_kind
  | None -> Error

type ntrans = nat * nat

(** val mem0 : ('a1 -> 'a1 -> bool) -> 'a1 -> 'a1 list -> bool **)

let rec mem0 eqb1 x = function
| [] -> false
| y :: l' -> (||) (eqb1 x y) (mem0 eqb1 x l')

(** val add_new0 :
    ('a1 -> 'a1 -> bool) -> 'a1 list -> 'a1 list -> 'a1 list **)

let rec add_new0 eqb1 news i =
  match news with
  | [] -> i
  | x :: n' ->
    if mem0 eqb1 x i
    then add_new0 eqb1 n' i
    else add_new0 eqb1 n' (app i (x :: []))

(** val round :
    ('a1 -> 'a1 -> bool) -> ('a1 -> 'a1 list) -> 'a1 list -> 'a1 list **)

let round eqb1 succ0 i =
  add_new0 eqb1 (flat_map succ0 i) i

(** val saturate :
    ('a1 -> 'a1 -> bool) -> ('a1 -> 'a1 list) -> nat -> 'a1 list -> 'a1 list **)

let rec saturate eqb1 succ0 fuel i =
  match fuel with
  | O -> i
  | S f ->
    let i' = round eqb1 succ0 i in
    if Nat.eqb (length i') (length i) then i else saturate eqb1 succ0 f i'

(** val ntrans_eqb : ntrans -> ntrans -> bool **)

let ntrans_eqb x y =
  (&&) (Nat.eqb (fst x) (fst y)) (Nat.eqb (snd x) (snd y))

(** val walk : automaton -> nat -> nat list -> nat option **)

let rec walk aut p = function
| [] -> Some p
| x :: a -> (match goto aut p x with
             | Some p1 -> walk aut p1 a
             | None -> None)

(** val keys : automaton -> nat -> nat list **)

let keys aut q =
  map fst (st aut q).gotos

(** val dRl : automaton -> nat -> (nat -> bool) -> ntrans -> nat list **)

let dRl aut s0 is_nt_b0 x =
  app
    (match goto aut (fst x) (snd x) with
     | Some r -> filter (fun t -> negb (is_nt_b0 t)) (keys aut r)
     | None -> []) (if ntrans_eqb x (O, s0) then eof :: [] else [])

(** val reads_succ : automaton -> (nat -> bool) -> ntrans -> ntrans list **)

let reads_succ aut nullable_b x =
  match goto aut (fst x) (snd x) with
  | Some r -> map (fun c -> (r, c)) (filter nullable_b (keys aut r))
  | None -> []

(** val all_trans : automaton -> ntrans list **)

let all_trans aut =
  flat_map (fun p -> map (fun x -> (p, x)) (keys aut p)) (seq O (length aut))

(** val readl :
    automaton -> nat -> (nat -> bool) -> (nat -> bool) -> ntrans -> nat list **)

let readl aut s0 nullable_b is_nt_b0 x =
  flat_map (dRl aut s0 is_nt_b0)
    (saturate ntrans_eqb (reads_succ aut nullable_b) (S
      (length (all_trans aut))) (x :: []))

(** val nullable_seq_b : (nat -> bool) -> nat list -> bool **)

let nullable_seq_b =
  forallb

(** val has_trans : automaton -> ntrans -> bool **)

let has_trans aut x =
  match goto aut (fst x) (snd x) with
  | Some _ -> true
  | None -> false

(** val includes_succ :
    grammar -> automaton -> (nat -> bool) -> ntrans -> ntrans list **)

let includes_succ g aut nullable_b x =
  flat_map (fun r ->
    match nth_error g r with
    | Some r0 ->
      if Nat.eqb r O
      then []
      else flat_map (fun d0 ->
             match nth_error r0.rhs d0 with
             | Some a ->
               if (&&) (Nat.eqb a (snd x))
                    (nullable_seq_b nullable_b (skipn (S d0) r0.rhs))
               then flat_map (fun p' ->
                      match walk aut p' (firstn d0 r0.rhs) with
                      | Some p ->
                        if (&&) (Nat.eqb p (fst x))
                             (has_trans aut (p', r0.lhs))
                        then (p', r0.lhs) :: []
                        else []
                      | None -> []) (seq O (length aut))
               else []
             | None -> []) (seq O (length r0.rhs))
    | None -> []) (seq O (length g))

(** val followl :
    grammar -> automaton -> nat -> (nat -> bool) -> (nat -> bool) -> ntrans
    -> nat list **)

let followl g aut s0 nullable_b is_nt_b0 x =
  flat_map (readl aut s0 nullable_b is_nt_b0)
    (saturate ntrans_eqb (includes_succ g aut nullable_b) (S
      (length (all_trans aut))) (x :: []))

(** val lookback : grammar -> automaton -> nat -> nat -> ntrans list **)

let lookback g aut q r =
  flat_map (fun p ->
    match walk aut p (rhs_of g r) with
    | Some q1 ->
      if (&&) (Nat.eqb q1 q) (has_trans aut (p, (lhs_of g r)))
      then (p, (lhs_of g r)) :: []
      else []
    | None -> []) (seq O (length aut))

(** val nmem1 : nat -> nat list -> bool **)

let rec nmem1 x = function
| [] -> false
| y :: l' -> (||) (Nat.eqb x y) (nmem1 x l')

(** val nzpos : nat -> (nat -> nat -> z) -> nat -> nat list **)

let nzpos cols cell i =
  filter (fun j -> negb (Z.eqb (cell i j) Z0)) (seq O cols)

(** val overlaps : nat list -> nat list -> nat -> bool **)

let overlaps occ0 nz d0 =
  existsb (fun j -> nmem1 (add d0 j) occ0) nz

(** val first_fit : nat list -> nat list -> nat -> nat -> nat **)

let rec first_fit occ0 nz fuel d0 =
  match fuel with
  | O -> d0
  | S f -> if overlaps occ0 nz d0 then first_fit occ0 nz f (S d0) else d0

type slot = nat * (nat * nat)

(** val place_row :
    nat -> (nat -> nat -> z) -> nat -> ((nat list * (nat * nat) list) * slot
    list) -> (nat list * (nat * nat) list) * (nat * (nat * nat)) list **)

let place_row cols cell i = function
| (p, slots0) ->
  let (occ0, disp0) = p in
  let nz = nzpos cols cell i in
  let d0 = first_fit occ0 nz (S (list_max occ0)) O in
  (((app (map (fun j -> add d0 j) nz) occ0), ((i, d0) :: disp0)),
  (app (map (fun j -> ((add d0 j), (i, j))) nz) slots0))

(** val place_all :
    nat -> (nat -> nat -> z) -> nat list -> (nat list * (nat * nat)
    list) * slot list **)

let place_all cols cell order =
  fold_left (fun st1 i -> place_row cols cell i st1) order (([], []), [])

(** val assoc1 : nat -> (nat * 'a1) list -> 'a1 option **)

let rec assoc1 k = function
| [] -> None
| p :: l' -> let (k', v) = p in if Nat.eqb k k' then Some v else assoc1 k l'

(** val lead0 : z list -> nat **)

let rec lead0 = function
| [] -> O
| z0 :: l' -> if Z.eqb z0 Z0 then S (lead0 l') else O

(** val st0 :
    nat -> (nat -> nat -> z) -> nat list -> (nat list * (nat * nat)
    list) * slot list **)

let st0 =
  place_all

(** val occ : nat -> (nat -> nat -> z) -> nat list -> nat list **)

let occ cols cell order =
  fst (fst (st0 cols cell order))

(** val disp : nat -> (nat -> nat -> z) -> nat list -> (nat * nat) list **)

let disp cols cell order =
  snd (fst (st0 cols cell order))

(** val slots : nat -> (nat -> nat -> z) -> nat list -> slot list **)

let slots cols cell order =
  snd (st0 cols cell order)

(** val n0 : nat -> (nat -> nat -> z) -> nat list -> nat **)

let n0 cols cell order =
  S (list_max (occ cols cell order))

(** val tarr : nat -> (nat -> nat -> z) -> nat list -> z list **)

let tarr cols cell order =
  map (fun p ->
    match assoc1 p (slots cols cell order) with
    | Some p0 -> let (i, j) = p0 in cell i j
    | None -> Z0) (seq O (n0 cols cell order))

(** val carr : nat -> (nat -> nat -> z) -> nat list -> z list **)

let carr cols cell order =
  map (fun p ->
    match assoc1 p (slots cols cell order) with
    | Some p0 -> let (i, _) = p0 in Z.of_nat i
    | None -> Zneg XH) (seq O (n0 cols cell order))

(** val trim : nat -> (nat -> nat -> z) -> nat list -> nat **)

let trim cols cell order =
  lead0 (tarr cols cell order)

(** val t' : nat -> (nat -> nat -> z) -> nat list -> z list **)

let t' cols cell order =
  skipn (trim cols cell order) (tarr cols cell order)

(** val c' : nat -> (nat -> nat -> z) -> nat list -> z list **)

let c' cols cell order =
  skipn (trim cols cell order) (carr cols cell order)

(** val d : nat -> (nat -> nat -> z) -> nat list -> nat -> z **)

let d cols cell order i =
  Z.sub
    (match assoc1 i (disp cols cell order) with
     | Some d0 -> Z.of_nat d0
     | None -> Z0) (Z.of_nat (trim cols cell order))

(** val nmem2 : nat -> nat list -> bool **)

let rec nmem2 x = function
| [] -> false
| y :: l' -> (||) (Nat.eqb x y) (nmem2 x l')

(** val can : (nat -> bool) -> nat list -> nat -> bool **)

let can is_term p x =
  (||) (is_term x) (nmem2 x p)

(** val sweep : (nat -> bool) -> rule list -> nat list -> nat list **)

let rec sweep is_term rules p =
  match rules with
  | [] -> p
  | r :: rest ->
    if (&&) (forallb (can is_term p) r.rhs) (negb (can is_term p r.lhs))
    then sweep is_term rest (app p (r.lhs :: []))
    else sweep is_term rest p

(** val iterate : grammar -> (nat -> bool) -> nat -> nat list -> nat list **)

let rec iterate g is_term fuel p =
  match fuel with
  | O -> p
  | S f ->
    let p' = sweep is_term g p in
    if Nat.eqb (length p') (length p) then p else iterate g is_term f p'

(** val productive_set : grammar -> (nat -> bool) -> nat list **)

let productive_set g is_term =
  iterate g is_term (S (length g)) []

type ginfo = { gi_rules : grammar; gi_nsyms : nat; gi_nterm : nat;
               gi_sprec : (z * assoc0) list; gi_rprec : (z * assoc0) list }

(** val no_prec : z * assoc0 **)

let no_prec =
  ((Zneg XH), NONE)

(** val sprec_of : ginfo -> nat -> z * assoc0 **)

let sprec_of gi a =
  nth a gi.gi_sprec no_prec

(** val rprec_of : ginfo -> nat -> z * assoc0 **)

let rprec_of gi r =
  nth r gi.gi_rprec no_prec

(** val is_nt_b : grammar -> nat -> bool **)

let is_nt_b g x =
  existsb (fun r -> Nat.eqb r.lhs x) g

(** val nullable_list : grammar -> nat list **)

let nullable_list g =
  productive_set g (fun _ -> false)

(** val productive_list : grammar -> nat list **)

let productive_list g =
  productive_set g (fun x -> negb (is_nt_b g x))

(** val unproductive : ginfo -> nat list **)

let unproductive gi =
  filter (fun x ->
    (&&) (is_nt_b gi.gi_rules x)
      (negb (nmem2 x (productive_list gi.gi_rules)))) (seq O gi.gi_nsyms)

(** val start_user : grammar -> nat **)

let start_user g =
  hd O (rhs_of g O)

(** val follow_table : grammar -> automaton -> (ntrans * nat list) list **)

let follow_table g aut =
  let nl0 = nullable_list g in
  let nb = fun x -> nmem2 x nl0 in
  map (fun x -> (x, (followl g aut (start_user g) nb (is_nt_b g) x)))
    (all_trans aut)

(** val follow_lookup : (ntrans * nat list) list -> ntrans -> nat list **)

let rec follow_lookup ft x =
  match ft with
  | [] -> []
  | p :: ft' ->
    let (y, l) = p in if ntrans_eqb x y then l else follow_lookup ft' x

(** val la_fast :
    grammar -> automaton -> (ntrans * nat list) list -> nat -> nat -> nat list **)

let la_fast g aut ft q r =
  if Nat.eqb r O
  then eof :: []
  else flat_map (follow_lookup ft) (lookback g aut q r)

(** val la_table : grammar -> automaton -> (nat * nat list) list list **)

let la_table g aut =
  let ft = follow_table g aut in
  map (fun q ->
    map (fun r -> (r, (la_fast g aut ft q r))) (complete_rules g aut q))
    (seq O (length aut))

(** val assoc_list : nat -> (nat * 'a1 list) list -> 'a1 list **)

let rec assoc_list k = function
| [] -> []
| p :: l' -> let (k', v) = p in if Nat.eqb k k' then v else assoc_list k l'

(** val la_lookup : (nat * nat list) list list -> nat -> nat -> nat list **)

let la_lookup tabl q r =
  assoc_list r (nth q tabl [])

(** val err_code : nat -> z **)

let err_code n1 =
  Z.of_nat
    (add n1 (S (S (S (S (S (S (S (S (S (S (S (S (S (S (S (S (S (S (S (S (S (S
      (S (S (S (S (S (S (S (S (S (S (S (S (S (S (S (S (S (S (S (S (S (S (S (S
      (S (S (S (S (S (S (S (S (S (S (S (S (S (S (S (S (S (S (S (S (S (S (S (S
      (S (S (S (S (S (S (S (S (S (S (S (S (S (S (S (S (S (S (S (S (S (S (S (S
      (S (S (S (S (S (S
      O)))))))))))))))))))))))))))))))))))))))))))))))))))))))))))))))))))))))))))))))))))))))))))))))))))))

(** val acc_code : nat -> z **)

let acc_code n1 =
  Z.of_nat
    (add n1 (S (S (S (S (S (S (S (S (S (S (S (S (S (S (S (S (S (S (S (S (S (S
      (S (S (S (S (S (S (S (S (S (S (S (S (S (S (S (S (S (S (S (S (S (S (S (S
      (S (S (S (S (S (S (S (S (S (S (S (S (S (S (S (S (S (S (S (S (S (S (S (S
      (S (S (S (S (S (S (S (S (S (S (S (S (S (S (S (S (S (S (S (S (S (S (S (S
      (S (S (S (S (S (S (S (S (S (S (S (S (S (S (S (S (S (S (S (S (S (S (S (S
      (S (S (S (S (S (S (S (S (S (S (S (S (S (S (S (S (S (S (S (S (S (S (S (S
      (S (S (S (S (S (S (S (S (S (S (S (S (S (S (S (S (S (S (S (S (S (S (S (S
      (S (S (S (S (S (S (S (S (S (S (S (S (S (S (S (S (S (S (S (S (S (S (S (S
      (S (S (S (S (S (S (S (S (S (S
      O)))))))))))))))))))))))))))))))))))))))))))))))))))))))))))))))))))))))))))))))))))))))))))))))))))))))))))))))))))))))))))))))))))))))))))))))))))))))))))))))))))))))))))))))))))))))))))))))))))))))))

(** val encode : nat -> action -> z **)

let encode n1 = function
| Shift q -> Z.of_nat q
| Reduce r -> Z.opp (Z.of_nat r)
| Accept -> acc_code n1
| Error -> err_code n1

(** val decode_z : nat -> z -> action **)

let decode_z n1 z0 =
  if Z.eqb z0 (err_code n1)
  then Error
  else if Z.eqb z0 (acc_code n1)
       then Accept
       else if Z.ltb Z0 z0
            then Shift (Z.to_nat z0)
            else Reduce (Z.to_nat (Z.opp z0))

(** val action_fun :
    ginfo -> automaton -> (nat * nat list) list list -> table **)

let action_fun gi aut tabl =
  gen_table gi.gi_rules aut (la_lookup tabl) (sprec_of gi) (rprec_of gi)

(** val dense_of : nat -> nat -> table -> z list list **)

let dense_of nstates nsyms t =
  map (fun q -> map (fun a -> encode nstates (t q a)) (seq O nsyms))
    (seq O nstates)

(** val kind_tag : cand -> nat **)

let kind_tag c =
  match c.c_kind with
  | KShift _ -> O
  | KReduce _ -> S O
  | KError -> S (S O)

(** val warn_pairs : cand -> cand list -> (nat * nat) list **)

let rec warn_pairs a = function
| [] -> []
| b :: rest' ->
  (match resolve_pair a b with
   | Some w -> warn_pairs w rest'
   | None ->
     ((kind_tag a), (kind_tag b)) :: (warn_pairs (default_pair a b) rest'))

(** val cell_warnings : cand list -> (nat * nat) list **)

let cell_warnings = function
| [] -> []
| a :: rest -> warn_pairs a rest

(** val warnings :
    ginfo -> automaton -> (nat * nat list) list list ->
    ((nat * nat) * (nat * nat)) list **)

let warnings gi aut tabl =
  flat_map (fun q ->
    flat_map (fun a ->
      map (fun w -> ((q, a), w))
        (cell_warnings
          (candidates gi.gi_rules aut (la_lookup tabl) (sprec_of gi)
            (rprec_of gi) q a))) (seq O gi.gi_nsyms)) (seq O (length aut))

(** val conflict_cells :
    ginfo -> automaton -> (nat * nat list) list list -> (nat * nat) list **)

let conflict_cells gi aut tabl =
  flat_map (fun q ->
    flat_map (fun a ->
      if Nat.leb (S (S O))
           (length
             (candidates gi.gi_rules aut (la_lookup tabl) (sprec_of gi)
               (rprec_of gi) q a))
      then (q, a) :: []
      else []) (seq O gi.gi_nsyms)) (seq O (length aut))

(** val cellz : z list list -> nat -> nat -> z **)

let cellz m i j =
  nth j (nth i m []) Z0

(** val count_z : z -> z list -> nat **)

let rec count_z z0 = function
| [] -> O
| y :: l' -> add (if Z.eqb z0 y then S O else O) (count_z z0 l')

(** val max_occ_aux : z list -> z list -> z -> nat -> z **)

let rec max_occ_aux row rest best bestn =
  match rest with
  | [] -> best
  | z0 :: rest' ->
    let c = count_z z0 row in
    if Nat.ltb bestn c
    then max_occ_aux row rest' z0 c
    else max_occ_aux row rest' best bestn

(** val max_occ : z list -> z **)

let max_occ row =
  max_occ_aux row row Z0 O

type packed = { p_act : z list; p_off : z list; p_chk : z list;
                p_adef : z list; p_gdef : z list; p_nterm : nat; p_err : 
                z }

(** val act_part : nat -> z list -> z list **)

let act_part nterm row =
  firstn (S nterm) row

(** val goto_col : z list list -> nat -> z list **)

let goto_col dense c =
  map (fun row -> nth c row Z0) dense

(** val act_defaults : z list list -> nat -> z list **)

let act_defaults dense nterm =
  map (fun row -> max_occ (act_part nterm row)) dense

(** val goto_defaults : z list list -> nat -> nat -> z list **)

let goto_defaults dense nterm nsyms =
  map (fun c -> max_occ (goto_col dense c))
    (seq (S nterm) (sub nsyms (S nterm)))

(** val blanked : z list list -> nat -> nat -> z list list **)

let blanked dense nterm nsyms =
  let ad = act_defaults dense nterm in
  let gd = goto_defaults dense nterm nsyms in
  map (fun q ->
    map (fun a ->
      let v = cellz dense q a in
      let d0 =
        if Nat.leb a nterm then nth q ad Z0 else nth (sub a (S nterm)) gd Z0
      in
      if Z.eqb v d0 then Z0 else v) (seq O nsyms)) (seq O (length dense))

(** val nzcount : z list list -> nat -> nat **)

let nzcount m i =
  length (filter (fun z0 -> negb (Z.eqb z0 Z0)) (nth i m []))

(** val ins_desc : (nat -> nat) -> nat -> nat list -> nat list **)

let rec ins_desc key x l = match l with
| [] -> x :: []
| y :: l' ->
  if Nat.leb (key y) (key x) then x :: l else y :: (ins_desc key x l')

(** val sort_desc : (nat -> nat) -> nat list -> nat list **)

let sort_desc key l =
  fold_right (ins_desc key) [] l

(** val row_order : z list list -> nat list **)

let row_order m =
  sort_desc (nzcount m) (seq O (length m))

(** val pack_matrix : z list list -> nat -> (z list * z list) * z list **)

let pack_matrix m cols =
  let rows = length m in
  let order = row_order m in
  (((t' cols (cellz m) order), (map (d cols (cellz m) order) (seq O rows))),
  (c' cols (cellz m) order))

(** val compress : z list list -> nat -> nat -> nat -> packed **)

let compress dense nterm nsyms nstates =
  let (p, c) = pack_matrix (blanked dense nterm nsyms) nsyms in
  let (t, d0) = p in
  { p_act = t; p_off = d0; p_chk = c; p_adef = (act_defaults dense nterm);
  p_gdef = (goto_defaults dense nterm nsyms); p_nterm = nterm; p_err =
  (err_code nstates) }

(** val packed_lookup : packed -> nat -> nat -> z **)

let packed_lookup p s a =
  let o = Z.add (nth s p.p_off Z0) (Z.of_nat a) in
  if Z.ltb o Z0
  then p.p_err
  else if (||) (Z.leb (Z.of_nat (length p.p_chk)) o)
            (negb (Z.eqb (nth (Z.to_nat o) p.p_chk (Zneg XH)) (Z.of_nat s)))
       then if Nat.ltb p.p_nterm a
            then nth (sub (sub a p.p_nterm) (S O)) p.p_gdef Z0
            else nth s p.p_adef Z0
       else nth (Z.to_nat o) p.p_act Z0

(** val unpack : nat -> nat -> z list -> z list -> z list -> z list list **)

let unpack rows cols t d0 c =
  map (fun i ->
    map (fun j ->
      let o = Z.add (nth i d0 Z0) (Z.of_nat j) in
      if (||) ((||) (Z.ltb o Z0) (Z.leb (Z.of_nat (length c)) o))
           (negb (Z.eqb (nth (Z.to_nat o) c (Zneg XH)) (Z.of_nat i)))
      then Z0
      else nth (Z.to_nat o) t Z0) (seq O cols)) (seq O rows)

(** val need_packed : packed -> nat -> nat -> bool **)

let need_packed p nstates nsyms =
  Nat.leb
    (add (add (add (length p.p_act) (length p.p_off)) (length p.p_adef))
      (length p.p_gdef)) (mul nstates nsyms)

type gen_error =
| EUnproductive of nat list
| ETooManyStates

type tables = { t_aut : automaton; t_la : (nat * nat list) list list;
                t_dense : z list list;
                t_warn : ((nat * nat) * (nat * nat)) list;
                t_conf : (nat * nat) list; t_packed : packed;
                t_need_packed : bool }

(** val generate_tables : ginfo -> (gen_error, tables) sum **)

let generate_tables gi =
  match unproductive gi with
  | [] ->
    (match build gi.gi_rules with
     | Some aut ->
       let n1 = length aut in
       let tabl = la_table gi.gi_rules aut in
       let dense = dense_of n1 gi.gi_nsyms (action_fun gi aut tabl) in
       let p = compress dense gi.gi_nterm gi.gi_nsyms n1 in
       Inr { t_aut = aut; t_la = tabl; t_dense = dense; t_warn =
       (warnings gi aut tabl); t_conf = (conflict_cells gi aut tabl);
       t_packed = p; t_need_packed = (need_packed p n1 gi.gi_nsyms) }
     | None -> Inl ETooManyStates)
  | n1 :: l0 -> Inl (EUnproductive (n1 :: l0))

(** val dense_action : nat -> z list list -> table **)

let dense_action nstates dense q a =
  decode_z nstates (cellz dense q a)

(** val packed_action : nat -> packed -> table **)

let packed_action nstates p q a =
  decode_z nstates (packed_lookup p q a)

type entry = { e_st : nat; e_sym : nat; e_val : z }

type semact = nat -> z list -> z

type tok = nat * z

type result =
| RAcc of z * nat list
| RRej of nat * nat list
| RCrash
| RNil
| RFuel

(** val la : tok list -> nat **)

let la = function
| [] -> eof
| t :: _ -> let (a, _) = t in a

(** val laval : tok list -> z **)

let laval = function
| [] -> Z0
| t :: _ -> let (_, v) = t in v

type pst = { stk : entry list; sp : nat }

(** val upd : entry list -> nat -> entry -> entry list **)

let rec upd l i e =
  match l with
  | [] -> []
  | x :: t -> (match i with
               | O -> e :: t
               | S i' -> x :: (upd t i' e))

(** val push : pst -> entry -> pst **)

let push s e =
  if Nat.leb (length s.stk) s.sp
  then { stk = (app s.stk (e :: [])); sp = (S s.sp) }
  else { stk = (upd s.stk s.sp e); sp = (S s.sp) }

(** val crun :
    table -> grammar -> semact -> nat -> pst -> tok list -> nat -> nat list
    -> result **)

let rec crun tab g act fuel s inp pos reds =
  match fuel with
  | O -> RFuel
  | S f ->
    if Nat.eqb s.sp O
    then RNil
    else if Nat.ltb (length s.stk) s.sp
         then RNil
         else (match nth_error s.stk (sub s.sp (S O)) with
               | Some top ->
                 (match tab top.e_st (la inp) with
                  | Shift q' ->
                    crun tab g act f
                      (push s { e_st = q'; e_sym = (la inp); e_val =
                        (laval inp) }) (tl inp) (S pos) reds
                  | Reduce r ->
                    (match nth_error g r with
                     | Some r0 ->
                       let k = length r0.rhs in
                       if Nat.ltb (sub s.sp (S O)) k
                       then RCrash
                       else let dollar =
                              firstn (S k)
                                (skipn (sub (sub s.sp (S O)) k) s.stk)
                            in
                            let v = act r (map (fun e -> e.e_val) (tl dollar))
                            in
                            let s1 = { stk = s.stk; sp = (sub s.sp k) } in
                            (match nth_error s1.stk (sub s1.sp (S O)) with
                             | Some below ->
                               (match tab below.e_st r0.lhs with
                                | Shift q' ->
                                  crun tab g act f
                                    (push s1 { e_st = q'; e_sym = r0.lhs;
                                      e_val = v }) inp pos (r :: reds)
                                | _ -> RCrash)
                             | None -> RCrash)
                     | None -> RCrash)
                  | Accept -> RAcc (top.e_val, (rev reds))
                  | Error -> RRej (pos, (rev reds)))
               | None -> RCrash)

(** val init_entry : entry **)

let init_entry =
  { e_st = O; e_sym = eof; e_val = Z0 }

(** val init_global : pst -> pst **)

let init_global _ =
  { stk = (init_entry :: []); sp = (S O) }

(** val init_object : pst -> pst **)

let init_object s =
  { stk = (app s.stk (init_entry :: [])); sp = (S O) }

type variant =
| GoPacked
| GoDense
| ObjPacked
| ObjDense
| TsDense

(** val is_object : variant -> bool **)

let is_object = function
| ObjPacked -> true
| ObjDense -> true
| _ -> false

(** val is_packed : variant -> bool **)

let is_packed = function
| GoPacked -> true
| ObjPacked -> true
| _ -> false

(** val table_of : variant -> tables -> table **)

let table_of v t =
  let n1 = length t.t_aut in
  if (&&) (is_packed v) t.t_need_packed
  then packed_action n1 t.t_packed
  else dense_action n1 t.t_dense

(** val cfinal :
    table -> grammar -> semact -> nat -> pst -> tok list -> pst **)

let rec cfinal tab g act fuel s inp =
  match fuel with
  | O -> s
  | S f ->
    if Nat.eqb s.sp O
    then s
    else if Nat.ltb (length s.stk) s.sp
         then s
         else (match nth_error s.stk (sub s.sp (S O)) with
               | Some top ->
                 (match tab top.e_st (la inp) with
                  | Shift q' ->
                    cfinal tab g act f
                      (push s { e_st = q'; e_sym = (la inp); e_val =
                        (laval inp) }) (tl inp)
                  | Reduce r ->
                    (match nth_error g r with
                     | Some r0 ->
                       let k = length r0.rhs in
                       if Nat.ltb (sub s.sp (S O)) k
                       then s
                       else let dollar =
                              firstn (S k)
                                (skipn (sub (sub s.sp (S O)) k) s.stk)
                            in
                            let v = act r (map (fun e -> e.e_val) (tl dollar))
                            in
                            let s1 = { stk = s.stk; sp = (sub s.sp k) } in
                            (match nth_error s1.stk (sub s1.sp (S O)) with
                             | Some below ->
                               (match tab below.e_st r0.lhs with
                                | Shift q' ->
                                  cfinal tab g act f
                                    (push s1 { e_st = q'; e_sym = r0.lhs;
                                      e_val = v }) inp
                                | _ -> s1)
                             | None -> s1)
                     | None -> s)
                  | _ -> s)
               | None -> s)

(** val init_b : bool -> pst -> pst **)

let init_b obj s =
  if obj then init_object s else init_global s

(** val parse_from_tab :
    table -> bool -> grammar -> semact -> nat -> pst -> tok list -> result **)

let parse_from_tab tab obj g act fuel s inp =
  crun tab g act fuel (init_b obj s) inp O []

(** val state_after_tab :
    table -> bool -> grammar -> semact -> nat -> pst -> tok list -> pst **)

let state_after_tab tab obj g act fuel s inp =
  cfinal tab g act fuel (init_b obj s) inp

(** val history_tab :
    table -> bool -> grammar -> semact -> nat -> pst -> tok list list ->
    result list **)

let rec history_tab tab obj g act fuel s = function
| [] -> []
| inp :: rest ->
  (parse_from_tab tab obj g act fuel s inp) :: (history_tab tab obj g act
                                                 fuel
                                                 (state_after_tab tab obj g
                                                   act fuel s inp) rest)

(** val parse_from :
    variant -> tables -> grammar -> semact -> nat -> pst -> tok list -> result **)

let parse_from v t g act fuel s inp =
  parse_from_tab (table_of v t) (is_object v) g act fuel s inp

(** val parse :
    variant -> tables -> grammar -> semact -> nat -> tok list -> result **)

let parse v t g act fuel inp =
  parse_from v t g act fuel { stk = []; sp = O } inp

(** val history :
    variant -> tables -> grammar -> semact -> nat -> pst -> tok list list ->
    result list **)

let history v t g act fuel s inps =
  history_tab (table_of v t) (is_object v) g act fuel s inps

(** val modulus : z **)

let modulus =
  Zpos (XI (XI (XO (XO (XO (XO (XI (XO (XO (XI (XO (XO (XO (XO (XI (XO (XI
    (XI (XI XH)))))))))))))))))))

(** val dot : z list -> z list -> z **)

let rec dot coefs vals =
  match coefs with
  | [] -> Z0
  | c :: cs ->
    (match vals with
     | [] -> Z0
     | x :: xs -> Z.add (Z.mul c x) (dot cs xs))

(** val linear_act : (z * z list) list -> semact **)

let linear_act spec r vals =
  match nth_error spec r with
  | Some p ->
    let (c, coefs) = p in Z.modulo (Z.add c (dot coefs vals)) modulus
  | None -> Z0

(** val sym_eqb_list : nat list -> nat list -> bool **)

let sym_eqb_list a b =
  (&&) (Nat.eqb (length a) (length b))
    (forallb (fun p -> Nat.eqb (fst p) (snd p)) (combine a b))

(** val replay :
    grammar -> semact -> (nat * z) list -> tok list -> nat -> (nat * nat)
    list -> z option **)

let rec replay g act stack inp shifted = function
| [] ->
  (match app (rev inp) stack with
   | [] -> None
   | t :: l ->
     let (s1, v) = t in
     (match l with
      | [] ->
        if (&&) (Nat.eqb s1 (hd O (rhs_of g O)))
             (negb (Nat.eqb (length (rhs_of g O)) O))
        then Some v
        else None
      | _ :: _ -> None))
| p :: rest ->
  let (r, k) = p in
  if Nat.ltb k shifted
  then None
  else let n1 = sub k shifted in
       if Nat.ltb (length inp) n1
       then None
       else let stack1 = app (rev (firstn n1 inp)) stack in
            (match nth_error g r with
             | Some r0 ->
               let m = length r0.rhs in
               if Nat.ltb (length stack1) m
               then None
               else if sym_eqb_list (map fst (firstn m stack1)) (rev r0.rhs)
                    then replay g act ((r0.lhs,
                           (act r (rev (map snd (firstn m stack1))))) :: 
                           (skipn m stack1)) (skipn n1 inp) k rest
                    else None
             | None -> None)

type step =
| SLex
| SSyntax
| SVisit
| SBuild
| SConst
| SUnion
| STable
| SState
| SReduce
| STranslate
| SCreate
| SWrite

(** val step_eqb : step -> step -> bool **)

let step_eqb a b =
  match a with
  | SLex -> (match b with
             | SLex -> true
             | _ -> false)
  | SSyntax -> (match b with
                | SSyntax -> true
                | _ -> false)
  | SVisit -> (match b with
               | SVisit -> true
               | _ -> false)
  | SBuild -> (match b with
               | SBuild -> true
               | _ -> false)
  | SConst -> (match b with
               | SConst -> true
               | _ -> false)
  | SUnion -> (match b with
               | SUnion -> true
               | _ -> false)
  | STable -> (match b with
               | STable -> true
               | _ -> false)
  | SState -> (match b with
               | SState -> true
               | _ -> false)
  | SReduce -> (match b with
                | SReduce -> true
                | _ -> false)
  | STranslate -> (match b with
                   | STranslate -> true
                   | _ -> false)
  | SCreate -> (match b with
                | SCreate -> true
                | _ -> false)
  | SWrite -> (match b with
               | SWrite -> true
               | _ -> false)

(** val gen_steps : step list **)

let gen_steps =
  SLex :: (SSyntax :: (SVisit :: (SBuild :: (SConst :: (SUnion :: (STable :: (SState :: (SReduce :: (STranslate :: (SCreate :: (SWrite :: [])))))))))))

type ('content, 'path) fs = 'path -> 'content option

(** val upd0 :
    ('a2 -> 'a2 -> bool) -> ('a1, 'a2) fs -> 'a2 -> 'a1 option -> ('a1, 'a2)
    fs **)

let upd0 path_eqb f p c q =
  if path_eqb q p then c else f q

type outcome =
| Success
| Failed of step

(** val run_steps :
    ('a2 -> 'a2 -> bool) -> step list -> (step -> bool) -> ('a1, 'a2) fs ->
    'a2 -> 'a1 -> 'a1 -> ('a1, 'a2) fs * outcome **)

let rec run_steps path_eqb steps fails f out empty text =
  match steps with
  | [] -> (f, Success)
  | s :: rest ->
    if fails s
    then (f, (Failed s))
    else let f' =
           match s with
           | SCreate -> upd0 path_eqb f out (Some empty)
           | SWrite -> upd0 path_eqb f out (Some text)
           | _ -> f
         in
         run_steps path_eqb rest fails f' out empty text

(** val run_gen :
    ('a2 -> 'a2 -> bool) -> (step -> bool) -> ('a1, 'a2) fs -> 'a2 -> 'a1 ->
    'a1 -> ('a1, 'a2) fs * outcome **)

let run_gen path_eqb =
  run_steps path_eqb gen_steps

type tagc =
| Old
| Empty
| New

(** val predict : step option -> tagc option **)

let predict failing =
  let fails = fun s ->
    match failing with
    | Some x -> step_eqb s x
    | None -> false
  in
  fst (run_gen Nat.eqb fails (fun _ -> Some Old) O Empty New) O

type name = ascii list

(** val name_eqb : name -> name -> bool **)

let rec name_eqb a b =
  match a with
  | [] -> (match b with
           | [] -> true
           | _ :: _ -> false)
  | x :: a' ->
    (match b with
     | [] -> false
     | y :: b' -> (&&) (eqb0 x y) (name_eqb a' b'))

(** val name_leb : name -> name -> bool **)

let rec name_leb a b =
  match a with
  | [] -> true
  | x :: a' ->
    (match b with
     | [] -> false
     | y :: b' ->
       if N.ltb (n_of_ascii x) (n_of_ascii y)
       then true
       else if N.ltb (n_of_ascii y) (n_of_ascii x)
            then false
            else name_leb a' b')

(** val ins_name : name -> name list -> name list **)

let rec ins_name x l = match l with
| [] -> x :: []
| y :: l' -> if name_leb x y then x :: l else y :: (ins_name x l')

(** val sort_names : name list -> name list **)

let sort_names l =
  fold_right ins_name [] l

type idtyp =
| TermId
| NontermId

type ident = { i_name : name; i_typ : idtyp; i_value : z; i_tag : name;
               i_alias : name }

type assoc_kw =
| ALeft
| ARight
| ANon

type precdef = { pd_assoc : assoc_kw; pd_name : name }

type declnode = { d_code : ascii list; d_tokens : ident list list;
                  d_precs : precdef list list; d_types : (name * name) list;
                  d_union : ascii list; d_start : name }

type relem =
| RSym of name
| RAct of ascii list

type ruledef = { r_line : nat; r_lhs : name; r_rhs : relem list; r_prec : name }

type ast = { a_decl : declnode; a_rules : ruledef list; a_rest : ascii list }

type idtab = ident list

(** val tab_find : idtab -> name -> ident option **)

let rec tab_find t n1 =
  match t with
  | [] -> None
  | i :: t'0 -> if name_eqb i.i_name n1 then Some i else tab_find t'0 n1

(** val tab_update : idtab -> name -> (ident -> ident) -> idtab **)

let rec tab_update t n1 f =
  match t with
  | [] -> []
  | i :: t'0 ->
    if name_eqb i.i_name n1 then (f i) :: t'0 else i :: (tab_update t'0 n1 f)

(** val tab_has : idtab -> name -> bool **)

let tab_has t n1 =
  match tab_find t n1 with
  | Some _ -> true
  | None -> false

(** val tab_names : idtab -> name list **)

let tab_names t =
  map (fun i -> i.i_name) t

(** val is_nil : 'a1 list -> bool **)

let is_nil = function
| [] -> true
| _ :: _ -> false

type dstate = { ds_tab : idtab; ds_max : z; ds_precidx : nat;
                ds_prelist : ((nat * assoc_kw) * name) list }

type front_error =
| FPrecUnknown of name
| FUndefined of name
| FNoRule of name
| FNoStart
| FUnproductive of nat list
| FTooMany

(** val merge_token : ident -> ident -> ident **)

let merge_token old id =
  { i_name = old.i_name; i_typ = old.i_typ; i_value =
    (if Z.eqb id.i_value Z0 then old.i_value else id.i_value); i_tag =
    (if is_nil id.i_tag then old.i_tag else id.i_tag); i_alias =
    (if is_nil id.i_alias then old.i_alias else id.i_alias) }

(** val add_token : dstate -> ident -> dstate **)

let add_token s id =
  let mx = if Z.ltb s.ds_max id.i_value then id.i_value else s.ds_max in
  let tab =
    if tab_has s.ds_tab id.i_name
    then tab_update s.ds_tab id.i_name (fun old -> merge_token old id)
    else app s.ds_tab (id :: [])
  in
  { ds_tab = tab; ds_max = mx; ds_precidx = s.ds_precidx; ds_prelist =
  s.ds_prelist }

(** val add_type : dstate -> (name * name) -> dstate **)

let add_type s = function
| (tag, n1) ->
  let tab =
    if tab_has s.ds_tab n1
    then tab_update s.ds_tab n1 (fun old -> { i_name = old.i_name; i_typ =
           old.i_typ; i_value = old.i_value; i_tag = tag; i_alias =
           old.i_alias })
    else app s.ds_tab ({ i_name = n1; i_typ = NontermId; i_value = Z0;
           i_tag = tag; i_alias = [] } :: [])
  in
  { ds_tab = tab; ds_max = s.ds_max; ds_precidx = s.ds_precidx; ds_prelist =
  s.ds_prelist }

(** val add_prec_line :
    idtab -> nat -> precdef list -> ((nat * assoc_kw) * name) list ->
    (front_error, ((nat * assoc_kw) * name) list) sum **)

let rec add_prec_line tab idx line acc =
  match line with
  | [] -> Inr acc
  | p :: line' ->
    if tab_has tab p.pd_name
    then add_prec_line tab idx line'
           (app acc (((idx, p.pd_assoc), p.pd_name) :: []))
    else Inl (FPrecUnknown p.pd_name)

(** val add_precs :
    dstate -> precdef list list -> (front_error, dstate) sum **)

let rec add_precs s = function
| [] -> Inr s
| line :: lines' ->
  let idx = S s.ds_precidx in
  (match add_prec_line s.ds_tab idx line s.ds_prelist with
   | Inl e -> Inl e
   | Inr pl ->
     add_precs { ds_tab = s.ds_tab; ds_max = s.ds_max; ds_precidx = idx;
       ds_prelist = pl } lines')

(** val number_auto : idtab -> z -> name list -> idtab * z **)

let rec number_auto tab mx = function
| [] -> (tab, mx)
| n1 :: names' ->
  (match tab_find tab n1 with
   | Some i ->
     if Z.eqb i.i_value Z0
     then number_auto
            (tab_update tab n1 (fun old -> { i_name = old.i_name; i_typ =
              old.i_typ; i_value = (Z.add mx (Zpos XH)); i_tag = old.i_tag;
              i_alias = old.i_alias })) (Z.add mx (Zpos XH)) names'
     else number_auto tab mx names'
   | None -> number_auto tab mx names')

(** val visit_decl : declnode -> (front_error, dstate) sum **)

let visit_decl d0 =
  let s0 = { ds_tab = []; ds_max = (Zpos (XO XH)); ds_precidx = O;
    ds_prelist = [] }
  in
  let s1 = fold_left add_token (concat d0.d_tokens) s0 in
  let s2 = fold_left add_type d0.d_types s1 in
  (match add_precs s2 d0.d_precs with
   | Inl e -> Inl e
   | Inr s3 ->
     let tab =
       if (&&) (negb (is_nil d0.d_start))
            (negb (tab_has s3.ds_tab d0.d_start))
       then app s3.ds_tab ({ i_name = d0.d_start; i_typ = NontermId;
              i_value = Z0; i_tag = []; i_alias = [] } :: [])
       else s3.ds_tab
     in
     let (tab', mx) = number_auto tab s3.ds_max (sort_names (tab_names tab))
     in
     Inr { ds_tab = tab'; ds_max = mx; ds_precidx = s3.ds_precidx;
     ds_prelist = s3.ds_prelist })

(** val pre_find :
    ((nat * assoc_kw) * name) list -> name -> ((nat * assoc_kw) * name)
    option -> ((nat * assoc_kw) * name) option **)

let rec pre_find pl n1 acc =
  match pl with
  | [] -> acc
  | e :: pl' ->
    let (_, m) = e in pre_find pl' n1 (if name_eqb m n1 then Some e else acc)

(** val pre_map :
    ((nat * assoc_kw) * name) list -> name -> ((nat * assoc_kw) * name) option **)

let pre_map pl n1 =
  pre_find pl n1 None

type vrule = { v_line : nat; v_lhs : name; v_rhs : name list;
               v_prec : name option; v_action : ascii list }

(** val add_lhs : idtab -> z -> ruledef list -> idtab * z **)

let rec add_lhs tab mx = function
| [] -> (tab, mx)
| r :: rs' ->
  if tab_has tab r.r_lhs
  then add_lhs tab mx rs'
  else add_lhs
         (app tab ({ i_name = r.r_lhs; i_typ = NontermId; i_value =
           (Z.add mx (Zpos XH)); i_tag = []; i_alias = [] } :: []))
         (Z.add mx (Zpos XH)) rs'

(** val scan_rhs :
    idtab -> ((nat * assoc_kw) * name) list -> relem list -> name list ->
    name option -> ascii list -> (front_error, (name list * name
    option) * ascii list) sum **)

let rec scan_rhs tab pl es syms prec act =
  match es with
  | [] -> Inr ((syms, prec), act)
  | r :: es' ->
    (match r with
     | RSym n1 ->
       if tab_has tab n1
       then scan_rhs tab pl es' (app syms (n1 :: []))
              (match pre_map pl n1 with
               | Some _ -> Some n1
               | None -> prec) act
       else Inl (FUndefined n1)
     | RAct c -> scan_rhs tab pl es' syms prec c)

(** val visit_rule :
    idtab -> ((nat * assoc_kw) * name) list -> ruledef -> (front_error,
    vrule) sum **)

let visit_rule tab pl r =
  match scan_rhs tab pl r.r_rhs [] None [] with
  | Inl e -> Inl e
  | Inr p ->
    let (p0, act) = p in
    let (syms, prec) = p0 in
    let prec' =
      if is_nil r.r_prec
      then prec
      else (match pre_map pl r.r_prec with
            | Some _ -> Some r.r_prec
            | None -> None)
    in
    Inr { v_line = r.r_line; v_lhs = r.r_lhs; v_rhs = syms; v_prec = prec';
    v_action = act }

(** val visit_rules_list :
    idtab -> ((nat * assoc_kw) * name) list -> ruledef list -> (front_error,
    vrule list) sum **)

let rec visit_rules_list tab pl = function
| [] -> Inr []
| r :: rs' ->
  (match visit_rule tab pl r with
   | Inl e -> Inl e
   | Inr v ->
     (match visit_rules_list tab pl rs' with
      | Inl e -> Inl e
      | Inr vs -> Inr (v :: vs)))

type visited = { vs_tab : idtab; vs_max : z;
                 vs_prelist : ((nat * assoc_kw) * name) list;
                 vs_rules : vrule list; vs_start : name;
                 vs_code : ascii list; vs_union : ascii list;
                 vs_rest : ascii list }

(** val visit : ast -> (front_error, visited) sum **)

let visit a =
  match visit_decl a.a_decl with
  | Inl e -> Inl e
  | Inr s ->
    let (tab, mx) = add_lhs s.ds_tab s.ds_max a.a_rules in
    (match visit_rules_list tab s.ds_prelist a.a_rules with
     | Inl e -> Inl e
     | Inr vs ->
       Inr { vs_tab = tab; vs_max = mx; vs_prelist = s.ds_prelist; vs_rules =
         vs; vs_start = a.a_decl.d_start; vs_code = a.a_decl.d_code;
         vs_union = a.a_decl.d_union; vs_rest = a.a_rest })

type gsym = { s_name : name; s_value : z; s_tag : name; s_declnt : bool;
              s_prec : z; s_assoc : assoc0 }

(** val conv_assoc : assoc_kw -> assoc0 **)

let conv_assoc = function
| ALeft -> LEFT
| ARight -> RIGHT
| ANon -> NONE

(** val start_name : name **)

let start_name =
  (Ascii (true, true, false, false, true, true, true, false)) :: ((Ascii
    (false, false, true, false, true, true, true, false)) :: ((Ascii (true,
    false, false, false, false, true, true, false)) :: ((Ascii (false, true,
    false, false, true, true, true, false)) :: ((Ascii (false, false, true,
    false, true, true, true, false)) :: []))))

(** val dollar_name : name **)

let dollar_name =
  (Ascii (false, false, true, false, false, true, false, false)) :: []

(** val ordered_idents : idtab -> ident list **)

let ordered_idents tab =
  let sorted =
    flat_map (fun n1 ->
      match tab_find tab n1 with
      | Some i -> i :: []
      | None -> []) (sort_names (tab_names tab))
  in
  let keep = filter (fun i -> negb (Z.eqb i.i_value (Zneg XH))) in
  app
    (keep
      (filter (fun i ->
        match i.i_typ with
        | TermId -> true
        | NontermId -> false) sorted))
    (keep
      (filter (fun i ->
        match i.i_typ with
        | TermId -> false
        | NontermId -> true) sorted))

(** val sym_of_ident : ((nat * assoc_kw) * name) list -> ident -> gsym **)

let sym_of_ident pl i =
  match i.i_typ with
  | TermId ->
    (match pre_map pl i.i_name with
     | Some p0 ->
       let (p1, _) = p0 in
       let (p, a) = p1 in
       { s_name = i.i_name; s_value = i.i_value; s_tag = i.i_tag; s_declnt =
       false; s_prec = (Z.of_nat p); s_assoc = (conv_assoc a) }
     | None ->
       { s_name = i.i_name; s_value = i.i_value; s_tag = i.i_tag; s_declnt =
         false; s_prec = (Zneg XH); s_assoc = NONE })
  | NontermId ->
    { s_name = i.i_name; s_value = i.i_value; s_tag = i.i_tag; s_declnt =
      true; s_prec = (Zneg XH); s_assoc = NONE }

(** val symbols_of : visited -> gsym list **)

let symbols_of v =
  { s_name = start_name; s_value = Z0; s_tag = []; s_declnt = true; s_prec =
    (Zneg XH); s_assoc = NONE } :: ({ s_name = dollar_name; s_value = (Zneg
    XH); s_tag = []; s_declnt = false; s_prec = (Zneg XH); s_assoc =
    NONE } :: (map (sym_of_ident v.vs_prelist) (ordered_idents v.vs_tab)))

(** val sym_index_from :
    gsym list -> name -> nat -> nat option -> nat option **)

let rec sym_index_from syms n1 k acc =
  match syms with
  | [] -> acc
  | s :: syms' ->
    sym_index_from syms' n1 (S k)
      (if name_eqb s.s_name n1 then Some k else acc)

(** val sym_index : gsym list -> name -> nat option **)

let sym_index syms n1 =
  sym_index_from syms n1 O None

(** val map_opt : ('a1 -> 'a2 option) -> 'a1 list -> 'a2 list option **)

let rec map_opt f = function
| [] -> Some []
| x :: l' ->
  (match f x with
   | Some y ->
     (match map_opt f l' with
      | Some ys -> Some (y :: ys)
      | None -> None)
   | None -> None)

type built = { b_syms : gsym list; b_gi : ginfo;
               b_rule_prec : nat option list; b_visited : visited }

(** val build_rule : gsym list -> vrule -> (rule * nat option) option **)

let build_rule syms r =
  match sym_index syms r.v_lhs with
  | Some l ->
    (match map_opt (sym_index syms) r.v_rhs with
     | Some rs ->
       Some ({ lhs = l; rhs = rs },
         (match r.v_prec with
          | Some n1 -> sym_index syms n1
          | None -> None))
     | None -> None)
  | None -> None

(** val is_lhs : rule list -> nat -> bool **)

let is_lhs rules k =
  existsb (fun r -> Nat.eqb r.lhs k) rules

(** val build_grammar : visited -> (front_error, built) sum **)

let build_grammar v =
  let syms = symbols_of v in
  (match sym_index (skipn (S (S O)) syms) v.vs_start with
   | Some s0 ->
     let first = S (S s0) in
     (match map_opt (build_rule syms) v.vs_rules with
      | Some rs ->
        let rules = { lhs = O; rhs = (first :: []) } :: (map fst rs) in
        let n1 = length syms in
        let isnt = fun k ->
          (||) (nth k (map (fun g -> g.s_declnt) syms) false) (is_lhs rules k)
        in
        (match filter (fun k ->
                 (&&) (nth k (map (fun g -> g.s_declnt) syms) false)
                   (negb (is_lhs rules k))) (seq O n1) with
         | [] ->
           let nterm = length (filter (fun k -> negb (isnt k)) (seq O n1)) in
           let sprec = map (fun s -> (s.s_prec, s.s_assoc)) syms in
           let rprec =
             no_prec :: (map (fun x ->
                          match snd x with
                          | Some k -> nth k sprec no_prec
                          | None -> no_prec) rs)
           in
           let gi = { gi_rules = rules; gi_nsyms = n1; gi_nterm = nterm;
             gi_sprec = sprec; gi_rprec = rprec }
           in
           (match unproductive gi with
            | [] ->
              Inr { b_syms = syms; b_gi = gi; b_rule_prec =
                (None :: (map snd rs)); b_visited = v }
            | n2 :: l0 -> Inl (FUnproductive (n2 :: l0)))
         | k :: _ ->
           Inl (FNoRule
             (nth k syms { s_name = []; s_value = Z0; s_tag = []; s_declnt =
               false; s_prec = Z0; s_assoc = NONE }).s_name))
      | None -> Inl FNoStart)
   | None -> Inl FNoStart)

(** val front : ast -> (front_error, built) sum **)

let front a =
  match visit a with
  | Inl e -> Inl e
  | Inr v -> build_grammar v

(** val nodup_z : z list -> bool **)

let rec nodup_z = function
| [] -> true
| x :: l' -> (&&) (negb (existsb (Z.eqb x) l')) (nodup_z l')

(** val last_nonzero : (name * z) list -> name -> z option **)

let last_nonzero decls n1 =
  fold_left (fun acc p ->
    if (&&) (name_eqb (fst p) n1) (negb (Z.eqb (snd p) Z0))
    then Some (snd p)
    else acc) decls None

(** val dedup_names : name list -> name list **)

let rec dedup_names = function
| [] -> []
| x :: l' ->
  if existsb (name_eqb x) l' then dedup_names l' else x :: (dedup_names l')

(** val fixed_codes : (name * z) list -> z list **)

let fixed_codes decls =
  flat_map (fun n1 ->
    match last_nonzero decls n1 with
    | Some v -> v :: []
    | None -> []) (dedup_names (map fst decls))

(** val valid_codes : (name * z) list -> (name * z) list -> bool **)

let valid_codes decls final =
  (&&)
    (forallb (fun p ->
      match last_nonzero decls (fst p) with
      | Some v -> Z.eqb (snd p) v
      | None ->
        (&&) (negb (existsb (Z.eqb (snd p)) (fixed_codes decls)))
          (negb (Z.eqb (snd p) (Zneg XH)))) final)
    (if nodup_z (fixed_codes decls) then nodup_z (map snd final) else true)

type lkind =
| LxError
| LxIdentifier
| LxNumber
| LxSection
| LxCodeQuote
| LxActionQuote
| LxEOF
| LxType
| LxToken
| LxUnion
| LxLeft
| LxRight
| LxNone
| LxPrec
| LxPrecedence
| LxStart
| LxActionSelf
| LxActionN
| LxActionAccept
| LxActionEnd
| LxOr
| LxDefine
| LxEnd
| LxLAngle
| LxRAngle
| LxChar
| LxString
| LxFuel

type tok0 = { t_kind : lkind; t_value : ascii list; t_rest : ascii list }

type tail =
| Closed
| ErrorForEver

(** val code : ascii -> n **)

let code =
  n_of_ascii

(** val is_upper : ascii -> bool **)

let is_upper c =
  (&&) (N.leb (Npos (XI (XO (XO (XO (XO (XO XH))))))) (code c))
    (N.leb (code c) (Npos (XO (XI (XO (XI (XI (XO XH))))))))

(** val is_lower : ascii -> bool **)

let is_lower c =
  (&&) (N.leb (Npos (XI (XO (XO (XO (XO (XI XH))))))) (code c))
    (N.leb (code c) (Npos (XO (XI (XO (XI (XI (XI XH))))))))

(** val is_letter : ascii -> bool **)

let is_letter c =
  (||) (is_upper c) (is_lower c)

(** val is_digit : ascii -> bool **)

let is_digit c =
  (&&) (N.leb (Npos (XO (XO (XO (XO (XI XH)))))) (code c))
    (N.leb (code c) (Npos (XI (XO (XO (XI (XI XH)))))))

(** val is_idch : ascii -> bool **)

let is_idch c =
  (||) ((||) (is_letter c) (is_digit c))
    (eqb0 c (Ascii (true, true, true, true, true, false, true, false)))

(** val nl : ascii **)

let nl =
  ascii_of_nat (S (S (S (S (S (S (S (S (S (S O))))))))))

(** val tabc : ascii **)

let tabc =
  ascii_of_nat (S (S (S (S (S (S (S (S (S O)))))))))

(** val quote : ascii **)

let quote =
  ascii_of_nat (S (S (S (S (S (S (S (S (S (S (S (S (S (S (S (S (S (S (S (S (S
    (S (S (S (S (S (S (S (S (S (S (S (S (S (S (S (S (S (S
    O)))))))))))))))))))))))))))))))))))))))

(** val dquote : ascii **)

let dquote =
  ascii_of_nat (S (S (S (S (S (S (S (S (S (S (S (S (S (S (S (S (S (S (S (S (S
    (S (S (S (S (S (S (S (S (S (S (S (S (S O))))))))))))))))))))))))))))))))))

(** val bslash : ascii **)

let bslash =
  ascii_of_nat (S (S (S (S (S (S (S (S (S (S (S (S (S (S (S (S (S (S (S (S (S
    (S (S (S (S (S (S (S (S (S (S (S (S (S (S (S (S (S (S (S (S (S (S (S (S
    (S (S (S (S (S (S (S (S (S (S (S (S (S (S (S (S (S (S (S (S (S (S (S (S
    (S (S (S (S (S (S (S (S (S (S (S (S (S (S (S (S (S (S (S (S (S (S (S
    O))))))))))))))))))))))))))))))))))))))))))))))))))))))))))))))))))))))))))))))))))))))))))))

(** val is_ws : ascii -> bool **)

let is_ws c =
  (||)
    ((||)
      (eqb0 c (Ascii (false, false, false, false, false, true, false, false)))
      (eqb0 c tabc)) (eqb0 c nl)

(** val strip : ascii list -> ascii list -> ascii list option **)

let rec strip p s =
  match p with
  | [] -> Some s
  | x :: p' ->
    (match s with
     | [] -> None
     | y :: s' -> if eqb0 x y then strip p' s' else None)

(** val has_prefix : ascii list -> ascii list -> bool **)

let has_prefix p s =
  match strip p s with
  | Some _ -> true
  | None -> false

(** val skip_spaces : ascii list -> ascii list **)

let rec skip_spaces s = match s with
| [] -> []
| c :: s' ->
  if eqb0 c (Ascii (false, false, false, false, false, true, false, false))
  then skip_spaces s'
  else s

(** val take_while :
    (ascii -> bool) -> ascii list -> ascii list * ascii list **)

let rec take_while f s = match s with
| [] -> ([], [])
| c :: s' ->
  if f c then let (a, r) = take_while f s' in ((c :: a), r) else ([], s)

(** val accept_alpha_word : ascii list -> ascii list -> ascii list option **)

let accept_alpha_word w s =
  match strip w (skip_spaces s) with
  | Some r ->
    (match r with
     | [] -> Some r
     | c :: _ -> if is_idch c then None else Some r)
  | None -> None

(** val accept_word : ascii list -> ascii list -> ascii list option **)

let accept_word w s =
  match strip w (skip_spaces s) with
  | Some r ->
    (match r with
     | [] -> Some r
     | c :: _ -> if is_ws c then Some r else None)
  | None -> None

(** val after_line : ascii list -> ascii list **)

let rec after_line = function
| [] -> []
| c :: s' -> if eqb0 c nl then s' else after_line s'

(** val block_comment : bool -> ascii list -> ascii list option **)

let rec block_comment star = function
| [] -> None
| c :: s' ->
  if (&&) star
       (eqb0 c (Ascii (true, true, true, true, false, true, false, false)))
  then Some s'
  else block_comment
         (eqb0 c (Ascii (false, true, false, true, false, true, false,
           false))) s'

(** val braces : nat -> ascii list -> (ascii list * ascii list) option **)

let rec braces depth = function
| [] -> None
| c :: s' ->
  if eqb0 c (Ascii (true, true, false, true, true, true, true, false))
  then (match braces (S depth) s' with
        | Some p -> let (a, r) = p in Some ((c :: a), r)
        | None -> None)
  else if eqb0 c (Ascii (true, false, true, true, true, true, true, false))
       then (match depth with
             | O -> Some ((c :: []), s')
             | S d0 ->
               (match d0 with
                | O -> Some ((c :: []), s')
                | S _ ->
                  (match braces d0 s' with
                   | Some p -> let (a, r) = p in Some ((c :: a), r)
                   | None -> None)))
       else (match braces depth s' with
             | Some p -> let (a, r) = p in Some ((c :: a), r)
             | None -> None)

(** val code_end : ascii list -> (ascii list * ascii list) option **)

let rec code_end = function
| [] -> None
| c :: s' ->
  if eqb0 c (Ascii (true, false, true, false, false, true, false, false))
  then (match s' with
        | [] ->
          (match code_end s' with
           | Some p -> let (a, r) = p in Some ((c :: a), r)
           | None -> None)
        | e :: r ->
          if eqb0 e (Ascii (true, false, true, true, true, true, true, false))
          then (match r with
                | [] -> Some ([], r)
                | d0 :: _ ->
                  if is_ws d0
                  then Some ([], r)
                  else (match code_end s' with
                        | Some p -> let (a, r0) = p in Some ((c :: a), r0)
                        | None -> None))
          else (match code_end s' with
                | Some p -> let (a, r0) = p in Some ((c :: a), r0)
                | None -> None))
  else (match code_end s' with
        | Some p -> let (a, r) = p in Some ((c :: a), r)
        | None -> None)

(** val string_body : ascii list -> (ascii list * ascii list) option **)

let rec string_body = function
| [] -> None
| c :: s' ->
  if eqb0 c dquote
  then Some ([], s')
  else if eqb0 c bslash
       then (match s' with
             | [] -> None
             | d0 :: s'' ->
               (match string_body s'' with
                | Some p ->
                  let (a, r) = p in
                  Some (((if eqb0 d0 dquote then dquote else bslash) :: a), r)
                | None -> None))
       else (match string_body s' with
             | Some p -> let (a, r) = p in Some ((c :: a), r)
             | None -> None)

(** val w_type : ascii list **)

let w_type =
  (Ascii (false, false, true, false, true, true, true, false)) :: ((Ascii
    (true, false, false, true, true, true, true, false)) :: ((Ascii (false,
    false, false, false, true, true, true, false)) :: ((Ascii (true, false,
    true, false, false, true, true, false)) :: [])))

(** val w_token : ascii list **)

let w_token =
  (Ascii (false, false, true, false, true, true, true, false)) :: ((Ascii
    (true, true, true, true, false, true, true, false)) :: ((Ascii (true,
    true, false, true, false, true, true, false)) :: ((Ascii (true, false,
    true, false, false, true, true, false)) :: ((Ascii (false, true, true,
    true, false, true, true, false)) :: []))))

(** val w_union : ascii list **)

let w_union =
  (Ascii (true, false, true, false, true, true, true, false)) :: ((Ascii
    (false, true, true, true, false, true, true, false)) :: ((Ascii (true,
    false, false, true, false, true, true, false)) :: ((Ascii (true, true,
    true, true, false, true, true, false)) :: ((Ascii (false, true, true,
    true, false, true, true, false)) :: []))))

(** val w_left : ascii list **)

let w_left =
  (Ascii (false, false, true, true, false, true, true, false)) :: ((Ascii
    (true, false, true, false, false, true, true, false)) :: ((Ascii (false,
    true, true, false, false, true, true, false)) :: ((Ascii (false, false,
    true, false, true, true, true, false)) :: [])))

(** val w_right : ascii list **)

let w_right =
  (Ascii (false, true, false, false, true, true, true, false)) :: ((Ascii
    (true, false, false, true, false, true, true, false)) :: ((Ascii (true,
    true, true, false, false, true, true, false)) :: ((Ascii (false, false,
    false, true, false, true, true, false)) :: ((Ascii (false, false, true,
    false, true, true, true, false)) :: []))))

(** val w_nonassoc : ascii list **)

let w_nonassoc =
  (Ascii (false, true, true, true, false, true, true, false)) :: ((Ascii
    (true, true, true, true, false, true, true, false)) :: ((Ascii (false,
    true, true, true, false, true, true, false)) :: ((Ascii (true, false,
    false, false, false, true, true, false)) :: ((Ascii (true, true, false,
    false, true, true, true, false)) :: ((Ascii (true, true, false, false,
    true, true, true, false)) :: ((Ascii (true, true, true, true, false,
    true, true, false)) :: ((Ascii (true, true, false, false, false, true,
    true, false)) :: [])))))))

(** val w_prec : ascii list **)

let w_prec =
  (Ascii (false, false, false, false, true, true, true, false)) :: ((Ascii
    (false, true, false, false, true, true, true, false)) :: ((Ascii (true,
    false, true, false, false, true, true, false)) :: ((Ascii (true, true,
    false, false, false, true, true, false)) :: [])))

(** val w_precedence : ascii list **)

let w_precedence =
  (Ascii (false, false, false, false, true, true, true, false)) :: ((Ascii
    (false, true, false, false, true, true, true, false)) :: ((Ascii (true,
    false, true, false, false, true, true, false)) :: ((Ascii (true, true,
    false, false, false, true, true, false)) :: ((Ascii (true, false, true,
    false, false, true, true, false)) :: ((Ascii (false, false, true, false,
    false, true, true, false)) :: ((Ascii (true, false, true, false, false,
    true, true, false)) :: ((Ascii (false, true, true, true, false, true,
    true, false)) :: ((Ascii (true, true, false, false, false, true, true,
    false)) :: ((Ascii (true, false, true, false, false, true, true,
    false)) :: [])))))))))

(** val w_start : ascii list **)

let w_start =
  (Ascii (true, true, false, false, true, true, true, false)) :: ((Ascii
    (false, false, true, false, true, true, true, false)) :: ((Ascii (true,
    false, false, false, false, true, true, false)) :: ((Ascii (false, true,
    false, false, true, true, true, false)) :: ((Ascii (false, false, true,
    false, true, true, true, false)) :: []))))

(** val w_accept : ascii list **)

let w_accept =
  (Ascii (true, false, false, false, false, true, true, false)) :: ((Ascii
    (true, true, false, false, false, true, true, false)) :: ((Ascii (true,
    true, false, false, false, true, true, false)) :: ((Ascii (true, false,
    true, false, false, true, true, false)) :: ((Ascii (false, false, false,
    false, true, true, true, false)) :: ((Ascii (false, false, true, false,
    true, true, true, false)) :: [])))))

(** val w_end : ascii list **)

let w_end =
  (Ascii (true, false, true, false, false, true, true, false)) :: ((Ascii
    (false, true, true, true, false, true, true, false)) :: ((Ascii (false,
    false, true, false, false, true, true, false)) :: []))

(** val directive_word : ascii list -> (lkind * ascii list) option **)

let directive_word s =
  match accept_alpha_word w_type s with
  | Some r -> Some (LxType, r)
  | None ->
    (match accept_alpha_word w_token s with
     | Some r -> Some (LxToken, r)
     | None ->
       (match accept_alpha_word w_union s with
        | Some r -> Some (LxUnion, r)
        | None ->
          (match accept_alpha_word w_left s with
           | Some r -> Some (LxLeft, r)
           | None ->
             (match accept_alpha_word w_right s with
              | Some r -> Some (LxRight, r)
              | None ->
                (match accept_alpha_word w_nonassoc s with
                 | Some r -> Some (LxNone, r)
                 | None ->
                   (match accept_alpha_word w_prec s with
                    | Some r -> Some (LxPrec, r)
                    | None ->
                      (match accept_alpha_word w_precedence s with
                       | Some r -> Some (LxPrecedence, r)
                       | None ->
                         (match accept_alpha_word w_start s with
                          | Some r -> Some (LxStart, r)
                          | None -> None))))))))

(** val skip_blank_tab : ascii list -> ascii list **)

let rec skip_blank_tab s = match s with
| [] -> []
| c :: s' ->
  if (||)
       (eqb0 c (Ascii (false, false, false, false, false, true, false,
         false))) (eqb0 c tabc)
  then skip_blank_tab s'
  else s

(** val union_body : ascii list -> (ascii list * ascii list) option **)

let union_body s =
  match accept_word ((Ascii (true, true, false, true, true, true, true,
          false)) :: []) (skip_blank_tab s) with
  | Some r ->
    (match braces (S O) r with
     | Some p -> let (a, r') = p in Some ((removelast a), r')
     | None -> None)
  | None -> None

(** val errtok : tok0 **)

let errtok =
  { t_kind = LxError; t_value = []; t_rest = [] }

(** val is_union : lkind -> bool **)

let is_union = function
| LxUnion -> true
| _ -> false

type step_result =
| Done of tok0 list * tail
| Cont of tok0 list * ascii list * ascii list

(** val lex_step : ascii list -> ascii list -> step_result **)

let lex_step carry s =
  let emit = fun k v r -> Cont (({ t_kind = k; t_value = v; t_rest =
    r } :: []), [], r)
  in
  if has_prefix ((Ascii (true, true, true, true, false, true, false,
       false)) :: ((Ascii (true, true, true, true, false, true, false,
       false)) :: [])) s
  then Cont ([], [], (after_line s))
  else if has_prefix ((Ascii (true, true, true, true, false, true, false,
            false)) :: ((Ascii (false, true, false, true, false, true, false,
            false)) :: [])) s
       then (match block_comment false (skipn (S (S O)) s) with
             | Some r -> Cont ([], [], r)
             | None -> Done ([], ErrorForEver))
       else (match s with
             | [] ->
               Done (({ t_kind = LxEOF; t_value = []; t_rest = [] } :: []),
                 Closed)
             | c :: r ->
               if eqb0 c (Ascii (true, false, true, false, false, true,
                    false, false))
               then let other =
                      match directive_word r with
                      | Some p ->
                        let (k, r') = p in
                        if is_union k
                        then (match union_body r' with
                              | Some p0 ->
                                let (v, r'') = p0 in emit LxUnion v r''
                              | None -> Done ((errtok :: []), Closed))
                        else emit k
                               (app carry ((Ascii (true, false, true, false,
                                 false, true, false, false)) :: [])) r'
                      | None ->
                        Cont ([],
                          (app carry ((Ascii (true, false, true, false,
                            false, true, false, false)) :: [])), r)
                    in
                    (match r with
                     | [] -> other
                     | d0 :: r' ->
                       if eqb0 d0 (Ascii (true, false, true, false, false,
                            true, false, false))
                       then emit LxSection
                              (app carry ((Ascii (true, false, true, false,
                                false, true, false, false)) :: ((Ascii (true,
                                false, true, false, false, true, false,
                                false)) :: []))) r'
                       else if eqb0 d0 (Ascii (true, true, false, true, true,
                                 true, true, false))
                            then (match code_end r' with
                                  | Some p ->
                                    let (v, r'') = p in emit LxCodeQuote v r''
                                  | None -> Done ((errtok :: []), Closed))
                            else other)
               else if eqb0 c (Ascii (false, false, true, false, false, true,
                         false, false))
                    then (match r with
                          | [] ->
                            Done ((errtok :: ({ t_kind = LxEOF; t_value = [];
                              t_rest = [] } :: [])), Closed)
                          | d0 :: r' ->
                            if eqb0 d0 (Ascii (false, false, true, false,
                                 false, true, false, false))
                            then emit LxActionSelf
                                   (app carry ((Ascii (false, false, true,
                                     false, false, true, false,
                                     false)) :: ((Ascii (false, false, true,
                                     false, false, true, false,
                                     false)) :: []))) r'
                            else if is_digit d0
                                 then let (ds, r'') = take_while is_digit r'
                                      in
                                      emit LxActionN
                                        (app carry ((Ascii (false, false,
                                          true, false, false, true, false,
                                          false)) :: (d0 :: ds))) r''
                                 else (match accept_alpha_word w_accept r' with
                                       | Some r'' ->
                                         emit LxActionAccept
                                           (app carry ((Ascii (false, false,
                                             true, false, false, true, false,
                                             false)) :: [])) r''
                                       | None ->
                                         (match accept_alpha_word w_end r' with
                                          | Some r'' ->
                                            emit LxActionEnd
                                              (app carry ((Ascii (false,
                                                false, true, false, false,
                                                true, false, false)) :: []))
                                              r''
                                          | None ->
                                            Cont ((errtok :: []),
                                              (app carry ((Ascii (false,
                                                false, true, false, false,
                                                true, false,
                                                false)) :: (d0 :: []))), r'))))
                    else if eqb0 c (Ascii (false, false, true, true, true,
                              true, true, false))
                         then emit LxOr (app carry (c :: [])) r
                         else if eqb0 c (Ascii (false, true, false, true,
                                   true, true, false, false))
                              then emit LxDefine (app carry (c :: [])) r
                              else if eqb0 c (Ascii (true, true, false, true,
                                        true, true, false, false))
                                   then emit LxEnd (app carry (c :: [])) r
                                   else if is_ws c
                                        then Cont ([], [], r)
                                        else if eqb0 c quote
                                             then (match r with
                                                   | [] ->
                                                     Done ((errtok :: []),
                                                       Closed)
                                                   | d0 :: r' ->
                                                     if eqb0 d0 bslash
                                                     then (match r' with
                                                           | [] ->
                                                             Done
                                                               ((errtok :: []),
                                                               Closed)
                                                           | e :: r'' ->
                                                             if eqb0 e quote
                                                             then emit LxChar
                                                                    (quote :: [])
                                                                    r''
                                                             else Done
                                                                    ((errtok :: []),
                                                                    Closed))
                                                     else (match r' with
                                                           | [] ->
                                                             Done
                                                               ((errtok :: []),
                                                               Closed)
                                                           | e :: r'' ->
                                                             if eqb0 e quote
                                                             then emit LxChar
                                                                    (d0 :: [])
                                                                    r''
                                                             else Done
                                                                    ((errtok :: []),
                                                                    Closed)))
                                             else if eqb0 c dquote
                                                  then (match string_body r with
                                                        | Some p ->
                                                          let (v, r') = p in
                                                          emit LxString v r'
                                                        | None ->
                                                          Done
                                                            ((errtok :: []),
                                                            Closed))
                                                  else if (||) (is_letter c)
                                                            (eqb0 c (Ascii
                                                              (true, true,
                                                              true, true,
                                                              true, false,
                                                              true, false)))
                                                       then let (cs, r') =
                                                              take_while
                                                                is_idch r
                                                            in
                                                            emit LxIdentifier
                                                              (app carry
                                                                (c :: cs)) r'
                                                       else if eqb0 c (Ascii
                                                                 (false,
                                                                 false, true,
                                                                 true, true,
                                                                 true, false,
                                                                 false))
                                                            then emit
                                                                   LxLAngle
                                                                   (app carry
                                                                    (c :: []))
                                                                   r
                                                            else if eqb0 c
                                                                    (Ascii
                                                                    (false,
                                                                    true,
                                                                    true,
                                                                    true,
                                                                    true,
                                                                    true,
                                                                    false,
                                                                    false))
                                                                 then 
                                                                   emit
                                                                    LxRAngle
                                                                    (app
                                                                    carry
                                                                    (c :: []))
                                                                    r
                                                                 else 
                                                                   if 
                                                                    is_digit c
                                                                   then 
                                                                    let (
                                                                    ds, r') =
                                                                    take_while
                                                                    is_digit r
                                                                    in
                                                                    emit
                                                                    LxNumber
                                                                    (app
                                                                    carry
                                                                    (c :: ds))
                                                                    r'
                                                                   else 
                                                                    if 
                                                                    eqb0 c
                                                                    (Ascii
                                                                    (true,
                                                                    false,
                                                                    true,
                                                                    true,
                                                                    false,
                                                                    true,
                                                                    false,
                                                                    false))
                                                                    then 
                                                                    let (
                                                                    ds, r') =
                                                                    take_while
                                                                    is_digit r
                                                                    in
                                                                    emit
                                                                    LxNumber
                                                                    (app
                                                                    carry
                                                                    (c :: ds))
                                                                    r'
                                                                    else 
                                                                    if 
                                                                    eqb0 c
                                                                    (Ascii
                                                                    (true,
                                                                    true,
                                                                    false,
                                                                    true,
                                                                    true,
                                                                    true,
                                                                    true,
                                                                    false))
                                                                    then 
                                                                    (match 
                                                                    braces (S
                                                                    O) r with
                                                                    | Some p ->
                                                                    let (
                                                                    a, r') = p
                                                                    in
                                                                    emit
                                                                    LxActionQuote
                                                                    (app
                                                                    carry
                                                                    (c :: a))
                                                                    r'
                                                                    | None ->
                                                                    Done
                                                                    ((errtok :: []),
                                                                    Closed))
                                                                    else 
                                                                    Done
                                                                    ((errtok :: []),
                                                                    Closed))

(** val lex_root : nat -> ascii list -> ascii list -> tok0 list * tail **)

let rec lex_root fuel carry s =
  match fuel with
  | O -> (({ t_kind = LxFuel; t_value = []; t_rest = s } :: []), Closed)
  | S f ->
    (match lex_step carry s with
     | Done (ts, tl0) -> (ts, tl0)
     | Cont (ts, carry', rest) ->
       let (ts', tl0) = lex_root f carry' rest in ((app ts ts'), tl0))

(** val lex : ascii list -> tok0 list * tail **)

let lex s =
  lex_root (S (length s)) [] s
