open Model
let rec nat_of_int n = if n <= 0 then O else S (nat_of_int (n - 1))
let rec int_of_nat = function O -> 0 | S n -> 1 + int_of_nat n
