(* nat is OCaml int in this build (ExtrOcamlNatInt) *)
let nat_of_int (n : int) : int = if n <= 0 then 0 else n
let int_of_nat (n : int) : int = n
