(* model_eval: text front end of the extracted Coq model (hand-written, trusted glue).
   Reads commands on stdin (whitespace separated integers after a command letter), prints
   canonical text.  All model logic is in model.ml (extracted). *)
open Model

(* nat_of_int / int_of_nat come from natconv.ml: natconv_pure.ml for the extraction that keeps nat as an inductive
   type, natconv_int.ml for the extraction with ExtrOcamlNatInt (nat as OCaml int) *)
open Natconv
let rec pos_of_int n = if n = 1 then XH else if n land 1 = 1 then XI (pos_of_int (n lsr 1)) else XO (pos_of_int (n lsr 1))
let z_of_int n = if n = 0 then Z0 else if n > 0 then Zpos (pos_of_int n) else Zneg (pos_of_int (-n))
let rec int_of_pos = function XH -> 1 | XO p -> 2 * int_of_pos p | XI p -> 2 * int_of_pos p + 1
let int_of_z = function Z0 -> 0 | Zpos p -> int_of_pos p | Zneg p -> - (int_of_pos p)

(* byte strings <-> list ascii (hex on the wire, "-" = empty) *)
let ascii_of_int n = Ascii (n land 1 <> 0, n land 2 <> 0, n land 4 <> 0, n land 8 <> 0, n land 16 <> 0, n land 32 <> 0, n land 64 <> 0, n land 128 <> 0)
let int_of_ascii (Ascii (a, b, c, d, e, f, g, h)) =
  let v x k = if x then k else 0 in v a 1 + v b 2 + v c 4 + v d 8 + v e 16 + v f 32 + v g 64 + v h 128
let bytes_of_hex s =
  if s = "-" then [] else
  List.init (String.length s / 2) (fun i -> ascii_of_int (int_of_string ("0x" ^ String.sub s (2 * i) 2)))
let hex_of_bytes l = if l = [] then "-" else String.concat "" (List.map (fun c -> Printf.sprintf "%02x" (int_of_ascii c)) l)

let tokens : string Queue.t = Queue.create ()
let rec fill () =
  if Queue.is_empty tokens then
    match input_line stdin with
    | line -> List.iter (fun s -> if s <> "" then Queue.add s tokens) (String.split_on_char ' ' (String.trim line)); fill ()
    | exception End_of_file -> ()
let next () = fill (); if Queue.is_empty tokens then None else Some (Queue.pop tokens)
let next_int () = match next () with Some s -> int_of_string s | None -> failwith "unexpected end of input"
let rec read_n n f = if n <= 0 then [] else let x = f () in x :: read_n (n - 1) f

let assoc_of_int = function 0 -> LEFT | 1 -> RIGHT | _ -> NONE
let show_action = function
  | Shift q -> "s" ^ string_of_int (int_of_nat q)
  | Reduce r -> "r" ^ string_of_int (int_of_nat r)
  | Accept -> "a"
  | Error -> "e"
let ints l = String.concat " " (List.map string_of_int l)
let variant_of_int = function 0 -> GoPacked | 1 -> GoDense | 2 -> ObjPacked | 3 -> ObjDense | _ -> TsDense

let show_result = function
  | RAcc (v, reds) -> Printf.sprintf "A %d [%s]" (int_of_z v) (ints (List.map int_of_nat reds))
  | RRej (pos, reds) -> Printf.sprintf "R %d [%s]" (int_of_nat pos) (ints (List.map int_of_nat reds))
  | RCrash -> "C"
  | RNil -> "N"
  | RFuel -> "F"

(* current grammar *)
let cur_id = ref ""
let cur_gi : ginfo option ref = ref None
let cur_tabs : (gen_error, tables) sum option ref = ref None
let cur_act : (z * z list) list ref = ref []

(* memoised table of a variant: semantically table_of v t, tabulated per (state, symbol) *)
let memo : (int, (int * int, action) Hashtbl.t) Hashtbl.t = Hashtbl.create 8
let memo_table vi v t : table =
  let h = (match Hashtbl.find_opt memo vi with Some h -> h | None -> let h = Hashtbl.create 256 in Hashtbl.add memo vi h; h) in
  let f = table_of v t in
  fun q a ->
    let k = (int_of_nat q, int_of_nat a) in
    match Hashtbl.find_opt h k with
    | Some x -> x
    | None -> let x = f q a in Hashtbl.add h k x; x

let get_tabs () =
  match !cur_tabs with
  | Some t -> t
  | None ->
    let gi = match !cur_gi with Some g -> g | None -> failwith "no grammar" in
    let t = generate_tables_fast gi in   (* = generate_tables gi, Fast.generate_tables_fast_eq *)
    cur_tabs := Some t; t

let dump_tables () =
  let id = !cur_id in
  let gi = match !cur_gi with Some g -> g | None -> failwith "no grammar" in
  Printf.printf "%s nullable %s\n" id (ints (List.sort compare (List.map int_of_nat (nullable_list gi.gi_rules))));
  (* the hypotheses of the back-end theorems, as one boolean check on the grammar object (WfGrammar.wf_gi) *)
  Printf.printf "%s wfcheck %d\n" id (if wf_gi gi then 1 else 0);
  match get_tabs () with
  | Inl (EUnproductive l) -> Printf.printf "%s error unproductive %s\n" id (ints (List.map int_of_nat l))
  | Inl ETooManyStates -> Printf.printf "%s error toomanystates\n" id
  | Inr t ->
    let n = List.length t.t_aut in
    let nn = nat_of_int n in
    Printf.printf "%s states %d\n" id n;
    List.iteri (fun q s ->
      Printf.printf "%s lr0 %d items %s gotos %s\n" id q
        (String.concat " " (List.map (fun (r, d) -> Printf.sprintf "%d.%d" (int_of_nat r) (int_of_nat d)) s.items))
        (String.concat " " (List.map (fun (x, q') -> Printf.sprintf "%d>%d" (int_of_nat x) (int_of_nat q')) s.gotos))) t.t_aut;
    List.iteri (fun q row ->
      List.iter (fun (r, l) ->
        Printf.printf "%s la %d %d : %s\n" id q (int_of_nat r) (ints (List.sort_uniq compare (List.map int_of_nat l)))) row) t.t_la;
    List.iteri (fun q row ->
      Printf.printf "%s dense %d : %s\n" id q (String.concat " " (List.map (fun z -> show_action (decode_z nn z)) row))) t.t_dense;
    List.iter (fun ((q, a), (k1, k2)) ->
      Printf.printf "%s warn %d %d %d %d\n" id (int_of_nat q) (int_of_nat a) (int_of_nat k1) (int_of_nat k2)) t.t_warn;
    Printf.printf "%s needpacked %d\n" id (if t.t_need_packed then 1 else 0);
    let nsyms = int_of_nat gi.gi_nsyms in
    for q = 0 to n - 1 do
      let cells = List.init nsyms (fun a -> show_action (decode_z nn (packed_lookup t.t_packed (nat_of_int q) (nat_of_int a)))) in
      Printf.printf "%s plook %d : %s\n" id q (String.concat " " cells)
    done;
    Printf.printf "%s adef %s\n" id (String.concat " " (List.map (fun z -> show_action (decode_z nn z)) t.t_packed.p_adef));
    Printf.printf "%s gdef %s\n" id (String.concat " " (List.map (fun z -> show_action (decode_z nn z)) t.t_packed.p_gdef))

(* the same for a grammar too large for the model's row displacement: everything up to the dense table (Fast.generate_dense,
   proved equal to the corresponding fields of generate_tables) *)
let dump_dense () =
  let id = !cur_id in
  let gi = match !cur_gi with Some g -> g | None -> failwith "no grammar" in
  Printf.printf "%s nullable %s\n" id (ints (List.sort compare (List.map int_of_nat (nullable_list gi.gi_rules))));
  (* the hypotheses of the back-end theorems, as one boolean check on the grammar object (WfGrammar.wf_gi) *)
  Printf.printf "%s wfcheck %d\n" id (if wf_gi gi then 1 else 0);
  match generate_dense gi with
  | Inl (EUnproductive l) -> Printf.printf "%s error unproductive %s\n" id (ints (List.map int_of_nat l))
  | Inl ETooManyStates -> Printf.printf "%s error toomanystates\n" id
  | Inr t ->
    let n = List.length t.dt_aut in
    let nn = nat_of_int n in
    Printf.printf "%s states %d\n" id n;
    List.iteri (fun q s ->
      Printf.printf "%s lr0 %d items %s gotos %s\n" id q
        (String.concat " " (List.map (fun (r, d) -> Printf.sprintf "%d.%d" (int_of_nat r) (int_of_nat d)) s.items))
        (String.concat " " (List.map (fun (x, q') -> Printf.sprintf "%d>%d" (int_of_nat x) (int_of_nat q')) s.gotos))) t.dt_aut;
    List.iteri (fun q row ->
      List.iter (fun (r, l) ->
        Printf.printf "%s la %d %d : %s\n" id q (int_of_nat r) (ints (List.sort_uniq compare (List.map int_of_nat l)))) row) t.dt_la;
    List.iteri (fun q row ->
      Printf.printf "%s dense %d : %s\n" id q (String.concat " " (List.map (fun z -> show_action (decode_z nn z)) row))) t.dt_dense;
    List.iter (fun ((q, a), (k1, k2)) ->
      Printf.printf "%s warn %d %d %d %d\n" id (int_of_nat q) (int_of_nat a) (int_of_nat k1) (int_of_nat k2)) t.dt_warn;
    Printf.printf "%s denseonly 1\n" id

let read_input () =
  let n = next_int () in
  read_n n (fun () -> let s = next_int () in let v = next_int () in (nat_of_int s, z_of_int v))

let () =
  let rec loop () =
    match next () with
    | None -> ()
    | Some "G" ->
      (* G id nsyms nterm nrules *)
      let id = (match next () with Some s -> s | None -> failwith "id") in
      let nsyms = next_int () in let nterm = next_int () in let nrules = next_int () in
      cur_id := id; cur_tabs := None; cur_act := []; Hashtbl.reset memo;
      let sprec = read_n nsyms (fun () -> let p = next_int () in let a = next_int () in (z_of_int p, assoc_of_int a)) in
      let rules = read_n nrules (fun () ->
        let l = next_int () in let p = next_int () in let a = next_int () in let k = next_int () in
        let rhs = read_n k (fun () -> nat_of_int (next_int ())) in
        ({ lhs = nat_of_int l; rhs = rhs }, (z_of_int p, assoc_of_int a))) in
      cur_gi := Some { gi_rules = List.map fst rules; gi_nsyms = nat_of_int nsyms; gi_nterm = nat_of_int nterm;
                       gi_sprec = sprec; gi_rprec = List.map snd rules };
      loop ()
    | Some "A" ->
      (* A nrules (c k coef*k)*nrules : linear semantic actions, entry i is for rule i *)
      let nrules = next_int () in
      cur_act := read_n nrules (fun () -> let c = next_int () in let k = next_int () in
                                          (z_of_int c, read_n k (fun () -> z_of_int (next_int ()))));
      loop ()
    | Some "T" -> dump_tables (); loop ()
    | Some "TD" -> dump_dense (); loop ()
    | Some "X" ->
      (* X tag variant fuel n (sym val)*n *)
      let tag = (match next () with Some s -> s | None -> failwith "tag") in
      let vi = next_int () in let v = variant_of_int vi in let fuel = next_int () in
      let inp = read_input () in
      (match get_tabs () with
       | Inr t ->
         let gi = (match !cur_gi with Some g -> g | None -> failwith "no grammar") in
         let r = parse_from_tab (memo_table vi v t) (is_object v) gi.gi_rules (linear_act !cur_act) (nat_of_int fuel) { stk = []; sp = nat_of_int 0 } inp in
         Printf.printf "%s run %s : %s\n" !cur_id tag (show_result r)
       | Inl _ -> Printf.printf "%s run %s : nogrammar\n" !cur_id tag);
      loop ()
    | Some "H" ->
      (* H tag variant fuel k (n (sym val)*n)*k *)
      let tag = (match next () with Some s -> s | None -> failwith "tag") in
      let vi = next_int () in let v = variant_of_int vi in let fuel = next_int () in
      let k = next_int () in
      let inps = read_n k read_input in
      (match get_tabs () with
       | Inr t ->
         let gi = (match !cur_gi with Some g -> g | None -> failwith "no grammar") in
         let rs = history_tab (memo_table vi v t) (is_object v) gi.gi_rules (linear_act !cur_act) (nat_of_int fuel) { stk = []; sp = nat_of_int 0 } inps in
         Printf.printf "%s hist %s : %s\n" !cur_id tag (String.concat " ; " (List.map show_result rs))
       | Inl _ -> Printf.printf "%s hist %s : nogrammar\n" !cur_id tag);
      loop ()
    | Some "V" ->
      (* V tag n (sym val)*n k (rule shifted)*k : verified replay of a reported parse *)
      let tag = (match next () with Some s -> s | None -> failwith "tag") in
      let inp = read_input () in
      let k = next_int () in
      let reds = read_n k (fun () -> let r = next_int () in let s = next_int () in (nat_of_int r, nat_of_int s)) in
      let gi = (match !cur_gi with Some g -> g | None -> failwith "no grammar") in
      (match replay gi.gi_rules (linear_act !cur_act) [] inp (nat_of_int 0) reds with
       | Some v -> Printf.printf "%s replay %s : ok %d\n" !cur_id tag (int_of_z v)
       | None -> Printf.printf "%s replay %s : invalid\n" !cur_id tag);
      loop ()
    | Some "K" ->
      (match get_tabs () with
       | Inr t -> Printf.printf "%s conflicts %d %s\n" !cur_id (List.length t.t_conf)
                    (String.concat " " (List.map (fun (q, a) -> Printf.sprintf "%d:%d" (int_of_nat q) (int_of_nat a)) t.t_conf))
       | Inl _ -> Printf.printf "%s conflicts error\n" !cur_id);
      loop ()
    | Some "Q" ->
      (* the finite grid of harness/cmd/resolve through resolve_pair / default_pair *)
      let grid = List.concat_map (fun ty ->
        let idx = (match ty with 0 -> [5; 7] | 1 -> [-3; -4] | _ -> [0]) in
        List.concat_map (fun p -> List.concat_map (fun a -> List.map (fun i ->
          let k = (match ty with 0 -> KShift (nat_of_int i) | 1 -> KReduce (nat_of_int (-i)) | _ -> KError) in
          { c_kind = k; c_prec = z_of_int p; c_assoc = assoc_of_int a }) idx) [0; 1; 2]) [-1; 1; 2]) [0; 1; 2] in
      let int_of_assoc = function LEFT -> 0 | RIGHT -> 1 | NONE -> 2 in
      let show c =
        let (ty, i) = (match c.c_kind with KShift q -> (0, int_of_nat q) | KReduce r -> (1, - (int_of_nat r)) | KError -> (2, 0)) in
        Printf.sprintf "%d %d %d %d" ty (int_of_z c.c_prec) (int_of_assoc c.c_assoc) i in
      List.iter (fun a -> List.iter (fun b ->
        let res = (match resolve_pair a b with Some w -> show w | None -> "none") in
        Printf.printf "P %s | %s -> %s ; %s\n" (show a) (show b) res (show (default_pair a b))) grid) grid;
      loop ()
    | Some "F" ->
      (* F tag stage : FsModel.predict for a generation that fails at the given stage (or none) *)
      let tag = (match next () with Some s -> s | None -> failwith "tag") in
      let st = (match next () with
        | Some "lex" -> Some SLex | Some "syntax" -> Some SSyntax | Some "visit" -> Some SVisit | Some "build" -> Some SBuild
        | Some "const" -> Some SConst | Some "union" -> Some SUnion | Some "table" -> Some STable | Some "state" -> Some SState
        | Some "reduce" -> Some SReduce | Some "translate" -> Some STranslate | Some "create" -> Some SCreate | Some "write" -> Some SWrite
        | _ -> None) in
      Printf.printf "F %s %s\n" tag (match predict st with Some Old -> "old" | Some Empty -> "empty" | Some New -> "new" | None -> "absent");
      loop ()
    | Some "P" ->
      (* P id  then the AST (see tools/front.py): runs Front.front and prints identifiers, rules, symbols *)
      let id = (match next () with Some s -> s | None -> failwith "id") in
      let nexts () = (match next () with Some s -> s | None -> failwith "eof") in
      let hx () = bytes_of_hex (nexts ()) in
      let code = hx () in let union = hx () in let start = hx () in let rest = hx () in
      let ntl = next_int () in
      let toks = read_n ntl (fun () -> let k = next_int () in read_n k (fun () ->
        let nm = hx () in let ty = next_int () in let v = next_int () in let tag = hx () in let al = hx () in
        { i_name = nm; i_typ = (if ty = 1 then TermId else NontermId); i_value = z_of_int v; i_tag = tag; i_alias = al })) in
      let npl = next_int () in
      let precs = read_n npl (fun () -> let k = next_int () in read_n k (fun () ->
        let a = next_int () in let nm = hx () in { pd_assoc = (match a with 1 -> ALeft | 2 -> ARight | _ -> ANon); pd_name = nm })) in
      let nty = next_int () in
      let types = read_n nty (fun () -> let tag = hx () in let nm = hx () in (tag, nm)) in
      let nr = next_int () in
      let rules = read_n nr (fun () ->
        let line = next_int () in let l = hx () in let pr = hx () in let k = next_int () in
        let rhs = read_n k (fun () -> let t = next_int () in let e = hx () in if t = 1 then RSym e else RAct e) in
        { r_line = nat_of_int line; r_lhs = l; r_rhs = rhs; r_prec = pr }) in
      let a = { a_decl = { d_code = code; d_tokens = toks; d_precs = precs; d_types = types; d_union = union; d_start = start };
                a_rules = rules; a_rest = rest } in
      let show_visited v =
        List.iter (fun i -> Printf.printf "%s ident %s %d %d %s\n" id (hex_of_bytes i.i_name) (match i.i_typ with TermId -> 1 | NontermId -> 2)
                              (int_of_z i.i_value) (hex_of_bytes i.i_tag)) v.vs_tab;
        List.iteri (fun k r -> Printf.printf "%s vrule %d %s %s %s %s\n" id k (hex_of_bytes r.v_lhs)
                              (match r.v_prec with Some n -> hex_of_bytes n | None -> "-") (hex_of_bytes r.v_action)
                              (String.concat " " (List.map hex_of_bytes r.v_rhs))) v.vs_rules in
      (match front a with
       | Inl e ->
         (match visit a with Inr v -> show_visited v | Inl _ -> ());
         (match e with
          | FPrecUnknown n -> Printf.printf "%s ferror precunknown %s\n" id (hex_of_bytes n)
          | FUndefined n -> Printf.printf "%s ferror undefined %s\n" id (hex_of_bytes n)
          | FNoRule n -> Printf.printf "%s ferror norule %s\n" id (hex_of_bytes n)
          | FNoStart -> Printf.printf "%s ferror nostart\n" id
          | FUnproductive l -> Printf.printf "%s ferror unproductive %s\n" id (ints (List.map int_of_nat l))
          | FTooMany -> Printf.printf "%s ferror toomany\n" id)
       | Inr b ->
         show_visited b.b_visited;
         List.iteri (fun k s -> Printf.printf "%s sym %d %s %d %d %d %d %s\n" id k (hex_of_bytes s.s_name) (int_of_z s.s_value)
                               (if s.s_declnt then 1 else 0) (int_of_z s.s_prec) (match s.s_assoc with LEFT -> 0 | RIGHT -> 1 | NONE -> 2) (hex_of_bytes s.s_tag)) b.b_syms;
         List.iteri (fun k (r, pr) -> Printf.printf "%s grule %d %d %d %s\n" id k (int_of_nat r.lhs)
                               (match pr with Some p -> int_of_nat p | None -> -1) (ints (List.map int_of_nat r.rhs)))
           (List.combine b.b_gi.gi_rules b.b_rule_prec);
         Printf.printf "%s nterm %d\n" id (int_of_nat b.b_gi.gi_nterm);
         Printf.printf "%s fok\n" id);
      loop ()
    | Some "C" ->
      (* C tag n (name value)*n m (name value)*m : Front.valid_codes declared final *)
      let tag = (match next () with Some s -> s | None -> failwith "tag") in
      let rd () = let n = next_int () in read_n n (fun () ->
        let nm = (match next () with Some s -> bytes_of_hex s | None -> failwith "eof") in let v = next_int () in (nm, z_of_int v)) in
      let decls = rd () in let final = rd () in
      Printf.printf "C %s %s\n" tag (if valid_codes decls final then "ok" else "bad");
      loop ()
    | Some "L" ->
      (* L tag hex : Lexer.lex on the bytes; one line per token: kind value_hex, then the tail behaviour *)
      let tag = (match next () with Some s -> s | None -> failwith "tag") in
      let src = (match next () with Some s -> bytes_of_hex s | None -> failwith "eof") in
      let kind_name = function
        | LxError -> "Error" | LxIdentifier -> "Identifier" | LxNumber -> "Number" | LxSection -> "Section" | LxCodeQuote -> "CodeQuote"
        | LxActionQuote -> "ActionQuote" | LxEOF -> "EOF" | LxType -> "TypeDirective" | LxToken -> "TokenDirective" | LxUnion -> "UnionDirective"
        | LxLeft -> "LeftAssoc" | LxRight -> "RightAssoc" | LxNone -> "NoneAssoc" | LxPrec -> "PrecDirective" | LxPrecedence -> "Precedence"
        | LxStart -> "StartDirective" | LxActionSelf -> "ActionSelf" | LxActionN -> "ActionN" | LxActionAccept -> "ActionAccept"
        | LxActionEnd -> "ActionEnd" | LxOr -> "RuleOR" | LxDefine -> "RuleDefine" | LxEnd -> "RuleEnd" | LxLAngle -> "LeftAngleBracket"
        | LxRAngle -> "RightAngleBracket" | LxChar -> "Charater" | LxString -> "StringKind" | LxFuel -> "FUEL" in
      let (ts, tl) = lex src in
      List.iter (fun t -> Printf.printf "L %s tok %s %s\n" tag (kind_name t.t_kind) (hex_of_bytes t.t_value)) ts;
      Printf.printf "L %s tail %s\n" tag (match tl with Closed -> "closed" | ErrorForEver -> "error");
      loop ()
    | Some "Y" ->
      (* Y tag hex : YParser.parse_text on the bytes; prints the AST *)
      let tag = (match next () with Some s -> s | None -> failwith "tag") in
      let src = (match next () with Some s -> bytes_of_hex s | None -> failwith "eof") in
      (match parse_text src with
       | PNoDeclare -> Printf.printf "Y %s result nodeclare\n" tag
       | PNoSection -> Printf.printf "Y %s result nosection\n" tag
       | PBadRules -> Printf.printf "Y %s result badrules\n" tag
       | PFuelOut -> Printf.printf "Y %s result FUEL\n" tag
       | PAst a ->
         let d = a.a_decl in
         Printf.printf "Y %s result ast\n" tag;
         Printf.printf "Y %s head %s %s %s %s\n" tag (hex_of_bytes d.d_code) (hex_of_bytes d.d_union) (hex_of_bytes d.d_start) (hex_of_bytes a.a_rest);
         List.iter (fun line -> Printf.printf "Y %s tokline %s\n" tag (String.concat " " (List.map (fun i ->
           Printf.sprintf "%s %d %d %s %s" (hex_of_bytes i.i_name) (match i.i_typ with TermId -> 1 | NontermId -> 2) (int_of_z i.i_value) (hex_of_bytes i.i_tag) (hex_of_bytes i.i_alias)) line))) d.d_tokens;
         List.iter (fun line -> Printf.printf "Y %s precline %s\n" tag (String.concat " " (List.map (fun p ->
           Printf.sprintf "%d %s" (match p.pd_assoc with ALeft -> 1 | ARight -> 2 | ANon -> 3) (hex_of_bytes p.pd_name)) line))) d.d_precs;
         List.iter (fun (tg, nm) -> Printf.printf "Y %s type %s %s\n" tag (hex_of_bytes tg) (hex_of_bytes nm)) d.d_types;
         List.iter (fun r -> Printf.printf "Y %s rule %s %s %s\n" tag (hex_of_bytes r.r_lhs) (hex_of_bytes r.r_prec)
           (String.concat " " (List.map (function RSym n -> "1 " ^ hex_of_bytes n | RAct c -> "2 " ^ hex_of_bytes c) r.r_rhs))) a.a_rules);
      loop ()
    | Some "E" ->
      (* E id hex : the whole model from the text of the grammar file; prints the tables like T *)
      let id = (match next () with Some s -> s | None -> failwith "id") in
      let src = (match next () with Some s -> bytes_of_hex s | None -> failwith "eof") in
      cur_id := id; cur_tabs := None; cur_act := []; Hashtbl.reset memo; cur_gi := None;
      (match generate_text_fast src with   (* = generate_text src, EndToEndProofs.generate_text_fast_eq *)
       | GSyntax _ -> Printf.printf "%s e2e syntax\n" id
       | GFront _ -> Printf.printf "%s e2e front\n" id
       | GTooMany -> Printf.printf "%s e2e toomany\n" id
       | GOk (b, t) ->
         cur_gi := Some b.b_gi; cur_tabs := Some (Inr t);
         Printf.printf "%s e2e ok\n" id;
         dump_tables ());
      loop ()
    | Some "B" ->
      (* B tag lang ltag nrtags rtag... action  (byte strings in hex): EmitAction.subst_action with the Go (0) / TypeScript (1) texts *)
      let tag = (match next () with Some s -> s | None -> failwith "tag") in
      let lang = next_int () in
      let hx () = (match next () with Some s -> bytes_of_hex s | None -> failwith "hex") in
      let ltag = hx () in
      let n = next_int () in
      let rtags = read_n n hx in
      let act = hx () in
      let str s = List.init (String.length s) (fun i -> ascii_of_int (Char.code s.[i])) in
      let (sp, ao, am) = if lang = 0 then (str "dollarDolar.", str "Dollar[", str "].") else (str "dollarDolar.ValType.", str "Dollar[", str "].ValType.") in
      (match subst_action sp ao am ltag rtags act with
       | Some out -> Printf.printf "B %s ok %s\n" tag (hex_of_bytes out)
       | None -> Printf.printf "B %s fail\n" tag);
      loop ()
    | Some "D" ->
      (* D tag hex : EscapeDot.escape, and the fields read back from the escaped text split at unprotected bars *)
      let tag = (match next () with Some s -> s | None -> failwith "tag") in
      let b = (match next () with Some s -> bytes_of_hex s | None -> failwith "hex") in
      let e = escape b in
      Printf.printf "D %s %s %s\n" tag (hex_of_bytes e) (String.concat "," (List.map (fun f -> hex_of_bytes (unescape f)) (splitp e [])));
      loop ()
    | Some "W" ->
      (* W tag nstates nsyms cells... : Draw.draw_nodes / draw_edges on a dense matrix (the items of the nodes are not printed) *)
      let tag = (match next () with Some s -> s | None -> failwith "tag") in
      let rows = next_int () in let cols = next_int () in
      let m = read_n rows (fun () -> read_n cols (fun () -> z_of_int (next_int ()))) in
      let aut = List.init rows (fun _ -> { items = []; gotos = [] }) in
      let edges = draw_edges aut m in
      Printf.printf "W %s E %s\n" tag (String.concat " " (List.map (fun ((q, a), q') -> Printf.sprintf "%d:%d:%d" (int_of_nat q) (int_of_nat a) (int_of_nat q')) edges));
      List.iter (fun nd ->
        Printf.printf "W %s N %d %d %s\n" tag (int_of_nat nd.gn_state) (if nd.gn_accept then 1 else 0)
          (String.concat " " (List.map (fun (a, r) -> Printf.sprintf "%d:%d" (int_of_nat a) (int_of_nat r)) nd.gn_look))) (draw_nodes aut m);
      loop ()
    | Some "M" ->
      (* M tag rows cols cells... : pack a matrix, print unpack(pack) and the lookups *)
      let tag = (match next () with Some s -> s | None -> failwith "tag") in
      let rows = next_int () in let cols = next_int () in
      let m = read_n rows (fun () -> read_n cols (fun () -> z_of_int (next_int ()))) in
      let ((t, d), c) = pack_matrix m (nat_of_int cols) in
      let u = unpack (nat_of_int rows) (nat_of_int cols) t d c in
      Printf.printf "M %s T %s\n" tag (ints (List.map int_of_z t));
      Printf.printf "M %s D %s\n" tag (ints (List.map int_of_z d));
      Printf.printf "M %s C %s\n" tag (ints (List.map int_of_z c));
      Printf.printf "M %s U %s\n" tag (String.concat " | " (List.map (fun r -> ints (List.map int_of_z r)) u));
      loop ()
    | Some s -> failwith ("unknown command " ^ s)
  in
  loop ()
