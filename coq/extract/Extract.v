(* Extraction of the executable model to OCaml.  Only ExtrOcamlBasic is used (bool, option, list,
   prod, unit, sumbool map to OCaml's own); nat, positive, Z stay the extracted inductives.
   No Extract Constant / Extract Inductive directives of our own. *)
Require Extraction.
From Coq Require Import ExtrOcamlBasic.
From Coq Require Import List ZArith.
From YG Require Import LRBase LR0Build Resolve TableCert LAExec PackCore Pipeline DriverSim Drivers Oracle FsModel Front Lexer YParser EndToEnd Draw EmitAction EscapeDot Fast EndToEndProofs WfGrammar.
Extraction Language OCaml.
Extraction "model.ml"
  Pipeline.generate_tables Pipeline.unpack Pipeline.pack_matrix Pipeline.packed_lookup Pipeline.cellz
  Pipeline.decode_z Pipeline.nullable_list Pipeline.productive_list Pipeline.is_nt_b
  Resolve.resolve_pair Resolve.default_pair Oracle.replay Drivers.parse Drivers.history Drivers.parse_from_tab Drivers.history_tab Drivers.is_object Drivers.linear_act Drivers.table_of
  FsModel.predict Front.front Front.visit Front.valid_codes Lexer.lex YParser.parse_text EndToEnd.generate_text Draw.draw_nodes Draw.draw_edges EmitAction.subst_action EscapeDot.escape EscapeDot.unescape EscapeDot.splitp Fast.generate_dense Fast.generate_tables_fast EndToEndProofs.generate_text_fast WfGrammar.wf_gi
  BinInt.Z.of_nat BinInt.Z.to_nat BinInt.Z.add BinInt.Z.opp.
