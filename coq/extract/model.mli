
val negb : bool -> bool

type nat =
| O
| S of nat

type ('a, 'b) sum =
| Inl of 'a
| Inr of 'b

val fst : ('a1 * 'a2) -> 'a1

val snd : ('a1 * 'a2) -> 'a2

val length : 'a1 list -> nat

val app : 'a1 list -> 'a1 list -> 'a1 list

type comparison =
| Eq
| Lt
| Gt

val compOpp : comparison -> comparison

val add : nat -> nat -> nat

val mul : nat -> nat -> nat

val sub : nat -> nat -> nat

val max : nat -> nat -> nat

val eqb : bool -> bool -> bool

module Nat :
 sig
  val eqb : nat -> nat -> bool

  val leb : nat -> nat -> bool

  val ltb : nat -> nat -> bool
 end

val hd : 'a1 -> 'a1 list -> 'a1

val tl : 'a1 list -> 'a1 list

val nth : nat -> 'a1 list -> 'a1 -> 'a1

val nth_error : 'a1 list -> nat -> 'a1 option

val removelast : 'a1 list -> 'a1 list

val rev : 'a1 list -> 'a1 list

val concat : 'a1 list list -> 'a1 list

val map : ('a1 -> 'a2) -> 'a1 list -> 'a2 list

val flat_map : ('a1 -> 'a2 list) -> 'a1 list -> 'a2 list

val fold_left : ('a1 -> 'a2 -> 'a1) -> 'a2 list -> 'a1 -> 'a1

val fold_right : ('a2 -> 'a1 -> 'a1) -> 'a1 -> 'a2 list -> 'a1

val existsb : ('a1 -> bool) -> 'a1 list -> bool

val forallb : ('a1 -> bool) -> 'a1 list -> bool

val filter : ('a1 -> bool) -> 'a1 list -> 'a1 list

val combine : 'a1 list -> 'a2 list -> ('a1 * 'a2) list

val firstn : nat -> 'a1 list -> 'a1 list

val skipn : nat -> 'a1 list -> 'a1 list

val seq : nat -> nat -> nat list

val list_max : nat list -> nat

type positive =
| XI of positive
| XO of positive
| XH

type n =
| N0
| Npos of positive

type z =
| Z0
| Zpos of positive
| Zneg of positive

module Pos :
 sig
  val succ : positive -> positive

  val add : positive -> positive -> positive

  val add_carry : positive -> positive -> positive

  val pred_double : positive -> positive

  val mul : positive -> positive -> positive

  val compare_cont : comparison -> positive -> positive -> comparison

  val compare : positive -> positive -> comparison

  val eqb : positive -> positive -> bool

  val iter_op : ('a1 -> 'a1 -> 'a1) -> positive -> 'a1 -> 'a1

  val to_nat : positive -> nat

  val of_succ_nat : nat -> positive
 end

module N :
 sig
  val add : n -> n -> n

  val mul : n -> n -> n

  val compare : n -> n -> comparison

  val leb : n -> n -> bool

  val ltb : n -> n -> bool

  val of_nat : nat -> n
 end

module Z :
 sig
  val double : z -> z

  val succ_double : z -> z

  val pred_double : z -> z

  val pos_sub : positive -> positive -> z

  val add : z -> z -> z

  val opp : z -> z

  val sub : z -> z -> z

  val mul : z -> z -> z

  val compare : z -> z -> comparison

  val leb : z -> z -> bool

  val ltb : z -> z -> bool

  val gtb : z -> z -> bool

  val eqb : z -> z -> bool

  val to_nat : z -> nat

  val of_nat : nat -> z

  val pos_div_eucl : positive -> z -> z * z

  val div_eucl : z -> z -> z * z

  val modulo : z -> z -> z
 end

type ascii =
| Ascii of bool * bool * bool * bool * bool * bool * bool * bool

val zero : ascii

val one : ascii

val shift : bool -> ascii -> ascii

val eqb0 : ascii -> ascii -> bool

val ascii_of_pos : positive -> ascii

val ascii_of_N : n -> ascii

val ascii_of_nat : nat -> ascii

val n_of_digits : bool list -> n

val n_of_ascii : ascii -> n

type rule = { lhs : nat; rhs : nat list }

type grammar = rule list

type item = nat * nat

type state = { items : item list; gotos : (nat * nat) list }

type automaton = state list

type action =
| Shift of nat
| Reduce of nat
| Accept
| Error

type table = nat -> nat -> action

val eof : nat

val assoc : nat -> (nat * nat) list -> nat option

val st : automaton -> nat -> state

val goto : automaton -> nat -> nat -> nat option

val rhs_of : grammar -> nat -> nat list

val lhs_of : grammar -> nat -> nat

val next_sym : grammar -> item -> nat option

val rules_for_aux : nat -> grammar -> nat -> item list

val rules_for : grammar -> nat -> item list

val item_eqb : item -> item -> bool

val mem : item -> item list -> bool

val add_new : item list -> item list -> item list

val expand : grammar -> item -> item list

val closure_round : grammar -> item list -> item list

val closure_iter : nat -> grammar -> item list -> item list

val item_leb : item -> item -> bool

val insert : item -> item list -> item list

val isort : item list -> item list

val closure : grammar -> item list -> item list

val nmem : nat -> nat list -> bool

val syms_after_aux : grammar -> item list -> nat list -> nat list

val syms_after : grammar -> item list -> nat list

val has_next : grammar -> nat -> item -> bool

val advance : grammar -> item list -> nat -> item list

val list_eqb : item list -> item list -> bool

val find_state : item list -> state list -> nat -> nat option

val register :
  grammar -> item list -> nat list -> state list -> (nat * nat) list -> state
  list * (nat * nat) list

val set_gotos : state list -> nat -> (nat * nat) list -> state list

val build_loop : nat -> grammar -> state list -> nat -> state list option

val build : grammar -> automaton option

type assoc0 =
| LEFT
| RIGHT
| NONE

type kind =
| KShift of nat
| KReduce of nat
| KError

type cand = { c_kind : kind; c_prec : z; c_assoc : assoc0 }

val is_shift : cand -> bool

val is_reduce : cand -> bool

val action_index : cand -> z

val resolve_pair : cand -> cand -> cand option

val default_pair : cand -> cand -> cand

val resolve_from : cand -> cand list -> cand * bool

val resolve : cand list -> (cand * bool) option

val sh : nat -> z -> assoc0 -> cand

val rd : nat -> z -> assoc0 -> cand

val complete_rules : grammar -> automaton -> nat -> nat list

val nmem0 : nat -> nat list -> bool

val la' : (nat -> nat -> nat list) -> nat -> nat -> nat list

val candidates :
  grammar -> automaton -> (nat -> nat -> nat list) -> (nat -> z * assoc0) ->
  (nat -> z * assoc0) -> nat -> nat -> cand list

val decode : kind -> action

val gen_table :
  grammar -> automaton -> (nat -> nat -> nat list) -> (nat -> z * assoc0) ->
  (nat -> z * assoc0) -> table

type ntrans = nat * nat

val mem0 : ('a1 -> 'a1 -> bool) -> 'a1 -> 'a1 list -> bool

val add_new0 : ('a1 -> 'a1 -> bool) -> 'a1 list -> 'a1 list -> 'a1 list

val round : ('a1 -> 'a1 -> bool) -> ('a1 -> 'a1 list) -> 'a1 list -> 'a1 list

val saturate :
  ('a1 -> 'a1 -> bool) -> ('a1 -> 'a1 list) -> nat -> 'a1 list -> 'a1 list

val ntrans_eqb : ntrans -> ntrans -> bool

val walk : automaton -> nat -> nat list -> nat option

val keys : automaton -> nat -> nat list

val dRl : automaton -> nat -> (nat -> bool) -> ntrans -> nat list

val reads_succ : automaton -> (nat -> bool) -> ntrans -> ntrans list

val all_trans : automaton -> ntrans list

val readl :
  automaton -> nat -> (nat -> bool) -> (nat -> bool) -> ntrans -> nat list

val nullable_seq_b : (nat -> bool) -> nat list -> bool

val has_trans : automaton -> ntrans -> bool

val includes_succ :
  grammar -> automaton -> (nat -> bool) -> ntrans -> ntrans list

val followl :
  grammar -> automaton -> nat -> (nat -> bool) -> (nat -> bool) -> ntrans ->
  nat list

val lookback : grammar -> automaton -> nat -> nat -> ntrans list

val nmem1 : nat -> nat list -> bool

val nzpos : nat -> (nat -> nat -> z) -> nat -> nat list

val overlaps : nat list -> nat list -> nat -> bool

val first_fit : nat list -> nat list -> nat -> nat -> nat

type slot = nat * (nat * nat)

val place_row :
  nat -> (nat -> nat -> z) -> nat -> ((nat list * (nat * nat) list) * slot
  list) -> (nat list * (nat * nat) list) * (nat * (nat * nat)) list

val place_all :
  nat -> (nat -> nat -> z) -> nat list -> (nat list * (nat * nat)
  list) * slot list

val assoc1 : nat -> (nat * 'a1) list -> 'a1 option

val lead0 : z list -> nat

val st0 :
  nat -> (nat -> nat -> z) -> nat list -> (nat list * (nat * nat)
  list) * slot list

val occ : nat -> (nat -> nat -> z) -> nat list -> nat list

val disp : nat -> (nat -> nat -> z) -> nat list -> (nat * nat) list

val slots : nat -> (nat -> nat -> z) -> nat list -> slot list

val n0 : nat -> (nat -> nat -> z) -> nat list -> nat

val tarr : nat -> (nat -> nat -> z) -> nat list -> z list

val carr : nat -> (nat -> nat -> z) -> nat list -> z list

val trim : nat -> (nat -> nat -> z) -> nat list -> nat

val t' : nat -> (nat -> nat -> z) -> nat list -> z list

val c' : nat -> (nat -> nat -> z) -> nat list -> z list

val d : nat -> (nat -> nat -> z) -> nat list -> nat -> z

val nmem2 : nat -> nat list -> bool

val can : (nat -> bool) -> nat list -> nat -> bool

val sweep : (nat -> bool) -> rule list -> nat list -> nat list

val iterate : grammar -> (nat -> bool) -> nat -> nat list -> nat list

val productive_set : grammar -> (nat -> bool) -> nat list

type ginfo = { gi_rules : grammar; gi_nsyms : nat; gi_nterm : nat;
               gi_sprec : (z * assoc0) list; gi_rprec : (z * assoc0) list }

val no_prec : z * assoc0

val sprec_of : ginfo -> nat -> z * assoc0

val rprec_of : ginfo -> nat -> z * assoc0

val is_nt_b : grammar -> nat -> bool

val nullable_list : grammar -> nat list

val productive_list : grammar -> nat list

val unproductive : ginfo -> nat list

val start_user : grammar -> nat

val follow_table : grammar -> automaton -> (ntrans * nat list) list

val follow_lookup : (ntrans * nat list) list -> ntrans -> nat list

val la_fast :
  grammar -> automaton -> (ntrans * nat list) list -> nat -> nat -> nat list

val la_table : grammar -> automaton -> (nat * nat list) list list

val assoc_list : nat -> (nat * 'a1 list) list -> 'a1 list

val la_lookup : (nat * nat list) list list -> nat -> nat -> nat list

val err_code : nat -> z

val acc_code : nat -> z

val encode : nat -> action -> z

val decode_z : nat -> z -> action

val action_fun : ginfo -> automaton -> (nat * nat list) list list -> table

val dense_of : nat -> nat -> table -> z list list

val kind_tag : cand -> nat

val warn_pairs : cand -> cand list -> (nat * nat) list

val cell_warnings : cand list -> (nat * nat) list

val warnings :
  ginfo -> automaton -> (nat * nat list) list list ->
  ((nat * nat) * (nat * nat)) list

val conflict_cells :
  ginfo -> automaton -> (nat * nat list) list list -> (nat * nat) list

val cellz : z list list -> nat -> nat -> z

val count_z : z -> z list -> nat

val max_occ_aux : z list -> z list -> z -> nat -> z

val max_occ : z list -> z

type packed = { p_act : z list; p_off : z list; p_chk : z list;
                p_adef : z list; p_gdef : z list; p_nterm : nat; p_err : 
                z }

val act_part : nat -> z list -> z list

val goto_col : z list list -> nat -> z list

val act_defaults : z list list -> nat -> z list

val goto_defaults : z list list -> nat -> nat -> z list

val blanked : z list list -> nat -> nat -> z list list

val nzcount : z list list -> nat -> nat

val ins_desc : (nat -> nat) -> nat -> nat list -> nat list

val sort_desc : (nat -> nat) -> nat list -> nat list

val row_order : z list list -> nat list

val pack_matrix : z list list -> nat -> (z list * z list) * z list

val compress : z list list -> nat -> nat -> nat -> packed

val packed_lookup : packed -> nat -> nat -> z

val unpack : nat -> nat -> z list -> z list -> z list -> z list list

val need_packed : packed -> nat -> nat -> bool

type gen_error =
| EUnproductive of nat list
| ETooManyStates

type tables = { t_aut : automaton; t_la : (nat * nat list) list list;
                t_dense : z list list;
                t_warn : ((nat * nat) * (nat * nat)) list;
                t_conf : (nat * nat) list; t_packed : packed;
                t_need_packed : bool }

val generate_tables : ginfo -> (gen_error, tables) sum

val dense_action : nat -> z list list -> table

val packed_action : nat -> packed -> table

type entry = { e_st : nat; e_sym : nat; e_val : z }

type semact = nat -> z list -> z

type tok = nat * z

type result =
| RAcc of z * nat list
| RRej of nat * nat list
| RCrash
| RNil
| RFuel

val la : tok list -> nat

val laval : tok list -> z

type pst = { stk : entry list; sp : nat }

val upd : entry list -> nat -> entry -> entry list

val push : pst -> entry -> pst

val crun :
  table -> grammar -> semact -> nat -> pst -> tok list -> nat -> nat list ->
  result

val init_entry : entry

val init_global : pst -> pst

val init_object : pst -> pst

type variant =
| GoPacked
| GoDense
| ObjPacked
| ObjDense
| TsDense

val is_object : variant -> bool

val is_packed : variant -> bool

val table_of : variant -> tables -> table

val cfinal : table -> grammar -> semact -> nat -> pst -> tok list -> pst

val init_b : bool -> pst -> pst

val parse_from_tab :
  table -> bool -> grammar -> semact -> nat -> pst -> tok list -> result

val state_after_tab :
  table -> bool -> grammar -> semact -> nat -> pst -> tok list -> pst

val history_tab :
  table -> bool -> grammar -> semact -> nat -> pst -> tok list list -> result
  list

val parse_from :
  variant -> tables -> grammar -> semact -> nat -> pst -> tok list -> result

val parse :
  variant -> tables -> grammar -> semact -> nat -> tok list -> result

val history :
  variant -> tables -> grammar -> semact -> nat -> pst -> tok list list ->
  result list

val modulus : z

val dot : z list -> z list -> z

val linear_act : (z * z list) list -> semact

val sym_eqb_list : nat list -> nat list -> bool

val replay :
  grammar -> semact -> (nat * z) list -> tok list -> nat -> (nat * nat) list
  -> z option

type step =
| SLex
| SSyntax
| SVisit
| SBuild
| SConst
| SUnion
| STable
| SState
| SReduce
| STranslate
| SCreate
| SWrite

val step_eqb : step -> step -> bool

val gen_steps : step list

type ('content, 'path) fs = 'path -> 'content option

val upd0 :
  ('a2 -> 'a2 -> bool) -> ('a1, 'a2) fs -> 'a2 -> 'a1 option -> ('a1, 'a2) fs

type outcome =
| Success
| Failed of step

val run_steps :
  ('a2 -> 'a2 -> bool) -> step list -> (step -> bool) -> ('a1, 'a2) fs -> 'a2
  -> 'a1 -> 'a1 -> ('a1, 'a2) fs * outcome

val run_gen :
  ('a2 -> 'a2 -> bool) -> (step -> bool) -> ('a1, 'a2) fs -> 'a2 -> 'a1 ->
  'a1 -> ('a1, 'a2) fs * outcome

type tagc =
| Old
| Empty
| New

val predict : step option -> tagc option

type name = ascii list

val name_eqb : name -> name -> bool

val name_leb : name -> name -> bool

val ins_name : name -> name list -> name list

val sort_names : name list -> name list

type idtyp =
| TermId
| NontermId

type ident = { i_name : name; i_typ : idtyp; i_value : z; i_tag : name;
               i_alias : name }

type assoc_kw =
| ALeft
| ARight
| ANon

type precdef = { pd_assoc : assoc_kw; pd_name : name }

type declnode = { d_code : ascii list; d_tokens : ident list list;
                  d_precs : precdef list list; d_types : (name * name) list;
                  d_union : ascii list; d_start : name }

type relem =
| RSym of name
| RAct of ascii list

type ruledef = { r_line : nat; r_lhs : name; r_rhs : relem list; r_prec : name }

type ast = { a_decl : declnode; a_rules : ruledef list; a_rest : ascii list }

type idtab = ident list

val tab_find : idtab -> name -> ident option

val tab_update : idtab -> name -> (ident -> ident) -> idtab

val tab_has : idtab -> name -> bool

val tab_names : idtab -> name list

val is_nil : 'a1 list -> bool

type dstate = { ds_tab : idtab; ds_max : z; ds_precidx : nat;
                ds_prelist : ((nat * assoc_kw) * name) list }

type front_error =
| FPrecUnknown of name
| FUndefined of name
| FNoRule of name
| FNoStart
| FUnproductive of nat list
| FTooMany

val merge_token : ident -> ident -> ident

val add_token : dstate -> ident -> dstate

val add_type : dstate -> (name * name) -> dstate

val add_prec_line :
  idtab -> nat -> precdef list -> ((nat * assoc_kw) * name) list ->
  (front_error, ((nat * assoc_kw) * name) list) sum

val add_precs : dstate -> precdef list list -> (front_error, dstate) sum

val number_auto : idtab -> z -> name list -> idtab * z

val visit_decl : declnode -> (front_error, dstate) sum

val pre_find :
  ((nat * assoc_kw) * name) list -> name -> ((nat * assoc_kw) * name) option
  -> ((nat * assoc_kw) * name) option

val pre_map :
  ((nat * assoc_kw) * name) list -> name -> ((nat * assoc_kw) * name) option

type vrule = { v_line : nat; v_lhs : name; v_rhs : name list;
               v_prec : name option; v_action : ascii list }

val add_lhs : idtab -> z -> ruledef list -> idtab * z

val scan_rhs :
  idtab -> ((nat * assoc_kw) * name) list -> relem list -> name list -> name
  option -> ascii list -> (front_error, (name list * name option) * ascii
  list) sum

val visit_rule :
  idtab -> ((nat * assoc_kw) * name) list -> ruledef -> (front_error, vrule)
  sum

val visit_rules_list :
  idtab -> ((nat * assoc_kw) * name) list -> ruledef list -> (front_error,
  vrule list) sum

type visited = { vs_tab : idtab; vs_max : z;
                 vs_prelist : ((nat * assoc_kw) * name) list;
                 vs_rules : vrule list; vs_start : name;
                 vs_code : ascii list; vs_union : ascii list;
                 vs_rest : ascii list }

val visit : ast -> (front_error, visited) sum

type gsym = { s_name : name; s_value : z; s_tag : name; s_declnt : bool;
              s_prec : z; s_assoc : assoc0 }

val conv_assoc : assoc_kw -> assoc0

val start_name : name

val dollar_name : name

val ordered_idents : idtab -> ident list

val sym_of_ident : ((nat * assoc_kw) * name) list -> ident -> gsym

val symbols_of : visited -> gsym list

val sym_index_from : gsym list -> name -> nat -> nat option -> nat option

val sym_index : gsym list -> name -> nat option

val map_opt : ('a1 -> 'a2 option) -> 'a1 list -> 'a2 list option

type built = { b_syms : gsym list; b_gi : ginfo;
               b_rule_prec : nat option list; b_visited : visited }

val build_rule : gsym list -> vrule -> (rule * nat option) option

val is_lhs : rule list -> nat -> bool

val build_grammar : visited -> (front_error, built) sum

val front : ast -> (front_error, built) sum

val nodup_z : z list -> bool

val last_nonzero : (name * z) list -> name -> z option

val dedup_names : name list -> name list

val fixed_codes : (name * z) list -> z list

val valid_codes : (name * z) list -> (name * z) list -> bool

type lkind =
| LxError
| LxIdentifier
| LxNumber
| LxSection
| LxCodeQuote
| LxActionQuote
| LxEOF
| LxType
| LxToken
| LxUnion
| LxLeft
| LxRight
| LxNone
| LxPrec
| LxPrecedence
| LxStart
| LxActionSelf
| LxActionN
| LxActionAccept
| LxActionEnd
| LxOr
| LxDefine
| LxEnd
| LxLAngle
| LxRAngle
| LxChar
| LxString
| LxFuel

type tok0 = { t_kind : lkind; t_value : ascii list; t_rest : ascii list }

type tail =
| Closed
| ErrorForEver

val code : ascii -> n

val is_upper : ascii -> bool

val is_lower : ascii -> bool

val is_letter : ascii -> bool

val is_digit : ascii -> bool

val is_idch : ascii -> bool

val nl : ascii

val tabc : ascii

val quote : ascii

val dquote : ascii

val bslash : ascii

val is_ws : ascii -> bool

val strip : ascii list -> ascii list -> ascii list option

val has_prefix : ascii list -> ascii list -> bool

val skip_spaces : ascii list -> ascii list

val take_while : (ascii -> bool) -> ascii list -> ascii list * ascii list

val accept_alpha_word : ascii list -> ascii list -> ascii list option

val accept_word : ascii list -> ascii list -> ascii list option

val after_line : ascii list -> ascii list

val block_comment : bool -> ascii list -> ascii list option

val braces : nat -> ascii list -> (ascii list * ascii list) option

val code_end : ascii list -> (ascii list * ascii list) option

val string_body : ascii list -> (ascii list * ascii list) option

val w_type : ascii list

val w_token : ascii list

val w_union : ascii list

val w_left : ascii list

val w_right : ascii list

val w_nonassoc : ascii list

val w_prec : ascii list

val w_precedence : ascii list

val w_start : ascii list

val w_accept : ascii list

val w_end : ascii list

val directive_word : ascii list -> (lkind * ascii list) option

val skip_blank_tab : ascii list -> ascii list

val union_body : ascii list -> (ascii list * ascii list) option

val errtok : tok0

val is_union : lkind -> bool

type step_result =
| Done of tok0 list * tail
| Cont of tok0 list * ascii list * ascii list

val lex_step : ascii list -> ascii list -> step_result

val lex_root : nat -> ascii list -> ascii list -> tok0 list * tail

val lex : ascii list -> tok0 list * tail
