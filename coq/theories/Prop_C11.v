(* C11 - token codes are unique and consistent *)
From Coq Require Import List ZArith Bool.
Import ListNotations.
From YG Require Import Front FrontProofs.

(* the checker that is run on the implementation's own identifier table on every run is sound:
   whatever table passes it keeps every fixed code (explicit number, character code), gives every other
   token a code different from all fixed codes and from the end marker -1, and - provided the fixed
   codes are distinct - gives every terminal its own code *)
Theorem C11_checker_sound :
  forall (decls final : list (name * Z)),
    valid_codes decls final = true ->
    (forall n c v, In (n, c) final -> last_nonzero decls n = Some v -> c = v) /\
    (forall n c, In (n, c) final -> last_nonzero decls n = None -> c <> (-1)%Z /\ ~ In c (fixed_codes decls)) /\
    (NoDup (fixed_codes decls) -> NoDup (map snd final)).
Proof. exact FrontProofs.valid_codes_sound. Qed.
Print Assumptions C11_checker_sound.

From YG Require Import FrontCodes.

(* C11 on the model of the visitor (Front.visit mirrors astDeclareVistor.Process and RuleVistor.Process):
   for EVERY declaration list - explicit numbers, character literals, re-declarations in any order,
   %type and %start names, any number of automatically numbered identifiers - the terminals of the
   resulting identifier table pass the checker; with C11_checker_sound: a token declared with a number
   keeps (its last) number, a character literal its character code, every other token gets a code that
   is none of these nor -1, and if the fixed codes are distinct every terminal has its own code *)
Theorem C11_codes_model :
  forall (a : ast) (v : visited),
    visit a = inr v -> valid_codes (declared_pairs (a_decl a)) (term_codes (vs_tab v)) = true.
Proof. exact FrontCodes.visit_valid_codes. Qed.
Print Assumptions C11_codes_model.

(* the same, unfolded through the checker's soundness *)
Theorem C11_codes :
  forall (a : ast) (v : visited),
    visit a = inr v ->
    let decls := declared_pairs (a_decl a) in
    let final := term_codes (vs_tab v) in
    (forall n c w, In (n, c) final -> last_nonzero decls n = Some w -> c = w) /\
    (forall n c, In (n, c) final -> last_nonzero decls n = None -> c <> (-1)%Z /\ ~ In c (fixed_codes decls)) /\
    (NoDup (fixed_codes decls) -> NoDup (map snd final)).
Proof. intros a v H. exact (FrontProofs.valid_codes_sound _ _ (FrontCodes.visit_valid_codes a v H)). Qed.
Print Assumptions C11_codes.

From YG Require Import Front EmitTranslate.
Close Scope Z_scope.
Open Scope nat_scope.

(* the model of the generated translate switch (one case per terminal symbol of the grammar object: token code -> symbol number, default = error): when the terminals' codes are pairwise different (C11_codes) every token code is mapped to its own grammar symbol and every other integer to the error default *)
Theorem C11_translate :
  forall (syms : list gsym) (isnt : nat -> bool),
         NoDup (map fst (translate_cases syms isnt)) ->
         (forall k : nat,
          k < length syms ->
          isnt k = false -> switch (translate_cases syms isnt) (s_value (nth k syms dflt_sym)) = Some k) /\
         (forall c : Z,
          (forall k : nat, k < length syms -> isnt k = false -> s_value (nth k syms dflt_sym) <> c) ->
          switch (translate_cases syms isnt) c = None).
Proof. exact EmitTranslate.translate_spec. Qed.
Print Assumptions C11_translate.

From YG Require Import Front EmitTranslate.
Close Scope Z_scope.
Open Scope nat_scope.

(* -1 is mapped to the end marker (symbol 1) *)
Theorem C11_translate_end_marker :
  forall (v : visited) (isnt : nat -> bool),
         isnt 1 = false ->
         NoDup (map fst (translate_cases (symbols_of v) isnt)) ->
         switch (translate_cases (symbols_of v) isnt) (-1) = Some 1.
Proof. exact EmitTranslate.translate_end_marker. Qed.
Print Assumptions C11_translate_end_marker.

From YG Require Import LRBase CompleteDriver Pipeline PipelineConds.
Close Scope Z_scope.
Open Scope nat_scope.

(* 'any other integer to an error': the default of the translate switch is symbol 0, and the column of symbol 0 holds the error action in every state of every emitted table - so a token code the grammar does not know is a syntax error wherever it arrives (C06: reported through the error channel) *)
Theorem C11_unknown_code_is_error :
  forall gi : ginfo,
         (forall r d : nat, nth_error (rhs_of (gi_rules gi) r) d <> Some 0) ->
         lhs_of (gi_rules gi) 0 = 0 ->
         (forall r d : nat, nth_error (rhs_of (gi_rules gi) r) d <> Some eof) ->
         rhs_of (gi_rules gi) 0 = [start_user (gi_rules gi)] ->
         ~ is_nt (gi_rules gi) eof ->
         (forall (seq : list nat) (l : nat),
          ~ is_nt (gi_rules gi) l -> exists b : nat, first_seq (gi_rules gi) (seq ++ [l]) b) ->
         eof < gi_nsyms gi ->
         forall t : tables,
         generate_tables gi = inr t ->
         forall s : nat, s < length (t_aut t) -> dense_action (length (t_aut t)) (t_dense t) s 0 = Error.
Proof. exact PipelineConds.unknown_code_is_error. Qed.
Print Assumptions C11_unknown_code_is_error.

From YG Require Import LRBase CompleteDriver LR0Build Resolve PackCore Pipeline PipelineRun Front WfGrammar YParser EndToEnd EndToEndWf.
Close Scope Z_scope.
Open Scope nat_scope.

(* from the bytes of the grammar file: column 0, where translate sends every integer that is no token code, is the error action in every state of the emitted matrix *)
Theorem C11_unknown_code_from_the_text :
  forall (s : list Ascii.ascii) (b : built) (t : tables),
         generate_text s = GOk b t ->
         forall q : nat, q < length (t_aut t) -> dense_action (length (t_aut t)) (t_dense t) q 0 = Error.
Proof. exact EndToEndWf.text_unknown_code_is_error. Qed.
Print Assumptions C11_unknown_code_from_the_text.
