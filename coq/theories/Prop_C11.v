(* C11 - token codes are unique and consistent *)
From Coq Require Import List ZArith Bool.
Import ListNotations.
From YG Require Import Front FrontProofs.

(* the checker that is run on the implementation's own identifier table on every run is sound:
   whatever table passes it keeps every fixed code (explicit number, character code), gives every other
   token a code different from all fixed codes and from the end marker -1, and - provided the fixed
   codes are distinct - gives every terminal its own code *)
Theorem C11_checker_sound :
  forall (decls final : list (name * Z)),
    valid_codes decls final = true ->
    (forall n c v, In (n, c) final -> last_nonzero decls n = Some v -> c = v) /\
    (forall n c, In (n, c) final -> last_nonzero decls n = None -> c <> (-1)%Z /\ ~ In c (fixed_codes decls)) /\
    (NoDup (fixed_codes decls) -> NoDup (map snd final)).
Proof. exact FrontProofs.valid_codes_sound. Qed.
Print Assumptions C11_checker_sound.
