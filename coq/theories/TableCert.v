(* Originally a design-phase spike: the end-to-end C01 statement on the model, for every grammar:
   LR(0) construction (Spike3) + table generation with conflict resolution (Spike11) for ANY lookahead
   function + abstract driver (Spike)  ==>  an accepted input has a valid parse tree. *)
From Coq Require Import List Arith ZArith Lia Bool.
Import ListNotations.
From YG Require Import LRBase LR0Build Resolve.
Close Scope Z_scope.

Section Gen.
Variables (g : grammar) (aut : automaton).
Variable la : nat -> nat -> list nat.                      (* state -> rule -> lookahead symbols (arbitrary) *)
Variables (sprec rprec : nat -> Z * assoc).                (* precedence of a symbol / of a rule *)

Definition complete_rules (q : nat) : list nat :=
  map fst (filter (fun it => Nat.eqb (snd it) (length (rhs_of g (fst it)))) (items (st aut q))).
Fixpoint nmem (x : nat) (l : list nat) : bool := match l with [] => false | y :: l' => Nat.eqb x y || nmem x l' end.

(* lookahead of rule 0 is forced to the end marker, as in CalcLookAheadSet *)
Definition la' (q r : nat) : list nat := if Nat.eqb r 0 then [eof] else la q r.

Definition candidates (q a : nat) : list cand :=
  (match goto aut q a with Some q' => [sh q' (fst (sprec a)) (snd (sprec a))] | None => [] end) ++
  map (fun r => rd r (fst (rprec r)) (snd (rprec r))) (filter (fun r => nmem a (la' q r)) (complete_rules q)).

Definition decode (k : kind) : action :=
  match k with KShift q' => Shift q' | KReduce 0 => Accept | KReduce r => Reduce r | KError => Error end.
Definition gen_table : table := fun q a =>
  match resolve (candidates q a) with Some (w, _) => decode (c_kind w) | None => Error end.

(* the winner of the fold is one of the candidates, or the error produced by %nonassoc *)
Lemma resolve_pair_mem a b w : resolve_pair a b = Some w -> w = a \/ w = b \/ c_kind w = KError.
Proof.
  unfold resolve_pair. destruct (is_reduce b && is_shift a); cbv beta iota zeta.
  - destruct ((c_prec b =? -1)%Z || (c_prec a =? -1)%Z); [discriminate|].
    destruct (c_prec b >? c_prec a)%Z; [intros H; inversion H; auto|].
    destruct (c_prec b =? c_prec a)%Z; [|intros H; inversion H; auto].
    destruct (c_assoc b), (c_assoc a); intros H; inversion H; simpl; auto.
  - destruct ((c_prec a =? -1)%Z || (c_prec b =? -1)%Z); [discriminate|].
    destruct (c_prec a >? c_prec b)%Z; [intros H; inversion H; auto|].
    destruct (c_prec a =? c_prec b)%Z; [|intros H; inversion H; auto].
    destruct (c_assoc a), (c_assoc b); intros H; inversion H; simpl; auto.
Qed.
Lemma default_pair_mem a b : default_pair a b = a \/ default_pair a b = b.
Proof. unfold default_pair. destruct (is_shift a); auto. destruct (is_shift b); auto. destruct (_ <? _)%Z; auto. Qed.
Lemma resolve_from_mem rest : forall a w fl, resolve_from a rest = (w, fl) -> w = a \/ In w rest \/ c_kind w = KError.
Proof.
  induction rest as [|b rest IH]; intros a w fl H; simpl in H.
  - inversion H; auto.
  - destruct (resolve_pair a b) as [w0|] eqn:E.
    + apply IH in H. apply resolve_pair_mem in E. destruct H as [->|[H|H]]; auto.
      destruct E as [->|[->|E]]; auto. simpl. auto. simpl; auto.
    + destruct (resolve_from (default_pair a b) rest) as [w1 f1] eqn:E1. inversion H; subst.
      apply IH in E1. destruct E1 as [->|[H1|H1]]; auto.
      destruct (default_pair_mem a b) as [->| ->]; simpl; auto.
      simpl; auto.
Qed.
Lemma resolve_mem l w fl : resolve l = Some (w, fl) -> In w l \/ c_kind w = KError.
Proof.
  destruct l as [|a rest]; [discriminate|]. simpl. intros H. inversion H as [H1]. apply resolve_from_mem in H1.
  destruct H1 as [->|[H1|H1]]; auto.
Qed.

Lemma cand_shift q a q' p asc : In {| c_kind := KShift q'; c_prec := p; c_assoc := asc |} (candidates q a) -> goto aut q a = Some q'.
Proof.
  unfold candidates. intros H. apply in_app_or in H. destruct H as [H|H].
  - destruct (goto aut q a) as [q0|]; [|destruct H]. destruct H as [H|[]]. inversion H; subst; auto.
  - apply in_map_iff in H. destruct H as (r & H & _). discriminate.
Qed.
Lemma cand_reduce q a r p asc : In {| c_kind := KReduce r; c_prec := p; c_assoc := asc |} (candidates q a) ->
  In (r, length (rhs_of g r)) (items (st aut q)) /\ nmem a (la' q r) = true.
Proof.
  unfold candidates. intros H. apply in_app_or in H. destruct H as [H|H].
  - destruct (goto aut q a); [destruct H as [H|[]]; discriminate|destruct H].
  - apply in_map_iff in H. destruct H as (r0 & H & Hf). inversion H; subst r0. apply filter_In in Hf. destruct Hf as [Hc Hl].
    split; auto. unfold complete_rules in Hc. apply in_map_iff in Hc. destruct Hc as ([r1 d1] & Hr & Hf). simpl in Hr. subst r1.
    apply filter_In in Hf. destruct Hf as [Hin Hd]. simpl in Hd. apply Nat.eqb_eq in Hd. subst d1. auto.
Qed.

(* items only mention existing rules (part of C09) *)
Hypothesis items_rules : forall q r d, In (r, d) (items (st aut q)) -> r < length g.
Hypothesis rule0_rhs : exists S, rhs_of g 0 = [S].
Hypothesis structural :
  (forall q X q', goto aut q X = Some q' ->
     q' <> 0 /\ forall r d, In (r, d) (items (st aut q')) ->
       d = 0 \/ exists d', d = S d' /\ In (r, d') (items (st aut q)) /\ nth_error (rhs_of g r) d' = Some X) /\
  (forall r d, In (r, d) (items (st aut 0)) -> d = 0) /\
  (forall q, In (0, 0) (items (st aut q)) -> q = 0) /\
  (forall q, goto aut q eof = None).

Theorem gen_table_cert : cert g aut gen_table.
Proof.
  destruct structural as (Hgoto & Hinit & Hstart & Hnoeof).
  constructor; auto.
  - (* shift entries are goto edges *)
    intros q a q' H. unfold gen_table in H. destruct (resolve (candidates q a)) as [[w fl]|] eqn:E; [|discriminate].
    destruct (resolve_mem _ _ _ E) as [Hin|Hk]; [|rewrite Hk in H; discriminate].
    destruct w as [k p asc]. simpl in H. destruct k as [q0|[|r]|]; try discriminate. inversion H; subst. eapply cand_shift; eauto.
  - (* reduce entries come from complete items *)
    intros q a r H. unfold gen_table in H. destruct (resolve (candidates q a)) as [[w fl]|] eqn:E; [|discriminate].
    destruct (resolve_mem _ _ _ E) as [Hin|Hk]; [|rewrite Hk in H; discriminate].
    destruct w as [k p asc]. simpl in H. destruct k as [q0|[|r0]|]; try discriminate. inversion H; subst.
    destruct (cand_reduce _ _ _ _ _ Hin) as [Hit _]. split; [lia|]. split; auto. eapply items_rules; eauto.
  - (* accept *)
    intros q a H. unfold gen_table in H. destruct (resolve (candidates q a)) as [[w fl]|] eqn:E; [|discriminate].
    destruct (resolve_mem _ _ _ E) as [Hin|Hk]; [|rewrite Hk in H; discriminate].
    destruct w as [k p asc]. simpl in H. destruct k as [q0|[|r0]|]; try discriminate.
    destruct (cand_reduce _ _ _ _ _ Hin) as [Hit Hl]. destruct rule0_rhs as [S HS]. rewrite HS in Hit. simpl in Hit.
    split; auto. unfold la' in Hl. simpl in Hl. rewrite orb_false_r in Hl. apply Nat.eqb_eq in Hl. auto.
Qed.

(* C01 on the model: whatever the lookahead sets and the precedences are *)
Theorem C01_model fuel w reds : (forall t, In t w -> t <> eof) ->
  run fuel gen_table g [(0, eof)] w [] = Acc reds ->
  exists tr, valid g tr /\ Some (root g tr) = hd_error (rhs_of g 0) /\ yield tr = w /\ post tr = reds.
Proof.
  intros Hw Hrun. eapply (sound g aut gen_table gen_table_cert fuel w [(0, eof)] w [] reds); eauto.
  split; [constructor|]. exists []. simpl. repeat split; auto.
Qed.

End Gen.

Print Assumptions C01_model.
