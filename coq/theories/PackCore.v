(* Originally a design-phase spike: row-displacement packing (Utils/packtable.go, with the
   leading-trim loop corrected) is lossless, for every matrix and every row order. *)
From Coq Require Import List Arith ZArith Lia Bool FinFun.
Import ListNotations.

Lemma NoDup_app_intro {A} (l1 l2 : list A) : NoDup l1 -> NoDup l2 -> (forall x, In x l1 -> In x l2 -> False) -> NoDup (l1 ++ l2).
Proof.
  induction l1 as [|a l1 IH]; simpl; auto. intros H1 H2 H. inversion H1; subst. constructor.
  - intros Hin. apply in_app_or in Hin. destruct Hin; [contradiction|]. apply (H a); auto.
  - apply IH; auto. intros x Hx Hy. apply (H x); auto.
Qed.

Lemma nth_map_seq {A} (f : nat -> A) n p d : p < n -> nth p (map f (seq 0 n)) d = f p.
Proof.
  intros H. rewrite nth_indep with (d' := f 0) by (rewrite map_length, seq_length; auto).
  rewrite (map_nth f (seq 0 n) 0 p), seq_nth; auto.
Qed.

Lemma nth_skipn {A} (l : list A) t k d : nth k (skipn t l) d = nth (t + k) l d.
Proof. revert l; induction t as [|t IH]; intros l; simpl; auto. destruct l; simpl; auto. destruct k; reflexivity. Qed.

Section Pack.
Variables (rows cols : nat) (cell : nat -> nat -> Z).

Fixpoint nmem (x : nat) (l : list nat) : bool := match l with [] => false | y :: l' => Nat.eqb x y || nmem x l' end.
Lemma nmem_In x l : nmem x l = true <-> In x l.
Proof. induction l; simpl; [split; [discriminate|tauto]|]. rewrite orb_true_iff, Nat.eqb_eq, IHl. intuition. Qed.

Definition nzpos (i : nat) : list nat := filter (fun j => negb (Z.eqb (cell i j) 0)) (seq 0 cols).
Lemma nzpos_spec i j : In j (nzpos i) <-> j < cols /\ cell i j <> 0%Z.
Proof.
  unfold nzpos. rewrite filter_In, in_seq, negb_true_iff, Z.eqb_neq. intuition lia.
Qed.

Definition overlaps (occ nz : list nat) (d : nat) : bool := existsb (fun j => nmem (d + j) occ) nz.
Fixpoint first_fit (occ nz : list nat) (fuel d : nat) : nat :=
  match fuel with 0 => d | S f => if overlaps occ nz d then first_fit occ nz f (S d) else d end.

Lemma ff_ok occ nz fuel : forall d, list_max occ < d + fuel -> overlaps occ nz (first_fit occ nz fuel d) = false.
Proof.
  induction fuel as [|f IH]; intros d H; simpl.
  - unfold overlaps. apply not_true_is_false. intros E. apply existsb_exists in E. destruct E as (j & _ & Hj).
    apply nmem_In in Hj. pose proof (proj1 (list_max_le occ (list_max occ)) (le_n _)) as Hm.
    rewrite Forall_forall in Hm. apply Hm in Hj. lia.
  - destruct (overlaps occ nz d) eqn:E; auto. apply IH. lia.
Qed.

(* slot list: position |-> (row, column) *)
Definition slot := (nat * (nat * nat))%type.
Definition place_row (i : nat) (st : list nat * list (nat * nat) * list slot) :=
  let '(occ, disp, slots) := st in
  let nz := nzpos i in
  let d := first_fit occ nz (S (list_max occ)) 0 in
  (map (fun j => d + j) nz ++ occ, (i, d) :: disp, map (fun j => (d + j, (i, j))) nz ++ slots).
Definition place_all (order : list nat) := fold_left (fun st i => place_row i st) order ([], [], []).

Fixpoint assoc {A} (k : nat) (l : list (nat * A)) : option A :=
  match l with [] => None | (k', v) :: l' => if Nat.eqb k k' then Some v else assoc k l' end.

(* invariant of the placement *)
Record pinv (done : list nat) (st : list nat * list (nat * nat) * list slot) : Prop := {
  p_occ : forall p, In p (fst (fst st)) <-> exists ij, In (p, ij) (snd st);
  p_slot : forall p i j, In (p, (i, j)) (snd st) -> In i done /\ j < cols /\ cell i j <> 0%Z /\ exists d, assoc i (snd (fst st)) = Some d /\ p = d + j;
  p_full : forall i j d, In i done -> j < cols -> cell i j <> 0%Z -> assoc i (snd (fst st)) = Some d -> In (d + j, (i, j)) (snd st);
  p_disp : forall i, In i done -> exists d, assoc i (snd (fst st)) = Some d;
  p_nodup : NoDup (map fst (snd st));
  p_dispdom : forall i d, assoc i (snd (fst st)) = Some d -> In i done
}.

Lemma pinv_step done st i : pinv done st -> ~ In i done -> pinv (i :: done) (place_row i st).
Proof.
  destruct st as [[occ disp] slots]. intros [Hocc Hslot Hfull Hdisp Hnd Hdom] Hni. simpl in *.
  set (nz := nzpos i). set (d := first_fit occ nz (S (list_max occ)) 0).
  assert (Hff : overlaps occ nz d = false) by (apply ff_ok; lia).
  assert (Hfree : forall j, In j nz -> ~ In (d + j) occ).
  { intros j Hj Hin. apply not_true_iff_false in Hff. apply Hff. unfold overlaps. apply existsb_exists.
    exists j. split; auto. apply nmem_In; auto. }
  constructor; simpl.
  - intros p. rewrite in_app_iff, in_map_iff. split.
    + intros [(j & <- & Hj)|Hp].
      * exists (i, j). apply in_or_app. left. apply in_map_iff. exists j; auto.
      * apply Hocc in Hp. destruct Hp as (ij & Hp). exists ij. apply in_or_app; auto.
    + intros (ij & Hp). apply in_app_or in Hp. destruct Hp as [Hp|Hp].
      * apply in_map_iff in Hp. destruct Hp as (j & Heq & Hj). inversion Heq; subst. left. exists j; auto.
      * right. apply Hocc. exists ij; auto.
  - intros p i' j Hp. apply in_app_or in Hp. destruct Hp as [Hp|Hp].
    + apply in_map_iff in Hp. destruct Hp as (j' & Heq & Hj). inversion Heq; subst.
      apply nzpos_spec in Hj. destruct Hj. split; auto. split; auto. split; auto.
      exists d. rewrite Nat.eqb_refl. auto.
    + destruct (Hslot _ _ _ Hp) as (Hi & Hj & Hc & d' & Hd' & Hpe). split; auto. split; auto. split; auto.
      exists d'. destruct (Nat.eqb_spec i' i); [subst; contradiction|]. auto.
  - intros i' j d' [<-|Hi] Hj Hc Hd.
    + rewrite Nat.eqb_refl in Hd. inversion Hd; subst d'. apply in_or_app. left. apply in_map_iff.
      exists j. split; auto. apply nzpos_spec; auto.
    + destruct (Nat.eqb_spec i' i); [subst; contradiction|]. apply in_or_app. right. eapply Hfull; eauto.
  - intros i' [<-|Hi].
    + exists d. rewrite Nat.eqb_refl; auto.
    + destruct (Hdisp _ Hi) as (d' & Hd'). exists d'. destruct (Nat.eqb_spec i' i); [subst; contradiction|]. auto.
  - rewrite map_app, map_map. simpl. apply NoDup_app_intro; auto.
    + apply FinFun.Injective_map_NoDup; [intros a b; lia|]. unfold nz, nzpos. apply NoDup_filter, seq_NoDup.
    + intros p Hp Hq. apply in_map_iff in Hp. destruct Hp as (j & <- & Hj).
      apply in_map_iff in Hq. destruct Hq as ([p' ij] & Heq & Hin). simpl in Heq. subst p'.
      apply (Hfree j Hj). apply Hocc. exists ij; auto.
  - intros i' d'. destruct (Nat.eqb_spec i' i); [subst; auto|]. intros H. right. eapply Hdom; eauto.
Qed.


Lemma pinv_init : pinv [] ([], [], []).
Proof.
  constructor; simpl.
  - intros q. split; [tauto|intros (ij & [])].
  - intros q i j [].
  - intros i j d [].
  - intros i [].
  - constructor.
  - intros i d H; discriminate.
Qed.

Lemma pinv_fold order : forall done st, pinv done st -> NoDup order -> (forall i, In i order -> ~ In i done) ->
  pinv (rev order ++ done) (fold_left (fun st i => place_row i st) order st).
Proof.
  induction order as [|i order IH]; intros done st H Hnd Hdis; simpl; auto.
  inversion Hnd; subst. rewrite <- app_assoc. simpl. apply IH; auto.
  - apply pinv_step; auto. apply Hdis; left; auto.
  - intros k Hk [<-|Hd]; [contradiction|]. apply (Hdis k); auto. right; auto.
Qed.

Lemma assoc_In {A} k (v : A) l : assoc k l = Some v -> In (k, v) l.
Proof. induction l as [|[k' v'] l IH]; simpl; [discriminate|]. destruct (Nat.eqb_spec k k'); auto. intros H; inversion H; subst; auto. Qed.
Lemma In_assoc {A} k (v : A) l : NoDup (map fst l) -> In (k, v) l -> assoc k l = Some v.
Proof.
  induction l as [|[k' v'] l IH]; simpl; [tauto|]. intros Hnd [Heq|Hin].
  - inversion Heq; subst. rewrite Nat.eqb_refl; auto.
  - inversion Hnd; subst. destruct (Nat.eqb_spec k k'); [subst|auto].
    exfalso. apply H1. apply in_map_iff. exists (k', v); auto.
Qed.

(* ---- output arrays, corrected trim, lookup as in UnPackTable / generated Action() ---- *)
Fixpoint lead0 (l : list Z) : nat := match l with z :: l' => if Z.eqb z 0 then S (lead0 l') else 0 | [] => 0 end.
Lemma lead0_le l : lead0 l <= length l.
Proof. induction l; simpl; auto. destruct (Z.eqb a 0); simpl; lia. Qed.
Lemma lead0_zero l p : p < lead0 l -> nth p l 0%Z = 0%Z.
Proof.
  revert p; induction l as [|z l IH]; intros p H; simpl in *; [lia|].
  destruct (Z.eqb_spec z 0); [|lia]. destruct p; auto. apply IH; lia.
Qed.

Section Out.
Variable order : list nat.
Hypothesis order_nodup : NoDup order.
Hypothesis order_full : forall i, i < rows -> In i order.

Definition st := place_all order.
Definition occ := fst (fst st).
Definition disp := snd (fst st).
Definition slots := snd st.
Definition n := S (list_max occ).
Definition Tarr : list Z := map (fun p => match assoc p slots with Some (i, j) => cell i j | None => 0%Z end) (seq 0 n).
Definition Carr : list Z := map (fun p => match assoc p slots with Some (i, _) => Z.of_nat i | None => (-1)%Z end) (seq 0 n).
Definition trim : nat := lead0 Tarr.
Definition T' := skipn trim Tarr.
Definition C' := skipn trim Carr.
Definition D (i : nat) : Z := (match assoc i disp with Some d => Z.of_nat d | None => 0 end - Z.of_nat trim)%Z.

Definition lookup (i j : nat) : Z :=
  let o := (D i + Z.of_nat j)%Z in
  if (o <? 0)%Z || (o >=? Z.of_nat (length C'))%Z then 0%Z
  else if (nth (Z.to_nat o) C' (-1) =? Z.of_nat i)%Z then nth (Z.to_nat o) T' 0%Z else 0%Z.

Lemma Hinv : pinv (rev order ++ []) st.
Proof. apply pinv_fold; auto. apply pinv_init. Qed.

Lemma Tarr_nth p : p < n -> nth p Tarr 0%Z = match assoc p slots with Some (i, j) => cell i j | None => 0%Z end.
Proof. intros H. unfold Tarr. apply nth_map_seq; auto. Qed.
Lemma Carr_nth p : p < n -> nth p Carr (-1)%Z = match assoc p slots with Some (i, _) => Z.of_nat i | None => (-1)%Z end.
Proof. intros H. unfold Carr. apply nth_map_seq; auto. Qed.
Lemma len_T : length Tarr = n. Proof. unfold Tarr. rewrite map_length, seq_length; auto. Qed.
Lemma len_C : length Carr = n. Proof. unfold Carr. rewrite map_length, seq_length; auto. Qed.

Lemma slot_lt p ij : In (p, ij) slots -> p < n.
Proof.
  intros H. assert (In p occ) by (apply (p_occ _ _ Hinv); exists ij; auto).
  pose proof (proj1 (list_max_le occ (list_max occ)) (le_n _)) as Hm. rewrite Forall_forall in Hm.
  apply Hm in H0. unfold n. lia.
Qed.

Theorem lookup_correct i j : i < rows -> j < cols -> lookup i j = cell i j.
Proof.
  intros Hi Hj. destruct Hinv as [Hocc Hslot Hfull Hdisp Hnd Hdom]. fold slots disp occ in Hocc, Hslot, Hfull, Hdisp, Hnd, Hdom.
  assert (Hin : In i (rev order ++ [])) by (rewrite app_nil_r; apply in_rev; rewrite rev_involutive; auto).
  destruct (Hdisp _ Hin) as (d & Hd).
  unfold lookup, D. rewrite Hd. unfold C', T'. rewrite skipn_length, len_C.
  pose proof (lead0_le Tarr) as Htl. rewrite len_T in Htl. fold trim in Htl.
  set (p := d + j).
  destruct (Z.eq_dec (cell i j) 0) as [Hz|Hnz].
  - (* blank cell: the answer must be 0 *)
    rewrite Hz.
    destruct ((Z.of_nat d - Z.of_nat trim + Z.of_nat j <? 0)%Z || (Z.of_nat d - Z.of_nat trim + Z.of_nat j >=? Z.of_nat (n - trim))%Z) eqn:E; auto.
    apply orb_false_iff in E. destruct E as [E1 E2]. apply Z.ltb_ge in E1. rewrite Z.geb_leb in E2. apply Z.leb_gt in E2.
    replace (Z.to_nat (Z.of_nat d - Z.of_nat trim + Z.of_nat j)) with (p - trim) by (unfold p; lia).
    rewrite !nth_skipn. replace (trim + (p - trim)) with p by (unfold p; lia).
    assert (Hp : p < n) by (unfold p; lia).
    rewrite Carr_nth, Tarr_nth by auto.
    destruct (assoc p slots) as [[i' j']|] eqn:Ha; [|destruct (Z.eqb_spec (-1) (Z.of_nat i)); auto; lia].
    destruct (Z.eqb_spec (Z.of_nat i') (Z.of_nat i)) as [Heq|]; auto.
    apply Nat2Z.inj in Heq. subst i'. apply assoc_In in Ha.
    destruct (Hslot _ _ _ Ha) as (_ & _ & Hc & d' & Hd' & Hpe). rewrite Hd in Hd'. inversion Hd'; subst d'.
    assert (j' = j) by (unfold p in Hpe; lia). subst j'. contradiction.
  - (* explicit cell *)
    assert (Hs : In (p, (i, j)) slots) by (apply Hfull with (d := d); auto).
    pose proof (slot_lt _ _ Hs) as Hp.
    pose proof (In_assoc _ _ _ Hnd Hs) as Ha.
    assert (Htp : trim <= p).
    { destruct (Nat.le_gt_cases trim p); auto. exfalso.
      pose proof (lead0_zero Tarr p H) as Hz. rewrite Tarr_nth, Ha in Hz by auto. contradiction. }
    assert (E : ((Z.of_nat d - Z.of_nat trim + Z.of_nat j <? 0)%Z || (Z.of_nat d - Z.of_nat trim + Z.of_nat j >=? Z.of_nat (n - trim))%Z) = false).
    { apply orb_false_iff. split; [apply Z.ltb_ge; unfold p in *; lia|]. rewrite Z.geb_leb. apply Z.leb_gt. unfold p in *; lia. }
    rewrite E.
    replace (Z.to_nat (Z.of_nat d - Z.of_nat trim + Z.of_nat j)) with (p - trim) by (unfold p in *; lia).
    rewrite !nth_skipn. replace (trim + (p - trim)) with p by lia.
    rewrite Carr_nth, Tarr_nth, Ha by auto. rewrite Z.eqb_refl. reflexivity.
Qed.

(* the two halves of lookup_correct separately: an explicit cell sits in a slot owned by its row; a
   blank cell never finds a slot owned by its row (used for the default-action layer on top) *)
Theorem lookup_owner i j : i < rows -> j < cols ->
  let o := (D i + Z.of_nat j)%Z in
  (cell i j <> 0%Z -> (0 <= o < Z.of_nat (length C'))%Z /\ nth (Z.to_nat o) C' (-1)%Z = Z.of_nat i /\ nth (Z.to_nat o) T' 0%Z = cell i j) /\
  (cell i j = 0%Z -> (o < 0)%Z \/ (Z.of_nat (length C') <= o)%Z \/ nth (Z.to_nat o) C' (-1)%Z <> Z.of_nat i).
Proof.
  intros Hi Hj. destruct Hinv as [Hocc Hslot Hfull Hdisp Hnd Hdom]. fold slots disp occ in Hocc, Hslot, Hfull, Hdisp, Hnd, Hdom.
  assert (Hin : In i (rev order ++ [])) by (rewrite app_nil_r; apply in_rev; rewrite rev_involutive; auto).
  destruct (Hdisp _ Hin) as (d & Hd).
  cbv zeta. unfold D. rewrite Hd. unfold C', T'. rewrite skipn_length, len_C.
  pose proof (lead0_le Tarr) as Htl. rewrite len_T in Htl. fold trim in Htl.
  set (p := d + j). split.
  - intros Hnz.
    assert (Hs : In (p, (i, j)) slots) by (apply Hfull with (d := d); auto).
    pose proof (slot_lt _ _ Hs) as Hp.
    pose proof (In_assoc _ _ _ Hnd Hs) as Ha.
    assert (Htp : trim <= p).
    { destruct (Nat.le_gt_cases trim p); auto. exfalso.
      pose proof (lead0_zero Tarr p H) as Hz. rewrite Tarr_nth, Ha in Hz by auto. contradiction. }
    replace (Z.to_nat (Z.of_nat d - Z.of_nat trim + Z.of_nat j)) with (p - trim) by (unfold p in *; lia).
    rewrite !nth_skipn. replace (trim + (p - trim)) with p by lia.
    rewrite Carr_nth, Tarr_nth, Ha by auto. split; [unfold p in *; lia|]. split; reflexivity.
  - intros Hz.
    destruct (Z_lt_ge_dec (Z.of_nat d - Z.of_nat trim + Z.of_nat j) 0) as [Hneg|Hpos]; [left; exact Hneg|right].
    destruct (Z_le_gt_dec (Z.of_nat (n - trim)) (Z.of_nat d - Z.of_nat trim + Z.of_nat j)) as [Hbig|Hsmall]; [left; exact Hbig|right].
    replace (Z.to_nat (Z.of_nat d - Z.of_nat trim + Z.of_nat j)) with (p - trim) by (unfold p; lia).
    rewrite !nth_skipn. replace (trim + (p - trim)) with p by (unfold p; lia).
    assert (Hp : p < n) by (unfold p; lia).
    rewrite Carr_nth by auto.
    destruct (assoc p slots) as [[i' j']|] eqn:Ha; [|lia].
    intro Heq. apply Nat2Z.inj in Heq. subst i'. apply assoc_In in Ha.
    destruct (Hslot _ _ _ Ha) as (_ & _ & Hc & d' & Hd' & Hpe). rewrite Hd in Hd'. inversion Hd'; subst d'.
    assert (j' = j) by (unfold p in Hpe; lia). subst j'. contradiction.
Qed.

End Out.
End Pack.

Print Assumptions lookup_correct.
