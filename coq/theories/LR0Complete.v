(* Originally a design-phase spike: completeness half for the LR(0) construction of Spike3:
   the closure is closed (fuel |g|+1 suffices, by counting) and every symbol after a dot has a goto edge. *)
From Coq Require Import List Arith Lia Bool.
Import ListNotations.
From YG Require Import LRBase LR0Build.

Section Closed.
Variable g : grammar.

Definition closed (I : list item) : Prop := forall it x, In it I -> In x (expand g it) -> In x I.

Lemma add_new_length news I : length I <= length (add_new news I).
Proof.
  revert I; induction news as [|y n IH]; intros I; simpl; auto.
  destruct (mem y I); auto. etransitivity; [|apply IH]. rewrite app_length; simpl; lia.
Qed.
Lemma add_new_same news I : length (add_new news I) = length I -> forall x, In x news -> In x I.
Proof.
  revert I; induction news as [|y n IH]; intros I H x Hx; simpl in *; [tauto|].
  destruct (mem y I) eqn:E.
  - destruct Hx as [<-|Hx]; [apply mem_In; auto|]. apply IH; auto.
  - exfalso. pose proof (add_new_length n (I ++ [y])) as Hl. rewrite app_length in Hl. simpl in Hl. lia.
Qed.
Lemma add_new_nodup news I : NoDup I -> NoDup (add_new news I).
Proof.
  revert I; induction news as [|y n IH]; intros I H; simpl; auto.
  destruct (mem y I) eqn:E; auto. apply IH.
  apply NoDup_rev in H. rewrite <- (rev_involutive (I ++ [y])). apply NoDup_rev. rewrite rev_app_distr. simpl.
  constructor; auto. intros Hin. apply in_rev in Hin. apply mem_In in Hin. congruence.
Qed.

Lemma round_same_closed I : length (closure_round g I) = length I -> closed I.
Proof.
  intros H it x Hit Hx. unfold closure_round in H. eapply add_new_same; eauto.
  apply in_flat_map. exists it; auto.
Qed.

(* universe of items a closure can contain *)
Definition dot0s : list item := map (fun r => (r, 0)) (seq 0 (length g)).
Lemma round_incl K I : incl I (K ++ dot0s) -> incl (closure_round g I) (K ++ dot0s).
Proof.
  intros H x Hx. apply add_new_In in Hx. destruct Hx as [Hx|Hx]; auto.
  apply in_flat_map in Hx. destruct Hx as (it & _ & Hx). apply expand_spec in Hx. destruct Hx as (H0 & Hr & _).
  apply in_or_app. right. unfold dot0s. apply in_map_iff. exists (fst x). split; [destruct x; simpl in *; subst; auto|].
  apply in_seq. lia.
Qed.

Lemma closure_iter_closed K fuel : forall I, NoDup I -> incl I (K ++ dot0s) -> length (K ++ dot0s) < length I + fuel ->
  closed (closure_iter fuel g I).
Proof.
  induction fuel as [|f IH]; intros I Hnd Hincl Hlen; simpl.
  - exfalso. pose proof (NoDup_incl_length Hnd Hincl). lia.
  - destruct (Nat.eqb_spec (length (closure_round g I)) (length I)) as [E|E].
    + apply round_same_closed; auto.
    + apply IH.
      * apply add_new_nodup; auto.
      * apply round_incl; auto.
      * pose proof (add_new_length (flat_map (expand g) I) I). unfold closure_round in *. lia.
Qed.

Theorem closure_closed K : NoDup K -> closed (closure_iter (S (length g)) g K).
Proof.
  intros H. apply closure_iter_closed with (K := K); auto.
  - intros x Hx; apply in_or_app; auto.
  - rewrite app_length. unfold dot0s. rewrite map_length, seq_length. lia.
Qed.

Lemma rules_for_aux_complete B gg i r R : nth_error gg r = Some R -> lhs R = B -> In (i + r, 0) (rules_for_aux B gg i).
Proof.
  revert i r; induction gg as [|R0 gg IH]; intros i r HR HB; [destruct r; discriminate|].
  simpl. apply in_or_app. destruct r as [|r]; simpl in HR.
  - inversion HR; subst. left. rewrite Nat.eqb_refl. rewrite Nat.add_0_r. left; auto.
  - right. replace (i + S r) with (S i + r) by lia. apply IH; auto.
Qed.

(* closure completeness in the form the completeness certificate needs *)
Theorem closure_complete K it B r' R' : NoDup K -> In it (closure g K) -> next_sym g it = Some B ->
  nth_error g r' = Some R' -> lhs R' = B -> In (r', 0) (closure g K).
Proof.
  intros Hnd Hit Hn HR HB. unfold closure in *. rewrite isort_In in *.
  apply (closure_closed K Hnd it); auto. unfold expand. rewrite Hn.
  apply (rules_for_aux_complete B g 0 r' R'); auto.
Qed.

End Closed.


Section GotoComplete.
Variable g : grammar.

Definition ginv (sts : list state) (i : nat) : Prop :=
  forall q it X, q < i -> In it (items (st sts q)) -> next_sym g it = Some X ->
    exists q', assoc X (gotos (st sts q)) = Some q'.

Lemma nmem_In x l : nmem x l = true <-> In x l.
Proof. induction l; simpl; [split; [discriminate|tauto]|]. rewrite orb_true_iff, Nat.eqb_eq, IHl. intuition. Qed.

Lemma syms_after_aux_acc I : forall acc X, In X acc -> In X (syms_after_aux g I acc).
Proof.
  induction I as [|it I IH]; intros acc X H; simpl; auto.
  destruct (next_sym g it) as [Y|]; auto. destruct (nmem Y acc); auto. apply IH. apply in_or_app; auto.
Qed.
Lemma syms_after_aux_complete I : forall acc it X, In it I -> next_sym g it = Some X -> In X (syms_after_aux g I acc).
Proof.
  induction I as [|it0 I IH]; intros acc it X Hin Hn; [destruct Hin|]. simpl. destruct Hin as [<-|Hin].
  - rewrite Hn. destruct (nmem X acc) eqn:E.
    + apply syms_after_aux_acc. apply nmem_In; auto.
    + apply syms_after_aux_acc. apply in_or_app; right; left; auto.
  - destruct (next_sym g it0) as [Y|]; [destruct (nmem Y acc)|]; eapply IH; eauto.
Qed.

Lemma register_keys I Xs : forall sts gts sts' gts', register g I Xs sts gts = (sts', gts') ->
  (exists ext, sts' = sts ++ ext) /\ forall X, In X Xs \/ In X (map fst gts) -> In X (map fst gts').
Proof.
  induction Xs as [|X Xs IH]; intros sts gts sts' gts' H; simpl in H.
  - inversion H; subst. split; [exists []; rewrite app_nil_r; auto|]. intros Y [[]|HY]; auto.
  - destruct (find_state (closure g (advance g I X)) sts 0) as [j|].
    + apply IH in H. destruct H as [Hext Hk]. split; auto. intros Y HY. apply Hk.
      rewrite map_app. simpl. destruct HY as [[<-|HY]|HY]; [right; apply in_or_app; right; left; auto|left; auto|right; apply in_or_app; auto].
    + apply IH in H. destruct H as [(ext & ->) Hk]. split; [exists ({| items := closure g (advance g I X); gotos := [] |} :: ext); rewrite <- app_assoc; auto|].
      intros Y HY. apply Hk.
      rewrite map_app. simpl. destruct HY as [[<-|HY]|HY]; [right; apply in_or_app; right; left; auto|left; auto|right; apply in_or_app; auto].
Qed.

Lemma assoc_some X (l : list (nat * nat)) : In X (map fst l) -> exists v, assoc X l = Some v.
Proof.
  induction l as [|[k v] l IH]; simpl; [tauto|]. intros H. destruct (Nat.eqb_spec X k); [eexists; eauto|].
  destruct H as [H|H]; [congruence|]. auto.
Qed.

Lemma step_ginv sts i s sts' gts : ginv sts i -> nth_error sts i = Some s ->
  register g (items s) (syms_after g (items s)) sts [] = (sts', gts) ->
  ginv (set_gotos sts' i gts) (S i).
Proof.
  intros H Hs Hreg q it X Hq Hit Hn.
  assert (Hi : i < length sts) by (apply nth_error_Some; congruence).
  assert (Hsti : st sts i = s) by (unfold st; apply nth_error_nth; auto).
  destruct (register_keys _ _ _ _ _ _ Hreg) as [(ext & ->) Hk].
  rewrite set_gotos_items in Hit. rewrite set_gotos_gotos.
  destruct (Nat.eqb_spec q i) as [->|Hne]; simpl.
  - assert (Hlt : (i <? length (sts ++ ext)) = true) by (apply Nat.ltb_lt; rewrite app_length; lia).
    rewrite Hlt. rewrite st_app, Hsti in Hit by lia.
    apply assoc_some. apply Hk. left. unfold syms_after. eapply syms_after_aux_complete; eauto.
  - rewrite st_app in * by lia. apply (H q it X); auto. lia.
Qed.

Lemma build_loop_ginv fuel : forall sts i aut, ginv sts i -> build_loop fuel g sts i = Some aut -> ginv aut (length aut).
Proof.
  induction fuel as [|f IH]; intros sts i aut Hinv Hb; simpl in Hb; [discriminate|].
  destruct (nth_error sts i) as [s|] eqn:Hs.
  - destruct (register g (items s) (syms_after g (items s)) sts []) as [sts' gts] eqn:Hreg.
    eapply IH; [|exact Hb]. eapply step_ginv; eauto.
  - inversion Hb; subst aut. apply nth_error_None in Hs. intros q it X Hq. apply Hinv. lia.
Qed.

(* every symbol after a dot, in any state of the result, has a goto edge *)
Theorem build_goto_complete aut q it X : build g = Some aut -> In it (items (st aut q)) -> next_sym g it = Some X ->
  exists q', goto aut q X = Some q'.
Proof.
  intros Hb Hit Hn. unfold goto.
  destruct (Nat.lt_ge_cases q (length aut)) as [Hlt|Hge]; [|rewrite st_out in Hit by lia; destruct Hit].
  assert (H0 : ginv [{| items := closure g [(0, 0)]; gotos := [] |}] 0) by (intros q0 it0 X0 Hq0; lia).
  eapply (build_loop_ginv _ _ _ _ H0 Hb); eauto.
Qed.

End GotoComplete.

Print Assumptions closure_complete.
Print Assumptions build_goto_complete.
