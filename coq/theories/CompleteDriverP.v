(* Prop-annotated variant of the completeness certificate of Spike2 (same proof). *)
From Coq Require Import List Arith Lia Bool.
Import ListNotations.
From YG Require Import LRBase CompleteDriver.

Section Complete.
Variables (g : grammar) (aut : automaton) (tab : table).
Variable ann : nat -> item -> nat -> Prop.

Record ccertP : Prop := {
  k_shift : forall q r d a, In (r, d) (items (st aut q)) -> nth_error (rhs_of g r) d = Some a -> ~ is_nt g a ->
            exists q', goto aut q a = Some q' /\ tab q a = Shift q';
  k_goto : forall q r d B, In (r, d) (items (st aut q)) -> nth_error (rhs_of g r) d = Some B -> is_nt g B ->
            exists q', goto aut q B = Some q' /\ tab q B = Shift q';
  k_prop : forall q r d X q', In (r, d) (items (st aut q)) -> nth_error (rhs_of g r) d = Some X -> goto aut q X = Some q' ->
            In (r, S d) (items (st aut q')) /\ (forall l, ann q (r, d) l -> ann q' (r, S d) l);
  k_clos : forall q r d B r' R', In (r, d) (items (st aut q)) -> nth_error (rhs_of g r) d = Some B ->
            nth_error g r' = Some R' -> lhs R' = B ->
            In (r', 0) (items (st aut q)) /\
            forall l b, ann q (r, d) l -> first_seq g (skipn (S d) (rhs_of g r) ++ [l]) b -> ann q (r', 0) b;
  k_reduce : forall q r l, In (r, length (rhs_of g r)) (items (st aut q)) -> r <> 0 -> r < length g -> ann q (r, length (rhs_of g r)) l ->
            tab q l = Reduce r;
  k_start : In (0, 0) (items (st aut 0)) /\ ann 0 (0, 0) eof;
  k_accept : forall q, In (0, 1) (items (st aut q)) -> tab q eof = Accept;
  k_eof_t : ~ is_nt g eof;
  k_rule0 : exists S, rhs_of g 0 = [S]
}.
Hypothesis K : ccertP.




Definition stepsP (n : nat) stk inp reds stk' inp' reds' : Prop :=
  forall fuel, run (n + fuel) tab g stk inp reds = run fuel tab g stk' inp' reds'.

Lemma steps_transP n1 n2 a1 a2 a3 b1 b2 b3 c1 c2 c3 :
  stepsP n1 a1 a2 a3 b1 b2 b3 -> stepsP n2 b1 b2 b3 c1 c2 c3 -> stepsP (n1 + n2) a1 a2 a3 c1 c2 c3.
Proof. intros H1 H2 fuel. rewrite <- Nat.add_assoc, H1, H2. reflexivity. Qed.

Lemma hd_app_cP (ys rest : list nat) : hd eof (ys ++ rest) = hd eof (ys ++ [hd eof rest]).
Proof. destruct ys; simpl; auto. Qed.

Lemma lhs_is_ntP r : r < length g -> is_nt g (lhs_of g r).
Proof.
  intros H. destruct (nth_error g r) as [R|] eqn:HR; [|apply nth_error_None in HR; lia].
  exists r, R. split; auto. unfold lhs_of. rewrite HR. reflexivity.
Qed.

Lemma first_seq_termP s b : first_seq g s b -> ~ is_nt g b.
Proof. induction 1; auto. Qed.

Lemma simP N : forall t, size t <= N -> tvalid g t ->
  forall stk rest reds r d l, wf_stack aut stk ->
    In (r, d) (items (st aut (top_state stk))) -> nth_error (rhs_of g r) d = Some (root g t) ->
    ann (top_state stk) (r, d) l ->
    first_seq g (skipn (S d) (rhs_of g r) ++ [l]) (hd eof rest) ->
    exists n q', goto aut (top_state stk) (root g t) = Some q' /\
      stepsP n stk (yield t ++ rest) reds ((q', root g t) :: stk) rest (rev (post t) ++ reds).
Proof.
  induction N as [|N IHN]; intros t Hsz Hv stk rest reds r d l Hwf Hit Hnth Hl Hfs.
  { destruct t; simpl in Hsz; lia. }
  destruct t as [a | r' ch].
  - (* leaf *)
    destruct Hv as [Hterm Hneof]. cbn [root] in *.
    destruct (k_shift K _ _ _ _ Hit Hnth Hterm) as (q' & Hg & Htab).
    exists 1, q'. split; auto. intros fuel. cbn [yield app post rev]. cbn [Nat.add run hd tl].
    rewrite Htab. reflexivity.
  - (* node *)
    apply tvalid_node in Hv. destruct Hv as (Hr0 & Hrlt & Hroots & Hch).
    cbn [root] in *. set (B := lhs_of g r') in *.
    assert (HB : is_nt g B) by (apply lhs_is_ntP; auto).
    destruct (nth_error g r') as [R'|] eqn:HR'; [|apply nth_error_None in HR'; lia].
    assert (HlhsR : lhs R' = B) by (unfold B, lhs_of; rewrite HR'; reflexivity).
    assert (HrhsR : rhs_of g r' = rhs R') by (unfold rhs_of; rewrite HR'; reflexivity).
    destruct (k_clos K _ _ _ _ _ _ Hit Hnth HR' HlhsR) as (Hit0 & Hann0).
    set (c := hd eof rest) in *.
    assert (Hc : ann (top_state stk) (r', 0) c) by (eapply Hann0; eauto).
    assert (Hcterm : ~ is_nt g c) by (eapply first_seq_termP; eauto).
    (* children *)
    assert (Kids : forall todo i stk_i reds_i, wf_stack aut stk_i ->
              In (r', i) (items (st aut (top_state stk_i))) ->
              map (root g) todo = skipn i (rhs_of g r') -> all_tvalid g todo -> fsize todo <= N ->
              ann (top_state stk_i) (r', i) c ->
              exists n stk_k, stepsP n stk_i (flat_map yield todo ++ rest) reds_i stk_k rest (rev (flat_map post todo) ++ reds_i) /\
                wf_stack aut stk_k /\ In (r', i + length todo) (items (st aut (top_state stk_k))) /\
                ann (top_state stk_k) (r', i + length todo) c /\
                skipn (length todo) stk_k = stk_i).
    { induction todo as [|t todo IHt]; intros i stk_i reds_i Hwfi Hiti Hrt Hvt Hszt Hci.
      - exists 0, stk_i. simpl. rewrite Nat.add_0_r. split; [intros fuel; reflexivity|]. repeat split; auto.
      - destruct Hvt as [Hvt Hvts]. cbn [fsize fold_right] in Hszt. fold (fsize todo) in Hszt.
        cbn [map] in Hrt.
        assert (Hnth_i : nth_error (rhs_of g r') i = Some (root g t) /\ map (root g) todo = skipn (S i) (rhs_of g r')).
        { apply cons_skipn; exact Hrt. }
        destruct Hnth_i as [Hnth_i Hrt'].
        assert (Hfs_i : first_seq g (skipn (S i) (rhs_of g r') ++ [c]) (hd eof (flat_map yield todo ++ rest))).
        { rewrite hd_app_cP. fold c. rewrite <- Hrt'. apply (first_forest g) with (n := fsize todo); auto. }
        destruct (IHN t ltac:(lia) Hvt stk_i (flat_map yield todo ++ rest) reds_i r' i c Hwfi Hiti Hnth_i Hci Hfs_i)
          as (n1 & q1 & Hg1 & Hst1).
        destruct (k_prop K _ _ _ _ _ Hiti Hnth_i Hg1) as (Hit1 & Hincl).
        destruct (IHt (S i) ((q1, root g t) :: stk_i) (rev (post t) ++ reds_i)) as (n2 & stk_k & Hst2 & Hwfk & Hitk & Hck & Hskip); auto.
        { constructor; auto. } { lia. }
        exists (n1 + n2), stk_k. split; [|split; [|split; [|split]]]; auto.
        + cbn [flat_map]. rewrite <- app_assoc. eapply steps_transP; [exact Hst1|].
          rewrite rev_app_distr, <- app_assoc. exact Hst2.
        + cbn [length]. rewrite Nat.add_succ_r. exact Hitk.
        + cbn [length]. rewrite Nat.add_succ_r. exact Hck.
        + cbn [length]. 
          assert (length todo < length stk_k).
          { apply (f_equal (@length _)) in Hskip. rewrite skipn_length in Hskip. simpl in Hskip. lia. }
          clear - Hskip H. revert stk_k Hskip H. generalize (length todo) as m.
          induction m; intros [|e s] Hs Hl; simpl in *; try lia.
          * inversion Hs; reflexivity.
          * apply IHm; auto. lia. }
    destruct (Kids ch 0 stk reds Hwf Hit0) as (n & stk_k & Hst & Hwfk & Hitk & Hck & Hskip); auto.
    { cbn [size] in Hsz. fold (fsize ch) in Hsz. lia. }
    simpl in Hitk, Hck.
    assert (Hlen : length ch = length (rhs_of g r')).
    { rewrite <- Hroots, map_length. reflexivity. }
    rewrite Hlen in Hitk, Hck.
    pose proof (k_reduce K _ _ _ Hitk Hr0 Hrlt Hck) as Hred.
    destruct (k_goto K _ _ _ _ Hit Hnth HB) as (q' & Hg & Hgo).
    exists (n + 1), q'. split; auto.
    eapply steps_transP; [exact Hst|].
    intros fuel. cbn [Nat.add run]. fold c. rewrite Hred, HR'.
    rewrite <- HrhsR, <- Hlen, Hskip.
    destruct stk as [|e stk0] eqn:Estk; [inversion Hwf|]. rewrite <- Estk in *.
    rewrite HlhsR, Hgo.
    cbn [post]. rewrite rev_app_distr. reflexivity.
Qed.


Theorem completeP t : tvalid g t -> Some (root g t) = hd_error (rhs_of g 0) ->
  exists fuel, run fuel tab g [(0, eof)] (yield t) [] = Acc (post t).
Proof.
  intros Hv Hroot. destruct (k_rule0 K) as [S HS]. rewrite HS in Hroot. simpl in Hroot. inversion Hroot as [HrS].
  destruct (k_start K) as [Hit0 Hann0].
  destruct (simP (size t) t (le_n _) Hv [(0, eof)] [] [] 0 0 eof) as (n & q' & Hg & Hst); auto.
  - constructor.
  - rewrite HS. simpl. congruence.
  - rewrite HS. simpl. constructor. apply (k_eof_t K).
  - exists (n + 1). rewrite app_nil_r in Hst. rewrite Hst. cbn [run top_state hd].
    assert (Hnth : nth_error (rhs_of g 0) 0 = Some (root g t)) by (rewrite HS; simpl; congruence).
    destruct (k_prop K _ _ _ _ _ Hit0 Hnth Hg) as [Hit1 _].
    rewrite (k_accept K _ Hit1). rewrite app_nil_r, rev_involutive. reflexivity.
Qed.

End Complete.

Print Assumptions completeP.
