(* Originally a design-phase spike: LALR(1) lookaheads (LR(1) items over access paths) are all
   found by the DeRemer-Pennello annotation: induction on lr1 using la_prop / la_clos of LASuperset. *)
From Coq Require Import List Arith Lia Bool Relations.
Import ListNotations.
From YG Require Import LRBase CompleteDriver LR0Build LASuperset LASubset.

Section Sup.
Variables (g : grammar) (aut : automaton) (S0 : nat).
Hypothesis H_clos : forall q it B r' R', In it (items (st aut q)) -> next_sym g it = Some B ->
  nth_error g r' = Some R' -> lhs R' = B -> In (r', 0) (items (st aut q)).
Hypothesis H_goto : forall q it X, In it (items (st aut q)) -> next_sym g it = Some X ->
  exists q', goto aut q X = Some q' /\ In (fst it, S (snd it)) (items (st aut q')).
Hypothesis H_start : In (0, 0) (items (st aut 0)).
Hypothesis start_not_in_rhs : forall r d, nth_error (rhs_of g r) d <> Some (lhs_of g 0).
Hypothesis eof_terminal : ~ is_nt g eof.
Hypothesis rule0_rhs : rhs_of g 0 = [S0].
Hypothesis Hback : back_ok g aut.

Theorem LALR_sub_LAm gamma x t : lr1 g gamma x t -> forall q, path aut 0 gamma q ->
  In x (items (st aut q)) /\ ~ is_nt g t /\ LAm g aut S0 q x t.
Proof.
  induction 1 as [| gamma r d X t Hl IH Hn | gamma r d B r' R' t b Hl IH Hn HR' HB Hfs]; intros q Hp.
  - simpl in Hp. subst q. split; auto. split; auto. exists 0. simpl. split; auto.
  - apply path_snoc_inv in Hp. destruct Hp as (q1 & Hp1 & Hg).
    destruct (IH q1 Hp1) as (Hin & Ht & Hla).
    destruct (H_goto q1 (r, d) X Hin Hn) as (q' & Hg' & Hin'). rewrite Hg in Hg'. inversion Hg'; subst q'.
    split; auto. split; auto. eapply la_prop; eauto.
  - destruct (IH q Hp) as (Hin & Ht & Hla).
    split; [eapply H_clos; eauto|]. split; [eapply first_seq_term; eauto|].
    eapply la_clos; eauto.
Qed.

End Sup.
Print Assumptions LALR_sub_LAm.
