(* C16 - generated code is well formed (the part that is logic: text fragments cannot break out of
   the context the builder puts them in) *)
From Coq Require Import List Ascii Bool.
Import ListNotations.
From YG Require Import Emit Front FrontProofs.

(* the rule comment emitted before each action: whatever the action text (it may contain block
   comments), strings.ReplaceAll(action, "*/", "* /") leaves no "*/", so the comment is closed only by
   the builder's own "*/" *)
Theorem C16_comment_safe :
  forall s : list ascii, ~ (exists a b : list ascii, replace_close s = (a ++ star :: slash :: b)%list).
Proof. exact Emit.comment_safe. Qed.
Print Assumptions C16_comment_safe.

(* ... and action text without "*/" is shown unchanged *)
Theorem C16_comment_faithful :
  forall s : list ascii, has_close s = false -> replace_close s = s.
Proof. exact Emit.replace_close_id. Qed.
Print Assumptions C16_comment_faithful.

(* the `case` labels of the generated translate switch are the terminals' codes: they are pairwise
   different whenever the code table passes the (verified) code checker and the fixed codes are distinct *)
Theorem C16_translate_cases_distinct :
  forall (decls final : list (name * BinNums.Z)),
    valid_codes decls final = true -> NoDup (fixed_codes decls) -> NoDup (map snd final).
Proof. intros decls final H. exact (proj2 (proj2 (FrontProofs.valid_codes_sound decls final H))). Qed.
Print Assumptions C16_translate_cases_distinct.
