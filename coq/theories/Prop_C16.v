(* C16 - generated code is well formed (the part that is logic: text fragments cannot break out of
   the context the builder puts them in) *)
From Coq Require Import List Ascii Bool.
Import ListNotations.
From YG Require Import Emit Front FrontProofs.

(* the rule comment emitted before each action: whatever the action text (it may contain block
   comments), strings.ReplaceAll(action, "*/", "* /") leaves no "*/", so the comment is closed only by
   the builder's own "*/" *)
Theorem C16_comment_safe :
  forall s : list ascii, ~ (exists a b : list ascii, replace_close s = (a ++ star :: slash :: b)%list).
Proof. exact Emit.comment_safe. Qed.
Print Assumptions C16_comment_safe.

(* ... and action text without "*/" is shown unchanged *)
Theorem C16_comment_faithful :
  forall s : list ascii, has_close s = false -> replace_close s = s.
Proof. exact Emit.replace_close_id. Qed.
Print Assumptions C16_comment_faithful.

(* the `case` labels of the generated translate switch are the terminals' codes: they are pairwise
   different whenever the code table passes the (verified) code checker and the fixed codes are distinct *)
Theorem C16_translate_cases_distinct :
  forall (decls final : list (name * BinNums.Z)),
    valid_codes decls final = true -> NoDup (fixed_codes decls) -> NoDup (map snd final).
Proof. intros decls final H. exact (proj2 (proj2 (FrontProofs.valid_codes_sound decls final H))). Qed.
Print Assumptions C16_translate_cases_distinct.

From Coq Require Import NArith Ascii.
From YG Require Import EmitAction.
Close Scope Z_scope.
Open Scope nat_scope.

(* the model of the action substitution (actionCodeReplace): an action that does not mention the dollar sign is pasted into the reduce function as it is *)
Theorem C16_action_plain :
  forall (sp ao am ltag : list Ascii.ascii) (rtags : list (list Ascii.ascii)) (s : list Ascii.ascii),
         forallb (fun c : Ascii.ascii => negb (is_dollar c)) s = true ->
         subst_action sp ao am ltag rtags s = Some s.
Proof. exact EmitAction.subst_plain. Qed.
Print Assumptions C16_action_plain.

From Coq Require Import NArith Ascii.
From YG Require Import EmitAction.
Close Scope Z_scope.
Open Scope nat_scope.

(* what is emitted for a reference to the n-th symbol: open ++ digits ++ mid ++ tag of symbol n, exactly when n is in range and that symbol has a tag (otherwise the generation stops with a diagnostic) *)
Theorem C16_action_reference :
  forall (ao am : list Ascii.ascii) (rtags : list (list Ascii.ascii)) (ds out : list Ascii.ascii),
         arg_code ao am rtags ds = Some out <->
         (exists (k : nat) (tag : list Ascii.ascii),
            N.to_nat (dig_val 0 ds) = S k /\
            nth_error rtags k = Some tag /\ tag <> [] /\ out = ao ++ ds ++ am ++ tag).
Proof. exact EmitAction.arg_code_spec. Qed.
Print Assumptions C16_action_reference.

(* the substitution on a concrete action: value of the left-hand side, two references, a dollar sign that is no reference;
   an untyped symbol, an index beyond the rule, index 0 and index 10 stop the generation *)
Example C16_action_example :
  subst_action ["S"; "."]%char ["D"; "["]%char ["]"; "."]%char ["v"]%char [["a"]; []; ["c"]]%char ["$"; "$"; "="; "$"; "1"; "+"; "$"; "3"; ";"; "$"; "x"]%char
  = Some ["S"; "."; "v"; "="; "D"; "["; "1"; "]"; "."; "a"; "+"; "D"; "["; "3"; "]"; "."; "c"; ";"; "$"; "x"]%char.
Proof. exact (proj1 EmitAction.subst_example). Qed.
Print Assumptions C16_action_example.

From Coq Require Import NArith Ascii.
From YG Require Import Lexer EmitAction BraceBalance.
Close Scope Z_scope.
Open Scope nat_scope.

(* across the layers: an action body as the lexer model cuts it out (brace counting, as Lex.go does) is brace-balanced *)
Theorem C16_action_token_balanced :
  forall (r a r' : list ascii), braces 1 r = Some (a, r') -> balanced ("{"%char :: a).
Proof. exact BraceBalance.action_token_balanced. Qed.
Print Assumptions C16_action_token_balanced.

(* the action substitution keeps the nesting: with brace-free tags the emitted code nests exactly as the action does *)
Theorem C16_substitution_keeps_nesting :
  forall (sp ao am ltag : list ascii) (rtags : list (list ascii)) (s out : list ascii),
    brace_free sp -> brace_free ao -> brace_free am -> brace_free ltag -> (forall t, In t rtags -> brace_free t) ->
    subst_action sp ao am ltag rtags s = Some out -> forall d, depth_after d out = depth_after d s.
Proof. exact BraceBalance.subst_depth. Qed.
Print Assumptions C16_substitution_keeps_nesting.

(* hence the code pasted into one case of the reduce function is balanced: it cannot close the function or swallow the next case *)
Theorem C16_emitted_action_balanced :
  forall (sp ao am ltag : list ascii) (rtags : list (list ascii)) (r a r' out : list ascii),
    braces 1 r = Some (a, r') ->
    brace_free sp -> brace_free ao -> brace_free am -> brace_free ltag -> (forall t, In t rtags -> brace_free t) ->
    subst_action sp ao am ltag rtags ("{"%char :: a) = Some out -> balanced out.
Proof. exact BraceBalance.emitted_action_balanced. Qed.
Print Assumptions C16_emitted_action_balanced.
