(* Originally a design-phase spike: the lemma behind C14 for every "sort the keys first" site:
   sorting makes the result independent of the order in which a Go map was iterated. *)
From Coq Require Import List Arith Lia Bool Permutation Sorted.
Import ListNotations.

Section Sort.
Variable A : Type.
Variable leb : A -> A -> bool.
Hypothesis leb_total : forall a b, leb a b = true \/ leb b a = true.
Hypothesis leb_trans : forall a b c, leb a b = true -> leb b c = true -> leb a c = true.
Hypothesis leb_antisym : forall a b, leb a b = true -> leb b a = true -> a = b.

Fixpoint insert (x : A) (l : list A) : list A :=
  match l with [] => [x] | y :: l' => if leb x y then x :: l else y :: insert x l' end.
Fixpoint isort (l : list A) : list A := match l with [] => [] | x :: l' => insert x (isort l') end.

Lemma insert_perm x l : Permutation (x :: l) (insert x l).
Proof. induction l as [|y l IH]; simpl; auto. destruct (leb x y); auto. rewrite perm_swap. constructor. auto. Qed.
Lemma isort_perm l : Permutation l (isort l).
Proof. induction l; simpl; auto. rewrite <- insert_perm. constructor; auto. Qed.

Definition le (a b : A) : Prop := leb a b = true.
Lemma insert_sorted x l : StronglySorted le l -> StronglySorted le (insert x l).
Proof.
  induction 1 as [|y l Hs IH Hall]; simpl; [repeat constructor|].
  destruct (leb x y) eqn:E.
  - constructor; [constructor; auto|]. constructor; auto. rewrite Forall_forall in *. intros z Hz. eapply leb_trans; eauto. apply Hall; auto.
  - constructor; auto. assert (Hyx : le y x) by (destruct (leb_total x y); [congruence|auto]).
    rewrite Forall_forall in *. intros z Hz. apply (Permutation_in _ (Permutation_sym (insert_perm x l))) in Hz.
    destruct Hz as [<-|Hz]; auto.
Qed.
Lemma isort_sorted l : StronglySorted le (isort l).
Proof. induction l; simpl; [constructor|apply insert_sorted; auto]. Qed.

Lemma sorted_perm_eq l1 : forall l2, StronglySorted le l1 -> StronglySorted le l2 -> Permutation l1 l2 -> l1 = l2.
Proof.
  induction l1 as [|x l1 IH]; intros l2 H1 H2 Hp.
  - apply Permutation_nil in Hp. auto.
  - destruct l2 as [|y l2]; [apply Permutation_sym, Permutation_nil in Hp; discriminate|].
    inversion H1 as [|? ? Hs1 Ha1]; subst. inversion H2 as [|? ? Hs2 Ha2]; subst.
    assert (x = y).
    { assert (Hx : In x (y :: l2)) by (eapply Permutation_in; eauto; left; auto).
      assert (Hy : In y (x :: l1)) by (eapply Permutation_in; [apply Permutation_sym; eauto|left; auto]).
      destruct Hx as [->|Hx]; auto. destruct Hy as [->|Hy]; auto.
      rewrite Forall_forall in Ha1, Ha2. apply leb_antisym; [apply Ha1|apply Ha2]; auto. }
    subst y. f_equal. apply IH; auto. eapply Permutation_cons_inv; eauto.
Qed.

(* the iteration order of the map (any permutation of its keys) does not matter once the keys are sorted *)
Theorem isort_order_independent l l' : Permutation l l' -> isort l = isort l'.
Proof.
  intros H. apply sorted_perm_eq; try apply isort_sorted.
  rewrite <- isort_perm, <- isort_perm. auto.
Qed.

End Sort.
Print Assumptions isort_order_independent.
