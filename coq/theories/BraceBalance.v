(* C16, across the layers: the text of a semantic action as the lexer delivers it is brace-balanced, and the action
   substitution of the builders keeps it so (tags are identifiers, the replacement texts contain no brace).  Hence the
   code pasted into one `case` of the generated reduce function cannot close that function or swallow the next case,
   whatever the action says.  (Braces are counted as bytes - inside strings and comments too - exactly as Lex.go counts
   them when it looks for the end of the action.) *)
From Coq Require Import List Arith Bool Ascii NArith Lia.
Import ListNotations.
From YG Require Import Lexer EmitAction.
Open Scope char_scope.

Definition is_open (c : ascii) : bool := Ascii.eqb c "{".
Definition is_close (c : ascii) : bool := Ascii.eqb c "}".

(* the nesting depth after a text, None if a closing brace comes with nothing open *)
Fixpoint depth_after (d : nat) (s : list ascii) : option nat :=
  match s with
  | [] => Some d
  | c :: s' =>
    if is_open c then depth_after (S d) s'
    else if is_close c then match d with 0 => None | S d' => depth_after d' s' end
    else depth_after d s'
  end.
Definition balanced (s : list ascii) : Prop := depth_after 0 s = Some 0.
Definition brace_free (s : list ascii) : Prop := forall c, In c s -> is_open c = false /\ is_close c = false.

Lemma depth_after_app s : forall d t, depth_after d (s ++ t) = match depth_after d s with Some d' => depth_after d' t | None => None end.
Proof.
  induction s as [|c s IH]; intros d t; cbn [app depth_after]; [reflexivity|].
  destruct (is_open c); [apply IH|]. destruct (is_close c); [destruct d; [reflexivity | apply IH] | apply IH].
Qed.

Lemma depth_after_free s d : brace_free s -> depth_after d s = Some d.
Proof.
  revert d; induction s as [|c s IH]; intros d H; [reflexivity|].
  cbn [depth_after]. destruct (H c (or_introl eq_refl)) as [-> ->]. apply IH. intros x Hx. apply H. right. exact Hx.
Qed.

(* ---- the lexer: what `braces` cuts out is balanced ---- *)
Lemma braces_depth : forall s d a r, braces (S d) s = Some (a, r) -> depth_after (S d) a = Some 0 /\ s = a ++ r.
Proof.
  induction s as [|c s IH]; intros d a r H; [discriminate|].
  cbn [braces] in H. unfold is_open, is_close. destruct (Ascii.eqb c "{") eqn:Eo.
  - destruct (braces (S (S d)) s) as [[a0 r0]|] eqn:E; [|discriminate]. inversion H; subst a r.
    destruct (IH (S d) a0 r0 E) as [A ->]. cbn [depth_after app]. unfold is_open. rewrite Eo. split; [exact A | reflexivity].
  - destruct (Ascii.eqb c "}") eqn:Ec.
    + destruct d as [|d].
      * inversion H; subst a r. cbn [depth_after app]. unfold is_open, is_close. rewrite Eo, Ec. split; reflexivity.
      * destruct (braces (S d) s) as [[a0 r0]|] eqn:E; [|discriminate]. inversion H; subst a r.
        destruct (IH d a0 r0 E) as [A ->]. cbn [depth_after app]. unfold is_open, is_close. rewrite Eo, Ec. split; [exact A | reflexivity].
    + destruct (braces (S d) s) as [[a0 r0]|] eqn:E; [|discriminate]. inversion H; subst a r.
      destruct (IH d a0 r0 E) as [A ->]. cbn [depth_after app]. unfold is_open, is_close. rewrite Eo, Ec. split; [exact A | reflexivity].
Qed.

(* the value of an action token: the opening brace and what `braces 1` cut out after it *)
Theorem action_token_balanced r a r' : braces 1 r = Some (a, r') -> balanced ("{" :: a).
Proof.
  intros H. destruct (braces_depth r 0 a r' H) as [A _]. unfold balanced. cbn [depth_after]. exact A.
Qed.

(* ---- the builders: the substitution keeps the nesting ---- *)
Lemma dollar_not_brace c : is_dollar c = true -> is_open c = false /\ is_close c = false.
Proof. unfold is_dollar, is_open, is_close. intros H. apply Ascii.eqb_eq in H. subst c. split; reflexivity. Qed.
Lemma digit_not_brace c : is_dig c = true -> is_open c = false /\ is_close c = false.
Proof.
  unfold is_dig, is_open, is_close. intros H. apply andb_true_iff in H. destruct H as [H1 H2]. split.
  - destruct (Ascii.eqb_spec c "{") as [->|]; [vm_compute in H2; discriminate | reflexivity].
  - destruct (Ascii.eqb_spec c "}") as [->|]; [vm_compute in H2; discriminate | reflexivity].
Qed.

Lemma repl_self_depth r : brace_free r -> forall s d, depth_after d (repl_self r s) = depth_after d s.
Proof.
  intros Hr s. remember (length s) as n eqn:En. revert s En.
  induction n as [n IH] using lt_wf_ind. intros s En d. destruct s as [|c t]; [reflexivity|].
  cbn [repl_self]. destruct t as [|e s']; [reflexivity|].
  destruct (is_dollar c && is_dollar e) eqn:E.
  - apply andb_true_iff in E. destruct E as [Ec Ee].
    destruct (dollar_not_brace c Ec) as [A1 A2]. destruct (dollar_not_brace e Ee) as [B1 B2].
    rewrite depth_after_app, (depth_after_free r d Hr). cbn [depth_after]. rewrite A1, A2, B1, B2.
    apply (IH (length s')); [subst n; simpl; lia | reflexivity].
  - assert (Ht : forall d', depth_after d' (repl_self r (e :: s')) = depth_after d' (e :: s')).
    { intros d'. apply (IH (length (e :: s'))); [subst n; simpl; lia | reflexivity]. }
    change (depth_after d (c :: repl_self r (e :: s')) = depth_after d (c :: e :: s')).
    cbn [depth_after]. cbn [depth_after] in Ht.
    destruct (is_open c); [apply Ht|]. destruct (is_close c); [destruct d; [reflexivity | apply Ht] | apply Ht].
Qed.

Section Args.
Variable f : list ascii -> option (list ascii).
Hypothesis f_free : forall ds out, forallb is_dig ds = true -> f ds = Some out -> brace_free out.

Lemma forallb_rev {A} (p : A -> bool) l : forallb p (rev l) = forallb p l.
Proof. induction l as [|x l IH]; [reflexivity|]. cbn [rev forallb]. rewrite forallb_app, IH. cbn [forallb]. rewrite andb_true_r. apply andb_comm. Qed.

Lemma flush_free pending out : (forall ds, pending = Some ds -> forallb is_dig ds = true) ->
  flush f pending = Some out -> brace_free out.
Proof.
  unfold flush. intros Hp. destruct pending as [[|c ds]|].
  - intros H; inversion H; subst. intros x [<-|[]]. split; reflexivity.
  - apply f_free. rewrite forallb_rev. apply (Hp _ eq_refl).
  - intros H; inversion H; subst. intros x [].
Qed.

(* pending digits are no braces: the text scanned so far plus the pending "$digits" has the depth of the output so far *)
Lemma repl_args_depth : forall s pending out d,
  (forall ds, pending = Some ds -> forallb is_dig ds = true) ->
  repl_args f s pending = Some out -> depth_after d out = depth_after d s.
Proof.
  induction s as [|c s IH]; intros pending out d Hp H; cbn [repl_args] in H.
  - cbn [depth_after]. apply depth_after_free. eapply flush_free; eauto.
  - destruct pending as [ds|].
    + destruct (is_dig c) eqn:Ed.
      * destruct (digit_not_brace c Ed) as [A1 A2]. cbn [depth_after]. rewrite A1, A2.
        apply (IH (Some (c :: ds)) out d); [|exact H]. intros ds' E. inversion E; subst ds'. cbn [forallb]. rewrite Ed. apply (Hp ds eq_refl).
      * destruct (flush f (Some ds)) as [o|] eqn:Ef; [|discriminate].
        pose proof (flush_free _ _ Hp Ef) as Ho.
        destruct (is_dollar c) eqn:Ec.
        -- destruct (repl_args f s (Some [])) as [rest|] eqn:Er; [|discriminate]. cbn [option_map] in H. inversion H; subst out.
           destruct (dollar_not_brace c Ec) as [A1 A2]. rewrite depth_after_app, (depth_after_free o d Ho). cbn [depth_after]. rewrite A1, A2.
           apply (IH (Some []) rest d); [|exact Er]. intros ds' E. inversion E; subst. reflexivity.
        -- destruct (repl_args f s None) as [rest|] eqn:Er; [|discriminate]. cbn [option_map] in H. inversion H; subst out.
           rewrite depth_after_app, (depth_after_free o d Ho). cbn [depth_after].
           rewrite (IH None rest); [reflexivity | intros ds' E; discriminate | exact Er] || idtac.
           destruct (is_open c); [apply (IH None rest); [intros ds' E; discriminate | exact Er]|].
           destruct (is_close c); [destruct d; [reflexivity|]; apply (IH None rest); [intros ds' E; discriminate | exact Er]|].
           apply (IH None rest); [intros ds' E; discriminate | exact Er].
    + destruct (is_dollar c) eqn:Ec.
      * destruct (dollar_not_brace c Ec) as [A1 A2]. cbn [depth_after]. rewrite A1, A2.
        apply (IH (Some []) out d); [|exact H]. intros ds' E. inversion E; subst. reflexivity.
      * destruct (repl_args f s None) as [rest|] eqn:Er; [|discriminate]. cbn [option_map] in H. inversion H; subst out.
        cbn [depth_after]. destruct (is_open c); [apply (IH None rest); [intros ds' E; discriminate | exact Er]|].
        destruct (is_close c); [destruct d; [reflexivity|]; apply (IH None rest); [intros ds' E; discriminate | exact Er]|].
        apply (IH None rest); [intros ds' E; discriminate | exact Er].
Qed.
End Args.

(* the whole substitution: with brace-free tags and brace-free surrounding texts the emitted code nests exactly as the action does *)
Theorem subst_depth sp ao am ltag rtags s out :
  brace_free sp -> brace_free ao -> brace_free am -> brace_free ltag -> (forall t, In t rtags -> brace_free t) ->
  subst_action sp ao am ltag rtags s = Some out -> forall d, depth_after d out = depth_after d s.
Proof.
  intros Hsp Hao Ham Hl Hr H d. unfold subst_action in H.
  destruct (has_self s && match ltag with [] => true | _ :: _ => false end); [discriminate|].
  rewrite (repl_args_depth (arg_code ao am rtags)) with (s := repl_self (sp ++ ltag) s) (pending := None) (out := out) (d := d);
    [| | intros ds E; discriminate | exact H].
  - apply repl_self_depth. intros c Hc. apply in_app_or in Hc. destruct Hc; [apply Hsp | apply Hl]; assumption.
  - intros ds o Hd Ho. unfold arg_code in Ho. destruct (N.to_nat (dig_val 0 ds)) as [|k]; [discriminate|].
    destruct (nth_error rtags k) as [[|c0 tag]|] eqn:En; try discriminate. inversion Ho; subst o.
    intros c Hc. apply in_app_or in Hc. destruct Hc as [Hc|Hc]; [apply Hao, Hc|].
    apply in_app_or in Hc. destruct Hc as [Hc|Hc].
    + rewrite forallb_forall in Hd. apply digit_not_brace, Hd, Hc.
    + apply in_app_or in Hc. destruct Hc as [Hc|Hc]; [apply Ham, Hc | apply (Hr (c0 :: tag) (nth_error_In _ _ En)), Hc].
Qed.

(* so: the code pasted for an action the lexer delivered is balanced *)
Corollary emitted_action_balanced sp ao am ltag rtags r a r' out :
  braces 1 r = Some (a, r') ->
  brace_free sp -> brace_free ao -> brace_free am -> brace_free ltag -> (forall t, In t rtags -> brace_free t) ->
  subst_action sp ao am ltag rtags ("{" :: a) = Some out -> balanced out.
Proof.
  intros Hb Hsp Hao Ham Hl Hr H. unfold balanced. rewrite (subst_depth sp ao am ltag rtags _ out Hsp Hao Ham Hl Hr H 0).
  apply (action_token_balanced r a r' Hb).
Qed.
