(* C15 - parses are independent *)
From Coq Require Import List Arith ZArith Bool Permutation.
Import ListNotations.
From YG Require Import LRBase CompleteDriver LR0Build LR0Complete LASuperset LASubset LAExec LR0More C03Assembly C02Assembly TableCert Resolve PackCore DriverSim Values Oracle Productive SortOrder LexRoundtrip.

(* global mode: after ParserInit the run does not depend on the previous state *)
Theorem C15_reinit_global :
  forall (tab : table) (g : grammar) (act : semact) (s : pst) (fuel : nat) (inp : list tok),
         crun tab g act fuel (init_global s) inp 0 [] = arun tab g act fuel [init_entry] inp 0 [].
Proof. exact DriverSim.reinit_global. Qed.
Print Assumptions C15_reinit_global.

(* object mode: ParserInit appends; the run does not depend on the previous state because cell 0 always holds the initial entry *)
Theorem C15_reinit_object :
  forall (tab : table) (g : grammar) (act : semact) (s : pst) (fuel : nat) (inp : list tok),
         hd_error (stk s) = Some init_entry \/ stk s = [] ->
         crun tab g act fuel (init_object s) inp 0 [] = arun tab g act fuel [init_entry] inp 0 [].
Proof. exact DriverSim.reinit_object. Qed.
Print Assumptions C15_reinit_object.

From YG Require Import LRBase DriverSim Drivers Independence.
Close Scope Z_scope.
Open Scope nat_scope.

(* histories of any length on one parser (ParserInit before every parse, global or object mode, accepted and rejected inputs mixed): the list of results is the list of results of the same parses on a fresh parser; good = cell 0 of the stack array holds the initial entry, or the array is still empty *)
Theorem C15_histories :
  forall (tab : table) (g : grammar) (act : semact) (obj : bool) (fuel : nat) 
           (inps : list (list tok)) (s : pst),
         good s ->
         history_tab tab obj g act fuel s inps =
         map (fun inp : list tok => arun tab g act fuel [init_entry] inp 0 []) inps.
Proof. exact Independence.history_independent. Qed.
Print Assumptions C15_histories.

From YG Require Import LRBase DriverSim Drivers Independence.
Close Scope Z_scope.
Open Scope nat_scope.

(* no run, however it ends, overwrites cell 0 of the stack array - the fact object-mode ParserInit relies on *)
Theorem C15_cell0_preserved :
  forall (tab : table) (g : grammar) (act : semact) (fuel : nat) (s : pst) (inp : list tok) (x : entry),
         hd_error (stk s) = Some x -> hd_error (stk (cfinal tab g act fuel s inp)) = Some x.
Proof. exact Independence.cfinal_head. Qed.
Print Assumptions C15_cell0_preserved.

From YG Require Import LRBase DriverSim Drivers Independence.
Close Scope Z_scope.
Open Scope nat_scope.

(* the driver in small steps (one iteration of the Parser loop per step) is the driver *)
Theorem C15_small_steps :
  forall (tab : table) (g : grammar) (act : semact) (n : nat) (s : pst) (inp : list tok) 
           (pos : nat) (reds : list nat),
         outcome (iter tab g act n (s, {| l_inp := inp; l_pos := pos; l_reds := reds; l_status := Running |})) =
         crun tab g act n s inp pos reds.
Proof. exact Independence.steps_are_crun. Qed.
Print Assumptions C15_small_steps.

From YG Require Import LRBase DriverSim Drivers Independence.
Close Scope Z_scope.
Open Scope nat_scope.

(* contexts own their stacks: under every schedule of steps, context i is where it would be after the same number of its own steps alone *)
Theorem C15_interleaving :
  forall (tab : table) (g : grammar) (act : semact) (sched : list nat) (H : heap) (i : nat),
         sys_run tab g act sched H i = iter tab g act (count_occ Nat.eq_dec sched i) (H i).
Proof. exact Independence.interleaving_independent. Qed.
Print Assumptions C15_interleaving.

From YG Require Import LRBase DriverSim Drivers Independence.
Close Scope Z_scope.
Open Scope nat_scope.

(* ... and reports what the abstract machine reports for its own input, whatever the other contexts parse and however the steps are interleaved *)
Theorem C15_contexts_independent :
  forall (tab : table) (g : grammar) (act : semact) (inps : nat -> list tok) 
           (olds : nat -> pst) (sched : list nat) (i : nat),
         (forall j : nat, good (olds j)) ->
         let H0 := fun j : nat => start (init_object (olds j)) (inps j) in
         outcome (sys_run tab g act sched H0 i) =
         arun tab g act (count_occ Nat.eq_dec sched i) [init_entry] (inps i) 0 [].
Proof. exact Independence.contexts_independent. Qed.
Print Assumptions C15_contexts_independent.

(* the statement separates the designs: with ONE shared stack (the default mode used from two places at once, without
   PushContex/PopContex) a two-step schedule makes a parse of a sentence fail; on two contexts it does not *)
Example C15_shared_stack_refuted :
  l_status (snd (shared_run toy_tab toy_g toy_act [0; 1; 1; 1; 1] toy_start) 1) = Finished (RRej 0 [])
  /\ l_status (snd (shared_run toy_tab toy_g toy_act [1; 1; 1; 1] toy_start) 1) = Finished (RAcc 7%Z [0])
  /\ outcome (sys_run toy_tab toy_g toy_act [0; 1; 1; 1; 1] (fun j => start (init_object {| stk := []; sp := 0 |}) [(2, 7%Z)]) 1) = RAcc 7%Z [0].
Proof. exact (conj shared_stack_interferes_refuted (conj alone_accepts contexts_do_not_interfere)). Qed.
Print Assumptions C15_shared_stack_refuted.
