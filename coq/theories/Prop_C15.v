(* C15 - parses are independent *)
From Coq Require Import List Arith ZArith Bool Permutation.
Import ListNotations.
From YG Require Import LRBase CompleteDriver LR0Build LR0Complete LASuperset LASubset LAExec LR0More C03Assembly C02Assembly TableCert Resolve PackCore DriverSim Values Oracle Productive SortOrder LexRoundtrip.

(* global mode: after ParserInit the run does not depend on the previous state *)
Theorem C15_reinit_global :
  forall (tab : table) (g : grammar) (act : semact) (s : pst) (fuel : nat) (inp : list tok),
         crun tab g act fuel (init_global s) inp 0 [] = arun tab g act fuel [init_entry] inp 0 [].
Proof. exact DriverSim.reinit_global. Qed.
Print Assumptions C15_reinit_global.

(* object mode: ParserInit appends; the run does not depend on the previous state because cell 0 always holds the initial entry *)
Theorem C15_reinit_object :
  forall (tab : table) (g : grammar) (act : semact) (s : pst) (fuel : nat) (inp : list tok),
         hd_error (stk s) = Some init_entry \/ stk s = [] ->
         crun tab g act fuel (init_object s) inp 0 [] = arun tab g act fuel [init_entry] inp 0 [].
Proof. exact DriverSim.reinit_object. Qed.
Print Assumptions C15_reinit_object.
