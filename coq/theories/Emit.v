(* Model of small text-producing pieces of the builders (Builder/GoTemplBuilder.go, TsGenCode.go,
   LALR/LALRDraw.go, Graph/Graph.go) with their proofs:
   - the rule comment placed before each action is closed only where the builder closes it
     (strings.ReplaceAll(action, "*/", "* /") leaves no "*/");
   - joining record fields with a separator is invertible when no field contains the separator
     (DOT record labels "state N|{item|item}|{look|look}", listing lines). *)
From Coq Require Import List Ascii Bool Arith.
Import ListNotations.

Definition star : ascii := "*"%char.
Definition slash : ascii := "/"%char.
Definition space : ascii := " "%char.

(* strings.ReplaceAll(s, "*/", "* /"): non-overlapping, left to right, as a one-pass transducer
   whose state is "a star is pending" *)
Fixpoint rc (pending : bool) (s : list ascii) : list ascii :=
  match s with
  | [] => if pending then [star] else []
  | c :: rest =>
    if pending then
      if Ascii.eqb c slash then star :: space :: slash :: rc false rest
      else if Ascii.eqb c star then star :: rc true rest
      else star :: c :: rc false rest
    else
      if Ascii.eqb c star then rc true rest else c :: rc false rest
  end.
Definition replace_close (s : list ascii) : list ascii := rc false s.

(* does the text contain the two bytes that close a block comment? *)
Fixpoint has_close (s : list ascii) : bool :=
  match s with
  | [] => false
  | c :: rest => (Ascii.eqb c star && match rest with d :: _ => Ascii.eqb d slash | [] => false end) || has_close rest
  end.

Lemma rc_pending_head s : exists t, rc true s = star :: t.
Proof.
  destruct s as [|c rest]; cbn [rc]; [eexists; reflexivity|].
  destruct (Ascii.eqb c slash); [eexists; reflexivity|].
  destruct (Ascii.eqb c star); eexists; reflexivity.
Qed.

Lemma star_not_slash : Ascii.eqb star slash = false. Proof. reflexivity. Qed.
Lemma space_not_star : Ascii.eqb space star = false. Proof. reflexivity. Qed.
Lemma slash_not_star : Ascii.eqb slash star = false. Proof. reflexivity. Qed.
Lemma space_not_slash : Ascii.eqb space slash = false. Proof. reflexivity. Qed.

Lemma rc_no_close : forall s p, has_close (rc p s) = false.
Proof.
  induction s as [|c rest IH]; intros p; cbn [rc].
  - destruct p; reflexivity.
  - destruct p.
    + destruct (Ascii.eqb c slash) eqn:Es.
      * cbn [has_close]. rewrite Ascii.eqb_refl, space_not_slash, space_not_star, slash_not_star. cbn [andb orb]. apply IH.
      * destruct (Ascii.eqb c star) eqn:Ec.
        -- destruct (rc_pending_head rest) as [t Ht]. pose proof (IH true) as H. rewrite Ht in *.
           cbn [has_close]. cbn [has_close] in H. rewrite Ascii.eqb_refl, star_not_slash. cbn [andb orb]. exact H.
        -- cbn [has_close]. rewrite Ascii.eqb_refl, Es, Ec. cbn [andb orb]. apply IH.
    + destruct (Ascii.eqb c star) eqn:Ec; [apply IH|].
      cbn [has_close]. rewrite Ec. cbn [andb orb]. apply IH.
Qed.

(* has_close reflects "the text can be split around the two bytes */" *)
Lemma has_close_spec s : has_close s = true <-> exists a b, s = a ++ star :: slash :: b.
Proof.
  induction s as [|c rest IH]; cbn [has_close].
  - split; [discriminate|]. intros [a [b H]]. destruct a; discriminate.
  - rewrite orb_true_iff, IH. split.
    + intros [H|[a [b H]]].
      * apply andb_true_iff in H. destruct H as [Hc Hd]. destruct rest as [|d rest']; [discriminate|].
        apply Ascii.eqb_eq in Hc. apply Ascii.eqb_eq in Hd. subst. exists [], rest'. reflexivity.
      * exists (c :: a), b. rewrite H. reflexivity.
    + intros [a [b H]]. destruct a as [|x a].
      * left. cbn [app] in H. inversion H; subst. rewrite !Ascii.eqb_refl. reflexivity.
      * right. cbn [app] in H. inversion H; subst. exists a, b. reflexivity.
Qed.

(* C16: whatever the action text, the comment text produced from it cannot end the comment *)
Theorem comment_safe s : ~ exists a b, replace_close s = a ++ star :: slash :: b.
Proof.
  intro H. apply has_close_spec in H. unfold replace_close in H. rewrite rc_no_close in H. discriminate.
Qed.

(* text without "*/" is copied unchanged *)
Lemma rc_id_aux : forall (s : list ascii) (p : bool), has_close (if p then star :: s else s) = false -> rc p s = if p then star :: s else s.
Proof.
  induction s as [|c rest IH]; intros p H; cbn [rc].
  - destruct p; reflexivity.
  - destruct p.
    + change (has_close (star :: c :: rest)) with ((Ascii.eqb star star && Ascii.eqb c slash) || has_close (c :: rest)) in H.
      rewrite Ascii.eqb_refl in H. cbn [andb] in H. apply orb_false_iff in H. destruct H as [Hs H].
      rewrite Hs. destruct (Ascii.eqb c star) eqn:Ec.
      * apply Ascii.eqb_eq in Ec. subst c. rewrite (IH true); [reflexivity|exact H].
      * rewrite (IH false); [reflexivity|].
        change (has_close (c :: rest)) with ((Ascii.eqb c star && match rest with d :: _ => Ascii.eqb d slash | [] => false end) || has_close rest) in H.
        rewrite Ec in H. exact H.
    + destruct (Ascii.eqb c star) eqn:Ec.
      * apply Ascii.eqb_eq in Ec. subst c. apply (IH true). exact H.
      * rewrite (IH false); [reflexivity|].
        change (has_close (c :: rest)) with ((Ascii.eqb c star && match rest with d :: _ => Ascii.eqb d slash | [] => false end) || has_close rest) in H.
        rewrite Ec in H. exact H.
Qed.
Theorem replace_close_id s : has_close s = false -> replace_close s = s.
Proof. intro H. exact (rc_id_aux s false H). Qed.

(* ---------- joining and splitting fields ---------- *)
Section Join.
Variable sep : ascii.
Fixpoint join (l : list (list ascii)) : list ascii :=
  match l with
  | [] => []
  | [x] => x
  | x :: l' => x ++ sep :: join l'
  end.
Fixpoint split_aux (s cur : list ascii) : list (list ascii) :=
  match s with
  | [] => [rev cur]
  | c :: s' => if Ascii.eqb c sep then rev cur :: split_aux s' [] else split_aux s' (c :: cur)
  end.
Definition split (s : list ascii) : list (list ascii) := split_aux s [].
Definition free (x : list ascii) : Prop := ~ In sep x.

Lemma split_aux_free x rest cur : free x -> split_aux (x ++ rest) cur = split_aux rest (rev x ++ cur).
Proof.
  revert cur. induction x as [|c x IH]; intros cur Hf; cbn [app rev]; [reflexivity|].
  cbn [split_aux]. destruct (Ascii.eqb c sep) eqn:E.
  - apply Ascii.eqb_eq in E. subst c. exfalso. apply Hf. left. reflexivity.
  - rewrite IH by (intro Hin; apply Hf; right; exact Hin). rewrite <- app_assoc. reflexivity.
Qed.

(* every field can be read back from the joined text, provided no field contains the separator *)
Theorem split_join l : l <> [] -> Forall free l -> split (join l) = l.
Proof.
  unfold split. induction l as [|x l IH]; intros Hne Hf; [contradiction|].
  inversion Hf as [|? ? Hx Hl]; subst.
  destruct l as [|y l'].
  - cbn [join]. rewrite <- (app_nil_r x) at 1. rewrite split_aux_free by exact Hx. cbn [split_aux]. rewrite app_nil_r, rev_involutive. reflexivity.
  - change (join (x :: y :: l')) with (x ++ sep :: join (y :: l')).
    rewrite split_aux_free by exact Hx. cbn [split_aux]. rewrite Ascii.eqb_refl, app_nil_r, rev_involutive.
    rewrite IH; [reflexivity|discriminate|exact Hl].
Qed.
End Join.
