(* C10 - the grammar file is read faithfully whatever its layout *)
From Coq Require Import List Arith ZArith Bool Permutation.
Import ListNotations.
From YG Require Import LRBase CompleteDriver LR0Build LR0Complete LASuperset LASubset LAExec LR0More C03Assembly C02Assembly TableCert Resolve PackCore DriverSim Values Oracle Productive SortOrder LexRoundtrip.

(* token level: lexing any rendering (blanks, // and /* */ comments incl. runs of stars) of a token sequence gives back the tokens *)
Theorem C10_lex_roundtrip :
  forall (d : doc) (trail : list sep), wf_doc d trail = true -> lex (render d trail) = map snd d.
Proof. exact LexRoundtrip.lex_render. Qed.
Print Assumptions C10_lex_roundtrip.

From YG Require Import Front FrontUsable.

(* grammar level, on the model of the visitor: whenever the visitor accepts an AST, the rules it hands
   on are exactly the rules of the AST, in order, each with its left-hand side and its right-hand-side
   symbols in order (actions and %prec annotations travel in the same record) *)
Theorem C10_rules_as_written :
  forall (a : ast) (v : visited),
    visit a = inr v ->
    map (fun x : vrule => (v_lhs x, v_rhs x)) (vs_rules v) = map (fun r : ruledef => (r_lhs r, rsyms (r_rhs r))) (a_rules a).
Proof.
  intros a v H. pose proof (FrontUsable.visit_cases a) as C. rewrite H in C. exact (proj2 C).
Qed.
Print Assumptions C10_rules_as_written.

From YG Require Import Lexer LexerRoundtrip.
Close Scope Z_scope.
Open Scope nat_scope.

(* token level, on the lexer model that is compared with Parser/Lex.go token by token on every run: for every token sequence (identifiers, numbers, : | ; < >, %%, character literals, brace-balanced actions, the directive keywords, %union { body } and %{ prologue %}) and every layout - any separators (blanks, tabs, newlines, // comments, /* */ comments incl. runs of stars) between any two tokens, none at all where the two tokens cannot run together - lexing the rendering gives back exactly those tokens (kind, text, and the text that follows, which is how the epilogue is found), then EOF. The %union body and the prologue text are the token values, byte for byte. Not covered by this statement: string literals, the escaped quote literal *)
Theorem C10_lexer_roundtrip :
  forall (d : doc) (trail : list sepr),
         wf_doc d trail ->
         lex (render d trail) =
         (expect d trail ++ [{| t_kind := LxEOF; t_value := []; t_rest := [] |}], Closed).
Proof. exact LexerRoundtrip.lex_render. Qed.
Print Assumptions C10_lexer_roundtrip.

(* non-vacuity: a rule with a doc comment closed by two stars, a literal, a %prec annotation and an action, written without
   any optional blank, meets the hypotheses; the tokens come back *)
From Coq Require Import Ascii.
Open Scope char_scope.
Example C10_lexer_roundtrip_example :
  let d : doc :=
    [([], TkId "a" []); ([], TkPunct PColon); ([SBlock ["*"; " "; "x"; " "; "*"]], TkChar "+");
     ([SWs " "; SLine ["c"]], TkDir DPrec); ([SWs " "], TkId "B" ["1"]); ([], TkAct ["$"; "$"; "}"]); ([], TkPunct PSemi)] in
  forallb (fun x => forallb wf_sep (fst x) && wf_tok (snd x)) d = true /\
  map t_kind (fst (lex (render d [SWs Lexer.nl]))) = [LxIdentifier; LxDefine; LxChar; LxPrec; LxIdentifier; LxActionQuote; LxEnd; LxEOF].
Proof. vm_compute. split; reflexivity. Qed.

From YG Require Import Lexer Front YParser ParserRoundtrip.
Close Scope Z_scope.
Open Scope nat_scope.

(* the parser model reads a token list that spells out a specification (declaration lines of every kind in any order, rule groups with alternatives, symbols, %prec annotations and actions, with or without ;) back into exactly that specification: spec_ast lists the declaration lines in order, one rule per alternative in order with its symbols, action bodies and %prec symbol, the literals first used in rules, and the text after the second %% mark; only kinds and values of the tokens matter *)
Theorem C10_parser_roundtrip :
  forall (sp : spec) (ts : list tok) (fin : tok) (rest : list tok) (fuel : nat),
         Forall2 M ts (spec_kv sp) ->
         spec_ok sp = true ->
         finalk (t_kind fin) = true ->
         2 * length (ts ++ fin :: rest) + 8 <= fuel ->
         parse_tokens fuel (ts ++ fin :: rest) Closed =
         PAst (spec_ast sp (if kind_eqb (t_kind fin) LxSection then t_rest fin else [])).
Proof. exact ParserRoundtrip.parse_spec. Qed.
Print Assumptions C10_parser_roundtrip.

From YG Require Import Lexer Front YParser LexerRoundtrip ParserRoundtrip ParserRoundtripLex.
Close Scope Z_scope.
Open Scope nat_scope.

(* lexer and parser together: a text whose tokens spell out the specification, separated by any blanks, line breaks and comments, is parsed into the AST of the specification *)
Theorem C10_text_roundtrip :
  forall (d : doc) (trail : list sepr) (sp : spec),
         wf_doc d trail ->
         Forall2 ltm (map snd d) (spec_kv sp) ->
         spec_ok sp = true -> parse_text (render d trail) = PAst (spec_ast sp []).
Proof. exact ParserRoundtripLex.parse_render. Qed.
Print Assumptions C10_text_roundtrip.

From YG Require Import Lexer Front YParser LexerRoundtrip ParserRoundtrip ParserRoundtripLex.
Close Scope Z_scope.
Open Scope nat_scope.

(* layout does not matter: the same tokens separated in any two ways give the same result *)
Theorem C10_layout_irrelevant :
  forall (d1 : doc) (t1 : list sepr) (d2 : doc) (t2 : list sepr) (sp : spec),
         wf_doc d1 t1 ->
         wf_doc d2 t2 ->
         map snd d1 = map snd d2 ->
         Forall2 ltm (map snd d1) (spec_kv sp) ->
         spec_ok sp = true -> parse_text (render d1 t1) = parse_text (render d2 t2).
Proof. exact ParserRoundtripLex.layout_irrelevant. Qed.
Print Assumptions C10_layout_irrelevant.

(* the premises are satisfiable: a small grammar, once with single blanks, once with comments and line breaks *)
Example C10_text_roundtrip_example :
  parse_text (render ex_doc1 []) = PAst (spec_ast ex_spec []) /\
  parse_text (render ex_doc2 []) = parse_text (render ex_doc1 []).
Proof. exact (conj (proj1 ex_parsed) (proj1 (proj2 ex_parsed))). Qed.
Print Assumptions C10_text_roundtrip_example.

From YG Require Import Lexer Front YParser ParserRoundtrip ParserRoundtripRules.
Close Scope Z_scope.
Open Scope nat_scope.

(* the rules of that AST in closed form: every alternative of every group is one rule, in order, with exactly its symbols and action bodies in order and its (last) %prec symbol (group_rules) *)
Theorem C10_rules_closed_form :
  forall (sp : spec) (rest : list Ascii.ascii),
         a_rules (spec_ast sp rest) = flat_map group_rules (s_groups sp).
Proof. exact ParserRoundtripRules.spec_ast_rules. Qed.
Print Assumptions C10_rules_closed_form.

From YG Require Import Lexer Front FrontUsable YParser LexerRoundtrip ParserRoundtrip ParserRoundtripLex ParserRoundtripRules.
Close Scope Z_scope.
Open Scope nat_scope.

(* text -> lexer -> parser -> visitor: whenever the front end accepts the text, the rules it hands on are the alternatives written in the text, in order, symbol by symbol, whatever the layout *)
Theorem C10_text_to_rules :
  forall (d : doc) (trail : list sepr) (sp : spec) (v : visited),
         wf_doc d trail ->
         Forall2 ltm (map snd d) (spec_kv sp) ->
         spec_ok sp = true ->
         match parse_text (render d trail) with
         | PAst a => visit a
         | _ => inl FNoStart
         end = inr v ->
         map (fun x : vrule => (v_lhs x, v_rhs x)) (vs_rules v) =
         map (fun r : ruledef => (r_lhs r, rsyms (r_rhs r))) (flat_map group_rules (s_groups sp)).
Proof. exact ParserRoundtripRules.text_rules. Qed.
Print Assumptions C10_text_to_rules.

From YG Require Import Lexer YParser Front ParsedNames.
Close Scope Z_scope.
Open Scope nat_scope.

(* no rule read from a text is headed by a symbol called dollar (identifiers start with a letter or underscore, left-hand sides are identifier tokens) *)
Theorem C10_no_dollar_head :
  forall (s : list Ascii.ascii) (a : ast),
         parse_text s = PAst a -> forall r : ruledef, In r (a_rules a) -> r_lhs r <> dollar_name.
Proof. exact ParsedNames.parse_text_lhs. Qed.
Print Assumptions C10_no_dollar_head.
