(* C10 - the grammar file is read faithfully whatever its layout *)
From Coq Require Import List Arith ZArith Bool Permutation.
Import ListNotations.
From YG Require Import LRBase CompleteDriver LR0Build LR0Complete LASuperset LASubset LAExec LR0More C03Assembly C02Assembly TableCert Resolve PackCore DriverSim Values Oracle Productive SortOrder LexRoundtrip.

(* token level: lexing any rendering (blanks, // and /* */ comments incl. runs of stars) of a token sequence gives back the tokens *)
Theorem C10_lex_roundtrip :
  forall (d : doc) (trail : list sep), wf_doc d trail = true -> lex (render d trail) = map snd d.
Proof. exact LexRoundtrip.lex_render. Qed.
Print Assumptions C10_lex_roundtrip.
