(* C10 - the grammar file is read faithfully whatever its layout *)
From Coq Require Import List Arith ZArith Bool Permutation.
Import ListNotations.
From YG Require Import LRBase CompleteDriver LR0Build LR0Complete LASuperset LASubset LAExec LR0More C03Assembly C02Assembly TableCert Resolve PackCore DriverSim Values Oracle Productive SortOrder LexRoundtrip.

(* token level: lexing any rendering (blanks, // and /* */ comments incl. runs of stars) of a token sequence gives back the tokens *)
Theorem C10_lex_roundtrip :
  forall (d : doc) (trail : list sep), wf_doc d trail = true -> lex (render d trail) = map snd d.
Proof. exact LexRoundtrip.lex_render. Qed.
Print Assumptions C10_lex_roundtrip.

From YG Require Import Front FrontUsable.

(* grammar level, on the model of the visitor: whenever the visitor accepts an AST, the rules it hands
   on are exactly the rules of the AST, in order, each with its left-hand side and its right-hand-side
   symbols in order (actions and %prec annotations travel in the same record) *)
Theorem C10_rules_as_written :
  forall (a : ast) (v : visited),
    visit a = inr v ->
    map (fun x : vrule => (v_lhs x, v_rhs x)) (vs_rules v) = map (fun r : ruledef => (r_lhs r, rsyms (r_rhs r))) (a_rules a).
Proof.
  intros a v H. pose proof (FrontUsable.visit_cases a) as C. rewrite H in C. exact (proj2 C).
Qed.
Print Assumptions C10_rules_as_written.
