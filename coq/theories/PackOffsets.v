(* C05: the third condition of PipelineProofs.packed_lookup_correct (no goto column can land on a negative slot of the packed
   array) follows from the other two as soon as every row of the matrix has, among the terminal columns, a cell that is not the
   error code: that cell, or the error code in column 0, differs from the row's default action, so it is stored explicitly at
   offset + column >= 0 with column <= nterm. *)
From Coq Require Import List Arith ZArith Lia Bool.
Import ListNotations.
From YG Require Import LRBase PackCore Pipeline PipelineProofs.

Section Offsets.
Variables (dense : list (list Z)) (nterm nsyms : nat).
Let nstates := length dense.
Hypothesis Hcols : 0 < nsyms.
Hypothesis Hnz : forall s a, s < nstates -> a < nsyms -> cellz dense s a <> 0%Z.
Hypothesis Hcol0 : forall s, s < nstates -> cellz dense s 0 = err_code nstates.
Hypothesis Hact : forall s, s < nstates -> exists a, a <= nterm /\ a < nsyms /\ cellz dense s a <> err_code nstates.

Theorem offsets_from_actions s : s < nstates ->
  (0 <= nth s (p_off (compress dense nterm nsyms nstates)) 0 + Z.of_nat (S nterm))%Z.
Proof.
  intros Hs.
  set (m := blanked dense nterm nsyms). set (order := row_order m). set (cell := cellz m).
  assert (Hs' : s < length m) by (unfold m; rewrite m_len; exact Hs).
  assert (Hoff : nth s (p_off (compress dense nterm nsyms nstates)) 0%Z = D nsyms cell order s).
  { unfold compress, pack_matrix. fold m. cbv zeta. cbn [p_off]. rewrite nth_map_seq0 by exact Hs'. reflexivity. }
  rewrite Hoff.
  assert (Hex : exists a, a <= nterm /\ a < nsyms /\ cell s a <> 0%Z).
  { pose proof (m_cell dense nterm nsyms s 0 Hs Hcols) as Hm0. fold m in Hm0. fold cell in Hm0.
    destruct (Z.eqb_spec (cellz dense s 0) (default_of dense nterm nsyms s 0)) as [Heq0|Hne0].
    - destruct (Hact s Hs) as (a & Hat & Ha & Hne).
      exists a. split; [exact Hat|]. split; [exact Ha|].
      pose proof (m_cell dense nterm nsyms s a Hs Ha) as Hm. fold m in Hm. fold cell in Hm. rewrite Hm.
      assert (Hd : default_of dense nterm nsyms s a = default_of dense nterm nsyms s 0).
      { unfold default_of. destruct (Nat.leb_spec a nterm) as [_|?]; [|lia]. reflexivity. }
      destruct (Z.eqb_spec (cellz dense s a) (default_of dense nterm nsyms s a)) as [Heq|_]; [|apply Hnz; assumption].
      exfalso. apply Hne. rewrite Heq, Hd, <- Heq0. apply Hcol0. exact Hs.
    - exists 0. split; [lia|]. split; [exact Hcols|]. rewrite Hm0. apply Hnz; assumption. }
  destruct Hex as (a & Hat & Ha & Hc).
  pose proof (lookup_owner (length m) nsyms cell order (row_order_nodup m) (fun k Hk => row_order_full m k Hk) s a Hs' Ha) as [Lnz _].
  cbv zeta in Lnz. destruct (Lnz Hc) as [[Hge _] _]. lia.
Qed.
End Offsets.
