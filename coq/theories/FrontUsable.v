(* C12 on the model: when the front end (Front.visit, Front.build_grammar) refuses a grammar, and why. *)
From Coq Require Import List Arith ZArith Bool Ascii NArith Lia Permutation.
Import ListNotations.
From YG Require Import LRBase Productive Resolve Pipeline Front FrontProofs FrontCodes.
Local Open Scope nat_scope.

(* ---------- productivity as computed by the pipeline ---------- *)
Definition is_term_of (g : grammar) (X : nat) : bool := negb (is_nt_b g X).

Lemma unproductive_in gi X :
  In X (unproductive gi) <->
  X < gi_nsyms gi /\ is_nt_b (gi_rules gi) X = true /\ ~ productive (gi_rules gi) (is_term_of (gi_rules gi)) X.
Proof.
  unfold unproductive. rewrite filter_In, in_seq, andb_true_iff, negb_true_iff.
  set (g := gi_rules gi).
  assert (Hc : forall x, is_nt_b g x = true ->
             (Productive.nmem x (productive_list g) = true <-> productive g (is_term_of g) x)).
  { intros x Hx. rewrite <- (productive_set_correct g (is_term_of g) x). unfold can, productive_list, is_term_of.
    rewrite Hx. cbn [negb orb]. reflexivity. }
  split.
  - intros [[_ Hlt] [Hnt Hn]]. split; [cbn in Hlt; lia|]. split; [exact Hnt|]. intro Hp. apply (Hc X Hnt) in Hp. congruence.
  - intros [Hlt [Hnt Hn]]. split; [lia|]. split; [exact Hnt|].
    destruct (Productive.nmem X (productive_list g)) eqn:E; [|reflexivity]. exfalso. apply Hn. apply (Hc X Hnt). exact E.
Qed.

Lemma productive_dec g it X : productive g it X \/ ~ productive g it X.
Proof.
  destruct (can it (productive_set g it) X) eqn:E.
  - left. apply productive_set_correct. exact E.
  - right. intro H. apply productive_set_correct in H. congruence.
Qed.

(* ---------- build_grammar ---------- *)
Section Build.
Variable v : visited.
Let syms := symbols_of v.
Let n := length syms.
Let declnt (k : nat) : bool := nth k (map s_declnt syms) false.

(* the checks BuildLALR1 performs after the symbols and rules have been created, on the rule list `rules` *)
Definition norule_list (rules : list rule) : list nat := filter (fun k => declnt k && negb (is_lhs rules k)) (seq 0 n).

Lemma build_grammar_cases :
  match build_grammar v with
  | inr b =>
      (* accepted: every symbol marked nonterminal has a rule and derives a terminal string *)
      norule_list (gi_rules (b_gi b)) = [] /\
      (forall X, X < n -> is_nt_b (gi_rules (b_gi b)) X = true -> productive (gi_rules (b_gi b)) (is_term_of (gi_rules (b_gi b))) X) /\
      gi_nsyms (b_gi b) = n
  | inl (FNoRule nm) =>
      exists s0 rs k, sym_index (skipn 2 syms) (vs_start v) = Some s0 /\ map_opt (build_rule syms) (vs_rules v) = Some rs /\
        In k (norule_list (Build_rule 0 [S (S s0)] :: map fst rs)) /\ nm = s_name (nth k syms (mkGsym [] 0%Z [] false 0%Z Resolve.NONE))
  | inl (FUnproductive l) =>
      exists s0 rs, sym_index (skipn 2 syms) (vs_start v) = Some s0 /\ map_opt (build_rule syms) (vs_rules v) = Some rs /\
        let rules := Build_rule 0 [S (S s0)] :: map fst rs in
        norule_list rules = [] /\ l <> [] /\
        (forall X, In X l <-> X < n /\ is_nt_b rules X = true /\ ~ productive rules (is_term_of rules) X)
  | inl FNoStart =>
      sym_index (skipn 2 syms) (vs_start v) = None \/ map_opt (build_rule syms) (vs_rules v) = None
  | inl _ => False
  end.
Proof.
  unfold build_grammar. fold syms.
  destruct (sym_index (skipn 2 syms) (vs_start v)) as [s0|] eqn:Es; [|left; reflexivity].
  destruct (map_opt (build_rule syms) (vs_rules v)) as [rs|] eqn:Er; [|right; reflexivity].
  cbv zeta. fold n.
  set (rules := Build_rule 0 [S (S s0)] :: map fst rs).
  change (filter (fun k : nat => nth k (map s_declnt syms) false && negb (is_lhs rules k)) (seq 0 n)) with (norule_list rules).
  destruct (norule_list rules) as [|k rest] eqn:En.
  - set (gi := {| gi_rules := rules; gi_nsyms := n; gi_nterm := _; gi_sprec := _; gi_rprec := _ |}).
    destruct (unproductive gi) as [|x l] eqn:Eu.
    + cbn [b_gi]. split; [exact En|]. split; [|reflexivity]. change (gi_rules gi) with rules.
      intros X HX Hnt. destruct (productive_dec rules (is_term_of rules) X) as [Hp|Hnp]; [exact Hp|].
      exfalso. assert (Hin : In X (unproductive gi)) by (apply unproductive_in; change (gi_rules gi) with rules; change (gi_nsyms gi) with n; auto).
      rewrite Eu in Hin. destruct Hin.
    + exists s0, rs. split; [reflexivity|]. split; [reflexivity|]. cbv zeta. fold rules. split; [exact En|]. split; [discriminate|].
      intro X. rewrite <- Eu. rewrite unproductive_in. change (gi_rules gi) with rules; change (gi_nsyms gi) with n. reflexivity.
  - exists s0, rs, k. split; [reflexivity|]. split; [reflexivity|]. fold rules. rewrite En. split; [left; reflexivity|reflexivity].
Qed.
End Build.

(* ---------- the visitor: undefined symbols, and the rules exactly as written ---------- *)
Fixpoint rsyms (es : list relem) : list name :=
  match es with [] => [] | RSym n :: es' => n :: rsyms es' | RAct _ :: es' => rsyms es' end.
Lemma rsyms_in es n : In n (rsyms es) <-> In (RSym n) es.
Proof.
  induction es as [|e es IH]; cbn [rsyms In]; [reflexivity|]. destruct e as [m|c]; cbn [In]; rewrite IH.
  - split; intros [H|H]; auto; left; congruence.
  - split; [auto|intros [H|H]; [discriminate|exact H]].
Qed.

Lemma scan_rhs_spec tab pl : forall es syms prec act,
  match scan_rhs tab pl es syms prec act with
  | inl e => exists n, e = FUndefined n /\ In (RSym n) es /\ tab_usable tab n = false
  | inr (syms', _, _) => (forall n, In (RSym n) es -> tab_usable tab n = true) /\ syms' = syms ++ rsyms es
  end.
Proof.
  induction es as [|e es IH]; intros syms prec act; cbn [scan_rhs].
  - split; [intros n []|rewrite app_nil_r; reflexivity].
  - destruct e as [n|c].
    + destruct (tab_usable tab n) eqn:Eh.
      * specialize (IH (syms ++ [n]) (match pre_map pl n with Some _ => Some n | None => prec end) act).
        destruct (scan_rhs tab pl es (syms ++ [n]) _ act) as [e|[[syms' p'] a']].
        -- destruct IH as (m & -> & Hin & Hh). exists m. split; [reflexivity|]. split; [right; exact Hin|exact Hh].
        -- destruct IH as [Hall ->]. split.
           ++ intros m [Hm|Hm]; [inversion Hm; subst; exact Eh|apply Hall; exact Hm].
           ++ cbn [rsyms]. rewrite <- app_assoc. reflexivity.
      * exists n. split; [reflexivity|]. split; [left; reflexivity|exact Eh].
    + specialize (IH syms prec c). destruct (scan_rhs tab pl es syms prec c) as [e|[[syms' p'] a']].
      * destruct IH as (m & -> & Hin & Hh). exists m. split; [reflexivity|]. split; [right; exact Hin|exact Hh].
      * destruct IH as [Hall ->]. split; [|reflexivity]. intros m [Hm|Hm]; [discriminate|apply Hall; exact Hm].
Qed.

Lemma visit_rules_list_spec tab pl : forall rs,
  match visit_rules_list tab pl rs with
  | inl e => exists n r, e = FUndefined n /\ In r rs /\ In (RSym n) (r_rhs r) /\ tab_usable tab n = false
  | inr vs => (forall r n, In r rs -> In (RSym n) (r_rhs r) -> tab_usable tab n = true) /\
              map (fun x => (v_lhs x, v_rhs x)) vs = map (fun r => (r_lhs r, rsyms (r_rhs r))) rs
  end.
Proof.
  induction rs as [|r rs IH]; cbn [visit_rules_list].
  - split; [intros r n []|reflexivity].
  - unfold visit_rule. pose proof (scan_rhs_spec tab pl (r_rhs r) [] None []) as Hs.
    destruct (scan_rhs tab pl (r_rhs r) [] None []) as [e|[[syms p] a]].
    + destruct Hs as (n & -> & Hin & Hh). exists n, r. split; [reflexivity|]. split; [left; reflexivity|]. split; assumption.
    + destruct Hs as [Hall Hsy]. cbn [app] in Hsy. subst syms.
      destruct (visit_rules_list tab pl rs) as [e|vs].
      * destruct IH as (n & r' & -> & Hr & Hin & Hh). exists n, r'. split; [reflexivity|]. split; [right; exact Hr|]. split; assumption.
      * destruct IH as [Hall' Hmap]. split.
        -- intros r' n [<-|Hr] Hin; [apply Hall; exact Hin|apply (Hall' r' n Hr Hin)].
        -- cbn [map v_lhs v_rhs]. rewrite Hmap. reflexivity.
Qed.

(* C12/C10 on the visitor model: the only refusals are an unknown precedence symbol (which the parser
   never produces: it declares every symbol of a precedence line) and an undefined right-hand-side
   symbol; when the visitor succeeds, every right-hand-side symbol is known and the rules are exactly
   the rules written, in order, with their symbols in order *)
Theorem visit_cases a :
  match visit a with
  | inl (FUndefined n) => exists r, In r (a_rules a) /\ In (RSym n) (r_rhs r)
  | inl (FPrecUnknown n) => exists line, In line (d_precs (a_decl a)) /\ In n (map pd_name line)
  | inl _ => False
  | inr v => (forall r n, In r (a_rules a) -> In (RSym n) (r_rhs r) -> tab_usable (vs_tab v) n = true) /\
             map (fun x => (v_lhs x, v_rhs x)) (vs_rules v) = map (fun r => (r_lhs r, rsyms (r_rhs r))) (a_rules a)
  end.
Proof.
  unfold visit. destruct (visit_decl (a_decl a)) as [e|s] eqn:Ed.
  - (* only add_precs can fail *)
    unfold visit_decl in Ed.
    destruct (add_precs _ (d_precs (a_decl a))) as [e'|s3] eqn:Ep; [|destruct (number_auto _ _ _); discriminate].
    inversion Ed; subst e'. clear Ed.
    revert Ep. generalize (fold_left add_type (d_types (a_decl a)) (fold_left add_token (concat (d_tokens (a_decl a))) (mkDstate [] 2%Z 0 []))).
    induction (d_precs (a_decl a)) as [|line lines IH]; intros s0 Ep; cbn [add_precs] in Ep; [discriminate|].
    destruct (add_prec_line (ds_tab s0) (S (ds_precidx s0)) line (ds_prelist s0)) as [e'|pl] eqn:El.
    + inversion Ep; subst e'. clear Ep.
      assert (Hl : forall tab idx line acc e0, add_prec_line tab idx line acc = inl e0 -> exists n, e0 = FPrecUnknown n /\ In n (map pd_name line)).
      { clear. intros tab idx line. induction line as [|p line IH]; intros acc e0 H; cbn [add_prec_line] in H; [discriminate|].
        destruct (tab_has tab (pd_name p)).
        - apply IH in H. destruct H as (n & -> & Hn). exists n. split; [reflexivity|right; exact Hn].
        - inversion H. exists (pd_name p). split; [reflexivity|left; reflexivity]. }
      apply Hl in El. destruct El as (n & -> & Hn). exists line. split; [left; reflexivity|exact Hn].
    + apply IH in Ep. destruct e; try exact Ep. destruct Ep as (l & Hl & Hn). exists l. split; [right; exact Hl|exact Hn].
  - destruct (add_lhs (ds_tab s) (ds_max s) (a_rules a)) as [tab mx].
    pose proof (visit_rules_list_spec tab (ds_prelist s) (a_rules a)) as Hs.
    destruct (visit_rules_list tab (ds_prelist s) (a_rules a)) as [e|vs].
    + destruct Hs as (n & r & -> & Hr & Hin & _). exists r. split; assumption.
    + cbn [vs_tab vs_rules]. exact Hs.
Qed.
