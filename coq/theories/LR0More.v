(* Originally a design-phase spike: further invariants of the LR(0) construction of Spike3 that the
   lookahead theorems use as hypotheses: duplicate-free item lists, well-formed dots, distinct goto
   keys, every edge justified by an item, every state entered from a smaller one (hence reachable),
   items of a state = inductive closure of its kernel. *)
From Coq Require Import List Arith Lia Bool FinFun.
Import ListNotations.
From YG Require Import LRBase CompleteDriver LR0Build LR0Complete LASuperset LASubset.

Section More.
Variable g : grammar.

(* ---- closure: inductive characterisation, NoDup, valid dots ---- *)
Lemma closure_in K x : In x (closure g K) -> in_closure g K x.
Proof.
  unfold closure. rewrite isort_In.
  assert (H : forall fuel I, (forall y, In y I -> in_closure g K y) -> forall y, In y (closure_iter fuel g I) -> in_closure g K y).
  { induction fuel as [|f IH]; intros I HI y Hy; simpl in Hy; auto.
    destruct (Nat.eqb _ _); auto. eapply IH; [|exact Hy].
    intros z Hz. unfold closure_round in Hz. apply add_new_In in Hz. destruct Hz as [Hz|Hz]; auto.
    apply in_flat_map in Hz. destruct Hz as (it & Hit & Hz). eapply ic_s; eauto. }
  apply H. intros y Hy. apply ic_k; auto.
Qed.

Lemma insert_nodup x l : ~ In x l -> NoDup l -> NoDup (insert x l).
Proof.
  induction l as [|y l IH]; simpl; intros Hx Hl; [constructor; auto; constructor|].
  destruct (item_leb x y); [constructor; auto|].
  inversion Hl; subst. constructor.
  - rewrite insert_In. intros [->|H]; [apply Hx; left; auto|contradiction].
  - apply IH; auto.
Qed.
Lemma isort_nodup l : NoDup l -> NoDup (isort l).
Proof. induction 1; simpl; [constructor|]. apply insert_nodup; auto. rewrite isort_In; auto. Qed.
Lemma closure_iter_nodup fuel : forall I, NoDup I -> NoDup (closure_iter fuel g I).
Proof. induction fuel as [|f IH]; intros I H; simpl; auto. destruct (Nat.eqb _ _); auto. apply IH. apply add_new_nodup; auto. Qed.
Lemma closure_nodup K : NoDup K -> NoDup (closure g K).
Proof. intros H. apply isort_nodup, closure_iter_nodup; auto. Qed.

Definition valid_item (x : item) : Prop := snd x <= length (rhs_of g (fst x)) /\ fst x < length g.
Lemma closure_valid K : (forall x, In x K -> valid_item x) -> forall x, In x (closure g K) -> valid_item x.
Proof.
  intros HK x Hx. apply closure_sound in Hx. destruct Hx as [Hx|(Hd & Hr & _)]; auto.
  split; [rewrite Hd; lia|auto].
Qed.

Lemma advance_nodup I X : NoDup I -> NoDup (advance g I X).
Proof.
  intros H. unfold advance. apply Injective_map_NoDup; [|apply NoDup_filter; auto].
  intros [r d] [r' d'] E. simpl in E. inversion E; auto.
Qed.
Lemma advance_valid I X : (forall x, In x I -> valid_item x) -> forall x, In x (advance g I X) -> valid_item x.
Proof.
  intros HI x Hx. unfold advance in Hx. apply in_map_iff in Hx. destruct Hx as ([r d] & <- & Hf).
  apply filter_In in Hf. destruct Hf as [Hin Hn]. destruct (HI _ Hin) as [_ Hr]. split; auto. simpl.
  unfold has_next, next_sym in Hn. simpl in Hn. destruct (nth_error (rhs_of g r) d) eqn:E; [|discriminate].
  change (d < length (rhs_of g r)). apply nth_error_Some. rewrite E. discriminate.
Qed.

(* ---- keys of the goto list built by register ---- *)
Lemma syms_after_aux_nodup I : forall acc, NoDup acc -> NoDup (syms_after_aux g I acc).
Proof.
  induction I as [|it I IH]; intros acc H; simpl; auto.
  destruct (next_sym g it) as [X|]; auto. destruct (LR0Build.nmem X acc) eqn:E; auto. apply IH.
  apply NoDup_rev in H. rewrite <- (rev_involutive (acc ++ [X])). apply NoDup_rev. rewrite rev_app_distr. simpl.
  constructor; auto. intros Hin. apply in_rev in Hin.
  assert (LR0Build.nmem X acc = true).
  { clear - Hin. induction acc as [|y acc IHa]; simpl in *; [tauto|]. destruct Hin as [->|Hin]; [rewrite Nat.eqb_refl; auto|]. rewrite IHa by auto. apply orb_true_r. }
  congruence.
Qed.
Lemma register_keys_exact I Xs : forall sts gts sts' gts', register g I Xs sts gts = (sts', gts') -> map fst gts' = map fst gts ++ Xs.
Proof.
  induction Xs as [|X Xs IH]; intros sts gts sts' gts' H; simpl in H.
  - inversion H; subst. rewrite app_nil_r. auto.
  - destruct (find_state _ _ _); apply IH in H; rewrite H, map_app, <- app_assoc; reflexivity.
Qed.
Lemma NoDup_keys_assoc (l : list (nat * nat)) k v : NoDup (map fst l) -> In (k, v) l -> assoc k l = Some v.
Proof.
  induction l as [|[k' v'] l IH]; simpl; [tauto|]. intros Hnd [Heq|Hin].
  - inversion Heq; subst. rewrite Nat.eqb_refl; auto.
  - inversion Hnd; subst. destruct (Nat.eqb_spec k k'); [subst|auto].
    exfalso. apply H1. apply in_map_iff. exists (k', v); auto.
Qed.

(* ---- the second invariant ---- *)
Definition inv2 (sts : list state) (i : nat) : Prop :=
  (forall q, i <= q -> gotos (st sts q) = []) /\
  (forall q, q < length sts -> NoDup (items (st sts q)) /\ forall x, In x (items (st sts q)) -> valid_item x) /\
  (forall q, NoDup (map fst (gotos (st sts q)))) /\
  (forall q X q', goto sts q X = Some q' -> exists it, In it (items (st sts q)) /\ next_sym g it = Some X) /\
  (forall q, 0 < q < length sts -> exists p X, p < q /\ goto sts p X = Some q).

Lemma register_gts_mono I Xs : forall sts gts sts' gts' pr, register g I Xs sts gts = (sts', gts') -> In pr gts -> In pr gts'.
Proof.
  induction Xs as [|X Xs IH]; intros sts gts sts' gts' pr H Hin; simpl in H.
  - inversion H; subst; auto.
  - destruct (find_state _ _ _); eapply IH; eauto; apply in_or_app; auto.
Qed.

(* what register adds, in the form needed here *)
Lemma register_more I Xs : forall sts gts sts' gts', register g I Xs sts gts = (sts', gts') ->
  NoDup I -> (forall x, In x I -> valid_item x) ->
  exists ext, sts' = sts ++ ext /\
    (forall s, In s ext -> gotos s = [] /\ NoDup (items s) /\ forall x, In x (items s) -> valid_item x) /\
    (forall j, length sts <= j < length sts' -> exists X, In (X, j) gts').
Proof.
  induction Xs as [|X Xs IH]; intros sts gts sts' gts' H HI HV; simpl in H.
  - inversion H; subst. exists []. rewrite app_nil_r. split; auto. split; [intros s []|intros j Hj; lia].
  - destruct (find_state (closure g (advance g I X)) sts 0) as [j0|].
    + destruct (IH _ _ _ _ H HI HV) as (ext & -> & Hext & Hnew). exists ext. auto.
    + destruct (IH _ _ _ _ H HI HV) as (ext & -> & Hext & Hnew).
      exists ({| items := closure g (advance g I X); gotos := [] |} :: ext). rewrite <- app_assoc. split; auto. split.
      * intros s [<-|Hs]; auto. simpl. split; auto. split.
        -- apply closure_nodup, advance_nodup; auto.
        -- apply closure_valid. apply advance_valid; auto.
      * intros j Hj. rewrite app_length in Hj. simpl in Hj.
        destruct (Nat.eq_dec j (length sts)) as [->|Hne].
        -- exists X. eapply register_gts_mono; [exact H|]. apply in_or_app. right. left. reflexivity.
        -- apply Hnew. rewrite !app_length. simpl. lia.
Qed.


Lemma step_inv2 sts i s sts' gts : inv2 sts i -> nth_error sts i = Some s ->
  register g (items s) (syms_after g (items s)) sts [] = (sts', gts) ->
  inv2 (set_gotos sts' i gts) (S i).
Proof.
  intros (H0 & Hit & Hk & Hj & Hin) Hs Hreg.
  assert (Hi : i < length sts) by (apply nth_error_Some; congruence).
  assert (Hsti : st sts i = s) by (unfold st; apply nth_error_nth; auto).
  destruct (Hit i Hi) as [HndI HvI]. rewrite Hsti in HndI, HvI.
  destruct (register_more _ _ _ _ _ _ Hreg HndI HvI) as (ext & -> & Hext & Hnew).
  pose proof (register_keys_exact _ _ _ _ _ _ Hreg) as Hkeys. simpl in Hkeys.
  assert (Hgk : NoDup (map fst gts)) by (rewrite Hkeys; apply syms_after_aux_nodup; constructor).
  assert (Hlt : (i <? length (sts ++ ext)) = true) by (apply Nat.ltb_lt; rewrite app_length; lia).
  assert (Hext_st : forall q, length sts <= q -> gotos (st (sts ++ ext) q) = [] /\
            (q < length (sts ++ ext) -> NoDup (items (st (sts ++ ext) q)) /\ forall x, In x (items (st (sts ++ ext) q)) -> valid_item x)).
  { intros q Hq. destruct (Nat.lt_ge_cases q (length (sts ++ ext))) as [Hql|Hqg].
    - assert (Hq_in : In (st (sts ++ ext) q) ext).
      { unfold st. rewrite app_nth2 by lia. apply nth_In. rewrite app_length in Hql. lia. }
      destruct (Hext _ Hq_in) as (A & B & C0). split; auto.
    - rewrite st_out by lia. simpl. split; auto. intros; lia. }
  unfold inv2. rewrite set_gotos_length.
  split; [|split; [|split; [|split]]].
  - intros q Hq. rewrite set_gotos_gotos. destruct (Nat.eqb_spec q i); [lia|]. simpl.
    destruct (Nat.lt_ge_cases q (length sts)); [rewrite st_app by lia; apply H0; lia|apply Hext_st; lia].
  - intros q Hq. rewrite set_gotos_items.
    destruct (Nat.lt_ge_cases q (length sts)); [rewrite st_app by lia; apply Hit; auto|apply Hext_st; auto; lia].
  - intros q. rewrite set_gotos_gotos. destruct (Nat.eqb_spec q i); simpl; [rewrite Hlt; auto|].
    destruct (Nat.lt_ge_cases q (length sts)); [rewrite st_app by lia; apply Hk|].
    destruct (Hext_st q ltac:(lia)) as [E _]. rewrite E. constructor.
  - intros q X q' Hg. unfold goto in Hg. rewrite set_gotos_gotos in Hg. rewrite set_gotos_items.
    destruct (Nat.eqb_spec q i) as [->|Hne]; simpl in Hg.
    + rewrite Hlt in Hg. rewrite st_app, Hsti by lia.
      assert (HX : In X (syms_after g (items s))).
      { rewrite <- Hkeys. apply assoc_In in Hg. apply in_map_iff. exists (X, q'); auto. }
      apply syms_after_aux_spec in HX. destruct HX as [[]|HX]; auto.
    + destruct (Nat.lt_ge_cases q (length sts)).
      * rewrite st_app in * by lia. eapply Hj; eauto.
      * destruct (Hext_st q ltac:(lia)) as [E _]. rewrite E in Hg. discriminate.
  - intros q Hq. rewrite app_length in Hq.
    destruct (Nat.lt_ge_cases q (length sts)) as [Hql|Hqg].
    + destruct (Hin q ltac:(lia)) as (p & X & Hp & Hg). exists p, X. split; auto.
      unfold goto in *. rewrite set_gotos_gotos.
      destruct (Nat.eqb_spec p i) as [->|Hne]; simpl.
      * rewrite (H0 i (le_n _)) in Hg. discriminate.
      * rewrite st_app by lia. exact Hg.
    + destruct (Hnew q) as (X & HX); [rewrite app_length; lia|].
      exists i, X. split; [lia|]. unfold goto. rewrite set_gotos_gotos, Nat.eqb_refl, Hlt. simpl.
      apply NoDup_keys_assoc; auto.
Qed.

Lemma build_loop_inv2 fuel : forall sts i aut, inv2 sts i -> build_loop fuel g sts i = Some aut -> inv2 aut (length aut).
Proof.
  induction fuel as [|f IH]; intros sts i aut Hinv Hb; simpl in Hb; [discriminate|].
  destruct (nth_error sts i) as [s|] eqn:Hs.
  - destruct (register g (items s) (syms_after g (items s)) sts []) as [sts' gts] eqn:Hreg.
    eapply IH; [|exact Hb]. eapply step_inv2; eauto.
  - inversion Hb; subst aut. apply nth_error_None in Hs.
    destruct Hinv as (A & B & C0 & D & E). unfold inv2. split; auto.
    intros q Hq. rewrite st_out by lia. reflexivity.
Qed.

Hypothesis g_nonempty : 0 < length g.
Hypothesis rule0_nonempty : 0 < length (rhs_of g 0) \/ True.

Lemma inv2_init : inv2 [{| items := closure g [(0, 0)]; gotos := [] |}] 0.
Proof.
  unfold inv2. simpl. split; [|split; [|split; [|split]]].
  - intros [|[|q]] _; reflexivity.
  - intros q Hq. assert (q = 0) by lia. subst q. unfold st. simpl. split.
    + apply closure_nodup. constructor; [intros []|constructor].
    + apply closure_valid. intros x [<-|[]]. split; simpl; lia.
  - intros [|[|q]]; simpl; constructor.
  - intros [|[|q]] X q' H; discriminate.
  - intros q Hq. lia.
Qed.

(* consequences for the finished automaton *)
Theorem build_more aut : build g = Some aut ->
  (forall q x, In x (items (st aut q)) -> valid_item x) /\
  (forall q, NoDup (items (st aut q))) /\
  (forall q X q', goto aut q X = Some q' -> exists it, In it (items (st aut q)) /\ next_sym g it = Some X) /\
  (forall q, q < length aut -> exists gamma, path aut 0 gamma q).
Proof.
  intros Hb. pose proof (build_loop_inv2 _ _ _ _ inv2_init Hb) as (H0 & Hit & Hk & Hj & Hin).
  split; [|split; [|split]]; auto.
  - intros q x Hx. destruct (Nat.lt_ge_cases q (length aut)); [apply (Hit q); auto|rewrite st_out in Hx by lia; destruct Hx].
  - intros q. destruct (Nat.lt_ge_cases q (length aut)); [apply (Hit q); auto|rewrite st_out by lia; constructor].
  - intros q. induction q as [q IH] using lt_wf_ind. intros Hq.
    destruct (Nat.eq_dec q 0) as [->|Hne]; [exists []; reflexivity|].
    destruct (Hin q ltac:(lia)) as (p & X & Hp & Hg). destruct (IH p Hp ltac:(lia)) as (gamma & Hpath).
    exists (gamma ++ [X]). eapply path_app; eauto.
Qed.

End More.
Print Assumptions build_more.
