(* No rule read from a text is headed by a symbol literally called "$": the lexer's identifiers start with a letter or "_"
   (after whatever stray "%" or "$x" was carried into the word, which makes the word longer than one byte), and the parser
   takes left-hand sides from identifier tokens only.  This discharges the hypothesis of FrontWf.front_wf for every text. *)
From Coq Require Import List Arith ZArith Bool Ascii NArith Lia.
Import ListNotations.
From YG Require Import Lexer LexerProofs Front YParser YParserProofs.
Local Open Scope char_scope.

Definition good (t : tok) : Prop := t_kind t = LxIdentifier -> t_value t <> dollar_name.

(* ---------- the lexer ---------- *)
Lemma ident_not_dollar carry c cs : (is_letter c || Ascii.eqb c "_") = true -> carry ++ c :: cs <> dollar_name.
Proof.
  intros Hc H. unfold dollar_name in H. destruct carry as [|x [|y l]]; cbn [app] in H.
  - inversion H; subst c. vm_compute in Hc. discriminate.
  - inversion H.
  - inversion H.
Qed.

Lemma lex_step_good carry s :
  match lex_step carry s with Done ts _ => Forall good ts | Cont ts _ _ => Forall good ts end.
Proof.
  unfold lex_step, errtok.
  repeat match goal with
         | |- context [if is_letter ?c || Ascii.eqb ?c "_" then _ else _] => let E := fresh "Eid" in destruct (is_letter c || Ascii.eqb c "_") eqn:E
         | |- context [if ?b then _ else _] => destruct b
         | |- context [match ?r with [] => _ | _ :: _ => _ end] => destruct r
         | |- context [match block_comment ?b ?x with _ => _ end] => destruct (block_comment b x)
         | |- context [match code_end ?x with _ => _ end] => destruct (code_end x) as [[? ?]|]
         | |- context [match directive_word ?x with _ => _ end] => let E := fresh "E" in destruct (directive_word x) as [[k ?]|] eqn:E
         | |- context [match union_body ?x with _ => _ end] => destruct (union_body x) as [[? ?]|]
         | |- context [let '(_, _) := take_while ?f ?x in _] => destruct (take_while f x) as [? ?]
         | |- context [match accept_alpha_word ?w ?x with _ => _ end] => destruct (accept_alpha_word w x)
         | |- context [match string_body ?x with _ => _ end] => destruct (string_body x) as [[? ?]|]
         | |- context [match braces ?d ?x with _ => _ end] => destruct (braces d x) as [[? ?]|]
         end;
  repeat (apply Forall_cons; [unfold good; cbn [t_kind t_value]; intro Hk; try discriminate Hk|]); try apply Forall_nil.
  (* the identifier itself *)
  all: try (apply ident_not_dollar; assumption).
  (* the directive keywords: none of them is an identifier *)
  all: unfold directive_word in E;
       repeat match type of E with
              | context [accept_alpha_word ?w ?x] => destruct (accept_alpha_word w x); [inversion E; subst; discriminate|]
              end; discriminate E.
Qed.

Lemma lex_root_good : forall fuel carry s, Forall good (fst (lex_root fuel carry s)).
Proof.
  induction fuel as [|f IH]; intros carry s; cbn [lex_root].
  - cbn [fst]. apply Forall_cons; [intro H; discriminate H|apply Forall_nil].
  - pose proof (lex_step_good carry s) as Hs.
    destruct (lex_step carry s) as [ts tl|ts c' rest]; [exact Hs|].
    specialize (IH c' rest). destruct (lex_root f c' rest) as [ts' tl]. cbn [fst] in *. apply Forall_app. split; assumption.
Qed.
Lemma lex_good s : Forall good (fst (lex s)).
Proof. apply lex_root_good. Qed.

(* ---------- the parser state ---------- *)
Record G (p : pstate) : Prop := mkG { g_cur : good (p_cur p); g_a0 : good (p_a0 p); g_a1 : good (p_a1 p); g_strm : Forall good (p_strm p) }.

Lemma good_zero : good zero_tok. Proof. intro H; discriminate H. Qed.
Lemma good_eof : good eof_tok. Proof. intro H; discriminate H. Qed.
Lemma good_err : good errtok. Proof. intro H; discriminate H. Qed.

Lemma G_pnext p : G p -> G (pnext p).
Proof.
  intros [Hc H0 H1 Hs]. unfold pnext. destruct (p_pc p) as [|k].
  - unfold next_token. destruct (p_strm p) as [|t rest].
    + destruct (p_tail p); constructor; cbn; auto using good_eof, good_err.
    + inversion Hs; subst. constructor; cbn; auto.
  - constructor; cbn; auto. destruct k as [|[|k]]; cbn; auto using good_zero.
Qed.
Lemma G_pbackup p : G p -> G (pbackup p).
Proof. intros [Hc H0 H1 Hs]. constructor; cbn; auto. Qed.
Lemma G_pbackup2 p t : good t -> G p -> G (pbackup2 p t).
Proof. intros Ht [Hc H0 H1 Hs]. constructor; cbn; auto. Qed.
Lemma G_perror p : G p -> G (perror p).
Proof. intros [Hc H0 H1 Hs]. constructor; cbn; auto. Qed.
Lemma G_pdef p n : G p -> G (pdef p n).
Proof. intros [Hc H0 H1 Hs]. constructor; cbn; auto. Qed.
Lemma G_pexpect p k : G p -> G (pexpect p k).
Proof. intros H. unfold pexpect. destruct (cur_is p k); [apply G_pnext|apply G_perror]; exact H. Qed.

Ltac gs := repeat first [assumption | apply G_pnext | apply G_pbackup | apply G_perror | apply G_pdef | apply G_pexpect | apply G_pbackup2; [apply g_cur|]].

Lemma G_parse_tag p : G p -> G (snd (parse_tag p)).
Proof. intros H. unfold parse_tag. destruct (cur_is p LxLAngle); cbn [snd]; gs. Qed.

Lemma G_tokendef_loop : forall fuel tag p acc, G p -> match tokendef_loop fuel tag p acc with POk _ p' => G p' | PFuel => True end.
Proof.
  induction fuel as [|f IH]; intros tag p acc H; cbn [tokendef_loop]; [exact I|].
  destruct (cur_is p LxIdentifier).
  - destruct (cur_is (pnext p) LxNumber); [apply IH; gs|].
    destruct (cur_is (pnext p) LxChar || cur_is (pnext p) LxString); apply IH; gs.
  - destruct (cur_is p LxChar); [apply IH; gs|exact H].
Qed.
Lemma G_parse_tokendef fuel p : G p -> match parse_tokendef fuel p with POk _ p' => G p' | PFuel => True end.
Proof.
  intros H. unfold parse_tokendef. pose proof (G_parse_tag (pnext p) ltac:(gs)) as Ht.
  destruct (parse_tag (pnext p)) as [tag p1]. cbn [snd] in Ht. apply G_tokendef_loop. exact Ht.
Qed.

Lemma G_prec_loop : forall fuel tag assoc p toks acc, G p -> match prec_loop fuel tag assoc p toks acc with POk _ p' => G p' | PFuel => True end.
Proof.
  induction fuel as [|f IH]; intros tag assoc p toks acc H; cbn [prec_loop]; [exact I|].
  destruct (cur_is (pnext p) LxIdentifier || cur_is (pnext p) LxChar); [|gs].
  match goal with |- context [defined ?q ?nm] => destruct (defined q nm) end; apply IH; gs.
Qed.
Lemma G_parse_preclist fuel p : G p -> match parse_preclist fuel p with POk _ p' => G p' | PFuel => True end.
Proof.
  intros H. unfold parse_preclist. pose proof (G_parse_tag (pnext p) ltac:(gs)) as Ht.
  destruct (parse_tag (pnext p)) as [tag p1]. cbn [snd] in Ht. apply G_prec_loop. gs.
Qed.

Lemma G_type_loop : forall fuel tag p acc, G p -> match type_loop fuel tag p acc with POk _ p' => G p' | PFuel => True end.
Proof.
  induction fuel as [|f IH]; intros tag p acc H; cbn [type_loop]; [exact I|].
  destruct (cur_is p LxIdentifier); [apply IH; gs|exact H].
Qed.
Lemma G_parse_typelist fuel p : G p -> match parse_typelist fuel p with POk _ p' => G p' | PFuel => True end.
Proof.
  intros H. unfold parse_typelist.
  assert (Ht : G (snd (if cur_is (pnext p) LxLAngle then parse_tag (pnext p) else ([], perror (pnext p))))).
  { destruct (cur_is (pnext p) LxLAngle); [apply G_parse_tag; gs|cbn [snd]; gs]. }
  destruct (if cur_is (pnext p) LxLAngle then parse_tag (pnext p) else ([], perror (pnext p))) as [tag p1]. cbn [snd] in Ht.
  pose proof (G_type_loop fuel tag p1 [] Ht) as Hl. destruct (type_loop fuel tag p1 []) as [l p2|]; [|exact I].
  destruct l; gs.
Qed.

Lemma G_declare_loop : forall fuel p a, G p -> match declare_loop fuel p a with POk _ p' => G p' | PFuel => True end.
Proof.
  induction fuel as [|f IH]; intros p a H; cbn [declare_loop]; [exact I|].
  destruct (cur_is p LxEOF || cur_is p LxSection); [exact H|].
  destruct (cur_is p LxError); [gs|].
  destruct (cur_is p LxToken).
  { pose proof (G_parse_tokendef f p H) as Ht. destruct (parse_tokendef f p) as [l p1|]; [apply IH; exact Ht|exact I]. }
  destruct (cur_is p LxLeft || cur_is p LxRight || cur_is p LxNone || cur_is p LxPrecedence).
  { pose proof (G_parse_preclist f p H) as Ht. destruct (parse_preclist f p) as [[toks precs] p1|]; [apply IH; exact Ht|exact I]. }
  destruct (cur_is p LxType).
  { pose proof (G_parse_typelist f p H) as Ht. destruct (parse_typelist f p) as [l p1|]; [apply IH; exact Ht|exact I]. }
  destruct (cur_is p LxStart); [|apply IH; gs].
  destruct (cur_is (pnext p) LxIdentifier); apply IH; gs.
Qed.

(* ---------- the rules ---------- *)
Definition headed (lhs : name) (rs : list ruledef) : Prop := Forall (fun r => r_lhs r = lhs) rs.
Definition not_dollar (rs : list ruledef) : Prop := Forall (fun r => r_lhs r <> dollar_name) rs.

Lemma headed_snoc lhs rs rhs prec : headed lhs rs -> headed lhs (rs ++ [mkRuledef 0 lhs rhs prec]).
Proof. intros H. apply Forall_app. split; [exact H|]. apply Forall_cons; [reflexivity|apply Forall_nil]. Qed.

Lemma G_rule_loop : forall fuel lhs p a, G p -> headed lhs (ra_done a) ->
  match rule_loop fuel lhs p a with
  | RSome rs _ p' => G p' /\ headed lhs rs
  | RNone p' => G p'
  | RFuelOut => True
  end.
Proof.
  induction fuel as [|f IH]; intros lhs p a H Hd; cbn [rule_loop]; [exact I|].
  set (pb := pbackup2 (pnext p) (p_cur p)).
  assert (Hb : G pb) by (unfold pb; gs).
  destruct (kind_eqb (t_kind (p_cur p)) LxEnd || (kind_eqb (t_kind (p_cur p)) LxIdentifier && kind_eqb (t_kind (p_cur (pnext p))) LxDefine)).
  { split; [destruct (cur_is (pnext pb) LxEnd); gs|apply headed_snoc; exact Hd]. }
  destruct (cur_is (pnext pb) LxChar).
  { match goal with |- context [defined ?q ?nm] => destruct (defined q nm) end; apply IH; cbn [ra_done]; gs. }
  destruct (cur_is (pnext pb) LxIdentifier); [apply IH; cbn [ra_done]; gs|].
  destruct (cur_is (pnext pb) LxActionQuote); [apply IH; cbn [ra_done]; gs|].
  destruct (cur_is (pnext pb) LxOr); [apply IH; cbn [ra_done]; [gs|apply headed_snoc; exact Hd]|].
  destruct (cur_is (pnext pb) LxPrec).
  { destruct (cur_is (pnext (pnext pb)) LxIdentifier); [apply IH; cbn [ra_done]; gs|].
    destruct (cur_is (pnext (pnext pb)) LxChar); [apply IH; cbn [ra_done]; gs|gs]. }
  split; [gs|apply headed_snoc; exact Hd].
Qed.

Lemma G_parse_rule fuel p : G p ->
  match parse_rule fuel p with
  | RSome rs _ p' => G p' /\ not_dollar rs
  | RNone p' => G p'
  | RFuelOut => True
  end.
Proof.
  intros H. unfold parse_rule. destruct (cur_is p LxIdentifier) eqn:Ec; [|gs].
  assert (Hl : t_value (p_cur p) <> dollar_name) by (apply (g_cur p H); apply kind_eqb_eq; exact Ec).
  pose proof (G_rule_loop fuel (t_value (p_cur p)) (pexpect (pnext p) LxDefine) (mkRA [] [] [] []) ltac:(gs) (Forall_nil _)) as Hr.
  destruct (rule_loop fuel (t_value (p_cur p)) (pexpect (pnext p) LxDefine) (mkRA [] [] [] [])) as [p'|rs toks p'|]; [exact Hr| |exact I].
  destruct Hr as [Hg Hh]. split; [exact Hg|]. unfold not_dollar, headed in *. eapply Forall_impl; [|exact Hh]. cbn. intros r ->. exact Hl.
Qed.

Lemma G_rules_loop : forall fuel p rs toks, G p -> not_dollar rs ->
  match rules_loop fuel p rs toks with Some (rs', _, _) => not_dollar rs' | None => True end.
Proof.
  induction fuel as [|f IH]; intros p rs toks H Hrs; cbn [rules_loop]; [exact I|].
  pose proof (G_parse_rule f p H) as Hp. destruct (parse_rule f p) as [p1|l t p1|]; [exact Hrs| |exact I].
  destruct Hp as [Hg Hl]. apply IH; [exact Hg|]. apply Forall_app. split; assumption.
Qed.

Theorem parse_tokens_lhs fuel ts tl a : Forall good ts -> parse_tokens fuel ts tl = PAst a -> not_dollar (a_rules a).
Proof.
  intros Hts. unfold parse_tokens.
  set (p0 := mkP zero_tok zero_tok zero_tok 0 ts tl false []).
  assert (H0 : G p0) by (constructor; cbn; auto using good_zero).
  pose proof (G_declare_loop fuel (pnext p0) (mkDA [] [] [] [] [] start_default) ltac:(gs)) as Hd.
  destruct (declare_loop fuel (pnext p0) _) as [[d|] p1|]; try discriminate.
  destruct (negb (cur_is p1 LxSection)); [discriminate|].
  pose proof (G_rules_loop fuel (pnext p1) [] [] ltac:(gs) (Forall_nil _)) as Hr.
  destruct (rules_loop fuel (pnext p1) [] []) as [[[rs extra] p2]|]; [|discriminate].
  destruct (negb (cur_is p2 LxSection) && negb (cur_is p2 LxEOF)); [discriminate|].
  intros Ha. inversion Ha; subst a. cbn [a_rules]. exact Hr.
Qed.

Theorem parse_text_lhs s a : parse_text s = PAst a -> forall r, In r (a_rules a) -> r_lhs r <> dollar_name.
Proof.
  unfold parse_text. pose proof (lex_good s) as Hg. destruct (lex s) as [ts tl]. cbn [fst] in Hg.
  intros H. apply parse_tokens_lhs in H; [|exact Hg]. unfold not_dollar in H. rewrite Forall_forall in H. exact H.
Qed.
