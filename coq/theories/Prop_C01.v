(* C01 - every accepted input has a valid derivation *)
From Coq Require Import List Arith ZArith Bool Permutation.
Import ListNotations.
From YG Require Import LRBase CompleteDriver LR0Build LR0Complete LASuperset LASubset LAExec LR0More C03Assembly C02Assembly TableCert Resolve PackCore DriverSim Values Oracle Productive SortOrder LexRoundtrip.

(* the table generated from the constructed automaton, for ANY lookahead function and ANY precedences (hence however conflicts were resolved), drives the abstract LR machine so that an accepted input has a valid parse tree with root the start symbol, yield the whole input and post-order the reductions performed *)
Theorem C01_table_sound :
  forall (g : grammar) (aut : automaton) (la : nat -> nat -> list nat)
           (sprec rprec : nat -> Z * Resolve.assoc),
         (forall q r d : nat, In (r, d) (items (LRBase.st aut q)) -> (r < length g)%nat) ->
         (exists S : nat, rhs_of g 0 = [S]) ->
         (forall q X q' : nat,
          goto aut q X = Some q' ->
          q' <> 0%nat /\
          (forall r d : nat,
           In (r, d) (items (LRBase.st aut q')) ->
           d = 0%nat \/
           (exists d' : nat,
              d = S d' /\ In (r, d') (items (LRBase.st aut q)) /\ nth_error (rhs_of g r) d' = Some X))) /\
         (forall r d : nat, In (r, d) (items (LRBase.st aut 0)) -> d = 0%nat) /\
         (forall q : nat, In (0%nat, 0%nat) (items (LRBase.st aut q)) -> q = 0%nat) /\
         (forall q : nat, goto aut q eof = None) ->
         forall (fuel : nat) (w reds : list nat),
         (forall t : nat, In t w -> t <> eof) ->
         LRBase.run fuel (gen_table g aut la sprec rprec) g [(0%nat, eof)] w [] = Acc reds ->
         exists tr : tree,
           valid g tr /\ Some (root g tr) = hd_error (rhs_of g 0) /\ yield tr = w /\ post tr = reds.
Proof. exact TableCert.C01_model. Qed.
Print Assumptions C01_table_sound.

(* the generated Go/TypeScript driver (stack array + stack pointer, push = overwrite-or-append, Dollar slice) computes exactly what the abstract list-stack machine computes *)
Theorem C01_go_driver :
  forall (tab : table) (g : grammar) (act : semact) (fuel : nat) (s : pst) (inp : list tok) 
           (pos : nat) (reds : list nat),
         ok s -> crun tab g act fuel s inp pos reds = arun tab g act fuel (abs s) inp pos reds.
Proof. exact DriverSim.simulation. Qed.
Print Assumptions C01_go_driver.

(* soundness of the checker that re-executes the reductions reported by a real generated parser *)
Theorem C01_replay_checker :
  forall (g : grammar) (act : semact) (w : list tok) (reds : list (nat * nat)) (v : Z),
         replay g act [] w 0 reds = Some v ->
         exists t : vtree,
           vvalid g t /\
           Some (vroot g t) = hd_error (rhs_of g 0) /\
           vyield t = w /\ vpost t = map fst reds /\ v = veval act t.
Proof. exact Oracle.replay_sound. Qed.
Print Assumptions C01_replay_checker.

From YG Require Import LRBase Pipeline PipelineRun Drivers DriverSim.
Close Scope Z_scope.
Open Scope nat_scope.

(* C01 for the tables the pipeline actually emits: for every grammar object on which generate_tables succeeds (grammar well-formedness facts as hypotheses), the dense matrix it produces - the one written into the -u and TypeScript outputs and compared cell by cell with the implementation on every run - drives the LR machine so that every accepted token string has a valid parse tree with root the start symbol, yield the input and post-order the reductions; whatever the lookaheads and however conflicts were resolved *)
Theorem C01_pipeline :
  forall gi : ginfo,
         (forall r d : nat, nth_error (rhs_of (gi_rules gi) r) d <> Some 0) ->
         lhs_of (gi_rules gi) 0 = 0 ->
         (forall r d : nat, nth_error (rhs_of (gi_rules gi) r) d <> Some eof) ->
         (exists S : nat, rhs_of (gi_rules gi) 0 = [S]) ->
         eof < gi_nsyms gi ->
         (forall (r : nat) (R : rule), nth_error (gi_rules gi) r = Some R -> lhs R < gi_nsyms gi) ->
         forall t : tables,
         generate_tables gi = inr t ->
         forall (fuel : nat) (w reds : list nat),
         (forall a : nat, In a w -> a <> eof /\ a < gi_nsyms gi) ->
         run fuel (dense_action (length (t_aut t)) (t_dense t)) (gi_rules gi) [(0, eof)] w [] = Acc reds ->
         exists tr : tree,
           valid (gi_rules gi) tr /\
           Some (root (gi_rules gi) tr) = hd_error (rhs_of (gi_rules gi) 0) /\ yield tr = w /\ post tr = reds.
Proof. exact PipelineRun.pipeline_dense_sound. Qed.
Print Assumptions C01_pipeline.

From YG Require Import LRBase Pipeline Fast.
Close Scope Z_scope.
Open Scope nat_scope.

(* the function the extracted oracle runs (row displacement computed once instead of once per row) is the function of the theorems *)
Theorem C01_oracle_is_the_proved_pipeline :
  forall gi : ginfo, generate_tables_fast gi = generate_tables gi.
Proof. exact Fast.generate_tables_fast_eq. Qed.
Print Assumptions C01_oracle_is_the_proved_pipeline.

From YG Require Import Lexer YParser EndToEnd EndToEndProofs.
Close Scope Z_scope.
Open Scope nat_scope.

(* ... also from the bytes of the grammar file *)
Theorem C01_oracle_text_pipeline :
  forall s : list Ascii.ascii, generate_text_fast s = generate_text s.
Proof. exact EndToEndProofs.generate_text_fast_eq. Qed.
Print Assumptions C01_oracle_text_pipeline.

From YG Require Import LRBase Pipeline Fast.
Close Scope Z_scope.
Open Scope nat_scope.

(* ... and the prefix of the pipeline used for grammars too large for the model's row displacement returns the corresponding fields of generate_tables *)
Theorem C01_oracle_dense_only :
  forall gi : ginfo,
         generate_dense gi = match generate_tables gi with
                             | inl e => inl e
                             | inr t => inr (dense_part t)
                             end.
Proof. exact Fast.generate_dense_spec. Qed.
Print Assumptions C01_oracle_dense_only.

From YG Require Import LRBase CompleteDriver Pipeline WfGrammar.
Close Scope Z_scope.
Open Scope nat_scope.

(* the same under ONE boolean check of the grammar object (WfGrammar.wf_gi: rule 0 is 0 -> [S], no right-hand side mentions the internal start symbol or the end marker, every symbol below nsyms, the end marker is no left-hand side) - the check is evaluated on every grammar object of every run, so the well-formedness hypotheses of C01_pipeline are not assumptions about the corpus *)
Theorem C01_checked :
  forall gi : ginfo,
         wf_gi gi = true ->
         forall t : tables,
         generate_tables gi = inr t ->
         forall (fuel : nat) (w reds : list nat),
         (forall a : nat, In a w -> a <> eof /\ a < gi_nsyms gi) ->
         run fuel (dense_action (length (t_aut t)) (t_dense t)) (gi_rules gi) [(0, eof)] w [] = Acc reds ->
         exists tr : tree,
           valid (gi_rules gi) tr /\
           Some (root (gi_rules gi) tr) = hd_error (rhs_of (gi_rules gi) 0) /\ yield tr = w /\ post tr = reds.
Proof. exact WfGrammar.checked_sound. Qed.
Print Assumptions C01_checked.

From YG Require Import Lexer YParser Front Pipeline EndToEnd EndToEndProofs.
Close Scope Z_scope.
Open Scope nat_scope.

(* from the bytes of the grammar file: tables are generated from a text exactly when the text parses to an AST (C10), the front end turns it into a grammar object (C11, C12) and generate_tables succeeds on that object - so C01_checked, C02_checked, C03_checked, C05..C08 read as statements about the file, with the boolean check wf_gi evaluated on the object *)
Theorem C01_text_link :
  forall (s : list Ascii.ascii) (b : built) (t : tables),
         generate_text s = GOk b t <->
         (exists a : ast, parse_text s = PAst a /\ front a = inr b /\ generate_tables (b_gi b) = inr t).
Proof. exact EndToEndProofs.generate_text_ok. Qed.
Print Assumptions C01_text_link.

From YG Require Import LRBase CompleteDriver LR0Build Resolve Pipeline PipelineRun Front WfGrammar YParser EndToEnd FrontWf ParsedNames EndToEndWf.
Close Scope Z_scope.
Open Scope nat_scope.

(* from the bytes of the grammar file, with no side condition: whenever the model of the whole generator delivers tables for a text, every token string its LR driver accepts has a derivation tree of the grammar object, whose yield is the string and whose reductions in reverse are what the driver performed (the well-formedness of the grammar object is proved, see C01_front_delivers_wellformed) *)
Theorem C01_from_the_text :
  forall (s : list Ascii.ascii) (b : built) (t : tables),
         generate_text s = GOk b t ->
         forall (fuel : nat) (w reds : list nat),
         (forall a : nat, In a w -> a <> eof /\ a < gi_nsyms (b_gi b)) ->
         run fuel (dense_action (length (t_aut t)) (t_dense t)) (gi_rules (b_gi b)) [(0, eof)] w [] = Acc reds ->
         exists tr : tree,
           valid (gi_rules (b_gi b)) tr /\
           Some (root (gi_rules (b_gi b)) tr) = hd_error (rhs_of (gi_rules (b_gi b)) 0) /\
           yield tr = w /\ post tr = reds.
Proof. exact EndToEndWf.text_sound. Qed.
Print Assumptions C01_from_the_text.

From YG Require Import LRBase CompleteDriver LR0Build Resolve Pipeline PipelineRun Front WfGrammar YParser EndToEnd FrontWf ParsedNames EndToEndWf.
Close Scope Z_scope.
Open Scope nat_scope.

(* every grammar object built from a text meets the well-formedness check of the back-end theorems (proved for every AST without a rule headed by a symbol called dollar: FrontWf.front_wf; no text parses to such an AST: ParsedNames.parse_text_lhs). The attempt to prove this found F26 *)
Theorem C01_front_delivers_wellformed :
  forall (s : list Ascii.ascii) (b : built) (t : tables),
         generate_text s = GOk b t -> wf_gi (b_gi b) = true.
Proof. exact EndToEndWf.text_wf. Qed.
Print Assumptions C01_front_delivers_wellformed.

From YG Require Import LRBase CompleteDriver LR0Build Resolve Pipeline PipelineRun Front WfGrammar YParser EndToEnd FrontWf ParsedNames EndToEndWf.
Close Scope Z_scope.
Open Scope nat_scope.

(* the AST-level statement *)
Theorem C01_front_wf_ast :
  forall (a : ast) (b : built),
         (forall r : ruledef, In r (a_rules a) -> r_lhs r <> dollar_name) ->
         front a = inr b -> wf_gi (b_gi b) = true.
Proof. exact FrontWf.front_wf. Qed.
Print Assumptions C01_front_wf_ast.
