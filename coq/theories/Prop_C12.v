(* C12 - unusable grammars are rejected *)
From Coq Require Import List Arith ZArith Bool Permutation.
Import ListNotations.
From YG Require Import LRBase CompleteDriver LR0Build LR0Complete LASuperset LASubset LAExec LR0More C03Assembly C02Assembly TableCert Resolve PackCore DriverSim Values Oracle Productive SortOrder LexRoundtrip.

(* the sweep-until-stable loop computes exactly the symbols that derive a terminal string *)
Theorem C12_productive :
  forall (g : grammar) (is_term : nat -> bool) (x : nat),
         can is_term (productive_set g is_term) x = true <-> productive g is_term x.
Proof. exact Productive.productive_set_correct. Qed.
Print Assumptions C12_productive.
