(* C12 - unusable grammars are rejected *)
From Coq Require Import List Arith ZArith Bool Permutation.
Import ListNotations.
From YG Require Import LRBase CompleteDriver LR0Build LR0Complete LASuperset LASubset LAExec LR0More C03Assembly C02Assembly TableCert Resolve PackCore DriverSim Values Oracle Productive SortOrder LexRoundtrip.

(* the sweep-until-stable loop computes exactly the symbols that derive a terminal string *)
Theorem C12_productive :
  forall (g : grammar) (is_term : nat -> bool) (x : nat),
         can is_term (productive_set g is_term) x = true <-> productive g is_term x.
Proof. exact Productive.productive_set_correct. Qed.
Print Assumptions C12_productive.

From YG Require Import Pipeline Front FrontUsable.
Local Open Scope nat_scope.

(* the list of unusable nonterminals computed by the pipeline is exactly the set of nonterminals
   (left-hand sides) that derive no string of terminals *)
Theorem C12_unproductive_exact :
  forall (gi : ginfo) (X : nat),
    In X (unproductive gi) <->
    X < gi_nsyms gi /\ is_nt_b (gi_rules gi) X = true /\
    ~ Productive.productive (gi_rules gi) (is_term_of (gi_rules gi)) X.
Proof. exact FrontUsable.unproductive_in. Qed.
Print Assumptions C12_unproductive_exact.

(* the model of BuildLALR1's checks (Front.build_grammar): a grammar object is produced exactly when
   every symbol marked as a nonterminal (by %type, %start or as an unknown left-hand side) has a rule
   and every nonterminal derives a terminal string; it is refused with "no rule" only for a symbol
   marked nonterminal without a rule, and with "unproductive" exactly with the non-empty list of the
   nonterminals that derive no terminal string; no other refusal exists besides a start symbol or a
   rule symbol without a grammar symbol (a token numbered -1) *)
Theorem C12_build_cases :
  forall v : visited,
    match build_grammar v with
    | inl (FNoRule nm) =>
        exists (s0 : nat) (rs : list (LRBase.rule * option nat)) (k : nat),
          sym_index (skipn 2 (symbols_of v)) (vs_start v) = Some s0 /\
          map_opt (build_rule (symbols_of v)) (vs_rules v) = Some rs /\
          In k (norule_list v ({| LRBase.lhs := 0; LRBase.rhs := S (S s0) :: nil |} :: map fst rs)) /\
          nm = s_name (nth k (symbols_of v)
                 {| s_name := nil; s_value := 0%Z; s_tag := nil; s_declnt := false; s_prec := 0%Z; s_assoc := Resolve.NONE |})
    | inl FNoStart =>
        sym_index (skipn 2 (symbols_of v)) (vs_start v) = None \/ map_opt (build_rule (symbols_of v)) (vs_rules v) = None
    | inl (FUnproductive l) =>
        exists (s0 : nat) (rs : list (LRBase.rule * option nat)),
          sym_index (skipn 2 (symbols_of v)) (vs_start v) = Some s0 /\
          map_opt (build_rule (symbols_of v)) (vs_rules v) = Some rs /\
          (let rules := ({| LRBase.lhs := 0; LRBase.rhs := S (S s0) :: nil |} :: map fst rs)%list in
           norule_list v rules = nil /\ l <> nil /\
           (forall X : nat, In X l <->
              X < length (symbols_of v) /\ is_nt_b rules X = true /\ ~ Productive.productive rules (is_term_of rules) X))
    | inr b =>
        norule_list v (gi_rules (b_gi b)) = nil /\
        (forall X : nat, X < length (symbols_of v) -> is_nt_b (gi_rules (b_gi b)) X = true ->
           Productive.productive (gi_rules (b_gi b)) (is_term_of (gi_rules (b_gi b))) X) /\
        gi_nsyms (b_gi b) = length (symbols_of v)
    | inl _ => False
    end.
Proof. exact FrontUsable.build_grammar_cases. Qed.
Print Assumptions C12_build_cases.

(* the model of the visitor: it refuses only for a right-hand-side symbol that is neither declared nor
   defined (or for an unknown symbol in a precedence line, which the parser never produces) *)
Theorem C12_visit_cases :
  forall a : ast,
    match visit a with
    | inl (FPrecUnknown n) => exists line : list precdef, In line (d_precs (a_decl a)) /\ In n (map pd_name line)
    | inl (FUndefined n) => exists r : ruledef, In r (a_rules a) /\ In (RSym n) (r_rhs r)
    | inr v =>
        (forall (r : ruledef) (n : name), In r (a_rules a) -> In (RSym n) (r_rhs r) -> tab_usable (vs_tab v) n = true) /\
        map (fun x : vrule => (v_lhs x, v_rhs x)) (vs_rules v) = map (fun r : ruledef => (r_lhs r, rsyms (r_rhs r))) (a_rules a)
    | inl _ => False
    end.
Proof. exact FrontUsable.visit_cases. Qed.
Print Assumptions C12_visit_cases.

From YG Require Import LRBase LR0Build LR0Limit.
Close Scope Z_scope.
Open Scope nat_scope.

(* the built-in limit: the model stops with 'too many states' only if the LR(0) collection it would build with any larger fuel has 2000 states or more (ComputeAllGoto panics when the collection reaches 2000 states) *)
Theorem C12_state_limit :
  forall (g : grammar) (F : nat) (aut : list state),
         build g = None ->
         build_loop F g [{| items := closure g [(0, 0)]; gotos := [] |}] 0 = Some aut -> 2000 <= length aut.
Proof. exact LR0Limit.build_none_means_many. Qed.
Print Assumptions C12_state_limit.

From YG Require Import LRBase LR0Build LR0Limit.
Close Scope Z_scope.
Open Scope nat_scope.

(* below the limit the fuel is irrelevant: every grammar whose collection has fewer than 2000 states is processed *)
Theorem C12_below_limit :
  forall (g : grammar) (F : nat) (aut : list state),
         build_loop F g [{| items := closure g [(0, 0)]; gotos := [] |}] 0 = Some aut ->
         length aut < 2000 -> build g = Some aut.
Proof. exact LR0Limit.build_fuel_irrelevant. Qed.
Print Assumptions C12_below_limit.

From YG Require Import LRBase LR0Build LR0Limit.
Close Scope Z_scope.
Open Scope nat_scope.

(* and a delivered automaton has fewer than 2000 states *)
Theorem C12_delivered_below_limit :
  forall (g : grammar) (aut : automaton), build g = Some aut -> length aut < 2000.
Proof. exact LR0Limit.build_some_below_limit. Qed.
Print Assumptions C12_delivered_below_limit.

From YG Require Import LRBase CompleteDriver LR0Build Resolve Pipeline PipelineRun Front WfGrammar YParser EndToEnd FrontWf ParsedNames EndToEndWf.
Close Scope Z_scope.
Open Scope nat_scope.

(* what the front end delivers when it does not refuse: a grammar object whose rule 0 is start -> S, whose right-hand sides use symbols of the file only and whose end marker heads no rule *)
Theorem C12_delivered_is_wellformed :
  forall (s : list Ascii.ascii) (b : built) (t : tables),
         generate_text s = GOk b t -> wf_gi (b_gi b) = true.
Proof. exact EndToEndWf.text_wf. Qed.
Print Assumptions C12_delivered_is_wellformed.

From YG Require Import Lexer YParser Front Pipeline EndToEnd EndToEndWf.
Close Scope Z_scope.
Open Scope nat_scope.

(* from the bytes of the grammar file: when the generator refuses a text that parses, the refusal is the front end's (its cases: C12_visit_cases, C12_build_cases) or the productivity test of the table stage on the grammar object the front end delivered *)
Theorem C12_refusal_from_the_text :
  forall (s : list Ascii.ascii) (e : front_error),
         generate_text s = GFront e ->
         exists a : ast,
           parse_text s = PAst a /\
           (front a = inl e \/
            (exists (b : built) (l : list nat),
               front a = inr b /\ generate_tables (b_gi b) = inl (EUnproductive l) /\ e = FUnproductive l)).
Proof. exact EndToEndWf.text_refusal. Qed.
Print Assumptions C12_refusal_from_the_text.

From YG Require Import Lexer YParser Front Pipeline EndToEnd EndToEndWf.
Close Scope Z_scope.
Open Scope nat_scope.

(* the only other refusal of a text that parses and passes the front end: the state limit (C12_state_limit) *)
Theorem C12_too_many_from_the_text :
  forall s : list Ascii.ascii,
         generate_text s = GTooMany ->
         exists (a : ast) (b : built),
           parse_text s = PAst a /\ front a = inr b /\ generate_tables (b_gi b) = inl ETooManyStates.
Proof. exact EndToEndWf.text_too_many. Qed.
Print Assumptions C12_too_many_from_the_text.
