(* Proofs for C10, the parser layer: the parser model (YParser.v, the model that is compared with Parser/Parser.go on
   every run) reads a token list that spells out a grammar specification - declarations of every kind, rule groups with
   alternatives, symbols, %prec annotations and actions, with or without `;` - back into exactly that specification:
   the declaration lines in order, every alternative as one rule in order with its symbols, action bodies and %prec
   symbol, the literals first used in rules as extra token declarations.  Only kinds and values of tokens matter (the
   remaining text each token carries is free), so the statement composes with LexerRoundtrip.lex_render. *)
From Coq Require Import List Arith ZArith Bool Ascii Lia.
Import ListNotations.
From YG Require Import Lexer Front YParser.

(* ---------- what a token must look like: its kind, and its value where the parser looks at the value ---------- *)
Definition kv := (lkind * option (list ascii))%type.
Definition M (t : tok) (x : kv) : Prop :=
  t_kind t = fst x /\ match snd x with Some v => t_value t = v | None => True end.

(* ---------- parser states: look-back buffer in step (S), or one token waiting to be replayed (B) ---------- *)
Definition stS (t : tok) (s : list tok) (a1 : tok) (d : list name) : pstate := mkP t t a1 0 s Closed false d.
Definition stB (t1 t2 : tok) (s : list tok) (d : list name) : pstate := mkP t1 t2 t1 1 s Closed false d.

Lemma cur_stS t s a d k : cur_is (stS t s a d) k = kind_eqb (t_kind t) k.  Proof. reflexivity. Qed.
Lemma pnext_stS t t' s a d : pnext (stS t (t' :: s) a d) = stS t' s a d.  Proof. reflexivity. Qed.
Lemma pdef_stS t s a d n : pdef (stS t s a d) n = stS t s a (n :: d).  Proof. reflexivity. Qed.
Lemma defined_stS t s a d n : defined (stS t s a d) n = existsb (name_eqb n) d.  Proof. reflexivity. Qed.
Lemma pcur_stS t s a d : p_cur (stS t s a d) = t.  Proof. reflexivity. Qed.
Lemma pback_next_stS t s a d n : pnext (pdef (pbackup (stS t s a d)) n) = stS t s a (n :: d).  Proof. reflexivity. Qed.

Lemma kind_eqb_refl k : kind_eqb k k = true.  Proof. destruct k; reflexivity. Qed.
Lemma kind_eqb_neq a b : a <> b -> kind_eqb a b = false.
Proof. intros H. destruct (kind_eqb a b) eqn:E; [|reflexivity]. exfalso; apply H. destruct a, b; simpl in E; try discriminate; reflexivity. Qed.

(* ---------- the specification language ---------- *)
Inductive psym := PId (n : name) | PCh (v : list ascii).
Definition psym_kv (s : psym) : kv := match s with PId n => (LxIdentifier, Some n) | PCh v => (LxChar, Some v) end.
Definition psym_name (s : psym) : name := match s with PId n => n | PCh v => gen_temp_name v end.

Inductive titem := TId (n : name) (num : option (list ascii)) | TCh (v : list ascii).
Definition titem_kv (i : titem) : list kv :=
  match i with
  | TId n None => [(LxIdentifier, Some n)]
  | TId n (Some x) => [(LxIdentifier, Some n); (LxNumber, Some x)]
  | TCh v => [(LxChar, Some v)]
  end.
Definition titem_name (i : titem) : name := match i with TId n _ => n | TCh v => gen_temp_name v end.
Definition titem_ident (tag : name) (i : titem) : ident :=
  match i with
  | TId n None => mkIdent n TermId 0 tag []
  | TId n (Some x) => mkIdent n TermId (atoi x) tag []
  | TCh v => mkIdent (gen_temp_name v) TermId (first_byte v) tag v
  end.
(* the dialect: a character literal right after a bare identifier in a %token line is that identifier's alias *)
Fixpoint titems_ok (l : list titem) : bool :=
  match l with
  | [] => true
  | i :: r => (match i, r with TId _ None, TCh _ :: _ => false | _, _ => true end) && titems_ok r
  end.

Definition tag_kv (tag : option name) : list kv :=
  match tag with Some n => [(LxLAngle, None); (LxIdentifier, Some n); (LxRAngle, None)] | None => [] end.
Definition tag_name (tag : option name) : name := match tag with Some n => n | None => [] end.

(* a token that ends a list of names: the next declaration or the %% mark *)
Definition stopk (k : lkind) : bool :=
  match k with
  | LxToken | LxLeft | LxRight | LxNone | LxPrecedence | LxType | LxStart | LxUnion | LxCodeQuote | LxSection => true
  | _ => false
  end.
Definition stopper (t : tok) : Prop := stopk (t_kind t) = true.
Lemma stopper_neq t k : stopper t -> stopk k = false -> t_kind t <> k.
Proof. unfold stopper; intros H1 H2 E; rewrite E in H1; congruence. Qed.

Lemma Forall2_cons_inv {A B} (R : A -> B -> Prop) l y ys : Forall2 R l (y :: ys) -> exists x xs, l = x :: xs /\ R x y /\ Forall2 R xs ys.
Proof. intros H; inversion H; subst; eauto. Qed.
Lemma Forall2_nil_inv {A B} (R : A -> B -> Prop) l : Forall2 R l [] -> l = [].
Proof. intros H; inversion H; reflexivity. Qed.

Lemma Forall2_length {A B} (R : A -> B -> Prop) l l' : Forall2 R l l' -> length l = length l'.
Proof. induction 1; simpl; congruence. Qed.

Ltac inv_tok H t ts Hk Hv :=
  apply Forall2_cons_inv in H; destruct H as (t & ts & -> & [Hk Hv] & H); cbn [fst snd] in Hk, Hv.

(* ---------- %token lines ---------- *)
(* the token after a bare identifier: the first token of the remaining items, or the stopper *)
Lemma after_bare items ts t0 rest :
  Forall2 M ts (flat_map titem_kv items) -> (match items with TCh _ :: _ => false | _ => true end) = true -> stopper t0 ->
  exists c s, ts ++ t0 :: rest = c :: s /\ t_kind c <> LxNumber /\ t_kind c <> LxChar /\ t_kind c <> LxString.
Proof.
  intros HM Hi Hst.
  pose proof (stopper_neq _ LxNumber Hst eq_refl) as S3. pose proof (stopper_neq _ LxChar Hst eq_refl) as S2.
  pose proof (stopper_neq _ LxString Hst eq_refl) as S4.
  destruct items as [|[n [x|]|v] items]; cbn [flat_map titem_kv app] in HM.
  - apply Forall2_nil_inv in HM. subst ts. exists t0, rest. auto.
  - inv_tok HM t1 ts1 Hk1 Hv1. exists t1, (ts1 ++ t0 :: rest). rewrite Hk1. repeat split; try reflexivity; discriminate.
  - inv_tok HM t1 ts1 Hk1 Hv1. exists t1, (ts1 ++ t0 :: rest). rewrite Hk1. repeat split; try reflexivity; discriminate.
  - discriminate.
Qed.

Lemma tokendef_rt : forall items fuel tag ts t0 rest a d acc,
  Forall2 M ts (flat_map titem_kv items) -> titems_ok items = true -> stopper t0 -> length items < fuel ->
  forall c s, ts ++ t0 :: rest = c :: s ->
    tokendef_loop fuel tag (stS c s a d) acc =
      POk (acc ++ map (titem_ident tag) items) (stS t0 rest a (rev (map titem_name items) ++ d)).
Proof.
  induction items as [|i items IH]; intros fuel tag ts t0 rest a d acc HM Hok Hst Hf c s E.
  - cbn [flat_map] in HM. apply Forall2_nil_inv in HM. subst ts. cbn [app] in E. inversion E; subst c s.
    pose proof (stopper_neq _ LxIdentifier Hst eq_refl) as S1. pose proof (stopper_neq _ LxChar Hst eq_refl) as S2.
    destruct fuel as [|f]; [simpl in Hf; lia|]. cbn [tokendef_loop]. rewrite !cur_stS.
    rewrite (kind_eqb_neq _ _ S1), (kind_eqb_neq _ _ S2). cbn [map rev app]. rewrite app_nil_r. reflexivity.
  - destruct fuel as [|f]; [simpl in Hf; lia|]. cbn [length] in Hf.
    cbn [titems_ok] in Hok. apply andb_true_iff in Hok. destruct Hok as [Hi Hok].
    cbn [flat_map] in HM.
    destruct i as [n [x|]|v]; cbn [titem_kv app] in HM.
    + (* identifier with a number *)
      inv_tok HM t1 ts1 Hk1 Hv1. inv_tok HM t2 ts2 Hk2 Hv2.
      cbn [app] in E. inversion E; subst c s. clear E.
      cbn [tokendef_loop]. rewrite cur_stS, Hk1. cbn [kind_eqb].
      destruct (ts2 ++ t0 :: rest) as [|c2 s2] eqn:E2; [destruct ts2; discriminate|].
      rewrite pnext_stS, cur_stS, Hk2. cbn [kind_eqb]. rewrite !pcur_stS, Hv1, Hv2, pdef_stS, pnext_stS.
      rewrite (IH f tag ts2 t0 rest a (n :: d) _ HM Hok Hst ltac:(lia) c2 s2 E2).
      cbn [map rev titem_ident titem_name]. rewrite <- !app_assoc. reflexivity.
    + (* bare identifier: the next token is looked at and pushed back *)
      inv_tok HM t1 ts1 Hk1 Hv1.
      cbn [app] in E. inversion E; subst c s. clear E.
      cbn [tokendef_loop]. rewrite cur_stS, Hk1. cbn [kind_eqb].
      assert (Hi' : (match items with TCh _ :: _ => false | _ => true end) = true) by (destruct items as [|[| ] ?]; auto).
      destruct (after_bare items ts1 t0 rest HM Hi' Hst) as (c2 & s2 & E2 & N1 & N2 & N3).
      rewrite E2. rewrite pnext_stS, !cur_stS.
      rewrite (kind_eqb_neq _ _ N1), (kind_eqb_neq _ _ N2), (kind_eqb_neq _ _ N3). cbn [orb].
      rewrite pcur_stS, Hv1, pback_next_stS.
      rewrite (IH f tag ts1 t0 rest a (n :: d) _ HM Hok Hst ltac:(lia) c2 s2 E2).
      cbn [map rev titem_ident titem_name]. rewrite <- !app_assoc. reflexivity.
    + (* character literal *)
      inv_tok HM t1 ts1 Hk1 Hv1.
      cbn [app] in E. inversion E; subst c s. clear E.
      cbn [tokendef_loop]. rewrite !cur_stS, Hk1. cbn [kind_eqb].
      destruct (ts1 ++ t0 :: rest) as [|c2 s2] eqn:E2; [destruct ts1; discriminate|].
      rewrite pcur_stS, Hv1, pdef_stS, pnext_stS.
      rewrite (IH f tag ts1 t0 rest a (gen_temp_name v :: d) _ HM Hok Hst ltac:(lia) c2 s2 E2).
      cbn [map rev titem_ident titem_name]. rewrite <- !app_assoc. reflexivity.
Qed.

(* ---------- the optional <tag> ---------- *)
Lemma parse_tag_rt tag ts rest a d c s c' s' :
  Forall2 M ts (tag_kv tag) -> ts ++ c' :: s' = c :: s -> rest = c' :: s' -> (tag = None -> t_kind c' <> LxLAngle) ->
  parse_tag (stS c s a d) = (tag_name tag, stS c' s' a d).
Proof.
  intros HM E -> Hn. destruct tag as [n|]; cbn [tag_kv] in HM.
  - inv_tok HM t1 ts1 Hk1 Hv1. inv_tok HM t2 ts2 Hk2 Hv2. inv_tok HM t3 ts3 Hk3 Hv3.
    apply Forall2_nil_inv in HM. subst ts3. cbn [app] in E. inversion E; subst c s. clear E.
    unfold parse_tag. rewrite cur_stS, Hk1. cbn [kind_eqb]. rewrite pnext_stS, pcur_stS, Hv2, pnext_stS.
    unfold pexpect. rewrite cur_stS, Hk3. cbn [kind_eqb]. rewrite pnext_stS. reflexivity.
  - apply Forall2_nil_inv in HM. subst ts. cbn [app] in E. inversion E; subst c s. clear E.
    unfold parse_tag. rewrite cur_stS, (kind_eqb_neq _ _ (Hn eq_refl)). reflexivity.
Qed.

(* first token of a list of items followed by a stopper is never "<" *)
Lemma first_not_langle (kvs : list kv) ts t0 rest c s :
  Forall2 M ts kvs -> (forall x, In x kvs -> fst x <> LxLAngle) -> stopper t0 -> ts ++ t0 :: rest = c :: s -> t_kind c <> LxLAngle.
Proof.
  intros HM Hk Hst E. destruct kvs as [|x kvs].
  - apply Forall2_nil_inv in HM. subst ts. cbn [app] in E. inversion E; subst. apply (stopper_neq _ LxLAngle Hst eq_refl).
  - inv_tok HM t1 ts1 Hk1 Hv1. cbn [app] in E. inversion E; subst. rewrite Hk1. apply Hk. left; reflexivity.
Qed.

Lemma titem_kv_kinds items x : In x (flat_map titem_kv items) -> fst x <> LxLAngle.
Proof.
  intros H. apply in_flat_map in H. destruct H as (i & _ & H). destruct i as [n [y|]|v]; simpl in H;
  repeat (destruct H as [<-|H]; [discriminate|]); destruct H.
Qed.

Definition token_line_kv (tag : option name) (items : list titem) : list kv := tag_kv tag ++ flat_map titem_kv items.

Lemma parse_tokendef_rt fuel tag items ts t0 rest a d c s tk :
  Forall2 M ts (token_line_kv tag items) -> titems_ok items = true -> stopper t0 -> length items < fuel ->
  ts ++ t0 :: rest = c :: s ->
  parse_tokendef fuel (stS tk (c :: s) a d) =
    POk (map (titem_ident (tag_name tag)) items) (stS t0 rest a (rev (map titem_name items) ++ d)).
Proof.
  intros HM Hok Hst Hf E. unfold token_line_kv in HM. apply Forall2_app_inv_r in HM.
  destruct HM as (tsa & tsb & Ha & Hb & ->). rewrite <- app_assoc in E.
  unfold parse_tokendef. rewrite pnext_stS.
  destruct (tsb ++ t0 :: rest) as [|c' s'] eqn:E'; [destruct tsb; discriminate|].
  rewrite (parse_tag_rt tag tsa (c' :: s') a d c s c' s' Ha E eq_refl).
  - rewrite (tokendef_rt items fuel (tag_name tag) tsb t0 rest a d [] Hb Hok Hst Hf c' s' E'). reflexivity.
  - intros _. apply (first_not_langle (flat_map titem_kv items) tsb t0 rest c' s' Hb (titem_kv_kinds items) Hst E').
Qed.

(* ---------- precedence lines ---------- *)
Definition psym_value (s : psym) : Z := match s with PCh v => first_byte v | PId _ => 0%Z end.
Fixpoint prec_fold (tag : name) (syms : list psym) (d : list name) (toks : list ident) : list name * list ident :=
  match syms with
  | [] => (d, toks)
  | s :: r =>
    let nm := psym_name s in
    if existsb (name_eqb nm) d then prec_fold tag r d toks
    else prec_fold tag r (nm :: d) (toks ++ [mkIdent nm TermId (psym_value s) tag []])
  end.

Lemma prec_rt : forall syms fuel tag assoc h ts t0 rest a d toks acc c s,
  Forall2 M ts (map psym_kv syms) -> stopper t0 -> length syms < fuel ->
  ts ++ t0 :: rest = c :: s -> pnext h = stS c s a d ->
  prec_loop fuel tag assoc h toks acc =
    POk (snd (prec_fold tag syms d toks), acc ++ map (fun x => mkPrecdef assoc (psym_name x)) syms)
        (stS t0 rest a (fst (prec_fold tag syms d toks))).
Proof.
  induction syms as [|sy syms IH]; intros fuel tag assoc h ts t0 rest a d toks acc c s HM Hst Hf E Hh.
  - cbn [map] in HM. apply Forall2_nil_inv in HM. subst ts. cbn [app] in E. inversion E; subst c s.
    destruct fuel as [|f]; [simpl in Hf; lia|]. cbn [prec_loop]. rewrite Hh, !cur_stS.
    rewrite (kind_eqb_neq _ _ (stopper_neq _ LxIdentifier Hst eq_refl)), (kind_eqb_neq _ _ (stopper_neq _ LxChar Hst eq_refl)).
    cbn [orb prec_fold fst snd map]. rewrite app_nil_r. reflexivity.
  - destruct fuel as [|f]; [simpl in Hf; lia|]. cbn [length] in Hf. cbn [map] in HM.
    inv_tok HM t1 ts1 Hk1 Hv1. cbn [app] in E. inversion E; subst c s. clear E.
    destruct (ts1 ++ t0 :: rest) as [|c2 s2] eqn:E2; [destruct ts1; discriminate|].
    cbn [prec_loop]. rewrite Hh, !cur_stS, pcur_stS, defined_stS.
    destruct sy as [n|v]; cbn [psym_kv fst snd] in Hk1, Hv1; rewrite Hk1, Hv1; cbn [kind_eqb orb prec_fold psym_name psym_value].
    + destruct (existsb (name_eqb n) d).
      * rewrite (IH f tag assoc (stS t1 (c2 :: s2) a d) ts1 t0 rest a d toks _ c2 s2 HM Hst ltac:(lia) E2 (pnext_stS _ _ _ _ _)).
        cbn [map]. rewrite <- app_assoc. reflexivity.
      * rewrite pdef_stS.
        rewrite (IH f tag assoc (stS t1 (c2 :: s2) a (n :: d)) ts1 t0 rest a (n :: d) _ _ c2 s2 HM Hst ltac:(lia) E2 (pnext_stS _ _ _ _ _)).
        cbn [map]. rewrite <- app_assoc. reflexivity.
    + destruct (existsb (name_eqb (gen_temp_name v)) d).
      * rewrite (IH f tag assoc (stS t1 (c2 :: s2) a d) ts1 t0 rest a d toks _ c2 s2 HM Hst ltac:(lia) E2 (pnext_stS _ _ _ _ _)).
        cbn [map]. rewrite <- app_assoc. reflexivity.
      * rewrite pdef_stS.
        rewrite (IH f tag assoc (stS t1 (c2 :: s2) a (gen_temp_name v :: d)) ts1 t0 rest a (gen_temp_name v :: d) _ _ c2 s2 HM Hst ltac:(lia) E2 (pnext_stS _ _ _ _ _)).
        cbn [map]. rewrite <- app_assoc. reflexivity.
Qed.

Inductive pkind := KLeft | KRight | KNon | KPrecedence.
Definition pk_kind (k : pkind) : lkind := match k with KLeft => LxLeft | KRight => LxRight | KNon => LxNone | KPrecedence => LxPrecedence end.
Definition pk_assoc (k : pkind) : assoc_kw := match k with KLeft => ALeft | KRight => ARight | _ => ANon end.

Lemma psym_kv_kinds syms x : In x (map psym_kv syms) -> fst x <> LxLAngle.
Proof. intros H. apply in_map_iff in H. destruct H as (sy & <- & _). destruct sy; discriminate. Qed.

Lemma parse_preclist_rt fuel k tag syms ts t0 rest a d c s tk :
  t_kind tk = pk_kind k -> Forall2 M ts (tag_kv tag ++ map psym_kv syms) -> stopper t0 -> length syms < fuel ->
  ts ++ t0 :: rest = c :: s ->
  parse_preclist fuel (stS tk (c :: s) a d) =
    POk (snd (prec_fold (tag_name tag) syms d []), map (fun x => mkPrecdef (pk_assoc k) (psym_name x)) syms)
        (stS t0 rest a (fst (prec_fold (tag_name tag) syms d []))).
Proof.
  intros Hk HM Hst Hf E. apply Forall2_app_inv_r in HM.
  destruct HM as (tsa & tsb & Ha & Hb & ->). rewrite <- app_assoc in E.
  unfold parse_preclist. rewrite !cur_stS, Hk, pnext_stS.
  destruct (tsb ++ t0 :: rest) as [|c' s'] eqn:E'; [destruct tsb; discriminate|].
  rewrite (parse_tag_rt tag tsa (c' :: s') a d c s c' s' Ha E eq_refl).
  - rewrite (prec_rt syms fuel (tag_name tag) _ (pbackup (stS c' s' a d)) tsb t0 rest a d [] [] c' s' Hb Hst Hf E' eq_refl).
    destruct k; reflexivity.
  - intros _. apply (first_not_langle (map psym_kv syms) tsb t0 rest c' s' Hb (psym_kv_kinds syms) Hst E').
Qed.

(* ---------- %type lines ---------- *)
Definition name_kv (n : name) : kv := (LxIdentifier, Some n).
Lemma type_rt : forall ns fuel tag ts t0 rest a d acc c s,
  Forall2 M ts (map name_kv ns) -> stopper t0 -> length ns < fuel -> ts ++ t0 :: rest = c :: s ->
  type_loop fuel tag (stS c s a d) acc = POk (acc ++ map (fun n => (tag, n)) ns) (stS t0 rest a d).
Proof.
  induction ns as [|n ns IH]; intros fuel tag ts t0 rest a d acc c s HM Hst Hf E.
  - cbn [map] in HM. apply Forall2_nil_inv in HM. subst ts. cbn [app] in E. inversion E; subst c s.
    destruct fuel as [|f]; [simpl in Hf; lia|]. cbn [type_loop]. rewrite cur_stS.
    rewrite (kind_eqb_neq _ _ (stopper_neq _ LxIdentifier Hst eq_refl)). cbn [map]. rewrite app_nil_r. reflexivity.
  - destruct fuel as [|f]; [simpl in Hf; lia|]. cbn [length] in Hf. cbn [map] in HM.
    inv_tok HM t1 ts1 Hk1 Hv1. cbn [app] in E. inversion E; subst c s. clear E.
    destruct (ts1 ++ t0 :: rest) as [|c2 s2] eqn:E2; [destruct ts1; discriminate|].
    cbn [type_loop]. rewrite cur_stS, Hk1. cbn [kind_eqb]. rewrite pcur_stS, Hv1, pnext_stS.
    rewrite (IH f tag ts1 t0 rest a d _ c2 s2 HM Hst ltac:(lia) E2). cbn [map]. rewrite <- app_assoc. reflexivity.
Qed.

Lemma parse_typelist_rt fuel tag ns ts t0 rest a d c s tk :
  ns <> [] -> Forall2 M ts (tag_kv (Some tag) ++ map name_kv ns) -> stopper t0 -> length ns < fuel ->
  ts ++ t0 :: rest = c :: s ->
  parse_typelist fuel (stS tk (c :: s) a d) = POk (map (fun n => (tag, n)) ns) (stS t0 rest a d).
Proof.
  intros Hne HM Hst Hf E. apply Forall2_app_inv_r in HM.
  destruct HM as (tsa & tsb & Ha & Hb & ->). rewrite <- app_assoc in E.
  unfold parse_typelist. rewrite pnext_stS.
  assert (Hc : t_kind c = LxLAngle).
  { cbn [tag_kv] in Ha. pose proof Ha as Ha'. apply Forall2_cons_inv in Ha'. destruct Ha' as (t1 & ts1 & -> & [Hk1 _] & _).
    cbn [app] in E. inversion E; subst. exact Hk1. }
  rewrite cur_stS, Hc. cbn [kind_eqb].
  destruct (tsb ++ t0 :: rest) as [|c' s'] eqn:E'; [destruct tsb; discriminate|].
  rewrite (parse_tag_rt (Some tag) tsa (c' :: s') a d c s c' s' Ha E eq_refl) by discriminate.
  cbn [tag_name].
  rewrite (type_rt ns fuel tag tsb t0 rest a d [] c' s' Hb Hst Hf E'). cbn [app].
  destruct ns as [|n ns]; [congruence|]. reflexivity.
Qed.

(* ---------- the declaration section ---------- *)
Inductive sdecl :=
| SDTok (tag : option name) (items : list titem)
| SDPrec (k : pkind) (tag : option name) (syms : list psym)
| SDType (tag : name) (ns : list name)
| SDStart (n : name)
| SDUnion (v : list ascii)
| SDCode (v : list ascii).

Definition decl_kv (x : sdecl) : list kv :=
  match x with
  | SDTok tag items => (LxToken, None) :: token_line_kv tag items
  | SDPrec k tag syms => (pk_kind k, None) :: tag_kv tag ++ map psym_kv syms
  | SDType tag ns => (LxType, None) :: tag_kv (Some tag) ++ map name_kv ns
  | SDStart n => [(LxStart, None); name_kv n]
  | SDUnion v => [(LxUnion, Some v)]
  | SDCode v => [(LxCodeQuote, Some v)]
  end.
Definition decl_ok (x : sdecl) : bool :=
  match x with SDTok _ items => titems_ok items | SDType _ ns => negb (is_nil ns) | _ => true end.

(* what a declaration adds to the declaration node and to the set of known token names *)
Definition decl_apply (ad : decl_acc * list name) (x : sdecl) : decl_acc * list name :=
  let '(a, d) := ad in
  match x with
  | SDTok tag items =>
    (mkDA (da_union a) (da_code a) (da_toks a ++ [map (titem_ident (tag_name tag)) items]) (da_precs a) (da_types a) (da_start a),
     rev (map titem_name items) ++ d)
  | SDPrec k tag syms =>
    let r := prec_fold (tag_name tag) syms d [] in
    (mkDA (da_union a) (da_code a) (match snd r with [] => da_toks a | _ => da_toks a ++ [snd r] end)
          (da_precs a ++ [map (fun x => mkPrecdef (pk_assoc k) (psym_name x)) syms]) (da_types a) (da_start a), fst r)
  | SDType tag ns =>
    (mkDA (da_union a) (da_code a) (da_toks a) (da_precs a) (da_types a ++ map (fun n => (tag, n)) ns) (da_start a), d)
  | SDStart n => (mkDA (da_union a) (da_code a) (da_toks a) (da_precs a) (da_types a) n, d)
  | SDUnion v => (mkDA v (da_code a) (da_toks a) (da_precs a) (da_types a) (da_start a), d)
  | SDCode v => (mkDA (da_union a) (da_code a ++ v) (da_toks a) (da_precs a) (da_types a) (da_start a), d)
  end.

Lemma decl_first_stop x : exists k ov more, decl_kv x = (k, ov) :: more /\ stopk k = true.
Proof. destruct x as [tag items|k tag syms|tag ns|n|v|v]; cbn [decl_kv]; try (eexists _, _, _; split; [reflexivity|reflexivity]). destruct k; eexists _, _, _; (split; [reflexivity|reflexivity]). Qed.

(* the token after a declaration: the first token of the next one, or the %% mark - a stopper either way *)
Lemma next_is_stopper decls ts sec rest :
  Forall2 M ts (flat_map decl_kv decls) -> t_kind sec = LxSection ->
  exists c s, ts ++ sec :: rest = c :: s /\ stopper c.
Proof.
  intros HM Hsec. destruct decls as [|x decls]; cbn [flat_map] in HM.
  - apply Forall2_nil_inv in HM. subst ts. exists sec, rest. split; [reflexivity|]. unfold stopper. rewrite Hsec. reflexivity.
  - destruct (decl_first_stop x) as (k & ov & more & Ek & Hk). rewrite Ek in HM. cbn [app] in HM.
    inv_tok HM t1 ts1 Hk1 Hv1. exists t1, (ts1 ++ sec :: rest). split; [reflexivity|]. unfold stopper. rewrite Hk1. exact Hk.
Qed.

Lemma declare_rt : forall decls fuel ts sec rest a d acc c s,
  Forall2 M ts (flat_map decl_kv decls) -> forallb decl_ok decls = true -> t_kind sec = LxSection ->
  length ts < fuel -> ts ++ sec :: rest = c :: s ->
  declare_loop fuel (stS c s a d) acc =
    POk (Some (fst (fold_left decl_apply decls (acc, d)))) (stS sec rest a (snd (fold_left decl_apply decls (acc, d)))).
Proof.
  induction decls as [|x decls IH]; intros fuel ts sec rest a d acc c s HM Hok Hsec Hf E.
  - cbn [flat_map] in HM. apply Forall2_nil_inv in HM. subst ts. cbn [app] in E. inversion E; subst c s.
    destruct fuel as [|f]; [simpl in Hf; lia|]. cbn [declare_loop]. rewrite !cur_stS, Hsec. reflexivity.
  - destruct fuel as [|f]; [simpl in Hf; lia|].
    cbn [forallb] in Hok. apply andb_true_iff in Hok. destruct Hok as [Hx Hok].
    cbn [flat_map] in HM. apply Forall2_app_inv_r in HM. destruct HM as (tsx & ts' & Hx' & Hrest & ->).
    rewrite <- app_assoc in E.
    destruct (next_is_stopper decls ts' sec rest Hrest Hsec) as (c' & s' & E' & Hst).
    rewrite E' in E.
    assert (Hlen : length ts' < f /\ length tsx <= f).
    { rewrite app_length in Hf. cbn [length] in Hf. split; [|lia].
      destruct (decl_first_stop x) as (k & ov & more & Ek & _). rewrite Ek in Hx'. apply Forall2_length in Hx'. simpl in Hx'. lia. }
    destruct Hlen as [Hl1 Hl2].
    cbn [fold_left].
    destruct x as [tag items|k tag syms|tag ns|n|v|v]; cbn [decl_kv] in Hx'.
    + inv_tok Hx' tk tsi Hk Hv. cbn [app] in E. inversion E; subst c s. clear E.
      destruct (tsi ++ c' :: s') as [|ci si] eqn:Ei; [destruct tsi; discriminate|].
      cbn [declare_loop]. rewrite !cur_stS, Hk. cbn [kind_eqb orb].
      assert (Hli : length items < f).
      { unfold token_line_kv in Hx'. apply Forall2_length in Hx'. rewrite app_length in Hx'. cbn [length] in Hl2.
        assert (length items <= length (flat_map titem_kv items)).
        { clear. induction items as [|i items IH]; [reflexivity|]. cbn [flat_map length]. rewrite app_length. destruct i as [n [x|]|v]; simpl; lia. }
        lia. }
      rewrite (parse_tokendef_rt f tag items tsi c' s' a d ci si tk Hx' Hx Hst Hli Ei).
      rewrite (IH f ts' sec rest a _ _ c' s' Hrest Hok Hsec Hl1 E'). reflexivity.
    + inv_tok Hx' tk tsi Hk Hv. cbn [app] in E. inversion E; subst c s. clear E.
      destruct (tsi ++ c' :: s') as [|ci si] eqn:Ei; [destruct tsi; discriminate|].
      assert (Hli : length syms < f).
      { apply Forall2_length in Hx'. rewrite app_length, map_length in Hx'. cbn [length] in Hl2. lia. }
      cbn [declare_loop]. rewrite !cur_stS, Hk.
      rewrite (parse_preclist_rt f k tag syms tsi c' s' a d ci si tk Hk Hx' Hst Hli Ei).
      destruct k; cbn [pk_kind kind_eqb orb];
        rewrite (IH f ts' sec rest a _ _ c' s' Hrest Hok Hsec Hl1 E'); reflexivity.
    + inv_tok Hx' tk tsi Hk Hv. cbn [app] in E. inversion E; subst c s. clear E.
      destruct (tsi ++ c' :: s') as [|ci si] eqn:Ei; [destruct tsi; discriminate|].
      assert (Hli : length ns < f).
      { apply Forall2_length in Hx'. rewrite app_length, map_length in Hx'. cbn [length] in Hl2. lia. }
      assert (Hne : ns <> []) by (destruct ns; [discriminate | discriminate]).
      cbn [declare_loop]. rewrite !cur_stS, Hk. cbn [kind_eqb orb].
      rewrite (parse_typelist_rt f tag ns tsi c' s' a d ci si tk Hne Hx' Hst Hli Ei).
      rewrite (IH f ts' sec rest a _ _ c' s' Hrest Hok Hsec Hl1 E'). reflexivity.
    + inv_tok Hx' tk tsi Hk Hv. inv_tok Hx' tn tsj Hkn Hvn. apply Forall2_nil_inv in Hx'. subst tsj.
      cbn [name_kv fst snd] in Hkn, Hvn. cbn [app] in E. inversion E; subst c s. clear E.
      cbn [declare_loop]. rewrite !cur_stS, Hk. cbn [kind_eqb orb]. rewrite pnext_stS, cur_stS, Hkn. cbn [kind_eqb].
      rewrite pcur_stS, Hvn, pnext_stS.
      rewrite (IH f ts' sec rest a _ _ c' s' Hrest Hok Hsec Hl1 E'). reflexivity.
    + inv_tok Hx' tk tsi Hk Hv. apply Forall2_nil_inv in Hx'. subst tsi.
      cbn [app] in E. inversion E; subst c s. clear E.
      cbn [declare_loop]. rewrite !cur_stS, Hk. cbn [kind_eqb orb]. rewrite pcur_stS, Hv, pnext_stS.
      rewrite (IH f ts' sec rest a _ _ c' s' Hrest Hok Hsec Hl1 E'). reflexivity.
    + inv_tok Hx' tk tsi Hk Hv. apply Forall2_nil_inv in Hx'. subst tsi.
      cbn [app] in E. inversion E; subst c s. clear E.
      cbn [declare_loop]. rewrite !cur_stS, Hk. cbn [kind_eqb orb]. rewrite pcur_stS, Hv, pnext_stS.
      rewrite (IH f ts' sec rest a _ _ c' s' Hrest Hok Hsec Hl1 E'). reflexivity.
Qed.

(* ---------- rule groups ---------- *)
(* one pass of the loop over the alternatives of a group, spelled out for a state with at least one more token *)
Lemma rule_loop_unfold f lhs t1 t2 s2 a d acc :
  rule_loop (S f) lhs (stS t1 (t2 :: s2) a d) acc =
    let cur_rule := mkRuledef 0 lhs (ra_rhs acc) (ra_prec acc) in
    if kind_eqb (t_kind t1) LxEnd || (kind_eqb (t_kind t1) LxIdentifier && kind_eqb (t_kind t2) LxDefine) then
      RSome (ra_done acc ++ [cur_rule]) (ra_toks acc) (if kind_eqb (t_kind t1) LxEnd then stS t2 s2 t1 d else stB t1 t2 s2 d)
    else if kind_eqb (t_kind t1) LxChar then
      let nm := gen_temp_name (t_value t1) in
      if existsb (name_eqb nm) d
      then rule_loop f lhs (stS t2 s2 t1 d) (mkRA (ra_done acc) (ra_rhs acc ++ [RSym nm]) (ra_prec acc) (ra_toks acc))
      else rule_loop f lhs (stS t2 s2 t1 (nm :: d))
             (mkRA (ra_done acc) (ra_rhs acc ++ [RSym nm]) (ra_prec acc) (ra_toks acc ++ [mkIdent nm TermId (first_byte (t_value t1)) [] []]))
    else if kind_eqb (t_kind t1) LxIdentifier then
      rule_loop f lhs (stS t2 s2 t1 d) (mkRA (ra_done acc) (ra_rhs acc ++ [RSym (t_value t1)]) (ra_prec acc) (ra_toks acc))
    else if kind_eqb (t_kind t1) LxActionQuote then
      rule_loop f lhs (stS t2 s2 t1 d) (mkRA (ra_done acc) (ra_rhs acc ++ [RAct (t_value t1)]) (ra_prec acc) (ra_toks acc))
    else if kind_eqb (t_kind t1) LxOr then
      rule_loop f lhs (stS t2 s2 t1 d) (mkRA (ra_done acc ++ [cur_rule]) [] [] (ra_toks acc))
    else if kind_eqb (t_kind t1) LxPrec then
      if kind_eqb (t_kind t2) LxIdentifier
      then rule_loop f lhs (pnext (stS t2 s2 t1 d)) (mkRA (ra_done acc) (ra_rhs acc) (t_value t2) (ra_toks acc))
      else if kind_eqb (t_kind t2) LxChar
      then rule_loop f lhs (pnext (stS t2 s2 t1 d)) (mkRA (ra_done acc) (ra_rhs acc) (gen_temp_name (t_value t2)) (ra_toks acc))
      else RNone (perror (stS t2 s2 t1 d))
    else RSome (ra_done acc ++ [cur_rule]) (ra_toks acc) (stB t1 t2 s2 d).
Proof.
  cbn [rule_loop]. unfold cur_is, defined, pdef, pnext, pbackup2, stS, stB; cbn [p_cur p_pc p_strm p_a0 p_a1 p_tail p_err p_defs next_token arr fst snd].
  destruct (kind_eqb (t_kind t1) LxEnd); [reflexivity|]. cbn [orb].
  destruct (kind_eqb (t_kind t1) LxIdentifier && kind_eqb (t_kind t2) LxDefine); [reflexivity|].
  destruct (kind_eqb (t_kind t1) LxChar); [destruct (existsb (name_eqb (gen_temp_name (t_value t1))) d); reflexivity|].
  reflexivity.
Qed.

Inductive selem := ESym (s : psym) | EAct (v : list ascii) | EPrec (s : psym).
Definition selem_kv (e : selem) : list kv :=
  match e with
  | ESym s => [psym_kv s]
  | EAct v => [(LxActionQuote, Some v)]
  | EPrec s => [(LxPrec, None); psym_kv s]
  end.
Definition alt := list selem.

(* what one element of an alternative adds to the rule under construction and to the known token names *)
Definition elem_apply (x : rule_acc * list name) (e : selem) : rule_acc * list name :=
  let '(a, d) := x in
  match e with
  | ESym (PId n) => (mkRA (ra_done a) (ra_rhs a ++ [RSym n]) (ra_prec a) (ra_toks a), d)
  | ESym (PCh v) =>
    let nm := gen_temp_name v in
    if existsb (name_eqb nm) d then (mkRA (ra_done a) (ra_rhs a ++ [RSym nm]) (ra_prec a) (ra_toks a), d)
    else (mkRA (ra_done a) (ra_rhs a ++ [RSym nm]) (ra_prec a) (ra_toks a ++ [mkIdent nm TermId (first_byte v) [] []]), nm :: d)
  | EAct v => (mkRA (ra_done a) (ra_rhs a ++ [RAct v]) (ra_prec a) (ra_toks a), d)
  | EPrec s => (mkRA (ra_done a) (ra_rhs a) (psym_name s) (ra_toks a), d)
  end.

Lemma first_not_define al ts nxt rest c s :
  Forall2 M ts (flat_map selem_kv al) -> t_kind nxt <> LxDefine -> ts ++ nxt :: rest = c :: s -> t_kind c <> LxDefine.
Proof.
  intros HM Hn E. destruct al as [|e al]; cbn [flat_map] in HM.
  - apply Forall2_nil_inv in HM. subst ts. cbn [app] in E. inversion E; subst. exact Hn.
  - destruct e as [[n|v]|v|sy]; cbn [selem_kv psym_kv app] in HM; inv_tok HM t1 ts1 Hk1 Hv1;
      cbn [app] in E; inversion E; subst; rewrite Hk1; discriminate.
Qed.

Lemma elems_rt : forall (al : alt) fuel lhs ts nxt rest a d acc c s,
  Forall2 M ts (flat_map selem_kv al) -> t_kind nxt <> LxDefine -> ts ++ nxt :: rest = c :: s ->
  exists a', rule_loop (length al + fuel) lhs (stS c s a d) acc =
             rule_loop fuel lhs (stS nxt rest a' (snd (fold_left elem_apply al (acc, d)))) (fst (fold_left elem_apply al (acc, d))).
Proof.
  induction al as [|e al IH]; intros fuel lhs ts nxt rest a d acc c s HM Hn E.
  - cbn [flat_map] in HM. apply Forall2_nil_inv in HM. subst ts. cbn [app] in E. inversion E; subst c s. exists a. reflexivity.
  - cbn [flat_map] in HM. cbn [length plus fold_left].
    destruct e as [[n|v]|v|sy]; cbn [selem_kv psym_kv app] in HM.
    + inv_tok HM t1 ts1 Hk1 Hv1. cbn [app] in E. inversion E; subst c s. clear E.
      destruct (ts1 ++ nxt :: rest) as [|t2 s2] eqn:E2; [destruct ts1; discriminate|].
      pose proof (first_not_define al ts1 nxt rest t2 s2 HM Hn E2) as Hd.
      rewrite rule_loop_unfold. cbv zeta. rewrite Hk1, (kind_eqb_neq _ _ Hd). cbn [kind_eqb orb andb]. rewrite Hv1.
      apply (IH fuel lhs ts1 nxt rest t1 d _ t2 s2 HM Hn E2).
    + inv_tok HM t1 ts1 Hk1 Hv1. cbn [app] in E. inversion E; subst c s. clear E.
      destruct (ts1 ++ nxt :: rest) as [|t2 s2] eqn:E2; [destruct ts1; discriminate|].
      rewrite rule_loop_unfold. cbv zeta. rewrite Hk1. cbn [kind_eqb orb andb]. rewrite Hv1. cbn [elem_apply].
      destruct (existsb (name_eqb (gen_temp_name v)) d).
      * apply (IH fuel lhs ts1 nxt rest t1 d _ t2 s2 HM Hn E2).
      * apply (IH fuel lhs ts1 nxt rest t1 (gen_temp_name v :: d) _ t2 s2 HM Hn E2).
    + inv_tok HM t1 ts1 Hk1 Hv1. cbn [app] in E. inversion E; subst c s. clear E.
      destruct (ts1 ++ nxt :: rest) as [|t2 s2] eqn:E2; [destruct ts1; discriminate|].
      rewrite rule_loop_unfold. cbv zeta. rewrite Hk1. cbn [kind_eqb orb andb]. rewrite Hv1.
      apply (IH fuel lhs ts1 nxt rest t1 d _ t2 s2 HM Hn E2).
    + inv_tok HM t1 ts1 Hk1 Hv1. cbn [app] in E. inversion E; subst c s. clear E.
      destruct sy as [n|v]; cbn [psym_kv] in HM; inv_tok HM t2 ts2 Hk2 Hv2;
        (destruct (ts2 ++ nxt :: rest) as [|t3 s3] eqn:E3; [destruct ts2; discriminate|]);
        cbn [app]; rewrite rule_loop_unfold; cbv zeta; rewrite Hk1, Hk2; cbn [kind_eqb orb andb]; rewrite Hv2, E3, pnext_stS;
        apply (IH fuel lhs ts2 nxt rest t1 d _ t3 s3 HM Hn E3).
Qed.

(* the next token and the rest of the stream; a closed stream delivers EOF for ever *)
Definition adv (s : list tok) : tok * list tok := match s with t :: r => (t, r) | [] => (eof_tok, []) end.
Lemma pnext_adv t s a d : pnext (stS t s a d) = stS (fst (adv s)) (snd (adv s)) a d.
Proof. destruct s; reflexivity. Qed.

Lemma rule_loop_unfold' f lhs t1 s a d acc :
  rule_loop (S f) lhs (stS t1 s a d) acc = rule_loop (S f) lhs (stS t1 (fst (adv s) :: snd (adv s)) a d) acc
  \/ s = [].
Proof. destruct s; [right; reflexivity | left; reflexivity]. Qed.

(* at the end of the stream the loop over the alternatives leaves at once (the current token is the final one) *)
Lemma rule_loop_last f lhs t1 a d acc :
  t_kind t1 = LxEOF \/ t_kind t1 = LxSection ->
  rule_loop (S f) lhs (stS t1 [] a d) acc =
    RSome (ra_done acc ++ [mkRuledef 0 lhs (ra_rhs acc) (ra_prec acc)]) (ra_toks acc) (stB t1 eof_tok [] d).
Proof.
  intros Hk. cbn [rule_loop]. unfold cur_is, defined, pdef, pnext, pbackup2, stS, stB; cbn [p_cur p_pc p_strm p_a0 p_a1 p_tail p_err p_defs next_token arr fst snd].
  destruct Hk as [Hk|Hk]; rewrite Hk; reflexivity.
Qed.

(* positions: the parser stands at token t with s still to come, the look-back buffer in either of its two shapes *)
Definition at_pos (p : pstate) (t : tok) (s : list tok) (d : list name) : Prop :=
  (exists a, p = stS t s a d) \/ p = stB t (fst (adv s)) (snd (adv s)) d.
Lemma at_pos_next p t s d : at_pos p t s d -> exists a, pnext p = stS (fst (adv s)) (snd (adv s)) a d.
Proof. intros [[a ->]| ->]; [exists a; apply pnext_adv | exists t; reflexivity]. Qed.
Lemma at_pos_cur p t s d : at_pos p t s d -> p_cur p = t.
Proof. intros [[a ->]| ->]; reflexivity. Qed.

Definition close_alt (lhs : name) (x : rule_acc * list name) : rule_acc * list name :=
  (mkRA (ra_done (fst x) ++ [mkRuledef 0 lhs (ra_rhs (fst x)) (ra_prec (fst x))]) [] [] (ra_toks (fst x)), snd x).
Definition more_kv (more : list alt) : list kv := flat_map (fun b => (LxOr, None) :: flat_map selem_kv b) more.
Fixpoint more_iters (more : list alt) : nat := match more with [] => 0 | b :: r => S (length b + more_iters r) end.
Definition more_apply (lhs : name) (more : list alt) (x : rule_acc * list name) : rule_acc * list name :=
  fold_left (fun x b => fold_left elem_apply b (close_alt lhs x)) more x.

Lemma first_of_more more ts nxt rest c s :
  Forall2 M ts (more_kv more) -> t_kind nxt <> LxDefine -> ts ++ nxt :: rest = c :: s -> t_kind c <> LxDefine.
Proof.
  intros HM Hn E. destruct more as [|b more]; cbn [more_kv flat_map] in HM.
  - apply Forall2_nil_inv in HM. subst ts. cbn [app] in E. inversion E; subst. exact Hn.
  - cbn [app] in HM. inv_tok HM t1 ts1 Hk1 Hv1. cbn [app] in E. inversion E; subst. rewrite Hk1. discriminate.
Qed.

Lemma more_rt : forall more fuel lhs ts nxt rest a d acc c s,
  Forall2 M ts (more_kv more) -> t_kind nxt <> LxDefine -> ts ++ nxt :: rest = c :: s ->
  exists a', rule_loop (more_iters more + fuel) lhs (stS c s a d) acc =
             rule_loop fuel lhs (stS nxt rest a' (snd (more_apply lhs more (acc, d)))) (fst (more_apply lhs more (acc, d))).
Proof.
  induction more as [|b more IH]; intros fuel lhs ts nxt rest a d acc c s HM Hn E.
  - cbn [more_kv flat_map] in HM. apply Forall2_nil_inv in HM. subst ts. cbn [app] in E. inversion E; subst c s. exists a. reflexivity.
  - cbn [more_kv flat_map] in HM. fold (more_kv more) in HM. cbn [app] in HM.
    inv_tok HM tor ts1 Hk1 Hv1. apply Forall2_app_inv_r in HM. destruct HM as (tsb & ts' & Hb & Hmore & ->).
    cbn [app] in E. inversion E; subst c s. clear E. rewrite <- app_assoc.
    destruct (ts' ++ nxt :: rest) as [|c' s'] eqn:E'; [destruct ts'; discriminate|].
    pose proof (first_of_more more ts' nxt rest c' s' Hmore Hn E') as Hc'.
    destruct (tsb ++ c' :: s') as [|t2 s2] eqn:E2; [destruct tsb; discriminate|].
    cbn [more_iters plus]. rewrite rule_loop_unfold. cbv zeta. rewrite Hk1. cbn [kind_eqb orb andb].
    rewrite <- Nat.add_assoc.
    destruct (elems_rt b (more_iters more + fuel) lhs tsb c' s' tor d
                (mkRA (ra_done acc ++ [mkRuledef 0 lhs (ra_rhs acc) (ra_prec acc)]) [] [] (ra_toks acc)) t2 s2 Hb Hc' E2) as [a1 H1].
    rewrite H1.
    set (x1 := fold_left elem_apply b (mkRA (ra_done acc ++ [mkRuledef 0 lhs (ra_rhs acc) (ra_prec acc)]) [] [] (ra_toks acc), d)).
    destruct (IH fuel lhs ts' nxt rest a1 (snd x1) (fst x1) c' s' Hmore Hn E') as [a2 H2].
    exists a2. rewrite H2. unfold more_apply. cbn [fold_left]. unfold close_alt at 2 4. cbn [fst snd]. fold x1.
    rewrite <- (surjective_pairing x1). reflexivity.
Qed.

Record sgroup := { g_lhs : name; g_first : alt; g_more : list alt; g_semi : bool }.
Definition group_kv (g : sgroup) : list kv :=
  name_kv (g_lhs g) :: (LxDefine, None) ::
  flat_map selem_kv (g_first g) ++ more_kv (g_more g) ++ (if g_semi g then [(LxEnd, None)] else []).
(* the rules of the group (one per alternative, in order), the literals first used in it, the known names afterwards *)
Definition group_apply (g : sgroup) (d : list name) : rule_acc * list name :=
  close_alt (g_lhs g) (more_apply (g_lhs g) (g_more g) (fold_left elem_apply (g_first g) (mkRA [] [] [] [], d))).
Definition finalk (k : lkind) : bool := match k with LxSection | LxEOF => true | _ => false end.
(* what may follow a group that is not closed by ";": the next group (a name and a colon) or the end of the rules *)
Definition follows_open (nxt : tok) (rest : list tok) : Prop :=
  (t_kind nxt = LxIdentifier /\ exists t2 s2, rest = t2 :: s2 /\ t_kind t2 = LxDefine) \/ finalk (t_kind nxt) = true.

Lemma elems_len (al : alt) : length al <= length (flat_map selem_kv al).
Proof. induction al as [|e al IH]; [reflexivity|]. cbn [flat_map length]. rewrite app_length. destruct e as [sy|v|sy]; simpl; lia. Qed.
Lemma more_len more : more_iters more <= length (more_kv more).
Proof.
  induction more as [|b more IH]; [reflexivity|].
  change (more_kv (b :: more)) with (((LxOr, None) :: flat_map selem_kv b) ++ more_kv more).
  cbn [more_iters]. rewrite app_length. cbn [length]. pose proof (elems_len b). unfold kv in *. lia.
Qed.

Lemma group_rt g fuel p ts nxt rest tl s d :
  Forall2 M ts (group_kv g) -> ts ++ nxt :: rest = tl :: s -> at_pos p tl s d ->
  (g_semi g = false -> follows_open nxt rest) -> length ts < fuel ->
  exists p', parse_rule fuel p = RSome (ra_done (fst (group_apply g d))) (ra_toks (fst (group_apply g d))) p' /\
             at_pos p' nxt rest (snd (group_apply g d)).
Proof.
  intros HM E Hp Hopen Hf. unfold group_kv in HM.
  inv_tok HM t1 ts1 Hk1 Hv1. cbn [name_kv fst snd] in Hk1, Hv1. inv_tok HM tdef ts2 Hk2 Hv2.
  apply Forall2_app_inv_r in HM. destruct HM as (tsf & ts3 & Hfirst & HM & ->).
  apply Forall2_app_inv_r in HM. destruct HM as (tsm & tse & Hmore & Hend & ->).
  cbn [app] in E. inversion E; subst tl s. clear E.
  unfold parse_rule, cur_is. rewrite (at_pos_cur _ _ _ _ Hp), Hk1, Hv1. cbn [kind_eqb].
  destruct (at_pos_next _ _ _ _ Hp) as [a0 Hnext]. rewrite Hnext. cbn [adv fst snd].
  unfold pexpect. rewrite cur_stS, Hk2. cbn [kind_eqb].
  rewrite <- !app_assoc.
  (* the terminator and what follows *)
  assert (Hterm : exists ct st, tse ++ nxt :: rest = ct :: st /\ t_kind ct <> LxDefine /\
            forall f' a2 d2 acc2, exists p',
              rule_loop (S f') (g_lhs g) (stS ct st a2 d2) acc2 =
                RSome (ra_done acc2 ++ [mkRuledef 0 (g_lhs g) (ra_rhs acc2) (ra_prec acc2)]) (ra_toks acc2) p' /\ at_pos p' nxt rest d2).
  { destruct (g_semi g) eqn:Es.
    - inv_tok Hend tend tsx Hke Hve. apply Forall2_nil_inv in Hend. subst tsx. cbn [app].
      exists tend, (nxt :: rest). split; [reflexivity|]. split; [rewrite Hke; discriminate|].
      intros f' a2 d2 acc2. eexists. split.
      + rewrite rule_loop_unfold. cbv zeta. rewrite Hke. cbn [kind_eqb orb]. reflexivity.
      + left. eexists. reflexivity.
    - apply Forall2_nil_inv in Hend. subst tse. cbn [app]. exists nxt, rest. split; [reflexivity|].
      destruct (Hopen eq_refl) as [[Hid (t2 & s2 & -> & Hd)] | Hfin].
      + split; [rewrite Hid; discriminate|]. intros f' a2 d2 acc2. eexists. split.
        * rewrite rule_loop_unfold. cbv zeta. rewrite Hid, Hd. cbn [kind_eqb orb andb]. reflexivity.
        * right. reflexivity.
      + split; [destruct (t_kind nxt); try discriminate|]. intros f' a2 d2 acc2.
        destruct rest as [|t2 s2].
        * eexists. split; [apply rule_loop_last; destruct (t_kind nxt); try discriminate; auto | right; reflexivity].
        * eexists. split; [|right; reflexivity].
          rewrite rule_loop_unfold. cbv zeta. destruct (t_kind nxt); try discriminate; cbn [kind_eqb orb andb]; reflexivity. }
  destruct Hterm as (ct & st & Et & Hct & Hfinish). rewrite Et.
  destruct (tsm ++ ct :: st) as [|cm sm] eqn:Em; [destruct tsm; discriminate|].
  pose proof (first_of_more (g_more g) tsm ct st cm sm Hmore Hct Em) as Hcm.
  destruct (tsf ++ cm :: sm) as [|c1 s1] eqn:E1; [destruct tsf; discriminate|].
  rewrite pnext_stS.
  (* enough fuel for every pass of the loop *)
  pose proof (elems_len (g_first g)) as L1. pose proof (more_len (g_more g)) as L2.
  pose proof (Forall2_length _ _ _ Hfirst) as L3. pose proof (Forall2_length _ _ _ Hmore) as L4.
  cbn [length] in Hf. rewrite !app_length in Hf.
  set (n1 := length (g_first g)) in *. set (n2 := more_iters (g_more g)) in *.
  replace fuel with (n1 + (n2 + S (fuel - n1 - n2 - 1))) by lia.
  destruct (elems_rt (g_first g) (n2 + S (fuel - n1 - n2 - 1)) (g_lhs g) tsf cm sm a0 d (mkRA [] [] [] []) c1 s1 Hfirst Hcm E1) as [a1 H1].
  fold n1 in H1. rewrite H1.
  set (x1 := fold_left elem_apply (g_first g) (mkRA [] [] [] [], d)).
  destruct (more_rt (g_more g) (S (fuel - n1 - n2 - 1)) (g_lhs g) tsm ct st a1 (snd x1) (fst x1) cm sm Hmore Hct Em) as [a2 H2].
  fold n2 in H2. rewrite H2. rewrite <- (surjective_pairing x1).
  set (x2 := more_apply (g_lhs g) (g_more g) x1).
  destruct (Hfinish (fuel - n1 - n2 - 1) a2 (snd x2) (fst x2)) as (p' & H3 & H4).
  exists p'. split; [|exact H4]. rewrite H3. reflexivity.
Qed.

(* ---------- the rules section ---------- *)
Fixpoint groups_apply (gs : list sgroup) (d : list name) (rs : list ruledef) (toks : list (list ident))
  : list ruledef * list (list ident) * list name :=
  match gs with
  | [] => (rs, toks, d)
  | g :: r =>
    let x := group_apply g d in
    groups_apply r (snd x) (rs ++ ra_done (fst x)) (match ra_toks (fst x) with [] => toks | t => toks ++ [t] end)
  end.

(* after a group comes the next group (a name and a colon) or the final token *)
Lemma after_group gs ts fin rest :
  Forall2 M ts (flat_map group_kv gs) -> finalk (t_kind fin) = true ->
  exists c s, ts ++ fin :: rest = c :: s /\ follows_open c s.
Proof.
  intros HM Hfin. destruct gs as [|g gs]; cbn [flat_map] in HM.
  - apply Forall2_nil_inv in HM. subst ts. exists fin, rest. split; [reflexivity | right; exact Hfin].
  - unfold group_kv in HM. cbn [app] in HM. inv_tok HM t1 ts1 Hk1 Hv1. inv_tok HM t2 ts2 Hk2 Hv2.
    exists t1, (t2 :: ts2 ++ fin :: rest). split; [reflexivity|]. left. split; [exact Hk1|]. eexists _, _. split; [reflexivity | exact Hk2].
Qed.

Lemma rules_rt : forall gs fuel p ts fin rest tl s d rs toks,
  Forall2 M ts (flat_map group_kv gs) -> ts ++ fin :: rest = tl :: s -> at_pos p tl s d ->
  finalk (t_kind fin) = true -> length ts + 1 < fuel ->
  exists p', rules_loop fuel p rs toks =
               Some (fst (fst (groups_apply gs d rs toks)), snd (fst (groups_apply gs d rs toks)), p') /\ p_cur p' = fin.
Proof.
  induction gs as [|g gs IH]; intros fuel p ts fin rest tl s d rs toks HM E Hp Hfin Hf.
  - cbn [flat_map] in HM. apply Forall2_nil_inv in HM. subst ts. cbn [app] in E. inversion E; subst tl s.
    destruct fuel as [|f]; [lia|]. cbn [rules_loop]. unfold parse_rule, cur_is. rewrite (at_pos_cur _ _ _ _ Hp).
    assert (Hk : kind_eqb (t_kind fin) LxIdentifier = false) by (destruct (t_kind fin); try discriminate; reflexivity).
    rewrite Hk. eexists. split; [reflexivity|]. cbn [pbackup p_cur]. apply (at_pos_cur _ _ _ _ Hp).
  - destruct fuel as [|f]; [lia|].
    cbn [flat_map] in HM. apply Forall2_app_inv_r in HM. destruct HM as (tsg & ts' & Hg & Hrest & ->).
    rewrite <- app_assoc in E.
    destruct (after_group gs ts' fin rest Hrest Hfin) as (c' & s' & E' & Hopen).
    rewrite E' in E. rewrite app_length in Hf.
    assert (Hlg : 2 <= length tsg).
    { apply Forall2_length in Hg. unfold group_kv in Hg. cbn [length] in Hg. lia. }
    destruct (group_rt g f p tsg c' s' tl s d Hg E Hp (fun _ => Hopen) ltac:(lia)) as (p1 & H1 & Hp1).
    cbn [rules_loop]. rewrite H1.
    destruct (IH f p1 ts' fin rest c' s' _ (rs ++ ra_done (fst (group_apply g d)))
                (match ra_toks (fst (group_apply g d)) with [] => toks | _ => toks ++ [ra_toks (fst (group_apply g d))] end)
                Hrest E' Hp1 Hfin ltac:(lia)) as (p' & H2 & Hc).
    exists p'. split; [|exact Hc]. rewrite H2. cbn [groups_apply].
    destruct (ra_toks (fst (group_apply g d))); reflexivity.
Qed.

(* ---------- the whole file ---------- *)
Record spec := { s_decls : list sdecl; s_groups : list sgroup }.
Definition spec_kv (sp : spec) : list kv :=
  flat_map decl_kv (s_decls sp) ++ (LxSection, None) :: flat_map group_kv (s_groups sp).
Definition spec_ok (sp : spec) : bool := forallb decl_ok (s_decls sp).

(* the AST the parser must deliver for the specification; `rest` is the text after the second %% (the epilogue) *)
Definition spec_ast (sp : spec) (rest : list ascii) : ast :=
  let dd := fold_left decl_apply (s_decls sp) (mkDA [] [] [] [] [] start_default, []) in
  let r := groups_apply (s_groups sp) (snd dd) [] [] in
  let da := fst dd in
  mkAst (mkDecl (da_code da) (da_toks da ++ snd (fst r)) (da_precs da) (da_types da) (da_union da) (da_start da)) (fst (fst r)) rest.

Theorem parse_spec sp ts fin rest fuel :
  Forall2 M ts (spec_kv sp) -> spec_ok sp = true -> finalk (t_kind fin) = true ->
  2 * length (ts ++ fin :: rest) + 8 <= fuel ->
  parse_tokens fuel (ts ++ fin :: rest) Closed =
    PAst (spec_ast sp (if kind_eqb (t_kind fin) LxSection then t_rest fin else [])).
Proof.
  intros HM Hok Hfin Hf. unfold spec_kv in HM. apply Forall2_app_inv_r in HM.
  destruct HM as (tsd & ts2 & Hd & HM & ->). inv_tok HM sec tsg Hks Hvs.
  repeat (rewrite app_length in Hf || cbn [length] in Hf).
  unfold parse_tokens.
  change (mkP zero_tok zero_tok zero_tok 0 ((tsd ++ sec :: tsg) ++ fin :: rest) Closed false []) with
         (stS zero_tok ((tsd ++ sec :: tsg) ++ fin :: rest) zero_tok []).
  rewrite <- app_assoc. cbn [app].
  destruct (tsd ++ sec :: tsg ++ fin :: rest) as [|c s] eqn:E; [destruct tsd; discriminate|].
  rewrite pnext_stS.
  rewrite (declare_rt (s_decls sp) fuel tsd sec (tsg ++ fin :: rest) zero_tok [] _ c s Hd Hok Hks ltac:(lia) E).
  set (dd := fold_left decl_apply (s_decls sp) (mkDA [] [] [] [] [] start_default, [])).
  rewrite cur_stS, Hks. cbn [kind_eqb negb].
  destruct (tsg ++ fin :: rest) as [|tl s2] eqn:E2; [destruct tsg; discriminate|].
  rewrite pnext_stS.
  destruct (rules_rt (s_groups sp) fuel (stS tl s2 zero_tok (snd dd)) tsg fin rest tl s2 (snd dd) [] [] HM E2
              (or_introl (ex_intro _ zero_tok eq_refl)) Hfin ltac:(lia)) as (p' & H & Hc).
  rewrite H. unfold cur_is. rewrite Hc.
  assert (Hb : negb (kind_eqb (t_kind fin) LxSection) && negb (kind_eqb (t_kind fin) LxEOF) = false)
    by (destruct (t_kind fin); try discriminate; reflexivity).
  rewrite Hb. reflexivity.
Qed.
