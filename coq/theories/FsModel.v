(* Model: the effect of `yaccgo generate` on the output path (Builder/GoTemplBuilder.go
   TemplateGenFromString, Builder/TsGenCode.go TsGenFromString, yaccgo/command.go genCommonFunc).
   A generation is a fixed sequence of steps; every step before the file is created can fail for a
   reason attributable to the input (lexical error, syntax error, undefined symbol, unusable grammar,
   $n out of range or untyped); os.Create truncates; WriteFile writes the whole text.
   The file system is a map from paths to contents. Definitions and their proofs (small). *)
From Coq Require Import List Bool Arith.
Import ListNotations.

Inductive step := SLex | SSyntax | SVisit | SBuild | SConst | SUnion | STable | SState | SReduce | STranslate | SCreate | SWrite.

Definition step_eqb (a b : step) : bool :=
  match a, b with
  | SLex, SLex | SSyntax, SSyntax | SVisit, SVisit | SBuild, SBuild | SConst, SConst | SUnion, SUnion
  | STable, STable | SState, SState | SReduce, SReduce | STranslate, STranslate | SCreate, SCreate | SWrite, SWrite => true
  | _, _ => false
  end.
Lemma step_eqb_eq a b : step_eqb a b = true <-> a = b.
Proof. destruct a, b; simpl; split; intro H; try reflexivity; try discriminate. Qed.

(* the order of TemplateGenFromString / TsGenFromString: ParseAndBuild (lexer, parser, visitor, grammar
   and LALR construction), then the builder's string-producing steps, then os.Create, then WriteFile *)
Definition gen_steps : list step :=
  [SLex; SSyntax; SVisit; SBuild; SConst; SUnion; STable; SState; SReduce; STranslate; SCreate; SWrite].

(* steps at which a failure is caused by the input text (the property's hypothesis); failures of
   SCreate / SWrite (permissions, disk full) are not input-caused *)
Definition input_caused (s : step) : bool :=
  match s with SCreate | SWrite => false | _ => true end.

Section Fs.
Variable content : Type.
(* paths: any type with a decidable equality (strings in reality) *)
Variable path : Type.
Variable path_eqb : path -> path -> bool.
Hypothesis path_eqb_eq : forall p q, path_eqb p q = true <-> p = q.
Definition fs := path -> option content.
Definition upd (f : fs) (p : path) (c : option content) : fs :=
  fun q => if path_eqb q p then c else f q.

Inductive outcome := Success | Failed (s : step).

(* run the steps in order; `fails` tells which step (if any) fails on this input *)
Fixpoint run_steps (steps : list step) (fails : step -> bool) (f : fs) (out : path) (empty text : content) : fs * outcome :=
  match steps with
  | [] => (f, Success)
  | s :: rest =>
    if fails s then (f, Failed s)
    else
      let f' := match s with
                | SCreate => upd f out (Some empty)     (* os.Create: create or truncate *)
                | SWrite => upd f out (Some text)       (* template output, the whole file *)
                | _ => f
                end in
      run_steps rest fails f' out empty text
  end.

Definition run_gen := run_steps gen_steps.

Lemma upd_same f p c : upd f p c p = c.
Proof. unfold upd. assert (E : path_eqb p p = true) by (apply path_eqb_eq; reflexivity). rewrite E. reflexivity. Qed.
Lemma upd_other f p c q : q <> p -> upd f p c q = f q.
Proof. unfold upd. intro H. destruct (path_eqb q p) eqn:E; [apply path_eqb_eq in E; contradiction|reflexivity]. Qed.

Definition touches (s : step) : bool := match s with SCreate | SWrite => true | _ => false end.

(* steps that do not touch the file system leave it as it was, whatever the outcome *)
Lemma run_pure steps fails f out empty text :
  (forall s, In s steps -> touches s = false) -> fst (run_steps steps fails f out empty text) = f.
Proof.
  revert f. induction steps as [|x xs IH]; intros f H; cbn [run_steps]; [reflexivity|].
  destruct (fails x); [reflexivity|].
  assert (Hx : touches x = false) by (apply H; left; reflexivity).
  rewrite IH by (intros s Hs; apply H; right; exact Hs).
  destruct x; try reflexivity; discriminate Hx.
Qed.

Lemma run_app a b fails f out empty text :
  run_steps (a ++ b) fails f out empty text =
  match run_steps a fails f out empty text with
  | (f', Success) => run_steps b fails f' out empty text
  | r => r
  end.
Proof.
  revert f. induction a as [|x xs IH]; intros f; cbn [run_steps app]; [reflexivity|].
  destruct (fails x); [reflexivity|]. apply IH.
Qed.

Lemma failed_step_fails steps fails f out empty text s f' :
  run_steps steps fails f out empty text = (f', Failed s) -> fails s = true /\ In s steps.
Proof.
  revert f. induction steps as [|x xs IH]; intros f H; cbn [run_steps] in H; [discriminate|].
  destruct (fails x) eqn:E.
  - inversion H; subst. split; [exact E|left; reflexivity].
  - apply IH in H. destruct H; split; [assumption|right; assumption].
Qed.

Lemma success_no_failure steps fails f out empty text f' :
  run_steps steps fails f out empty text = (f', Success) -> forall s, In s steps -> fails s = false.
Proof.
  revert f. induction steps as [|x xs IH]; intros f H s Hs; cbn [run_steps] in H; [destruct Hs|].
  destruct (fails x) eqn:E; [discriminate|].
  destruct Hs as [<-|Hs]; [exact E|]. eapply IH; eauto.
Qed.

Lemma no_failure_success steps fails f out empty text :
  (forall s, In s steps -> fails s = false) -> snd (run_steps steps fails f out empty text) = Success.
Proof.
  revert f. induction steps as [|x xs IH]; intros f H; cbn [run_steps]; [reflexivity|].
  rewrite (H x) by (left; reflexivity). apply IH. intros s Hs. apply H. right. exact Hs.
Qed.

Definition pre_steps : list step := [SLex; SSyntax; SVisit; SBuild; SConst; SUnion; STable; SState; SReduce; STranslate].
Definition post_steps : list step := [SCreate; SWrite].
Lemma gen_steps_split : gen_steps = pre_steps ++ post_steps.
Proof. reflexivity. Qed.
Lemma pre_pure : forall s, In s pre_steps -> touches s = false.
Proof. intros s H. cbn [pre_steps In] in H. repeat (destruct H as [<-|H]; [reflexivity|]). destruct H. Qed.

(* C19, first half: an input-caused failure leaves every file, in particular the one at the output
   path, exactly as it was *)
Theorem atomic_on_failure fails f out empty text s :
  snd (run_gen fails f out empty text) = Failed s ->
  input_caused s = true ->
  forall p, fst (run_gen fails f out empty text) p = f p.
Proof.
  unfold run_gen. rewrite gen_steps_split, run_app. intros H Hic p.
  pose proof (run_pure pre_steps fails f out empty text pre_pure) as Hp.
  destruct (run_steps pre_steps fails f out empty text) as [f' o] eqn:E. cbn [fst] in Hp. subst f'.
  destruct o as [|s']; [|reflexivity].
  (* the pure steps succeeded: the failing step is SCreate or SWrite, not input-caused *)
  exfalso. unfold post_steps in H. cbn [run_steps] in H.
  destruct (fails SCreate); [cbn [snd] in H; inversion H; subst; discriminate Hic|].
  destruct (fails SWrite); [cbn [snd] in H; inversion H; subst; discriminate Hic|].
  discriminate H.
Qed.

(* C19, second half: a successful generation leaves exactly the generated text at the output path
   (whatever was there before, longer or shorter) and touches no other path *)
Theorem complete_on_success fails f out empty text :
  snd (run_gen fails f out empty text) = Success ->
  fst (run_gen fails f out empty text) out = Some text /\
  forall p, p <> out -> fst (run_gen fails f out empty text) p = f p.
Proof.
  unfold run_gen. rewrite gen_steps_split, run_app. intros H.
  pose proof (run_pure pre_steps fails f out empty text pre_pure) as Hp.
  destruct (run_steps pre_steps fails f out empty text) as [f' o] eqn:E. cbn [fst] in Hp. subst f'.
  destruct o as [|s']; [|discriminate H].
  unfold post_steps in *. cbn [run_steps] in *.
  destruct (fails SCreate); [discriminate H|].
  destruct (fails SWrite); [discriminate H|].
  cbn [fst]. split; [apply upd_same|].
  intros p Hp. rewrite !upd_other by exact Hp. reflexivity.
Qed.

(* the outcome is Success exactly when no step fails *)
Theorem success_iff_no_failure fails f out empty text :
  snd (run_gen fails f out empty text) = Success <-> forall s, In s gen_steps -> fails s = false.
Proof.
  split.
  - intros H. destruct (run_gen fails f out empty text) as [f' o] eqn:E. cbn [snd] in H. subst o.
    eapply success_no_failure. exact E.
  - apply no_failure_success.
Qed.
End Fs.

(* executable instance used by the correspondence check: contents are tags *)
Inductive tagc := Old | Empty | New.
Definition predict (failing : option step) : option tagc :=
  let fails := fun s => match failing with Some x => step_eqb s x | None => false end in
  fst (run_gen tagc nat Nat.eqb fails (fun _ => Some Old) 0 Empty New) 0.
