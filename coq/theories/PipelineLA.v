(* The lookahead tables of the pipeline (Pipeline.la_table: nullable list computed once, Follow computed once
   per nonterminal transition) are the executable DeRemer-Pennello lists LAl of LAExec, so that the table the
   pipeline generates is the table of C02Assembly / C03Assembly; with that, completeness (C02) and exactness of
   the lookaheads (C03) hold for the tables the pipeline emits. *)
From Coq Require Import List Arith ZArith Bool Lia.
Import ListNotations.
From YG Require Import LRBase CompleteDriver LR0Build LR0More LASuperset LASubset LAExec Productive Resolve TableCert
  C02Assembly C03Assembly Pipeline PipelineProofs PipelineRun.
Local Open Scope nat_scope.

Lemma is_nt_b_spec g X : is_nt_b g X = true <-> is_nt g X.
Proof.
  unfold is_nt_b, is_nt. rewrite existsb_exists. split.
  - intros (R & HR & E). apply Nat.eqb_eq in E. apply In_nth_error in HR. destruct HR as (r & Hr). exists r, R. auto.
  - intros (r & R & Hr & E). exists R. split; [eapply nth_error_In; eauto|apply Nat.eqb_eq; exact E].
Qed.

Lemma productive_nullable g X : productive g (fun _ => false) X <-> nullable g X.
Proof.
  split.
  - apply (productive_ind' g (fun _ => false) (fun X => nullable g X)).
    + intros a H. discriminate.
    + intros r R HR _ IH. econstructor; eauto.
  - apply (nullable_ind' g (fun X => productive g (fun _ => false) X)).
    intros r R HR _ IH. eapply prod_r; eauto.
Qed.
Lemma nullable_b_spec g X : nullable_b g X = true <-> nullable g X.
Proof.
  rewrite <- productive_nullable, <- (productive_set_correct g (fun _ => false) X).
  unfold nullable_b, nullable_list, can. cbn [orb]. reflexivity.
Qed.

Lemma assoc_list_map {A} (f : nat -> list A) r l : In r l -> assoc_list r (map (fun r0 => (r0, f r0)) l) = f r.
Proof.
  induction l as [|x l IH]; intro H; [destruct H|]. cbn [map assoc_list].
  destruct (Nat.eqb_spec r x) as [->|Hne]; [reflexivity|]. destruct H as [->|H]; [contradiction|]. apply IH. exact H.
Qed.

Section LA.
Variables (g : grammar) (aut : automaton).
Let S0 := start_user g.
Let nb := nullable_b g.
Let nt := is_nt_b g.

Lemma follow_lookup_spec x : In x (all_trans aut) -> follow_lookup (follow_table g aut) x = Followl g aut S0 nb nt x.
Proof.
  unfold follow_table. cbv zeta.
  change (fun X : nat => Productive.nmem X (nullable_list g)) with nb. fold S0. fold nt.
  induction (all_trans aut) as [|y l IH]; intro H; [destruct H|]. cbn [map follow_lookup].
  destruct (ntrans_eqb x y) eqn:E.
  - apply ntrans_eqb_eq in E. subst y. reflexivity.
  - destruct H as [->|H]; [|apply IH; exact H].
    assert (ntrans_eqb x x = true) by (apply ntrans_eqb_eq; reflexivity). congruence.
Qed.

Lemma lookback_all q r x : In x (lookback g aut q r) -> In x (all_trans aut).
Proof.
  unfold lookback. rewrite in_flat_map. intros (p & _ & H).
  destruct (walk aut p (rhs_of g r)) as [q1|]; [|destruct H].
  destruct (Nat.eqb q1 q && has_trans aut (p, lhs_of g r)) eqn:E; [|destruct H]. destruct H as [<-|[]].
  apply andb_true_iff in E. destruct E as [_ E]. apply all_trans_spec. apply has_trans_spec in E. exact E.
Qed.

Lemma flat_map_ext_in {A B} (f h : A -> list B) l : (forall x, In x l -> f x = h x) -> flat_map f l = flat_map h l.
Proof.
  induction l as [|x l IH]; intro H; [reflexivity|]. cbn [flat_map]. rewrite (H x) by (left; reflexivity).
  rewrite IH; [reflexivity|]. intros y Hy. apply H. right. exact Hy.
Qed.

Lemma la_lookup_spec q r : q < length aut -> In r (complete_rules g aut q) ->
  la_lookup (la_table g aut) q r = LAl g aut S0 nb nt q r.
Proof.
  intros Hq Hr. unfold la_lookup, la_table. cbv zeta.
  rewrite nth_map_seq0 by exact Hq.
  rewrite (assoc_list_map (fun r0 => la_fast g aut (follow_table g aut) q r0) r _ Hr).
  unfold la_fast, LAl. destruct (Nat.eqb r 0); [reflexivity|].
  apply flat_map_ext_in. intros x Hx. apply follow_lookup_spec. eapply lookback_all. exact Hx.
Qed.

Variables (sprec rprec : nat -> Z * Resolve.assoc).

Lemma complete_rules_out q : length aut <= q -> complete_rules g aut q = [].
Proof. intro H. unfold complete_rules. rewrite st_out by exact H. reflexivity. Qed.

Lemma candidates_eq q a :
  candidates g aut (la_lookup (la_table g aut)) sprec rprec q a = candidates g aut (LAl g aut S0 nb nt) sprec rprec q a.
Proof.
  unfold candidates. f_equal. f_equal.
  destruct (Nat.lt_ge_cases q (length aut)) as [Hq|Hq].
  - apply filter_ext_in. intros r Hr. unfold la'. destruct (Nat.eqb r 0); [reflexivity|].
    rewrite la_lookup_spec by assumption. reflexivity.
  - rewrite complete_rules_out by exact Hq. reflexivity.
Qed.

Lemma gen_table_eq q a :
  gen_table g aut (la_lookup (la_table g aut)) sprec rprec q a = C02Assembly.tab g aut S0 nb nt sprec rprec q a.
Proof. unfold C02Assembly.tab, C02Assembly.la, gen_table. rewrite candidates_eq. reflexivity. Qed.
End LA.

(* tables that agree everywhere drive the machine identically *)
Lemma run_ext_all t1 t2 g : (forall q a, t1 q a = t2 q a) -> forall fuel stk inp reds, run fuel t1 g stk inp reds = run fuel t2 g stk inp reds.
Proof.
  intros H. induction fuel as [|f IH]; intros stk inp reds; cbn [run]; [reflexivity|].
  rewrite <- H. destruct (t1 (top_state stk) (hd eof inp)); try reflexivity; [apply IH|].
  destruct (nth_error g r); [|reflexivity]. cbv zeta. destruct (skipn (length (rhs r0)) stk); [reflexivity|].
  rewrite <- H. destruct (t1 (top_state (p :: l)) (lhs r0)); try reflexivity. apply IH.
Qed.

(* ---------- C02 and C03 for the tables the pipeline emits ---------- *)
Section Complete.
Variable gi : ginfo.
Let g := gi_rules gi.
Hypothesis no_start_in_rhs : forall r d, nth_error (rhs_of g r) d <> Some 0.
Hypothesis rule0_lhs : lhs_of g 0 = 0.
Hypothesis no_eof_in_rhs : forall r d, nth_error (rhs_of g r) d <> Some eof.
Hypothesis rule0_rhs : rhs_of g 0 = [start_user g].
Hypothesis eof_terminal : ~ is_nt g eof.
Hypothesis productive_all : forall seq l, ~ is_nt g l -> exists b, first_seq g (seq ++ [l]) b.
Hypothesis nsyms_ok : eof < gi_nsyms gi.
Hypothesis lhs_ok : forall r R, nth_error g r = Some R -> lhs R < gi_nsyms gi.

(* C03: the lookahead table of the pipeline holds, for every reduction in every state, exactly the LR(1)
   lookaheads over all access paths of that state *)
Theorem pipeline_lookaheads_exact t : generate_tables gi = inr t ->
  forall q r a, q < length (t_aut t) -> r <> 0 -> In (r, length (rhs_of g r)) (items (LRBase.st (t_aut t) q)) ->
  (In a (la_lookup (t_la t) q r) <-> LALR_LA g (t_aut t) q (r, length (rhs_of g r)) a).
Proof.
  unfold generate_tables. fold g. destruct (unproductive gi); [|discriminate].
  destruct (build g) as [aut|] eqn:Eb; [|discriminate].
  intro H. inversion H; subst t. clear H. cbn [t_aut t_la].
  intros q r a Hq Hr Hin.
  assert (Hc : In r (complete_rules g aut q)).
  { unfold complete_rules. apply in_map_iff. exists (r, length (rhs_of g r)). split; [reflexivity|].
    apply filter_In. split; [exact Hin|]. cbn [fst snd]. apply Nat.eqb_refl. }
  rewrite la_lookup_spec by assumption.
  apply (C03_model g aut (start_user g) no_start_in_rhs rule0_lhs no_eof_in_rhs rule0_rhs eof_terminal productive_all Eb
           (nullable_b g) (nullable_b_spec g) (is_nt_b g) (is_nt_b_spec g) q r a Hr Hin).
Qed.

(* C02: if no cell has two candidate actions, the emitted dense matrix makes the LR machine accept the yield of
   every valid parse tree whose symbols are symbols of the grammar object, with its post-order as reductions *)
Theorem pipeline_complete t : generate_tables gi = inr t ->
  (forall q a, length (candidates g (t_aut t) (la_lookup (t_la t)) (sprec_of gi) (rprec_of gi) q a) <= 1) ->
  forall tr : tree, tvalid g tr -> Some (root g tr) = hd_error (rhs_of g 0) ->
  (forall a, In a (yield tr) -> a < gi_nsyms gi) ->
  exists fuel, run fuel (dense_action (length (t_aut t)) (t_dense t)) g [(0, eof)] (yield tr) [] = Acc (post tr).
Proof.
  unfold generate_tables. fold g. destruct (unproductive gi); [|discriminate].
  destruct (build g) as [aut|] eqn:Eb; [|discriminate].
  intro H. inversion H; subst t. clear H. cbn [t_aut t_la t_dense].
  set (nst := length aut). set (tabl := la_table g aut). set (T := action_fun gi aut tabl).
  intros Hcf tr Hv Hroot Hy.
  assert (Hcf' : forall q a, length (cands g aut (start_user g) (nullable_b g) (is_nt_b g) (sprec_of gi) (rprec_of gi) q a) <= 1).
  { intros q a. unfold cands, C02Assembly.la. rewrite <- candidates_eq. apply Hcf. }
  destruct (C02_model g aut (start_user g) no_start_in_rhs rule0_lhs no_eof_in_rhs rule0_rhs eof_terminal productive_all Eb
              (nullable_b g) (nullable_b_spec g) (is_nt_b g) (is_nt_b_spec g) (sprec_of gi) (rprec_of gi) Hcf' tr Hv Hroot) as [fuel Hrun].
  exists fuel.
  rewrite <- (run_ext_all T _ g (fun q a => gen_table_eq g aut (sprec_of gi) (rprec_of gi) q a)) in Hrun.
  (* from the table function to the emitted matrix: inside the table they agree, and the run stays inside *)
  pose proof (build_structural g no_start_in_rhs rule0_lhs no_eof_in_rhs aut Eb) as Hstruct.
  destruct (build_goto_lt g rule0_lhs no_eof_in_rhs aut Eb) as [Hpos Hlt].
  assert (Hglen : 0 < length g).
  { unfold rhs_of in rule0_rhs. destruct (nth_error g 0) eqn:E; [|discriminate]. apply nth_error_Some. congruence. }
  destruct (build_more g Hglen (or_intror I) aut Eb) as (Hvalid & _).
  assert (Hitems : forall q r d, In (r, d) (items (LRBase.st aut q)) -> r < length g) by (intros q r d Hin; apply (Hvalid q (r, d) Hin)).
  pose proof (gen_table_cert g aut (la_lookup tabl) (sprec_of gi) (rprec_of gi) Hitems (ex_intro _ _ rule0_rhs) Hstruct) as Hcert.
  fold T in Hcert.
  assert (Hshift : forall q a q', q < nst -> a < gi_nsyms gi -> T q a = Shift q' -> 0 < q' < nst).
  { intros q a q' _ _ E. apply (c_shift _ _ _ Hcert) in E. split; [|eapply Hlt; exact E].
    destruct (c_goto _ _ _ Hcert _ _ _ E) as [Hne _]. lia. }
  rewrite <- (run_ext nst (gi_nsyms gi) g Hpos nsyms_ok lhs_ok T _ (dense_agrees nst (gi_nsyms gi) T Hshift)).
  - exact Hrun.
  - intros q a q' Hq Ha E. apply (Hshift q a q' Hq Ha E).
  - constructor; [cbn; exact Hpos|constructor].
  - apply Forall_forall. exact Hy.
Qed.
End Complete.
