(* Model: the semantic half of yaccgo's front end.
     AST (Parser/Parser.go: DeclareNode, RuleDefNode)  --Vistor.go-->  identifier table, token codes,
     rules with precedence symbols  --BuildLALR1-->  grammar object (Pipeline.ginfo) + usability checks.
   Names are byte strings (list ascii).  Go maps become association lists; the only places where the
   code ranges over the identifier map go through sortedNames (sort.Strings = bytewise order), which is
   the insertion sort below.  Definitions only (the proofs are in FrontProofs.v). *)
From Coq Require Import List Arith ZArith Bool Ascii NArith.
Import ListNotations.
From YG Require Import LRBase Productive Resolve Pipeline.

Definition name := list ascii.

Fixpoint name_eqb (a b : name) : bool :=
  match a, b with
  | [], [] => true
  | x :: a', y :: b' => Ascii.eqb x y && name_eqb a' b'
  | _, _ => false
  end.

(* bytewise lexicographic order (Go string comparison) *)
Fixpoint name_leb (a b : name) : bool :=
  match a, b with
  | [], _ => true
  | _ :: _, [] => false
  | x :: a', y :: b' =>
    if N.ltb (N_of_ascii x) (N_of_ascii y) then true
    else if N.ltb (N_of_ascii y) (N_of_ascii x) then false
    else name_leb a' b'
  end.

Fixpoint ins_name (x : name) (l : list name) : list name :=
  match l with
  | [] => [x]
  | y :: l' => if name_leb x y then x :: l else y :: ins_name x l'
  end.
Definition sort_names (l : list name) : list name := fold_right ins_name [] l.

(* ---------- AST ---------- *)
Inductive idtyp := TermId | NontermId.
Record ident := mkIdent { i_name : name; i_typ : idtyp; i_value : Z; i_tag : name; i_alias : name }.
Inductive assoc_kw := ALeft | ARight | ANon.            (* LeftAssocType, RightAssocype, NonAssocType (also %precedence) *)
Record precdef := mkPrecdef { pd_assoc : assoc_kw; pd_name : name }.
Record declnode := mkDecl {
  d_code : list ascii;                                  (* %{ ... %} text, concatenated *)
  d_tokens : list (list ident);                         (* TokenDefList *)
  d_precs : list (list precdef);                        (* PrecDefList, one entry per %left/%right/%nonassoc/%precedence line *)
  d_types : list (name * name);                         (* TypeDefList: (tag, identifier) *)
  d_union : list ascii;
  d_start : name                                        (* StartSym, "start" when there is no %start *)
}.
Inductive relem := RSym (n : name) | RAct (code : list ascii).
Record ruledef := mkRuledef { r_line : nat; r_lhs : name; r_rhs : list relem; r_prec : name }.   (* r_prec = [] : no %prec *)
Record ast := mkAst { a_decl : declnode; a_rules : list ruledef; a_rest : list ascii }.

(* ---------- identifier table (map[string]*Idendity) ---------- *)
Definition idtab := list ident.
Fixpoint tab_find (t : idtab) (n : name) : option ident :=
  match t with
  | [] => None
  | i :: t' => if name_eqb (i_name i) n then Some i else tab_find t' n
  end.
Fixpoint tab_update (t : idtab) (n : name) (f : ident -> ident) : idtab :=
  match t with
  | [] => []
  | i :: t' => if name_eqb (i_name i) n then f i :: t' else i :: tab_update t' n f
  end.
Definition tab_has (t : idtab) (n : name) : bool := match tab_find t n with Some _ => true | None => false end.
(* usable in a rule: known, and not an alias of the end marker (a token declared with the code -1 gets no grammar symbol) *)
Definition tab_usable (t : idtab) (n : name) : bool :=
  match tab_find t n with Some i => negb (Z.eqb (i_value i) (-1)) | None => false end.
Definition tab_names (t : idtab) : list name := map i_name t.

Definition is_nil {A} (l : list A) : bool := match l with [] => true | _ => false end.

(* ---------- astDeclareVistor.Process ---------- *)
Record dstate := mkDstate {
  ds_tab : idtab;
  ds_max : Z;                                           (* idMaxValue, starts at 2 *)
  ds_precidx : nat;                                     (* precIndex *)
  ds_prelist : list (nat * assoc_kw * name)             (* preIdList: (Prec, AssocType, Id.Name) *)
}.

Inductive front_error :=
| FPrecUnknown (n : name)          (* "prec symbol %s not found" *)
| FUndefined (n : name)            (* "It's not define symbol" *)
| FNoRule (n : name)               (* "Check the nonterminal %s in left part of rules" *)
| FNoStart                         (* start symbol has no grammar symbol (nil dereference in the code) *)
| FUnproductive (l : list nat)     (* "Dected infinite loop" *)
| FTooMany.                        (* more than 2000 states *)

(* 1. tokens *)
Definition merge_token (old id : ident) : ident :=
  mkIdent (i_name old) (i_typ old)
          (if Z.eqb (i_value id) 0 then i_value old else i_value id)
          (if is_nil (i_tag id) then i_tag old else i_tag id)
          (if is_nil (i_alias id) then i_alias old else i_alias id).
Definition add_token (s : dstate) (id : ident) : dstate :=
  let mx := if Z.ltb (ds_max s) (i_value id) then i_value id else ds_max s in
  let tab := if tab_has (ds_tab s) (i_name id)
             then tab_update (ds_tab s) (i_name id) (fun old => merge_token old id)
             else ds_tab s ++ [id] in
  mkDstate tab mx (ds_precidx s) (ds_prelist s).
(* 2. types *)
Definition add_type (s : dstate) (tn : name * name) : dstate :=
  let '(tag, n) := tn in
  let tab := if tab_has (ds_tab s) n
             then tab_update (ds_tab s) n (fun old => mkIdent (i_name old) (i_typ old) (i_value old) tag (i_alias old))
             else ds_tab s ++ [mkIdent n NontermId 0 tag []] in
  mkDstate tab (ds_max s) (ds_precidx s) (ds_prelist s).
(* 3. precedence lines *)
Fixpoint add_prec_line (tab : idtab) (idx : nat) (line : list precdef) (acc : list (nat * assoc_kw * name))
  : front_error + list (nat * assoc_kw * name) :=
  match line with
  | [] => inr acc
  | p :: line' =>
    if tab_has tab (pd_name p) then add_prec_line tab idx line' (acc ++ [(idx, pd_assoc p, pd_name p)])
    else inl (FPrecUnknown (pd_name p))
  end.
Fixpoint add_precs (s : dstate) (lines : list (list precdef)) : front_error + dstate :=
  match lines with
  | [] => inr s
  | line :: lines' =>
    let idx := S (ds_precidx s) in
    match add_prec_line (ds_tab s) idx line (ds_prelist s) with
    | inl e => inl e
    | inr pl => add_precs (mkDstate (ds_tab s) (ds_max s) idx pl) lines'
    end
  end.
(* final numbering: every identifier whose value is still 0, in sorted order of the names *)
Fixpoint number_auto (tab : idtab) (mx : Z) (names : list name) : idtab * Z :=
  match names with
  | [] => (tab, mx)
  | n :: names' =>
    match tab_find tab n with
    | Some i => if Z.eqb (i_value i) 0
                then number_auto (tab_update tab n (fun old => mkIdent (i_name old) (i_typ old) (mx + 1)%Z (i_tag old) (i_alias old))) (mx + 1)%Z names'
                else number_auto tab mx names'
    | None => number_auto tab mx names'
    end
  end.

Definition visit_decl (d : declnode) : front_error + dstate :=
  let s0 := mkDstate [] 2%Z 0 [] in
  let s1 := fold_left add_token (concat (d_tokens d)) s0 in
  let s2 := fold_left add_type (d_types d) s1 in
  match add_precs s2 (d_precs d) with
  | inl e => inl e
  | inr s3 =>
    let tab := if negb (is_nil (d_start d)) && negb (tab_has (ds_tab s3) (d_start d))
               then ds_tab s3 ++ [mkIdent (d_start d) NontermId 0 [] []] else ds_tab s3 in
    let '(tab', mx) := number_auto tab (ds_max s3) (sort_names (tab_names tab)) in
    inr (mkDstate tab' mx (ds_precidx s3) (ds_prelist s3))
  end.

(* ---------- RuleVistor.Process ---------- *)
(* preMap: the last entry of preIdList for a name wins *)
Fixpoint pre_find (pl : list (nat * assoc_kw * name)) (n : name) (acc : option (nat * assoc_kw * name)) :=
  match pl with
  | [] => acc
  | ((p, a), m) as e :: pl' => pre_find pl' n (if name_eqb m n then Some e else acc)
  end.
Definition pre_map (pl : list (nat * assoc_kw * name)) (n : name) := pre_find pl n None.

Record vrule := mkVrule {
  v_line : nat; v_lhs : name; v_rhs : list name;
  v_prec : option name;                                 (* PrecIdSym.Id.Name *)
  v_action : list ascii
}.

(* step 2: every left-hand side unknown so far becomes a nonterminal with the next code *)
Fixpoint add_lhs (tab : idtab) (mx : Z) (rs : list ruledef) : idtab * Z :=
  match rs with
  | [] => (tab, mx)
  | r :: rs' =>
    if tab_has tab (r_lhs r) then add_lhs tab mx rs'
    else add_lhs (tab ++ [mkIdent (r_lhs r) NontermId (mx + 1)%Z [] []]) (mx + 1)%Z rs'
  end.

(* step 3: one rule; the precedence symbol is the last right-hand-side symbol carrying a precedence,
   overridden by %prec (even when the %prec name carries none) *)
Fixpoint scan_rhs (tab : idtab) (pl : list (nat * assoc_kw * name)) (es : list relem)
         (syms : list name) (prec : option name) (act : list ascii)
  : front_error + (list name * option name * list ascii) :=
  match es with
  | [] => inr (syms, prec, act)
  | RAct c :: es' => scan_rhs tab pl es' syms prec c
  | RSym n :: es' =>
    if tab_usable tab n then
      scan_rhs tab pl es' (syms ++ [n]) (match pre_map pl n with Some _ => Some n | None => prec end) act
    else inl (FUndefined n)
  end.
Definition visit_rule (tab : idtab) (pl : list (nat * assoc_kw * name)) (r : ruledef) : front_error + vrule :=
  match scan_rhs tab pl (r_rhs r) [] None [] with
  | inl e => inl e
  | inr (syms, prec, act) =>
    let prec' := if is_nil (r_prec r) then prec
                 else match pre_map pl (r_prec r) with Some _ => Some (r_prec r) | None => None end in
    inr (mkVrule (r_line r) (r_lhs r) syms prec' act)
  end.
Fixpoint visit_rules_list (tab : idtab) (pl : list (nat * assoc_kw * name)) (rs : list ruledef) : front_error + list vrule :=
  match rs with
  | [] => inr []
  | r :: rs' =>
    match visit_rule tab pl r with
    | inl e => inl e
    | inr v => match visit_rules_list tab pl rs' with inl e => inl e | inr vs => inr (v :: vs) end
    end
  end.

Record visited := mkVisited {
  vs_tab : idtab; vs_max : Z; vs_prelist : list (nat * assoc_kw * name);
  vs_rules : list vrule; vs_start : name;
  vs_code : list ascii; vs_union : list ascii; vs_rest : list ascii
}.

Definition visit (a : ast) : front_error + visited :=
  match visit_decl (a_decl a) with
  | inl e => inl e
  | inr s =>
    let '(tab, mx) := add_lhs (ds_tab s) (ds_max s) (a_rules a) in
    match visit_rules_list tab (ds_prelist s) (a_rules a) with
    | inl e => inl e
    | inr vs => inr (mkVisited tab mx (ds_prelist s) vs (d_start (a_decl a)) (d_code (a_decl a)) (d_union (a_decl a)) (a_rest a))
    end
  end.

(* ---------- Walker.BuildLALR1: symbols and the grammar object ---------- *)
Record gsym := mkGsym { s_name : name; s_value : Z; s_tag : name; s_declnt : bool; s_prec : Z; s_assoc : Resolve.assoc }.

Definition conv_assoc (a : assoc_kw) : Resolve.assoc :=
  match a with ALeft => Resolve.LEFT | ARight => Resolve.RIGHT | ANon => Resolve.NONE end.

Definition start_name : name := ["s"; "t"; "a"; "r"; "t"]%char.
Definition dollar_name : name := ["$"]%char.

(* identifiers in the order of Idendities: terminals in sorted order, then nonterminals in sorted order,
   without those whose value is -1 *)
Definition ordered_idents (tab : idtab) : list ident :=
  let sorted := flat_map (fun n => match tab_find tab n with Some i => [i] | None => [] end) (sort_names (tab_names tab)) in
  let keep := filter (fun i => negb (Z.eqb (i_value i) (-1))) in
  keep (filter (fun i => match i_typ i with TermId => true | NontermId => false end) sorted) ++
  keep (filter (fun i => match i_typ i with TermId => false | NontermId => true end) sorted).

Definition sym_of_ident (pl : list (nat * assoc_kw * name)) (i : ident) : gsym :=
  match i_typ i with
  | NontermId => mkGsym (i_name i) (i_value i) (i_tag i) true (-1)%Z Resolve.NONE
  | TermId =>
    match pre_map pl (i_name i) with
    | Some ((p, a), _) => mkGsym (i_name i) (i_value i) (i_tag i) false (Z.of_nat p) (conv_assoc a)
    | None => mkGsym (i_name i) (i_value i) (i_tag i) false (-1)%Z Resolve.NONE
    end
  end.

Definition symbols_of (v : visited) : list gsym :=
  mkGsym start_name 0%Z [] true (-1)%Z Resolve.NONE ::
  mkGsym dollar_name (-1)%Z [] false (-1)%Z Resolve.NONE ::
  map (sym_of_ident (vs_prelist v)) (ordered_idents (vs_tab v)).

(* SymbolsMap: a later symbol with the same name replaces an earlier one (a user nonterminal called
   "start" hides the internal one) *)
Fixpoint sym_index_from (syms : list gsym) (n : name) (k : nat) (acc : option nat) : option nat :=
  match syms with
  | [] => acc
  | s :: syms' => sym_index_from syms' n (S k) (if name_eqb (s_name s) n then Some k else acc)
  end.
Definition sym_index (syms : list gsym) (n : name) : option nat := sym_index_from syms n 0 None.

Fixpoint map_opt {A B} (f : A -> option B) (l : list A) : option (list B) :=
  match l with
  | [] => Some []
  | x :: l' => match f x, map_opt f l' with Some y, Some ys => Some (y :: ys) | _, _ => None end
  end.

Record built := mkBuilt {
  b_syms : list gsym;
  b_gi : ginfo;
  b_rule_prec : list (option nat);                      (* per rule: PrecSymbol.ID *)
  b_visited : visited
}.

Definition build_rule (syms : list gsym) (r : vrule) : option (rule * option nat) :=
  match sym_index syms (v_lhs r), map_opt (sym_index syms) (v_rhs r) with
  | Some l, Some rs =>
    Some (Build_rule l rs, match v_prec r with Some n => sym_index syms n | None => None end)
  | _, _ => None
  end.

(* a symbol is a nonterminal of the grammar object if it was declared so (%type, %start, left-hand side
   unknown before) or occurs as a left-hand side (InsertNewRules calls SetNT) *)
Definition is_lhs (rules : list rule) (k : nat) : bool := existsb (fun R => Nat.eqb (lhs R) k) rules.

Definition build_grammar (v : visited) : front_error + built :=
  let syms := symbols_of v in
  match sym_index (skipn 2 syms) (vs_start v) with
  | None => inl FNoStart
  | Some s0 =>
    let first := S (S s0) in
    match map_opt (build_rule syms) (vs_rules v) with
    | None => inl FNoStart
    | Some rs =>
      let rules := Build_rule 0 [first] :: map fst rs in
      let n := length syms in
      let isnt := fun k => nth k (map s_declnt syms) false || is_lhs rules k in
      (* every symbol marked nonterminal must be a left-hand side *)
      match filter (fun k => nth k (map s_declnt syms) false && negb (is_lhs rules k)) (seq 0 n) with
      | k :: _ => inl (FNoRule (s_name (nth k syms (mkGsym [] 0%Z [] false 0%Z Resolve.NONE))))
      | [] =>
        let nterm := length (filter (fun k => negb (isnt k)) (seq 0 n)) in
        let sprec := map (fun s => (s_prec s, s_assoc s)) syms in
        let rprec := (no_prec : Z * Resolve.assoc) ::
                     map (fun x => match snd x with Some k => nth k sprec no_prec | None => no_prec end) rs in
        let gi := {| gi_rules := rules; gi_nsyms := n; gi_nterm := nterm; gi_sprec := sprec; gi_rprec := rprec |} in
        match unproductive gi with
        | (_ :: _) as l => inl (FUnproductive l)
        | [] => inr (mkBuilt syms gi (None :: map snd rs) v)
        end
      end
    end
  end.

Definition front (a : ast) : front_error + built :=
  match visit a with
  | inl e => inl e
  | inr v => build_grammar v
  end.

(* ---------- token codes: the checker run on the implementation's own table (C11) ---------- *)
(* terminals of the table with their codes *)
Definition term_codes (tab : idtab) : list (name * Z) :=
  flat_map (fun i => match i_typ i with TermId => [(i_name i, i_value i)] | NontermId => [] end) tab.
Fixpoint nodup_z (l : list Z) : bool :=
  match l with
  | [] => true
  | x :: l' => negb (existsb (Z.eqb x) l') && nodup_z l'
  end.

(* declared (name, value) pairs of the %token / precedence / rule-literal declarations, in order *)
Definition declared_pairs (d : declnode) : list (name * Z) :=
  map (fun i => (i_name i, i_value i)) (concat (d_tokens d)).
(* the number a name was given: its last non-zero declared value (0 = "choose one") *)
Definition last_nonzero (decls : list (name * Z)) (n : name) : option Z :=
  fold_left (fun acc p => if name_eqb (fst p) n && negb (Z.eqb (snd p) 0) then Some (snd p) else acc) decls None.
Fixpoint dedup_names (l : list name) : list name :=
  match l with
  | [] => []
  | x :: l' => if existsb (name_eqb x) l' then dedup_names l' else x :: dedup_names l'
  end.
(* the fixed codes: one per name that was given a number or is a character literal *)
Definition fixed_codes (decls : list (name * Z)) : list Z :=
  flat_map (fun n => match last_nonzero decls n with Some v => [v] | None => [] end) (dedup_names (map fst decls)).

(* C11 as a boolean on any final code table of the terminals: fixed codes are kept; automatically
   chosen codes avoid every fixed code and the end marker; if the fixed codes are distinct, all are *)
Definition valid_codes (decls : list (name * Z)) (final : list (name * Z)) : bool :=
  forallb (fun p => match last_nonzero decls (fst p) with
                    | Some v => Z.eqb (snd p) v
                    | None => negb (existsb (Z.eqb (snd p)) (fixed_codes decls)) && negb (Z.eqb (snd p) (-1))
                    end) final
  && (if nodup_z (fixed_codes decls) then nodup_z (map snd final) else true).
