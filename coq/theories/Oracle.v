(* A verified checker for reported parses (direct oracle of C01 and C07).
   The generated parsers of the harness log, for every reduction, the rule and the number of
   tokens shifted before it.  `replay` re-executes that log as a bare shift-reduce machine over
   (symbol, value) pairs - no automaton, no table - and returns the value left for the start symbol.
   `replay_sound` shows that success means: there is a valid parse tree whose root is the user's
   start symbol, whose yield is exactly the token sequence, whose post-order is the reported rule
   sequence and whose bottom-up evaluation is the returned value. *)
From Coq Require Import List Arith ZArith Lia Bool.
Import ListNotations.
From YG Require Import LRBase DriverSim Values.

Section Replay.
Variables (g : grammar) (act : semact).

Definition sym_eqb_list (a b : list nat) : bool :=
  Nat.eqb (length a) (length b) && forallb (fun p => Nat.eqb (fst p) (snd p)) (combine a b).
Lemma sym_eqb_list_eq a b : sym_eqb_list a b = true -> a = b.
Proof.
  unfold sym_eqb_list. rewrite andb_true_iff, Nat.eqb_eq. revert b.
  induction a as [|x a IH]; intros [|y b] [Hl Hf]; simpl in *; try discriminate; auto.
  apply andb_true_iff in Hf. destruct Hf as [Hxy Hf]. apply Nat.eqb_eq in Hxy. subst y.
  f_equal. apply IH. split; auto.
Qed.

(* stack: top first, (symbol, value);  shifted: tokens consumed so far;  reds: (rule, tokens shifted before it) *)
Fixpoint replay (stack : list (nat * Z)) (inp : list tok) (shifted : nat) (reds : list (nat * nat)) : option Z :=
  match reds with
  | [] =>
    match rev inp ++ stack with
    | [(S1, v)] => if Nat.eqb S1 (hd 0 (rhs_of g 0)) && negb (Nat.eqb (length (rhs_of g 0)) 0) then Some v else None
    | _ => None
    end
  | (r, k) :: rest =>
    if Nat.ltb k shifted then None else
    let n := k - shifted in
    if Nat.ltb (length inp) n then None else
    let stack1 := rev (firstn n inp) ++ stack in
    match nth_error g r with
    | None => None
    | Some R =>
      let m := length (rhs R) in
      if Nat.ltb (length stack1) m then None else
      if sym_eqb_list (map fst (firstn m stack1)) (rev (rhs R)) then
        replay ((lhs R, act r (rev (map snd (firstn m stack1)))) :: skipn m stack1) (skipn n inp) k rest
      else None
    end
  end.

Definition tvp (t : vtree) : nat * Z := (vroot g t, veval act t).

Lemma flat_map_app'' {A B} (f : A -> list B) l1 l2 : flat_map f (l1 ++ l2) = flat_map f l1 ++ flat_map f l2.
Proof. induction l1; simpl; auto. rewrite IHl1, app_assoc. reflexivity. Qed.

Lemma leaves_spec (l : list tok) :
  map tvp (map (fun t => VLeaf (fst t) (snd t)) l) = l /\
  all_vvalid g (map (fun t => VLeaf (fst t) (snd t)) l) /\
  flat_map vyield (map (fun t => VLeaf (fst t) (snd t)) l) = l /\
  flat_map vpost (map (fun t => VLeaf (fst t) (snd t)) l) = [].
Proof.
  induction l as [|[a v] l (H1 & H2 & H3 & H4)]; simpl; auto.
  repeat split; auto; unfold tvp in *; simpl; f_equal; auto.
Qed.

(* invariant: the stack is the list of (root, value) of a forest (top first) whose yields, read from the
   bottom, are the consumed input and whose post-orders are the reductions done so far *)
Lemma replay_inv : forall reds ts inp shifted v,
  all_vvalid g ts ->
  replay (map tvp ts) inp shifted reds = Some v ->
  exists t, vvalid g t /\ Some (vroot g t) = hd_error (rhs_of g 0) /\
            vyield t = flat_map vyield (rev ts) ++ inp /\
            vpost t = flat_map vpost (rev ts) ++ map fst reds /\ v = veval act t.
Proof.
  induction reds as [|[r k] rest IH]; intros ts inp shifted v Hval Hrun; simpl in Hrun.
  - (* no reductions left: shift the rest *)
    destruct (leaves_spec inp) as (L1 & L2 & L3 & L4).
    set (lv := map (fun t => VLeaf (fst t) (snd t)) inp) in *.
    assert (E : rev inp ++ map tvp ts = map tvp (rev lv ++ ts)).
    { rewrite map_app, map_rev, L1. reflexivity. }
    rewrite E in Hrun.
    destruct (rev lv ++ ts) as [|t [|t' rest']] eqn:Ets; simpl in Hrun; try discriminate.
    destruct (Nat.eqb (vroot g t) (hd 0 (rhs_of g 0)) && negb (Nat.eqb (length (rhs_of g 0)) 0)) eqn:Ec; [|discriminate].
    inversion Hrun; subst v. apply andb_true_iff in Ec. destruct Ec as [Ec1 Ec2].
    apply Nat.eqb_eq in Ec1. apply negb_true_iff, Nat.eqb_neq in Ec2.
    assert (Hv : all_vvalid g (rev lv ++ ts)).
    { apply all_vvalid_app. split; auto. apply all_vvalid_rev. auto. }
    rewrite Ets in Hv. simpl in Hv.
    exists t. split; [tauto|]. split.
    { destruct (rhs_of g 0); simpl in *; [contradiction|]. congruence. }
    assert (Hr : rev ts ++ lv = [t]).
    { apply (f_equal (@rev _)) in Ets. rewrite rev_app_distr, rev_involutive in Ets. simpl in Ets. exact Ets. }
    split; [|split; auto].
    + rewrite <- L3. rewrite <- flat_map_app''. rewrite Hr. simpl. rewrite app_nil_r. reflexivity.
    + simpl. rewrite app_nil_r. rewrite <- (app_nil_r (flat_map vpost (rev ts))). rewrite <- L4.
      rewrite <- flat_map_app''. rewrite Hr. simpl. rewrite app_nil_r. reflexivity.
  - destruct (Nat.ltb k shifted) eqn:E1; [discriminate|].
    set (n := k - shifted) in *.
    destruct (Nat.ltb (length inp) n) eqn:E2; [discriminate|]. apply Nat.ltb_ge in E2.
    destruct (leaves_spec (firstn n inp)) as (L1 & L2 & L3 & L4).
    set (lv := map (fun t => VLeaf (fst t) (snd t)) (firstn n inp)) in *.
    assert (E : rev (firstn n inp) ++ map tvp ts = map tvp (rev lv ++ ts)).
    { rewrite map_app, map_rev, L1. reflexivity. }
    rewrite E in Hrun. set (ts1 := rev lv ++ ts) in *.
    assert (Hv1 : all_vvalid g ts1).
    { apply all_vvalid_app. split; auto. apply all_vvalid_rev. auto. }
    destruct (nth_error g r) as [R|] eqn:HR; [|discriminate].
    set (m := length (rhs R)) in *.
    match type of Hrun with (if ?c then _ else _) = _ => destruct c eqn:E3; [discriminate|] end.
    apply Nat.ltb_ge in E3. rewrite map_length in E3.
    match type of Hrun with (if ?c then _ else _) = _ => destruct c eqn:E4; [|discriminate] end.
    apply sym_eqb_list_eq in E4.
    assert (Hrhs : rhs_of g r = rhs R) by (unfold rhs_of; rewrite HR; reflexivity).
    assert (Hlhs : lhs_of g r = lhs R) by (unfold lhs_of; rewrite HR; reflexivity).
    set (ch := rev (firstn m ts1)).
    assert (Hroots : map (vroot g) ch = rhs R).
    { unfold ch. rewrite map_rev. rewrite firstn_map, map_map in E4. simpl in E4.
      assert (E5 : map (vroot g) (firstn m ts1) = rev (rhs R)) by exact E4.
      rewrite E5, rev_involutive. reflexivity. }
    assert (Hnode : (lhs R, act r (rev (map snd (firstn m (map tvp ts1))))) = tvp (VNode r ch)).
    { unfold tvp. simpl. rewrite Hlhs. f_equal. f_equal. unfold ch.
      rewrite firstn_map, map_map, map_rev. reflexivity. }
    assert (Hrun' : replay (map tvp (VNode r ch :: skipn m ts1)) (skipn n inp) k rest = Some v).
    { cbn [map]. rewrite <- Hnode. rewrite <- skipn_map. exact Hrun. }
    clear Hrun. rename Hrun' into Hrun.
    apply IH in Hrun.
    2:{ simpl. split; [|apply all_vvalid_skipn; auto].
        apply vvalid_node. split; [apply nth_error_Some; congruence|]. split; [rewrite Hrhs; exact Hroots|].
        unfold ch. apply all_vvalid_rev. apply all_vvalid_firstn. auto. }
    destruct Hrun as (t & Ht1 & Ht2 & Ht3 & Ht4 & Ht5).
    exists t. split; auto. split; auto.
    assert (Hsplit : ts1 = firstn m ts1 ++ skipn m ts1) by (symmetry; apply firstn_skipn).
    assert (Hrev : rev ts1 = rev (skipn m ts1) ++ ch).
    { unfold ch. rewrite <- rev_app_distr. rewrite <- Hsplit. reflexivity. }
    assert (Hrev1 : rev ts1 = rev ts ++ lv).
    { unfold ts1. rewrite rev_app_distr, rev_involutive. reflexivity. }
    split; [|split; auto].
    + rewrite Ht3. simpl. rewrite flat_map_app''. simpl. rewrite app_nil_r.
      rewrite <- (firstn_skipn n inp) at 2. rewrite app_assoc. f_equal.
      rewrite <- flat_map_app''. rewrite <- Hrev, Hrev1, flat_map_app'', L3. reflexivity.
    + rewrite Ht4. cbn [rev]. rewrite flat_map_app''. cbn [flat_map vpost map fst]. rewrite app_nil_r.
      rewrite <- !app_assoc. cbn [app].
      transitivity ((flat_map vpost (rev (skipn m ts1)) ++ flat_map vpost ch) ++ r :: map fst rest).
      { rewrite <- app_assoc. reflexivity. }
      f_equal. rewrite <- flat_map_app''. rewrite <- Hrev, Hrev1. rewrite flat_map_app''. rewrite L4, app_nil_r. reflexivity.
Qed.

Theorem replay_sound w reds v :
  replay [] w 0 reds = Some v ->
  exists t, vvalid g t /\ Some (vroot g t) = hd_error (rhs_of g 0) /\
            vyield t = w /\ vpost t = map fst reds /\ v = veval act t.
Proof.
  intros H. destruct (replay_inv reds [] w 0 v I H) as (t & H1 & H2 & H3 & H4 & H5).
  exists t. simpl in *. repeat split; auto.
Qed.

End Replay.

Print Assumptions replay_sound.
