(* Model: the back end of yaccgo as one executable pipeline
     grammar object  ->  LR(0) automaton  ->  lookahead lists  ->  dense table + warnings
                     ->  split / defaults / row displacement  ->  packed lookup
   Definitions only (no proofs): this file is what the extracted oracle `model_eval` runs and
   what the correspondence check compares with the implementation.  The pieces are the
   functions the theorems of the other files speak about (LR0Build.build, LAExec.LAl,
   TableCert.gen_table, Resolve.resolve, PackCore.place_all, Productive.productive_set). *)
From Coq Require Import List Arith ZArith Bool.
Import ListNotations.
From YG Require Import LRBase LR0Build Productive Resolve TableCert LASuperset LAExec PackCore.

(* ---------- the grammar object handed over by the front end (Parser/Vistor.go BuildLALR1) ---------- *)
(* symbols are numbered as in Grammar.Symbols: 0 = the internal start symbol, 1 = "$" (end marker),
   2 .. nterm = the other terminals, nterm+1 .. nsyms-1 = nonterminals; rule 0 is  start -> S. *)
Record ginfo := {
  gi_rules : grammar;
  gi_nsyms : nat;
  gi_nterm : nat;                                   (* len(G.VtSet): terminals including "$" *)
  gi_sprec : list (Z * Resolve.assoc);              (* per symbol: Symbol.Prec (-1 = none), Symbol.PrecType *)
  gi_rprec : list (Z * Resolve.assoc)               (* per rule: precedence of rule.PrecSymbol, (-1, NONE) if nil *)
}.

Definition no_prec : Z * Resolve.assoc := ((-1)%Z, Resolve.NONE).
Definition sprec_of (gi : ginfo) (a : nat) := nth a (gi_sprec gi) no_prec.
Definition rprec_of (gi : ginfo) (r : nat) := nth r (gi_rprec gi) no_prec.

(* Symbol.IsNonTerminator after BuildLALR1: exactly the left-hand sides *)
Definition is_nt_b (g : grammar) (X : nat) : bool := existsb (fun R => Nat.eqb (lhs R) X) g.
(* Grammar.CalculateEpsilonClosure: the productivity sweep with no terminal counting as productive *)
Definition nullable_list (g : grammar) : list nat := productive_set g (fun _ => false).
Definition nullable_b (g : grammar) (X : nat) : bool := Productive.nmem X (nullable_list g).
(* Grammar.CalculateCanTerminate (CanTerminate starts true for terminals; a nullable symbol is marked too) *)
Definition productive_list (g : grammar) : list nat := productive_set g (fun X => negb (is_nt_b g X)).
Definition unproductive (gi : ginfo) : list nat :=
  filter (fun X => is_nt_b (gi_rules gi) X && negb (Productive.nmem X (productive_list (gi_rules gi))))
         (seq 0 (gi_nsyms gi)).
Definition start_user (g : grammar) : nat := hd 0 (rhs_of g 0).

(* ---------- lookaheads ---------- *)
Definition la_exec (g : grammar) (aut : automaton) (q r : nat) : list nat :=
  LAl g aut (start_user g) (nullable_b g) (is_nt_b g) q r.

(* the same sets computed with sharing: the nullable list once, Follow once per nonterminal transition *)
Definition follow_table (g : grammar) (aut : automaton) : list (ntrans * list nat) :=
  let nl := nullable_list g in
  let nb := fun X => Productive.nmem X nl in
  map (fun x => (x, Followl g aut (start_user g) nb (is_nt_b g) x)) (all_trans aut).
Fixpoint follow_lookup (ft : list (ntrans * list nat)) (x : ntrans) : list nat :=
  match ft with [] => [] | (y, l) :: ft' => if ntrans_eqb x y then l else follow_lookup ft' x end.
Definition la_fast (g : grammar) (aut : automaton) (ft : list (ntrans * list nat)) (q r : nat) : list nat :=
  if Nat.eqb r 0 then [eof] else flat_map (follow_lookup ft) (lookback g aut q r).

(* tabulated once per (state, complete rule) so that the table generator does not recompute it for every cell *)
Definition la_table (g : grammar) (aut : automaton) : list (list (nat * list nat)) :=
  let ft := follow_table g aut in
  map (fun q => map (fun r => (r, la_fast g aut ft q r)) (complete_rules g aut q)) (seq 0 (length aut)).
Fixpoint assoc_list {A} (k : nat) (l : list (nat * list A)) : list A :=
  match l with [] => [] | (k', v) :: l' => if Nat.eqb k k' then v else assoc_list k l' end.
Definition la_lookup (tabl : list (list (nat * list nat))) (q r : nat) : list nat :=
  assoc_list r (nth q tabl []).

(* ---------- dense table (LALR/Table.go GenTable) ---------- *)
Definition err_code (n : nat) : Z := Z.of_nat (n + 100).      (* GenErrorCode: states + 100 *)
Definition acc_code (n : nat) : Z := Z.of_nat (n + 200).      (* GenAcceptCode: states + 200 *)
Definition encode (n : nat) (a : action) : Z :=
  match a with
  | Shift q => Z.of_nat q
  | Reduce r => (- Z.of_nat r)%Z
  | Accept => acc_code n
  | Error => err_code n
  end.
(* how every generated driver reads a cell *)
Definition decode_z (n : nat) (z : Z) : action :=
  if Z.eqb z (err_code n) then Error
  else if Z.eqb z (acc_code n) then Accept
  else if Z.ltb 0 z then Shift (Z.to_nat z)
  else Reduce (Z.to_nat (- z)).

Definition action_fun (gi : ginfo) (aut : automaton) (tabl : list (list (nat * list nat))) : table :=
  gen_table (gi_rules gi) aut (la_lookup tabl) (sprec_of gi) (rprec_of gi).

Definition dense_of (nstates nsyms : nat) (t : table) : list (list Z) :=
  map (fun q => map (fun a => encode nstates (t q a)) (seq 0 nsyms)) (seq 0 nstates).

(* warnings of CheckAndResolveConflict: one per pair that ResolveConflict could not decide *)
Definition kind_tag (c : cand) : nat := match c_kind c with KShift _ => 0 | KReduce _ => 1 | KError => 2 end.
Fixpoint warn_pairs (a : cand) (rest : list cand) : list (nat * nat) :=
  match rest with
  | [] => []
  | b :: rest' =>
    match resolve_pair a b with
    | Some w => warn_pairs w rest'
    | None => (kind_tag a, kind_tag b) :: warn_pairs (default_pair a b) rest'
    end
  end.
Definition cell_warnings (l : list cand) : list (nat * nat) :=
  match l with [] => [] | a :: rest => warn_pairs a rest end.
(* (state, symbol, kind of first, kind of second) *)
Definition warnings (gi : ginfo) (aut : automaton) (tabl : list (list (nat * list nat))) : list (nat * nat * (nat * nat)) :=
  flat_map (fun q => flat_map (fun a =>
      map (fun w => (q, a, w))
          (cell_warnings (candidates (gi_rules gi) aut (la_lookup tabl) (sprec_of gi) (rprec_of gi) q a)))
    (seq 0 (gi_nsyms gi))) (seq 0 (length aut)).

(* cells with more than one candidate action (shift and/or reduces on the same lookahead) *)
Definition conflict_cells (gi : ginfo) (aut : automaton) (tabl : list (list (nat * list nat))) : list (nat * nat) :=
  flat_map (fun q => flat_map (fun a =>
      if Nat.leb 2 (length (candidates (gi_rules gi) aut (la_lookup tabl) (sprec_of gi) (rprec_of gi) q a)) then [(q, a)] else [])
    (seq 0 (gi_nsyms gi))) (seq 0 (length aut)).

(* ---------- split, defaults, packing (LALR.go TrySplitTable, Utils/packtable.go) ---------- *)
Definition cellz (m : list (list Z)) (i j : nat) : Z := nth j (nth i m []) 0%Z.

Fixpoint count_z (z : Z) (l : list Z) : nat :=
  match l with [] => 0 | y :: l' => (if Z.eqb z y then 1 else 0) + count_z z l' end.
(* findMaxOccurence: the first value whose count is maximal (0 for an empty row) *)
Fixpoint max_occ_aux (row rest : list Z) (best : Z) (bestn : nat) : Z :=
  match rest with
  | [] => best
  | z :: rest' => let c := count_z z row in
                  if Nat.ltb bestn c then max_occ_aux row rest' z c else max_occ_aux row rest' best bestn
  end.
Definition max_occ (row : list Z) : Z := max_occ_aux row row 0%Z 0.

Record packed := {
  p_act : list Z;        (* StatePackAction *)
  p_off : list Z;        (* StatePackOffset *)
  p_chk : list Z;        (* StackPackCheck *)
  p_adef : list Z;       (* StackPackActDef, per state *)
  p_gdef : list Z;       (* StackPackGotoDef, per nonterminal column *)
  p_nterm : nat;         (* NTERMINALS *)
  p_err : Z              (* ERROR_ACTION *)
}.

Definition act_part (nterm : nat) (row : list Z) : list Z := firstn (S nterm) row.
Definition goto_col (dense : list (list Z)) (c : nat) : list Z := map (fun row => nth c row 0%Z) dense.

Definition act_defaults (dense : list (list Z)) (nterm : nat) : list Z :=
  map (fun row => max_occ (act_part nterm row)) dense.
Definition goto_defaults (dense : list (list Z)) (nterm nsyms : nat) : list Z :=
  map (fun c => max_occ (goto_col dense c)) (seq (S nterm) (nsyms - S nterm)).

(* the matrix handed to PackTable: entries equal to their row (action part) or column (goto part)
   default are blanked to 0 *)
Definition blanked (dense : list (list Z)) (nterm nsyms : nat) : list (list Z) :=
  let ad := act_defaults dense nterm in
  let gd := goto_defaults dense nterm nsyms in
  map (fun q =>
    map (fun a =>
      let v := cellz dense q a in
      let d := if Nat.leb a nterm then nth q ad 0%Z else nth (a - S nterm) gd 0%Z in
      if Z.eqb v d then 0%Z else v) (seq 0 nsyms)) (seq 0 (length dense)).

(* sort.SliceStable by number of non-zero cells, largest first: stable insertion sort *)
Definition nzcount (m : list (list Z)) (i : nat) : nat :=
  length (filter (fun z => negb (Z.eqb z 0)) (nth i m [])).
Fixpoint ins_desc (key : nat -> nat) (x : nat) (l : list nat) : list nat :=
  match l with
  | [] => [x]
  | y :: l' => if Nat.leb (key y) (key x) then x :: l else y :: ins_desc key x l'
  end.
Definition sort_desc (key : nat -> nat) (l : list nat) : list nat :=
  fold_right (ins_desc key) [] l.
Definition row_order (m : list (list Z)) : list nat := sort_desc (nzcount m) (seq 0 (length m)).

Definition pack_matrix (m : list (list Z)) (cols : nat) : list Z * list Z * list Z :=
  let rows := length m in
  let order := row_order m in
  (PackCore.T' cols (cellz m) order,
   map (PackCore.D cols (cellz m) order) (seq 0 rows),
   PackCore.C' cols (cellz m) order).

Definition compress (dense : list (list Z)) (nterm nsyms nstates : nat) : packed :=
  let '(t, d, c) := pack_matrix (blanked dense nterm nsyms) nsyms in
  {| p_act := t; p_off := d; p_chk := c;
     p_adef := act_defaults dense nterm; p_gdef := goto_defaults dense nterm nsyms;
     p_nterm := nterm; p_err := err_code nstates |}.

(* the generated Action() of goCode.templ / goObject.templ *)
Definition packed_lookup (p : packed) (s a : nat) : Z :=
  let o := (nth s (p_off p) 0 + Z.of_nat a)%Z in
  if (o <? 0)%Z then p_err p
  else if (Z.of_nat (length (p_chk p)) <=? o)%Z || negb (Z.eqb (nth (Z.to_nat o) (p_chk p) (-1)%Z) (Z.of_nat s)) then
    (if Nat.ltb (p_nterm p) a then nth (a - p_nterm p - 1) (p_gdef p) 0%Z else nth s (p_adef p) 0%Z)
  else nth (Z.to_nat o) (p_act p) 0%Z.

(* UnPackTable of Utils/packtable.go *)
Definition unpack (rows cols : nat) (t d c : list Z) : list (list Z) :=
  map (fun i => map (fun j =>
    let o := (nth i d 0 + Z.of_nat j)%Z in
    if (o <? 0)%Z || (Z.of_nat (length c) <=? o)%Z || negb (Z.eqb (nth (Z.to_nat o) c (-1)%Z) (Z.of_nat i)) then 0%Z
    else nth (Z.to_nat o) t 0%Z) (seq 0 cols)) (seq 0 rows).

(* TrySplitTable keeps the packed form only when it is not larger than the dense one *)
Definition need_packed (p : packed) (nstates nsyms : nat) : bool :=
  Nat.leb (length (p_act p) + length (p_off p) + length (p_adef p) + length (p_gdef p)) (nstates * nsyms).

(* ---------- the whole back end ---------- *)
Inductive gen_error := EUnproductive (l : list nat) | ETooManyStates.

Record tables := {
  t_aut : automaton;
  t_la : list (list (nat * list nat));
  t_dense : list (list Z);
  t_warn : list (nat * nat * (nat * nat));
  t_conf : list (nat * nat);
  t_packed : packed;
  t_need_packed : bool
}.

Definition generate_tables (gi : ginfo) : gen_error + tables :=
  match unproductive gi with
  | (_ :: _) as l => inl (EUnproductive l)
  | [] =>
    match build (gi_rules gi) with
    | None => inl ETooManyStates
    | Some aut =>
      let n := length aut in
      let tabl := la_table (gi_rules gi) aut in
      let dense := dense_of n (gi_nsyms gi) (action_fun gi aut tabl) in
      let p := compress dense (gi_nterm gi) (gi_nsyms gi) n in
      inr {| t_aut := aut; t_la := tabl; t_dense := dense;
             t_warn := warnings gi aut tabl;
             t_conf := conflict_cells gi aut tabl;
             t_packed := p; t_need_packed := need_packed p n (gi_nsyms gi) |}
    end
  end.

(* the table a generated parser consults, as a function into decoded actions *)
Definition dense_action (nstates : nat) (dense : list (list Z)) : table :=
  fun q a => decode_z nstates (cellz dense q a).
Definition packed_action (nstates : nat) (p : packed) : table :=
  fun q a => decode_z nstates (packed_lookup p q a).
