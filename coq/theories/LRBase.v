(* Originally a design-phase spike: can the C01 "driver" theorem be
   proved over plain lists with a certificate on automaton + table?  *)
From Coq Require Import List Arith Lia Bool.
Import ListNotations.

Record rule := { lhs : nat; rhs : list nat }.
Definition grammar := list rule.
Definition item := (nat * nat)%type.
Record state := { items : list item; gotos : list (nat * nat) }.
Definition automaton := list state.

Inductive action := Shift (q : nat) | Reduce (r : nat) | Accept | Error.
Definition table := nat -> nat -> action.

Definition eof := 1.

Fixpoint assoc (k : nat) (l : list (nat * nat)) : option nat :=
  match l with [] => None | (k', v) :: l' => if Nat.eqb k k' then Some v else assoc k l' end.

Definition st (aut : automaton) (q : nat) : state := nth q aut {| items := []; gotos := [] |}.
Definition goto (aut : automaton) (q X : nat) : option nat := assoc X (gotos (st aut q)).
Definition rhs_of (g : grammar) (r : nat) : list nat := match nth_error g r with Some R => rhs R | None => [] end.
Definition lhs_of (g : grammar) (r : nat) : nat := match nth_error g r with Some R => lhs R | None => 0 end.

Definition top_state (stk : list (nat * nat)) : nat := match stk with (q, _) :: _ => q | [] => 0 end.

Inductive outcome := Acc (reds : list nat) | Rej | Crash | Fuel.

Fixpoint run (fuel : nat) (tab : table) (g : grammar) (stk : list (nat * nat)) (inp : list nat) (reds : list nat) : outcome :=
  match fuel with
  | 0 => Fuel
  | S f =>
    let q := top_state stk in
    let a := hd eof inp in
    match tab q a with
    | Error => Rej
    | Accept => Acc (rev reds)
    | Shift q' => run f tab g ((q', a) :: stk) (tl inp) reds
    | Reduce r =>
      match nth_error g r with
      | None => Crash
      | Some R =>
        let stk' := skipn (length (rhs R)) stk in
        match stk' with
        | [] => Crash
        | _ => match tab (top_state stk') (lhs R) with
               | Shift q' => run f tab g ((q', lhs R) :: stk') inp (r :: reds)
               | _ => Crash
               end
        end
      end
    end
  end.

(* ---------- trees ---------- *)
Inductive tree := Leaf (t : nat) | Node (r : nat) (ch : list tree).

Definition root (g : grammar) (t : tree) : nat := match t with Leaf a => a | Node r _ => lhs_of g r end.
Fixpoint yield (t : tree) : list nat := match t with Leaf a => [a] | Node _ ch => flat_map yield ch end.
Fixpoint post (t : tree) : list nat := match t with Leaf _ => [] | Node r ch => flat_map post ch ++ [r] end.
Fixpoint valid (g : grammar) (t : tree) : Prop :=
  match t with
  | Leaf _ => True
  | Node r ch => r < length g /\ map (root g) ch = rhs_of g r /\
                 (fix all (l : list tree) : Prop := match l with [] => True | x :: l' => valid g x /\ all l' end) ch
  end.
Fixpoint all_valid (g : grammar) (l : list tree) : Prop := match l with [] => True | x :: l' => valid g x /\ all_valid g l' end.
Lemma valid_node g r ch : valid g (Node r ch) <-> r < length g /\ map (root g) ch = rhs_of g r /\ all_valid g ch.
Proof. simpl. split; intros (A & B & C); repeat split; auto; clear A B; induction ch; simpl in *; tauto. Qed.

(* ---------- certificate (as Props; the framework will use booleans) ---------- *)
Record cert (g : grammar) (aut : automaton) (tab : table) : Prop := {
  c_shift : forall q a q', tab q a = Shift q' -> goto aut q a = Some q';
  c_reduce : forall q a r, tab q a = Reduce r -> r <> 0 /\ r < length g /\ In (r, length (rhs_of g r)) (items (st aut q));
  c_accept : forall q a, tab q a = Accept -> In (0, 1) (items (st aut q)) /\ a = eof;
  c_goto : forall q X q', goto aut q X = Some q' ->
           q' <> 0 /\ forall r d, In (r, d) (items (st aut q')) ->
             d = 0 \/ exists d', d = S d' /\ In (r, d') (items (st aut q)) /\ nth_error (rhs_of g r) d' = Some X;
  c_init : forall r d, In (r, d) (items (st aut 0)) -> d = 0;
  c_start : forall q, In (0, 0) (items (st aut q)) -> q = 0;
  c_rule0 : exists S, rhs_of g 0 = [S];
  c_noeof : forall q, goto aut q eof = None
}.

(* stack well-formedness: states linked by gotos, bottom is (0, eof), state 0 only at the bottom *)
Inductive wf_stack (aut : automaton) : list (nat * nat) -> Prop :=
| wf_bot : wf_stack aut [(0, eof)]
| wf_push q X stk : wf_stack aut stk -> goto aut (top_state stk) X = Some q -> wf_stack aut ((q, X) :: stk).

Lemma wf_nonempty aut stk : wf_stack aut stk -> stk <> [].
Proof. destruct 1; discriminate. Qed.

Lemma wf_skipn aut n stk : wf_stack aut stk -> n < length stk -> wf_stack aut (skipn n stk).
Proof.
  revert stk; induction n as [|n IH]; intros stk H Hn; simpl; auto.
  destruct H as [|q X stk H Hg]; simpl in *; [lia|]. apply IH; auto; lia.
Qed.

Section Sound.
Variables (g : grammar) (aut : automaton) (tab : table).
Hypothesis C : cert g aut tab.

(* key LR(0) lemma: an item with dot d on top of a well-formed stack has its first d
   rhs symbols on the stack, and the state d entries below contains the dot-0 item *)
Lemma suffix stk : wf_stack aut stk -> forall r d, In (r, d) (items (st aut (top_state stk))) ->
  d < length stk /\ map snd (firstn d stk) = rev (firstn d (rhs_of g r)) /\
  In (r, 0) (items (st aut (top_state (skipn d stk)))).
Proof.
  induction 1 as [|q X stk H IH Hg]; intros r d Hin.
  - simpl in Hin. pose proof (c_init _ _ _ C _ _ Hin) as ->. simpl. repeat split; auto.
  - simpl in Hin. destruct (c_goto _ _ _ C _ _ _ Hg) as [_ Hit].
    destruct (Hit _ _ Hin) as [-> | (d' & -> & Hin' & Hnth)].
    + simpl. repeat split; auto. lia.
    + destruct (IH _ _ Hin') as (Hlen & Hsym & H0).
      assert (Hf : firstn (S d') (rhs_of g r) = firstn d' (rhs_of g r) ++ [X]).
      { clear - Hnth. revert d' Hnth. generalize (rhs_of g r) as l.
        induction l as [|y l IHl]; intros [|d'] Hn; simpl in *; try discriminate.
        - inversion Hn; subst. reflexivity.
        - f_equal. apply IHl; auto. }
      split; [simpl; lia|]. split; [|exact H0].
      rewrite Hf, rev_app_distr. cbn [firstn map snd rev app]. rewrite Hsym. reflexivity.
Qed.


(* state 0 occurs only at the bottom of a well-formed stack *)
Lemma zero_bottom stk : wf_stack aut stk -> top_state stk = 0 -> stk = [(0, eof)].
Proof.
  destruct 1 as [|q X stk H Hg]; auto. simpl. intros ->.
  destruct (c_goto _ _ _ C _ _ _ Hg) as [Hq _]. congruence.
Qed.

Lemma flat_map_app' {A B} (f : A -> list B) l1 l2 : flat_map f (l1 ++ l2) = flat_map f l1 ++ flat_map f l2.
Proof. induction l1; simpl; auto. rewrite IHl1, app_assoc. reflexivity. Qed.

Lemma all_valid_app l1 l2 : all_valid g (l1 ++ l2) <-> all_valid g l1 /\ all_valid g l2.
Proof. induction l1; simpl; tauto. Qed.
Lemma all_valid_rev l : all_valid g (rev l) <-> all_valid g l.
Proof. induction l; simpl; [tauto|]. rewrite all_valid_app. simpl. tauto. Qed.
Lemma all_valid_firstn n l : all_valid g l -> all_valid g (firstn n l).
Proof. revert l; induction n; intros [|x l]; simpl; tauto || (intros [? ?]; split; auto). Qed.
Lemma all_valid_skipn n l : all_valid g l -> all_valid g (skipn n l).
Proof. revert l; induction n; intros [|x l]; simpl; auto. intros [? ?]; auto. Qed.

Definition inv (w : list nat) (stk : list (nat * nat)) (inp reds : list nat) : Prop :=
  wf_stack aut stk /\ exists ts : list tree,
    map (root g) ts ++ [eof] = map snd stk /\ all_valid g ts /\
    flat_map yield (rev ts) ++ inp = w /\ flat_map post (rev ts) = rev reds.

Theorem sound fuel : forall w stk inp reds out,
  (forall t, In t w -> t <> eof) ->
  inv w stk inp reds -> run fuel tab g stk inp reds = Acc out ->
  exists tr, valid g tr /\ Some (root g tr) = hd_error (rhs_of g 0) /\ yield tr = w /\ post tr = out.
Proof.
  induction fuel as [|f IH]; intros w stk inp reds out Hw (Hwf & ts & Hroot & Hval & Hy & Hp) Hrun; [discriminate|].
  cbn [run] in Hrun.
  destruct (tab (top_state stk) (hd eof inp)) as [q'|r| |] eqn:Ha; try discriminate.
  - (* shift *)
    pose proof (c_shift _ _ _ C _ _ _ Ha) as Hg.
    destruct inp as [|a inp].
    { simpl in Hg. rewrite (c_noeof _ _ _ C) in Hg. discriminate. }
    simpl in *. eapply IH; [exact Hw| |exact Hrun].
    split; [constructor; auto|]. exists (Leaf a :: ts). simpl. repeat split; auto.
    + f_equal. exact Hroot.
    + rewrite flat_map_app'. simpl. rewrite <- app_assoc. simpl. exact Hy.
    + rewrite flat_map_app'. simpl. rewrite app_nil_r. exact Hp.
  - (* reduce *)
    destruct (c_reduce _ _ _ C _ _ _ Ha) as (Hr0 & Hrlt & Hit).
    destruct (nth_error g r) as [R|] eqn:HR; [|discriminate].
    assert (HrhsR : rhs_of g r = rhs R) by (unfold rhs_of; rewrite HR; reflexivity).
    assert (HlhsR : lhs_of g r = lhs R) by (unfold lhs_of; rewrite HR; reflexivity).
    rewrite HrhsR in Hit.
    destruct (suffix _ Hwf _ _ Hit) as (Hlen & Hsym & _).
    set (k := length (rhs R)) in *.
    destruct (skipn k stk) as [|e stk'] eqn:Hsk; [discriminate|].
    rewrite <- Hsk in *.
    destruct (tab (top_state (skipn k stk)) (lhs R)) as [q'| | |] eqn:Hgo; try discriminate.
    pose proof (c_shift _ _ _ C _ _ _ Hgo) as Hg.
    eapply IH; [exact Hw| |exact Hrun].
    split; [constructor; auto; apply wf_skipn; auto|].
    (* the forest: the k top trees become children *)
    assert (Hkts : k <= length ts).
    { apply (f_equal (@length _)) in Hroot. rewrite app_length, !map_length in Hroot. simpl in Hroot. lia. }
    exists (Node r (rev (firstn k ts)) :: skipn k ts).
    assert (Hsplit : ts = firstn k ts ++ skipn k ts) by (symmetry; apply firstn_skipn).
    assert (Hfk : map (root g) (firstn k ts) = rev (rhs R)).
    { rewrite <- firstn_map.
      assert (firstn k (map (root g) ts) = firstn k (map snd stk)).
      { rewrite <- Hroot. rewrite firstn_app. rewrite map_length.
        replace (k - length ts) with 0 by lia. simpl. rewrite app_nil_r. reflexivity. }
      rewrite H. rewrite <- firstn_map in Hsym. rewrite Hsym.
      rewrite HrhsR. unfold k. rewrite firstn_all. reflexivity. }
    split; [|split; [|split]].
    + cbn [map root]. rewrite HlhsR. simpl. f_equal.
      rewrite <- skipn_map. rewrite <- skipn_map.
      rewrite <- Hroot. rewrite skipn_app. rewrite map_length.
      replace (k - length ts) with 0 by lia. simpl. rewrite skipn_map. reflexivity.
    + cbn [all_valid]. split; [|apply all_valid_skipn; exact Hval].
      apply valid_node. split; [exact Hrlt|]. split.
      * rewrite map_rev, Hfk, rev_involutive. symmetry; exact HrhsR.
      * apply all_valid_rev. apply all_valid_firstn. exact Hval.
    + cbn [rev]. rewrite flat_map_app'. cbn [flat_map yield]. rewrite app_nil_r.
      rewrite <- Hy. f_equal. rewrite Hsplit at 3. rewrite rev_app_distr, flat_map_app'. reflexivity.
    + cbn [rev]. rewrite flat_map_app'. cbn [flat_map post]. rewrite app_nil_r.
      rewrite <- Hp.
      rewrite Hsplit at 3. rewrite rev_app_distr, flat_map_app'. rewrite app_assoc. reflexivity.
  - (* accept *)
    destruct (c_accept _ _ _ C _ _ Ha) as (Hit & Heof).
    inversion Hrun; subst out; clear Hrun.
    destruct (suffix _ Hwf _ _ Hit) as (Hlen & Hsym & H0).
    apply (c_start _ _ _ C) in H0.
    assert (Hwf1 : wf_stack aut (skipn 1 stk)) by (apply wf_skipn; auto).
    pose proof (zero_bottom _ Hwf1 H0) as Hbot.
    destruct stk as [|[q X] stk]; [simpl in Hlen; lia|]. simpl in Hbot. subst stk.
    destruct (c_rule0 _ _ _ C) as [S HS]. rewrite HS in *. simpl in Hsym.
    inversion Hsym; subst X.
    destruct ts as [|t [|t' ts]]; simpl in Hroot; try discriminate.
    2:{ inversion Hroot. destruct (map (root g) ts); discriminate. }
    inversion Hroot as [Hrt]. simpl in *. rewrite app_nil_r in *.
    assert (inp = []).
    { destruct inp as [|a inp]; auto. simpl in Heof. subst a.
      exfalso. apply (Hw eof); auto. rewrite <- Hy. apply in_or_app. right. left. reflexivity. }
    subst inp. rewrite app_nil_r in Hy.
    exists t. split; [tauto|]. split; [rewrite Hrt; reflexivity|]. split; [exact Hy|]. rewrite <- Hp. reflexivity.
Qed.

End Sound.

