(* C14 on the model: the places where the Go code iterates over a map or a set do not let the iteration
   order reach the output.
   (1) The table generator consults a lookahead set only through membership: any order, any duplicates.
   (2) The identifier table (a Go map) is consumed only through sortedNames: every permutation of the
       table gives the same ordered identifiers, hence the same symbols and the same automatic codes. *)
From Coq Require Import List Arith ZArith Bool Ascii NArith Lia Permutation.
Import ListNotations.
From YG Require Import LRBase Resolve TableCert SortOrder Front FrontProofs FrontCodes.
Local Open Scope nat_scope.

(* ---------- (1) lookahead sets ---------- *)
Lemma nmem_iff x l : TableCert.nmem x l = true <-> In x l.
Proof.
  induction l as [|y l IH]; cbn [TableCert.nmem In]; [split; [discriminate|tauto]|].
  rewrite orb_true_iff, Nat.eqb_eq, IH. split; intros [H|H]; auto.
Qed.
Lemma nmem_ext a l1 l2 : (In a l1 <-> In a l2) -> TableCert.nmem a l1 = TableCert.nmem a l2.
Proof.
  intro H. destruct (TableCert.nmem a l1) eqn:E1; destruct (TableCert.nmem a l2) eqn:E2; try reflexivity.
  - apply nmem_iff in E1. apply H in E1. apply nmem_iff in E1. congruence.
  - apply nmem_iff in E2. apply H in E2. apply nmem_iff in E2. congruence.
Qed.

Theorem gen_table_set_only g aut la1 la2 sprec rprec :
  (forall q r a, In a (la1 q r) <-> In a (la2 q r)) ->
  forall q a, gen_table g aut la1 sprec rprec q a = gen_table g aut la2 sprec rprec q a.
Proof.
  intros H q a. unfold gen_table, candidates.
  assert (E : filter (fun r => TableCert.nmem a (la' la1 q r)) (complete_rules g aut q) =
              filter (fun r => TableCert.nmem a (la' la2 q r)) (complete_rules g aut q)).
  { apply filter_ext. intro r. unfold la'. destruct (Nat.eqb r 0); [reflexivity|]. apply nmem_ext. apply H. }
  rewrite E. reflexivity.
Qed.
Corollary gen_table_permutation g aut la1 la2 sprec rprec :
  (forall q r, Permutation (la1 q r) (la2 q r)) ->
  forall q a, gen_table g aut la1 sprec rprec q a = gen_table g aut la2 sprec rprec q a.
Proof.
  intros H. apply gen_table_set_only. intros q r a. split; apply Permutation_in; [apply H|symmetry; apply H].
Qed.

(* ---------- (2) the identifier table ---------- *)
(* the order on names is a total order *)
Lemma N_ltb_irrefl x : N.ltb x x = false. Proof. apply N.ltb_irrefl. Qed.
Lemma name_leb_total a : forall b, name_leb a b = true \/ name_leb b a = true.
Proof.
  induction a as [|x a IH]; intros [|y b]; cbn [name_leb]; auto.
  destruct (N.ltb_spec (N_of_ascii x) (N_of_ascii y)); [left; reflexivity|].
  destruct (N.ltb_spec (N_of_ascii y) (N_of_ascii x)); [right; reflexivity|]. apply IH.
Qed.
Lemma name_leb_trans a : forall b c, name_leb a b = true -> name_leb b c = true -> name_leb a c = true.
Proof.
  induction a as [|x a IH]; intros [|y b] [|z c]; cbn [name_leb]; try reflexivity; try discriminate.
  destruct (N.ltb_spec (N_of_ascii x) (N_of_ascii y)) as [Hxy|Hxy];
  destruct (N.ltb_spec (N_of_ascii y) (N_of_ascii z)) as [Hyz|Hyz];
  destruct (N.ltb_spec (N_of_ascii x) (N_of_ascii z)) as [Hxz|Hxz]; try reflexivity; try lia; intros H1 H2.
  - destruct (N.ltb_spec (N_of_ascii z) (N_of_ascii y)); [discriminate|lia].
  - destruct (N.ltb_spec (N_of_ascii y) (N_of_ascii x)); [discriminate|lia].
  - destruct (N.ltb_spec (N_of_ascii y) (N_of_ascii x)); [discriminate|].
    destruct (N.ltb_spec (N_of_ascii z) (N_of_ascii y)); [discriminate|].
    destruct (N.ltb_spec (N_of_ascii z) (N_of_ascii x)); [lia|]. eapply IH; eauto.
Qed.
Lemma N_of_ascii_inj x y : N_of_ascii x = N_of_ascii y -> x = y.
Proof. intro H. rewrite <- (ascii_N_embedding x), <- (ascii_N_embedding y), H. reflexivity. Qed.
Lemma name_leb_antisym a : forall b, name_leb a b = true -> name_leb b a = true -> a = b.
Proof.
  induction a as [|x a IH]; intros [|y b]; cbn [name_leb]; try reflexivity; try discriminate.
  destruct (N.ltb_spec (N_of_ascii x) (N_of_ascii y)) as [Hxy|Hxy]; destruct (N.ltb_spec (N_of_ascii y) (N_of_ascii x)) as [Hyx|Hyx]; try lia; try discriminate.
  intros H1 H2. assert (x = y) by (apply N_of_ascii_inj; lia). subst. f_equal. apply IH; assumption.
Qed.

(* sort_names is the generic insertion sort of SortOrder *)
Lemma ins_name_insert x s : ins_name x s = insert name name_leb x s.
Proof. induction s as [|y s IH]; cbn [ins_name insert]; [reflexivity|]. destruct (name_leb x y); [reflexivity|]. rewrite IH. reflexivity. Qed.
Lemma sort_names_isort l : sort_names l = isort name name_leb l.
Proof.
  unfold sort_names. induction l as [|x l IH]; cbn [fold_right isort]; [reflexivity|].
  rewrite IH. apply ins_name_insert.
Qed.

Theorem sort_names_order_independent l l' : Permutation l l' -> sort_names l = sort_names l'.
Proof.
  intro H. rewrite !sort_names_isort.
  apply (isort_order_independent name name_leb name_leb_total name_leb_trans name_leb_antisym l l' H).
Qed.

(* looking a name up does not depend on the order of a table without duplicate names *)
Lemma tab_find_perm t1 t2 n : Permutation t1 t2 -> NoDup (map i_name t1) -> tab_find t1 n = tab_find t2 n.
Proof.
  intros Hp Hnd.
  assert (Hnd2 : NoDup (map i_name t2)) by (eapply Permutation_NoDup; [apply Permutation_map; exact Hp|exact Hnd]).
  destruct (tab_find t1 n) as [i|] eqn:E1.
  - apply tab_find_name in E1. destruct E1 as [Hn Hin]. subst n.
    symmetry. apply tab_find_in; [exact Hnd2|]. eapply Permutation_in; eauto.
  - destruct (tab_find t2 n) as [j|] eqn:E2; [|reflexivity].
    apply tab_find_name in E2. destruct E2 as [Hn Hin]. subst n.
    apply tab_find_none in E1. exfalso. apply E1. apply in_map. eapply Permutation_in; [symmetry; exact Hp|exact Hin].
Qed.

(* the identifiers in the order in which BuildLALR1 turns them into symbols: independent of the table order *)
Theorem ordered_idents_order_independent t1 t2 :
  Permutation t1 t2 -> NoDup (map i_name t1) -> ordered_idents t1 = ordered_idents t2.
Proof.
  intros Hp Hnd. unfold ordered_idents, tab_names.
  rewrite (sort_names_order_independent (map i_name t1) (map i_name t2)) by (apply Permutation_map; exact Hp).
  assert (E : forall l, flat_map (fun n => match tab_find t1 n with Some i => [i] | None => [] end) l =
                        flat_map (fun n => match tab_find t2 n with Some i => [i] | None => [] end) l).
  { induction l as [|n l IH]; cbn [flat_map]; [reflexivity|]. rewrite (tab_find_perm t1 t2 n Hp Hnd), IH. reflexivity. }
  rewrite E. reflexivity.
Qed.
