(* Model: Parser/Lex.go, state function by state function, over bytes (ASCII: bytes >= 128 are "other"
   characters here, whereas the Go lexer decodes UTF-8 and asks unicode.IsLetter; the correspondence
   check compares ASCII texts).  The goroutine/channel pair becomes a finite token list plus a tail
   behaviour (what nextToken delivers after the list: EOF for ever once the channel is closed, or the
   error token for ever when the lexer is stuck re-sending it).  Every loop of the Go code that is not
   structural on the input is driven by `fuel`; Lexer proofs show that |input|+1 always suffices, i.e.
   every return to rootState has consumed at least one byte.  Definitions only. *)
From Coq Require Import List Arith Ascii Bool NArith.
Import ListNotations.
Open Scope char_scope.

Inductive lkind :=
| LxError | LxIdentifier | LxNumber | LxSection | LxCodeQuote | LxActionQuote | LxEOF
| LxType | LxToken | LxUnion | LxLeft | LxRight | LxNone | LxPrec | LxPrecedence | LxStart
| LxActionSelf | LxActionN | LxActionAccept | LxActionEnd
| LxOr | LxDefine | LxEnd | LxLAngle | LxRAngle | LxChar | LxString
| LxFuel.                                  (* never produced with enough fuel *)

(* t_rest: the input after the token (Token.EndAt), used for the epilogue *)
Record tok := mkTok { t_kind : lkind; t_value : list ascii; t_rest : list ascii }.
Inductive tail := Closed | ErrorForEver.

Definition code (c : ascii) : N := N_of_ascii c.
Definition is_upper (c : ascii) : bool := N.leb 65 (code c) && N.leb (code c) 90.
Definition is_lower (c : ascii) : bool := N.leb 97 (code c) && N.leb (code c) 122.
Definition is_letter (c : ascii) : bool := is_upper c || is_lower c.
Definition is_digit (c : ascii) : bool := N.leb 48 (code c) && N.leb (code c) 57.
Definition is_idch (c : ascii) : bool := is_letter c || is_digit c || Ascii.eqb c "_".
Definition nl : ascii := ascii_of_nat 10.
Definition tabc : ascii := ascii_of_nat 9.
Definition quote : ascii := ascii_of_nat 39.
Definition dquote : ascii := ascii_of_nat 34.
Definition bslash : ascii := ascii_of_nat 92.
Definition is_ws (c : ascii) : bool := Ascii.eqb c " " || Ascii.eqb c tabc || Ascii.eqb c nl.

(* strip a fixed prefix *)
Fixpoint strip (p s : list ascii) : option (list ascii) :=
  match p, s with
  | [], _ => Some s
  | x :: p', y :: s' => if Ascii.eqb x y then strip p' s' else None
  | _ :: _, [] => None
  end.
Definition has_prefix (p s : list ascii) : bool := match strip p s with Some _ => true | None => false end.
Fixpoint skip_spaces (s : list ascii) : list ascii :=
  match s with c :: s' => if Ascii.eqb c " " then skip_spaces s' else s | [] => [] end.
Fixpoint take_while (f : ascii -> bool) (s : list ascii) : list ascii * list ascii :=
  match s with
  | c :: s' => if f c then let '(a, r) := take_while f s' in (c :: a, r) else ([], s)
  | [] => ([], [])
  end.

(* acceptOnlyAlphaWord: optional spaces, the word, then not a letter, digit or underscore *)
Definition accept_alpha_word (w s : list ascii) : option (list ascii) :=
  match strip w (skip_spaces s) with
  | Some r => match r with c :: _ => if is_idch c then None else Some r | [] => Some r end
  | None => None
  end.
(* acceptWord: optional spaces, the word, then blank, tab, newline or end of input *)
Definition accept_word (w s : list ascii) : option (list ascii) :=
  match strip w (skip_spaces s) with
  | Some r => match r with c :: _ => if is_ws c then Some r else None | [] => Some r end
  | None => None
  end.

(* "//": through the end of the line *)
Fixpoint after_line (s : list ascii) : list ascii :=
  match s with [] => [] | c :: s' => if Ascii.eqb c nl then s' else after_line s' end.
(* block comment body (after the opening two bytes): Some rest after the closing star-slash, None at end of input;
   star = the previous byte was a star *)
Fixpoint block_comment (star : bool) (s : list ascii) : option (list ascii) :=
  match s with
  | [] => None
  | c :: s' => if star && Ascii.eqb c "/" then Some s' else block_comment (Ascii.eqb c "*") s'
  end.

(* ActionQuoteState / DirectiveUnionState: brace counting; returns (bytes up to and including the closing brace, rest) *)
Fixpoint braces (depth : nat) (s : list ascii) : option (list ascii * list ascii) :=
  match s with
  | [] => None
  | c :: s' =>
    if Ascii.eqb c "{" then match braces (S depth) s' with Some (a, r) => Some (c :: a, r) | None => None end
    else if Ascii.eqb c "}" then
      match depth with
      | 0 | 1 => Some ([c], s')
      | S d => match braces d s' with Some (a, r) => Some (c :: a, r) | None => None end
      end
    else match braces depth s' with Some (a, r) => Some (c :: a, r) | None => None end
  end.

(* CodeQuoteBegin: the first position where "%}" followed by white space or the end of input starts *)
Fixpoint code_end (s : list ascii) : option (list ascii * list ascii) :=
  match s with
  | [] => None
  | c :: s' =>
    match (if Ascii.eqb c "%" then match s' with
                                    | e :: r => if Ascii.eqb e "}" then match r with d :: _ => if is_ws d then Some r else None | [] => Some r end else None
                                    | [] => None end
           else None) with
    | Some r => Some ([], r)
    | None => match code_end s' with Some (a, r) => Some (c :: a, r) | None => None end
    end
  end.

(* stringKindState, after the opening quote: (value, rest); a backslash followed by a character other than the
   double quote keeps the backslash and loses that character *)
Fixpoint string_body (s : list ascii) : option (list ascii * list ascii) :=
  match s with
  | [] => None
  | c :: s' =>
    if Ascii.eqb c dquote then Some ([], s')
    else if Ascii.eqb c bslash then
      match s' with
      | d :: s'' =>
        match string_body s'' with
        | Some (a, r) => Some ((if Ascii.eqb d dquote then dquote else bslash) :: a, r)
        | None => None
        end
      | [] => None
      end
    else match string_body s' with Some (a, r) => Some (c :: a, r) | None => None end
  end.

Definition str (l : list ascii) := l.
Definition w_type := ["t"; "y"; "p"; "e"].
Definition w_token := ["t"; "o"; "k"; "e"; "n"].
Definition w_union := ["u"; "n"; "i"; "o"; "n"].
Definition w_left := ["l"; "e"; "f"; "t"].
Definition w_right := ["r"; "i"; "g"; "h"; "t"].
Definition w_nonassoc := ["n"; "o"; "n"; "a"; "s"; "s"; "o"; "c"].
Definition w_prec := ["p"; "r"; "e"; "c"].
Definition w_precedence := ["p"; "r"; "e"; "c"; "e"; "d"; "e"; "n"; "c"; "e"].
Definition w_start := ["s"; "t"; "a"; "r"; "t"].
Definition w_accept := ["a"; "c"; "c"; "e"; "p"; "t"].
Definition w_end := ["e"; "n"; "d"].

(* DirectiveOtherState: the first keyword that matches *)
Definition directive_word (s : list ascii) : option (lkind * list ascii) :=
  match accept_alpha_word w_type s with Some r => Some (LxType, r) | None =>
  match accept_alpha_word w_token s with Some r => Some (LxToken, r) | None =>
  match accept_alpha_word w_union s with Some r => Some (LxUnion, r) | None =>
  match accept_alpha_word w_left s with Some r => Some (LxLeft, r) | None =>
  match accept_alpha_word w_right s with Some r => Some (LxRight, r) | None =>
  match accept_alpha_word w_nonassoc s with Some r => Some (LxNone, r) | None =>
  match accept_alpha_word w_prec s with Some r => Some (LxPrec, r) | None =>
  match accept_alpha_word w_precedence s with Some r => Some (LxPrecedence, r) | None =>
  match accept_alpha_word w_start s with Some r => Some (LxStart, r) | None => None
  end end end end end end end end end.

(* DirectiveUnionState, after the word "union": blanks and tabs, then "{" followed by white space, then the body *)
Fixpoint skip_blank_tab (s : list ascii) : list ascii :=
  match s with c :: s' => if Ascii.eqb c " " || Ascii.eqb c tabc then skip_blank_tab s' else s | [] => [] end.
Definition union_body (s : list ascii) : option (list ascii * list ascii) :=
  match accept_word ["{"] (skip_blank_tab s) with
  | Some r => match braces 1 r with
              | Some (a, r') => Some (removelast a, r')       (* the value excludes the closing brace *)
              | None => None
              end
  | None => None
  end.

Definition errtok : tok := mkTok LxError [] [].
Definition is_union (k : lkind) : bool := match k with LxUnion => true | _ => false end.

(* One visit of rootState (with the states it dispatches to): either the lexer stops with some last tokens and a
   tail behaviour, or it emits some tokens and returns to rootState on the rest of the input.
   carry: bytes consumed since the start of the current word (only "%" after a directive that is no keyword). *)
Inductive step_result :=
| Done (ts : list tok) (tl : tail)
| Cont (ts : list tok) (carry : list ascii) (rest : list ascii).

Definition lex_step (carry : list ascii) (s : list ascii) : step_result :=
  let emit := fun (k : lkind) (v : list ascii) (r : list ascii) => Cont [mkTok k v r] [] r in
  if has_prefix ["/"; "/"] s then Cont [] [] (after_line s)
  else if has_prefix ["/"; "*"] s then
    match block_comment false (skipn 2 s) with
    | Some r => Cont [] [] r
    | None => Done [] ErrorForEver                     (* "comment do not has" ...: the error is re-sent for ever *)
    end
  else
  match s with
  | [] => Done [mkTok LxEOF [] []] Closed
  | c :: r =>
    if Ascii.eqb c "%" then
      let other :=
        match directive_word r with
        | Some (k, r') =>
          if is_union k then
            match union_body r' with
            | Some (v, r'') => emit LxUnion v r''
            | None => Done [errtok] Closed
            end
          else emit k (carry ++ "%" :: firstn (length r - length r') r) r'      (* the word: "%", skipped blanks, keyword *)
        | None => Cont [] (carry ++ ["%"]) r            (* no keyword: the "%" stays in the current word *)
        end in
      match r with
      | d :: r' =>
        if Ascii.eqb d "%" then emit LxSection (carry ++ ["%"; "%"]) r'
        else if Ascii.eqb d "{" then
          match code_end r' with
          | Some (v, r'') => emit LxCodeQuote v r''
          | None => Done [errtok] Closed
          end
        else other
      | [] => other
      end
    else if Ascii.eqb c "$" then
      match r with
      | d :: r' =>
        if Ascii.eqb d "$" then emit LxActionSelf (carry ++ ["$"; "$"]) r'
        else if is_digit d then let '(ds, r'') := take_while is_digit r' in emit LxActionN (carry ++ "$" :: d :: ds) r''
        else match accept_alpha_word w_accept r' with
             | Some r'' => emit LxActionAccept (carry ++ ["$"]) r''
             | None =>
               match accept_alpha_word w_end r' with
               | Some r'' => emit LxActionEnd (carry ++ ["$"]) r''
               | None => Cont [errtok] (carry ++ ["$"; d]) r'      (* the lexer goes on after this error *)
               end
             end
      | [] => Done [errtok; mkTok LxEOF [] []] Closed
      end
    else if Ascii.eqb c "|" then emit LxOr (carry ++ [c]) r
    else if Ascii.eqb c ":" then emit LxDefine (carry ++ [c]) r
    else if Ascii.eqb c ";" then emit LxEnd (carry ++ [c]) r
    else if is_ws c then Cont [] [] r
    else if Ascii.eqb c quote then
      match r with
      | d :: r' =>
        if Ascii.eqb d bslash then
          match r' with
          | e :: r'' => if Ascii.eqb e quote then emit LxChar [quote] r'' else Done [errtok] Closed
          | [] => Done [errtok] Closed
          end
        else match r' with
             | e :: r'' => if Ascii.eqb e quote then emit LxChar [d] r'' else Done [errtok] Closed
             | [] => Done [errtok] Closed
             end
      | [] => Done [errtok] Closed
      end
    else if Ascii.eqb c dquote then
      match string_body r with
      | Some (v, r') => emit LxString v r'
      | None => Done [errtok] Closed
      end
    else if is_letter c || Ascii.eqb c "_" then
      let '(cs, r') := take_while is_idch r in emit LxIdentifier (carry ++ c :: cs) r'
    else if Ascii.eqb c "<" then emit LxLAngle (carry ++ [c]) r
    else if Ascii.eqb c ">" then emit LxRAngle (carry ++ [c]) r
    else if is_digit c then let '(ds, r') := take_while is_digit r in emit LxNumber (carry ++ c :: ds) r'
    else if Ascii.eqb c "-" then let '(ds, r') := take_while is_digit r in emit LxNumber (carry ++ c :: ds) r'
    else if Ascii.eqb c "{" then
      match braces 1 r with
      | Some (a, r') => emit LxActionQuote (carry ++ c :: a) r'
      | None => Done [errtok] Closed
      end
    else Done [errtok] Closed
  end.

(* the run loop of the lexer goroutine *)
Fixpoint lex_root (fuel : nat) (carry : list ascii) (s : list ascii) : list tok * tail :=
  match fuel with
  | 0 => ([mkTok LxFuel [] s], Closed)
  | S f =>
    match lex_step carry s with
    | Done ts tl => (ts, tl)
    | Cont ts carry' rest => let '(ts', tl) := lex_root f carry' rest in (ts ++ ts', tl)
    end
  end.

Definition lex (s : list ascii) : list tok * tail := lex_root (S (length s)) [] s.
