(* Model and proofs: LALR/LALRDraw.go DrawGrammar - the automaton diagram.  One node per LR(0) state in the order of
   LR0Closure (label: the items), then one pass over the rows of the dense table: a cell that is neither the error
   code nor the accept code and is >= 0 becomes an edge, the accept code marks the node, a negative cell becomes a
   "symbol: reduce rule at r" line of the node.  The theorems say that, read against the action function the matrix was
   generated from, the diagram shows exactly its shifts/gotos, its reductions with their lookahead symbols and its
   accepting state - nothing else - with the state numbers of the table. *)
From Coq Require Import List Arith ZArith Bool Lia.
Import ListNotations.
From YG Require Import LRBase LR0Build Pipeline.

Record gnode := { gn_state : nat; gn_items : list item; gn_look : list (nat * nat); gn_accept : bool }.
Definition gedge := (nat * nat * nat)%type.      (* from, symbol, to *)

Definition is_edge_cell (n : nat) (d : Z) : bool :=
  negb (Z.eqb d (err_code n)) && negb (Z.eqb d (acc_code n)) && Z.leb 0 d.
Definition is_acc_cell (n : nat) (d : Z) : bool := negb (is_edge_cell n d) && Z.eqb d (acc_code n).
Definition is_red_cell (n : nat) (d : Z) : bool := negb (is_edge_cell n d) && negb (Z.eqb d (acc_code n)) && Z.ltb d 0.

Definition indexed (row : list Z) : list (nat * Z) := combine (seq 0 (length row)) row.
Definition row_edges (n q : nat) (row : list Z) : list gedge :=
  flat_map (fun ad => if is_edge_cell n (snd ad) then [(q, fst ad, Z.to_nat (snd ad))] else []) (indexed row).
Definition row_look (n : nat) (row : list Z) : list (nat * nat) :=
  flat_map (fun ad => if is_red_cell n (snd ad) then [(fst ad, Z.to_nat (- snd ad))] else []) (indexed row).
Definition row_accept (n : nat) (row : list Z) : bool := existsb (is_acc_cell n) row.

Definition draw_nodes (aut : automaton) (m : list (list Z)) : list gnode :=
  let n := length aut in
  map (fun q => {| gn_state := q; gn_items := items (nth q aut {| items := []; gotos := [] |});
                   gn_look := row_look n (nth q m []); gn_accept := row_accept n (nth q m []) |}) (seq 0 n).
Definition draw_edges (aut : automaton) (m : list (list Z)) : list gedge :=
  let n := length aut in
  flat_map (fun q => row_edges n q (nth q m [])) (seq 0 (length m)).

(* ---- the diagram of a generated matrix, read against the action function ---- *)
Section Spec.
Variables (n nsyms : nat) (t : table).
Hypothesis shift_lt : forall q a q', t q a = Shift q' -> q' < n.          (* LR0Build.build_goto_lt *)
Hypothesis no_reduce0 : forall q a, t q a <> Reduce 0.                     (* rule 0 is the accept action *)

Lemma indexed_in row a d : In (a, d) (indexed row) <-> a < length row /\ nth a row 0%Z = d.
Proof.
  unfold indexed. split.
  - intros H. pose proof (in_combine_l _ _ _ _ H) as Hl. apply in_seq in Hl.
    apply (In_nth _ _ (0, 0%Z)) in H. destruct H as (i & Hi & E).
    rewrite combine_length, seq_length, Nat.min_id in Hi.
    rewrite combine_nth in E by (rewrite seq_length; reflexivity).
    rewrite seq_nth in E by exact Hi. inversion E; subst. split; [exact Hi | reflexivity].
  - intros [Ha <-].
    replace (a, nth a row 0%Z) with (nth a (combine (seq 0 (length row)) row) (0, 0%Z)).
    + apply nth_In. rewrite combine_length, seq_length, Nat.min_id. exact Ha.
    + rewrite combine_nth by (rewrite seq_length; reflexivity). rewrite seq_nth by exact Ha. reflexivity.
Qed.

Definition row_of (q : nat) : list Z := map (fun a => encode n (t q a)) (seq 0 nsyms).

Lemma row_of_nth q a : a < nsyms -> nth a (row_of q) 0%Z = encode n (t q a).
Proof.
  intros H. unfold row_of. rewrite (nth_indep _ 0%Z (encode n (t q 0))) by (rewrite map_length, seq_length; exact H).
  rewrite (map_nth (fun a => encode n (t q a)) (seq 0 nsyms) 0 a). rewrite seq_nth by exact H. reflexivity.
Qed.
Lemma row_of_length q : length (row_of q) = nsyms.
Proof. unfold row_of; rewrite map_length, seq_length; reflexivity. Qed.

Lemma edge_cell_encode q a : is_edge_cell n (encode n (t q a)) = true <-> exists q', t q a = Shift q'.
Proof.
  unfold is_edge_cell, err_code, acc_code. destruct (t q a) as [q'|r| |] eqn:E; simpl.
  - pose proof (shift_lt _ _ _ E).
    destruct (Z.eqb_spec (Z.of_nat q') (Z.of_nat (n + 100))); [lia|].
    destruct (Z.eqb_spec (Z.of_nat q') (Z.of_nat (n + 200))); [lia|].
    destruct (Z.leb_spec 0 (Z.of_nat q')); [|lia]. simpl. split; eauto.
  - destruct r as [|r]; [exfalso; exact (no_reduce0 _ _ E)|].
    destruct (Z.leb_spec 0 (- Z.of_nat (S r))); [lia|]. rewrite !andb_false_r. split; [discriminate | intros [? ?]; discriminate].
  - rewrite Z.eqb_refl. rewrite andb_false_r. split; [discriminate | intros [? ?]; discriminate].
  - rewrite Z.eqb_refl. split; [discriminate | intros [? ?]; discriminate].
Qed.

Lemma red_cell_encode q a : is_red_cell n (encode n (t q a)) = true <-> exists r, t q a = Reduce r.
Proof.
  unfold is_red_cell. split.
  - intros H. apply andb_true_iff in H; destruct H as [H H3]. apply andb_true_iff in H; destruct H as [H1 H2].
    destruct (t q a) as [q'|r| |] eqn:E; eauto; exfalso.
    + simpl in H3. destruct (Z.ltb_spec (Z.of_nat q') 0); [lia | discriminate].
    + simpl in H2. rewrite Z.eqb_refl in H2. discriminate.
    + simpl in H3. unfold err_code in H3. destruct (Z.ltb_spec (Z.of_nat (n + 100)) 0); [lia | discriminate].
  - intros [r E]. assert (Hn : is_edge_cell n (encode n (t q a)) = false).
    { destruct (is_edge_cell n (encode n (t q a))) eqn:F; [|reflexivity].
      apply edge_cell_encode in F. destruct F as [q' F]. congruence. }
    rewrite Hn, E. simpl. destruct r as [|r]; [exfalso; exact (no_reduce0 _ _ E)|].
    unfold acc_code. destruct (Z.eqb_spec (- Z.of_nat (S r)) (Z.of_nat (n + 200))); [lia|].
    destruct (Z.ltb_spec (- Z.of_nat (S r)) 0); [reflexivity | lia].
Qed.

Lemma acc_cell_encode q a : is_acc_cell n (encode n (t q a)) = true <-> t q a = Accept.
Proof.
  unfold is_acc_cell. split.
  - intros H. apply andb_true_iff in H; destruct H as [_ H].
    destruct (t q a) as [q'|r| |] eqn:E; try reflexivity; exfalso; simpl in H; unfold acc_code, err_code in H.
    + pose proof (shift_lt _ _ _ E). destruct (Z.eqb_spec (Z.of_nat q') (Z.of_nat (n + 200))); [lia | discriminate].
    + destruct (Z.eqb_spec (- Z.of_nat r) (Z.of_nat (n + 200))); [lia | discriminate].
    + destruct (Z.eqb_spec (Z.of_nat (n + 100)) (Z.of_nat (n + 200))); [lia | discriminate].
  - intros E. assert (Hn : is_edge_cell n (encode n (t q a)) = false).
    { destruct (is_edge_cell n (encode n (t q a))) eqn:F; [|reflexivity].
      apply edge_cell_encode in F. destruct F as [q' F]. congruence. }
    rewrite Hn, E. simpl. apply Z.eqb_refl.
Qed.

(* an edge is drawn exactly for every shift / goto of the table, with its symbol and target state *)
Theorem row_edges_spec q a q' :
  In (q, a, q') (row_edges n q (row_of q)) <-> a < nsyms /\ t q a = Shift q'.
Proof.
  unfold row_edges. rewrite in_flat_map. split.
  - intros ([a0 d] & Hin & H). apply indexed_in in Hin. destruct Hin as [Ha Hd]. rewrite row_of_length in Ha.
    rewrite row_of_nth in Hd by exact Ha. cbn [fst snd] in H.
    destruct (is_edge_cell n d) eqn:F; [|contradiction]. destruct H as [H|[]]. inversion H; subst a0 q'. clear H.
    split; [exact Ha|]. rewrite <- Hd in F. apply edge_cell_encode in F. destruct F as [q1 F].
    rewrite <- Hd, F. simpl. rewrite Nat2Z.id. reflexivity.
  - intros [Ha E]. exists (a, encode n (t q a)). split.
    + apply indexed_in. rewrite row_of_length. split; [exact Ha | apply row_of_nth, Ha].
    + cbn [fst snd]. assert (F : is_edge_cell n (encode n (t q a)) = true) by (apply edge_cell_encode; eauto).
      rewrite F. left. rewrite E. simpl. rewrite Nat2Z.id. reflexivity.
Qed.

(* a "symbol: reduce rule at r" line is written exactly for every reduction of the table, under its lookahead symbol *)
Theorem row_look_spec q a r :
  In (a, r) (row_look n (row_of q)) <-> a < nsyms /\ t q a = Reduce r.
Proof.
  unfold row_look. rewrite in_flat_map. split.
  - intros ([a0 d] & Hin & H). apply indexed_in in Hin. destruct Hin as [Ha Hd]. rewrite row_of_length in Ha.
    rewrite row_of_nth in Hd by exact Ha. cbn [fst snd] in H.
    destruct (is_red_cell n d) eqn:F; [|contradiction]. destruct H as [H|[]]. inversion H; subst a0 r. clear H.
    split; [exact Ha|]. rewrite <- Hd in F. apply red_cell_encode in F. destruct F as [r1 F].
    rewrite <- Hd, F. simpl. rewrite Z.opp_involutive, Nat2Z.id. reflexivity.
  - intros [Ha E]. exists (a, encode n (t q a)). split.
    + apply indexed_in. rewrite row_of_length. split; [exact Ha | apply row_of_nth, Ha].
    + cbn [fst snd]. assert (F : is_red_cell n (encode n (t q a)) = true) by (apply red_cell_encode; eauto).
      rewrite F. left. rewrite E. simpl. rewrite Z.opp_involutive, Nat2Z.id. reflexivity.
Qed.

(* the node is marked as accepting exactly when the table accepts in that state *)
Theorem row_accept_spec q : row_accept n (row_of q) = true <-> exists a, a < nsyms /\ t q a = Accept.
Proof.
  unfold row_accept. rewrite existsb_exists. split.
  - intros (d & Hin & H). apply (In_nth _ _ 0%Z) in Hin. destruct Hin as (a & Ha & Hd). rewrite row_of_length in Ha.
    rewrite row_of_nth in Hd by exact Ha. exists a. split; [exact Ha|]. rewrite <- Hd in H. apply acc_cell_encode, H.
  - intros (a & Ha & E). exists (encode n (t q a)). split.
    + rewrite <- (row_of_nth q a Ha). apply nth_In. rewrite row_of_length. exact Ha.
    + apply acc_cell_encode, E.
Qed.
End Spec.

(* ---- the whole diagram of the matrix dense_of produces ---- *)
Section Whole.
Variables (aut : automaton) (nsyms : nat) (t : table).
Hypothesis shift_lt : forall q a q', t q a = Shift q' -> q' < length aut.
Hypothesis no_reduce0 : forall q a, t q a <> Reduce 0.
Let m := dense_of (length aut) nsyms t.

Lemma dense_row q : q < length aut -> nth q m [] = row_of (length aut) nsyms t q.
Proof.
  intros H. unfold m, dense_of, row_of.
  rewrite (nth_indep _ [] (map (fun a => encode (length aut) (t 0 a)) (seq 0 nsyms))) by (rewrite map_length, seq_length; exact H).
  rewrite (map_nth (fun q => map (fun a => encode (length aut) (t q a)) (seq 0 nsyms)) (seq 0 (length aut)) 0 q).
  rewrite seq_nth by exact H. reflexivity.
Qed.

(* one node per state, numbered as in the table, showing the items of that state *)
Theorem draw_nodes_states : map gn_state (draw_nodes aut m) = seq 0 (length aut).
Proof. unfold draw_nodes. rewrite map_map. cbn [gn_state]. apply map_id. Qed.

Theorem draw_nodes_items q : q < length aut ->
  exists nd, nth_error (draw_nodes aut m) q = Some nd /\ gn_state nd = q /\ gn_items nd = items (nth q aut {| items := []; gotos := [] |})
    /\ (forall a r, In (a, r) (gn_look nd) <-> a < nsyms /\ t q a = Reduce r)
    /\ (gn_accept nd = true <-> exists a, a < nsyms /\ t q a = Accept).
Proof.
  intros H. unfold draw_nodes. eexists. split.
  - rewrite nth_error_map. rewrite (nth_error_nth' (seq 0 (length aut)) 0) by (rewrite seq_length; exact H).
    rewrite seq_nth by exact H. simpl. reflexivity.
  - cbn [gn_state gn_items gn_look gn_accept]. rewrite (dense_row q H).
    split; [reflexivity|]. split; [reflexivity|]. split.
    + intros a r. apply (row_look_spec (length aut) nsyms t shift_lt no_reduce0 q a r).
    + apply (row_accept_spec (length aut) nsyms t shift_lt no_reduce0 q).
Qed.

(* the edges are exactly the shifts and gotos of the table *)
Theorem draw_edges_spec q a q' :
  In (q, a, q') (draw_edges aut m) <-> q < length aut /\ a < nsyms /\ t q a = Shift q'.
Proof.
  unfold draw_edges. rewrite in_flat_map.
  assert (Hlen : length m = length aut) by (unfold m, dense_of; rewrite map_length, seq_length; reflexivity).
  rewrite Hlen. split.
  - intros (q0 & Hq & Hin). apply in_seq in Hq. assert (Hq0 : q0 < length aut) by lia.
    rewrite (dense_row q0 Hq0) in Hin.
    assert (q0 = q).
    { unfold row_edges in Hin. apply in_flat_map in Hin. destruct Hin as (ad & _ & H).
      destruct (is_edge_cell (length aut) (snd ad)); [|contradiction]. destruct H as [H|[]]. inversion H; reflexivity. }
    subst q0. split; [exact Hq0|]. apply (row_edges_spec (length aut) nsyms t shift_lt no_reduce0 q a q'), Hin.
  - intros (Hq & Ha & E). exists q. split; [apply in_seq; lia|]. rewrite (dense_row q Hq).
    apply (row_edges_spec (length aut) nsyms t shift_lt no_reduce0 q a q'). auto.
Qed.
End Whole.
