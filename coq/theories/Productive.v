(* Originally a design-phase spike: the productivity fixpoint of Grammar/grammar.go
   (CalculateCanTerminate, sweeping the rules until nothing changes) computes exactly the
   nonterminals that derive a terminal string; fuel |g|+1 suffices. *)
From Coq Require Import List Arith Lia Bool.
Import ListNotations.
From YG Require Import LRBase.

Section Prod.
Variable g : grammar.
Variable is_term : nat -> bool.     (* symbols that are terminals *)

Fixpoint nmem (x : nat) (l : list nat) : bool := match l with [] => false | y :: l' => Nat.eqb x y || nmem x l' end.
Lemma nmem_In x l : nmem x l = true <-> In x l.
Proof. induction l; simpl; [split; [discriminate|tauto]|]. rewrite orb_true_iff, Nat.eqb_eq, IHl. intuition. Qed.

Definition can (P : list nat) (x : nat) : bool := is_term x || nmem x P.      (* Symbol.CanTerminate *)
(* one sweep over the rules, flags updated on the fly as in the Go loop *)
Fixpoint sweep (rules : list rule) (P : list nat) : list nat :=
  match rules with
  | [] => P
  | R :: rest => if forallb (can P) (rhs R) && negb (can P (lhs R)) then sweep rest (P ++ [lhs R]) else sweep rest P
  end.
Fixpoint iterate (fuel : nat) (P : list nat) : list nat :=
  match fuel with
  | 0 => P
  | S f => let P' := sweep g P in if Nat.eqb (length P') (length P) then P else iterate f P'
  end.
Definition productive_set : list nat := iterate (S (length g)) [].

Inductive productive : nat -> Prop :=
| prod_t a : is_term a = true -> productive a
| prod_r r R : nth_error g r = Some R -> Forall productive (rhs R) -> productive (lhs R).

Lemma productive_ind' (Q : nat -> Prop) :
  (forall a, is_term a = true -> Q a) ->
  (forall r R, nth_error g r = Some R -> Forall productive (rhs R) -> Forall Q (rhs R) -> Q (lhs R)) ->
  forall x, productive x -> Q x.
Proof.
  intros Ht Hr. fix IH 2. intros x Hx. destruct Hx as [a Ha | r R HR Hall]; [auto|].
  apply (Hr r R HR Hall). induction Hall; constructor; auto.
Qed.

Definition sound (P : list nat) : Prop := forall x, In x P -> productive x.
Lemma can_sound P x : sound P -> can P x = true -> productive x.
Proof. intros H Hc. unfold can in Hc. apply orb_true_iff in Hc. destruct Hc as [Hc|Hc]; [constructor; auto|apply H, nmem_In; auto]. Qed.

Lemma sweep_sound rules : (forall R, In R rules -> exists r, nth_error g r = Some R) -> forall P, sound P -> sound (sweep rules P).
Proof.
  induction rules as [|R rest IH]; intros Hin P HP; simpl; auto.
  assert (Hrest : forall R0, In R0 rest -> exists r, nth_error g r = Some R0) by (intros; apply Hin; right; auto).
  destruct (forallb (can P) (rhs R) && negb (can P (lhs R))) eqn:E; [|apply IH; auto].
  apply IH; auto. intros x Hx. apply in_app_or in Hx. destruct Hx as [Hx|[<-|[]]]; auto.
  apply andb_true_iff in E. destruct E as [E _]. destruct (Hin R (or_introl eq_refl)) as (r & Hr).
  apply prod_r with (r := r); auto. rewrite forallb_forall in E. apply Forall_forall. intros y Hy. eapply can_sound; eauto.
Qed.

Lemma sweep_incl rules : forall P x, In x P -> In x (sweep rules P).
Proof. induction rules as [|R rest IH]; intros P x H; simpl; auto. destruct (_ && _); apply IH; auto. apply in_or_app; auto. Qed.
Lemma sweep_length rules : forall P, length P <= length (sweep rules P).
Proof. induction rules as [|R rest IH]; intros P; simpl; auto. destruct (_ && _); auto. etransitivity; [|apply IH]. rewrite app_length; simpl; lia. Qed.
Lemma can_mono P P' x : (forall y, In y P -> In y P') -> can P x = true -> can P' x = true.
Proof. unfold can. intros H Hc. apply orb_true_iff in Hc. apply orb_true_iff. destruct Hc; auto. right. apply nmem_In, H, nmem_In; auto. Qed.

(* a sweep that adds nothing leaves a set closed under the rules *)
Lemma sweep_same rules : forall P, length (sweep rules P) = length P ->
  forall R, In R rules -> forallb (can P) (rhs R) = true -> can P (lhs R) = true.
Proof.
  induction rules as [|R0 rest IH]; intros P Hlen R HR Hall; [destruct HR|]. simpl in Hlen.
  destruct (forallb (can P) (rhs R0) && negb (can P (lhs R0))) eqn:E.
  - exfalso. pose proof (sweep_length rest (P ++ [lhs R0])). rewrite app_length in H. simpl in H. lia.
  - destruct HR as [<-|HR]; [|eapply IH; eauto].
    apply andb_false_iff in E. destruct E as [E|E]; [congruence|]. apply negb_false_iff in E. auto.
Qed.

Lemma sweep_nodup rules : forall P, NoDup P -> NoDup (sweep rules P).
Proof.
  induction rules as [|R rest IH]; intros P H; simpl; auto.
  destruct (forallb (can P) (rhs R) && negb (can P (lhs R))) eqn:E; auto. apply IH.
  apply andb_true_iff in E. destruct E as [_ E]. apply negb_true_iff in E. unfold can in E. apply orb_false_iff in E. destruct E as [_ E].
  apply NoDup_rev in H. rewrite <- (rev_involutive (P ++ [lhs R])). apply NoDup_rev. rewrite rev_app_distr. simpl. constructor; auto.
  intros Hin. apply in_rev in Hin. apply nmem_In in Hin. congruence.
Qed.
Lemma sweep_lhs rules : forall P, (forall x, In x P -> In x (map lhs g)) -> (forall R, In R rules -> In R g) ->
  forall x, In x (sweep rules P) -> In x (map lhs g).
Proof.
  induction rules as [|R rest IH]; intros P HP Hin x Hx; simpl in Hx; auto.
  assert (Hrest : forall R0, In R0 rest -> In R0 g) by (intros; apply Hin; right; auto).
  destruct (_ && _); [|eapply IH; eauto].
  eapply IH; [| |exact Hx]; auto. intros y Hy. apply in_app_or in Hy. destruct Hy as [Hy|[<-|[]]]; auto.
  apply in_map. apply Hin. left; auto.
Qed.

Definition closed (P : list nat) : Prop := forall R, In R g -> forallb (can P) (rhs R) = true -> can P (lhs R) = true.

Lemma iterate_closed fuel : forall P, NoDup P -> (forall x, In x P -> In x (map lhs g)) -> length g < length P + fuel -> closed (iterate fuel P).
Proof.
  induction fuel as [|f IH]; intros P Hnd Hlhs Hlen; simpl.
  - exfalso. pose proof (NoDup_incl_length Hnd Hlhs). rewrite map_length in H. lia.
  - destruct (Nat.eqb_spec (length (sweep g P)) (length P)) as [E|E].
    + intros R HR Hall. eapply sweep_same; eauto.
    + apply IH.
      * apply sweep_nodup; auto.
      * apply sweep_lhs; auto.
      * pose proof (sweep_length g P). lia.
Qed.
Lemma iterate_sound fuel : forall P, sound P -> sound (iterate fuel P).
Proof.
  induction fuel as [|f IH]; intros P H; simpl; auto. destruct (Nat.eqb _ _); auto. apply IH.
  apply sweep_sound; auto. intros R HR. apply In_nth_error in HR. exact HR.
Qed.

Theorem productive_set_correct x : can productive_set x = true <-> productive x.
Proof.
  split.
  - apply can_sound. apply iterate_sound. intros y [].
  - assert (Hc : closed productive_set).
    { apply iterate_closed; [apply NoDup_nil|intros y []|simpl; lia]. }
    intros H. induction H as [a Ha | r R HR Hall IH] using productive_ind'.
    + unfold can. rewrite Ha. reflexivity.
    + apply Hc; [eapply nth_error_In; eauto|]. apply forallb_forall. rewrite Forall_forall in IH. auto.
Qed.

End Prod.
Print Assumptions productive_set_correct.
