(* C10, lexer and parser together: a text that spells out a specification - whatever blanks, line breaks and comments
   separate its tokens - is parsed into the AST of that specification (LexerRoundtrip.lex_render + ParserRoundtrip.parse_spec). *)
From Coq Require Import List Arith ZArith Bool Ascii Lia.
Import ListNotations.
From YG Require Import Lexer Front YParser LexerRoundtrip ParserRoundtrip.

(* a token of a document spells out an item of the specification: right kind, and the right text where the parser reads it *)
Definition ltm (t : ltoken) (x : kv) : Prop :=
  tok_kind t = fst x /\ match snd x with Some v => tok_value t = v | None => True end.

Lemma expect_M d trail K : Forall2 M (expect d trail) K <-> Forall2 ltm (map snd d) K.
Proof.
  revert K; induction d as [|[seps t] d IH]; intros K; cbn [expect map snd].
  - split; intros H; inversion H; constructor.
  - split; intros H; inversion H; subst; constructor; try (apply IH; assumption); assumption.
Qed.

Theorem parse_render d trail sp :
  wf_doc d trail -> Forall2 ltm (map snd d) (spec_kv sp) -> spec_ok sp = true ->
  parse_text (render d trail) = PAst (spec_ast sp []).
Proof.
  intros Hwf Hm Hok. unfold parse_text. rewrite (lex_render d trail Hwf).
  apply (parse_spec sp (expect d trail) (mkTok LxEOF [] []) [] _ (proj2 (expect_M d trail _) Hm) Hok eq_refl). lia.
Qed.

(* layout does not matter: two documents with the same tokens, separated in any two ways, are parsed alike *)
Corollary layout_irrelevant d1 t1 d2 t2 sp :
  wf_doc d1 t1 -> wf_doc d2 t2 -> map snd d1 = map snd d2 ->
  Forall2 ltm (map snd d1) (spec_kv sp) -> spec_ok sp = true ->
  parse_text (render d1 t1) = parse_text (render d2 t2).
Proof.
  intros W1 W2 E Hm Hok. rewrite (parse_render d1 t1 sp W1 Hm Hok). rewrite E in Hm. rewrite (parse_render d2 t2 sp W2 Hm Hok). reflexivity.
Qed.

(* ---- a concrete instance: the premises are satisfiable and the AST is what one expects ----
     %{p%}   %union { v }   %token NUM 300   %left '+'   %%   e : e '+' e {x} | NUM ;
   once with single blanks and once with comments and line breaks. *)
Open Scope char_scope.
Definition ex_spec : spec :=
  {| s_decls := [SDCode ["p"]; SDUnion [" "; "v"; " "]; SDTok None [TId ["N"; "U"; "M"] (Some ["3"; "0"; "0"])]; SDPrec KLeft None [PCh ["+"]]];
     s_groups := [{| g_lhs := ["e"];
                     g_first := [ESym (PId ["e"]); ESym (PCh ["+"]); ESym (PId ["e"]); EAct ["{"; "x"; "}"]];
                     g_more := [[ESym (PId ["N"; "U"; "M"])]]; g_semi := true |}] |}.
Definition ex_tokens : list ltoken :=
  [TkCode ["p"]; TkUnion [" "; "v"; " "; "}"]; TkDir DToken; TkId "N" ["U"; "M"]; TkNum "3" ["0"; "0"]; TkDir DLeft; TkChar "+"; TkSect;
   TkId "e" []; TkPunct PColon; TkId "e" []; TkChar "+"; TkId "e" []; TkAct ["x"; "}"]; TkPunct PBar; TkId "N" ["U"; "M"]; TkPunct PSemi].
Definition sp1 : list sepr := [SWs " "].
Definition sp2 : list sepr := [SWs nl; SBlock ["*"; " "; "c"; " "; "*"]; SLine ["x"]; SWs " "].
Definition ex_doc1 : doc := map (fun t => (sp1, t)) ex_tokens.
Definition ex_doc2 : doc := map (fun t => (sp2, t)) ex_tokens.

Example ex_matches : Forall2 ltm ex_tokens (spec_kv ex_spec).
Proof. unfold ex_tokens, ex_spec, spec_kv; cbn. repeat (constructor; [split; reflexivity|]). constructor. Qed.

Example ex_wf1 : wf_doc ex_doc1 [].
Proof. unfold ex_doc1, ex_tokens, sp1; cbn. repeat split; reflexivity. Qed.
Example ex_wf2 : wf_doc ex_doc2 [].
Proof. unfold ex_doc2, ex_tokens, sp2; cbn. repeat split; reflexivity. Qed.

Example ex_parsed :
  parse_text (render ex_doc1 []) = PAst (spec_ast ex_spec []) /\
  parse_text (render ex_doc2 []) = parse_text (render ex_doc1 []) /\
  spec_ast ex_spec [] =
    mkAst (mkDecl ["p"] [[mkIdent ["N"; "U"; "M"] TermId 300 [] []]; [mkIdent (gen_temp_name ["+"]) TermId 43 [] []]]
                  [[mkPrecdef ALeft (gen_temp_name ["+"])]] [] [" "; "v"; " "] start_default)
          [mkRuledef 0 ["e"] [RSym ["e"]; RSym (gen_temp_name ["+"]); RSym ["e"]; RAct ["{"; "x"; "}"]] [];
           mkRuledef 0 ["e"] [RSym ["N"; "U"; "M"]] []] [].
Proof.
  split; [|split].
  - apply parse_render; [exact ex_wf1 | unfold ex_doc1; rewrite map_map; cbn [snd]; rewrite map_id; exact ex_matches | reflexivity].
  - symmetry. apply (layout_irrelevant ex_doc1 [] ex_doc2 [] ex_spec ex_wf1 ex_wf2).
    + unfold ex_doc1, ex_doc2. rewrite !map_map. reflexivity.
    + unfold ex_doc1; rewrite map_map; cbn [snd]; rewrite map_id; exact ex_matches.
    + reflexivity.
  - vm_compute. reflexivity.
Qed.
