(* Originally a design-phase spike: the generated Go driver (stack array + stack pointer,
   push = overwrite-or-append, reduce through the Dollar slice) simulates the abstract
   list-stack machine with values; re-initialisation does not depend on the old contents. *)
From Coq Require Import List Arith ZArith Lia Bool.
Import ListNotations.
From YG Require Import LRBase.

Record entry := { e_st : nat; e_sym : nat; e_val : Z }.
Definition semact := nat -> list Z -> Z.           (* rule -> values of $1..$k -> value of $$ *)
Definition tok := (nat * Z)%type.                   (* translated symbol, value set by GetToken *)
Inductive result := RAcc (v : Z) (reds : list nat) | RRej (pos : nat) (reds : list nat) | RCrash | RNil | RFuel.

Section Drivers.
Variables (tab : table) (g : grammar) (act : semact).

Definition la (inp : list tok) : nat := match inp with (a, _) :: _ => a | [] => eof end.
Definition laval (inp : list tok) : Z := match inp with (_, v) :: _ => v | [] => 0%Z end.

(* ---- abstract machine: the stack is a list, top first ---- *)
Fixpoint arun (fuel : nat) (stk : list entry) (inp : list tok) (pos : nat) (reds : list nat) : result :=
  match fuel with
  | 0 => RFuel
  | S f =>
    match stk with
    | [] => RNil
    | top :: _ =>
      match tab (e_st top) (la inp) with
      | Error => RRej pos (rev reds)
      | Accept => RAcc (e_val top) (rev reds)
      | Shift q' => arun f ({| e_st := q'; e_sym := la inp; e_val := laval inp |} :: stk) (tl inp) (S pos) reds
      | Reduce r =>
        match nth_error g r with
        | None => RCrash
        | Some R =>
          let k := length (rhs R) in
          let v := act r (rev (map e_val (firstn k stk))) in
          match skipn k stk with
          | [] => RCrash
          | (below :: _) as stk' =>
            match tab (e_st below) (lhs R) with
            | Shift q' => arun f ({| e_st := q'; e_sym := lhs R; e_val := v |} :: stk') inp pos (r :: reds)
            | _ => RCrash
            end
          end
        end
      end
    end
  end.

(* ---- the Go driver: StateSymStack + StackPointer ---- *)
Record pst := { stk : list entry; sp : nat }.
Fixpoint upd (l : list entry) (i : nat) (e : entry) : list entry :=
  match l, i with [], _ => [] | _ :: t, 0 => e :: t | x :: t, S i' => x :: upd t i' e end.
Definition push (s : pst) (e : entry) : pst :=
  if Nat.leb (length (stk s)) (sp s) then {| stk := stk s ++ [e]; sp := S (sp s) |}
  else {| stk := upd (stk s) (sp s) e; sp := S (sp s) |}.

Fixpoint crun (fuel : nat) (s : pst) (inp : list tok) (pos : nat) (reds : list nat) : result :=
  match fuel with
  | 0 => RFuel
  | S f =>
    if Nat.eqb (sp s) 0 then RNil else if Nat.ltb (length (stk s)) (sp s) then RNil else
    match nth_error (stk s) (sp s - 1) with
    | None => RCrash
    | Some top =>
      match tab (e_st top) (la inp) with
      | Error => RRej pos (rev reds)
      | Accept => RAcc (e_val top) (rev reds)
      | Shift q' => crun f (push s {| e_st := q'; e_sym := la inp; e_val := laval inp |}) (tl inp) (S pos) reds
      | Reduce r =>
        match nth_error g r with
        | None => RCrash
        | Some R =>
          let k := length (rhs R) in
          (* Dollar := stack[topIndex-k : sp] ; topIndex = sp-1 ; a negative bound panics *)
          if Nat.ltb (sp s - 1) k then RCrash else
          let dollar := firstn (S k) (skipn (sp s - 1 - k) (stk s)) in
          let v := act r (map e_val (tl dollar)) in
          let s1 := {| stk := stk s; sp := sp s - k |} in       (* PopStateSym(k) *)
          match nth_error (stk s1) (sp s1 - 1) with
          | None => RCrash
          | Some below =>
            match tab (e_st below) (lhs R) with
            | Shift q' => crun f (push s1 {| e_st := q'; e_sym := lhs R; e_val := v |}) inp pos (r :: reds)
            | _ => RCrash
            end
          end
        end
      end
    end
  end.

(* abstraction: the live part of the array, top first *)
Definition abs (s : pst) : list entry := rev (firstn (sp s) (stk s)).
Definition ok (s : pst) : Prop := 1 <= sp s <= length (stk s).

Lemma upd_length l i e : length (upd l i e) = length l.
Proof. revert i; induction l; intros [|i]; simpl; auto. Qed.
Lemma firstn_upd l i e : i < length l -> firstn (S i) (upd l i e) = firstn i l ++ [e].
Proof. revert i; induction l as [|x l IH]; intros [|i] H; simpl in *; try lia; auto. f_equal. apply IH. lia. Qed.

Lemma abs_push s e : sp s <= length (stk s) -> abs (push s e) = e :: abs s /\ ok (push s e).
Proof.
  intros H. unfold push, abs, ok.
  destruct (Nat.leb_spec (length (stk s)) (sp s)) as [Hl|Hl]; cbn [stk sp].
  - assert (Hsp : sp s = length (stk s)) by lia.
    rewrite (firstn_all2 (stk s ++ [e])) by (rewrite app_length; simpl; lia).
    rewrite (firstn_all2 (stk s)) by lia.
    rewrite rev_app_distr. simpl. split; auto. rewrite app_length. simpl. lia.
  - rewrite firstn_upd by lia. rewrite rev_app_distr. simpl. split; auto. rewrite upd_length. lia.
Qed.

Lemma firstn_S_opt {A} (l : list A) : forall n, firstn (S n) l = firstn n l ++ match nth_error l n with Some x => [x] | None => [] end.
Proof.
  induction l as [|x l IH]; intros [|n]; try reflexivity.
  change (firstn (S (S n)) (x :: l)) with (x :: firstn (S n) l). rewrite IH. reflexivity.
Qed.

Lemma abs_top s : ok s -> nth_error (stk s) (sp s - 1) = hd_error (abs s).
Proof.
  intros [H1 H2]. unfold abs.
  assert (Hsplit : firstn (sp s) (stk s) = firstn (sp s - 1) (stk s) ++ match nth_error (stk s) (sp s - 1) with Some x => [x] | None => [] end).
  { replace (sp s) with (S (sp s - 1)) at 1 by lia. apply firstn_S_opt. }
  rewrite Hsplit. destruct (nth_error (stk s) (sp s - 1)) as [x|] eqn:E.
  - rewrite rev_app_distr. reflexivity.
  - apply nth_error_None in E. lia.
Qed.

Lemma abs_pop s k : ok s -> k < sp s -> abs {| stk := stk s; sp := sp s - k |} = skipn k (abs s) /\ ok {| stk := stk s; sp := sp s - k |}.
Proof.
  intros [H1 H2] Hk. unfold abs, ok. cbn [stk sp]. split; [|lia].
  set (L := firstn (sp s) (stk s)).
  assert (HL : length L = sp s) by (unfold L; rewrite firstn_length; lia).
  assert (Hf : firstn (sp s - k) (stk s) = firstn (sp s - k) L).
  { unfold L. rewrite firstn_firstn. f_equal. lia. }
  rewrite Hf. rewrite <- (firstn_skipn (sp s - k) L) at 2. rewrite rev_app_distr.
  assert (Hlen : length (rev (skipn (sp s - k) L)) = k) by (rewrite rev_length, skipn_length; lia).
  rewrite skipn_app. rewrite Hlen, Nat.sub_diag. cbn [skipn].
  rewrite (skipn_all2 (rev (skipn (sp s - k) L))) by lia. reflexivity.
Qed.

Lemma abs_dollar s k : ok s -> k < sp s ->
  tl (firstn (S k) (skipn (sp s - 1 - k) (stk s))) = rev (firstn k (abs s)).
Proof.
  intros [H1 H2] Hk. unfold abs.
  set (n := sp s). set (l := stk s). fold n in H1, H2, Hk. fold l in H2.
  assert (Hl : l = firstn (n - 1 - k) l ++ skipn (n - 1 - k) l) by (symmetry; apply firstn_skipn).
  destruct (skipn (n - 1 - k) l) as [|b rest] eqn:E.
  { apply (f_equal (@length _)) in E. rewrite skipn_length in E. simpl in E. lia. }
  cbn [firstn tl].
  (* firstn n l = firstn (n-1-k) l ++ b :: firstn k rest *)
  assert (Hf : firstn n l = firstn (n - 1 - k) l ++ b :: firstn k rest).
  { rewrite Hl at 1. rewrite firstn_app. rewrite firstn_length. replace (Nat.min (n - 1 - k) (length l)) with (n - 1 - k) by lia.
    rewrite firstn_firstn. replace (Nat.min n (n - 1 - k)) with (n - 1 - k) by lia.
    replace (n - (n - 1 - k)) with (S k) by lia. reflexivity. }
  rewrite Hf. rewrite rev_app_distr. simpl. rewrite <- app_assoc.
  assert (Hk' : length (rev (firstn k rest)) = k).
  { rewrite rev_length, firstn_length. apply (f_equal (@length _)) in E. rewrite skipn_length in E. simpl in E. lia. }
  rewrite firstn_app. rewrite Hk', Nat.sub_diag. cbn [firstn]. rewrite app_nil_r.
  rewrite (firstn_all2 (rev (firstn k rest))) by lia. rewrite rev_involutive. reflexivity.
Qed.

Theorem simulation fuel : forall s inp pos reds, ok s -> crun fuel s inp pos reds = arun fuel (abs s) inp pos reds.
Proof.
  induction fuel as [|f IH]; intros s inp pos reds Hok; [reflexivity|].
  pose proof Hok as [H1 H2]. cbn [crun arun].
  destruct (Nat.eqb_spec (sp s) 0); [lia|]. destruct (Nat.ltb_spec (length (stk s)) (sp s)); [lia|].
  rewrite (abs_top s Hok). destruct (abs s) as [|top rest] eqn:Eabs.
  { exfalso. unfold abs in Eabs. apply (f_equal (@length _)) in Eabs. rewrite rev_length, firstn_length in Eabs. simpl in Eabs. lia. }
  cbn [hd_error]. destruct (tab (e_st top) (la inp)) as [q'|r| |]; auto.
  - destruct (abs_push s {| e_st := q'; e_sym := la inp; e_val := laval inp |} H2) as [Ha Ho].
    rewrite IH by auto. rewrite Ha, Eabs. reflexivity.
  - destruct (nth_error g r) as [R|]; auto. set (k := length (rhs R)).
    assert (Hlen : length (abs s) = sp s) by (unfold abs; rewrite rev_length, firstn_length; lia).
    destruct (Nat.ltb_spec (sp s - 1) k) as [Hk|Hk].
    + (* the Go slice bound is negative: the abstract stack is exhausted *)
      rewrite <- Eabs. rewrite skipn_all2 by lia. reflexivity.
    + assert (Hk' : k < sp s) by lia.
      destruct (abs_pop s k Hok Hk') as [Hp Hop]. pose proof (abs_dollar s k Hok Hk') as Hd.
      pose proof (abs_top _ Hop) as Ht. rewrite Hp in Ht.
      rewrite Hd, Ht. rewrite <- Eabs.
      destruct (skipn k (abs s)) as [|below stk'] eqn:Esk.
      { apply (f_equal (@length _)) in Esk. rewrite skipn_length in Esk. simpl in Esk. lia. }
      cbn [hd_error]. rewrite map_rev.
      destruct (tab (e_st below) (lhs R)) as [q'| | |]; auto.
      destruct (abs_push {| stk := stk s; sp := sp s - k |} {| e_st := q'; e_sym := lhs R; e_val := act r (rev (map e_val (firstn k (abs s)))) |}) as [Ha Ho]; [simpl; lia|].
      rewrite IH by auto. rewrite Ha, Hp. reflexivity.
Qed.

(* ---- C15: re-initialisation ---- *)
Definition init_entry : entry := {| e_st := 0; e_sym := eof; e_val := 0%Z |}.
Definition init_global (_ : pst) : pst := {| stk := [init_entry]; sp := 1 |}.                 (* goCode.templ ParserInit *)
Definition init_object (s : pst) : pst := {| stk := stk s ++ [init_entry]; sp := 1 |}.         (* goObject.templ ParserInit *)

Theorem reinit_global s fuel inp : crun fuel (init_global s) inp 0 [] = arun fuel [init_entry] inp 0 [].
Proof. rewrite simulation; [reflexivity|unfold ok; simpl; lia]. Qed.

(* object mode keeps the old array: it works because cell 0 always holds the initial entry *)
Theorem reinit_object s fuel inp : hd_error (stk s) = Some init_entry \/ stk s = [] ->
  crun fuel (init_object s) inp 0 [] = arun fuel [init_entry] inp 0 [].
Proof.
  intros H. rewrite simulation.
  - unfold abs, init_object. simpl. destruct H as [H| ->]; [|reflexivity].
    destruct (stk s) as [|x l]; [discriminate|]. simpl in *. inversion H. reflexivity.
  - unfold ok, init_object. simpl. rewrite app_length. simpl. lia.
Qed.

End Drivers.

Print Assumptions simulation.
Print Assumptions reinit_object.
