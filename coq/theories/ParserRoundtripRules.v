(* C10: the rules of spec_ast in closed form - every alternative of every group is one rule, in order, with exactly its
   symbols and action bodies in order and its last %prec symbol - and the same through the visitor. *)
From Coq Require Import List Arith ZArith Bool Ascii Lia.
Import ListNotations.
From YG Require Import Lexer Front FrontUsable YParser LexerRoundtrip ParserRoundtrip ParserRoundtripLex.

Definition elem_rhs (e : selem) : list relem :=
  match e with ESym s => [RSym (psym_name s)] | EAct v => [RAct v] | EPrec _ => [] end.
Definition alt_rhs (al : alt) : list relem := flat_map elem_rhs al.
Definition alt_prec (al : alt) (p0 : name) : name :=
  fold_left (fun p e => match e with EPrec s => psym_name s | _ => p end) al p0.
Definition group_rules (g : sgroup) : list ruledef :=
  map (fun al => mkRuledef 0 (g_lhs g) (alt_rhs al) (alt_prec al [])) (g_first g :: g_more g).

Lemma elems_fold : forall (al : alt) acc d,
  let r := fst (fold_left elem_apply al (acc, d)) in
  ra_done r = ra_done acc /\ ra_rhs r = ra_rhs acc ++ alt_rhs al /\ ra_prec r = alt_prec al (ra_prec acc).
Proof.
  induction al as [|e al IH]; intros acc d; cbn [fold_left alt_rhs flat_map alt_prec].
  - cbn [fst]. rewrite app_nil_r. auto.
  - destruct e as [[n|v]|v|sy]; cbn [elem_apply].
    + destruct (IH (mkRA (ra_done acc) (ra_rhs acc ++ [RSym n]) (ra_prec acc) (ra_toks acc)) d) as (A & B & C).
      cbv zeta in *. rewrite A, B, C. cbn [ra_done ra_rhs ra_prec elem_rhs psym_name app]. rewrite <- app_assoc. auto.
    + destruct (existsb (name_eqb (gen_temp_name v)) d).
      * destruct (IH (mkRA (ra_done acc) (ra_rhs acc ++ [RSym (gen_temp_name v)]) (ra_prec acc) (ra_toks acc)) d) as (A & B & C).
        cbv zeta in *. rewrite A, B, C. cbn [ra_done ra_rhs ra_prec elem_rhs psym_name app]. rewrite <- app_assoc. auto.
      * destruct (IH (mkRA (ra_done acc) (ra_rhs acc ++ [RSym (gen_temp_name v)]) (ra_prec acc)
                           (ra_toks acc ++ [mkIdent (gen_temp_name v) TermId (first_byte v) [] []])) (gen_temp_name v :: d)) as (A & B & C).
        cbv zeta in *. rewrite A, B, C. cbn [ra_done ra_rhs ra_prec elem_rhs psym_name app]. rewrite <- app_assoc. auto.
    + destruct (IH (mkRA (ra_done acc) (ra_rhs acc ++ [RAct v]) (ra_prec acc) (ra_toks acc)) d) as (A & B & C).
      cbv zeta in *. rewrite A, B, C. cbn [ra_done ra_rhs ra_prec elem_rhs app]. rewrite <- app_assoc. auto.
    + destruct (IH (mkRA (ra_done acc) (ra_rhs acc) (psym_name sy) (ra_toks acc)) d) as (A & B & C).
      cbv zeta in *. rewrite A, B, C. cbn [ra_done ra_rhs ra_prec elem_rhs app]. auto.
Qed.

Definition alt_rule (lhs : name) (al : alt) : ruledef := mkRuledef 0 lhs (alt_rhs al) (alt_prec al []).

Lemma more_done lhs : forall more x,
  ra_done (fst (close_alt lhs (more_apply lhs more x))) =
    ra_done (fst x) ++ mkRuledef 0 lhs (ra_rhs (fst x)) (ra_prec (fst x)) :: map (alt_rule lhs) more.
Proof.
  induction more as [|b more IH]; intros x.
  - reflexivity.
  - unfold more_apply. cbn [fold_left]. fold (more_apply lhs more (fold_left elem_apply b (close_alt lhs x))).
    rewrite IH. unfold close_alt at 1 2 3.
    destruct (elems_fold b (mkRA (ra_done (fst x) ++ [mkRuledef 0 lhs (ra_rhs (fst x)) (ra_prec (fst x))]) [] [] (ra_toks (fst x))) (snd x)) as (A & B & C).
    cbv zeta in A, B, C. rewrite A, B, C. cbn [ra_done ra_rhs ra_prec map app]. rewrite <- app_assoc. reflexivity.
Qed.

Lemma group_done g d : ra_done (fst (group_apply g d)) = group_rules g.
Proof.
  unfold group_apply. rewrite more_done.
  destruct (elems_fold (g_first g) (mkRA [] [] [] []) d) as (A & B & C). cbv zeta in A, B, C. rewrite A, B, C.
  reflexivity.
Qed.

Lemma groups_done : forall gs d rs toks, fst (fst (groups_apply gs d rs toks)) = rs ++ flat_map group_rules gs.
Proof.
  induction gs as [|g gs IH]; intros d rs toks; cbn [groups_apply flat_map].
  - rewrite app_nil_r. reflexivity.
  - rewrite IH, group_done, <- app_assoc. reflexivity.
Qed.

(* every alternative of every group is one rule, in order, with exactly its symbols and action bodies in order and its
   (last) %prec symbol *)
Theorem spec_ast_rules sp rest : a_rules (spec_ast sp rest) = flat_map group_rules (s_groups sp).
Proof. unfold spec_ast. cbn [a_rules]. apply groups_done. Qed.

(* text -> lexer -> parser -> visitor: the rules the front end hands on are the alternatives written in the text *)
Theorem text_rules d trail sp v :
  wf_doc d trail -> Forall2 ltm (map snd d) (spec_kv sp) -> spec_ok sp = true ->
  (match parse_text (render d trail) with PAst a => visit a | _ => inl FNoStart end) = inr v ->
  map (fun x => (v_lhs x, v_rhs x)) (vs_rules v) =
  map (fun r => (r_lhs r, rsyms (r_rhs r))) (flat_map group_rules (s_groups sp)).
Proof.
  intros Hwf Hm Hok Hv. rewrite (parse_render d trail sp Hwf Hm Hok) in Hv.
  pose proof (visit_cases (spec_ast sp [])) as C. rewrite Hv in C. destruct C as [_ C].
  rewrite C, spec_ast_rules. reflexivity.
Qed.
