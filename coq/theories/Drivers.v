(* Model: the generated parsers.  The LR loop of goCode.templ / goObject.templ / TsGenCode.go is
   DriverSim.crun (stack array + stack pointer); this file instantiates it for the five output
   variants, adds re-initialisation and parse histories on one parser (C15) and a linear family of
   semantic actions used by the correspondence harness.  Definitions only. *)
From Coq Require Import List Arith ZArith Bool.
Import ListNotations.
From YG Require Import LRBase DriverSim Pipeline.

Inductive variant := GoPacked | GoDense | ObjPacked | ObjDense | TsDense.

Definition is_object (v : variant) : bool := match v with ObjPacked | ObjDense => true | _ => false end.
Definition is_packed (v : variant) : bool := match v with GoPacked | ObjPacked => true | _ => false end.

(* the table the variant consults: -u, or a table that was not worth packing, reads the dense matrix *)
Definition table_of (v : variant) (t : tables) : table :=
  let n := length (t_aut t) in
  if is_packed v && t_need_packed t then packed_action n (t_packed t) else dense_action n (t_dense t).

(* ParserInit (global), Context.ParserInit (object), initialize (TypeScript) *)
Definition init_of (v : variant) (s : pst) : pst := if is_object v then init_object s else init_global s.
(* the state of a parser before the first call: init() has run ParserInit / MakeParserContext / initialize *)
Definition fresh (v : variant) : pst := init_of v {| stk := []; sp := 0 |}.

(* final parser state of a run (same recursion as crun, returning the state instead of the verdict);
   a run that ends in a Go panic leaves the state as it was at that moment *)
Section Final.
Variables (tab : table) (g : grammar) (act : semact).
Fixpoint cfinal (fuel : nat) (s : pst) (inp : list tok) : pst :=
  match fuel with
  | 0 => s
  | S f =>
    if Nat.eqb (sp s) 0 then s else if Nat.ltb (length (stk s)) (sp s) then s else
    match nth_error (stk s) (sp s - 1) with
    | None => s
    | Some top =>
      match tab (e_st top) (la inp) with
      | Error => s
      | Accept => s
      | Shift q' => cfinal f (push s {| e_st := q'; e_sym := la inp; e_val := laval inp |}) (tl inp)
      | Reduce r =>
        match nth_error g r with
        | None => s
        | Some R =>
          let k := length (rhs R) in
          if Nat.ltb (sp s - 1) k then s else
          let dollar := firstn (S k) (skipn (sp s - 1 - k) (stk s)) in
          let v := act r (map e_val (tl dollar)) in
          let s1 := {| stk := stk s; sp := sp s - k |} in
          match nth_error (stk s1) (sp s1 - 1) with
          | None => s1
          | Some below =>
            match tab (e_st below) (lhs R) with
            | Shift q' => cfinal f (push s1 {| e_st := q'; e_sym := lhs R; e_val := v |}) inp
            | _ => s1
            end
          end
        end
      end
    end
  end.
End Final.

Section ParseTab.
(* the same with the table given as a function (the extracted oracle memoises it) *)
Variables (tab : table) (obj : bool) (g : grammar) (act : semact) (fuel : nat).
Definition init_b (s : pst) : pst := if obj then init_object s else init_global s.
Definition parse_from_tab (s : pst) (inp : list tok) : result := crun tab g act fuel (init_b s) inp 0 [].
Definition state_after_tab (s : pst) (inp : list tok) : pst := cfinal tab g act fuel (init_b s) inp.
Fixpoint history_tab (s : pst) (inps : list (list tok)) : list result :=
  match inps with
  | [] => []
  | inp :: rest => parse_from_tab s inp :: history_tab (state_after_tab s inp) rest
  end.
End ParseTab.

Section Parse.
Variables (v : variant) (t : tables) (g : grammar) (act : semact) (fuel : nat).

(* one call:  ParserInit(); Parser(input)  on a parser in state s *)
Definition parse_from (s : pst) (inp : list tok) : result :=
  parse_from_tab (table_of v t) (is_object v) g act fuel s inp.
Definition state_after (s : pst) (inp : list tok) : pst :=
  state_after_tab (table_of v t) (is_object v) g act fuel s inp.
Definition parse (inp : list tok) : result := parse_from {| stk := []; sp := 0 |} inp.

(* a history: the same parser object is re-initialised and used for each input in turn *)
Definition history (s : pst) (inps : list (list tok)) : list result :=
  history_tab (table_of v t) (is_object v) g act fuel s inps.
End Parse.

(* semantic actions of the correspondence harness:  $$ = (c + sum coef_i * $i) mod M *)
Definition modulus : Z := 1000003%Z.
Fixpoint dot (coefs vals : list Z) : Z :=
  match coefs, vals with
  | c :: cs, x :: xs => (c * x + dot cs xs)%Z
  | _, _ => 0%Z
  end.
Definition linear_act (spec : list (Z * list Z)) : semact :=
  fun r vals => match nth_error spec r with
                | Some (c, coefs) => ((c + dot coefs vals) mod modulus)%Z
                | None => 0%Z
                end.
