(* Originally a design-phase spike: assembly for C02 on the model. If the table generated from the
   constructed automaton and the executable lookahead lists has at most one candidate action per cell
   (i.e. the grammar is LALR(1), by C03_model), the abstract driver accepts every sentence. *)
From Coq Require Import List Arith ZArith Lia Bool Relations.
Import ListNotations.
From YG Require Import LRBase CompleteDriver LR0Build LR0Complete LASuperset LASubset LASupersetWrap Resolve TableCert LAExec LR0More C03Assembly CompleteDriverP.
Close Scope Z_scope.

Section Assemble2.
Variables (g : grammar) (aut : automaton) (S0 : nat).
Hypothesis no_start_in_rhs : forall r d, nth_error (rhs_of g r) d <> Some 0.
Hypothesis rule0_lhs : lhs_of g 0 = 0.
Hypothesis no_eof_in_rhs : forall r d, nth_error (rhs_of g r) d <> Some eof.
Hypothesis rule0_rhs : rhs_of g 0 = [S0].
Hypothesis eof_terminal : ~ is_nt g eof.
Hypothesis productive_all : forall seq l, ~ is_nt g l -> exists b, first_seq g (seq ++ [l]) b.
Hypothesis Hb : build g = Some aut.
Variable nullable_b : nat -> bool.
Hypothesis nullable_b_spec : forall X, nullable_b X = true <-> nullable g X.
Variable is_nt_b : nat -> bool.
Hypothesis is_nt_b_spec : forall X, is_nt_b X = true <-> is_nt g X.
Variables (sprec rprec : nat -> Z * assoc).

Definition la : nat -> nat -> list nat := LAl g aut S0 nullable_b is_nt_b.
Definition tab : table := gen_table g aut la sprec rprec.
Definition cands := candidates g aut la sprec rprec.

(* the grammar is LALR(1) for this table: no cell has two candidate actions *)
Hypothesis conflict_free : forall q a, length (cands q a) <= 1.

Definition ann (q : nat) (it : item) (t : nat) : Prop := LAm g aut S0 q it t.

Lemma Hclos q it B r' R' : In it (items (st aut q)) -> next_sym g it = Some B ->
  nth_error g r' = Some R' -> lhs R' = B -> In (r', 0) (items (st aut q)).
Proof. eapply H_clos; eauto. Qed.
Lemma Hgoto q it X : In it (items (st aut q)) -> next_sym g it = Some X ->
  exists q', goto aut q X = Some q' /\ In (fst it, S (snd it)) (items (st aut q')).
Proof. eapply H_goto; eauto. Qed.
Lemma Hbk : back_ok g aut.
Proof. eapply Hback; eauto. Qed.
Definition Hstruct := build_structural g no_start_in_rhs rule0_lhs no_eof_in_rhs aut Hb.

Lemma single_in {A} (l : list A) x : length l <= 1 -> In x l -> l = [x].
Proof.
  destruct l as [|y [|z l]]; simpl; intros Hl Hin.
  - destruct Hin.
  - destruct Hin as [->|[]]; auto.
  - lia.
Qed.

Lemma nmem_In x l : TableCert.nmem x l = true <-> In x l.
Proof. induction l; simpl; [split; [discriminate|tauto]|]. rewrite orb_true_iff, Nat.eqb_eq, IHl. intuition. Qed.

Lemma cell_shift q a q' : goto aut q a = Some q' -> tab q a = Shift q'.
Proof.
  intros Hg. unfold tab, gen_table. fold cands.
  assert (Hin : In (sh q' (fst (sprec a)) (snd (sprec a))) (cands q a)).
  { unfold cands, candidates. rewrite Hg. apply in_or_app. left. left. auto. }
  rewrite (single_in _ _ (conflict_free q a) Hin). reflexivity.
Qed.

Lemma cell_reduce q r l : In (r, length (rhs_of g r)) (items (st aut q)) -> In l (la' la q r) ->
  tab q l = TableCert.decode (KReduce r).
Proof.
  intros Hit Hl. unfold tab, gen_table. fold cands.
  assert (Hin : In (rd r (fst (rprec r)) (snd (rprec r))) (cands q l)).
  { unfold cands, candidates. apply in_or_app. right. apply in_map_iff. exists r. split; auto.
    apply filter_In. split; [|apply nmem_In; auto].
    unfold complete_rules. apply in_map_iff. exists (r, length (rhs_of g r)). split; auto.
    apply filter_In. split; auto. simpl. apply Nat.eqb_refl. }
  rewrite (single_in _ _ (conflict_free q l) Hin). reflexivity.
Qed.

Lemma Follow_terminal x t : Follow g aut S0 x t -> ~ is_nt g t.
Proof. intros (y & _ & (z & _ & [(r & r2 & _ & Hn & _)|[_ ->]])); auto. Qed.
Lemma ann_terminal q it t : ann q it t -> ~ is_nt g t.
Proof. intros (p & _ & [(_ & _ & ->)|(_ & Hf)]); auto. eapply Follow_terminal; eauto. Qed.

Theorem table_ccert : ccertP g aut tab ann.
Proof.
  destruct Hstruct as (Hgt & Hinit & Hstart & Hnoeof).
  constructor.
  - intros q r d a Hin Hn _. destruct (Hgoto q (r, d) a Hin Hn) as (q' & Hg & _). exists q'. split; auto. apply cell_shift; auto.
  - intros q r d B Hin Hn _. destruct (Hgoto q (r, d) B Hin Hn) as (q' & Hg & _). exists q'. split; auto. apply cell_shift; auto.
  - intros q r d X q' Hin Hn Hg. destruct (Hgoto q (r, d) X Hin Hn) as (q1 & Hg1 & Hin1). rewrite Hg in Hg1. inversion Hg1; subst q1.
    split; auto. intros l Hl. eapply la_prop; eauto.
  - intros q r d B r' R' Hin Hn HR' HB. split; [eapply Hclos; eauto|].
    intros l b Hl Hfs.
    assert (Hns : forall r0 d0, nth_error (rhs_of g r0) d0 <> Some (lhs_of g 0)) by (intros r0 d0; rewrite rule0_lhs; apply no_start_in_rhs).
    apply (la_clos g aut Hclos Hgoto Hns S0 rule0_rhs q r d B r' R' l b Hbk Hin Hn HR' HB Hl (ann_terminal _ _ _ Hl) Hfs).
  - intros q r l Hit Hr0 Hrlt Hl.
    assert (Hl' : In l (la' la q r)).
    { unfold la'. destruct (Nat.eqb_spec r 0); [contradiction|]. unfold la.
      apply (LAl_spec g aut S0 nullable_b nullable_b_spec is_nt_b is_nt_b_spec q r l Hr0 Hbk Hit). exact Hl. }
    rewrite (cell_reduce q r l Hit Hl'). destruct r; [contradiction|reflexivity].
  - split.
    + rewrite (items0 g aut) by auto. apply closure_ext. left; auto.
    + exists 0. simpl. split; auto.
  - intros q Hit.
    assert (Hit' : In (0, length (rhs_of g 0)) (items (st aut q))) by (rewrite rule0_rhs; exact Hit).
    assert (Hl : In eof (la' la q 0)) by (unfold la'; simpl; auto).
    rewrite (cell_reduce q 0 eof Hit' Hl). reflexivity.
  - exact eof_terminal.
  - exists S0. exact rule0_rhs.
Qed.

(* C02 on the model: every sentence is accepted, with exactly the reductions of its parse tree *)
Theorem C02_model t : tvalid g t -> Some (root g t) = hd_error (rhs_of g 0) ->
  exists fuel, run fuel tab g [(0, eof)] (yield t) [] = Acc (post t).
Proof. apply (completeP g aut tab ann table_ccert). Qed.

End Assemble2.
Print Assumptions C02_model.
