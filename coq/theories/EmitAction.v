(* Model and proofs: Builder/GoTemplBuilder.go actionCodeReplace (and its twin in TsGenCode.go) - how the text of a
   semantic action becomes target code: every "$$" becomes the left-hand side's value field, then every "$" followed by
   a maximal run of digits becomes the value field of that right-hand-side symbol; generation stops with a diagnostic
   when "$$" is used and the left-hand side has no tag, when n is not in 1..length of the rule, or when symbol n has
   no tag.  Byte strings are list ascii; Go's strings.ReplaceAll and regexp `\$[0-9]+` (leftmost, longest) are
   re-expressed as the two scanners below.  Definitions first, proofs after. *)
From Coq Require Import List Arith ZArith Bool Ascii NArith.
Import ListNotations.
Open Scope char_scope.

Definition is_dollar (c : ascii) : bool := Ascii.eqb c "$".
Definition is_dig (c : ascii) : bool := N.leb 48 (N_of_ascii c) && N.leb (N_of_ascii c) 57.

(* strings.Contains(s, "$$") *)
Fixpoint has_self (s : list ascii) : bool :=
  match s with
  | c :: t => (is_dollar c && match t with d :: _ => is_dollar d | [] => false end) || has_self t
  | [] => false
  end.

(* strings.ReplaceAll(s, "$$", r): left to right, non-overlapping *)
Fixpoint repl_self (r : list ascii) (s : list ascii) : list ascii :=
  match s with
  | c :: t =>
    match t with
    | d :: s' => if is_dollar c && is_dollar d then r ++ repl_self r s' else c :: repl_self r t
    | [] => [c]
    end
  | [] => []
  end.

(* value of a digit string (strconv.Atoi; a value beyond the range of an int makes Atoi fail, the code then uses 0 -
   out of range either way) *)
Fixpoint dig_val (acc : N) (ds : list ascii) : N :=
  match ds with [] => acc | c :: ds' => dig_val (acc * 10 + (N_of_ascii c - 48)) ds' end.

Section Args.
(* what "$" ++ ds is replaced by; None = generation stops with a diagnostic *)
Variable f : list ascii -> option (list ascii).

Definition flush (pending : option (list ascii)) : option (list ascii) :=
  match pending with
  | None => Some []
  | Some [] => Some ["$"]
  | Some ds => f (rev ds)
  end.

(* regexp.MustCompile(`\$[0-9]+`).ReplaceAllStringFunc: pending = the digits (reversed) collected since the last "$" *)
Fixpoint repl_args (s : list ascii) (pending : option (list ascii)) : option (list ascii) :=
  match s with
  | [] => flush pending
  | c :: s' =>
    match pending with
    | Some ds =>
      if is_dig c then repl_args s' (Some (c :: ds))
      else match flush pending with
           | None => None
           | Some out =>
             if is_dollar c then option_map (app out) (repl_args s' (Some []))
             else option_map (fun r => out ++ c :: r) (repl_args s' None)
           end
    | None =>
      if is_dollar c then repl_args s' (Some []) else option_map (cons c) (repl_args s' None)
    end
  end.
End Args.

Section Subst.
Variables (self_prefix arg_open arg_mid : list ascii).   (* Go: "dollarDolar." "Dollar[" "]." ; TypeScript: with "ValType." *)
Variables (ltag : list ascii) (rtags : list (list ascii)).  (* tag of the left-hand side, tags of the right-hand-side symbols *)

Definition arg_code (ds : list ascii) : option (list ascii) :=
  let n := N.to_nat (dig_val 0 ds) in
  match n with
  | 0 => None
  | S k => match nth_error rtags k with
           | Some ((_ :: _) as tag) => Some (arg_open ++ ds ++ arg_mid ++ tag)
           | _ => None
           end
  end.

Definition subst_action (s : list ascii) : option (list ascii) :=
  if has_self s && match ltag with [] => true | _ => false end then None
  else repl_args arg_code (repl_self (self_prefix ++ ltag) s) None.
End Subst.

(* ------------------------------------------------------------------ proofs *)
Lemma repl_self_no_dollar r s : forallb (fun c => negb (is_dollar c)) s = true -> repl_self r s = s.
Proof.
  induction s as [|c t IH]; intros H; [reflexivity|].
  cbn [forallb] in H. apply andb_true_iff in H. destruct H as [Hc Ht].
  cbn [repl_self]. destruct t as [|d s']; [reflexivity|].
  apply negb_true_iff in Hc. rewrite Hc. cbn [andb]. f_equal. apply IH, Ht.
Qed.

Lemma repl_args_no_dollar f s : forallb (fun c => negb (is_dollar c)) s = true -> repl_args f s None = Some s.
Proof.
  induction s as [|c t IH]; intros H; [reflexivity|].
  cbn [forallb] in H. apply andb_true_iff in H. destruct H as [Hc Ht]. apply negb_true_iff in Hc.
  cbn [repl_args]. rewrite Hc, (IH Ht). reflexivity.
Qed.

Lemma has_self_no_dollar s : forallb (fun c => negb (is_dollar c)) s = true -> has_self s = false.
Proof.
  induction s as [|c t IH]; intros H; [reflexivity|].
  cbn [forallb] in H. apply andb_true_iff in H. destruct H as [Hc Ht]. apply negb_true_iff in Hc.
  cbn [has_self]. rewrite Hc, (IH Ht). reflexivity.
Qed.

(* an action that does not mention "$" is pasted as it is *)
Theorem subst_plain sp ao am ltag rtags s :
  forallb (fun c => negb (is_dollar c)) s = true -> subst_action sp ao am ltag rtags s = Some s.
Proof.
  intros H. unfold subst_action. rewrite (has_self_no_dollar s H). cbn [andb].
  rewrite (repl_self_no_dollar _ s H). apply repl_args_no_dollar, H.
Qed.

(* "$n": the code reads cell n of the Dollar slice, field = the tag of the n-th right-hand-side symbol; exactly the
   well-typed in-range references are accepted *)
Theorem arg_code_spec ao am rtags ds out :
  arg_code ao am rtags ds = Some out <->
  exists k tag, N.to_nat (dig_val 0 ds) = S k /\ nth_error rtags k = Some tag /\ tag <> [] /\ out = ao ++ ds ++ am ++ tag.
Proof.
  unfold arg_code. destruct (N.to_nat (dig_val 0 ds)) as [|k].
  - split; [discriminate | intros (k & tag & E & _); discriminate].
  - destruct (nth_error rtags k) as [[|c tag]|] eqn:En.
    + split; [discriminate|]. intros (k' & tag' & E & Hn & Hne & _). inversion E; subst k'. rewrite En in Hn. inversion Hn; subst tag'. congruence.
    + split.
      * intros H. inversion H; subst out. exists k, (c :: tag). split; [reflexivity|]. split; [exact En|]. split; [discriminate | reflexivity].
      * intros (k' & tag' & E & Hn & _ & ->). inversion E; subst k'. rewrite En in Hn. inversion Hn; subst tag'. reflexivity.
    + split; [discriminate|]. intros (k' & tag' & E & Hn & _). inversion E; subst k'. rewrite En in Hn. discriminate.
Qed.

(* "$$" with an untyped left-hand side stops the generation *)
Theorem subst_self_untyped sp ao am rtags s : has_self s = true -> subst_action sp ao am [] rtags s = None.
Proof. intros H. unfold subst_action. rewrite H. reflexivity. Qed.

(* a single reference "$n" alone *)
Example subst_example :
  subst_action ["S"; "."] ["D"; "["] ["]"; "."] ["v"] [["a"]; []; ["c"]] ["$"; "$"; "="; "$"; "1"; "+"; "$"; "3"; ";"; "$"; "x"]
  = Some ["S"; "."; "v"; "="; "D"; "["; "1"; "]"; "."; "a"; "+"; "D"; "["; "3"; "]"; "."; "c"; ";"; "$"; "x"]
  /\ subst_action ["S"; "."] ["D"; "["] ["]"; "."] ["v"] [["a"]; []; ["c"]] ["$"; "2"] = None
  /\ subst_action ["S"; "."] ["D"; "["] ["]"; "."] ["v"] [["a"]; []; ["c"]] ["$"; "4"] = None
  /\ subst_action ["S"; "."] ["D"; "["] ["]"; "."] ["v"] [["a"]; []; ["c"]] ["$"; "0"] = None
  /\ subst_action ["S"; "."] ["D"; "["] ["]"; "."] ["v"] [["a"]; []; ["c"]] ["$"; "1"; "0"] = None.
Proof. repeat split; vm_compute; reflexivity. Qed.
