(* Originally a design-phase spike: C07 and the first half of C06 on the abstract machine with values:
   an accepted run returns the bottom-up evaluation of the semantic actions over the parse tree, and a
   run never ends in Crash or NilReturn when the table has the certificate (plus "goto after reduce"). *)
From Coq Require Import List Arith ZArith Lia Bool.
Import ListNotations.
From YG Require Import LRBase DriverSim.

(* parse trees whose leaves carry the token value *)
Inductive vtree := VLeaf (a : nat) (v : Z) | VNode (r : nat) (ch : list vtree).
Section Vals.
Variables (g : grammar) (act : semact).

Definition vroot (t : vtree) : nat := match t with VLeaf a _ => a | VNode r _ => lhs_of g r end.
Fixpoint vyield (t : vtree) : list tok := match t with VLeaf a v => [(a, v)] | VNode _ ch => flat_map vyield ch end.
Fixpoint vpost (t : vtree) : list nat := match t with VLeaf _ _ => [] | VNode r ch => flat_map vpost ch ++ [r] end.
Fixpoint veval (t : vtree) : Z := match t with VLeaf _ v => v | VNode r ch => act r (map veval ch) end.
Fixpoint vvalid (t : vtree) : Prop :=
  match t with
  | VLeaf _ _ => True
  | VNode r ch => r < length g /\ map vroot ch = rhs_of g r /\
                  (fix all (l : list vtree) : Prop := match l with [] => True | x :: l' => vvalid x /\ all l' end) ch
  end.
Fixpoint all_vvalid (l : list vtree) : Prop := match l with [] => True | x :: l' => vvalid x /\ all_vvalid l' end.
Lemma vvalid_node r ch : vvalid (VNode r ch) <-> r < length g /\ map vroot ch = rhs_of g r /\ all_vvalid ch.
Proof. simpl. split; intros (A & B & C); repeat split; auto; clear A B; induction ch; simpl in *; tauto. Qed.
Lemma all_vvalid_app l1 l2 : all_vvalid (l1 ++ l2) <-> all_vvalid l1 /\ all_vvalid l2.
Proof. induction l1; simpl; tauto. Qed.
Lemma all_vvalid_rev l : all_vvalid (rev l) <-> all_vvalid l.
Proof. induction l; simpl; [tauto|]. rewrite all_vvalid_app. simpl. tauto. Qed.
Lemma all_vvalid_firstn n l : all_vvalid l -> all_vvalid (firstn n l).
Proof. revert l; induction n; intros [|x l]; simpl; tauto || (intros [? ?]; split; auto). Qed.
Lemma all_vvalid_skipn n l : all_vvalid l -> all_vvalid (skipn n l).
Proof. revert l; induction n; intros [|x l]; simpl; auto. intros [? ?]; auto. Qed.

Variables (aut : automaton) (tab : table).
Hypothesis C : cert g aut tab.
(* after a reduction the exposed state has a goto on the left-hand side (holds for generated tables) *)
Hypothesis goto_after : forall q r, In (r, 0) (items (st aut q)) -> r <> 0 -> r < length g -> exists q', tab q (lhs_of g r) = Shift q'.

Definition pairs (stk : list entry) : list (nat * nat) := map (fun e => (e_st e, e_sym e)) stk.
Definition sv (e : entry) : nat * Z := (e_sym e, e_val e).
Definition tv (t : vtree) : nat * Z := (vroot t, veval t).
Definition vinv (inp0 : list tok) (stk : list entry) (inp : list tok) (reds : list nat) : Prop :=
  wf_stack aut (pairs stk) /\ exists (ts : list vtree) (b : Z),
    map sv stk = map tv ts ++ [(eof, b)] /\ all_vvalid ts /\
    flat_map vyield (rev ts) ++ inp = inp0 /\ flat_map vpost (rev ts) = rev reds.

Lemma top_pairs stk : top_state (pairs stk) = match stk with e :: _ => e_st e | [] => 0 end.
Proof. destruct stk; reflexivity. Qed.
Lemma zero_bottom' stk : wf_stack aut stk -> top_state stk = 0 -> stk = [(0, eof)].
Proof.
  destruct 1 as [|q X stk H Hg]; auto. simpl. intros ->.
  destruct (c_goto _ _ _ C _ _ _ Hg) as [Hq _]. congruence.
Qed.

Theorem arun_values fuel : forall inp0 stk inp pos reds,
  (forall a v, In (a, v) inp0 -> a <> eof) -> vinv inp0 stk inp reds ->
  match arun tab g act fuel stk inp pos reds with
  | RAcc v out => exists t, vvalid t /\ Some (vroot t) = hd_error (rhs_of g 0) /\ vyield t = inp0 /\ vpost t = out /\ v = veval t
  | RCrash | RNil => False
  | _ => True
  end.
Proof.
  induction fuel as [|f IH]; intros inp0 stk inp pos reds Hw (Hwf & ts & b & Hsv & Hval & Hy & Hp); [exact I|].
  cbn [arun]. destruct stk as [|top stk0] eqn:Estk; [inversion Hwf|]. rewrite <- Estk in *.
  assert (Htop : top_state (pairs stk) = e_st top) by (rewrite top_pairs, Estk; reflexivity).
  assert (Hlen_ts : length stk = S (length ts)).
  { apply (f_equal (@length _)) in Hsv. rewrite app_length, !map_length in Hsv. simpl in Hsv. lia. }
  assert (Hsyms : map e_sym stk = map vroot ts ++ [eof]).
  { apply (f_equal (map fst)) in Hsv. rewrite map_app, !map_map in Hsv. simpl in Hsv. exact Hsv. }
  destruct (tab (e_st top) (la inp)) as [q'|r| |] eqn:Ha; [| | |exact I].
  - (* shift *)
    rewrite <- Htop in Ha. pose proof (c_shift _ _ _ C _ _ _ Ha) as Hg.
    destruct inp as [|[a v] inp1].
    { simpl in Hg. rewrite (c_noeof _ _ _ C) in Hg. discriminate. }
    apply IH; auto. split; [simpl; constructor; auto|].
    exists (VLeaf a v :: ts), b. simpl. repeat split; auto.
    + f_equal. exact Hsv.
    + rewrite flat_map_app. simpl. rewrite <- app_assoc. simpl. exact Hy.
    + rewrite flat_map_app. simpl. rewrite app_nil_r. exact Hp.
  - (* reduce *)
    rewrite <- Htop in Ha. destruct (c_reduce _ _ _ C _ _ _ Ha) as (Hr0 & Hrlt & Hit).
    destruct (nth_error g r) as [R|] eqn:HR; [|apply nth_error_None in HR; lia].
    assert (HrhsR : rhs_of g r = rhs R) by (unfold rhs_of; rewrite HR; reflexivity).
    assert (HlhsR : lhs_of g r = lhs R) by (unfold lhs_of; rewrite HR; reflexivity).
    rewrite HrhsR in Hit. set (k := length (rhs R)) in *.
    destruct (suffix _ _ _ C _ Hwf _ _ Hit) as (Hlen & Hsym & H0).
    unfold pairs in Hlen. rewrite map_length in Hlen.
    assert (Hkts : k <= length ts) by lia.
    assert (Hskip : pairs (skipn k stk) = skipn k (pairs stk)) by (unfold pairs; rewrite skipn_map; reflexivity).
    destruct (skipn k stk) as [|below stk'] eqn:Hsk.
    { apply (f_equal (@length _)) in Hsk. rewrite skipn_length in Hsk. simpl in Hsk. lia. }
    rewrite <- Hsk in *.
    assert (Hbelow : top_state (skipn k (pairs stk)) = e_st below) by (rewrite <- Hskip, top_pairs, Hsk; reflexivity).
    rewrite Hbelow in H0. destruct (goto_after _ _ H0 Hr0 Hrlt) as (q' & Hgo). rewrite HlhsR in Hgo. rewrite Hgo.
    rewrite <- Hbelow in Hgo. pose proof (c_shift _ _ _ C _ _ _ Hgo) as Hg.
    assert (Hsplit : ts = firstn k ts ++ skipn k ts) by (symmetry; apply firstn_skipn).
    (* the k top entries are exactly the k top trees *)
    assert (Hfirst : map sv (firstn k stk) = map tv (firstn k ts)).
    { rewrite <- !firstn_map, Hsv, firstn_app, map_length. replace (k - length ts) with 0 by lia. simpl. rewrite app_nil_r. reflexivity. }
    assert (Hrest : map sv (skipn k stk) = map tv (skipn k ts) ++ [(eof, b)]).
    { rewrite <- !skipn_map, Hsv, skipn_app, map_length. replace (k - length ts) with 0 by lia. reflexivity. }
    assert (Hfk : map vroot (firstn k ts) = rev (rhs R)).
    { assert (E : map vroot (firstn k ts) = map fst (map tv (firstn k ts))) by (rewrite map_map; reflexivity).
      rewrite E, <- Hfirst, map_map.
      assert (Hs2 : map snd (firstn k (pairs stk)) = map (fun e => fst (sv e)) (firstn k stk)).
      { unfold pairs. rewrite <- firstn_map, map_map. rewrite <- firstn_map. reflexivity. }
      rewrite <- Hs2, Hsym, HrhsR. unfold k. rewrite firstn_all. reflexivity. }
    assert (Hvals : map e_val (firstn k stk) = map veval (firstn k ts)).
    { assert (E : map veval (firstn k ts) = map snd (map tv (firstn k ts))) by (rewrite map_map; reflexivity).
      rewrite E, <- Hfirst, map_map. reflexivity. }
    apply IH; auto. split; [simpl; rewrite Hskip; constructor; auto; apply wf_skipn; auto; unfold pairs; rewrite map_length; lia|].
    exists (VNode r (rev (firstn k ts)) :: skipn k ts), b.
    split; [|split; [|split]].
    + cbn [map]. rewrite Hrest. unfold sv at 1. cbn [e_sym e_val]. unfold tv. cbn [vroot veval]. rewrite HlhsR.
      rewrite Hvals, map_rev. reflexivity.
    + cbn [all_vvalid]. split; [|apply all_vvalid_skipn; exact Hval].
      apply vvalid_node. split; [exact Hrlt|]. split.
      * rewrite map_rev, Hfk, rev_involutive. symmetry; exact HrhsR.
      * apply all_vvalid_rev, all_vvalid_firstn. exact Hval.
    + cbn [rev]. rewrite flat_map_app. cbn [flat_map vyield]. rewrite app_nil_r.
      rewrite <- Hy. f_equal. rewrite Hsplit at 3. rewrite rev_app_distr, flat_map_app. reflexivity.
    + cbn [rev]. rewrite flat_map_app. cbn [flat_map vpost]. rewrite app_nil_r.
      rewrite <- Hp. rewrite Hsplit at 3. rewrite rev_app_distr, flat_map_app, app_assoc. reflexivity.
  - (* accept *)
    rewrite <- Htop in Ha. destruct (c_accept _ _ _ C _ _ Ha) as (Hit & Heof).
    destruct (suffix _ _ _ C _ Hwf _ _ Hit) as (Hlen & Hsym & H0).
    apply (c_start _ _ _ C) in H0.
    assert (Hwf1 : wf_stack aut (skipn 1 (pairs stk))).
    { apply wf_skipn; auto. }
    pose proof (zero_bottom' _ Hwf1 H0) as Hbot.
    destruct (c_rule0 _ _ _ C) as [S HS]. rewrite HS in *. 
    rewrite Estk in Hbot, Hsym, Hsv. simpl in Hbot, Hsym.
    destruct stk0 as [|e0 [|e1 stk1]]; simpl in Hbot; try discriminate.
    destruct ts as [|t [|t' ts']]; simpl in Hsv; try discriminate.
    2:{ inversion Hsv. destruct (map tv ts'); discriminate. }
    inversion Hsv as [[Hts Htv Heb]]. inversion Hsym as [HtopS].
    simpl in Hy, Hp. rewrite app_nil_r in Hy, Hp.
    assert (inp = []).
    { destruct inp as [|[a v] inp1]; auto. simpl in Heof. subst a. exfalso. apply (Hw eof v); auto.
      rewrite <- Hy. apply in_or_app. right. left. reflexivity. }
    subst inp. rewrite app_nil_r in Hy.
    exists t. split; [simpl in Hval; tauto|]. split; [simpl; congruence|]. split; [exact Hy|]. split; [exact Hp|exact Htv].
Qed.

End Vals.
Print Assumptions arun_values.
