(* Model and proofs: the `translate` switch of the generated parsers (Builder/GoTemplBuilder.go buildTranslate, the same
   loop in TsGenCode.go): one `case <token code>: conv = <symbol number>` per terminal symbol of the grammar object, in the
   order of G.Symbols, and a default that reports an error. *)
From Coq Require Import List Arith ZArith Bool.
Import ListNotations.
From YG Require Import Front.

Definition dflt_sym : gsym := mkGsym [] 0%Z [] false 0%Z Resolve.NONE.
Definition translate_cases (syms : list gsym) (isnt : nat -> bool) : list (Z * nat) :=
  flat_map (fun k => if isnt k then [] else [(s_value (nth k syms dflt_sym), k)]) (seq 0 (length syms)).

(* a switch: the first case whose label equals the scrutinee (the compilers refuse duplicate labels), else the default *)
Fixpoint switch (cases : list (Z * nat)) (c : Z) : option nat :=
  match cases with
  | [] => None
  | (v, k) :: r => if Z.eqb v c then Some k else switch r c
  end.

Lemma switch_own : forall cases v k, NoDup (map fst cases) -> In (v, k) cases -> switch cases v = Some k.
Proof.
  induction cases as [|[v0 k0] cases IH]; intros v k Hnd Hin; [destruct Hin|].
  cbn [switch]. inversion Hnd as [|? ? Hnotin Hnd']; subst. destruct Hin as [E|Hin].
  - inversion E; subst. rewrite Z.eqb_refl. reflexivity.
  - destruct (Z.eqb_spec v0 v) as [->|_].
    + exfalso. apply Hnotin. apply in_map_iff. exists (v, k). split; [reflexivity | exact Hin].
    + apply IH; assumption.
Qed.
Lemma switch_other : forall cases c, ~ In c (map fst cases) -> switch cases c = None.
Proof.
  induction cases as [|[v0 k0] cases IH]; intros c Hn; [reflexivity|].
  cbn [switch]. destruct (Z.eqb_spec v0 c) as [->|_]; [exfalso; apply Hn; left; reflexivity|].
  apply IH. intro H. apply Hn. right. exact H.
Qed.

Lemma translate_cases_in syms isnt k : k < length syms -> isnt k = false ->
  In (s_value (nth k syms dflt_sym), k) (translate_cases syms isnt).
Proof.
  intros Hk Hn. unfold translate_cases. apply in_flat_map. exists k. split; [apply in_seq; split; [apply Nat.le_0_l | exact Hk]|].
  rewrite Hn. left. reflexivity.
Qed.
Lemma translate_cases_codes syms isnt c :
  In c (map fst (translate_cases syms isnt)) <-> exists k, k < length syms /\ isnt k = false /\ s_value (nth k syms dflt_sym) = c.
Proof.
  unfold translate_cases. rewrite in_map_iff. split.
  - intros ([v k] & E & Hin). cbn [fst] in E. subst v. apply in_flat_map in Hin. destruct Hin as (k0 & Hk & Hin).
    apply in_seq in Hk. destruct (isnt k0) eqn:En; [destruct Hin|]. destruct Hin as [E|[]]. inversion E; subst k. exists k0. split; [apply Hk|]. split; [exact En | reflexivity].
  - intros (k & Hk & Hn & <-). exists (s_value (nth k syms dflt_sym), k). split; [reflexivity | apply translate_cases_in; assumption].
Qed.

(* C11, the code-to-symbol translation: when the terminals' codes are pairwise different, every token code is mapped to
   its own grammar symbol - the end marker's -1 to symbol 1 - and every other integer to the error default *)
Theorem translate_spec syms isnt :
  NoDup (map fst (translate_cases syms isnt)) ->
  (forall k, k < length syms -> isnt k = false -> switch (translate_cases syms isnt) (s_value (nth k syms dflt_sym)) = Some k) /\
  (forall c, (forall k, k < length syms -> isnt k = false -> s_value (nth k syms dflt_sym) <> c) -> switch (translate_cases syms isnt) c = None).
Proof.
  intros Hnd. split.
  - intros k Hk Hn. apply switch_own; [exact Hnd | apply translate_cases_in; assumption].
  - intros c Hc. apply switch_other. intro Hin. apply translate_cases_codes in Hin. destruct Hin as (k & Hk & Hn & E). exact (Hc k Hk Hn E).
Qed.

Corollary translate_end_marker v isnt :
  isnt 1 = false -> NoDup (map fst (translate_cases (symbols_of v) isnt)) ->
  switch (translate_cases (symbols_of v) isnt) (-1)%Z = Some 1.
Proof.
  intros Hn Hnd. apply (proj1 (translate_spec (symbols_of v) isnt Hnd) 1); [|exact Hn].
  unfold symbols_of. cbn [length]. apply le_n_S, le_n_S, Nat.le_0_l.
Qed.
