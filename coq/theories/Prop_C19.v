(* C19 - a failed generation never damages an existing output file *)
From Coq Require Import List Bool.
Import ListNotations.
From YG Require Import FsModel.

(* an input-caused failure (any step before the output file is created: lexer, parser, visitor,
   grammar/LALR construction, the builder's text-producing steps incl. $n substitution) leaves
   every path of the file system, in particular the output path, exactly as it was *)
Theorem C19_atomic :
  forall (content path : Type) (path_eqb : path -> path -> bool) (fails : step -> bool)
         (f : fs content path) (out : path) (empty text : content) (s : step),
    snd (run_gen content path path_eqb fails f out empty text) = Failed s ->
    input_caused s = true ->
    forall p : path, fst (run_gen content path path_eqb fails f out empty text) p = f p.
Proof. exact FsModel.atomic_on_failure. Qed.
Print Assumptions C19_atomic.

(* a successful generation leaves exactly the generated text (which ends with the epilogue) at the
   output path, whatever was there before, and touches nothing else *)
Theorem C19_complete :
  forall (content path : Type) (path_eqb : path -> path -> bool),
    (forall p q : path, path_eqb p q = true <-> p = q) ->
    forall (fails : step -> bool) (f : fs content path) (out : path) (empty text : content),
    snd (run_gen content path path_eqb fails f out empty text) = Success ->
    fst (run_gen content path path_eqb fails f out empty text) out = Some text /\
    (forall p : path, p <> out -> fst (run_gen content path path_eqb fails f out empty text) p = f p).
Proof. exact FsModel.complete_on_success. Qed.
Print Assumptions C19_complete.

(* the generation succeeds exactly when no step fails *)
Theorem C19_success_iff :
  forall (content path : Type) (path_eqb : path -> path -> bool) (fails : step -> bool)
         (f : fs content path) (out : path) (empty text : content),
    snd (run_gen content path path_eqb fails f out empty text) = Success <->
    (forall s : step, In s gen_steps -> fails s = false).
Proof. exact FsModel.success_iff_no_failure. Qed.
Print Assumptions C19_success_iff.

(* non-vacuity: a failure in the $n substitution step keeps the old file; success replaces it;
   a failure of the write itself (not input-caused) would leave a truncated file *)
Example C19_example : predict (Some SReduce) = Some Old /\ predict (Some SLex) = Some Old /\ predict None = Some New /\ predict (Some SWrite) = Some Empty.
Proof. vm_compute. auto. Qed.

From Coq Require Import NArith Ascii.
From YG Require Import EmitAction.
Close Scope Z_scope.
Open Scope nat_scope.

(* input-caused failures inside semantic actions, on the model of the substitution: using the value of an untyped left-hand side stops the generation (before the output file is created: C19_atomic); out-of-range and untyped references likewise (C16_action_reference) *)
Theorem C19_untyped_self_stops :
  forall (sp ao am : list Ascii.ascii) (rtags : list (list Ascii.ascii)) (s : list Ascii.ascii),
         has_self s = true -> subst_action sp ao am [] rtags s = None.
Proof. exact EmitAction.subst_self_untyped. Qed.
Print Assumptions C19_untyped_self_stops.
