(* Originally a design-phase spike: executable DeRemer-Pennello sets (lists, saturation) and their
   equivalence with the Prop-level relations of LASuperset, part 1: walk/path, DR, reads, Read. *)
From Coq Require Import List Arith Lia Bool Relations.
Import ListNotations.
From YG Require Import LRBase CompleteDriver LR0Build LASuperset Saturate.

Section Exec.
Variables (g : grammar) (aut : automaton) (S0 : nat).
Variable nullable_b : nat -> bool.
Hypothesis nullable_b_spec : forall X, nullable_b X = true <-> nullable g X.
Variable is_nt_b : nat -> bool.
Hypothesis is_nt_b_spec : forall X, is_nt_b X = true <-> is_nt g X.

Definition ntrans_eqb (x y : ntrans) : bool := Nat.eqb (fst x) (fst y) && Nat.eqb (snd x) (snd y).
Lemma ntrans_eqb_eq x y : ntrans_eqb x y = true <-> x = y.
Proof. destruct x, y; unfold ntrans_eqb; simpl. rewrite andb_true_iff, !Nat.eqb_eq. split; [intros [-> ->]; auto|inversion 1; auto]. Qed.

(* goto as existence of a key *)
Lemma assoc_In k v l : assoc k l = Some v -> In (k, v) l.
Proof. induction l as [|[k' v'] l IH]; simpl; [discriminate|]. destruct (Nat.eqb_spec k k'); auto. intros H; inversion H; subst; auto. Qed.
Lemma assoc_key k (l : list (nat * nat)) : In k (map fst l) <-> exists v, assoc k l = Some v.
Proof.
  induction l as [|[k' v'] l IH]; simpl; [split; [tauto|intros (v & H); discriminate]|].
  destruct (Nat.eqb_spec k k'); [subst; split; eauto|]. rewrite IH. split; [intros [H|H]; [congruence|auto]|auto].
Qed.
Lemma goto_lt q X q' : goto aut q X = Some q' -> q < length aut.
Proof.
  unfold goto, st. intros H. destruct (Nat.lt_ge_cases q (length aut)); auto.
  rewrite nth_overflow in H by auto. discriminate.
Qed.

(* walk = executable path *)
Fixpoint walk (p : nat) (alpha : list nat) : option nat :=
  match alpha with [] => Some p | X :: a => match goto aut p X with Some p1 => walk p1 a | None => None end end.
Lemma walk_path alpha : forall p q, walk p alpha = Some q <-> path aut p alpha q.
Proof.
  induction alpha as [|X a IH]; intros p q; simpl.
  - split; [intros H; inversion H; auto|intros ->; auto].
  - destruct (goto aut p X) as [p1|] eqn:E.
    + rewrite IH. split; [intros H; exists p1; auto|intros (p2 & Hg & Hp); inversion Hg; subst; auto].
    + split; [discriminate|intros (p2 & Hg & _); discriminate].
Qed.

(* ---- DR and reads as lists ---- *)
Definition keys (q : nat) : list nat := map fst (gotos (st aut q)).
Definition DRl (x : ntrans) : list nat :=
  (match goto aut (fst x) (snd x) with
   | Some r => filter (fun t => negb (is_nt_b t)) (keys r)
   | None => [] end) ++ (if ntrans_eqb x (0, S0) then [eof] else []).
Lemma DRl_spec x t : In t (DRl x) <-> DR g aut S0 x t.
Proof.
  unfold DRl, DR. rewrite in_app_iff. split.
  - intros [H|H].
    + destruct (goto aut (fst x) (snd x)) as [r|] eqn:E; [|destruct H]. apply filter_In in H. destruct H as [Hk Hn].
      apply assoc_key in Hk. destruct Hk as (r2 & Hr2). left. exists r, r2. split; auto. split; auto.
      intros Hnt. apply is_nt_b_spec in Hnt. rewrite Hnt in Hn. discriminate.
    + destruct (ntrans_eqb x (0, S0)) eqn:E; [|destruct H]. apply ntrans_eqb_eq in E. destruct H as [<-|[]]. right; auto.
  - intros [(r & r2 & Hg & Hn & Hg2)|[-> ->]].
    + left. rewrite Hg. apply filter_In. split; [apply assoc_key; exists r2; exact Hg2|].
      apply negb_true_iff. destruct (is_nt_b t) eqn:E; auto. apply is_nt_b_spec in E. contradiction.
    + right. assert (E : ntrans_eqb (0, S0) (0, S0) = true) by (apply ntrans_eqb_eq; auto). rewrite E. left; auto.
Qed.

Definition reads_succ (x : ntrans) : list ntrans :=
  match goto aut (fst x) (snd x) with
  | Some r => map (fun C => (r, C)) (filter nullable_b (keys r))
  | None => [] end.
Lemma reads_succ_spec x y : In y (reads_succ x) <-> reads g aut x y.
Proof.
  unfold reads_succ, reads. split.
  - destruct (goto aut (fst x) (snd x)) as [r|] eqn:E; [|intros []]. intros H. apply in_map_iff in H.
    destruct H as (C & <- & Hf). apply filter_In in Hf. destruct Hf as [Hk Hn]. simpl.
    split; auto. split; [apply nullable_b_spec; auto|apply assoc_key; auto].
  - intros (Hg & Hn & Hk). rewrite Hg. apply in_map_iff. exists (snd y). split; [destruct y; auto|].
    apply filter_In. split; [apply assoc_key; auto|apply nullable_b_spec; auto].
Qed.

(* the universe of transitions *)
Definition all_trans : list ntrans := flat_map (fun p => map (fun X => (p, X)) (keys p)) (seq 0 (length aut)).
Lemma all_trans_spec x : In x all_trans <-> exists q', goto aut (fst x) (snd x) = Some q'.
Proof.
  unfold all_trans. rewrite in_flat_map. split.
  - intros (p & Hp & Hx). apply in_map_iff in Hx. destruct Hx as (X & <- & HX). simpl. apply assoc_key; auto.
  - intros (q' & Hg). exists (fst x). split; [apply in_seq; split; [lia|simpl; eapply goto_lt; eauto]|].
    apply in_map_iff. exists (snd x). split; [destruct x; auto|]. apply assoc_key. eauto.
Qed.

Definition Readl (x : ntrans) : list nat :=
  flat_map DRl (saturate _ ntrans_eqb reads_succ (S (length all_trans)) [x]).

Lemma rt_iff (R1 R2 : ntrans -> ntrans -> Prop) : (forall a b, R1 a b <-> R2 a b) -> forall a b, clos_refl_trans _ R1 a b <-> clos_refl_trans _ R2 a b.
Proof. intros H a b. split; induction 1; [apply rt_step, H; auto|apply rt_refl|eapply rt_trans; eauto|apply rt_step, H; auto|apply rt_refl|eapply rt_trans; eauto]. Qed.

Theorem Readl_spec x t : In x all_trans -> (In t (Readl x) <-> Read g aut S0 x t).
Proof.
  intros Hx. unfold Readl, Read. rewrite in_flat_map.
  assert (Hsat : forall y, In y (saturate _ ntrans_eqb reads_succ (S (length all_trans)) [x]) <-> clos_refl_trans _ (reads g aut) x y).
  { intros y. rewrite (saturate_spec _ ntrans_eqb ntrans_eqb_eq reads_succ all_trans [x]).
    - split.
      + intros (s & [<-|[]] & Hr). eapply rt_iff; [|exact Hr]. intros a b. unfold step. symmetry. apply reads_succ_spec.
      + intros Hr. exists x. split; [left; auto|]. eapply rt_iff; [|exact Hr]. intros a b. unfold step. apply reads_succ_spec.
    - constructor; [intros []|constructor].
    - intros y0 [<-|[]]; auto.
    - intros a b _ Hs. unfold step in Hs. apply reads_succ_spec in Hs. destruct Hs as (_ & _ & Hk). apply all_trans_spec; auto. }
  split.
  - intros (y & Hy & Ht). exists y. split; [apply Hsat; auto|apply DRl_spec; auto].
  - intros (y & Hy & Ht). exists y. split; [apply Hsat; auto|apply DRl_spec; auto].
Qed.


(* ---- includes ---- *)
Definition nullable_seq_b (s : list nat) : bool := forallb nullable_b s.
Lemma nullable_seq_b_spec s : nullable_seq_b s = true <-> nullable_seq g s.
Proof.
  unfold nullable_seq_b, nullable_seq. rewrite forallb_forall, Forall_forall.
  split; intros H x Hx; apply nullable_b_spec; auto.
Qed.
Definition has_trans (x : ntrans) : bool := match goto aut (fst x) (snd x) with Some _ => true | None => false end.
Lemma has_trans_spec x : has_trans x = true <-> exists q', goto aut (fst x) (snd x) = Some q'.
Proof.
  unfold has_trans. destruct (goto aut (fst x) (snd x)) as [q0|].
  - split; eauto.
  - split; [discriminate|]. intros [q' H]. discriminate.
Qed.

(* rule r (index, body), dot position d, candidate source state p' *)
Definition includes_succ (x : ntrans) : list ntrans :=
  flat_map (fun r =>
    match nth_error g r with
    | None => []
    | Some R =>
      if Nat.eqb r 0 then [] else
      flat_map (fun d =>
        match nth_error (rhs R) d with
        | Some A => if Nat.eqb A (snd x) && nullable_seq_b (skipn (S d) (rhs R)) then
            flat_map (fun p' => match walk p' (firstn d (rhs R)) with
                                | Some p => if Nat.eqb p (fst x) && has_trans (p', lhs R) then [(p', lhs R)] else []
                                | None => [] end) (seq 0 (length aut))
            else []
        | None => [] end) (seq 0 (length (rhs R)))
    end) (seq 0 (length g)).

Lemma includes_succ_spec x y : In y (includes_succ x) <-> includes g aut x y.
Proof.
  unfold includes_succ, includes. rewrite in_flat_map. split.
  - intros (r & Hr & H). destruct (nth_error g r) as [R|] eqn:HR; [|destruct H].
    destruct (Nat.eqb_spec r 0) as [|Hr0]; [destruct H|]. apply in_flat_map in H. destruct H as (d & Hd & H).
    destruct (nth_error (rhs R) d) as [A|] eqn:HA; [|destruct H].
    destruct (Nat.eqb A (snd x) && nullable_seq_b (skipn (S d) (rhs R))) eqn:E; [|destruct H].
    apply andb_true_iff in E. destruct E as [EA En]. apply Nat.eqb_eq in EA. subst A.
    apply in_flat_map in H. destruct H as (p' & Hp' & H).
    destruct (walk p' (firstn d (rhs R))) as [p|] eqn:Ew; [|destruct H].
    destruct (Nat.eqb p (fst x) && has_trans (p', lhs R)) eqn:E2; [|destruct H].
    apply andb_true_iff in E2. destruct E2 as [Ep Eh]. apply Nat.eqb_eq in Ep. subst p. destruct H as [<-|[]].
    exists r, R, d. simpl. repeat split; auto.
    + apply nullable_seq_b_spec; auto.
    + apply walk_path; auto.
    + apply has_trans_spec in Eh. exact Eh.
  - intros (r & R & d & HR & Hr0 & Hl & HA & Hn & Hp & Hq).
    exists r. split; [apply in_seq; split; [lia|simpl; apply nth_error_Some; congruence]|].
    rewrite HR. destruct (Nat.eqb_spec r 0); [contradiction|]. apply in_flat_map. exists d.
    split; [apply in_seq; split; [lia|simpl; apply nth_error_Some; congruence]|].
    rewrite HA. rewrite Nat.eqb_refl. cbn [andb]. apply nullable_seq_b_spec in Hn. rewrite Hn.
    apply in_flat_map. exists (fst y). destruct Hq as (q' & Hq').
    split; [apply in_seq; split; [lia|simpl; eapply goto_lt; eauto]|].
    apply walk_path in Hp. rewrite Hp. rewrite Nat.eqb_refl. cbn [andb].
    assert (Eh : has_trans (fst y, lhs R) = true) by (apply has_trans_spec; simpl; rewrite Hl; eauto).
    rewrite Eh. left. destruct y; simpl in *; subst; auto.
Qed.

Definition Followl (x : ntrans) : list nat :=
  flat_map Readl (saturate _ ntrans_eqb includes_succ (S (length all_trans)) [x]).

Theorem Followl_spec x t : In x all_trans -> (In t (Followl x) <-> Follow g aut S0 x t).
Proof.
  intros Hx. unfold Followl, Follow. rewrite in_flat_map.
  assert (Hsat : forall y, In y (saturate _ ntrans_eqb includes_succ (S (length all_trans)) [x]) <->
                           clos_refl_trans _ (includes g aut) x y).
  { intros y. rewrite (saturate_spec _ ntrans_eqb ntrans_eqb_eq includes_succ all_trans [x]).
    - split.
      + intros (s & [<-|[]] & Hr). eapply rt_iff; [|exact Hr]. intros a b. unfold step. symmetry. apply includes_succ_spec.
      + intros Hr. exists x. split; [left; auto|]. eapply rt_iff; [|exact Hr]. intros a b. unfold step. apply includes_succ_spec.
    - constructor; [intros []|constructor].
    - intros y0 [<-|[]]; auto.
    - intros a b _ Hs. unfold step in Hs. apply includes_succ_spec in Hs.
      destruct Hs as (r & R & d & _ & _ & _ & _ & _ & _ & Hq). apply all_trans_spec; auto. }
  assert (Hall : forall y, clos_refl_trans _ (includes g aut) x y -> In y all_trans).
  { intros y Hr. apply clos_rt_rtn1 in Hr. destruct Hr as [|y z Hinc _]; auto.
    destruct Hinc as (r & R & d & _ & _ & _ & _ & _ & _ & Hq). apply all_trans_spec; auto. }
  split.
  - intros (y & Hy & Ht). apply Hsat in Hy. exists y. split; auto. apply Readl_spec; auto.
  - intros (y & Hy & Ht). exists y. split; [apply Hsat; auto|]. apply Readl_spec; auto.
Qed.

(* ---- lookback and the lookahead list of a reduction ---- *)
Definition lookback (q r : nat) : list ntrans :=
  flat_map (fun p => match walk p (rhs_of g r) with
                     | Some q1 => if Nat.eqb q1 q && has_trans (p, lhs_of g r) then [(p, lhs_of g r)] else []
                     | None => [] end) (seq 0 (length aut)).
Definition LAl (q r : nat) : list nat := if Nat.eqb r 0 then [eof] else flat_map Followl (lookback q r).

(* for a complete item of a rule other than rule 0, the executable list is the annotation of LASuperset,
   provided looking back always finds a transition (back_ok, a C09 fact) *)
Theorem LAl_spec q r t : r <> 0 -> back_ok g aut -> In (r, length (rhs_of g r)) (items (st aut q)) ->
  (In t (LAl q r) <-> LAm g aut S0 q (r, length (rhs_of g r)) t).
Proof.
  intros Hr0 Hback Hin. unfold LAl, LAm. destruct (Nat.eqb_spec r 0); [contradiction|]. simpl.
  rewrite firstn_all. rewrite in_flat_map. split.
  - intros (x & Hx & Ht). unfold lookback in Hx. apply in_flat_map in Hx. destruct Hx as (p & Hp & Hx).
    destruct (walk p (rhs_of g r)) as [q1|] eqn:Ew; [|destruct Hx].
    destruct (Nat.eqb q1 q && has_trans (p, lhs_of g r)) eqn:E; [|destruct Hx].
    apply andb_true_iff in E. destruct E as [Eq Eh]. apply Nat.eqb_eq in Eq. subst q1. destruct Hx as [<-|[]].
    exists p. split; [apply walk_path; auto|]. right. split; auto.
    apply Followl_spec; auto. apply all_trans_spec. apply has_trans_spec in Eh. exact Eh.
  - intros (p & Hp & [(H0 & _)|(_ & Hf)]); [contradiction|].
    assert (Hq' : exists q', goto aut p (lhs_of g r) = Some q').
    { apply (Hback q r (length (rhs_of g r)) p); auto. rewrite firstn_all. auto. }
    exists (p, lhs_of g r). split.
    + unfold lookback. apply in_flat_map. exists p. destruct Hq' as (q' & Hq').
      split; [apply in_seq; split; [lia|simpl; eapply goto_lt; eauto]|].
      apply walk_path in Hp. rewrite Hp, Nat.eqb_refl. cbn [andb].
      assert (Eh : has_trans (p, lhs_of g r) = true) by (apply has_trans_spec; simpl; eauto). rewrite Eh. left; auto.
    + apply Followl_spec; auto. apply all_trans_spec. auto.
Qed.

End Exec.
Print Assumptions LAl_spec.
