(* Originally a design-phase spike: assembly. For the executable LR(0) construction `build` of Spike3 and
   the executable lookahead lists `LAl` of Spike15, the lookahead list of every reduction in every state
   is exactly the LALR(1) set (LR(1) lookaheads over all access paths of the state): property C03,
   first sentence, on the model, for every grammar satisfying the stated well-formedness facts. *)
From Coq Require Import List Arith Lia Bool.
Import ListNotations.
From YG Require Import LRBase CompleteDriver LR0Build LR0Complete LASuperset LASubset LASupersetWrap LAExec LR0More.

Section Assemble.
Variables (g : grammar) (aut : automaton) (S0 : nat).
Hypothesis no_start_in_rhs : forall r d, nth_error (rhs_of g r) d <> Some 0.
Hypothesis rule0_lhs : lhs_of g 0 = 0.
Hypothesis no_eof_in_rhs : forall r d, nth_error (rhs_of g r) d <> Some eof.
Hypothesis rule0_rhs : rhs_of g 0 = [S0].
Hypothesis eof_terminal : ~ is_nt g eof.
Hypothesis productive_all : forall seq l, ~ is_nt g l -> exists b, first_seq g (seq ++ [l]) b.
Hypothesis Hb : build g = Some aut.

Lemma g_nonempty : 0 < length g.
Proof. unfold rhs_of in rule0_rhs. destruct g; [discriminate|simpl; lia]. Qed.

Let Hinv := build_loop_inv g rule0_lhs no_eof_in_rhs _ _ _ _ (inv_init g rule0_lhs) Hb.
Let Hmore := build_more g g_nonempty (or_intror I) aut Hb.
Let Hstruct := build_structural g no_start_in_rhs rule0_lhs no_eof_in_rhs aut Hb.

Lemma items0 : items (st aut 0) = closure g [(0, 0)].
Proof. destruct Hinv as (H & _). exact H. Qed.
Lemma edge_items q X q' : goto aut q X = Some q' -> items (st aut q') = closure g (advance g (items (st aut q)) X).
Proof.
  intros Hg. destruct Hinv as (_ & _ & _ & He). unfold goto in Hg. apply LR0Build.assoc_In in Hg.
  destruct (He _ _ _ Hg) as (_ & _ & _ & _ & H). exact H.
Qed.
Lemma goto_lt' q X q' : goto aut q X = Some q' -> q < length aut.
Proof. intros H. destruct (Nat.lt_ge_cases q (length aut)); auto. unfold goto in H. rewrite st_out in H by lia. discriminate. Qed.

Lemma nodup_items q : NoDup (items (st aut q)). Proof. apply Hmore. Qed.
Lemma valid_items' q x : In x (items (st aut q)) -> valid_item g x. Proof. apply Hmore. Qed.

(* every state is the closure of a duplicate-free kernel *)
Lemma state_kernel q : q < length aut -> exists K, NoDup K /\ items (st aut q) = closure g K /\
  (q = 0 /\ K = [(0, 0)] \/ exists p X, goto aut p X = Some q /\ K = advance g (items (st aut p)) X).
Proof.
  intros Hq. destruct (Nat.eq_dec q 0) as [->|Hne].
  - exists [(0, 0)]. split; [constructor; [intros []|constructor]|]. split; [apply items0|left; auto].
  - destruct Hmore as (_ & _ & _ & Hreach). destruct (Hreach q Hq) as (gamma & Hp).
    destruct gamma as [|X0 gamma0] using rev_ind; [simpl in Hp; congruence|].
    apply path_snoc_inv in Hp. destruct Hp as (p & _ & Hg).
    exists (advance g (items (st aut p)) X0). split; [apply advance_nodup, nodup_items|].
    split; [apply edge_items; auto|right; eauto].
Qed.

Lemma in_closure_In K x : NoDup K -> in_closure g K x -> In x (closure g K).
Proof.
  intros Hnd H. induction H as [x Hx|it x Hit IH Hx]; [apply closure_ext; auto|].
  unfold closure in *. rewrite isort_In in *. eapply (closure_closed g K Hnd); eauto.
Qed.

Lemma H_clos q it B r' R' : In it (items (st aut q)) -> next_sym g it = Some B ->
  nth_error g r' = Some R' -> lhs R' = B -> In (r', 0) (items (st aut q)).
Proof.
  intros Hin Hn HR HB.
  destruct (Nat.lt_ge_cases q (length aut)) as [Hq|Hq]; [|rewrite st_out in Hin by lia; destruct Hin].
  destruct (state_kernel q Hq) as (K & Hnd & HK & _). rewrite HK in *. eapply closure_complete; eauto.
Qed.
Lemma H_goto q it X : In it (items (st aut q)) -> next_sym g it = Some X ->
  exists q', goto aut q X = Some q' /\ In (fst it, S (snd it)) (items (st aut q')).
Proof.
  intros Hin Hn. destruct (build_goto_complete g aut q it X Hb Hin Hn) as (q' & Hg). exists q'. split; auto.
  rewrite (edge_items _ _ _ Hg). apply closure_ext. unfold advance. apply in_map_iff. exists it. split; auto.
  apply filter_In. split; auto. unfold has_next. rewrite Hn. apply Nat.eqb_refl.
Qed.

Lemma back_item d : forall q r p, In (r, d) (items (st aut q)) -> path aut p (firstn d (rhs_of g r)) q -> In (r, 0) (items (st aut p)).
Proof.
  induction d as [|d IH]; intros q r p Hin Hp.
  - simpl in Hp. subst; auto.
  - destruct (valid_items' _ _ Hin) as [Hd _]. simpl in Hd.
    destruct (nth_error (rhs_of g r) d) as [X|] eqn:E; [|apply nth_error_None in E; lia].
    rewrite (firstn_S_nth _ _ _ E) in Hp. apply path_snoc_inv in Hp. destruct Hp as (q1 & Hp1 & Hg).
    destruct Hstruct as (Hgoto & _). destruct (Hgoto _ _ _ Hg) as [_ Hit].
    destruct (Hit _ _ Hin) as [H0|(d' & Hd' & Hin' & _)]; [discriminate|]. inversion Hd'; subst d'.
    eapply IH; eauto.
Qed.

Lemma Hback : back_ok g aut.
Proof.
  intros q r d p Hin Hp Hr0. pose proof (back_item d q r p Hin Hp) as H0.
  destruct (Nat.lt_ge_cases p (length aut)) as [Hpl|Hpl]; [|rewrite st_out in H0 by lia; destruct H0].
  destruct (state_kernel p Hpl) as (K & Hnd & HK & Hkind). rewrite HK in H0. apply closure_in in H0.
  inversion H0 as [x Hx|it x Hit Hx]; subst.
  - (* a kernel item with dot 0 of a rule other than rule 0 does not exist *)
    destruct Hkind as [[_ ->]|(p0 & X & _ & ->)].
    + destruct Hx as [Hx|[]]. inversion Hx. congruence.
    + unfold advance in Hx. apply in_map_iff in Hx. destruct Hx as (y & Hy & _). inversion Hy.
  - apply expand_item in Hx. simpl in Hx. destruct Hx as (R' & _ & HR' & Hn).
    assert (Hit' : In it (items (st aut p))) by (rewrite HK; apply in_closure_In; auto).
    destruct (build_goto_complete g aut p it (lhs R') Hb Hit' Hn) as (q' & Hg). exists q'.
    unfold lhs_of. rewrite HR'. exact Hg.
Qed.

Variable nullable_b : nat -> bool.
Hypothesis nullable_b_spec : forall X, nullable_b X = true <-> nullable g X.
Variable is_nt_b : nat -> bool.
Hypothesis is_nt_b_spec : forall X, is_nt_b X = true <-> is_nt g X.

(* LALR(1) lookahead set of an item in a state, as in the property: union over all access paths *)
Definition LALR_LA (q : nat) (it : item) (t : nat) : Prop := exists gamma, path aut 0 gamma q /\ lr1 g gamma it t.

Theorem C03_model q r t : r <> 0 -> In (r, length (rhs_of g r)) (items (st aut q)) ->
  (In t (LAl g aut S0 nullable_b is_nt_b q r) <-> LALR_LA q (r, length (rhs_of g r)) t).
Proof.
  intros Hr0 Hin. rewrite (LAl_spec g aut S0 nullable_b nullable_b_spec is_nt_b is_nt_b_spec q r t Hr0 Hback Hin).
  destruct Hstruct as (Hgoto & Hinit & Hstart & Hnoeof). destruct Hmore as (Hvalid & Hnd & Hjust & Hreach).
  split.
  - intros Hla. eapply (LAm_sub_LALR g aut S0); eauto.
    + intros x Hx. rewrite items0 in Hx. apply closure_in; auto.
    + intros q0 X q' Hg x Hx. rewrite (edge_items _ _ _ Hg) in Hx. apply closure_in; auto.
    + intros q0 X q' Hg. apply Hreach. eapply goto_lt'; eauto.
    + intros q0 X Hg. destruct (Hgoto _ _ _ Hg) as [H _]. congruence.
    + intros q0 r0 d Hx. apply (Hvalid q0 (r0, d)); auto.
    + apply Hback.
  - intros (gamma & Hp & Hl).
    destruct (LALR_sub_LAm g aut S0 H_clos H_goto) with (gamma := gamma) (x := (r, length (rhs_of g r))) (t := t) (q := q) as (_ & _ & H); auto.
    + rewrite items0. apply closure_ext. left; auto.
    + intros r0 d. rewrite rule0_lhs. apply no_start_in_rhs.
    + apply Hback.
Qed.

End Assemble.
Print Assumptions C03_model.
