(* C06 - no crash, no nil return *)
From Coq Require Import List Arith ZArith Bool Permutation.
Import ListNotations.
From YG Require Import LRBase CompleteDriver LR0Build LR0Complete LASuperset LASubset LAExec LR0More C03Assembly C02Assembly TableCert Resolve PackCore DriverSim Values Oracle Productive SortOrder LexRoundtrip.

(* under the certificate of the generated table the machine never ends in Crash or NilReturn: a run accepts, reports a syntax error, or is still running *)
Theorem C06_no_crash :
  forall (g : grammar) (act : semact) (aut : automaton) (tab : table),
         cert g aut tab ->
         (forall q r : nat,
          In (r, 0%nat) (items (LRBase.st aut q)) ->
          r <> 0%nat -> (r < length g)%nat -> exists q' : nat, tab q (lhs_of g r) = Shift q') ->
         forall (fuel : nat) (inp0 : list (nat * Z)) (stk : list entry) (inp : list tok) 
           (pos : nat) (reds : list nat),
         (forall (a : nat) (v : Z), In (a, v) inp0 -> a <> eof) ->
         vinv g act aut inp0 stk inp reds ->
         match arun tab g act fuel stk inp pos reds with
         | RAcc v out =>
             exists t : vtree,
               vvalid g t /\
               Some (vroot g t) = hd_error (rhs_of g 0) /\ vyield t = inp0 /\ vpost t = out /\ v = veval act t
         | RCrash | RNil => False
         | _ => True
         end.
Proof. exact Values.arun_values. Qed.
Print Assumptions C06_no_crash.
