(* C06 - no crash, no nil return *)
From Coq Require Import List Arith ZArith Bool Permutation.
Import ListNotations.
From YG Require Import LRBase CompleteDriver LR0Build LR0Complete LASuperset LASubset LAExec LR0More C03Assembly C02Assembly TableCert Resolve PackCore DriverSim Values Oracle Productive SortOrder LexRoundtrip.

(* under the certificate of the generated table the machine never ends in Crash or NilReturn: a run accepts, reports a syntax error, or is still running *)
Theorem C06_no_crash :
  forall (g : grammar) (act : semact) (aut : automaton) (tab : table),
         cert g aut tab ->
         (forall q r : nat,
          In (r, 0%nat) (items (LRBase.st aut q)) ->
          r <> 0%nat -> (r < length g)%nat -> exists q' : nat, tab q (lhs_of g r) = Shift q') ->
         forall (fuel : nat) (inp0 : list (nat * Z)) (stk : list entry) (inp : list tok) 
           (pos : nat) (reds : list nat),
         (forall (a : nat) (v : Z), In (a, v) inp0 -> a <> eof) ->
         vinv g act aut inp0 stk inp reds ->
         match arun tab g act fuel stk inp pos reds with
         | RAcc v out =>
             exists t : vtree,
               vvalid g t /\
               Some (vroot g t) = hd_error (rhs_of g 0) /\ vyield t = inp0 /\ vpost t = out /\ v = veval act t
         | RCrash | RNil => False
         | _ => True
         end.
Proof. exact Values.arun_values. Qed.
Print Assumptions C06_no_crash.

From YG Require Import LRBase TableCert Pipeline PipelineRun Drivers DriverSim Values.
Close Scope Z_scope.
Open Scope nat_scope.

(* C06 (first half) and C07 for the parsers the pipeline emits, all five variants: whenever generate_tables succeeds, the packed lookups equal the dense cells and every state exposed by a reduction has a goto on the left-hand side, a parse never ends in a crash (index out of range) or a nil return - it accepts, reports a syntax error, or is still running - and an accepted parse returns the bottom-up evaluation of the actions over a valid parse tree of the whole input *)
Theorem C06_pipeline :
  forall gi : ginfo,
         (forall r d : nat, nth_error (rhs_of (gi_rules gi) r) d <> Some 0) ->
         lhs_of (gi_rules gi) 0 = 0 ->
         (forall r d : nat, nth_error (rhs_of (gi_rules gi) r) d <> Some eof) ->
         (exists S : nat, rhs_of (gi_rules gi) 0 = [S]) ->
         eof < gi_nsyms gi ->
         (forall (r : nat) (R : rule), nth_error (gi_rules gi) r = Some R -> lhs R < gi_nsyms gi) ->
         forall t : tables,
         generate_tables gi = inr t ->
         packed_agrees gi t ->
         (forall q r : nat,
          In (r, 0) (items (st (t_aut t) q)) ->
          r <> 0 ->
          r < length (gi_rules gi) ->
          exists q' : nat,
            gen_table (gi_rules gi) (t_aut t) (la_lookup (t_la t)) (sprec_of gi) (rprec_of gi) q
              (lhs_of (gi_rules gi) r) = Shift q') ->
         forall (v : variant) (act : semact) (fuel : nat) (inp : list tok),
         (forall x : tok, In x inp -> fst x <> eof /\ fst x < gi_nsyms gi) ->
         match parse v t (gi_rules gi) act fuel inp with
         | RAcc value out =>
             exists tr : vtree,
               vvalid (gi_rules gi) tr /\
               Some (vroot (gi_rules gi) tr) = hd_error (rhs_of (gi_rules gi) 0) /\
               vyield tr = inp /\ vpost tr = out /\ value = veval act tr
         | RCrash | RNil => False
         | _ => True
         end.
Proof. exact PipelineRun.pipeline_values. Qed.
Print Assumptions C06_pipeline.

From YG Require Import LRBase CompleteDriver LR0Build LASuperset ViablePrefix.
Close Scope Z_scope.
Open Scope nat_scope.

(* the symbols on a well-formed stack followed by a symbol the top state can shift are a viable prefix: part of a sentential form derived from the start symbol (soundness of LR(1) items over access paths, for the automaton built by LR0Build.build) *)
Theorem C06_shift_extends_viable_prefix :
  forall (g : grammar) (aut : automaton) (S0 : nat),
         (forall r d : nat, nth_error (rhs_of g r) d <> Some 0) ->
         lhs_of g 0 = 0 ->
         (forall r d : nat, nth_error (rhs_of g r) d <> Some eof) ->
         rhs_of g 0 = [S0] ->
         ~ is_nt g eof ->
         (forall (seq : list nat) (l : nat), ~ is_nt g l -> exists b : nat, first_seq g (seq ++ [l]) b) ->
         build g = Some aut ->
         forall (gamma : list nat) (q a q' : nat),
         path aut 0 gamma q ->
         goto aut q a = Some q' -> exists beta : list nat, derives g [0] (gamma ++ a :: beta).
Proof. exact ViablePrefix.shift_extends. Qed.
Print Assumptions C06_shift_extends_viable_prefix.

From YG Require Import LRBase CompleteDriver LR0Build LASuperset ViablePrefix.
Close Scope Z_scope.
Open Scope nat_scope.

(* the error is reported at the first bad token: after any number of steps of the LR machine from the initial configuration on input w - for ANY table satisfying the certificate, i.e. any lookahead sets and precedences - if the next action shifts the next token a, then the input read so far followed by a begins a sentence (every symbol productive: C12); so a token that cannot continue any sentence is never shifted, and since an Error cell stops the machine nothing after it is requested *)
Theorem C06_never_shifts_a_bad_token :
  forall (g : grammar) (aut : automaton) (S0 : nat) (tab : table),
         (forall r d : nat, nth_error (rhs_of g r) d <> Some 0) ->
         lhs_of g 0 = 0 ->
         (forall r d : nat, nth_error (rhs_of g r) d <> Some eof) ->
         rhs_of g 0 = [S0] ->
         ~ is_nt g eof ->
         (forall (seq : list nat) (l : nat), ~ is_nt g l -> exists b : nat, first_seq g (seq ++ [l]) b) ->
         build g = Some aut ->
         cert g aut tab ->
         (forall X : nat, exists z : list nat, terminal_string g z /\ derives g [X] z) ->
         forall (n : nat) (w : list nat) (stk : list (nat * nat)) (a : nat) (inp' reds : list nat) (q' : nat),
         nsteps n tab g ([(0, eof)], w, []) = Some (stk, a :: inp', reds) ->
         tab (top_state stk) a = Shift q' ->
         exists pre z : list nat, w = pre ++ a :: inp' /\ terminal_string g z /\ derives g [0] (pre ++ a :: z).
Proof. exact ViablePrefix.run_never_shifts_a_bad_token. Qed.
Print Assumptions C06_never_shifts_a_bad_token.

From YG Require Import LRBase ViablePrefix.
Close Scope Z_scope.
Open Scope nat_scope.

(* (step, the configuration-to-configuration function of that statement, is one iteration of the machine LRBase.run of the other theorems) *)
Theorem C06_step_is_run :
  forall (f : nat) (tab : table) (g : grammar) (stk : list (nat * nat)) (inp reds : list nat)
           (s : list (nat * nat)) (i r : list nat),
         step tab g (stk, inp, reds) = Some (s, i, r) -> run (S f) tab g stk inp reds = run f tab g s i r.
Proof. exact ViablePrefix.run_step. Qed.
Print Assumptions C06_step_is_run.

From YG Require Import LRBase CompleteDriver LR0Build Resolve Pipeline PipelineRun Front WfGrammar YParser EndToEnd ViablePrefix EndToEndWf.
Close Scope Z_scope.
Open Scope nat_scope.

(* from the bytes of the grammar file, with no side condition: the action table the generator computes for a text never lets the LR machine shift a token that cannot continue a sentence - what was read so far followed by the shifted token is the beginning of a sentence of the grammar object (certificate, well-formedness and productivity of every symbol are proved for every text on which tables are delivered) *)
Theorem C06_from_the_text :
  forall (s : list Ascii.ascii) (b : built) (t : tables),
         generate_text s = GOk b t ->
         let g := gi_rules (b_gi b) in
         let T := action_fun (b_gi b) (t_aut t) (t_la t) in
         forall (n : nat) (w : list nat) (stk : list (nat * nat)) (a : nat) (inp' reds : list nat) (q' : nat),
         nsteps n T g ([(0, eof)], w, []) = Some (stk, a :: inp', reds) ->
         T (top_state stk) a = Shift q' ->
         exists pre z : list nat, w = pre ++ a :: inp' /\ terminal_string g z /\ derives g [0] (pre ++ a :: z).
Proof. exact EndToEndWf.text_never_shifts_a_bad_token. Qed.
Print Assumptions C06_from_the_text.

From YG Require Import LRBase CompleteDriver LR0Build Resolve TableCert PackCore Pipeline PipelineRun Drivers DriverSim Values Front WfGrammar YParser EndToEnd GotoAfterReduce EndToEndWf.
Close Scope Z_scope.
Open Scope nat_scope.

(* from the bytes of the grammar file: no run of any variant on the tables computed for a text ends in a crash (index out of range) or a nil result - an input is accepted with a derivation, rejected through the error action, or the run is out of fuel *)
Theorem C06_no_crash_from_the_text :
  forall (s : list Ascii.ascii) (b : built) (t : tables),
         generate_text s = GOk b t ->
         packed_agrees (b_gi b) t ->
         forall (v : variant) (act : semact) (fuel : nat) (inp : list tok),
         (forall x : tok, In x inp -> fst x <> eof /\ fst x < gi_nsyms (b_gi b)) ->
         match parse v t (gi_rules (b_gi b)) act fuel inp with
         | RAcc value out =>
             exists tr : vtree,
               vvalid (gi_rules (b_gi b)) tr /\
               Some (vroot (gi_rules (b_gi b)) tr) = hd_error (rhs_of (gi_rules (b_gi b)) 0) /\
               vyield tr = inp /\ vpost tr = out /\ value = veval act tr
         | RCrash | RNil => False
         | _ => True
         end.
Proof. exact EndToEndWf.text_values. Qed.
Print Assumptions C06_no_crash_from_the_text.
