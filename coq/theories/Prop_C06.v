(* C06 - no crash, no nil return *)
From Coq Require Import List Arith ZArith Bool Permutation.
Import ListNotations.
From YG Require Import LRBase CompleteDriver LR0Build LR0Complete LASuperset LASubset LAExec LR0More C03Assembly C02Assembly TableCert Resolve PackCore DriverSim Values Oracle Productive SortOrder LexRoundtrip.

(* under the certificate of the generated table the machine never ends in Crash or NilReturn: a run accepts, reports a syntax error, or is still running *)
Theorem C06_no_crash :
  forall (g : grammar) (act : semact) (aut : automaton) (tab : table),
         cert g aut tab ->
         (forall q r : nat,
          In (r, 0%nat) (items (LRBase.st aut q)) ->
          r <> 0%nat -> (r < length g)%nat -> exists q' : nat, tab q (lhs_of g r) = Shift q') ->
         forall (fuel : nat) (inp0 : list (nat * Z)) (stk : list entry) (inp : list tok) 
           (pos : nat) (reds : list nat),
         (forall (a : nat) (v : Z), In (a, v) inp0 -> a <> eof) ->
         vinv g act aut inp0 stk inp reds ->
         match arun tab g act fuel stk inp pos reds with
         | RAcc v out =>
             exists t : vtree,
               vvalid g t /\
               Some (vroot g t) = hd_error (rhs_of g 0) /\ vyield t = inp0 /\ vpost t = out /\ v = veval act t
         | RCrash | RNil => False
         | _ => True
         end.
Proof. exact Values.arun_values. Qed.
Print Assumptions C06_no_crash.

From YG Require Import LRBase TableCert Pipeline PipelineRun Drivers DriverSim Values.
Close Scope Z_scope.
Open Scope nat_scope.

(* C06 (first half) and C07 for the parsers the pipeline emits, all five variants: whenever generate_tables succeeds, the packed lookups equal the dense cells and every state exposed by a reduction has a goto on the left-hand side, a parse never ends in a crash (index out of range) or a nil return - it accepts, reports a syntax error, or is still running - and an accepted parse returns the bottom-up evaluation of the actions over a valid parse tree of the whole input *)
Theorem C06_pipeline :
  forall gi : ginfo,
         (forall r d : nat, nth_error (rhs_of (gi_rules gi) r) d <> Some 0) ->
         lhs_of (gi_rules gi) 0 = 0 ->
         (forall r d : nat, nth_error (rhs_of (gi_rules gi) r) d <> Some eof) ->
         (exists S : nat, rhs_of (gi_rules gi) 0 = [S]) ->
         eof < gi_nsyms gi ->
         (forall (r : nat) (R : rule), nth_error (gi_rules gi) r = Some R -> lhs R < gi_nsyms gi) ->
         forall t : tables,
         generate_tables gi = inr t ->
         packed_agrees gi t ->
         (forall q r : nat,
          In (r, 0) (items (st (t_aut t) q)) ->
          r <> 0 ->
          r < length (gi_rules gi) ->
          exists q' : nat,
            gen_table (gi_rules gi) (t_aut t) (la_lookup (t_la t)) (sprec_of gi) (rprec_of gi) q
              (lhs_of (gi_rules gi) r) = Shift q') ->
         forall (v : variant) (act : semact) (fuel : nat) (inp : list tok),
         (forall x : tok, In x inp -> fst x <> eof /\ fst x < gi_nsyms gi) ->
         match parse v t (gi_rules gi) act fuel inp with
         | RAcc value out =>
             exists tr : vtree,
               vvalid (gi_rules gi) tr /\
               Some (vroot (gi_rules gi) tr) = hd_error (rhs_of (gi_rules gi) 0) /\
               vyield tr = inp /\ vpost tr = out /\ value = veval act tr
         | RCrash | RNil => False
         | _ => True
         end.
Proof. exact PipelineRun.pipeline_values. Qed.
Print Assumptions C06_pipeline.
