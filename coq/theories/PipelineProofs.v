(* Proofs about the executable pipeline (Pipeline.v): the packing layer as it is run and compared
   with the implementation (pack_matrix / unpack / compress / packed_lookup) is lossless. *)
From Coq Require Import List Arith ZArith Bool Lia Permutation.
Import ListNotations.
From YG Require Import LRBase PackCore Pipeline.

(* ---------- the row order: a stable sort of 0..rows-1 is a permutation of it ---------- *)
Lemma ins_desc_perm key x l : Permutation (ins_desc key x l) (x :: l).
Proof.
  induction l as [|y l IH]; cbn [ins_desc]; [reflexivity|].
  destruct (Nat.leb (key y) (key x)); [reflexivity|].
  rewrite IH. apply perm_swap.
Qed.
Lemma sort_desc_perm key l : Permutation (sort_desc key l) l.
Proof.
  unfold sort_desc. induction l as [|x l IH]; cbn [fold_right]; [reflexivity|].
  rewrite ins_desc_perm. constructor. exact IH.
Qed.
Lemma row_order_nodup m : NoDup (row_order m).
Proof. unfold row_order. eapply Permutation_NoDup; [symmetry; apply sort_desc_perm|apply seq_NoDup]. Qed.
Lemma row_order_full m i : i < length m -> In i (row_order m).
Proof.
  intro H. unfold row_order. eapply Permutation_in; [symmetry; apply sort_desc_perm|]. apply in_seq. lia.
Qed.

Lemma nth_map_seq0 {A} (f : nat -> A) n p d : p < n -> nth p (map f (seq 0 n)) d = f p.
Proof.
  intro H. rewrite (nth_indep _ d (f 0)) by (rewrite map_length, seq_length; exact H).
  rewrite map_nth, seq_nth by exact H. reflexivity.
Qed.

(* ---------- C05, matrices: UnPackTable (PackTable m) = m ---------- *)
Definition rectangular (m : list (list Z)) (cols : nat) : Prop := forall row, In row m -> length row = cols.

Lemma nth_ext_len {A} (l l' : list A) d : length l = length l' -> (forall i, i < length l -> nth i l d = nth i l' d) -> l = l'.
Proof.
  revert l'. induction l as [|x l IH]; intros [|y l'] Hlen H; cbn in Hlen; try discriminate; [reflexivity|].
  f_equal; [apply (H 0); cbn; lia|]. apply IH; [lia|]. intros i Hi. apply (H (S i)). cbn. lia.
Qed.

Theorem unpack_pack m cols : rectangular m cols ->
  let '(t, d, c) := pack_matrix m cols in unpack (length m) cols t d c = m.
Proof.
  intro Hrect. unfold pack_matrix. cbv zeta.
  set (order := row_order m). set (cell := cellz m). set (rows := length m).
  apply (nth_ext_len _ _ []).
  - unfold unpack. rewrite map_length, seq_length. reflexivity.
  - unfold unpack. rewrite map_length, seq_length. intros i Hi.
    rewrite nth_map_seq0 by exact Hi.
    apply (nth_ext_len _ _ 0%Z).
    + rewrite map_length, seq_length. symmetry. apply Hrect. apply nth_In. exact Hi.
    + rewrite map_length, seq_length. intros j Hj.
      rewrite nth_map_seq0 by exact Hj.
      rewrite nth_map_seq0 by exact Hi.
      pose proof (lookup_correct rows cols cell order (row_order_nodup m) (fun k Hk => row_order_full m k Hk) i j Hi Hj) as L.
      change (nth j (nth i m []) 0%Z) with (cell i j). rewrite <- L. unfold lookup.
      destruct ((D cols cell order i + Z.of_nat j <? 0)%Z) eqn:E1; cbn [orb]; [reflexivity|].
      rewrite Z.geb_leb.
      destruct ((Z.of_nat (length (C' cols cell order)) <=? D cols cell order i + Z.of_nat j)%Z) eqn:E2; cbn [orb]; [reflexivity|].
      destruct ((nth (Z.to_nat (D cols cell order i + Z.of_nat j)) (C' cols cell order) (-1) =? Z.of_nat i)%Z); reflexivity.
Qed.

(* ---------- C05, tables: the generated Action() over the packed arrays with the default vectors ---------- *)
Section Lookup.
Variables (dense : list (list Z)) (nterm nsyms : nat).
Let nstates := length dense.
Let p := compress dense nterm nsyms nstates.
Let m := blanked dense nterm nsyms.

Definition default_of (s a : nat) : Z :=
  if Nat.leb a nterm then nth s (act_defaults dense nterm) 0%Z else nth (a - S nterm) (goto_defaults dense nterm nsyms) 0%Z.

Lemma m_cell s a : s < nstates -> a < nsyms ->
  cellz m s a = if Z.eqb (cellz dense s a) (default_of s a) then 0%Z else cellz dense s a.
Proof.
  intros Hs Ha. unfold m, blanked, cellz at 1. rewrite nth_map_seq0 by exact Hs. rewrite nth_map_seq0 by exact Ha. reflexivity.
Qed.
Lemma m_len : length m = nstates.
Proof. unfold m, blanked. rewrite map_length, seq_length. reflexivity. Qed.

Hypothesis Hcols : 0 < nsyms.
(* no entry of the dense table is the blank marker 0 (shift targets and reduced rules are never 0) *)
Hypothesis Hnz : forall s a, s < nstates -> a < nsyms -> cellz dense s a <> 0%Z.
(* column 0 (the internal start symbol) is the error code in every row *)
Hypothesis Hcol0 : forall s, s < nstates -> cellz dense s 0 = err_code nstates.
(* no goto column can land on a negative slot (a boolean on the packed arrays, checked on every table) *)
Hypothesis Hgoto : forall s, s < nstates -> (0 <= nth s (p_off p) 0 + Z.of_nat (S nterm))%Z.

Theorem packed_lookup_correct s a : s < nstates -> a < nsyms -> packed_lookup p s a = cellz dense s a.
Proof.
  intros Hs Ha.
  set (order := row_order m). set (cell := cellz m).
  assert (Hs' : s < length m) by (rewrite m_len; exact Hs).
  pose proof (lookup_owner (length m) nsyms cell order (row_order_nodup m) (fun k Hk => row_order_full m k Hk) s a Hs' Ha) as [Lnz Lz].
  pose proof (lookup_owner (length m) nsyms cell order (row_order_nodup m) (fun k Hk => row_order_full m k Hk) s 0 Hs' Hcols) as [Lnz0 _].
  cbv zeta in Lnz, Lz, Lnz0.
  assert (Hoff : nth s (p_off p) 0%Z = D nsyms cell order s).
  { unfold p, compress, pack_matrix. fold m. cbv zeta. cbn [p_off]. rewrite nth_map_seq0 by exact Hs'. reflexivity. }
  assert (Hchk : p_chk p = C' nsyms cell order) by reflexivity.
  assert (Hact : p_act p = T' nsyms cell order) by reflexivity.
  assert (Hadef : p_adef p = act_defaults dense nterm) by reflexivity.
  assert (Hgdef : p_gdef p = goto_defaults dense nterm nsyms) by reflexivity.
  assert (Hdef : (if Nat.ltb (p_nterm p) a then nth (a - p_nterm p - 1) (p_gdef p) 0%Z else nth s (p_adef p) 0%Z) = default_of s a).
  { unfold default_of. rewrite Hadef, Hgdef. change (p_nterm p) with nterm.
    destruct (Nat.ltb_spec nterm a) as [H|H]; destruct (Nat.leb_spec a nterm) as [H'|H']; try (exfalso; lia); try reflexivity.
    replace (a - nterm - 1) with (a - S nterm) by lia. reflexivity. }
  unfold packed_lookup. cbv zeta. rewrite Hoff, Hchk, Hact, Hdef. change (p_err p) with (err_code nstates).
  pose proof (m_cell s a Hs Ha) as Hm. fold cell in Hm.
  destruct (Z.eqb_spec (cellz dense s a) (default_of s a)) as [Heq|Hne].
  - (* the cell equals its default: it was blanked *)
    specialize (Lz Hm).
    destruct (Z.ltb_spec (D nsyms cell order s + Z.of_nat a) 0) as [Hneg|Hpos].
    + (* negative slot: the answer is the error code; the default must be the error code too *)
      destruct (Nat.leb_spec a nterm) as [Hat|Hag].
      * assert (Hneg0 : (D nsyms cell order s + Z.of_nat 0 < 0)%Z) by lia.
        pose proof (m_cell s 0 Hs Hcols) as Hm0. fold cell in Hm0.
        destruct (Z.eqb_spec (cellz dense s 0) (default_of s 0)) as [Heq0|Hne0].
        -- rewrite Heq. unfold default_of in *. destruct (Nat.leb_spec a nterm) as [_|?]; [|lia].
           cbn [Nat.leb] in Heq0. rewrite <- Heq0. symmetry. apply Hcol0. exact Hs.
        -- exfalso. assert (Hc : cell s 0 <> 0%Z) by (rewrite Hm0; apply Hnz; [exact Hs|exact Hcols]).
           destruct (Lnz0 Hc) as [[Hge _] _]. lia.
      * exfalso. pose proof (Hgoto s Hs) as Hg. rewrite Hoff in Hg. lia.
    + destruct ((Z.of_nat (length (C' nsyms cell order)) <=? D nsyms cell order s + Z.of_nat a)%Z) eqn:E2; cbn [orb]; [symmetry; exact Heq|].
      apply Z.leb_gt in E2.
      destruct (Z.eqb_spec (nth (Z.to_nat (D nsyms cell order s + Z.of_nat a)) (C' nsyms cell order) (-1)%Z) (Z.of_nat s)) as [Hown|Hnown]; cbn [negb]; [|symmetry; exact Heq].
      exfalso. destruct Lz as [L|[L|L]]; [lia|lia|contradiction].
  - (* an explicit cell: it sits in a slot owned by its row *)
    assert (Hc : cell s a <> 0%Z) by (rewrite Hm; apply Hnz; [exact Hs|exact Ha]).
    destruct (Lnz Hc) as [[Hge Hlt] [Hown Hval]].
    destruct (Z.ltb_spec (D nsyms cell order s + Z.of_nat a) 0) as [Hneg|_]; [lia|].
    destruct (Z.leb_spec (Z.of_nat (length (C' nsyms cell order))) (D nsyms cell order s + Z.of_nat a)) as [Hbig|_]; [lia|]. cbn [orb].
    rewrite Hown, Z.eqb_refl. cbn [negb]. rewrite Hval. exact Hm.
Qed.
End Lookup.
