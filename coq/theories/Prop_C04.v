(* C04 - precedence / associativity / yacc defaults *)
From Coq Require Import List Arith ZArith Bool Permutation.
Import ListNotations.
From YG Require Import LRBase CompleteDriver LR0Build LR0Complete LASuperset LASubset LAExec LR0More C03Assembly C02Assembly TableCert Resolve PackCore DriverSim Values Oracle Productive SortOrder LexRoundtrip.

(* shift/reduce with precedence on both sides: higher wins, equal: left reduces, right shifts, nonassoc is an error; no warning *)
Theorem C04_sr_prec :
  forall (q r : nat) (ps pr : Z) (asc ar : Resolve.assoc),
         ps <> -1 ->
         pr <> -1 ->
         resolve [sh q ps asc; rd r pr ar] =
         Some
           (if pr >? ps
            then rd r pr ar
            else
             if pr <? ps
             then sh q ps asc
             else
              match ar with
              | LEFT =>
                  match asc with
                  | NONE => {| c_kind := KError; c_prec := pr; c_assoc := NONE |}
                  | _ => rd r pr ar
                  end
              | RIGHT =>
                  match asc with
                  | NONE => {| c_kind := KError; c_prec := pr; c_assoc := NONE |}
                  | _ => sh q ps asc
                  end
              | NONE => {| c_kind := KError; c_prec := pr; c_assoc := NONE |}
              end, false).
Proof. exact Resolve.C04_sr_prec. Qed.
Print Assumptions C04_sr_prec.

(* same level *)
Theorem C04_sr_same_level :
  forall (q r : nat) (p : Z) (a : Resolve.assoc),
         p <> -1 ->
         resolve [sh q p a; rd r p a] =
         Some
           (match a with
            | LEFT => rd r p a
            | RIGHT => sh q p a
            | NONE => {| c_kind := KError; c_prec := p; c_assoc := NONE |}
            end, false).
Proof. exact Resolve.C04_sr_same_level. Qed.
Print Assumptions C04_sr_same_level.

(* without applicable precedence: shift, with a warning *)
Theorem C04_sr_default :
  forall (q r : nat) (ps pr : Z) (asc ar : Resolve.assoc),
         ps = -1 \/ pr = -1 -> resolve [sh q ps asc; rd r pr ar] = Some (sh q ps asc, true).
Proof. exact Resolve.C04_sr_default. Qed.
Print Assumptions C04_sr_default.

(* reduce/reduce without precedence: the rule defined first, with a warning *)
Theorem C04_rr_default :
  forall (r1 r2 : nat) (p1 p2 : Z) (a1 a2 : Resolve.assoc),
         p1 = -1 \/ p2 = -1 -> (r1 < r2)%nat -> resolve [rd r1 p1 a1; rd r2 p2 a2] = Some (rd r1 p1 a1, true).
Proof. exact Resolve.C04_rr_default. Qed.
Print Assumptions C04_rr_default.

From YG Require Import LRBase LR0Build Resolve TableCert Pipeline PipelineCell.
Close Scope Z_scope.
Open Scope nat_scope.

(* at the level of the emitted tables: every cell of the dense matrix, read the way the generated parsers read it, is the pairwise resolution of that cell's candidate actions (the shift, then the reductions whose lookahead set contains the symbol, in rule order) *)
Theorem C04_pipeline_cell :
  forall gi : ginfo,
         (forall r d : nat, nth_error (rhs_of (gi_rules gi) r) d <> Some 0) ->
         lhs_of (gi_rules gi) 0 = 0 ->
         (forall r d : nat, nth_error (rhs_of (gi_rules gi) r) d <> Some eof) ->
         (exists S : nat, rhs_of (gi_rules gi) 0 = [S]) ->
         forall t : tables,
         generate_tables gi = inr t ->
         forall q a : nat,
         q < length (t_aut t) ->
         a < gi_nsyms gi ->
         dense_action (length (t_aut t)) (t_dense t) q a =
         match
           resolve (candidates (gi_rules gi) (t_aut t) (la_lookup (t_la t)) (sprec_of gi) (rprec_of gi) q a)
         with
         | Some (w, _) => decode (c_kind w)
         | None => Error
         end.
Proof. exact PipelineCell.pipeline_cell. Qed.
Print Assumptions C04_pipeline_cell.

From YG Require Import LRBase LR0Build Resolve TableCert Pipeline PipelineCell.
Close Scope Z_scope.
Open Scope nat_scope.

(* a shift/reduce conflict cell of the emitted table in which token and rule both carry a precedence: higher wins; equal: %left reduces, %right shifts, %nonassoc is a syntax error *)
Theorem C04_pipeline_sr_prec :
  forall gi : ginfo,
         (forall r d : nat, nth_error (rhs_of (gi_rules gi) r) d <> Some 0) ->
         lhs_of (gi_rules gi) 0 = 0 ->
         (forall r d : nat, nth_error (rhs_of (gi_rules gi) r) d <> Some eof) ->
         (exists S : nat, rhs_of (gi_rules gi) 0 = [S]) ->
         forall (t : tables) (q a q' r : nat) (ps pr : Z) (asc ar : assoc),
         generate_tables gi = inr t ->
         q < length (t_aut t) ->
         a < gi_nsyms gi ->
         candidates (gi_rules gi) (t_aut t) (la_lookup (t_la t)) (sprec_of gi) (rprec_of gi) q a =
         [sh q' ps asc; rd r pr ar] ->
         ps <> (-1)%Z ->
         pr <> (-1)%Z ->
         r <> 0 ->
         dense_action (length (t_aut t)) (t_dense t) q a =
         (if (pr >? ps)%Z
          then Reduce r
          else
           if (pr <? ps)%Z
           then Shift q'
           else
            match ar with
            | LEFT => match asc with
                      | NONE => Error
                      | _ => Reduce r
                      end
            | RIGHT => match asc with
                       | NONE => Error
                       | _ => Shift q'
                       end
            | NONE => Error
            end).
Proof. exact PipelineCell.pipeline_sr_prec. Qed.
Print Assumptions C04_pipeline_sr_prec.

From YG Require Import LRBase LR0Build Resolve TableCert Pipeline PipelineCell.
Close Scope Z_scope.
Open Scope nat_scope.

(* without applicable precedence the cell shifts *)
Theorem C04_pipeline_sr_default :
  forall gi : ginfo,
         (forall r d : nat, nth_error (rhs_of (gi_rules gi) r) d <> Some 0) ->
         lhs_of (gi_rules gi) 0 = 0 ->
         (forall r d : nat, nth_error (rhs_of (gi_rules gi) r) d <> Some eof) ->
         (exists S : nat, rhs_of (gi_rules gi) 0 = [S]) ->
         forall (t : tables) (q a q' r : nat) (ps pr : Z) (asc ar : assoc),
         generate_tables gi = inr t ->
         q < length (t_aut t) ->
         a < gi_nsyms gi ->
         candidates (gi_rules gi) (t_aut t) (la_lookup (t_la t)) (sprec_of gi) (rprec_of gi) q a =
         [sh q' ps asc; rd r pr ar] ->
         ps = (-1)%Z \/ pr = (-1)%Z -> dense_action (length (t_aut t)) (t_dense t) q a = Shift q'.
Proof. exact PipelineCell.pipeline_sr_default. Qed.
Print Assumptions C04_pipeline_sr_default.

From YG Require Import LRBase LR0Build Resolve TableCert Pipeline PipelineCell.
Close Scope Z_scope.
Open Scope nat_scope.

(* a reduce/reduce conflict cell without applicable precedence reduces by the rule that comes first *)
Theorem C04_pipeline_rr_default :
  forall gi : ginfo,
         (forall r d : nat, nth_error (rhs_of (gi_rules gi) r) d <> Some 0) ->
         lhs_of (gi_rules gi) 0 = 0 ->
         (forall r d : nat, nth_error (rhs_of (gi_rules gi) r) d <> Some eof) ->
         (exists S : nat, rhs_of (gi_rules gi) 0 = [S]) ->
         forall (t : tables) (q a r1 r2 : nat) (p1 p2 : Z) (a1 a2 : assoc),
         generate_tables gi = inr t ->
         q < length (t_aut t) ->
         a < gi_nsyms gi ->
         candidates (gi_rules gi) (t_aut t) (la_lookup (t_la t)) (sprec_of gi) (rprec_of gi) q a =
         [rd r1 p1 a1; rd r2 p2 a2] ->
         p1 = (-1)%Z \/ p2 = (-1)%Z ->
         r1 < r2 -> r1 <> 0 -> dense_action (length (t_aut t)) (t_dense t) q a = Reduce r1.
Proof. exact PipelineCell.pipeline_rr_default. Qed.
Print Assumptions C04_pipeline_rr_default.

From YG Require Import Front FrontUsable FrontPrec.
Close Scope Z_scope.
Open Scope nat_scope.

(* which precedence a rule carries (visitor model): the symbol named by %prec - none at all if that symbol has no level - else the last right-hand-side symbol that has a level *)
Theorem C04_rule_precedence :
  forall (tab : idtab) (pl : list (nat * assoc_kw * name)) (r : ruledef) (v : vrule),
         visit_rule tab pl r = inr v ->
         v_prec v =
         (if is_nil (r_prec r)
          then last_level pl (rsyms (r_rhs r)) None
          else match pre_map pl (r_prec r) with
               | Some _ => Some (r_prec r)
               | None => None
               end) /\ v_action v = last_action (r_rhs r) [] /\ v_lhs v = r_lhs r /\ v_rhs v = rsyms (r_rhs r).
Proof. exact FrontPrec.visit_rule_prec. Qed.
Print Assumptions C04_rule_precedence.

From YG Require Import LRBase CompleteDriver LR0Build Resolve PackCore Pipeline PipelineRun Front WfGrammar YParser EndToEnd EndToEndWf.
Close Scope Z_scope.
Open Scope nat_scope.

(* from the bytes of the grammar file, with no side condition: every cell of the matrix the generator emits for a text is the resolution - by the precedences and associativities read from that text, else by the yacc defaults - of the candidates of that cell (C04_pipeline_sr_prec, C04_pipeline_sr_default, C04_pipeline_rr_default say what the resolution is) *)
Theorem C04_from_the_text :
  forall (s : list Ascii.ascii) (b : built) (t : tables),
         generate_text s = GOk b t ->
         forall q a : nat,
         q < length (t_aut t) ->
         a < gi_nsyms (b_gi b) ->
         dense_action (length (t_aut t)) (t_dense t) q a =
         match
           resolve
             (TableCert.candidates (gi_rules (b_gi b)) (t_aut t) (la_lookup (t_la t)) 
                (sprec_of (b_gi b)) (rprec_of (b_gi b)) q a)
         with
         | Some (w, _) => TableCert.decode (c_kind w)
         | None => Error
         end.
Proof. exact EndToEndWf.text_cell. Qed.
Print Assumptions C04_from_the_text.
