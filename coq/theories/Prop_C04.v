(* C04 - precedence / associativity / yacc defaults *)
From Coq Require Import List Arith ZArith Bool Permutation.
Import ListNotations.
From YG Require Import LRBase CompleteDriver LR0Build LR0Complete LASuperset LASubset LAExec LR0More C03Assembly C02Assembly TableCert Resolve PackCore DriverSim Values Oracle Productive SortOrder LexRoundtrip.

(* shift/reduce with precedence on both sides: higher wins, equal: left reduces, right shifts, nonassoc is an error; no warning *)
Theorem C04_sr_prec :
  forall (q r : nat) (ps pr : Z) (asc ar : Resolve.assoc),
         ps <> -1 ->
         pr <> -1 ->
         resolve [sh q ps asc; rd r pr ar] =
         Some
           (if pr >? ps
            then rd r pr ar
            else
             if pr <? ps
             then sh q ps asc
             else
              match ar with
              | LEFT =>
                  match asc with
                  | NONE => {| c_kind := KError; c_prec := pr; c_assoc := NONE |}
                  | _ => rd r pr ar
                  end
              | RIGHT =>
                  match asc with
                  | NONE => {| c_kind := KError; c_prec := pr; c_assoc := NONE |}
                  | _ => sh q ps asc
                  end
              | NONE => {| c_kind := KError; c_prec := pr; c_assoc := NONE |}
              end, false).
Proof. exact Resolve.C04_sr_prec. Qed.
Print Assumptions C04_sr_prec.

(* same level *)
Theorem C04_sr_same_level :
  forall (q r : nat) (p : Z) (a : Resolve.assoc),
         p <> -1 ->
         resolve [sh q p a; rd r p a] =
         Some
           (match a with
            | LEFT => rd r p a
            | RIGHT => sh q p a
            | NONE => {| c_kind := KError; c_prec := p; c_assoc := NONE |}
            end, false).
Proof. exact Resolve.C04_sr_same_level. Qed.
Print Assumptions C04_sr_same_level.

(* without applicable precedence: shift, with a warning *)
Theorem C04_sr_default :
  forall (q r : nat) (ps pr : Z) (asc ar : Resolve.assoc),
         ps = -1 \/ pr = -1 -> resolve [sh q ps asc; rd r pr ar] = Some (sh q ps asc, true).
Proof. exact Resolve.C04_sr_default. Qed.
Print Assumptions C04_sr_default.

(* reduce/reduce without precedence: the rule defined first, with a warning *)
Theorem C04_rr_default :
  forall (r1 r2 : nat) (p1 p2 : Z) (a1 a2 : Resolve.assoc),
         p1 = -1 \/ p2 = -1 -> (r1 < r2)%nat -> resolve [rd r1 p1 a1; rd r2 p2 a2] = Some (rd r1 p1 a1, true).
Proof. exact Resolve.C04_rr_default. Qed.
Print Assumptions C04_rr_default.
