(* From the bytes of a grammar file to the back-end theorems with no side condition left: whenever the model of the whole
   generator delivers tables for a text, the grammar object it built meets WfGrammar.wf_gi (FrontWf.front_wf, with its one
   hypothesis discharged by ParsedNames.parse_text_lhs), so soundness, exact LALR(1) lookaheads and completeness hold for it. *)
From Coq Require Import List Arith ZArith Lia Bool Ascii.
Import ListNotations.
From YG Require Import LRBase CompleteDriver LR0Build Productive Resolve TableCert LASuperset LASubset LAExec C03Assembly PackCore
  Pipeline PipelineRun PipelineLA Front FrontUsable ViablePrefix WfGrammar YParser EndToEnd EndToEndProofs FrontWf ParsedNames LR0More.

Theorem text_wf s b t : generate_text s = GOk b t -> wf_gi (b_gi b) = true.
Proof.
  intros H. apply generate_text_ok in H. destruct H as (a & Hp & Hf & _).
  apply (front_wf a b); [|exact Hf]. intros r Hr. apply (parse_text_lhs s a Hp r Hr).
Qed.

Lemma text_tables s b t : generate_text s = GOk b t -> generate_tables (b_gi b) = inr t.
Proof. intros H. apply generate_text_ok in H. destruct H as (a & _ & _ & Ht). exact Ht. Qed.

(* C01 from the text: an accepted token string has a derivation, the reductions are its rightmost derivation in reverse *)
Theorem text_sound s b t : generate_text s = GOk b t ->
  forall fuel w reds, (forall a, In a w -> a <> eof /\ a < gi_nsyms (b_gi b)) ->
  run fuel (dense_action (length (t_aut t)) (t_dense t)) (gi_rules (b_gi b)) [(0, eof)] w [] = Acc reds ->
  exists tr, valid (gi_rules (b_gi b)) tr /\ Some (root (gi_rules (b_gi b)) tr) = hd_error (rhs_of (gi_rules (b_gi b)) 0) /\ yield tr = w /\ post tr = reds.
Proof. intros H. apply (checked_sound (b_gi b) (text_wf s b t H) t (text_tables s b t H)). Qed.

(* C03 from the text: the lookahead sets are exactly the LALR(1) sets *)
Theorem text_lookaheads s b t : generate_text s = GOk b t ->
  forall q r a, q < length (t_aut t) -> r <> 0 ->
  In (r, length (rhs_of (gi_rules (b_gi b)) r)) (items (LRBase.st (t_aut t) q)) ->
  (In a (la_lookup (t_la t) q r) <-> LALR_LA (gi_rules (b_gi b)) (t_aut t) q (r, length (rhs_of (gi_rules (b_gi b)) r)) a).
Proof. intros H. apply (checked_lookaheads (b_gi b) (text_wf s b t H) t (text_tables s b t H)). Qed.

(* C02 from the text: when no cell has two candidates, every sentence is accepted with its own rightmost derivation *)
Theorem text_complete s b t : generate_text s = GOk b t ->
  (forall q a, length (candidates (gi_rules (b_gi b)) (t_aut t) (la_lookup (t_la t)) (sprec_of (b_gi b)) (rprec_of (b_gi b)) q a) <= 1) ->
  forall tr : tree, tvalid (gi_rules (b_gi b)) tr -> Some (root (gi_rules (b_gi b)) tr) = hd_error (rhs_of (gi_rules (b_gi b)) 0) ->
  (forall a, In a (yield tr) -> a < gi_nsyms (b_gi b)) ->
  exists fuel, run fuel (dense_action (length (t_aut t)) (t_dense t)) (gi_rules (b_gi b)) [(0, eof)] (yield tr) [] = Acc (post tr).
Proof. intros H. apply (checked_complete (b_gi b) (text_wf s b t H) t (text_tables s b t H)). Qed.

(* C06 from the text: the table the generator computes never lets the LR machine shift a token that cannot continue a sentence -
   whatever was read so far, followed by the shifted token, is the beginning of a sentence of the grammar *)
Lemma text_all_productive s b t : generate_text s = GOk b t ->
  forall X, exists z, terminal_string (gi_rules (b_gi b)) z /\ derives (gi_rules (b_gi b)) [X] z.
Proof.
  intros H X. set (gi := b_gi b). set (g := gi_rules gi).
  pose proof (text_wf s b t H) as Hwf. pose proof (tables_productive gi t (text_tables s b t H)) as Hu.
  destruct (is_nt_b g X) eqn:Ent.
  - apply (productive_derives g (is_term_of g)).
    + intros a Ha Hn. apply is_nt_b_spec in Hn. unfold is_term_of in Ha. fold g in Hn. rewrite Hn in Ha. discriminate.
    + destruct (classic_productive gi X) as [Hp|Hnp]; [exact Hp|]. exfalso.
      assert (Hin : In X (unproductive gi)).
      { apply unproductive_in. split; [|split; [exact Ent|exact Hnp]].
        apply is_nt_b_spec in Ent. destruct Ent as (r & R & HR & <-). apply (wf_lhs_ok gi Hwf r R HR). }
      rewrite Hu in Hin. destruct Hin.
  - exists [X]. split; [|constructor]. intros x [<-|[]] Hn. apply is_nt_b_spec in Hn. fold g in Hn. congruence.
Qed.

Theorem text_never_shifts_a_bad_token s b t : generate_text s = GOk b t ->
  let g := gi_rules (b_gi b) in
  let T := action_fun (b_gi b) (t_aut t) (t_la t) in
  forall n w stk a inp' reds q',
  nsteps n T g ([(0, eof)], w, []) = Some (stk, a :: inp', reds) -> T (top_state stk) a = Shift q' ->
  exists pre z, w = pre ++ a :: inp' /\ terminal_string g z /\ derives g [0] (pre ++ a :: z).
Proof.
  intros H g T. set (gi := b_gi b) in *.
  pose proof (text_wf s b t H) as Hwf. pose proof (text_tables s b t H) as Ht.
  pose proof (text_all_productive s b t H) as Hprod. fold gi g in Hprod.
  pose proof (wf_no_start_in_rhs gi Hwf) as H1. pose proof (wf_rule0_lhs gi Hwf) as H2. pose proof (wf_no_eof_in_rhs gi Hwf) as H3.
  pose proof (wf_rule0_rhs gi Hwf) as H4. pose proof (wf_eof_terminal gi Hwf) as H5.
  pose proof (wf_productive_all gi Hwf (tables_productive gi t Ht)) as H6. fold g in H1, H2, H3, H4, H5, H6.
  fold gi in Ht. revert T. revert Ht. unfold generate_tables. fold g. destruct (unproductive gi); [|discriminate].
  destruct (build g) as [aut|] eqn:Eb; [|discriminate]. intros Ht. inversion Ht; subst t. clear Ht. cbn [t_aut t_la]. set (T := action_fun gi aut (la_table g aut)).
  pose proof (build_structural g H1 H2 H3 aut Eb) as Hstruct.
  assert (Hglen : 0 < length g).
  { unfold rhs_of in H4. destruct (nth_error g 0) eqn:E; [|discriminate]. apply nth_error_Some. congruence. }
  destruct (build_more g Hglen (or_intror I) aut Eb) as (Hvalid & _).
  assert (Hitems : forall q r d, In (r, d) (items (LRBase.st aut q)) -> r < length g) by (intros q r d Hin; apply (Hvalid q (r, d) Hin)).
  pose proof (gen_table_cert g aut (la_lookup (la_table g aut)) (sprec_of gi) (rprec_of gi) Hitems (ex_intro _ _ H4) Hstruct) as Hcert.
  intros n w stk a inp' reds q'.
  apply (run_never_shifts_a_bad_token g aut (start_user g) T H1 H2 H3 H4 H5 H6 Eb Hcert Hprod).
Qed.

(* C04 from the text: every cell of the emitted matrix is the resolution of the candidates of that cell (shift, reductions with
   the lookahead), by the precedences read from the file *)
From YG Require Import PipelineCell PipelineConds.
Theorem text_cell s b t : generate_text s = GOk b t ->
  forall q a, q < length (t_aut t) -> a < gi_nsyms (b_gi b) ->
  dense_action (length (t_aut t)) (t_dense t) q a =
  match resolve (candidates (gi_rules (b_gi b)) (t_aut t) (la_lookup (t_la t)) (sprec_of (b_gi b)) (rprec_of (b_gi b)) q a) with
  | Some (w, _) => decode (c_kind w)
  | None => Error
  end.
Proof.
  intros H. pose proof (text_wf s b t H) as Hwf.
  apply (pipeline_cell (b_gi b) (wf_no_start_in_rhs _ Hwf) (wf_rule0_lhs _ Hwf) (wf_no_eof_in_rhs _ Hwf) (ex_intro _ _ (wf_rule0_rhs _ Hwf)) t (text_tables s b t H)).
Qed.

(* C05 from the text: the packed lookups equal the cells of the matrix as soon as no goto column can land on a negative slot
   (one boolean condition on the offset vector, evaluated on the arrays of every run); and an unknown token code is a syntax
   error in every state (C11) *)
Theorem text_packed_agrees s b t : generate_text s = GOk b t ->
  (forall q, q < length (t_aut t) -> (0 <= nth q (p_off (t_packed t)) 0 + Z.of_nat (S (gi_nterm (b_gi b))))%Z) ->
  packed_agrees (b_gi b) t.
Proof.
  intros H. pose proof (text_wf s b t H) as Hwf. pose proof (text_tables s b t H) as Ht.
  apply (packed_agrees_from_offsets (b_gi b) (wf_no_start_in_rhs _ Hwf) (wf_rule0_lhs _ Hwf) (wf_no_eof_in_rhs _ Hwf) (wf_rule0_rhs _ Hwf)
           (wf_eof_terminal _ Hwf) (wf_productive_all _ Hwf (tables_productive _ t Ht)) (wf_nsyms _ Hwf) t Ht).
Qed.

Theorem text_unknown_code_is_error s b t : generate_text s = GOk b t ->
  forall q, q < length (t_aut t) -> dense_action (length (t_aut t)) (t_dense t) q 0 = Error.
Proof.
  intros H. pose proof (text_wf s b t H) as Hwf. pose proof (text_tables s b t H) as Ht.
  apply (unknown_code_is_error (b_gi b) (wf_no_start_in_rhs _ Hwf) (wf_rule0_lhs _ Hwf) (wf_no_eof_in_rhs _ Hwf) (wf_rule0_rhs _ Hwf)
           (wf_eof_terminal _ Hwf) (wf_productive_all _ Hwf (tables_productive _ t Ht)) (wf_nsyms _ Hwf) t Ht).
Qed.

(* C08 from the text: all output variants (global / object, packed / plain table) compute the same thing on every input, once
   the packed lookups agree with the matrix (text_packed_agrees) *)
From YG Require Import Drivers DriverSim Values.
Theorem text_variants_agree s b t : generate_text s = GOk b t -> packed_agrees (b_gi b) t ->
  forall (v1 v2 : variant) (act : semact) (fuel : nat) (inp : list tok),
    (forall x, In x inp -> fst x < gi_nsyms (b_gi b)) ->
    parse v1 t (gi_rules (b_gi b)) act fuel inp = parse v2 t (gi_rules (b_gi b)) act fuel inp.
Proof.
  intros H. pose proof (text_wf s b t H) as Hwf.
  apply (pipeline_variants_agree (b_gi b) (wf_no_start_in_rhs _ Hwf) (wf_rule0_lhs _ Hwf) (wf_no_eof_in_rhs _ Hwf) (ex_intro _ _ (wf_rule0_rhs _ Hwf))
           (wf_nsyms _ Hwf) (wf_lhs_ok _ Hwf) t (text_tables s b t H)).
Qed.

(* C07 / C06 from the text: in every variant the value returned for an accepted input is the bottom-up evaluation of the actions
   over a parse tree of that input, and no run crashes or returns nil - the hypothesis of PipelineRun.pipeline_values (after every
   reduction there is a goto) is proved of every emitted table (GotoAfterReduce.goto_after_reduce) *)
From YG Require Import GotoAfterReduce.
Theorem text_values s b t : generate_text s = GOk b t -> packed_agrees (b_gi b) t ->
  forall (v : variant) (act : semact) (fuel : nat) (inp : list tok),
    (forall x, In x inp -> fst x <> eof /\ fst x < gi_nsyms (b_gi b)) ->
    match parse v t (gi_rules (b_gi b)) act fuel inp with
    | RAcc value out =>
        exists tr : vtree, vvalid (gi_rules (b_gi b)) tr /\ Some (vroot (gi_rules (b_gi b)) tr) = hd_error (rhs_of (gi_rules (b_gi b)) 0) /\
                           vyield tr = inp /\ vpost tr = out /\ value = veval act tr
    | RCrash | RNil => False
    | _ => True
    end.
Proof.
  intros H Hpk. pose proof (text_wf s b t H) as Hwf. pose proof (text_tables s b t H) as Ht.
  apply (pipeline_values (b_gi b) (wf_no_start_in_rhs _ Hwf) (wf_rule0_lhs _ Hwf) (wf_no_eof_in_rhs _ Hwf) (ex_intro _ _ (wf_rule0_rhs _ Hwf))
           (wf_nsyms _ Hwf) (wf_lhs_ok _ Hwf) t Ht Hpk).
  apply (goto_after_reduce (b_gi b) (wf_no_start_in_rhs _ Hwf) (wf_rule0_lhs _ Hwf) (wf_no_eof_in_rhs _ Hwf) (wf_rule0_rhs _ Hwf)
           (wf_eof_terminal _ Hwf) (wf_productive_all _ Hwf (tables_productive _ t Ht)) t Ht).
Qed.

(* C09 from the text: the automaton the tables are built on is the canonical LR(0) collection of the grammar object read from the file *)
From YG Require Import LR0NoDup LR0Complete.
Lemma tables_build gi t : generate_tables gi = inr t -> build (gi_rules gi) = Some (t_aut t).
Proof.
  unfold generate_tables. destruct (unproductive gi); [|discriminate].
  destruct (build (gi_rules gi)) as [aut|]; [|discriminate]. intros H. inversion H. reflexivity.
Qed.

Theorem text_canonical s b t : generate_text s = GOk b t ->
  let g := gi_rules (b_gi b) in let aut := t_aut t in
  items (LRBase.st aut 0) = closure g [(0, 0)] /\
  (forall q X q', goto aut q X = Some q' -> items (LRBase.st aut q') = closure g (advance g (items (LRBase.st aut q)) X)) /\
  (forall q it X, In it (items (LRBase.st aut q)) -> next_sym g it = Some X -> exists q', goto aut q X = Some q') /\
  (forall i j, i < length aut -> j < length aut -> items (LRBase.st aut i) = items (LRBase.st aut j) -> i = j) /\
  (forall q, q < length aut -> exists gamma, LASuperset.path aut 0 gamma q).
Proof.
  intros H g aut. pose proof (text_wf s b t H) as Hwf. pose proof (tables_build _ _ (text_tables s b t H)) as Hb. fold g aut in Hb.
  destruct (build_canonical_edges g (wf_rule0_lhs _ Hwf) (wf_no_eof_in_rhs _ Hwf) aut Hb) as [H0 He].
  assert (Hglen : 0 < length g).
  { pose proof (wf_rule0_rhs _ Hwf) as Hr. fold g in Hr. unfold rhs_of in Hr. destruct (nth_error g 0) eqn:E; [|discriminate]. apply nth_error_Some. congruence. }
  destruct (build_more g Hglen (or_intror I) aut Hb) as (_ & _ & _ & Hreach).
  split; [exact H0|]. split; [exact He|]. split; [intros q it X Hit Hn; apply (build_goto_complete g aut q it X Hb Hit Hn)|].
  split; [apply (proj2 (build_no_duplicate_states g aut Hb))|exact Hreach].
Qed.

(* C12 from the text: what a refusal of the generator means, stage by stage (the cases of `front a = inl e` are C12_visit_cases and
   C12_build_cases; `generate_tables` re-tests productivity on the grammar object, which `front` has tested already) *)
Theorem text_refusal s e : generate_text s = GFront e ->
  exists a, parse_text s = PAst a /\
    (front a = inl e \/ exists b l, front a = inr b /\ generate_tables (b_gi b) = inl (EUnproductive l) /\ e = FUnproductive l).
Proof.
  unfold generate_text. destruct (parse_text s) as [a| | | |]; try discriminate.
  destruct (front a) as [e0|b] eqn:Ef.
  - intros H. inversion H; subst e0. exists a. split; [reflexivity|left; exact Ef].
  - destruct (generate_tables (b_gi b)) as [[l|]|t] eqn:Eg; try discriminate.
    intros H. inversion H; subst e. exists a. split; [reflexivity|]. right. exists b, l. split; [exact Ef|split; [exact Eg|reflexivity]].
Qed.

Theorem text_too_many s : generate_text s = GTooMany ->
  exists a b, parse_text s = PAst a /\ front a = inr b /\ generate_tables (b_gi b) = inl ETooManyStates.
Proof.
  unfold generate_text. destruct (parse_text s) as [a| | | |]; try discriminate.
  destruct (front a) as [e0|b] eqn:Ef; [discriminate|].
  destruct (generate_tables (b_gi b)) as [[l|]|t] eqn:Eg; try discriminate.
  intros _. exists a, b. auto.
Qed.
