(* From the bytes of a grammar file to the back-end theorems with no side condition left: whenever the model of the whole
   generator delivers tables for a text, the grammar object it built meets WfGrammar.wf_gi (FrontWf.front_wf, with its one
   hypothesis discharged by ParsedNames.parse_text_lhs), so soundness, exact LALR(1) lookaheads and completeness hold for it. *)
From Coq Require Import List Arith ZArith Lia Bool Ascii.
Import ListNotations.
From YG Require Import LRBase CompleteDriver LR0Build Productive Resolve TableCert LASuperset LASubset LAExec C03Assembly PackCore
  Pipeline PipelineRun PipelineLA Front FrontUsable ViablePrefix WfGrammar YParser EndToEnd EndToEndProofs FrontWf ParsedNames.

Theorem text_wf s b t : generate_text s = GOk b t -> wf_gi (b_gi b) = true.
Proof.
  intros H. apply generate_text_ok in H. destruct H as (a & Hp & Hf & _).
  apply (front_wf a b); [|exact Hf]. intros r Hr. apply (parse_text_lhs s a Hp r Hr).
Qed.

Lemma text_tables s b t : generate_text s = GOk b t -> generate_tables (b_gi b) = inr t.
Proof. intros H. apply generate_text_ok in H. destruct H as (a & _ & _ & Ht). exact Ht. Qed.

(* C01 from the text: an accepted token string has a derivation, the reductions are its rightmost derivation in reverse *)
Theorem text_sound s b t : generate_text s = GOk b t ->
  forall fuel w reds, (forall a, In a w -> a <> eof /\ a < gi_nsyms (b_gi b)) ->
  run fuel (dense_action (length (t_aut t)) (t_dense t)) (gi_rules (b_gi b)) [(0, eof)] w [] = Acc reds ->
  exists tr, valid (gi_rules (b_gi b)) tr /\ Some (root (gi_rules (b_gi b)) tr) = hd_error (rhs_of (gi_rules (b_gi b)) 0) /\ yield tr = w /\ post tr = reds.
Proof. intros H. apply (checked_sound (b_gi b) (text_wf s b t H) t (text_tables s b t H)). Qed.

(* C03 from the text: the lookahead sets are exactly the LALR(1) sets *)
Theorem text_lookaheads s b t : generate_text s = GOk b t ->
  forall q r a, q < length (t_aut t) -> r <> 0 ->
  In (r, length (rhs_of (gi_rules (b_gi b)) r)) (items (LRBase.st (t_aut t) q)) ->
  (In a (la_lookup (t_la t) q r) <-> LALR_LA (gi_rules (b_gi b)) (t_aut t) q (r, length (rhs_of (gi_rules (b_gi b)) r)) a).
Proof. intros H. apply (checked_lookaheads (b_gi b) (text_wf s b t H) t (text_tables s b t H)). Qed.

(* C02 from the text: when no cell has two candidates, every sentence is accepted with its own rightmost derivation *)
Theorem text_complete s b t : generate_text s = GOk b t ->
  (forall q a, length (candidates (gi_rules (b_gi b)) (t_aut t) (la_lookup (t_la t)) (sprec_of (b_gi b)) (rprec_of (b_gi b)) q a) <= 1) ->
  forall tr : tree, tvalid (gi_rules (b_gi b)) tr -> Some (root (gi_rules (b_gi b)) tr) = hd_error (rhs_of (gi_rules (b_gi b)) 0) ->
  (forall a, In a (yield tr) -> a < gi_nsyms (b_gi b)) ->
  exists fuel, run fuel (dense_action (length (t_aut t)) (t_dense t)) (gi_rules (b_gi b)) [(0, eof)] (yield tr) [] = Acc (post tr).
Proof. intros H. apply (checked_complete (b_gi b) (text_wf s b t H) t (text_tables s b t H)). Qed.
