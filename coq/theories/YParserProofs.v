(* Proofs: the fuel given to the parser model is always enough.  Every loop of Parser.go (token definitions, precedence
   lists, type lists, the declaration section, the alternatives of a rule group, the list of rule groups) either leaves
   through its exit or moves on in the token stream; a token of kind EOF or Error makes every loop leave.  The measure
   is the number of tokens still to be delivered (pending replays of the look-back buffer included) plus one while the
   current token is not a stop token.  Hence parse_text never answers PFuelOut: the parser terminates on every text. *)
From Coq Require Import List Arith ZArith Bool Ascii Lia.
Import ListNotations.
From YG Require Import Lexer Front YParser.

Definition stopk (t : tok) : bool := kind_eqb (t_kind t) LxEOF || kind_eqb (t_kind t) LxError.
Definition pend (p : pstate) : nat := p_pc p + length (p_strm p).
Definition M (p : pstate) : nat := pend p + (if stopk (p_cur p) then 0 else 1).

(* the look-back buffer is in step with the current token: nothing to replay, slot 0 holds the current token *)
Definition W (p : pstate) : Prop := p_pc p = 0 /\ p_a0 p = p_cur p.
(* ... or exactly one token (slot 0) is waiting to be replayed *)
Definition W1 (p : pstate) : Prop := p_pc p <= 1 /\ (p_pc p = 0 -> p_a0 p = p_cur p).

Lemma W_W1 p : W p -> W1 p.
Proof. intros [H1 H2]; split; [lia | auto]. Qed.

Lemma kind_eqb_eq a b : kind_eqb a b = true -> a = b.
Proof. destruct a, b; simpl; intros H; try discriminate; reflexivity. Qed.

Lemma cur_is_nonstop p k : cur_is p k = true -> k <> LxEOF -> k <> LxError -> stopk (p_cur p) = false.
Proof.
  unfold cur_is, stopk; intros H H1 H2; apply kind_eqb_eq in H; rewrite H.
  destruct k; simpl; try reflexivity; congruence.
Qed.

Lemma not_stop_cases p : cur_is p LxEOF = false -> cur_is p LxError = false -> stopk (p_cur p) = false.
Proof. unfold cur_is, stopk; intros -> ->; reflexivity. Qed.

Lemma M_pnext_le p : M (pnext p) <= M p.
Proof.
  unfold M, pend, pnext; destruct p as [cur a0 a1 pc strm tl err defs]; simpl.
  destruct pc as [|k]; simpl.
  - destruct strm as [|t rest]; simpl.
    + destruct tl; simpl; lia.
    + destruct (stopk t), (stopk cur); simpl; lia.
  - match goal with |- context [stopk ?x] => destruct (stopk x) end; destruct (stopk cur); simpl; lia.
Qed.

Lemma M_pnext_lt p : stopk (p_cur p) = false -> S (M (pnext p)) <= M p.
Proof.
  unfold M, pend, pnext; destruct p as [cur a0 a1 pc strm tl err defs]; simpl; intros ->.
  destruct pc as [|k]; simpl.
  - destruct strm as [|t rest]; simpl.
    + destruct tl; simpl; lia.
    + destruct (stopk t); simpl; lia.
  - match goal with |- context [stopk ?x] => destruct (stopk x) end; simpl; lia.
Qed.

Lemma W_pnext p : W1 p -> W (pnext p).
Proof.
  unfold W1, W, pnext; destruct p as [cur a0 a1 pc strm tl err defs]; simpl; intros [H1 H2].
  destruct pc as [|[|k]]; simpl; try lia.
  - destruct strm; simpl; auto.
  - auto.
Qed.

Lemma pnext_pbackup p : W p -> pnext (pbackup p) = p.
Proof. unfold W, pnext, pbackup; destruct p as [cur a0 a1 pc strm tl err defs]; simpl; intros [-> ->]; reflexivity. Qed.

Lemma M_pdef p n : M (pdef p n) = M p.  Proof. reflexivity. Qed.
Lemma M_perror p : M (perror p) = M p.  Proof. reflexivity. Qed.
Lemma W_pdef p n : W p -> W (pdef p n).  Proof. auto. Qed.
Lemma W_perror p : W p -> W (perror p).  Proof. auto. Qed.
Lemma pnext_pdef p n : pnext (pdef p n) = pdef (pnext p) n.
Proof. unfold pnext, pdef; destruct p as [cur a0 a1 pc strm tl err defs]; simpl. destruct pc; simpl; [destruct strm; reflexivity | reflexivity]. Qed.
Lemma cur_pdef p n k : cur_is (pdef p n) k = cur_is p k.  Proof. reflexivity. Qed.

Lemma W_pexpect p k : W p -> W (pexpect p k).
Proof. unfold pexpect; intros H; destruct (cur_is p k); [apply W_pnext, W_W1, H | apply W_perror, H]. Qed.
Lemma M_pexpect p k : M (pexpect p k) <= M p.
Proof. unfold pexpect; destruct (cur_is p k); [apply M_pnext_le | rewrite M_perror; lia]. Qed.

(* ---- parse_tag ---- *)
Lemma parse_tag_ok p : W p -> W (snd (parse_tag p)) /\ M (snd (parse_tag p)) <= M p.
Proof.
  intros H; unfold parse_tag; destruct (cur_is p LxLAngle); simpl; [| split; [exact H | lia]].
  split.
  - apply W_pexpect, W_pnext, W_W1, W_pnext, W_W1, H.
  - pose proof (M_pexpect (pnext (pnext p)) LxRAngle); pose proof (M_pnext_le (pnext p)); pose proof (M_pnext_le p); lia.
Qed.

(* ---- token definitions ---- *)
Lemma tokendef_loop_ok : forall fuel tag p acc, W p -> M p < fuel ->
  exists l p', tokendef_loop fuel tag p acc = POk l p' /\ W p' /\ M p' <= M p.
Proof.
  induction fuel as [|f IH]; intros tag p acc HW HM; [lia|].
  cbn [tokendef_loop].
  destruct (cur_is p LxIdentifier) eqn:Eid.
  - assert (Hs : stopk (p_cur p) = false) by (apply (cur_is_nonstop _ _ Eid); discriminate).
    pose proof (M_pnext_lt p Hs) as H1.
    assert (HW1 : W (pnext p)) by (apply W_pnext, W_W1, HW).
    destruct (cur_is (pnext p) LxNumber) eqn:En.
    + assert (Hs1 : stopk (p_cur (pnext p)) = false) by (apply (cur_is_nonstop _ _ En); discriminate).
      edestruct (IH tag (pnext (pdef (pnext p) (t_value (p_cur p))))) as (l & p' & E & HW' & HM').
      * apply W_pnext, W_W1, W_pdef, HW1.
      * rewrite pnext_pdef, M_pdef. pose proof (M_pnext_lt _ Hs1). lia.
      * exists l, p'; split; [exact E | split; [exact HW' |]].
        rewrite pnext_pdef, M_pdef in HM'. pose proof (M_pnext_le (pnext p)). lia.
    + destruct (cur_is (pnext p) LxChar || cur_is (pnext p) LxString) eqn:Ec.
      * assert (Hs1 : stopk (p_cur (pnext p)) = false).
        { apply orb_true_iff in Ec; destruct Ec as [Ec|Ec]; apply (cur_is_nonstop _ _ Ec); discriminate. }
        edestruct (IH tag (pnext (pdef (pnext p) (t_value (p_cur p))))) as (l & p' & E & HW' & HM').
        -- apply W_pnext, W_W1, W_pdef, HW1.
        -- rewrite pnext_pdef, M_pdef. pose proof (M_pnext_lt _ Hs1). lia.
        -- exists l, p'; split; [exact E | split; [exact HW' |]].
           rewrite pnext_pdef, M_pdef in HM'. pose proof (M_pnext_le (pnext p)). lia.
      * replace (pnext (pdef (pbackup (pnext p)) (t_value (p_cur p)))) with (pdef (pnext p) (t_value (p_cur p))).
        2:{ change (pdef (pbackup (pnext p)) (t_value (p_cur p))) with (pbackup (pdef (pnext p) (t_value (p_cur p)))).
            symmetry; apply pnext_pbackup, W_pdef, HW1. }
        edestruct (IH tag (pdef (pnext p) (t_value (p_cur p)))) as (l & p' & E & HW' & HM').
        -- apply W_pdef, HW1.
        -- rewrite M_pdef; lia.
        -- exists l, p'; split; [exact E | split; [exact HW' |]]. rewrite M_pdef in HM'; lia.
  - destruct (cur_is p LxChar) eqn:Ech.
    + assert (Hs : stopk (p_cur p) = false) by (apply (cur_is_nonstop _ _ Ech); discriminate).
      edestruct (IH tag (pnext (pdef p (gen_temp_name (t_value (p_cur p)))))) as (l & p' & E & HW' & HM').
      * apply W_pnext, W_W1, W_pdef, HW.
      * rewrite pnext_pdef, M_pdef. pose proof (M_pnext_lt p Hs). lia.
      * exists l, p'; split; [exact E | split; [exact HW' |]].
        rewrite pnext_pdef, M_pdef in HM'. pose proof (M_pnext_le p). lia.
    + exists acc, p; split; [reflexivity | split; [exact HW | lia]].
Qed.

Lemma parse_tokendef_ok fuel p : W p -> stopk (p_cur p) = false -> M p <= fuel ->
  exists l p', parse_tokendef fuel p = POk l p' /\ W p' /\ M p' < M p.
Proof.
  intros HW Hs HM; unfold parse_tokendef.
  destruct (parse_tag (pnext p)) as [tag p1] eqn:Et.
  pose proof (parse_tag_ok (pnext p) (W_pnext _ (W_W1 _ HW))) as [HW1 HM1]; rewrite Et in HW1, HM1; simpl in HW1, HM1.
  pose proof (M_pnext_lt p Hs).
  destruct (tokendef_loop_ok fuel tag p1 [] HW1) as (l & p' & E & HW' & HM'); [lia|].
  exists l, p'; split; [exact E | split; [exact HW' | lia]].
Qed.

(* ---- precedence lists ---- *)
Lemma prec_loop_ok : forall fuel tag assoc p toks acc, W1 p -> M (pnext p) < fuel ->
  exists r p', prec_loop fuel tag assoc p toks acc = POk r p' /\ W p' /\ M p' <= M (pnext p).
Proof.
  induction fuel as [|f IH]; intros tag assoc p toks acc HW HM; [lia|].
  cbn [prec_loop].
  assert (HW1 : W (pnext p)) by (apply W_pnext, HW).
  destruct (cur_is (pnext p) LxIdentifier || cur_is (pnext p) LxChar) eqn:Ec.
  - assert (Hs1 : stopk (p_cur (pnext p)) = false).
    { apply orb_true_iff in Ec; destruct Ec as [Ec|Ec]; apply (cur_is_nonstop _ _ Ec); discriminate. }
    set (nm := if cur_is (pnext p) LxChar then gen_temp_name (t_value (p_cur (pnext p))) else t_value (p_cur (pnext p))).
    destruct (defined (pnext p) nm).
    + edestruct (IH tag assoc (pnext p)) as (r & p' & E & HW' & HM').
      * apply W_W1, HW1.
      * pose proof (M_pnext_lt _ Hs1); lia.
      * exists r, p'; split; [exact E | split; [exact HW' |]]. pose proof (M_pnext_le (pnext p)); lia.
    + edestruct (IH tag assoc (pdef (pnext p) nm)) as (r & p' & E & HW' & HM').
      * apply W_W1, W_pdef, HW1.
      * rewrite pnext_pdef, M_pdef. pose proof (M_pnext_lt _ Hs1); lia.
      * exists r, p'; split; [exact E | split; [exact HW' |]].
        rewrite pnext_pdef, M_pdef in HM'. pose proof (M_pnext_le (pnext p)); lia.
  - eexists _, _; split; [reflexivity | split; [exact HW1 | lia]].
Qed.

Lemma W1_pbackup p : W p -> W1 (pbackup p).
Proof. unfold W, W1, pbackup; destruct p; simpl; intros [-> _]; split; [lia | discriminate]. Qed.

Lemma parse_preclist_ok fuel p : W p -> stopk (p_cur p) = false -> M p <= fuel ->
  exists r p', parse_preclist fuel p = POk r p' /\ W p' /\ M p' < M p.
Proof.
  intros HW Hs HM; unfold parse_preclist.
  destruct (parse_tag (pnext p)) as [tag p1] eqn:Et.
  pose proof (parse_tag_ok (pnext p) (W_pnext _ (W_W1 _ HW))) as [HW1 HM1]; rewrite Et in HW1, HM1; simpl in HW1, HM1.
  pose proof (M_pnext_lt p Hs).
  edestruct (prec_loop_ok fuel tag) as (r & p' & E & HW' & HM').
  - apply W1_pbackup, HW1.
  - rewrite (pnext_pbackup _ HW1); lia.
  - rewrite (pnext_pbackup _ HW1) in HM'. exists r, p'; split; [exact E | split; [exact HW' | lia]].
Qed.

(* ---- type lists ---- *)
Lemma type_loop_ok : forall fuel tag p acc, W p -> M p < fuel ->
  exists l p', type_loop fuel tag p acc = POk l p' /\ W p' /\ M p' <= M p.
Proof.
  induction fuel as [|f IH]; intros tag p acc HW HM; [lia|].
  cbn [type_loop]. destruct (cur_is p LxIdentifier) eqn:Eid.
  - assert (Hs : stopk (p_cur p) = false) by (apply (cur_is_nonstop _ _ Eid); discriminate).
    pose proof (M_pnext_lt p Hs).
    edestruct (IH tag (pnext p)) as (l & p' & E & HW' & HM'); [apply W_pnext, W_W1, HW | lia |].
    exists l, p'; split; [exact E | split; [exact HW' | lia]].
  - exists acc, p; split; [reflexivity | split; [exact HW | lia]].
Qed.

Lemma parse_typelist_ok fuel p : W p -> stopk (p_cur p) = false -> M p <= fuel ->
  exists l p', parse_typelist fuel p = POk l p' /\ W p' /\ M p' < M p.
Proof.
  intros HW Hs HM; unfold parse_typelist.
  pose proof (M_pnext_lt p Hs).
  assert (HW0 : W (pnext p)) by (apply W_pnext, W_W1, HW).
  assert (Ht : exists tag p1, (if cur_is (pnext p) LxLAngle then parse_tag (pnext p) else ([], perror (pnext p))) = (tag, p1)
                              /\ W p1 /\ M p1 <= M (pnext p)).
  { destruct (cur_is (pnext p) LxLAngle).
    - destruct (parse_tag (pnext p)) as [tag p1] eqn:Et. pose proof (parse_tag_ok _ HW0) as [A B]; rewrite Et in A, B.
      exists tag, p1; auto.
    - exists [], (perror (pnext p)); split; [reflexivity | split; [apply W_perror, HW0 | rewrite M_perror; lia]]. }
  destruct Ht as (tag & p1 & -> & HW1 & HM1).
  destruct (type_loop_ok fuel tag p1 [] HW1) as (l & p' & E & HW' & HM'); [lia|].
  rewrite E. eexists _, _; split; [reflexivity|].
  destruct l; [split; [apply W_perror, HW' | rewrite M_perror; lia] | split; [exact HW' | lia]].
Qed.

(* ---- the declaration section ---- *)
Lemma declare_loop_ok : forall fuel p a, W p -> M p < fuel ->
  exists r p', declare_loop fuel p a = POk r p' /\ W p' /\ M p' <= M p.
Proof.
  induction fuel as [|f IH]; intros p a HW HM; [lia|].
  cbn [declare_loop].
  destruct (cur_is p LxEOF || cur_is p LxSection) eqn:E1.
  { eexists _, _; split; [reflexivity | split; [exact HW | lia]]. }
  destruct (cur_is p LxError) eqn:E2.
  { eexists _, _; split; [reflexivity | split; [apply W_perror, HW | rewrite M_perror; lia]]. }
  apply orb_false_iff in E1; destruct E1 as [E1 E1'].
  assert (Hs : stopk (p_cur p) = false) by (apply not_stop_cases; assumption).
  destruct (cur_is p LxToken).
  { destruct (parse_tokendef_ok f p HW Hs) as (l & p1 & E & HW1 & HM1); [lia|]. rewrite E.
    edestruct (IH p1) as (r & p' & E' & HW' & HM'); [exact HW1 | lia |].
    exists r, p'; split; [exact E' | split; [exact HW' | lia]]. }
  destruct (cur_is p LxLeft || cur_is p LxRight || cur_is p LxNone || cur_is p LxPrecedence).
  { destruct (parse_preclist_ok f p HW Hs) as ([toks precs] & p1 & E & HW1 & HM1); [lia|]. rewrite E.
    edestruct (IH p1) as (r & p' & E' & HW' & HM'); [exact HW1 | lia |].
    exists r, p'; split; [exact E' | split; [exact HW' | lia]]. }
  destruct (cur_is p LxType).
  { destruct (parse_typelist_ok f p HW Hs) as (l & p1 & E & HW1 & HM1); [lia|]. rewrite E.
    edestruct (IH p1) as (r & p' & E' & HW' & HM'); [exact HW1 | lia |].
    exists r, p'; split; [exact E' | split; [exact HW' | lia]]. }
  pose proof (M_pnext_lt p Hs).
  destruct (cur_is p LxStart).
  - assert (HW0 : W (pnext p)) by (apply W_pnext, W_W1, HW).
    destruct (cur_is (pnext p) LxIdentifier).
    + edestruct (IH (pnext (pnext p))) as (r & p' & E' & HW' & HM').
      * apply W_pnext, W_W1, HW0.
      * pose proof (M_pnext_le (pnext p)); lia.
      * exists r, p'; split; [exact E' | split; [exact HW' |]]. pose proof (M_pnext_le (pnext p)); lia.
    + edestruct (IH (pnext (perror (pnext p)))) as (r & p' & E' & HW' & HM').
      * apply W_pnext, W_W1, W_perror, HW0.
      * pose proof (M_pnext_le (perror (pnext p))); rewrite M_perror in *; lia.
      * exists r, p'; split; [exact E' | split; [exact HW' |]].
        pose proof (M_pnext_le (perror (pnext p))); rewrite M_perror in *; lia.
  - edestruct (IH (pnext p)) as (r & p' & E' & HW' & HM'); [apply W_pnext, W_W1, HW | lia |].
    exists r, p'; split; [exact E' | split; [exact HW' | lia]].
Qed.

(* ---- the alternatives of one rule group ---- *)
(* what one pass of the loop does with the buffer: read one token ahead, push both back, read the first again *)
Definition peek1 (p : pstate) : pstate := pnext (pbackup2 (pnext p) (p_cur p)).

Lemma peek1_facts p : W p ->
  p_cur (peek1 p) = p_cur p /\ p_pc (peek1 p) = 1 /\ W (pnext (peek1 p)) /\ M (pnext (peek1 p)) = M (pnext p) /\
  (forall n, W (pnext (pdef (peek1 p) n)) /\ M (pnext (pdef (peek1 p) n)) = M (pnext p)) /\
  W1 (peek1 p) /\ M (peek1 p) <= M p + 1 /\
  (kind_eqb (t_kind (p_cur (pnext p))) LxDefine = true -> M (peek1 p) <= M p).
Proof.
  unfold W, W1, peek1, pbackup2, pnext, pdef, M, pend; destruct p as [cur a0 a1 pc strm tl err defs]; simpl.
  intros [-> ->].
  destruct strm as [|t rest]; simpl.
  - destruct tl; simpl; repeat split; auto; try lia; try discriminate; destruct (stopk cur); simpl; lia.
  - repeat split; auto; try lia; try discriminate; destruct (stopk cur); simpl; lia.
Qed.

Definition rule_exit_ok (p p' : pstate) : Prop :=
  W1 p' /\ (M p' <= M p \/ (M p' <= M p + 1 /\ cur_is p' LxIdentifier = false)).

Lemma rule_loop_ok : forall fuel lhs p a, W p -> M p < fuel ->
  (exists p', rule_loop fuel lhs p a = RNone p') \/
  (exists rs toks p', rule_loop fuel lhs p a = RSome rs toks p' /\ rule_exit_ok p p').
Proof.
  induction fuel as [|f IH]; intros lhs p a HW HM; [lia|].
  cbn [rule_loop]. fold (peek1 p).
  destruct (peek1_facts p HW) as (Hcur & Hpc & HWn & HMn & Hdef & HW1 & HM1 & HMdef).
  assert (Hci : forall k, cur_is (peek1 p) k = cur_is p k) by (intros k; unfold cur_is; rewrite Hcur; reflexivity).
  pose proof (M_pnext_le p) as Hle.
  destruct (kind_eqb (t_kind (p_cur p)) LxEnd || kind_eqb (t_kind (p_cur p)) LxIdentifier && kind_eqb (t_kind (p_cur (pnext p))) LxDefine) eqn:Ex.
  { right. eexists _, _, _; split; [reflexivity|].
    rewrite Hci. destruct (cur_is p LxEnd) eqn:Eend.
    - assert (Hs : stopk (p_cur p) = false) by (apply (cur_is_nonstop _ _ Eend); discriminate).
      pose proof (M_pnext_lt p Hs). split; [apply W_W1, HWn | left; lia].
    - unfold cur_is in Eend. rewrite Eend in Ex. simpl in Ex. apply andb_true_iff in Ex; destruct Ex as [_ Ex].
      split; [exact HW1 | left; apply HMdef, Ex]. }
  clear Ex.
  (* one more symbol, action, bar or %prec: the loop goes on from a state further down the stream *)
  assert (Hgo : forall p1 a1, W p1 -> M p1 <= M (pnext p) -> stopk (p_cur p) = false ->
            (exists p', rule_loop f lhs p1 a1 = RNone p') \/
            (exists rs toks p', rule_loop f lhs p1 a1 = RSome rs toks p' /\ rule_exit_ok p p')).
  { intros p1 a1 HWp1 HMp1 Hs. pose proof (M_pnext_lt p Hs).
    destruct (IH lhs p1 a1 HWp1) as [[p' E] | (rs & toks & p' & E & HWp' & Hm)]; [lia | left; eauto |].
    right; exists rs, toks, p'; split; [exact E | split; [exact HWp' | left; destruct Hm as [Hm | [Hm _]]; lia]]. }
  rewrite !Hci.
  destruct (cur_is p LxChar) eqn:Ech.
  { assert (Hs : stopk (p_cur p) = false) by (apply (cur_is_nonstop _ _ Ech); discriminate).
    destruct (defined (peek1 p) (gen_temp_name (t_value (p_cur (peek1 p))))).
    - apply Hgo; [exact HWn | lia | exact Hs].
    - destruct (Hdef (gen_temp_name (t_value (p_cur (peek1 p))))) as [A B]. apply Hgo; [exact A | lia | exact Hs]. }
  destruct (cur_is p LxIdentifier) eqn:Eid.
  { apply Hgo; [exact HWn | lia | apply (cur_is_nonstop _ _ Eid); discriminate]. }
  destruct (cur_is p LxActionQuote) eqn:Eact.
  { apply Hgo; [exact HWn | lia | apply (cur_is_nonstop _ _ Eact); discriminate]. }
  destruct (cur_is p LxOr) eqn:Eor.
  { apply Hgo; [exact HWn | lia | apply (cur_is_nonstop _ _ Eor); discriminate]. }
  destruct (cur_is p LxPrec) eqn:Eprec.
  { assert (Hs : stopk (p_cur p) = false) by (apply (cur_is_nonstop _ _ Eprec); discriminate).
    pose proof (M_pnext_le (pnext (peek1 p))).
    destruct (cur_is (pnext (peek1 p)) LxIdentifier).
    - apply Hgo; [apply W_pnext, W_W1, HWn | lia | exact Hs].
    - destruct (cur_is (pnext (peek1 p)) LxChar).
      + apply Hgo; [apply W_pnext, W_W1, HWn | lia | exact Hs].
      + left; eauto. }
  right. eexists _, _, _; split; [reflexivity|].
  split; [exact HW1 | right; split; [exact HM1 | rewrite Hci; exact Eid]].
Qed.

Lemma M_pbackup_W1 p : W1 p -> W (pnext p) /\ M (pnext p) <= M p.
Proof. intros H; split; [apply W_pnext, H | apply M_pnext_le]. Qed.

(* ---- the list of rule groups ---- *)
Definition R (p : pstate) : nat := 2 * M p + (if cur_is p LxIdentifier then 1 else 0).

Lemma rules_loop_ok : forall fuel p rs toks, W1 p -> R p < fuel -> rules_loop fuel p rs toks <> None.
Proof.
  induction fuel as [|f IH]; intros p rs toks HW HR; [lia|].
  cbn [rules_loop]. unfold parse_rule.
  destruct (cur_is p LxIdentifier) eqn:Eid; [| discriminate].
  assert (Hs : stopk (p_cur p) = false) by (apply (cur_is_nonstop _ _ Eid); discriminate).
  pose proof (M_pnext_lt p Hs) as Hlt.
  unfold R in HR; rewrite Eid in HR.
  set (s0 := pexpect (pnext p) LxDefine).
  assert (HW0 : W s0) by (apply W_pexpect, W_pnext, HW).
  assert (HM0 : M s0 <= M (pnext p)) by apply M_pexpect.
  destruct (rule_loop_ok f (t_value (p_cur p)) s0 (mkRA [] [] [] []) HW0) as [[p' E] | (l & t & p' & E & HWp' & Hm)]; [lia | |].
  - rewrite E; discriminate.
  - rewrite E. apply IH; [exact HWp' |].
    unfold R. destruct Hm as [Hm | [Hm ->]]; [destruct (cur_is p' LxIdentifier) |]; lia.
Qed.

(* ---- the whole parser ---- *)
Lemma parse_tokens_fuel ts tl fuel : 2 * length ts + 8 <= fuel -> parse_tokens fuel ts tl <> PFuelOut.
Proof.
  intros HF; unfold parse_tokens.
  set (p0 := mkP zero_tok zero_tok zero_tok 0 ts tl false []).
  assert (HW0 : W p0) by (split; reflexivity).
  assert (HM0 : M p0 = length ts + 1) by (unfold M, pend, p0; simpl; lia).
  pose proof (M_pnext_le p0).
  destruct (declare_loop_ok fuel (pnext p0) (mkDA [] [] [] [] [] start_default)) as (r & p1 & E & HW1 & HM1);
    [apply W_pnext, W_W1, HW0 | lia |].
  rewrite E. destruct r as [d|]; [| discriminate].
  destruct (negb (cur_is p1 LxSection)); [discriminate|].
  pose proof (M_pnext_le p1).
  destruct (rules_loop fuel (pnext p1) [] []) as [[[rs extra] p2]|] eqn:Er.
  - destruct (negb (cur_is p2 LxSection) && negb (cur_is p2 LxEOF)); discriminate.
  - exfalso. revert Er. apply rules_loop_ok; [apply W_W1, W_pnext, W_W1, HW1 |].
    unfold R. destruct (cur_is (pnext p1) LxIdentifier); lia.
Qed.

Theorem parse_text_total s : parse_text s <> PFuelOut.
Proof. unfold parse_text. destruct (lex s) as [ts tl]. apply parse_tokens_fuel. lia. Qed.

(* more fuel changes nothing: any amount above the bound gives an answer, and it is the parser's answer *)
Theorem parse_text_answers s :
  exists r, parse_text s = r /\ (r = PNoDeclare \/ r = PNoSection \/ r = PBadRules \/ exists a, r = PAst a).
Proof.
  pose proof (parse_text_total s). destruct (parse_text s) eqn:E; eexists; split; eauto; try tauto.
Qed.
