(* C13 - generation terminates on every input text (placeholder layer: the transducer lexer of
   LexRoundtrip; superseded by the front-end model when it lands) *)
From Coq Require Import List Ascii.
Import ListNotations.
From YG Require Import LexRoundtrip.

(* the lexer model is a fold over the bytes: it is total, and lexing a concatenation is lexing the
   first part and continuing from the state reached - there is no way for it to stop consuming input *)
Theorem C13_lexer_total :
  forall (st : lstate) (a b : list ascii),
    run st (a ++ b) = (let '(s1, o1) := run st a in let '(s2, o2) := run s1 b in (s2, (o1 ++ o2)%list)).
Proof. exact LexRoundtrip.run_app. Qed.
Print Assumptions C13_lexer_total.
