(* C13 - generation terminates on every input text: the lexer *)
From Coq Require Import List Ascii Arith.
Import ListNotations.
From YG Require Import Lexer LexerProofs.

(* Lexer.lex_step mirrors one visit of rootState in Parser/Lex.go together with the state functions it dispatches
   to (comments, directives, %{ %}, %union { }, actions, character and string literals, identifiers, numbers);
   lex_root is the run loop of the lexer goroutine.  The model is compared token by token with the real lexer on
   every prefix and on random edits of grammar files on every run. *)

(* every return to rootState has consumed at least one byte of the input - whatever the bytes are *)
Theorem C13_lexer_progress :
  forall (carry s : list ascii) (ts : list tok) (carry' rest : list ascii),
    lex_step carry s = Cont ts carry' rest -> length rest < length s.
Proof. exact LexerProofs.lex_step_progress. Qed.
Print Assumptions C13_lexer_progress.

(* hence |input|+1 visits always suffice: the lexer never runs out of fuel, on any byte string *)
Theorem C13_lexer_total :
  forall s : list ascii, forall t : tok, In t (fst (lex s)) -> t_kind t <> LxFuel.
Proof. exact LexerProofs.lex_total. Qed.
Print Assumptions C13_lexer_total.

(* the token stream does not depend on the fuel once it exceeds the length of the input *)
Theorem C13_lexer_fuel_irrelevant :
  forall (f1 f2 : nat) (carry s : list ascii), length s < f1 -> length s < f2 -> lex_root f1 carry s = lex_root f2 carry s.
Proof. exact LexerProofs.lex_root_fuel_indep. Qed.
Print Assumptions C13_lexer_fuel_irrelevant.

(* and it is finite: at most |input|+2 tokens before the tail behaviour (EOF for ever / the error for ever) sets in,
   which bounds the number of tokens the parser can consume before it sees EOF or an error *)
Theorem C13_token_bound :
  forall (fuel : nat) (carry s : list ascii), length s < fuel -> length (fst (lex_root fuel carry s)) <= length s + 2.
Proof. exact LexerProofs.lex_root_length. Qed.
Print Assumptions C13_token_bound.

From YG Require Import Lexer YParser YParserProofs.
Close Scope Z_scope.
Open Scope nat_scope.

(* the parser model (every loop of Parser.go on fuel, the look-back buffer as it is) never runs out of the fuel 2*|tokens|+8: every loop leaves on EOF or Error and otherwise moves on in the token stream, so parsing ends on every byte string *)
Theorem C13_parser_total :
  forall s : list Ascii.ascii, parse_text s <> PFuelOut.
Proof. exact YParserProofs.parse_text_total. Qed.
Print Assumptions C13_parser_total.

From YG Require Import Lexer YParser YParserProofs.
Close Scope Z_scope.
Open Scope nat_scope.

(* ... for every token list and tail behaviour the lexer could deliver, and any larger amount of fuel *)
Theorem C13_parser_fuel :
  forall (ts : list tok) (tl : tail) (fuel : nat),
         2 * length ts + 8 <= fuel -> parse_tokens fuel ts tl <> PFuelOut.
Proof. exact YParserProofs.parse_tokens_fuel. Qed.
Print Assumptions C13_parser_fuel.

From YG Require Import Lexer YParser EndToEnd EndToEndProofs.
Close Scope Z_scope.
Open Scope nat_scope.

(* the model of the whole generator (bytes to tables) answers with a syntax verdict, a refusal, the state limit or tables; 'out of fuel in the parser' is never its answer *)
Theorem C13_generator_answers :
  forall s : list Ascii.ascii, generate_text s <> GSyntax PFuelOut.
Proof. exact EndToEndProofs.generate_text_never_out_of_fuel. Qed.
Print Assumptions C13_generator_answers.
