(* After every reduction the parser finds a goto: in every state that holds an initial item  A -> . w  (of a rule other than
   rule 0) the emitted table has a shift entry in the column of A.  This is the hypothesis of PipelineRun.pipeline_values
   (C07: values; C06: no crash, no nil result); it is proved here for every table the pipeline emits.
   Two halves: (1) an initial item is in a state because some item of that state has A after the dot (closure), so the
   automaton has a transition on A; (2) no reduction competes for a nonterminal column (lookaheads are terminals), so the
   cell is that transition. *)
From Coq Require Import List Arith ZArith Bool Lia.
Import ListNotations.
From YG Require Import LRBase CompleteDriver LR0Build LR0Complete LASuperset LASubset LR0More Resolve TableCert LAExec C03Assembly PackCore
  Pipeline PipelineRun PipelineLA PipelineConds.

Section Closure.
Variable g : grammar.

Lemma rules_for_lhs B x : In x (rules_for g B) -> snd x = 0 /\ lhs_of g (fst x) = B.
Proof.
  unfold rules_for. intros H. apply rules_for_aux_spec in H. destruct H as (Hs & _ & R & HR & HB).
  split; [exact Hs|]. unfold lhs_of. rewrite Nat.sub_0_r in HR. rewrite HR. exact HB.
Qed.

Lemma in_closure_in K it : NoDup K -> in_closure g K it -> In it (closure g K).
Proof.
  intros Hnd H. induction H as [x Hx|it x Hit IH Hx].
  - apply closure_ext. exact Hx.
  - unfold closure in *. rewrite isort_In in *. apply (closure_closed g K Hnd it x IH Hx).
Qed.

(* an item with the dot at the start that is not in the kernel was put there for a symbol after the dot of another item *)
Lemma closure_origin K x : NoDup K -> In x (closure g K) -> ~ In x K ->
  exists it, In it (closure g K) /\ next_sym g it = Some (lhs_of g (fst x)).
Proof.
  intros Hnd Hx Hk. apply closure_in in Hx. destruct Hx as [x Hx|it x Hit Hx]; [contradiction|].
  exists it. split; [apply in_closure_in; assumption|].
  unfold expand in Hx. destruct (next_sym g it) as [B|] eqn:En; [|destruct Hx].
  apply rules_for_lhs in Hx. destruct Hx as [_ <-]. reflexivity.
Qed.

Lemma advance_dot I X x : In x (advance g I X) -> snd x <> 0.
Proof.
  unfold advance. intros H. apply in_map_iff in H. destruct H as ([r d] & <- & _). cbn [snd]. lia.
Qed.

Theorem initial_item_has_goto aut q r : lhs_of g 0 = 0 -> (forall r d, nth_error (rhs_of g r) d <> Some eof) ->
  0 < length g -> build g = Some aut -> q < length aut ->
  In (r, 0) (items (LRBase.st aut q)) -> r <> 0 -> exists q', goto aut q (lhs_of g r) = Some q'.
Proof.
  intros Hl0 Hne Hglen Hb Hq Hin Hr.
  pose proof (build_loop_inv g Hl0 Hne _ _ _ _ (inv_init g Hl0) Hb) as (H0 & _ & _ & Hedges).
  pose proof (build_loop_inv2 g _ _ _ _ (inv2_init g Hglen (or_intror I)) Hb) as (_ & _ & _ & _ & Hpred).
  destruct (build_more g Hglen (or_intror I) aut Hb) as (_ & Hnodup & _ & _).
  assert (Hit : exists it, In it (items (LRBase.st aut q)) /\ next_sym g it = Some (lhs_of g r)).
  { destruct (Nat.eq_dec q 0) as [->|Hq0].
    - rewrite H0 in Hin |- *. apply (closure_origin [(0, 0)] (r, 0)); [constructor; [intros []|constructor] | exact Hin |].
      intros [E|[]]. inversion E. congruence.
    - destruct (Hpred q ltac:(lia)) as (p & X & _ & Hg). unfold goto in Hg. apply LR0Build.assoc_In in Hg.
      destruct (Hedges p X q Hg) as (_ & _ & _ & _ & Heq). rewrite Heq in Hin |- *.
      apply (closure_origin (advance g (items (LRBase.st aut p)) X) (r, 0)); [apply advance_nodup, Hnodup | exact Hin |].
      intros Hk. apply advance_dot in Hk. cbn [snd] in Hk. lia. }
  destruct Hit as (it & Hit & Hn). apply (build_goto_complete g aut q it _ Hb Hit Hn).
Qed.
End Closure.

Section Column.
Variable gi : ginfo.
Let g := gi_rules gi.
Hypothesis no_start_in_rhs : forall r d, nth_error (rhs_of g r) d <> Some 0.
Hypothesis rule0_lhs : lhs_of g 0 = 0.
Hypothesis no_eof_in_rhs : forall r d, nth_error (rhs_of g r) d <> Some eof.
Hypothesis rule0_rhs : rhs_of g 0 = [start_user g].
Hypothesis eof_terminal : ~ is_nt g eof.
Hypothesis productive_all : forall seq l, ~ is_nt g l -> exists b, first_seq g (seq ++ [l]) b.

Lemma nmem_in a l : TableCert.nmem a l = true -> In a l.
Proof.
  induction l as [|y l IH]; [discriminate|]. cbn [TableCert.nmem]. intros E. apply orb_true_iff in E.
  destruct E as [E|E]; [left; symmetry; apply Nat.eqb_eq; exact E | right; apply IH, E].
Qed.

(* no reduction competes for the column of a nonterminal: lookaheads are terminals *)
Lemma nt_column_no_reduce t : generate_tables gi = inr t -> forall s X, s < length (t_aut t) -> is_nt g X ->
  filter (fun r => TableCert.nmem X (la' (la_lookup (t_la t)) s r)) (complete_rules g (t_aut t) s) = [].
Proof.
  intros Ht s X Hs HX.
  assert (Hall : forall r, In r (complete_rules g (t_aut t) s) -> TableCert.nmem X (la' (la_lookup (t_la t)) s r) = false).
  { intros r Hr. unfold la'. destruct (Nat.eqb_spec r 0) as [->|Hr0].
    - cbn [TableCert.nmem]. rewrite orb_false_r. apply Nat.eqb_neq. intros ->. exact (eof_terminal HX).
    - destruct (TableCert.nmem X (la_lookup (t_la t) s r)) eqn:En; [|reflexivity]. exfalso.
      apply nmem_in in En.
      assert (Hit : In (r, length (rhs_of g r)) (items (LRBase.st (t_aut t) s))).
      { unfold complete_rules in Hr. apply in_map_iff in Hr. destruct Hr as ([r1 d1] & E1 & Hf). cbn [fst] in E1. subst r1.
        apply filter_In in Hf. destruct Hf as [Hin Hd]. cbn [fst snd] in Hd. apply Nat.eqb_eq in Hd. subst d1. exact Hin. }
      pose proof (pipeline_lookaheads_exact gi no_start_in_rhs rule0_lhs no_eof_in_rhs rule0_rhs eof_terminal productive_all t Ht s r X Hs Hr0 Hit) as Hex.
      apply Hex in En. destruct En as (gamma & _ & Hl). exact (lr1_terminal gi eof_terminal _ _ _ Hl HX). }
  induction (complete_rules g (t_aut t) s) as [|r l IH]; [reflexivity|]. cbn [filter].
  rewrite (Hall r (or_introl eq_refl)). apply IH. intros r' Hr'. apply Hall. right. exact Hr'.
Qed.

(* the hypothesis of pipeline_values, for every emitted table *)
Theorem goto_after_reduce t : generate_tables gi = inr t ->
  forall q r, In (r, 0) (items (LRBase.st (t_aut t) q)) -> r <> 0 -> r < length g ->
  exists q', gen_table g (t_aut t) (la_lookup (t_la t)) (sprec_of gi) (rprec_of gi) q (lhs_of g r) = Shift q'.
Proof.
  intros Ht q r Hin Hr Hrl. pose proof Ht as Ht0. revert Ht0.
  unfold generate_tables. fold g. destruct (unproductive gi); [|discriminate].
  destruct (build g) as [aut|] eqn:Eb; [|discriminate]. intros H. inversion H; subst t. clear H. cbn [t_aut t_la] in *.
  assert (Hglen : 0 < length g) by lia.
  assert (Hq : q < length aut).
  { destruct (Nat.lt_ge_cases q (length aut)) as [Hlt|Hge]; [exact Hlt|]. rewrite st_out in Hin by lia. destruct Hin. }
  destruct (initial_item_has_goto g aut q r rule0_lhs no_eof_in_rhs Hglen Eb Hq Hin Hr) as (q' & Hg).
  exists q'. unfold gen_table, candidates. rewrite Hg.
  assert (Hnt : is_nt g (lhs_of g r)).
  { unfold is_nt, lhs_of. destruct (nth_error g r) as [R|] eqn:ER; [exists r, R; auto|]. apply nth_error_None in ER. lia. }
  pose proof (nt_column_no_reduce _ Ht q (lhs_of g r) Hq Hnt) as Hf. cbn [t_aut t_la] in Hf. rewrite Hf.
  cbn [map app resolve resolve_from fst c_kind sh decode]. reflexivity.
Qed.
End Column.
