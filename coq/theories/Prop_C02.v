(* C02 - every sentence of an LALR(1) grammar is accepted *)
From Coq Require Import List Arith ZArith Bool Permutation.
Import ListNotations.
From YG Require Import LRBase CompleteDriver LR0Build LR0Complete LASuperset LASubset LAExec LR0More C03Assembly C02Assembly TableCert Resolve PackCore DriverSim Values Oracle Productive SortOrder LexRoundtrip.

(* if no cell of the generated table has two candidate actions (the grammar is LALR(1)), the machine accepts the yield of every valid parse tree, performing exactly its post-order as reductions *)
Theorem C02_complete :
  forall (g : grammar) (aut : automaton) (S0 : nat),
         (forall r d : nat, nth_error (rhs_of g r) d <> Some 0%nat) ->
         lhs_of g 0 = 0%nat ->
         (forall r d : nat, nth_error (rhs_of g r) d <> Some eof) ->
         rhs_of g 0 = [S0] ->
         ~ is_nt g eof ->
         (forall (seq : list nat) (l : nat), ~ is_nt g l -> exists b : nat, first_seq g (seq ++ [l]) b) ->
         build g = Some aut ->
         forall nullable_b : nat -> bool,
         (forall X : nat, nullable_b X = true <-> nullable g X) ->
         forall is_nt_b : nat -> bool,
         (forall X : nat, is_nt_b X = true <-> is_nt g X) ->
         forall sprec rprec : nat -> Z * Resolve.assoc,
         (forall q a : nat, (length (cands g aut S0 nullable_b is_nt_b sprec rprec q a) <= 1)%nat) ->
         forall t : tree,
         tvalid g t ->
         Some (root g t) = hd_error (rhs_of g 0) ->
         exists fuel : nat,
           LRBase.run fuel (C02Assembly.tab g aut S0 nullable_b is_nt_b sprec rprec) g [(
             0%nat, eof)] (yield t) [] = Acc (post t).
Proof. exact C02Assembly.C02_model. Qed.
Print Assumptions C02_complete.

From YG Require Import LRBase CompleteDriver LASuperset TableCert Pipeline PipelineLA.
Close Scope Z_scope.
Open Scope nat_scope.

(* C02 for the tables the pipeline emits: whenever generate_tables succeeds and no cell of the table has two candidate actions (shift and reduce, or two reduces, on one lookahead - i.e. the grammar is LALR(1), see C03_pipeline), the LR machine driven by the emitted dense matrix accepts the yield of every valid parse tree over the grammar's symbols and performs exactly its post-order as reductions *)
Theorem C02_pipeline :
  forall gi : ginfo,
         (forall r d : nat, nth_error (rhs_of (gi_rules gi) r) d <> Some 0) ->
         lhs_of (gi_rules gi) 0 = 0 ->
         (forall r d : nat, nth_error (rhs_of (gi_rules gi) r) d <> Some eof) ->
         rhs_of (gi_rules gi) 0 = [start_user (gi_rules gi)] ->
         ~ is_nt (gi_rules gi) eof ->
         (forall (seq : list nat) (l : nat),
          ~ is_nt (gi_rules gi) l -> exists b : nat, first_seq (gi_rules gi) (seq ++ [l]) b) ->
         eof < gi_nsyms gi ->
         (forall (r : nat) (R : rule), nth_error (gi_rules gi) r = Some R -> lhs R < gi_nsyms gi) ->
         forall t : tables,
         generate_tables gi = inr t ->
         (forall q a : nat,
          length (candidates (gi_rules gi) (t_aut t) (la_lookup (t_la t)) (sprec_of gi) (rprec_of gi) q a) <= 1) ->
         forall tr : tree,
         tvalid (gi_rules gi) tr ->
         Some (root (gi_rules gi) tr) = hd_error (rhs_of (gi_rules gi) 0) ->
         (forall a : nat, In a (yield tr) -> a < gi_nsyms gi) ->
         exists fuel : nat,
           run fuel (dense_action (length (t_aut t)) (t_dense t)) (gi_rules gi) [(0, eof)] (yield tr) [] =
           Acc (post tr).
Proof. exact PipelineLA.pipeline_complete. Qed.
Print Assumptions C02_pipeline.

From YG Require Import LRBase CompleteDriver Pipeline WfGrammar.
Close Scope Z_scope.
Open Scope nat_scope.

(* the same under the boolean well-formedness check of the grammar object alone (productivity follows from what generate_tables tests itself) *)
Theorem C02_checked :
  forall gi : ginfo,
         wf_gi gi = true ->
         forall t : tables,
         generate_tables gi = inr t ->
         (forall q a : nat,
          length
            (TableCert.candidates (gi_rules gi) (t_aut t) (la_lookup (t_la t)) (sprec_of gi) (rprec_of gi) q a) <=
          1) ->
         forall tr : tree,
         tvalid (gi_rules gi) tr ->
         Some (root (gi_rules gi) tr) = hd_error (rhs_of (gi_rules gi) 0) ->
         (forall a : nat, In a (yield tr) -> a < gi_nsyms gi) ->
         exists fuel : nat,
           run fuel (dense_action (length (t_aut t)) (t_dense t)) (gi_rules gi) [(0, eof)] (yield tr) [] =
           Acc (post tr).
Proof. exact WfGrammar.checked_complete. Qed.
Print Assumptions C02_checked.

From YG Require Import LRBase CompleteDriver LR0Build Resolve Pipeline PipelineRun Front WfGrammar YParser EndToEnd FrontWf ParsedNames EndToEndWf.
Close Scope Z_scope.
Open Scope nat_scope.

(* from the bytes of the grammar file: when no table cell has two candidates, every sentence of the grammar object built from the text is accepted with its own rightmost derivation in reverse *)
Theorem C02_from_the_text :
  forall (s : list Ascii.ascii) (b : built) (t : tables),
         generate_text s = GOk b t ->
         (forall q a : nat,
          length
            (TableCert.candidates (gi_rules (b_gi b)) (t_aut t) (la_lookup (t_la t)) 
               (sprec_of (b_gi b)) (rprec_of (b_gi b)) q a) <= 1) ->
         forall tr : tree,
         tvalid (gi_rules (b_gi b)) tr ->
         Some (root (gi_rules (b_gi b)) tr) = hd_error (rhs_of (gi_rules (b_gi b)) 0) ->
         (forall a : nat, In a (yield tr) -> a < gi_nsyms (b_gi b)) ->
         exists fuel : nat,
           run fuel (dense_action (length (t_aut t)) (t_dense t)) (gi_rules (b_gi b)) [(0, eof)] (yield tr) [] =
           Acc (post tr).
Proof. exact EndToEndWf.text_complete. Qed.
Print Assumptions C02_from_the_text.
