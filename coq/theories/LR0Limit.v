(* The 2000-state limit: the model's worklist stops with "too many states" exactly when the LR(0) collection it would
   build with unlimited fuel has 2000 states or more (Grammar.ComputeAllGoto panics when len(LR0Closure) >= 2000);
   below the limit the fuel is irrelevant. *)
From Coq Require Import List Arith Lia Bool.
Import ListNotations.
From YG Require Import LRBase LR0Build.

Lemma register_length g I : forall Xs sts gts, length sts <= length (fst (register g I Xs sts gts)).
Proof.
  induction Xs as [|X Xs IH]; intros sts gts; cbn [register]; [reflexivity|].
  destruct (find_state (closure g (advance g I X)) sts 0).
  - apply IH.
  - etransitivity; [|apply IH]. rewrite app_length. simpl. lia.
Qed.
Lemma set_gotos_length : forall sts i gts, length (set_gotos sts i gts) = length sts.
Proof. induction sts as [|s tl IH]; intros [|i] gts; simpl; auto. Qed.

Lemma build_loop_enough g : forall F sts i aut,
  build_loop F g sts i = Some aut ->
  length sts <= length aut /\ forall f, length aut - i < f -> build_loop f g sts i = Some aut.
Proof.
  induction F as [|F IH]; intros sts i aut H; [discriminate|].
  cbn [build_loop] in H. destruct (nth_error sts i) as [s|] eqn:En.
  - destruct (register g (items s) (syms_after g (items s)) sts []) as [sts' gts] eqn:Er.
    destruct (IH _ _ _ H) as [Hlen Hf].
    rewrite set_gotos_length in Hlen.
    pose proof (register_length g (items s) (syms_after g (items s)) sts []) as Hr. rewrite Er in Hr. cbn [fst] in Hr.
    assert (Hi : i < length sts) by (apply nth_error_Some; congruence).
    split; [lia|]. intros f Hlt. destruct f as [|f]; [lia|].
    cbn [build_loop]. rewrite En, Er. apply Hf. lia.
  - inversion H; subst aut. split; [lia|]. intros f Hlt. destruct f as [|f]; [lia|]. cbn [build_loop]. rewrite En. reflexivity.
Qed.

(* below the limit the answer does not depend on the fuel *)
Theorem build_fuel_irrelevant g F aut :
  build_loop F g [{| items := closure g [(0, 0)]; gotos := [] |}] 0 = Some aut -> length aut < 2000 -> build g = Some aut.
Proof. intros H Hl. unfold build. apply (proj2 (build_loop_enough g F _ 0 aut H)). lia. Qed.

(* "too many states" means: 2000 states or more *)
Theorem build_none_means_many g F aut :
  build g = None -> build_loop F g [{| items := closure g [(0, 0)]; gotos := [] |}] 0 = Some aut -> 2000 <= length aut.
Proof.
  intros Hn H. destruct (Nat.lt_ge_cases (length aut) 2000) as [Hl|Hl]; [|exact Hl].
  rewrite (build_fuel_irrelevant g F aut H Hl) in Hn. discriminate.
Qed.

(* and an automaton that is delivered has fewer than 2000 states *)
Lemma build_loop_count g : forall F sts i aut, build_loop F g sts i = Some aut -> i <= length sts -> length aut < i + F.
Proof.
  induction F as [|F IH]; intros sts i aut H Hi; [discriminate|].
  cbn [build_loop] in H. destruct (nth_error sts i) as [s|] eqn:En.
  - destruct (register g (items s) (syms_after g (items s)) sts []) as [sts' gts] eqn:Er.
    pose proof (register_length g (items s) (syms_after g (items s)) sts []) as Hr. rewrite Er in Hr. cbn [fst] in Hr.
    assert (Hi' : i < length sts) by (apply nth_error_Some; congruence).
    pose proof (IH _ _ _ H) as Hc. rewrite set_gotos_length in Hc. specialize (Hc ltac:(lia)). lia.
  - inversion H; subst aut. apply nth_error_None in En. lia.
Qed.
Theorem build_some_below_limit g aut : build g = Some aut -> length aut < 2000.
Proof. intros H. apply (build_loop_count g 2000 _ 0 aut H). simpl. lia. Qed.
