(* Originally a design-phase spike: the other half of C03 - every lookahead produced by
   DR / reads / includes / lookback (with path conditions) is an LR(1) lookahead of some
   access path of the state, i.e. belongs to the LALR(1) set. *)
From Coq Require Import List Arith Lia Bool Relations.
Import ListNotations.
From YG Require Import LRBase CompleteDriver LR0Build LASuperset.

Section Sub.
Variables (g : grammar) (aut : automaton) (S0 : nat).

Inductive in_closure (K : list item) : item -> Prop :=
| ic_k x : In x K -> in_closure K x
| ic_s it x : in_closure K it -> In x (expand g it) -> in_closure K x.

(* canonical LR(1) items over access paths (Spec vocabulary of the design) *)
Inductive lr1 : list nat -> item -> nat -> Prop :=
| lr1_init : lr1 [] (0, 0) eof
| lr1_goto gamma r d X t : lr1 gamma (r, d) t -> nth_error (rhs_of g r) d = Some X -> lr1 (gamma ++ [X]) (r, S d) t
| lr1_clos gamma r d B r' R' t b : lr1 gamma (r, d) t -> nth_error (rhs_of g r) d = Some B ->
    nth_error g r' = Some R' -> lhs R' = B -> first_seq g (skipn (S d) (rhs_of g r) ++ [t]) b -> lr1 gamma (r', 0) b.

(* facts about the automaton (C09) and the grammar (C12) *)
Hypothesis HA0 : forall x, In x (items (st aut 0)) -> in_closure [(0, 0)] x.
Hypothesis HA_edge : forall q X q', goto aut q X = Some q' -> forall x, In x (items (st aut q')) -> in_closure (advance g (items (st aut q)) X) x.
Hypothesis HA_just : forall q X q', goto aut q X = Some q' -> exists it, In it (items (st aut q)) /\ next_sym g it = Some X.
Hypothesis HA_reach : forall q X q', goto aut q X = Some q' -> exists gamma, path aut 0 gamma q.
Hypothesis first_nonempty : forall seq l, ~ is_nt g l -> exists b, first_seq g (seq ++ [l]) b.
Hypothesis eof_terminal : ~ is_nt g eof.
Hypothesis rule0_rhs : rhs_of g 0 = [S0].

Lemma path_snoc_inv p a X q : path aut p (a ++ [X]) q -> exists q1, path aut p a q1 /\ goto aut q1 X = Some q.
Proof.
  revert p; induction a as [|Y a IH]; simpl; intros p H.
  - destruct H as (p1 & Hg & <-). exists p; auto.
  - destruct H as (p1 & Hg & H). destruct (IH _ H) as (q1 & H1 & H2). exists q1. split; auto. exists p1; auto.
Qed.
Lemma path_app2 p a b q1 q : path aut p a q1 -> path aut q1 b q -> path aut p (a ++ b) q.
Proof. revert p; induction a as [|Y a IH]; simpl; intros p H1 H2. - subst; auto. - destruct H1 as (p1 & Hg & H1). exists p1; split; auto. Qed.

Lemma expand_item it x : In x (expand g it) -> exists R', snd x = 0 /\ nth_error g (fst x) = Some R' /\ next_sym g it = Some (lhs R').
Proof.
  unfold expand. destruct (next_sym g it) as [B|] eqn:HB; [|intros []].
  intros H. apply rules_for_aux_spec in H. destruct H as (H0 & Hr & R & HR & HBR).
  rewrite Nat.sub_0_r in HR. exists R. subst. auto.
Qed.

(* V: every item of a state has an LR(1) instance for every access path of that state *)
Lemma closure_lr1 gamma K : (forall x, In x K -> exists a, ~ is_nt g a /\ lr1 gamma x a) ->
  forall x, in_closure K x -> exists a, ~ is_nt g a /\ lr1 gamma x a.
Proof.
  intros HK x H. induction H as [x Hx | it x Hit IH Hx]; auto.
  destruct IH as (a & Ha & Hl). destruct it as [r d]. destruct x as [r' d'].
  apply expand_item in Hx. simpl in Hx. destruct Hx as (R' & -> & HR' & Hn).
  destruct (first_nonempty (skipn (S d) (rhs_of g r)) a Ha) as (b & Hb).
  exists b. split; [eapply first_seq_term; eauto|]. eapply lr1_clos; eauto.
Qed.

Lemma valid_items gamma : forall q, path aut 0 gamma q -> forall x, In x (items (st aut q)) -> exists a, ~ is_nt g a /\ lr1 gamma x a.
Proof.
  induction gamma as [|X gamma IH] using rev_ind; intros q Hp x Hx.
  - simpl in Hp. subst q. apply closure_lr1 with (K := [(0, 0)]); auto.
    intros y [<-|[]]. exists eof. split; auto. constructor.
  - apply path_snoc_inv in Hp. destruct Hp as (q1 & Hp1 & Hg).
    apply closure_lr1 with (K := advance g (items (st aut q1)) X); [|eapply HA_edge; eauto].
    intros y Hy. unfold advance in Hy. apply in_map_iff in Hy. destruct Hy as ([r d] & <- & Hf). simpl.
    apply filter_In in Hf. destruct Hf as [Hin Hn].
    destruct (IH q1 Hp1 _ Hin) as (a & Ha & Hl). exists a. split; auto.
    unfold has_next, next_sym in Hn. simpl in Hn. destruct (nth_error (rhs_of g r) d) as [Y|] eqn:E; [|discriminate].
    apply Nat.eqb_eq in Hn. subst Y. apply lr1_goto; auto.
Qed.

(* converse of first_RS: whatever can be read after nullable moves from s is in FIRST of the rest of some item of s *)
Definition rest (x : item) : list nat := skipn (snd x) (rhs_of g (fst x)).

Lemma rest_next x Y : next_sym g x = Some Y -> exists s, rest x = Y :: s /\ rest (fst x, S (snd x)) = s.
Proof.
  unfold next_sym, rest. destruct x as [r d]. simpl. generalize (rhs_of g r) as l. revert d.
  induction d as [|d IH]; intros [|y l] H; simpl in *; try discriminate.
  - inversion H. eauto. - apply IH; auto.
Qed.

Lemma closure_first K b : forall x, in_closure K x -> first_in g (rest x) b -> exists k, In k K /\ first_in g (rest k) b.
Proof.
  intros x H. induction H as [x Hx | it x Hit IH Hx]; intros Hf; [eauto|].
  apply IH. apply expand_item in Hx. destruct Hx as (R' & H0 & HR' & Hn).
  destruct (rest_next _ _ Hn) as (s & Hs & _). rewrite Hs. apply fin_here.
  apply fsym_n with (r := fst x); auto. unfold rest in Hf. rewrite H0 in Hf. simpl in Hf.
  unfold rhs_of in Hf. rewrite HR' in Hf. exact Hf.
Qed.

Lemma RS_first s b : RS g aut s b -> exists x, In x (items (st aut s)) /\ first_in g (rest x) b.
Proof.
  intros (s2 & s3 & Hp & Hb & Hg). apply clos_rt_rt1n in Hp.
  induction Hp as [s|s s' s2 (C & HC & HgC) Hp IH].
  - destruct (HA_just _ _ _ Hg) as (it & Hin & Hn). exists it. split; auto.
    destruct (rest_next _ _ Hn) as (l & Hl & _). rewrite Hl. apply fin_here, fsym_t; auto.
  - destruct (IH Hg) as (x & Hx & Hf).
    destruct (closure_first _ b x (HA_edge _ _ _ HgC _ Hx) Hf) as (k & Hk & Hfk).
    unfold advance in Hk. apply in_map_iff in Hk. destruct Hk as (it & <- & Hfl). apply filter_In in Hfl. destruct Hfl as [Hin Hn].
    exists it. split; auto. unfold has_next in Hn. destruct (next_sym g it) as [Y|] eqn:E; [|discriminate].
    apply Nat.eqb_eq in Hn. subst Y. destruct (rest_next _ _ E) as (l & Hl & Hl2). rewrite Hl. apply fin_skip; auto.
    rewrite <- Hl2. exact Hfk.
Qed.


Hypothesis HA_no0 : forall q X, goto aut q X <> Some 0.
Hypothesis HA_dot : forall q r d, In (r, d) (items (st aut q)) -> d <= length (rhs_of g r) /\ r < length g.

(* ---- first_in implies the leftmost-expansion first_seq ---- *)
Lemma nullable_ind' (P : nat -> Prop) :
  (forall r R, nth_error g r = Some R -> Forall (nullable g) (rhs R) -> Forall P (rhs R) -> P (lhs R)) ->
  forall X, nullable g X -> P X.
Proof.
  intros H. fix IH 2. intros X HX. destruct HX as [r R HR Hall]. apply (H r R HR Hall).
  induction Hall as [|Y l HY Hl IHl]; constructor; auto.
Qed.

Lemma null_first Y : nullable g Y -> forall s b, first_seq g s b -> first_seq g (Y :: s) b.
Proof.
  revert Y. apply (nullable_ind' (fun Y => forall s b, first_seq g s b -> first_seq g (Y :: s) b)).
  intros r R HR Hall IH s b Hs.
  apply fs_expand with (r := r) (R := R); auto.
  clear HR Hall. induction IH as [|Z l HZ _ IHl]; simpl; auto.
Qed.
Lemma null_seq_first s : nullable_seq g s -> forall s2 b, first_seq g s2 b -> first_seq g (s ++ s2) b.
Proof. induction 1; simpl; auto. intros. apply null_first; auto. Qed.

Lemma first_in_seq :
  (forall Y b, first_sym g Y b -> forall s, first_seq g (Y :: s) b) /\
  (forall seq b, first_in g seq b -> forall s, first_seq g (seq ++ s) b).
Proof.
  apply first_mutind.
  - intros a Ha s. constructor; auto.
  - intros r R b HR Hfi IH s. apply fs_expand with (r := r) (R := R); auto.
  - intros Y seq b Hfs IH s. simpl. apply IH.
  - intros Y seq b HY Hfi IH s. simpl. apply null_first; auto.
Qed.

Lemma first_term :
  (forall Y b, first_sym g Y b -> ~ is_nt g b) /\ (forall seq b, first_in g seq b -> ~ is_nt g b).
Proof. apply first_mutind; auto. Qed.

(* ---- Read, seen from the items of the source state ---- *)
Lemma Read_items x b : Read g aut S0 x b ->
  (exists r d, In (r, d) (items (st aut (fst x))) /\ nth_error (rhs_of g r) d = Some (snd x) /\ first_in g (rest (r, S d)) b) \/
  (x = (0, S0) /\ b = eof).
Proof.
  intros (y & Hy & Hdr).
  assert (H : (exists s, goto aut (fst x) (snd x) = Some s /\ RS g aut s b) \/ (x = (0, S0) /\ b = eof)).
  { apply clos_rt_rt1n in Hy. induction Hy as [x | x z y (Hg & Hnull & r2 & Hg2) Hy IH].
    - destruct Hdr as [(r & r2 & Hg & Hb & Hg2)|[-> ->]]; [left|right; auto].
      exists r. split; auto. exists r, r2. split; [apply rt_refl|auto].
    - left. destruct (IH Hdr) as [(s & Hgs & Hrs)|[-> _]].
      + exists (fst z). split; auto. destruct Hrs as (s2 & s3 & Hp & Hb & Hg3).
        exists s2, s3. split; auto. eapply rt_trans; [apply rt_step; exists (snd z); eauto|exact Hp].
      + exfalso. simpl in Hg. apply (HA_no0 _ _ Hg). }
  destruct H as [(s & Hg & Hrs)|H]; [left|right; auto].
  destruct (RS_first _ _ Hrs) as (y0 & Hy0 & Hf).
  destruct (closure_first _ b y0 (HA_edge _ _ _ Hg _ Hy0) Hf) as (k & Hk & Hfk).
  unfold advance in Hk. apply in_map_iff in Hk. destruct Hk as ([r d] & <- & Hfl). apply filter_In in Hfl. destruct Hfl as [Hin Hn].
  exists r, d. split; auto. split; auto.
  unfold has_next, next_sym in Hn. simpl in Hn. destruct (nth_error (rhs_of g r) d) as [Y|]; [|discriminate].
  apply Nat.eqb_eq in Hn. subst; auto.
Qed.

Lemma lr1_gotos gamma r t : lr1 gamma (r, 0) t -> forall d, d <= length (rhs_of g r) -> lr1 (gamma ++ firstn d (rhs_of g r)) (r, d) t.
Proof.
  intros H d. induction d as [|d IH]; intros Hd.
  - simpl. rewrite app_nil_r. auto.
  - destruct (nth_error (rhs_of g r) d) as [X|] eqn:E; [|apply nth_error_None in E; lia].
    rewrite (firstn_S_nth _ _ _ E), app_assoc. apply lr1_goto; auto. apply IH. lia.
Qed.

(* F: a Follow lookahead of a transition (p,A) is an LR(1) lookahead, for one access path of p, of every A-rule *)
Lemma Follow_lr1 x t : Follow g aut S0 x t -> (exists q', goto aut (fst x) (snd x) = Some q') ->
  ~ is_nt g t /\ exists gamma, path aut 0 gamma (fst x) /\
    forall r R, nth_error g r = Some R -> lhs R = snd x -> lr1 gamma (r, 0) t.
Proof.
  intros (y & Hy & Hrd). apply clos_rt_rt1n in Hy. induction Hy as [x | x z y Hinc Hy IH]; intros (q' & Hq').
  - destruct (Read_items _ _ Hrd) as [(r1 & d1 & Hin & Hn & Hf)|[-> ->]].
    + destruct (HA_reach _ _ _ Hq') as (gamma & Hp).
      destruct (valid_items gamma _ Hp _ Hin) as (a & Ha & Hl).
      split; [apply (proj2 first_term _ _ Hf)|]. exists gamma. split; auto.
      intros r R HR HA. eapply lr1_clos; eauto. apply (proj2 first_in_seq _ _ Hf).
    + split; auto. exists []. split; [reflexivity|]. intros r R HR HA. simpl in HA.
      eapply lr1_clos with (r := 0) (d := 0); eauto; [constructor|rewrite rule0_rhs; simpl; congruence|].
      rewrite rule0_rhs. simpl. constructor; auto.
  - destruct Hinc as (r0 & R0 & d & HR0 & Hr0 & HB & Hn & Hnull & Hpath & Hgz).
    destruct (IH Hrd Hgz) as (Ht & gamma' & Hp' & Hall).
    split; auto. exists (gamma' ++ firstn d (rhs R0)). split; [eapply path_app2; eauto|].
    intros r R HR HA.
    assert (Hrhs : rhs_of g r0 = rhs R0) by (unfold rhs_of; rewrite HR0; auto).
    assert (Hd : d <= length (rhs_of g r0)).
    { rewrite Hrhs. apply Nat.lt_le_incl. apply nth_error_Some. congruence. }
    pose proof (lr1_gotos _ _ _ (Hall r0 R0 HR0 HB) d Hd) as Hl. rewrite Hrhs in Hl.
    eapply lr1_clos; eauto; [rewrite Hrhs; exact Hn|].
    rewrite Hrhs. apply null_seq_first; auto. constructor; auto.
Qed.

(* C03, inclusion "computed subset of LALR(1)": every lookahead the relations attach to an item of a state
   is the lookahead of an LR(1) item for some access path of that state *)
Theorem LAm_sub_LALR q r d t : back_ok g aut -> In (r, d) (items (st aut q)) -> LAm g aut S0 q (r, d) t ->
  exists gamma, path aut 0 gamma q /\ lr1 gamma (r, d) t.
Proof.
  intros Hback Hin (p & Hp & Hc). simpl in Hp, Hc. destruct (HA_dot _ _ _ Hin) as [Hd Hr].
  destruct Hc as [(-> & -> & ->)|(Hr0 & Hf)].
  - exists (firstn d (rhs_of g 0)). split; auto.
    change (firstn d (rhs_of g 0)) with ([] ++ firstn d (rhs_of g 0)). apply lr1_gotos; auto. constructor.
  - destruct (Follow_lr1 _ _ Hf (Hback _ _ _ _ Hin Hp Hr0)) as (_ & gamma & Hp0 & Hall). simpl in *.
    destruct (nth_error g r) as [R|] eqn:HR; [|apply nth_error_None in HR; lia].
    exists (gamma ++ firstn d (rhs_of g r)). split; [eapply path_app2; eauto|].
    apply lr1_gotos; auto. apply (Hall r R HR). unfold lhs_of. rewrite HR. auto.
Qed.

End Sub.

Print Assumptions LAm_sub_LALR.
