(* C05 from the text, with the condition on the offset vector replaced by a statement about the matrix alone: if every state
   has an action other than the error action on some terminal column, the packed lookups equal the dense cells. *)
From Coq Require Import List Arith ZArith Lia Bool.
Import ListNotations.
From YG Require Import LRBase CompleteDriver LR0Build Resolve PackCore Pipeline PipelineRun PipelineConds PackOffsets Front WfGrammar YParser EndToEnd EndToEndWf.
Close Scope Z_scope.
Open Scope nat_scope.

Theorem text_packed_agrees_actions s b t : generate_text s = GOk b t ->
  (forall q, q < length (t_aut t) ->
     exists a, a <= gi_nterm (b_gi b) /\ a < gi_nsyms (b_gi b) /\ cellz (t_dense t) q a <> err_code (length (t_aut t))) ->
  packed_agrees (b_gi b) t.
Proof.
  intros H Hact. apply (text_packed_agrees s b t H).
  pose proof (text_wf s b t H) as Hwf. pose proof (text_tables s b t H) as Ht.
  destruct (pipeline_cells (b_gi b) (wf_no_start_in_rhs _ Hwf) (wf_rule0_lhs _ Hwf) (wf_no_eof_in_rhs _ Hwf) (wf_rule0_rhs _ Hwf)
           (wf_eof_terminal _ Hwf) (wf_productive_all _ Hwf (tables_productive _ t Ht)) (wf_nsyms _ Hwf) t Ht) as [Hnz Hcol].
  pose proof (wf_nsyms _ Hwf) as Hns. unfold eof in Hns.
  revert Hact Hnz Hcol. revert Ht. unfold generate_tables.
  destruct (unproductive (b_gi b)); [|discriminate].
  destruct (build (gi_rules (b_gi b))) as [aut|]; [|discriminate].
  intro E. inversion E; subst t. clear E. cbn [t_aut t_dense t_packed].
  set (nst := length aut).
  set (dense := dense_of nst (gi_nsyms (b_gi b)) (action_fun (b_gi b) aut (la_table (gi_rules (b_gi b)) aut))).
  assert (Hlen : length dense = nst) by (unfold dense, dense_of; rewrite map_length, seq_length; reflexivity).
  intros Hact Hnz Hcol q Hq. rewrite <- Hlen in *.
  apply offsets_from_actions; auto. lia.
Qed.
