(* The well-formedness facts the back-end theorems assume about a grammar object, as ONE boolean check that is evaluated on
   every grammar object of every run (the implementation's and the model front end's), and the back-end theorems restated
   under that check alone:
     rule 0 is  0 -> [S];  no right-hand side mentions symbol 0 (the internal start symbol) or 1 (the end marker);
     every symbol of every rule is below nsyms;  the end marker is no left-hand side;  1 < nsyms.
   Productivity (every sequence of symbols followed by a terminal has a first terminal) follows from the check together
   with what generate_tables tests itself (no unproductive nonterminal). *)
From Coq Require Import List Arith ZArith Lia Bool.
Import ListNotations.
From YG Require Import LRBase CompleteDriver LR0Build Productive Resolve TableCert LASuperset LASubset LAExec C03Assembly PackCore
  Pipeline PipelineRun PipelineLA FrontUsable ViablePrefix.

Definition sym_ok (nsyms : nat) (x : nat) : bool := Nat.leb 2 x && Nat.ltb x nsyms.
Definition wf_gi (gi : ginfo) : bool :=
  let g := gi_rules gi in
  match g with
  | R0 :: rest =>
    Nat.eqb (lhs R0) 0 && (match rhs R0 with [s0] => sym_ok (gi_nsyms gi) s0 | _ => false end) &&
    forallb (fun R => Nat.ltb (lhs R) (gi_nsyms gi) && forallb (sym_ok (gi_nsyms gi)) (rhs R)) rest &&
    negb (is_nt_b g eof) && Nat.ltb eof (gi_nsyms gi)
  | [] => false
  end.

Section Wf.
Variable gi : ginfo.
Let g := gi_rules gi.
Hypothesis Hwf : wf_gi gi = true.

Lemma wf_parts : exists R0 rest S, g = R0 :: rest /\ lhs R0 = 0 /\ rhs R0 = [S] /\ sym_ok (gi_nsyms gi) S = true /\
  (forall R, In R rest -> lhs R < gi_nsyms gi /\ forall x, In x (rhs R) -> 2 <= x < gi_nsyms gi) /\
  is_nt_b g eof = false /\ eof < gi_nsyms gi.
Proof.
  unfold wf_gi in Hwf. fold g in Hwf. destruct g as [|R0 rest] eqn:Eg; [discriminate|].
  apply andb_true_iff in Hwf. destruct Hwf as [H Heof]. apply andb_true_iff in H. destruct H as [H Hnt].
  apply andb_true_iff in H. destruct H as [H Hrest]. apply andb_true_iff in H. destruct H as [Hl Hr].
  destruct (rhs R0) as [|S [|S2 l]] eqn:Er; try discriminate.
  exists R0, rest, S. split; [reflexivity|]. split; [apply Nat.eqb_eq, Hl|]. split; [exact Er|]. split; [exact Hr|]. split.
  - intros R HR. rewrite forallb_forall in Hrest. specialize (Hrest R HR). apply andb_true_iff in Hrest. destruct Hrest as [A B].
    split; [apply Nat.ltb_lt, A|]. intros x Hx. rewrite forallb_forall in B. specialize (B x Hx). unfold sym_ok in B.
    apply andb_true_iff in B. destruct B as [B1 B2]. apply Nat.leb_le in B1. apply Nat.ltb_lt in B2. lia.
  - split; [apply negb_true_iff, Hnt | apply Nat.ltb_lt, Heof].
Qed.

Lemma rhs_syms r d x : nth_error (rhs_of g r) d = Some x -> 2 <= x < gi_nsyms gi.
Proof.
  destruct wf_parts as (R0 & rest & S & Eg & Hl & Hr & HS & Hrest & _).
  unfold rhs_of. rewrite Eg. destruct r as [|r]; cbn [nth_error].
  - rewrite Hr. destruct d as [|[|d]]; cbn [nth_error]; try discriminate. intros H; inversion H; subst x.
    unfold sym_ok in HS. apply andb_true_iff in HS. destruct HS as [A B]. apply Nat.leb_le in A. apply Nat.ltb_lt in B. lia.
  - destruct (nth_error rest r) as [R|] eqn:ER; [|destruct d; discriminate].
    intros H. apply nth_error_In in ER. apply nth_error_In in H. apply (proj2 (Hrest R ER) x H).
Qed.

Theorem wf_no_start_in_rhs : forall r d, nth_error (rhs_of g r) d <> Some 0.
Proof. intros r d H. apply rhs_syms in H. lia. Qed.
Theorem wf_no_eof_in_rhs : forall r d, nth_error (rhs_of g r) d <> Some eof.
Proof. intros r d H. apply rhs_syms in H. unfold eof in H. lia. Qed.
Theorem wf_rule0_lhs : lhs_of g 0 = 0.
Proof. destruct wf_parts as (R0 & rest & S & Eg & Hl & _). unfold lhs_of. rewrite Eg. exact Hl. Qed.
Theorem wf_rule0_rhs : rhs_of g 0 = [start_user g].
Proof.
  destruct wf_parts as (R0 & rest & S & Eg & _ & Hr & _). unfold start_user, rhs_of. rewrite Eg. cbn [nth_error]. rewrite Hr. reflexivity.
Qed.
Theorem wf_eof_terminal : ~ is_nt g eof.
Proof. destruct wf_parts as (_ & _ & _ & _ & _ & _ & _ & _ & Hnt & _). intro H. apply is_nt_b_spec in H. congruence. Qed.
Theorem wf_nsyms : eof < gi_nsyms gi.
Proof. destruct wf_parts as (_ & _ & _ & _ & _ & _ & _ & _ & _ & H). exact H. Qed.
Theorem wf_lhs_ok : forall r R, nth_error g r = Some R -> lhs R < gi_nsyms gi.
Proof.
  destruct wf_parts as (R0 & rest & S & Eg & Hl & _ & _ & Hrest & _ & Hn). intros r R H. rewrite Eg in H.
  destruct r as [|r]; cbn [nth_error] in H.
  - inversion H; subst R. rewrite Hl. unfold eof in Hn. lia.
  - apply nth_error_In in H. apply (proj1 (Hrest R H)).
Qed.

(* productivity: what generate_tables tests (no unproductive nonterminal) gives a first terminal to every sequence *)
Lemma productive_first X : productive g (is_term_of g) X ->
  forall s, (exists b, first_seq g s b) -> exists b, first_seq g (X :: s) b.
Proof.
  revert X. apply (productive_ind' g (is_term_of g) (fun X => forall s, (exists b, first_seq g s b) -> exists b, first_seq g (X :: s) b)).
  - intros a Ha s _. exists a. constructor. intro Hn. apply is_nt_b_spec in Hn. unfold is_term_of in Ha. rewrite Hn in Ha. discriminate.
  - intros r R HR _ Hall s Hs.
    assert (Hrs : exists b, first_seq g (rhs R ++ s) b).
    { induction Hall as [|Y l HY _ IH]; [exact Hs|]. cbn [app]. apply HY. exact IH. }
    destruct Hrs as [b Hb]. exists b. eapply fs_expand; eauto.
Qed.

Lemma classic_productive X : productive g (is_term_of g) X \/ ~ productive g (is_term_of g) X.
Proof.
  pose proof (productive_set_correct g (is_term_of g) X) as H.
  destruct (can (is_term_of g) (productive_set g (is_term_of g)) X); [left; apply H; reflexivity | right; intro Hp; apply H in Hp; discriminate].
Qed.

Theorem wf_productive_all : unproductive gi = [] ->
  forall seq l, ~ is_nt g l -> exists b, first_seq g (seq ++ [l]) b.
Proof.
  intros Hu seq l Hl. induction seq as [|X seq IH]; cbn [app].
  - exists l. constructor. exact Hl.
  - destruct (is_nt_b g X) eqn:Ent.
    + apply productive_first; [|exact IH].
      destruct (classic_productive X) as [Hp|Hnp]; [exact Hp|]. exfalso.
      assert (Hin : In X (unproductive gi)).
      { apply unproductive_in. split; [|split; [exact Ent | exact Hnp]].
        apply is_nt_b_spec in Ent. destruct Ent as (r & R & HR & <-). apply (wf_lhs_ok r R HR). }
      rewrite Hu in Hin. destruct Hin.
    + exists X. constructor. intro Hn. apply is_nt_b_spec in Hn. congruence.
Qed.
End Wf.

(* ---------- the back-end theorems under the boolean check alone ---------- *)
Section Checked.
Variable gi : ginfo.
Let g := gi_rules gi.
Hypothesis Hwf : wf_gi gi = true.

Lemma tables_productive t : generate_tables gi = inr t -> unproductive gi = [].
Proof. unfold generate_tables. destruct (unproductive gi); [reflexivity | discriminate]. Qed.

(* C01 *)
Theorem checked_sound t : generate_tables gi = inr t ->
  forall fuel w reds, (forall a, In a w -> a <> eof /\ a < gi_nsyms gi) ->
  run fuel (dense_action (length (t_aut t)) (t_dense t)) g [(0, eof)] w [] = Acc reds ->
  exists tr, valid g tr /\ Some (root g tr) = hd_error (rhs_of g 0) /\ yield tr = w /\ post tr = reds.
Proof.
  intros Ht. apply (pipeline_dense_sound gi (wf_no_start_in_rhs gi Hwf) (wf_rule0_lhs gi Hwf) (wf_no_eof_in_rhs gi Hwf)
                      (ex_intro _ _ (wf_rule0_rhs gi Hwf)) (wf_nsyms gi Hwf) (wf_lhs_ok gi Hwf) t Ht).
Qed.

(* C03 *)
Theorem checked_lookaheads t : generate_tables gi = inr t ->
  forall q r a, q < length (t_aut t) -> r <> 0 -> In (r, length (rhs_of g r)) (items (LRBase.st (t_aut t) q)) ->
  (In a (la_lookup (t_la t) q r) <-> LALR_LA g (t_aut t) q (r, length (rhs_of g r)) a).
Proof.
  intros Ht. apply (pipeline_lookaheads_exact gi (wf_no_start_in_rhs gi Hwf) (wf_rule0_lhs gi Hwf) (wf_no_eof_in_rhs gi Hwf)
                      (wf_rule0_rhs gi Hwf) (wf_eof_terminal gi Hwf) (wf_productive_all gi Hwf (tables_productive t Ht)) t Ht).
Qed.

(* C02 *)
Theorem checked_complete t : generate_tables gi = inr t ->
  (forall q a, length (candidates g (t_aut t) (la_lookup (t_la t)) (sprec_of gi) (rprec_of gi) q a) <= 1) ->
  forall tr : tree, tvalid g tr -> Some (root g tr) = hd_error (rhs_of g 0) ->
  (forall a, In a (yield tr) -> a < gi_nsyms gi) ->
  exists fuel, run fuel (dense_action (length (t_aut t)) (t_dense t)) g [(0, eof)] (yield tr) [] = Acc (post tr).
Proof.
  intros Ht. apply (pipeline_complete gi (wf_no_start_in_rhs gi Hwf) (wf_rule0_lhs gi Hwf) (wf_no_eof_in_rhs gi Hwf)
                      (wf_rule0_rhs gi Hwf) (wf_eof_terminal gi Hwf) (wf_productive_all gi Hwf (tables_productive t Ht))
                      (wf_nsyms gi Hwf) (wf_lhs_ok gi Hwf) t Ht).
Qed.
End Checked.
