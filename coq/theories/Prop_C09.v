(* C09 - canonical LR(0) collection *)
From Coq Require Import List Arith ZArith Bool Permutation.
Import ListNotations.
From YG Require Import LRBase CompleteDriver LR0Build LR0Complete LASuperset LASubset LAExec LR0More C03Assembly C02Assembly TableCert Resolve PackCore DriverSim Values Oracle Productive SortOrder LexRoundtrip.

(* items of a goto target are advanced items of the source or closure items; state 0 has dot-0 items only; the start item occurs in state 0 only; no transition on the end marker *)
Theorem C09_structural :
  forall g : grammar,
         (forall r d : nat, nth_error (rhs_of g r) d <> Some 0%nat) ->
         lhs_of g 0 = 0%nat ->
         (forall r d : nat, nth_error (rhs_of g r) d <> Some eof) ->
         forall aut : automaton,
         build g = Some aut ->
         (forall q X q' : nat,
          goto aut q X = Some q' ->
          q' <> 0%nat /\
          (forall r d : nat,
           In (r, d) (items (LRBase.st aut q')) ->
           d = 0%nat \/
           (exists d' : nat,
              d = S d' /\ In (r, d') (items (LRBase.st aut q)) /\ nth_error (rhs_of g r) d' = Some X))) /\
         (forall r d : nat, In (r, d) (items (LRBase.st aut 0)) -> d = 0%nat) /\
         (forall q : nat, In (0%nat, 0%nat) (items (LRBase.st aut q)) -> q = 0%nat) /\
         (forall q : nat, goto aut q eof = None).
Proof. exact LR0Build.build_structural. Qed.
Print Assumptions C09_structural.

(* items are valid and duplicate-free, every edge is justified by an item with that symbol after the dot, every state is reachable from state 0 *)
Theorem C09_more :
  forall g : grammar,
         (0 < length g)%nat ->
         (0 < length (rhs_of g 0))%nat \/ True ->
         forall aut : automaton,
         build g = Some aut ->
         (forall (q : nat) (x : item), In x (items (LRBase.st aut q)) -> valid_item g x) /\
         (forall q : nat, NoDup (items (LRBase.st aut q))) /\
         (forall q X q' : nat,
          goto aut q X = Some q' -> exists it : item, In it (items (LRBase.st aut q)) /\ next_sym g it = Some X) /\
         (forall q : nat, (q < length aut)%nat -> exists gamma : list nat, path aut 0 gamma q).
Proof. exact LR0More.build_more. Qed.
Print Assumptions C09_more.

(* closure is closed: fuel |rules|+1 suffices *)
Theorem C09_closure_complete :
  forall (g : grammar) (K : list item) (it : item) (B r' : nat) (R' : rule),
         NoDup K ->
         In it (closure g K) ->
         next_sym g it = Some B -> nth_error g r' = Some R' -> lhs R' = B -> In (r', 0%nat) (closure g K).
Proof. exact LR0Complete.closure_complete. Qed.
Print Assumptions C09_closure_complete.

(* every symbol after a dot has a transition *)
Theorem C09_goto_complete :
  forall (g : grammar) (aut : automaton) (q : nat) (it : item) (X : nat),
         build g = Some aut ->
         In it (items (LRBase.st aut q)) -> next_sym g it = Some X -> exists q' : nat, goto aut q X = Some q'.
Proof. exact LR0Complete.build_goto_complete. Qed.
Print Assumptions C09_goto_complete.

From YG Require Import LRBase LR0Build LR0NoDup.
Close Scope Z_scope.
Open Scope nat_scope.

(* no duplicate states: the automaton never contains the same item list twice (item lists are sorted and duplicate-free, so equal sets are equal lists) *)
Theorem C09_no_duplicate_states :
  forall (g : grammar) (aut : automaton),
         build g = Some aut ->
         NoDup (map items aut) /\
         (forall i j : nat, i < length aut -> j < length aut -> items (st aut i) = items (st aut j) -> i = j).
Proof. exact LR0NoDup.build_no_duplicate_states. Qed.
Print Assumptions C09_no_duplicate_states.

From YG Require Import LRBase LR0Build.
Close Scope Z_scope.
Open Scope nat_scope.

(* state 0 is the closure of the augmented start item, and the transition on X from a state leads to the state whose items are exactly the closure of the advanced items *)
Theorem C09_canonical_edges :
  forall g : grammar,
         lhs_of g 0 = 0 ->
         (forall r d : nat, nth_error (rhs_of g r) d <> Some eof) ->
         forall aut : automaton,
         build g = Some aut ->
         items (st aut 0) = closure g [(0, 0)] /\
         (forall q X q' : nat,
          goto aut q X = Some q' -> items (st aut q') = closure g (advance g (items (st aut q)) X)).
Proof. exact LR0Build.build_canonical_edges. Qed.
Print Assumptions C09_canonical_edges.

From YG Require Import LRBase CompleteDriver LR0Build LASuperset Pipeline Front WfGrammar YParser EndToEnd EndToEndWf.
Close Scope Z_scope.
Open Scope nat_scope.

(* from the bytes of the grammar file: the automaton on which the tables of a text are built is the canonical LR(0) collection of the grammar object read from it - state 0 is the closure of the start item, a transition on X leads to the closure of the advanced items, every symbol after a dot has a transition, no item set occurs twice, every state is reachable from state 0 *)
Theorem C09_from_the_text :
  forall (s : list Ascii.ascii) (b : built) (t : tables),
         generate_text s = GOk b t ->
         let g := gi_rules (b_gi b) in
         let aut := t_aut t in
         items (st aut 0) = closure g [(0, 0)] /\
         (forall q X q' : nat,
          goto aut q X = Some q' -> items (st aut q') = closure g (advance g (items (st aut q)) X)) /\
         (forall (q : nat) (it : item) (X : nat),
          In it (items (st aut q)) -> next_sym g it = Some X -> exists q' : nat, goto aut q X = Some q') /\
         (forall i j : nat, i < length aut -> j < length aut -> items (st aut i) = items (st aut j) -> i = j) /\
         (forall q : nat, q < length aut -> exists gamma : list nat, path aut 0 gamma q).
Proof. exact EndToEndWf.text_canonical. Qed.
Print Assumptions C09_from_the_text.
