(* Model of the parse trace (IsTrace in goCode.templ / goObject.templ): PushStateSym prints one
   "Shift sym, push state q" line per push (token shifts and goto pushes alike), TraceReduce prints one
   "look ahead t, use Reduce: rule, go to state q" line per reduction, before the goto push.
   The traced machine follows the abstract LR machine of DriverSim step by step; the theorems say that
   the printed reductions are the reductions performed and that the printed run can be replayed on the
   table (it is a legal run of the automaton on the input). *)
From Coq Require Import List Arith ZArith Bool.
Import ListNotations.
From YG Require Import LRBase DriverSim.

Inductive event := EvShift (sym st : nat) | EvReduce (look rule goto : nat).

Section Trace.
Variables (tab : table) (g : grammar) (act : semact).

Fixpoint atrace (fuel : nat) (stk : list entry) (inp : list tok) : list event :=
  match fuel with
  | 0 => []
  | S f =>
    match stk with
    | [] => []
    | top :: _ =>
      match tab (e_st top) (la inp) with
      | Error => []
      | Accept => []
      | Shift q' => EvShift (la inp) q' :: atrace f ({| e_st := q'; e_sym := la inp; e_val := laval inp |} :: stk) (tl inp)
      | Reduce r =>
        match nth_error g r with
        | None => []
        | Some R =>
          let k := length (rhs R) in
          let v := act r (rev (map e_val (firstn k stk))) in
          match skipn k stk with
          | [] => []
          | (below :: _) as stk' =>
            match tab (e_st below) (lhs R) with
            | Shift q' => EvReduce (la inp) r q' :: EvShift (lhs R) q' :: atrace f ({| e_st := q'; e_sym := lhs R; e_val := v |} :: stk') inp
            | _ => []
            end
          end
        end
      end
    end
  end.

Fixpoint reds_of (evs : list event) : list nat :=
  match evs with
  | [] => []
  | EvReduce _ r _ :: evs' => r :: reds_of evs'
  | EvShift _ _ :: evs' => reds_of evs'
  end.

(* the reductions printed are exactly the reductions performed, in order *)
Theorem trace_reductions : forall fuel stk inp pos reds,
  match arun tab g act fuel stk inp pos reds with
  | RAcc _ out => out = rev reds ++ reds_of (atrace fuel stk inp)
  | RRej _ out => out = rev reds ++ reds_of (atrace fuel stk inp)
  | _ => True
  end.
Proof.
  induction fuel as [|f IH]; intros stk inp pos reds; cbn [arun atrace]; [exact I|].
  destruct stk as [|top rest]; [exact I|].
  destruct (tab (e_st top) (la inp)) as [q'|r| |] eqn:Et.
  - specialize (IH ({| e_st := q'; e_sym := la inp; e_val := laval inp |} :: top :: rest) (tl inp) (S pos) reds).
    destruct (arun tab g act f _ (tl inp) (S pos) reds); cbn [reds_of]; exact IH.
  - destruct (nth_error g r) as [R|]; [|exact I].
    cbv zeta. destruct (skipn (length (rhs R)) (top :: rest)) as [|below stk'] eqn:Es; [exact I|].
    destruct (tab (e_st below) (lhs R)) as [q'| | |]; try exact I.
    specialize (IH ({| e_st := q'; e_sym := lhs R; e_val := act r (rev (map e_val (firstn (length (rhs R)) (top :: rest)))) |} :: below :: stk') inp pos (r :: reds)).
    destruct (arun tab g act f _ inp pos (r :: reds)); cbn [reds_of]; try exact I;
      rewrite IH; cbn [rev]; rewrite <- app_assoc; reflexivity.
  - cbn [reds_of]. rewrite app_nil_r. reflexivity.
  - cbn [reds_of]. rewrite app_nil_r. reflexivity.
Qed.

(* replaying a printed run on the table: a configuration is the stack of states (top first) and the
   remaining input; every event must be the action the table prescribes there *)
Fixpoint replay_trace (states : list nat) (inp : list tok) (evs : list event) : option (list nat * list tok) :=
  match evs with
  | [] => Some (states, inp)
  | EvShift sym q :: evs' =>
    match states with
    | [] => None
    | s :: _ =>
      match tab s (la inp) with
      | Shift q' => if Nat.eqb sym (la inp) && Nat.eqb q q' then replay_trace (q :: states) (tl inp) evs' else None
      | _ => None
      end
    end
  | EvReduce look r q :: evs' =>
    match states, evs' with
    | s :: _, EvShift sym q2 :: evs'' =>
      match tab s (la inp), nth_error g r with
      | Reduce r', Some R =>
        match skipn (length (rhs R)) states with
        | (below :: _) as st' =>
          match tab below (lhs R) with
          | Shift q' =>
            if Nat.eqb look (la inp) && Nat.eqb r r' && Nat.eqb q q' && Nat.eqb sym (lhs R) && Nat.eqb q2 q'
            then replay_trace (q :: st') inp evs'' else None
          | _ => None
          end
        | [] => None
        end
      | _, _ => None
      end
    | _, _ => None
    end
  end.

Lemma skipn_map {A B} (f : A -> B) n l : skipn n (map f l) = map f (skipn n l).
Proof. revert l; induction n; intros [|x l]; simpl; auto. Qed.

(* the printed run is a legal run of the automaton on the input: it replays on the table *)
Theorem trace_legal : forall fuel stk inp,
  exists states' inp', replay_trace (map e_st stk) inp (atrace fuel stk inp) = Some (states', inp').
Proof.
  induction fuel as [|f IH]; intros stk inp; cbn [atrace]; [cbn; eauto|].
  destruct stk as [|top rest]; [cbn; eauto|].
  destruct (tab (e_st top) (la inp)) as [q'|r| |] eqn:Et; try (cbn; eauto; fail).
  - cbn [replay_trace map]. rewrite Et, !Nat.eqb_refl. cbn [andb].
    apply (IH ({| e_st := q'; e_sym := la inp; e_val := laval inp |} :: top :: rest) (tl inp)).
  - destruct (nth_error g r) as [R|] eqn:ER; [|cbn; eauto].
    cbv zeta. destruct (skipn (length (rhs R)) (top :: rest)) as [|below stk'] eqn:Es; [cbn; eauto|].
    destruct (tab (e_st below) (lhs R)) as [q'| | |] eqn:Eg; try (cbn; eauto; fail).
    cbn [replay_trace map]. rewrite Et, ER.
    change (e_st top :: map e_st rest) with (map e_st (top :: rest)). rewrite skipn_map, Es. cbn [map].
    rewrite Eg, !Nat.eqb_refl. cbn [andb].
    apply (IH ({| e_st := q'; e_sym := lhs R; e_val := act r (rev (map e_val (firstn (length (rhs R)) (top :: rest)))) |} :: below :: stk') inp).
Qed.
End Trace.
