(* Originally a design-phase spike: an executable LR(0) construction in the style of
   Grammar/grammar.go and the proof that its automaton satisfies the structural
   half of the soundness certificate (c_goto, c_init, c_start, c_noeof). *)
From Coq Require Import List Arith Lia Bool.
Import ListNotations.
From YG Require Import LRBase.

Definition next_sym (g : grammar) (it : item) : option nat := nth_error (rhs_of g (fst it)) (snd it).

Fixpoint rules_for_aux (B : nat) (g : grammar) (i : nat) : list item :=
  match g with
  | [] => []
  | R :: g' => (if Nat.eqb (lhs R) B then [(i, 0)] else []) ++ rules_for_aux B g' (S i)
  end.
Definition rules_for (g : grammar) (B : nat) : list item := rules_for_aux B g 0.

Definition item_eqb (a b : item) : bool := Nat.eqb (fst a) (fst b) && Nat.eqb (snd a) (snd b).
Lemma item_eqb_eq a b : item_eqb a b = true <-> a = b.
Proof.
  destruct a, b; unfold item_eqb; simpl. rewrite andb_true_iff, !Nat.eqb_eq. split; [intros [-> ->]; auto | inversion 1; auto].
Qed.
Fixpoint mem (x : item) (l : list item) : bool := match l with [] => false | y :: l' => item_eqb x y || mem x l' end.
Lemma mem_In x l : mem x l = true <-> In x l.
Proof. induction l; simpl; [split; [discriminate|tauto]|]. rewrite orb_true_iff, item_eqb_eq, IHl. split; intros [H|H]; auto. Qed.

(* ItemCloure.InsertItem for each new item *)
Fixpoint add_new (news I : list item) : list item :=
  match news with [] => I | x :: n' => if mem x I then add_new n' I else add_new n' (I ++ [x]) end.
Definition expand (g : grammar) (it : item) : list item := match next_sym g it with Some B => rules_for g B | None => [] end.
Definition closure_round (g : grammar) (I : list item) : list item := add_new (flat_map (expand g) I) I.
Fixpoint closure_iter (fuel : nat) (g : grammar) (I : list item) : list item :=
  match fuel with
  | 0 => I
  | S f => let I' := closure_round g I in if Nat.eqb (length I') (length I) then I else closure_iter f g I'
  end.

(* insertion sort by (rule, dot) *)
Definition item_leb (a b : item) : bool := Nat.ltb (fst a) (fst b) || (Nat.eqb (fst a) (fst b) && Nat.leb (snd a) (snd b)).
Fixpoint insert (x : item) (l : list item) : list item :=
  match l with [] => [x] | y :: l' => if item_leb x y then x :: l else y :: insert x l' end.
Fixpoint isort (l : list item) : list item := match l with [] => [] | x :: l' => insert x (isort l') end.
Lemma insert_In x y l : In y (insert x l) <-> y = x \/ In y l.
Proof. induction l; simpl; [intuition|]. destruct (item_leb x a); simpl; rewrite ?IHl; intuition. Qed.
Lemma isort_In y l : In y (isort l) <-> In y l.
Proof. induction l; simpl; [tauto|]. rewrite insert_In, IHl. intuition. Qed.

Definition closure (g : grammar) (K : list item) : list item := isort (closure_iter (S (length g)) g K).

(* ---- what the certificate needs to know about closure ---- *)
Definition from_dot (g : grammar) (x : item) : Prop :=
  snd x = 0 /\ fst x < length g /\ exists r d, nth_error (rhs_of g r) d = Some (lhs_of g (fst x)).

Lemma rules_for_aux_spec B g i x : In x (rules_for_aux B g i) ->
  snd x = 0 /\ i <= fst x < i + length g /\ exists R, nth_error g (fst x - i) = Some R /\ lhs R = B.
Proof.
  revert i; induction g as [|R g IH]; intros i H; simpl in *; [tauto|].
  apply in_app_or in H. destruct H as [H|H].
  - destruct (Nat.eqb_spec (lhs R) B); [|destruct H]. destruct H as [<-|[]]. simpl.
    split; auto. split; [lia|]. exists R. rewrite Nat.sub_diag. simpl; auto.
  - apply IH in H. destruct H as (H0 & Hr & R' & HR' & HB). split; auto. split; [lia|].
    exists R'. split; auto. replace (fst x - i) with (S (fst x - S i)) by lia. exact HR'.
Qed.

Lemma expand_spec g it x : In x (expand g it) -> snd x = 0 /\ fst x < length g /\ next_sym g it = Some (lhs_of g (fst x)).
Proof.
  unfold expand. destruct (next_sym g it) as [B|] eqn:HB; [|intros []].
  intros H. apply rules_for_aux_spec in H. destruct H as (H0 & Hr & R & HR & HBR).
  rewrite Nat.sub_0_r in HR. split; auto. split; [lia|]. unfold lhs_of. rewrite HR, HBR. reflexivity.
Qed.

Lemma add_new_In news I x : In x (add_new news I) -> In x I \/ In x news.
Proof.
  revert I; induction news as [|y n IH]; intros I H; simpl in *; auto.
  destruct (mem y I).
  - apply IH in H. tauto.
  - apply IH in H. destruct H as [H|H]; auto. apply in_app_or in H. simpl in H. tauto.
Qed.
Lemma add_new_incl news I x : In x I -> In x (add_new news I).
Proof. revert I; induction news as [|y n IH]; intros I H; simpl; auto. destruct (mem y I); apply IH; auto. apply in_or_app; auto. Qed.

Definition okset (g : grammar) (K I : list item) : Prop := forall x, In x I -> In x K \/ from_dot g x.

Lemma closure_round_ok g K I : okset g K I -> okset g K (closure_round g I).
Proof.
  intros H x Hx. apply add_new_In in Hx. destruct Hx as [Hx|Hx]; auto.
  apply in_flat_map in Hx. destruct Hx as (it & _ & Hx). apply expand_spec in Hx.
  destruct Hx as (H0 & Hr & Hn). right. split; auto. split; auto. exists (fst it), (snd it). exact Hn.
Qed.
Lemma closure_iter_ok fuel g K I : okset g K I -> okset g K (closure_iter fuel g I).
Proof.
  revert I; induction fuel as [|f IH]; intros I H; simpl; auto.
  destruct (Nat.eqb _ _); auto. apply IH, closure_round_ok; auto.
Qed.
Lemma closure_iter_incl fuel g I x : In x I -> In x (closure_iter fuel g I).
Proof.
  revert I; induction fuel as [|f IH]; intros I H; simpl; auto.
  destruct (Nat.eqb _ _); auto. apply IH. apply add_new_incl; auto.
Qed.

Lemma closure_sound g K x : In x (closure g K) -> In x K \/ from_dot g x.
Proof. unfold closure. rewrite isort_In. apply closure_iter_ok. intros y Hy; auto. Qed.
Lemma closure_ext g K x : In x K -> In x (closure g K).
Proof. unfold closure. rewrite isort_In. apply closure_iter_incl. Qed.

(* ---- goto construction (ComputeGotoItemNoneRec / ComputeAllGoto) ---- *)
Fixpoint nmem (x : nat) (l : list nat) : bool := match l with [] => false | y :: l' => Nat.eqb x y || nmem x l' end.
Fixpoint syms_after_aux (g : grammar) (I : list item) (acc : list nat) : list nat :=
  match I with
  | [] => acc
  | it :: I' => match next_sym g it with
                | Some X => if nmem X acc then syms_after_aux g I' acc else syms_after_aux g I' (acc ++ [X])
                | None => syms_after_aux g I' acc
                end
  end.
Definition syms_after (g : grammar) (I : list item) : list nat := syms_after_aux g I [].
Definition has_next (g : grammar) (X : nat) (it : item) : bool :=
  match next_sym g it with Some Y => Nat.eqb Y X | None => false end.
Definition advance (g : grammar) (I : list item) (X : nat) : list item :=
  map (fun it => (fst it, S (snd it))) (filter (has_next g X) I).

Fixpoint list_eqb (a b : list item) : bool :=
  match a, b with [], [] => true | x :: a', y :: b' => item_eqb x y && list_eqb a' b' | _, _ => false end.
Lemma list_eqb_eq a b : list_eqb a b = true <-> a = b.
Proof.
  revert b; induction a as [|x a IH]; intros [|y b]; simpl; try (split; [discriminate|discriminate]); [tauto|].
  rewrite andb_true_iff, item_eqb_eq, IH. split; [intros [-> ->]; auto | inversion 1; auto].
Qed.

Fixpoint find_state (T : list item) (sts : list state) (i : nat) : option nat :=
  match sts with [] => None | s :: sts' => if list_eqb (items s) T then Some i else find_state T sts' (S i) end.

Fixpoint register (g : grammar) (I : list item) (Xs : list nat) (sts : list state) (gts : list (nat * nat))
  : list state * list (nat * nat) :=
  match Xs with
  | [] => (sts, gts)
  | X :: Xs' =>
    let T := closure g (advance g I X) in
    match find_state T sts 0 with
    | Some j => register g I Xs' sts (gts ++ [(X, j)])
    | None => register g I Xs' (sts ++ [{| items := T; gotos := [] |}]) (gts ++ [(X, length sts)])
    end
  end.

Fixpoint set_gotos (sts : list state) (i : nat) (gts : list (nat * nat)) : list state :=
  match sts, i with
  | [], _ => []
  | s :: tl, 0 => {| items := items s; gotos := gts |} :: tl
  | s :: tl, S i' => s :: set_gotos tl i' gts
  end.

Fixpoint build_loop (fuel : nat) (g : grammar) (sts : list state) (i : nat) : option (list state) :=
  match fuel with
  | 0 => None
  | S f => match nth_error sts i with
           | None => Some sts
           | Some s => let '(sts', gts) := register g (items s) (syms_after g (items s)) sts [] in
                       build_loop f g (set_gotos sts' i gts) (S i)
           end
  end.
Definition build (g : grammar) : option automaton :=
  build_loop 2000 g [{| items := closure g [(0, 0)]; gotos := [] |}] 0.

(* ---- invariant ---- *)
Section Inv.
Variable g : grammar.
(* well-formedness facts of the grammar that are used *)
Hypothesis no_start_in_rhs : forall r d, nth_error (rhs_of g r) d <> Some 0.
Hypothesis rule0_lhs : lhs_of g 0 = 0.
Hypothesis no_eof_in_rhs : forall r d, nth_error (rhs_of g r) d <> Some eof.

Definition kernel_like (I : list item) : Prop :=
  (exists x, In x I /\ snd x <> 0) /\ forall x, In x I -> snd x <> 0 \/ from_dot g x.

Definition good_edge (sts : list state) (q X q' : nat) : Prop :=
  q' < length sts /\ q' <> 0 /\ X <> eof /\ items (st sts q') = closure g (advance g (items (st sts q)) X).

Definition inv (sts : list state) (i : nat) : Prop :=
  items (st sts 0) = closure g [(0, 0)] /\ 0 < length sts /\
  (forall q, 0 < q < length sts -> kernel_like (items (st sts q))) /\
  (forall q X q', In (X, q') (gotos (st sts q)) -> q < i /\ good_edge sts q X q').

Lemma st0_dot0 sts i : inv sts i -> forall x, In x (items (st sts 0)) -> snd x = 0.
Proof.
  intros (H0 & _) x Hx. rewrite H0 in Hx. apply closure_sound in Hx.
  destruct Hx as [[<-|[]]|(Hd & _)]; auto.
Qed.

Lemma syms_after_aux_spec I acc X : In X (syms_after_aux g I acc) -> In X acc \/ exists it, In it I /\ next_sym g it = Some X.
Proof.
  revert acc; induction I as [|it I IH]; intros acc H; simpl in *; auto.
  destruct (next_sym g it) as [Y|] eqn:HY.
  - destruct (nmem Y acc).
    + apply IH in H. destruct H as [H|(it' & Hin & Hn)]; auto. right; exists it'; auto.
    + apply IH in H. destruct H as [H|(it' & Hin & Hn)].
      * apply in_app_or in H. destruct H as [H|[<-|[]]]; auto. right; exists it; auto.
      * right; exists it'; auto.
  - apply IH in H. destruct H as [H|(it' & Hin & Hn)]; auto. right; exists it'; auto.
Qed.

Lemma advance_kernel I X : (exists it, In it I /\ next_sym g it = Some X) ->
  (forall x, In x I -> True) -> kernel_like (closure g (advance g I X)).
Proof.
  intros (it & Hin & Hn) _. split.
  - exists (fst it, S (snd it)). split; [|simpl; lia]. apply closure_ext. unfold advance.
    apply in_map_iff. exists it. split; auto. apply filter_In. split; auto.
    unfold has_next. rewrite Hn. apply Nat.eqb_refl.
  - intros x Hx. apply closure_sound in Hx. destruct Hx as [Hx|Hx]; auto.
    unfold advance in Hx. apply in_map_iff in Hx. destruct Hx as (y & <- & _). left. simpl. lia.
Qed.

Lemma find_state_spec T sts i j : find_state T sts i = Some j -> i <= j < i + length sts /\ items (nth (j - i) sts {| items := []; gotos := [] |}) = T.
Proof.
  revert i; induction sts as [|s sts IH]; intros i H; simpl in *; [discriminate|].
  destruct (list_eqb (items s) T) eqn:E.
  - inversion H; subst. apply list_eqb_eq in E. rewrite Nat.sub_diag. split; [lia|auto].
  - apply IH in H. destruct H as [Hr Hi]. split; [lia|].
    replace (j - i) with (S (j - S i)) by lia. exact Hi.
Qed.


Lemma set_gotos_length sts i gts : length (set_gotos sts i gts) = length sts.
Proof. revert i; induction sts as [|s sts IH]; intros [|i]; simpl; auto. Qed.
Lemma set_gotos_items sts i gts q : items (st (set_gotos sts i gts) q) = items (st sts q).
Proof.
  unfold st. revert i q; induction sts as [|s sts IH]; intros [|i] [|q]; simpl; auto.
Qed.
Lemma set_gotos_gotos sts i gts q : gotos (st (set_gotos sts i gts) q) =
  if Nat.eqb q i && Nat.ltb i (length sts) then gts else gotos (st sts q).
Proof.
  unfold st. revert i q; induction sts as [|s sts IH]; intros i q.
  - simpl. rewrite andb_false_r. destruct i; reflexivity.
  - destruct i as [|i], q as [|q]; simpl; auto.
    rewrite IH. change (S i <? S (length sts)) with (i <? length sts). reflexivity.
Qed.

Lemma st_app sts ext q : q < length sts -> st (sts ++ ext) q = st sts q.
Proof. intros H. unfold st. apply app_nth1; auto. Qed.
Lemma st_app2 sts s ext : st (sts ++ s :: ext) (length sts) = s.
Proof. unfold st. rewrite app_nth2, Nat.sub_diag; auto. Qed.
Lemma st_out sts q : length sts <= q -> st sts q = {| items := []; gotos := [] |}.
Proof. intros H. unfold st. apply nth_overflow; auto. Qed.

Lemma register_spec I Xs : forall sts gts,
  0 < length sts -> (forall x, In x (items (st sts 0)) -> snd x = 0) ->
  (forall X, In X Xs -> X <> eof /\ exists it, In it I /\ next_sym g it = Some X) ->
  forall sts' gts', register g I Xs sts gts = (sts', gts') ->
  exists ext, sts' = sts ++ ext /\
    (forall s, In s ext -> gotos s = [] /\ kernel_like (items s)) /\
    (forall X q', In (X, q') gts' -> In (X, q') gts \/
        (q' < length sts' /\ q' <> 0 /\ X <> eof /\ items (st sts' q') = closure g (advance g I X))).
Proof.
  induction Xs as [|X Xs IH]; intros sts gts Hlen H0 HXs sts' gts' Hreg; simpl in Hreg.
  - inversion Hreg; subst. exists []. rewrite app_nil_r. split; auto. split; [intros s []|auto].
  - destruct (HXs X (or_introl eq_refl)) as (Hneof & Hex).
    assert (HK : kernel_like (closure g (advance g I X))) by (apply advance_kernel; auto).
    assert (HXs' : forall Y, In Y Xs -> Y <> eof /\ exists it, In it I /\ next_sym g it = Some Y) by (intros; apply HXs; right; auto).
    destruct (find_state (closure g (advance g I X)) sts 0) as [j|] eqn:Hf.
    + apply find_state_spec in Hf. rewrite Nat.sub_0_r in Hf. destruct Hf as [Hj Hitems].
      fold (st sts j) in Hitems.
      assert (Hj0 : j <> 0).
      { intros ->. destruct HK as [(x & Hx & Hd) _]. rewrite <- Hitems in Hx. apply H0 in Hx. contradiction. }
      destruct (IH sts (gts ++ [(X, j)]) Hlen H0 HXs' _ _ Hreg) as (ext & -> & Hext & Hg).
      exists ext. split; auto. split; auto.
      intros Y q' HY. destruct (Hg _ _ HY) as [Hin|Hgood]; auto.
      apply in_app_or in Hin. destruct Hin as [Hin|[Heq|[]]]; auto.
      inversion Heq; subst Y q'. right. rewrite app_length. split; [lia|]. split; auto. split; auto.
      rewrite st_app by lia. exact Hitems.
    + set (new := {| items := closure g (advance g I X); gotos := [] |}) in *.
      assert (H0' : forall x, In x (items (st (sts ++ [new]) 0)) -> snd x = 0) by (rewrite st_app by lia; auto).
      assert (Hlen' : 0 < length (sts ++ [new])) by (rewrite app_length; simpl; lia).
      destruct (IH (sts ++ [new]) (gts ++ [(X, length sts)]) Hlen' H0' HXs' _ _ Hreg) as (ext & -> & Hext & Hg).
      exists (new :: ext). rewrite <- app_assoc. split; auto. split.
      * intros s [<-|Hs]; auto.
      * intros Y q' HY. destruct (Hg _ _ HY) as [Hin|Hgood]; auto.
        -- apply in_app_or in Hin. destruct Hin as [Hin|[Heq|[]]]; auto.
           inversion Heq; subst Y q'. right. rewrite app_length. simpl.
           split; [lia|]. split; [lia|]. split; auto. change ([new] ++ ext) with (new :: ext). rewrite st_app2. reflexivity.
        -- right. rewrite <- app_assoc in Hgood. exact Hgood.
Qed.


Lemma good_edge_mono sts ext q X q' : q < length sts -> good_edge sts q X q' -> good_edge (sts ++ ext) q X q'.
Proof.
  intros Hq (H1 & H2 & H3 & H4). unfold good_edge. rewrite app_length. split; [lia|]. split; auto. split; auto.
  rewrite !st_app by lia. exact H4.
Qed.

Lemma syms_after_spec I X : In X (syms_after g I) -> X <> eof /\ exists it, In it I /\ next_sym g it = Some X.
Proof.
  intros H. apply syms_after_aux_spec in H. destruct H as [[]|(it & Hin & Hn)].
  split; [|exists it; auto]. intros ->. unfold next_sym in Hn. apply no_eof_in_rhs in Hn. exact Hn.
Qed.

Lemma step_inv sts i s sts' gts : inv sts i -> nth_error sts i = Some s ->
  register g (items s) (syms_after g (items s)) sts [] = (sts', gts) ->
  inv (set_gotos sts' i gts) (S i).
Proof.
  intros Hinv Hs Hreg. pose proof (st0_dot0 _ _ Hinv) as H0.
  destruct Hinv as (Hst0 & Hlen & Hker & Hedges).
  assert (Hi : i < length sts) by (apply nth_error_Some; congruence).
  assert (Hsti : st sts i = s) by (unfold st; apply nth_error_nth; auto).
  destruct (register_spec (items s) (syms_after g (items s)) sts [] Hlen H0 (syms_after_spec _) _ _ Hreg)
    as (ext & -> & Hext & Hg).
  unfold inv. rewrite set_gotos_length, set_gotos_items.
  split; [rewrite st_app by lia; exact Hst0|]. split; [rewrite app_length; lia|]. split.
  - intros q Hq. rewrite set_gotos_items. rewrite app_length in Hq.
    destruct (Nat.lt_ge_cases q (length sts)) as [Hlt|Hge].
    + rewrite st_app by lia. apply Hker; lia.
    + unfold st. rewrite app_nth2 by lia. apply Hext. apply nth_In. lia.
  - intros q X q' Hin. rewrite set_gotos_gotos in Hin.
    assert (Hge : forall q X q', good_edge (sts ++ ext) q X q' -> good_edge (set_gotos (sts ++ ext) i gts) q X q').
    { intros a b c (A & B & C0 & D). unfold good_edge. rewrite set_gotos_length, !set_gotos_items. auto. }
    destruct (Nat.eqb_spec q i) as [->|Hne]; simpl in Hin.
    + assert (Hlt : (i <? length (sts ++ ext)) = true) by (apply Nat.ltb_lt; rewrite app_length; lia).
      rewrite Hlt in Hin. split; [lia|]. apply Hge.
      destruct (Hg _ _ Hin) as [[]|(A & B & C0 & D)]. unfold good_edge. split; auto. split; auto. split; auto.
      rewrite D. rewrite st_app by lia. rewrite Hsti. reflexivity.
    + destruct (Nat.lt_ge_cases q (length sts)) as [Hlt|Hge'].
      * rewrite st_app in Hin by lia. destruct (Hedges _ _ _ Hin) as [Hqi Hgood]. split; [lia|].
        apply Hge. apply good_edge_mono; auto.
      * exfalso. destruct (Nat.lt_ge_cases q (length (sts ++ ext))) as [Hlt2|Hge2].
        -- unfold st in Hin. rewrite app_nth2 in Hin by lia.
           assert (Hq : In (nth (q - length sts) ext {| items := []; gotos := [] |}) ext).
           { apply nth_In. rewrite app_length in Hlt2. lia. }
           apply Hext in Hq. destruct Hq as [Hq _]. rewrite Hq in Hin. destruct Hin.
        -- rewrite st_out in Hin by lia. destruct Hin.
Qed.

Lemma build_loop_inv fuel : forall sts i aut, inv sts i -> build_loop fuel g sts i = Some aut -> inv aut (length aut).
Proof.
  induction fuel as [|f IH]; intros sts i aut Hinv Hb; simpl in Hb; [discriminate|].
  destruct (nth_error sts i) as [s|] eqn:Hs.
  - destruct (register g (items s) (syms_after g (items s)) sts []) as [sts' gts] eqn:Hreg.
    eapply IH; [|exact Hb]. eapply step_inv; eauto.
  - inversion Hb; subst aut. apply nth_error_None in Hs.
    destruct Hinv as (A & B & C0 & D). unfold inv. split; auto. split; auto. split; auto.
    intros q X q' Hin. destruct (D _ _ _ Hin) as [_ Hgood]. split; auto.
    destruct (Nat.lt_ge_cases q (length sts)); auto. rewrite st_out in Hin by lia. destruct Hin.
Qed.

Lemma inv_init : inv [{| items := closure g [(0, 0)]; gotos := [] |}] 0.
Proof.
  unfold inv. simpl. split; auto. split; [lia|]. split; [intros q Hq; lia|].
  intros q X q' Hin. destruct q as [|[|q]]; simpl in Hin; destruct Hin.
Qed.

Lemma assoc_In k v l : assoc k l = Some v -> In (k, v) l.
Proof.
  induction l as [|[k' v'] l IH]; simpl; [discriminate|]. destruct (Nat.eqb_spec k k'); auto.
  intros H; inversion H; subst; auto.
Qed.

(* the structural half of the soundness certificate holds of the constructed automaton *)
Theorem build_structural aut : build g = Some aut ->
  (forall q X q', goto aut q X = Some q' ->
     q' <> 0 /\ forall r d, In (r, d) (items (st aut q')) ->
       d = 0 \/ exists d', d = S d' /\ In (r, d') (items (st aut q)) /\ nth_error (rhs_of g r) d' = Some X) /\
  (forall r d, In (r, d) (items (st aut 0)) -> d = 0) /\
  (forall q, In (0, 0) (items (st aut q)) -> q = 0) /\
  (forall q, goto aut q eof = None).
Proof.
  intros Hb. pose proof (build_loop_inv _ _ _ _ inv_init Hb) as Hinv.
  pose proof (st0_dot0 _ _ Hinv) as H0.
  destruct Hinv as (Hst0 & Hlen & Hker & Hedges).
  split; [|split; [|split]].
  - intros q X q' Hg. unfold goto in Hg. apply assoc_In in Hg.
    destruct (Hedges _ _ _ Hg) as [_ (A & B & C0 & D)]. split; auto.
    intros r d Hin. rewrite D in Hin. apply closure_sound in Hin. destruct Hin as [Hin|(Hd & _)]; [|left; exact Hd].
    right. unfold advance in Hin. apply in_map_iff in Hin. destruct Hin as ([r0 d0] & Heq & Hf).
    simpl in Heq. inversion Heq; subst r d. apply filter_In in Hf. destruct Hf as [Hin Hn].
    exists d0. split; auto. split; auto. unfold has_next, next_sym in Hn. simpl in Hn.
    destruct (nth_error (rhs_of g r0) d0) as [Y|]; [|discriminate]. apply Nat.eqb_eq in Hn. subst; auto.
  - intros r d Hin. apply (H0 _ Hin).
  - intros q Hin. destruct (Nat.eq_dec q 0) as [|Hq]; auto. exfalso.
    destruct (Nat.lt_ge_cases q (length aut)) as [Hlt|Hge]; [|rewrite st_out in Hin by lia; destruct Hin].
    destruct (Hker q ltac:(lia)) as [_ Hk]. destruct (Hk _ Hin) as [Hd|(_ & _ & r & d & Hn)]; [simpl in Hd; lia|].
    simpl in Hn. rewrite rule0_lhs in Hn. apply no_start_in_rhs in Hn. exact Hn.
  - intros q. unfold goto. destruct (assoc eof (gotos (st aut q))) as [q'|] eqn:Ha; auto.
    apply assoc_In in Ha. destruct (Hedges _ _ _ Ha) as [_ (_ & _ & C0 & _)]. congruence.
Qed.

(* goto edges lead to registered states, and the automaton is not empty *)
Theorem build_goto_lt aut : build g = Some aut -> 0 < length aut /\ forall q X q', goto aut q X = Some q' -> q' < length aut.
Proof.
  intros Hb. pose proof (build_loop_inv _ _ _ _ inv_init Hb) as (Hst0 & Hlen & Hker & Hedges).
  split; [exact Hlen|]. intros q X q' Hg. unfold goto in Hg. apply assoc_In in Hg.
  destruct (Hedges _ _ _ Hg) as [_ (A & _)]. exact A.
Qed.

(* state 0 is the closure of the start item and every transition leads to the closure of the advanced items *)
Theorem build_canonical_edges aut : build g = Some aut ->
  items (st aut 0) = closure g [(0, 0)] /\
  forall q X q', goto aut q X = Some q' -> items (st aut q') = closure g (advance g (items (st aut q)) X).
Proof.
  intros Hb. pose proof (build_loop_inv _ _ _ _ inv_init Hb) as (Hst0 & Hlen & Hker & Hedges).
  split; [exact Hst0|]. intros q X q' Hg. unfold goto in Hg. apply assoc_In in Hg.
  destruct (Hedges _ _ _ Hg) as [_ (_ & _ & _ & D)]. exact D.
Qed.

End Inv.

Print Assumptions build_structural.
