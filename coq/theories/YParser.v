(* Model: Parser/Parser.go - the recursive-descent parser of grammar files, over the token list and
   tail behaviour delivered by the lexer model (Lexer.lex).  The three-slot look-back buffer
   (tokenArr, peekCount, next/backup/backup2) is modelled as it is; every Go loop is driven by fuel
   (one unit per iteration) and answers PFuel when it runs out.  Output: the AST of Front.v.
   Definitions only. *)
From Coq Require Import List Arith ZArith Bool Ascii NArith.
Import ListNotations.
From YG Require Import Lexer Front.

(* the zero value of Token (Kind ""): what a never-written buffer slot holds *)
Definition zero_tok : tok := mkTok LxFuel [] [].
Definition eof_tok : tok := mkTok LxEOF [] [].

Record pstate := mkP {
  p_cur : tok;                  (* current *)
  p_a0 : tok; p_a1 : tok;       (* tokenArr[0], tokenArr[1]; tokenArr[2] is never written *)
  p_pc : nat;                   (* peekCount *)
  p_strm : list tok;            (* tokens not yet delivered by the lexer *)
  p_tail : tail;
  p_err : bool;                 (* p.err <> nil *)
  p_defs : list name            (* TokenDefMap *)
}.

Definition kind_eqb (a b : lkind) : bool :=
  match a, b with
  | LxError, LxError | LxIdentifier, LxIdentifier | LxNumber, LxNumber | LxSection, LxSection | LxCodeQuote, LxCodeQuote
  | LxActionQuote, LxActionQuote | LxEOF, LxEOF | LxType, LxType | LxToken, LxToken | LxUnion, LxUnion | LxLeft, LxLeft
  | LxRight, LxRight | LxNone, LxNone | LxPrec, LxPrec | LxPrecedence, LxPrecedence | LxStart, LxStart
  | LxActionSelf, LxActionSelf | LxActionN, LxActionN | LxActionAccept, LxActionAccept | LxActionEnd, LxActionEnd
  | LxOr, LxOr | LxDefine, LxDefine | LxEnd, LxEnd | LxLAngle, LxLAngle | LxRAngle, LxRAngle | LxChar, LxChar
  | LxString, LxString | LxFuel, LxFuel => true
  | _, _ => false
  end.
Definition cur_is (p : pstate) (k : lkind) : bool := kind_eqb (t_kind (p_cur p)) k.

(* lexer.nextToken *)
Definition next_token (p : pstate) : tok * list tok :=
  match p_strm p with
  | t :: rest => (t, rest)
  | [] => (match p_tail p with Closed => eof_tok | ErrorForEver => errtok end, [])
  end.
Definition arr (p : pstate) (i : nat) : tok := match i with 0 => p_a0 p | 1 => p_a1 p | _ => zero_tok end.

Definition pnext (p : pstate) : pstate :=
  match p_pc p with
  | 0 => let '(t, rest) := next_token p in mkP t t (p_a1 p) 0 rest (p_tail p) (p_err p) (p_defs p)
  | S k => mkP (arr p k) (p_a0 p) (p_a1 p) k (p_strm p) (p_tail p) (p_err p) (p_defs p)
  end.
Definition pbackup (p : pstate) : pstate :=
  mkP (p_cur p) (p_a0 p) (p_a1 p) (S (p_pc p)) (p_strm p) (p_tail p) (p_err p) (p_defs p).
Definition pbackup2 (p : pstate) (t1 : tok) : pstate :=
  mkP (p_cur p) (p_a0 p) t1 2 (p_strm p) (p_tail p) (p_err p) (p_defs p).
Definition perror (p : pstate) : pstate :=
  mkP (p_cur p) (p_a0 p) (p_a1 p) (p_pc p) (p_strm p) (p_tail p) true (p_defs p).
Definition pexpect (p : pstate) (k : lkind) : pstate := if cur_is p k then pnext p else perror p.
Definition pdef (p : pstate) (n : name) : pstate :=
  mkP (p_cur p) (p_a0 p) (p_a1 p) (p_pc p) (p_strm p) (p_tail p) (p_err p) (n :: p_defs p).
Definition defined (p : pstate) (n : name) : bool := existsb (name_eqb n) (p_defs p).

Definition temp_prefix : name := ["$"; "o"; "p"; "e"; "r"; "a"; "t"; "o"; "r"]%char.
Definition gen_temp_name (v : list ascii) : name := temp_prefix ++ v.
Definition first_byte (v : list ascii) : Z := match v with c :: _ => Z.of_N (N_of_ascii c) | [] => 0%Z end.

(* strconv.Atoi on what the lexer calls a Number (digits, optionally after "-"); "-" alone is an error, value 0 *)
Fixpoint digits_val (acc : Z) (s : list ascii) : Z :=
  match s with
  | [] => acc
  | c :: s' => digits_val (acc * 10 + (Z.of_N (N_of_ascii c) - 48))%Z s'
  end.
Definition all_digits (s : list ascii) : bool := match s with [] => false | _ => forallb is_digit s end.
Definition atoi_raw (v : list ascii) : Z :=
  match v with
  | c :: ds => if Ascii.eqb c "-" then (if all_digits ds then (- digits_val 0 ds)%Z else 0%Z)
               else if Ascii.eqb c "+" then (if all_digits ds then digits_val 0 ds else 0%Z)
               else if all_digits v then digits_val 0 v else 0%Z
  | [] => 0%Z
  end.
(* out of the range of a Go int (64 bit): Atoi reports an error and the value stays 0 *)
Definition atoi (v : list ascii) : Z :=
  let x := atoi_raw v in
  if Z.leb (-9223372036854775808) x && Z.leb x 9223372036854775807 then x else 0%Z.

(* optional <tag> after a directive: returns the tag and the state *)
Definition parse_tag (p : pstate) : name * pstate :=
  if cur_is p LxLAngle then
    let p1 := pnext p in
    let tag := t_value (p_cur p1) in
    (tag, pexpect (pnext p1) LxRAngle)
  else ([], p).

Inductive pres (A : Type) := POk (a : A) (p : pstate) | PFuel.
Arguments POk {A}. Arguments PFuel {A}.

(* parseTokendef, the loop *)
Fixpoint tokendef_loop (fuel : nat) (tag : name) (p : pstate) (acc : list ident) : pres (list ident) :=
  match fuel with
  | 0 => PFuel
  | S f =>
    if cur_is p LxIdentifier then
      let nm := t_value (p_cur p) in
      let p1 := pnext p in
      let '(value, alias, p2) :=
        if cur_is p1 LxNumber then (atoi (t_value (p_cur p1)), [], p1)
        else if cur_is p1 LxChar || cur_is p1 LxString then (0%Z, t_value (p_cur p1), p1)
        else (0%Z, [], pbackup p1) in
      tokendef_loop f tag (pnext (pdef p2 nm)) (acc ++ [mkIdent nm TermId value tag alias])
    else if cur_is p LxChar then
      let v := t_value (p_cur p) in
      let nm := gen_temp_name v in
      tokendef_loop f tag (pnext (pdef p nm)) (acc ++ [mkIdent nm TermId (first_byte v) tag v])
    else POk acc p
  end.
Definition parse_tokendef (fuel : nat) (p : pstate) : pres (list ident) :=
  let '(tag, p1) := parse_tag (pnext p) in tokendef_loop fuel tag p1 [].

(* parsePrecList *)
Fixpoint prec_loop (fuel : nat) (tag : name) (assoc : assoc_kw) (p : pstate) (toks : list ident) (acc : list precdef)
  : pres (list ident * list precdef) :=
  match fuel with
  | 0 => PFuel
  | S f =>
    let p1 := pnext p in
    if cur_is p1 LxIdentifier || cur_is p1 LxChar then
      let v := t_value (p_cur p1) in
      let isc := cur_is p1 LxChar in
      let nm := if isc then gen_temp_name v else v in
      let idv := if isc then first_byte v else 0%Z in
      let '(p2, toks') := if defined p1 nm then (p1, toks) else (pdef p1 nm, toks ++ [mkIdent nm TermId idv tag []]) in
      prec_loop f tag assoc p2 toks' (acc ++ [mkPrecdef assoc nm])
    else POk (toks, acc) p1
  end.
Definition parse_preclist (fuel : nat) (p : pstate) : pres (list ident * list precdef) :=
  let assoc := if cur_is p LxLeft then ALeft else if cur_is p LxRight then ARight else ANon in
  let '(tag, p1) := parse_tag (pnext p) in
  prec_loop fuel tag assoc (pbackup p1) [] [].

(* parseTypeList *)
Fixpoint type_loop (fuel : nat) (tag : name) (p : pstate) (acc : list (name * name)) : pres (list (name * name)) :=
  match fuel with
  | 0 => PFuel
  | S f => if cur_is p LxIdentifier then type_loop f tag (pnext p) (acc ++ [(tag, t_value (p_cur p))]) else POk acc p
  end.
Definition parse_typelist (fuel : nat) (p : pstate) : pres (list (name * name)) :=
  let p0 := pnext p in
  let '(tag, p1) := if cur_is p0 LxLAngle then parse_tag p0 else ([], perror p0) in
  match type_loop fuel tag p1 [] with
  | POk l p2 => POk l (if match l with [] => true | _ => false end then perror p2 else p2)
  | PFuel => PFuel
  end.

(* parseDeclare *)
Record decl_acc := mkDA { da_union : list ascii; da_code : list ascii; da_toks : list (list ident);
                          da_precs : list (list precdef); da_types : list (name * name); da_start : name }.
Fixpoint declare_loop (fuel : nat) (p : pstate) (a : decl_acc) : pres (option decl_acc) :=
  match fuel with
  | 0 => PFuel
  | S f =>
    if cur_is p LxEOF || cur_is p LxSection then POk (Some a) p
    else if cur_is p LxError then POk None (perror p)
    else if cur_is p LxToken then
      match parse_tokendef f p with
      | POk l p1 => declare_loop f p1 (mkDA (da_union a) (da_code a) (da_toks a ++ [l]) (da_precs a) (da_types a) (da_start a))
      | PFuel => PFuel
      end
    else if cur_is p LxLeft || cur_is p LxRight || cur_is p LxNone || cur_is p LxPrecedence then
      match parse_preclist f p with
      | POk (toks, precs) p1 =>
        declare_loop f p1 (mkDA (da_union a) (da_code a) (match toks with [] => da_toks a | _ => da_toks a ++ [toks] end)
                                 (da_precs a ++ [precs]) (da_types a) (da_start a))
      | PFuel => PFuel
      end
    else if cur_is p LxType then
      match parse_typelist f p with
      | POk l p1 => declare_loop f p1 (mkDA (da_union a) (da_code a) (da_toks a) (da_precs a) (da_types a ++ l) (da_start a))
      | PFuel => PFuel
      end
    else
      let a1 := if cur_is p LxUnion then mkDA (t_value (p_cur p)) (da_code a) (da_toks a) (da_precs a) (da_types a) (da_start a)
                else if cur_is p LxCodeQuote then mkDA (da_union a) (da_code a ++ t_value (p_cur p)) (da_toks a) (da_precs a) (da_types a) (da_start a)
                else a in
      if cur_is p LxStart then
        let p1 := pnext p in
        let '(st, p2) := if cur_is p1 LxIdentifier then (t_value (p_cur p1), p1) else ([], perror p1) in
        declare_loop f (pnext p2) (mkDA (da_union a1) (da_code a1) (da_toks a1) (da_precs a1) (da_types a1) st)
      else declare_loop f (pnext p) a1
  end.

(* parseRule: the loop over the alternatives of one rule group *)
Record rule_acc := mkRA { ra_done : list ruledef; ra_rhs : list relem; ra_prec : name; ra_toks : list ident }.
Inductive rule_out := RNone (p : pstate) | RSome (rs : list ruledef) (toks : list ident) (p : pstate) | RFuelOut.

Fixpoint rule_loop (fuel : nat) (lhs : name) (p : pstate) (a : rule_acc) : rule_out :=
  match fuel with
  | 0 => RFuelOut
  | S f =>
    let t1 := p_cur p in
    let pa := pnext p in
    let t2 := p_cur pa in
    let pb := pbackup2 pa t1 in
    let cur_rule := mkRuledef 0 lhs (ra_rhs a) (ra_prec a) in
    if kind_eqb (t_kind t1) LxEnd || (kind_eqb (t_kind t1) LxIdentifier && kind_eqb (t_kind t2) LxDefine) then
      let pc := pnext pb in
      let pd := if cur_is pc LxEnd then pnext pc else pc in
      RSome (ra_done a ++ [cur_rule]) (ra_toks a) pd
    else
      let pc := pnext pb in
      let v := t_value (p_cur pc) in
      if cur_is pc LxChar then
        let nm := gen_temp_name v in
        let '(pd, toks) := if defined pc nm then (pc, ra_toks a) else (pdef pc nm, ra_toks a ++ [mkIdent nm TermId (first_byte v) [] []]) in
        rule_loop f lhs (pnext pd) (mkRA (ra_done a) (ra_rhs a ++ [RSym nm]) (ra_prec a) toks)
      else if cur_is pc LxIdentifier then
        rule_loop f lhs (pnext pc) (mkRA (ra_done a) (ra_rhs a ++ [RSym v]) (ra_prec a) (ra_toks a))
      else if cur_is pc LxActionQuote then
        rule_loop f lhs (pnext pc) (mkRA (ra_done a) (ra_rhs a ++ [RAct v]) (ra_prec a) (ra_toks a))
      else if cur_is pc LxOr then
        rule_loop f lhs (pnext pc) (mkRA (ra_done a ++ [cur_rule]) [] [] (ra_toks a))
      else if cur_is pc LxPrec then
        let pd := pnext pc in
        if cur_is pd LxIdentifier then rule_loop f lhs (pnext pd) (mkRA (ra_done a) (ra_rhs a) (t_value (p_cur pd)) (ra_toks a))
        else if cur_is pd LxChar then rule_loop f lhs (pnext pd) (mkRA (ra_done a) (ra_rhs a) (gen_temp_name (t_value (p_cur pd))) (ra_toks a))
        else RNone (perror pd)
      else RSome (ra_done a ++ [cur_rule]) (ra_toks a) pc
  end.

Definition parse_rule (fuel : nat) (p : pstate) : rule_out :=
  if cur_is p LxIdentifier then
    let lhs := t_value (p_cur p) in
    rule_loop fuel lhs (pexpect (pnext p) LxDefine) (mkRA [] [] [] [])
  else RNone (pbackup p).

Inductive parse_result :=
| PAst (a : ast) | PNoDeclare | PNoSection | PBadRules | PFuelOut.

Fixpoint rules_loop (fuel : nat) (p : pstate) (rs : list ruledef) (toks : list (list ident)) : option (list ruledef * list (list ident) * pstate) :=
  match fuel with
  | 0 => None
  | S f =>
    match parse_rule f p with
    | RFuelOut => None
    | RNone p1 => Some (rs, toks, p1)
    | RSome l t p1 => rules_loop f p1 (rs ++ l) (match t with [] => toks | _ => toks ++ [t] end)
    end
  end.

Definition start_default : name := ["s"; "t"; "a"; "r"; "t"]%char.

Definition parse_tokens (fuel : nat) (ts : list tok) (tl : tail) : parse_result :=
  let p0 := mkP zero_tok zero_tok zero_tok 0 ts tl false [] in
  match declare_loop fuel (pnext p0) (mkDA [] [] [] [] [] start_default) with
  | PFuel => PFuelOut
  | POk None _ => PNoDeclare
  | POk (Some d) p1 =>
    if negb (cur_is p1 LxSection) then PNoSection
    else
      match rules_loop fuel (pnext p1) [] [] with
      | None => PFuelOut
      | Some (rs, extra, p2) =>
        if negb (cur_is p2 LxSection) && negb (cur_is p2 LxEOF) then PBadRules
        else
          let rest := if cur_is p2 LxSection then t_rest (p_cur p2) else [] in
          PAst (mkAst (mkDecl (da_code d) (da_toks d ++ extra) (da_precs d) (da_types d) (da_union d) (da_start d)) rs rest)
      end
  end.

(* Parse: lexer and parser together; the fuel covers every loop iteration (each consumes a token) *)
Definition parse_text (s : list ascii) : parse_result :=
  let '(ts, tl) := lex s in parse_tokens (2 * length ts + 8) ts tl.
