(* The generated parsers of the pipeline: what the drivers compute depends only on the cells inside the
   table (run_ext, arun_ext); the dense matrix decodes back to the table it was made from; hence
   soundness (C01) for the tables the pipeline actually emits, and agreement of the output variants
   (C05/C08) whenever the packed lookups equal the dense cells. *)
From Coq Require Import List Arith ZArith Bool Lia.
Import ListNotations.
From YG Require Import LRBase LR0Build LR0More Resolve TableCert PackCore DriverSim Values Pipeline PipelineProofs Drivers.
Local Open Scope nat_scope.

Section Ext.
Variables (n m : nat) (g : grammar).
Hypothesis n_pos : 0 < n.
Hypothesis eof_lt : eof < m.
Hypothesis lhs_lt : forall r R, nth_error g r = Some R -> lhs R < m.

Definition agree (t1 t2 : table) : Prop := forall q a, q < n -> a < m -> t1 q a = t2 q a.
Definition closed (t : table) : Prop := forall q a q', q < n -> a < m -> t q a = Shift q' -> q' < n.

Lemma top_state_lt stk : Forall (fun p : nat * nat => fst p < n) stk -> top_state stk < n.
Proof. destruct stk as [|[q x] stk]; cbn [top_state]; [intros _; exact n_pos|intro H; inversion H; subst; assumption]. Qed.
Lemma hd_lt inp : Forall (fun a => a < m) inp -> hd eof inp < m.
Proof. destruct inp; cbn [hd]; [intros _; exact eof_lt|intro H; inversion H; assumption]. Qed.
Lemma Forall_skipn {A} (P : A -> Prop) k l : Forall P l -> Forall P (skipn k l).
Proof. revert l; induction k; intros [|x l] H; cbn [skipn]; auto. inversion H; auto. Qed.
Lemma Forall_tl {A} (P : A -> Prop) l : Forall P l -> Forall P (tl l).
Proof. destruct l; cbn; auto. intro H; inversion H; auto. Qed.

(* the list-stack recogniser *)
Lemma run_ext t1 t2 : agree t1 t2 -> closed t1 -> forall fuel stk inp reds,
  Forall (fun p => fst p < n) stk -> Forall (fun a => a < m) inp ->
  run fuel t1 g stk inp reds = run fuel t2 g stk inp reds.
Proof.
  intros Hag Hcl. induction fuel as [|f IH]; intros stk inp reds Hs Hi; cbn [run]; [reflexivity|].
  pose proof (top_state_lt stk Hs) as Hq. pose proof (hd_lt inp Hi) as Ha.
  rewrite <- (Hag _ _ Hq Ha).
  destruct (t1 (top_state stk) (hd eof inp)) as [q'|r| |] eqn:Et; try reflexivity.
  - apply IH; [constructor; [cbn; eapply Hcl; eauto|exact Hs]|apply Forall_tl; exact Hi].
  - destruct (nth_error g r) as [R|] eqn:ER; [|reflexivity].
    cbv zeta. pose proof (Forall_skipn _ (length (rhs R)) _ Hs) as Hs'.
    destruct (skipn (length (rhs R)) stk) as [|p stk'] eqn:Ek; [reflexivity|].
    pose proof (top_state_lt _ Hs') as Hq'. pose proof (lhs_lt _ _ ER) as Hl.
    rewrite <- (Hag _ _ Hq' Hl).
    destruct (t1 (top_state (p :: stk')) (lhs R)) as [q'| | |] eqn:Eg; try reflexivity.
    apply IH; [constructor; [cbn; eapply Hcl; eauto|exact Hs']|exact Hi].
Qed.

(* the machine with values (what every generated driver computes, C08_array_driver) *)
Lemma la_lt inp : Forall (fun t : tok => fst t < m) inp -> la inp < m.
Proof. destruct inp as [|[a v] inp]; cbn [la]; [intros _; exact eof_lt|intro H; inversion H; assumption]. Qed.
Lemma arun_ext t1 t2 act : agree t1 t2 -> closed t1 -> forall fuel stk inp pos reds,
  stk <> [] -> Forall (fun e => e_st e < n) stk -> Forall (fun t : tok => fst t < m) inp ->
  arun t1 g act fuel stk inp pos reds = arun t2 g act fuel stk inp pos reds.
Proof.
  intros Hag Hcl. induction fuel as [|f IH]; intros stk inp pos reds Hne Hs Hi; cbn [arun]; [reflexivity|].
  destruct stk as [|top rest]; [contradiction|].
  assert (Hq : e_st top < n) by (inversion Hs; assumption). pose proof (la_lt inp Hi) as Ha.
  rewrite <- (Hag _ _ Hq Ha).
  destruct (t1 (e_st top) (la inp)) as [q'|r| |] eqn:Et; try reflexivity.
  - apply IH; [discriminate|constructor; [cbn; eapply Hcl; eauto|exact Hs]|apply Forall_tl; exact Hi].
  - destruct (nth_error g r) as [R|] eqn:ER; [|reflexivity].
    cbv zeta. pose proof (Forall_skipn _ (length (rhs R)) _ Hs) as Hs'.
    destruct (skipn (length (rhs R)) (top :: rest)) as [|below stk'] eqn:Ek; [reflexivity|].
    assert (Hq' : e_st below < n) by (inversion Hs'; assumption). pose proof (lhs_lt _ _ ER) as Hl.
    rewrite <- (Hag _ _ Hq' Hl).
    destruct (t1 (e_st below) (lhs R)) as [q'| | |] eqn:Eg; try reflexivity.
    apply IH; [discriminate|constructor; [cbn; eapply Hcl; eauto|exact Hs']|exact Hi].
Qed.
End Ext.

(* ---------- the dense matrix decodes back ---------- *)
Lemma decode_encode n a : (forall q, a = Shift q -> 0 < q < n) -> decode_z n (encode n a) = a.
Proof.
  intro H. unfold decode_z, encode, err_code, acc_code. destruct a as [q|r| |].
  - destruct (H q eq_refl) as [H0 Hn].
    destruct (Z.eqb_spec (Z.of_nat q) (Z.of_nat (n + 100))) as [E|_]; [lia|].
    destruct (Z.eqb_spec (Z.of_nat q) (Z.of_nat (n + 200))) as [E|_]; [lia|].
    destruct (Z.ltb_spec 0 (Z.of_nat q)) as [_|E]; [|lia]. rewrite Nat2Z.id. reflexivity.
  - destruct (Z.eqb_spec (- Z.of_nat r) (Z.of_nat (n + 100))) as [E|_]; [lia|].
    destruct (Z.eqb_spec (- Z.of_nat r) (Z.of_nat (n + 200))) as [E|_]; [lia|].
    destruct (Z.ltb_spec 0 (- Z.of_nat r)) as [E|_]; [lia|]. rewrite Z.opp_involutive, Nat2Z.id. reflexivity.
  - destruct (Z.eqb_spec (Z.of_nat (n + 200)) (Z.of_nat (n + 100))) as [E|_]; [lia|]. rewrite Z.eqb_refl. reflexivity.
  - rewrite Z.eqb_refl. reflexivity.
Qed.

Lemma dense_cell n nsyms (T : table) q a : q < n -> a < nsyms -> cellz (dense_of n nsyms T) q a = encode n (T q a).
Proof. intros Hq Ha. unfold cellz, dense_of. rewrite nth_map_seq0 by exact Hq. rewrite nth_map_seq0 by exact Ha. reflexivity. Qed.

Lemma dense_agrees n nsyms (T : table) :
  (forall q a q', q < n -> a < nsyms -> T q a = Shift q' -> 0 < q' < n) ->
  agree n nsyms T (dense_action n (dense_of n nsyms T)).
Proof.
  intros H q a Hq Ha. unfold dense_action. rewrite dense_cell by assumption. symmetry. apply decode_encode.
  intros q' E. eapply H; eauto.
Qed.

(* ---------- C01 for the tables the pipeline emits ---------- *)
Section Sound.
Variable gi : ginfo.
Let g := gi_rules gi.
Hypothesis no_start_in_rhs : forall r d, nth_error (rhs_of g r) d <> Some 0.
Hypothesis rule0_lhs : lhs_of g 0 = 0.
Hypothesis no_eof_in_rhs : forall r d, nth_error (rhs_of g r) d <> Some eof.
Hypothesis rule0 : exists S, rhs_of g 0 = [S].
Hypothesis nsyms_ok : eof < gi_nsyms gi.
Hypothesis lhs_ok : forall r R, nth_error g r = Some R -> lhs R < gi_nsyms gi.

Theorem pipeline_dense_sound t : generate_tables gi = inr t ->
  forall fuel w reds, (forall a, In a w -> a <> eof /\ a < gi_nsyms gi) ->
  run fuel (dense_action (length (t_aut t)) (t_dense t)) g [(0, eof)] w [] = Acc reds ->
  exists tr, valid g tr /\ Some (root g tr) = hd_error (rhs_of g 0) /\ yield tr = w /\ post tr = reds.
Proof.
  unfold generate_tables. fold g. destruct (unproductive gi); [|discriminate].
  destruct (build g) as [aut|] eqn:Eb; [|discriminate].
  intro H. inversion H; subst t. clear H. cbn [t_aut t_dense].
  set (nst := length aut). set (tabl := la_table g aut).
  set (T := action_fun gi aut tabl).
  intros fuel w reds Hw Hrun.
  pose proof (build_structural g no_start_in_rhs rule0_lhs no_eof_in_rhs aut Eb) as Hstruct.
  destruct (build_goto_lt g rule0_lhs no_eof_in_rhs aut Eb) as [Hpos Hlt].
  assert (Hglen : 0 < length g).
  { destruct rule0 as [S HS]. unfold rhs_of in HS. destruct (nth_error g 0) eqn:E; [|discriminate]. apply nth_error_Some. congruence. }
  destruct (build_more g Hglen (or_intror I) aut Eb) as (Hvalid & _).
  assert (Hitems : forall q r d, In (r, d) (items (LRBase.st aut q)) -> r < length g) by (intros q r d Hin; apply (Hvalid q (r, d) Hin)).
  pose proof (gen_table_cert g aut (la_lookup tabl) (sprec_of gi) (rprec_of gi) Hitems rule0 Hstruct) as Hcert.
  fold T in Hcert.
  assert (Hshift : forall q a q', q < nst -> a < gi_nsyms gi -> T q a = Shift q' -> 0 < q' < nst).
  { intros q a q' _ _ E. apply (c_shift _ _ _ Hcert) in E. split; [|eapply Hlt; exact E].
    destruct (c_goto _ _ _ Hcert _ _ _ E) as [Hne _]. lia. }
  assert (Hag : agree nst (gi_nsyms gi) T (dense_action nst (dense_of nst (gi_nsyms gi) T))) by (apply dense_agrees; exact Hshift).
  rewrite <- (run_ext nst (gi_nsyms gi) g Hpos nsyms_ok lhs_ok T _ Hag) in Hrun.
  - apply (C01_model g aut (la_lookup tabl) (sprec_of gi) (rprec_of gi) Hitems rule0 Hstruct fuel w reds); [intros a Ha; apply Hw; exact Ha|exact Hrun].
  - intros q a q' Hq Ha E. apply (Hshift q a q' Hq Ha E).
  - constructor; [cbn; exact Hpos|constructor].
  - apply Forall_forall. intros a Ha. apply Hw. exact Ha.
Qed.

(* ---------- C05 / C08: the output variants compute the same thing ---------- *)
Definition packed_agrees (t : tables) : Prop :=
  forall q a, q < length (t_aut t) -> a < gi_nsyms gi -> packed_lookup (t_packed t) q a = cellz (t_dense t) q a.

Theorem pipeline_variants_agree t : generate_tables gi = inr t -> packed_agrees t ->
  forall (v1 v2 : variant) (act : semact) (fuel : nat) (inp : list tok),
    (forall x, In x inp -> fst x < gi_nsyms gi) ->
    parse v1 t g act fuel inp = parse v2 t g act fuel inp.
Proof.
  intros Hgen Hpk v1 v2 act fuel inp Hinp.
  assert (Hparse : forall v, parse v t g act fuel inp = arun (table_of v t) g act fuel [init_entry] inp 0 []).
  { intro v. unfold parse, parse_from, parse_from_tab, init_b. destruct (is_object v).
    - apply reinit_object. right. reflexivity.
    - apply reinit_global. }
  rewrite !Hparse.
  revert Hgen Hpk. unfold generate_tables, packed_agrees. fold g. destruct (unproductive gi); [|discriminate].
  destruct (build g) as [aut|] eqn:Eb; [|discriminate].
  intro H. inversion H; subst t. clear H. cbn [t_aut t_dense t_packed].
  set (nst := length aut). set (tabl := la_table g aut). set (T := action_fun gi aut tabl).
  set (dense := dense_of nst (gi_nsyms gi) T).
  set (pk := compress dense (gi_nterm gi) (gi_nsyms gi) nst).
  intro Hpk.
  pose proof (build_structural g no_start_in_rhs rule0_lhs no_eof_in_rhs aut Eb) as Hstruct.
  destruct (build_goto_lt g rule0_lhs no_eof_in_rhs aut Eb) as [Hpos Hlt].
  assert (Hglen : 0 < length g).
  { destruct rule0 as [S HS]. unfold rhs_of in HS. destruct (nth_error g 0) eqn:E; [|discriminate]. apply nth_error_Some. congruence. }
  destruct (build_more g Hglen (or_intror I) aut Eb) as (Hvalid & _).
  assert (Hitems : forall q r d, In (r, d) (items (LRBase.st aut q)) -> r < length g) by (intros q r d Hin; apply (Hvalid q (r, d) Hin)).
  pose proof (gen_table_cert g aut (la_lookup tabl) (sprec_of gi) (rprec_of gi) Hitems rule0 Hstruct) as Hcert.
  fold T in Hcert.
  assert (Hshift : forall q a q', q < nst -> a < gi_nsyms gi -> T q a = Shift q' -> 0 < q' < nst).
  { intros q a q' _ _ E. apply (c_shift _ _ _ Hcert) in E. split; [|eapply Hlt; exact E].
    destruct (c_goto _ _ _ Hcert _ _ _ E) as [Hne _]. lia. }
  assert (HagD : agree nst (gi_nsyms gi) T (dense_action nst dense)) by (apply dense_agrees; exact Hshift).
  assert (Hclosed : closed nst (gi_nsyms gi) T) by (intros q a q' Hq Ha E; apply (Hshift q a q' Hq Ha E)).
  assert (HagV : forall v, agree nst (gi_nsyms gi) T (table_of v {| t_aut := aut; t_la := tabl; t_dense := dense; t_warn := warnings gi aut tabl; t_conf := conflict_cells gi aut tabl; t_packed := pk; t_need_packed := need_packed pk nst (gi_nsyms gi) |})).
  { intros v q a Hq Ha. unfold table_of. cbn [t_aut t_need_packed t_packed t_dense]. fold nst.
    destruct (is_packed v && need_packed pk nst (gi_nsyms gi)); [|apply HagD; assumption].
    unfold packed_action. rewrite (Hpk q a Hq Ha). apply HagD; assumption. }
  assert (Hst : Forall (fun e => e_st e < nst) [init_entry]) by (constructor; [exact Hpos|constructor]).
  assert (Hin : Forall (fun x : tok => fst x < gi_nsyms gi) inp) by (apply Forall_forall; exact Hinp).
  rewrite <- (arun_ext nst (gi_nsyms gi) g nsyms_ok lhs_ok T _ act (HagV v1) Hclosed fuel [init_entry] inp 0 [] ltac:(discriminate) Hst Hin).
  rewrite <- (arun_ext nst (gi_nsyms gi) g nsyms_ok lhs_ok T _ act (HagV v2) Hclosed fuel [init_entry] inp 0 [] ltac:(discriminate) Hst Hin).
  reflexivity.
Qed.

(* ---------- C06 / C07: no crash, no nil return, and the value of an accepted parse, for every variant ---------- *)
Theorem pipeline_values t : generate_tables gi = inr t -> packed_agrees t ->
  (* after every reduction the exposed state has a goto on the left-hand side *)
  (forall q r, In (r, 0) (items (LRBase.st (t_aut t) q)) -> r <> 0 -> r < length g ->
     exists q', gen_table g (t_aut t) (la_lookup (t_la t)) (sprec_of gi) (rprec_of gi) q (lhs_of g r) = Shift q') ->
  forall (v : variant) (act : semact) (fuel : nat) (inp : list tok),
    (forall x, In x inp -> fst x <> eof /\ fst x < gi_nsyms gi) ->
    match parse v t g act fuel inp with
    | RAcc value out =>
        exists tr : vtree, vvalid g tr /\ Some (vroot g tr) = hd_error (rhs_of g 0) /\ vyield tr = inp /\ vpost tr = out /\ value = veval act tr
    | RCrash | RNil => False
    | _ => True
    end.
Proof.
  intros Hgen Hpk Hgoto v act fuel inp Hinp.
  assert (Hparse : parse v t g act fuel inp = arun (table_of v t) g act fuel [init_entry] inp 0 []).
  { unfold parse, parse_from, parse_from_tab, init_b. destruct (is_object v).
    - apply reinit_object. right. reflexivity.
    - apply reinit_global. }
  rewrite Hparse. clear Hparse.
  revert Hgen Hpk Hgoto. unfold generate_tables, packed_agrees. fold g. destruct (unproductive gi); [|discriminate].
  destruct (build g) as [aut|] eqn:Eb; [|discriminate].
  intro H. inversion H; subst t. clear H. cbn [t_aut t_dense t_packed t_la].
  set (nst := length aut). set (tabl := la_table g aut). set (T := action_fun gi aut tabl).
  set (dense := dense_of nst (gi_nsyms gi) T).
  set (pk := compress dense (gi_nterm gi) (gi_nsyms gi) nst).
  intros Hpk Hgoto.
  pose proof (build_structural g no_start_in_rhs rule0_lhs no_eof_in_rhs aut Eb) as Hstruct.
  destruct (build_goto_lt g rule0_lhs no_eof_in_rhs aut Eb) as [Hpos Hlt].
  assert (Hglen : 0 < length g).
  { destruct rule0 as [S HS]. unfold rhs_of in HS. destruct (nth_error g 0) eqn:E; [|discriminate]. apply nth_error_Some. congruence. }
  destruct (build_more g Hglen (or_intror I) aut Eb) as (Hvalid & _).
  assert (Hitems : forall q r d, In (r, d) (items (LRBase.st aut q)) -> r < length g) by (intros q r d Hin; apply (Hvalid q (r, d) Hin)).
  pose proof (gen_table_cert g aut (la_lookup tabl) (sprec_of gi) (rprec_of gi) Hitems rule0 Hstruct) as Hcert.
  fold T in Hcert.
  assert (Hshift : forall q a q', q < nst -> a < gi_nsyms gi -> T q a = Shift q' -> 0 < q' < nst).
  { intros q a q' _ _ E. apply (c_shift _ _ _ Hcert) in E. split; [|eapply Hlt; exact E].
    destruct (c_goto _ _ _ Hcert _ _ _ E) as [Hne _]. lia. }
  assert (HagD : agree nst (gi_nsyms gi) T (dense_action nst dense)) by (apply dense_agrees; exact Hshift).
  assert (Hclosed : closed nst (gi_nsyms gi) T) by (intros q a q' Hq Ha E; apply (Hshift q a q' Hq Ha E)).
  assert (HagV : agree nst (gi_nsyms gi) T (table_of v {| t_aut := aut; t_la := tabl; t_dense := dense; t_warn := warnings gi aut tabl; t_conf := conflict_cells gi aut tabl; t_packed := pk; t_need_packed := need_packed pk nst (gi_nsyms gi) |})).
  { intros q a Hq Ha. unfold table_of. cbn [t_aut t_need_packed t_packed t_dense]. fold nst.
    destruct (is_packed v && need_packed pk nst (gi_nsyms gi)); [|apply HagD; assumption].
    unfold packed_action. rewrite (Hpk q a Hq Ha). apply HagD; assumption. }
  assert (Hst : Forall (fun e => e_st e < nst) [init_entry]) by (constructor; [exact Hpos|constructor]).
  assert (Hin : Forall (fun x : tok => fst x < gi_nsyms gi) inp) by (apply Forall_forall; intros x Hx; apply Hinp; exact Hx).
  rewrite <- (arun_ext nst (gi_nsyms gi) g nsyms_ok lhs_ok T _ act HagV Hclosed fuel [init_entry] inp 0 [] ltac:(discriminate) Hst Hin).
  apply (arun_values g act aut T Hcert Hgoto fuel inp [init_entry] inp 0 []).
  - intros a val Hx. apply (Hinp (a, val) Hx).
  - split; [constructor|]. exists [], 0%Z. cbn. repeat split; auto.
Qed.

(* the hypothesis packed_agrees follows from the boolean conditions of C05_lookup *)
Theorem packed_agrees_from_conditions t : generate_tables gi = inr t ->
  0 < gi_nsyms gi ->
  (forall s a, s < length (t_aut t) -> a < gi_nsyms gi -> cellz (t_dense t) s a <> 0%Z) ->
  (forall s, s < length (t_aut t) -> cellz (t_dense t) s 0 = err_code (length (t_aut t))) ->
  (forall s, s < length (t_aut t) -> (0 <= nth s (p_off (t_packed t)) 0 + Z.of_nat (S (gi_nterm gi)))%Z) ->
  packed_agrees t.
Proof.
  unfold generate_tables, packed_agrees. destruct (unproductive gi); [|discriminate].
  destruct (build (gi_rules gi)) as [aut|]; [|discriminate].
  intro H. inversion H; subst t. clear H. cbn [t_aut t_dense t_packed].
  set (nst := length aut). set (dense := dense_of nst (gi_nsyms gi) (action_fun gi aut (la_table (gi_rules gi) aut))).
  assert (Hlen : length dense = nst) by (unfold dense, dense_of; rewrite map_length, seq_length; reflexivity).
  intros Hc Hnz Hcol Hgo q a Hq Ha.
  rewrite <- Hlen in *. apply packed_lookup_correct; assumption.
Qed.
End Sound.
