(* Proofs about the whole model pipeline text -> tables. *)
From Coq Require Import List Ascii.
Import ListNotations.
From YG Require Import Lexer YParser YParserProofs Front Pipeline EndToEnd.

(* The model generator answers on every byte string, and "ran out of fuel in the parser" is never the answer:
   the outcome is a syntax verdict of the parser, a refusal of the front end, the state limit, or tables. *)
Theorem generate_text_never_out_of_fuel (s : list ascii) : generate_text s <> GSyntax PFuelOut.
Proof.
  unfold generate_text. pose proof (parse_text_total s) as H.
  destruct (parse_text s) as [a| | | |]; try (intros E; inversion E; fail); [| congruence].
  destruct (front a) as [e|b]; [discriminate|].
  destruct (generate_tables (b_gi b)) as [[l|]|t]; discriminate.
Qed.
