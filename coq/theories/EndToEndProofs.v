(* Proofs about the whole model pipeline text -> tables. *)
From Coq Require Import List Ascii.
Import ListNotations.
From YG Require Import Lexer YParser YParserProofs Front Pipeline EndToEnd.

(* The model generator answers on every byte string, and "ran out of fuel in the parser" is never the answer:
   the outcome is a syntax verdict of the parser, a refusal of the front end, the state limit, or tables. *)
Theorem generate_text_never_out_of_fuel (s : list ascii) : generate_text s <> GSyntax PFuelOut.
Proof.
  unfold generate_text. pose proof (parse_text_total s) as H.
  destruct (parse_text s) as [a| | | |]; try (intros E; inversion E; fail); [| congruence].
  destruct (front a) as [e|b]; [discriminate|].
  destruct (generate_tables (b_gi b)) as [[l|]|t]; discriminate.
Qed.

(* the executable form used by the extracted oracle: the same function with the row displacement computed once *)
From YG Require Import Fast.
Definition generate_text_fast (s : list ascii) : gen_result :=
  match parse_text s with
  | PAst a =>
    match front a with
    | inl e => GFront e
    | inr b =>
      match generate_tables_fast (b_gi b) with
      | inr t => GOk b t
      | inl (EUnproductive l) => GFront (FUnproductive l)
      | inl ETooManyStates => GTooMany
      end
    end
  | r => GSyntax r
  end.
Theorem generate_text_fast_eq s : generate_text_fast s = generate_text s.
Proof.
  unfold generate_text_fast, generate_text. destruct (parse_text s) as [a| | | |]; reflexivity.
Qed.

(* what "tables were generated from this text" means, stage by stage: the link that lets every theorem about
   parse_text, front and generate_tables be read as a theorem about the bytes of the grammar file *)
Theorem generate_text_ok s b t : generate_text s = GOk b t <->
  exists a, parse_text s = PAst a /\ front a = inr b /\ generate_tables (b_gi b) = inr t.
Proof.
  unfold generate_text. split.
  - destruct (parse_text s) as [a| | | |]; try discriminate.
    destruct (front a) as [e|b0] eqn:Ef; [discriminate|].
    destruct (generate_tables (b_gi b0)) as [[l|]|t0] eqn:Eg; try discriminate.
    intros H. inversion H; subst b0 t0. exists a. auto.
  - intros (a & -> & -> & ->). reflexivity.
Qed.
