From Coq Require Import List Arith.
Import ListNotations.
From YG Require Import LRBase LR0Build.
(* symbols: 0 start, 1 $, 2 '+', 3 '*', 4 '(', 5 ')', 6 id, 7 E, 8 T, 9 F *)
Definition g : grammar := [
  {| lhs := 0; rhs := [7] |};
  {| lhs := 7; rhs := [7;2;8] |}; {| lhs := 7; rhs := [8] |};
  {| lhs := 8; rhs := [8;3;9] |}; {| lhs := 8; rhs := [9] |};
  {| lhs := 9; rhs := [4;7;5] |}; {| lhs := 9; rhs := [6] |} ].
Definition r := Eval vm_compute in build g.
Eval vm_compute in option_map (@length _) r.
Eval vm_compute in option_map (fun a => map (fun s => (length (items s), gotos s)) a) r.
