(* Every cell of the emitted dense matrix, read the way the generated parsers read it, is the resolution of that cell's
   candidate actions (C04 at the level of the emitted tables). *)
From Coq Require Import List Arith ZArith Bool Lia.
Import ListNotations.
From YG Require Import LRBase LR0Build LR0More Resolve TableCert LAExec PackCore Pipeline PipelineRun.

Section Cell.
Variable gi : ginfo.
Let g := gi_rules gi.
Hypothesis no_start_in_rhs : forall r d, nth_error (rhs_of g r) d <> Some 0.
Hypothesis rule0_lhs : lhs_of g 0 = 0.
Hypothesis no_eof_in_rhs : forall r d, nth_error (rhs_of g r) d <> Some eof.
Hypothesis rule0 : exists S, rhs_of g 0 = [S].

Theorem pipeline_cell t : generate_tables gi = inr t ->
  forall q a, q < length (t_aut t) -> a < gi_nsyms gi ->
    dense_action (length (t_aut t)) (t_dense t) q a =
      match resolve (candidates g (t_aut t) (la_lookup (t_la t)) (sprec_of gi) (rprec_of gi) q a) with
      | Some (w, _) => decode (c_kind w)
      | None => Error
      end.
Proof.
  unfold generate_tables. fold g. destruct (unproductive gi); [|discriminate].
  destruct (build g) as [aut|] eqn:Eb; [|discriminate].
  intro H. inversion H; subst t. clear H. cbn [t_aut t_dense t_la].
  set (tabl := la_table g aut). set (T := action_fun gi aut tabl).
  pose proof (build_structural g no_start_in_rhs rule0_lhs no_eof_in_rhs aut Eb) as Hstruct.
  destruct (build_goto_lt g rule0_lhs no_eof_in_rhs aut Eb) as [Hpos Hlt].
  assert (Hglen : 0 < length g).
  { destruct rule0 as [S HS]. unfold rhs_of in HS. destruct (nth_error g 0) eqn:E; [|discriminate]. apply nth_error_Some. congruence. }
  destruct (build_more g Hglen (or_intror I) aut Eb) as (Hvalid & _).
  assert (Hitems : forall q r d, In (r, d) (items (LRBase.st aut q)) -> r < length g) by (intros q r d Hin; apply (Hvalid q (r, d) Hin)).
  pose proof (gen_table_cert g aut (la_lookup tabl) (sprec_of gi) (rprec_of gi) Hitems rule0 Hstruct) as Hcert.
  fold T in Hcert.
  assert (Hshift : forall q a q', T q a = Shift q' -> 0 < q' < length aut).
  { intros q a q' E. apply (c_shift _ _ _ Hcert) in E. split; [|eapply Hlt; exact E].
    destruct (c_goto _ _ _ Hcert _ _ _ E) as [Hne _]. lia. }
  assert (Hag : agree (length aut) (gi_nsyms gi) T (dense_action (length aut) (dense_of (length aut) (gi_nsyms gi) T))).
  { apply dense_agrees. intros q a q' _ _ E. apply (Hshift q a q' E). }
  intros q a Hq Ha. rewrite <- (Hag q a Hq Ha). reflexivity.
Qed.

(* a shift/reduce conflict between a token and a rule that both carry a precedence, in the emitted table *)
Corollary pipeline_sr_prec t q a q' r ps pr asc ar : generate_tables gi = inr t ->
  q < length (t_aut t) -> a < gi_nsyms gi ->
  candidates g (t_aut t) (la_lookup (t_la t)) (sprec_of gi) (rprec_of gi) q a = [sh q' ps asc; rd r pr ar] ->
  ps <> (-1)%Z -> pr <> (-1)%Z -> r <> 0 ->
  dense_action (length (t_aut t)) (t_dense t) q a =
    if (pr >? ps)%Z then Reduce r
    else if (pr <? ps)%Z then Shift q'
    else match ar, asc with
         | NONE, _ | _, NONE => Error
         | LEFT, _ => Reduce r
         | RIGHT, _ => Shift q'
         end.
Proof.
  intros Ht Hq Ha Hc Hps Hpr Hr. rewrite (pipeline_cell t Ht q a Hq Ha), Hc, (C04_sr_prec q' r ps pr asc ar Hps Hpr).
  destruct r as [|r]; [congruence|].
  destruct (pr >? ps)%Z; [reflexivity|]. destruct (pr <? ps)%Z; [reflexivity|]. destruct ar, asc; reflexivity.
Qed.

(* without applicable precedence: shift (and a warning is recorded, C03_warning_pipeline) *)
Corollary pipeline_sr_default t q a q' r ps pr asc ar : generate_tables gi = inr t ->
  q < length (t_aut t) -> a < gi_nsyms gi ->
  candidates g (t_aut t) (la_lookup (t_la t)) (sprec_of gi) (rprec_of gi) q a = [sh q' ps asc; rd r pr ar] ->
  ps = (-1)%Z \/ pr = (-1)%Z ->
  dense_action (length (t_aut t)) (t_dense t) q a = Shift q'.
Proof.
  intros Ht Hq Ha Hc Hp. rewrite (pipeline_cell t Ht q a Hq Ha), Hc, (C04_sr_default q' r ps pr asc ar Hp). reflexivity.
Qed.

(* reduce/reduce without applicable precedence: the rule that comes first in the grammar file *)
Corollary pipeline_rr_default t q a r1 r2 p1 p2 a1 a2 : generate_tables gi = inr t ->
  q < length (t_aut t) -> a < gi_nsyms gi ->
  candidates g (t_aut t) (la_lookup (t_la t)) (sprec_of gi) (rprec_of gi) q a = [rd r1 p1 a1; rd r2 p2 a2] ->
  p1 = (-1)%Z \/ p2 = (-1)%Z -> r1 < r2 -> r1 <> 0 ->
  dense_action (length (t_aut t)) (t_dense t) q a = Reduce r1.
Proof.
  intros Ht Hq Ha Hc Hp Hlt H0. rewrite (pipeline_cell t Ht q a Hq Ha), Hc, (C04_rr_default r1 r2 p1 p2 a1 a2 Hp Hlt).
  destruct r1; [congruence | reflexivity].
Qed.
End Cell.
