(* C05 - table compression is lossless *)
From Coq Require Import List Arith ZArith Bool Permutation.
Import ListNotations.
From YG Require Import LRBase CompleteDriver LR0Build LR0Complete LASuperset LASubset LAExec LR0More C03Assembly C02Assembly TableCert Resolve PackCore DriverSim Values Oracle Productive SortOrder LexRoundtrip.

(* row displacement with first-fit placement, trim of leading empty slots and the check vector: looking a cell up through the packed arrays returns the cell, for every matrix and every duplicate-free row order covering all rows *)
Theorem C05_lookup_core :
  forall (rows cols : nat) (cell : nat -> nat -> Z) (order : list nat),
         NoDup order ->
         (forall i : nat, (i < rows)%nat -> In i order) ->
         forall i j : nat, (i < rows)%nat -> (j < cols)%nat -> lookup cols cell order i j = cell i j.
Proof. exact PackCore.lookup_correct. Qed.
Print Assumptions C05_lookup_core.
