(* C05 - table compression is lossless *)
From Coq Require Import List Arith ZArith Bool Permutation.
Import ListNotations.
From YG Require Import LRBase CompleteDriver LR0Build LR0Complete LASuperset LASubset LAExec LR0More C03Assembly C02Assembly TableCert Resolve PackCore DriverSim Values Oracle Productive SortOrder LexRoundtrip.

(* row displacement with first-fit placement, trim of leading empty slots and the check vector: looking a cell up through the packed arrays returns the cell, for every matrix and every duplicate-free row order covering all rows *)
Theorem C05_lookup_core :
  forall (rows cols : nat) (cell : nat -> nat -> Z) (order : list nat),
         NoDup order ->
         (forall i : nat, (i < rows)%nat -> In i order) ->
         forall i j : nat, (i < rows)%nat -> (j < cols)%nat -> lookup cols cell order i j = cell i j.
Proof. exact PackCore.lookup_correct. Qed.
Print Assumptions C05_lookup_core.

From YG Require Import Pipeline PipelineProofs.

(* the packing routine as run by the model pipeline (stable sort of the rows by number of non-zero
   cells, first-fit displacement, check vector, trim of leading empty slots) and UnPackTable: every
   rectangular integer matrix comes back unchanged *)
Theorem C05_pack_roundtrip :
  forall (m : list (list Z)) (cols : nat),
    rectangular m cols ->
    let '(t, d, c) := pack_matrix m cols in unpack (length m) cols t d c = m.
Proof. exact PipelineProofs.unpack_pack. Qed.
Print Assumptions C05_pack_roundtrip.

(* the generated Action() over the packed arrays with the default-action and default-goto vectors
   (TrySplitTable: cells equal to their row / column default are blanked before packing; Action() answers
   ERROR_ACTION on a negative slot) returns exactly the entry of the uncompressed table, for every dense
   table without 0 entries whose column 0 is the error code, provided no goto column can land on a
   negative slot (a boolean condition on the packed arrays, evaluated on the arrays of the implementation for every corpus grammar of every run; the two conditions on the dense table are theorems for emitted tables: C05_conditions_hold) *)
Theorem C05_lookup :
  forall (dense : list (list Z)) (nterm nsyms : nat),
    (0 < nsyms)%nat ->
    (forall s a : nat, (s < length dense)%nat -> (a < nsyms)%nat -> cellz dense s a <> 0%Z) ->
    (forall s : nat, (s < length dense)%nat -> cellz dense s 0 = err_code (length dense)) ->
    (forall s : nat, (s < length dense)%nat ->
       (0 <= nth s (p_off (compress dense nterm nsyms (length dense))) 0 + Z.of_nat (S nterm))%Z) ->
    forall s a : nat, (s < length dense)%nat -> (a < nsyms)%nat ->
      packed_lookup (compress dense nterm nsyms (length dense)) s a = cellz dense s a.
Proof. exact PipelineProofs.packed_lookup_correct. Qed.
Print Assumptions C05_lookup.

From YG Require Import LRBase Pipeline PipelineRun Drivers DriverSim.
Close Scope Z_scope.
Open Scope nat_scope.

(* the packed lookups of the generated tables equal the dense cells whenever no dense cell is 0, column 0 is the error code and no goto column can land on a negative slot (three boolean conditions on the generated arrays) *)
Theorem C05_packed_agrees :
  forall (gi : ginfo) (t : tables),
         generate_tables gi = inr t ->
         0 < gi_nsyms gi ->
         (forall s a : nat, s < length (t_aut t) -> a < gi_nsyms gi -> cellz (t_dense t) s a <> 0%Z) ->
         (forall s : nat, s < length (t_aut t) -> cellz (t_dense t) s 0 = err_code (length (t_aut t))) ->
         (forall s : nat,
          s < length (t_aut t) -> (0 <= nth s (p_off (t_packed t)) 0 + Z.of_nat (S (gi_nterm gi)))%Z) ->
         packed_agrees gi t.
Proof. exact PipelineRun.packed_agrees_from_conditions. Qed.
Print Assumptions C05_packed_agrees.

From YG Require Import LRBase CompleteDriver Pipeline PipelineConds.
Close Scope Z_scope.
Open Scope nat_scope.

(* two of the three conditions hold for every table generate_tables emits: no cell is 0, and the column of the internal start symbol holds the error code (LR(1) lookaheads are terminals) *)
Theorem C05_conditions_hold :
  forall gi : ginfo,
         (forall r d : nat, nth_error (rhs_of (gi_rules gi) r) d <> Some 0) ->
         lhs_of (gi_rules gi) 0 = 0 ->
         (forall r d : nat, nth_error (rhs_of (gi_rules gi) r) d <> Some eof) ->
         rhs_of (gi_rules gi) 0 = [start_user (gi_rules gi)] ->
         ~ is_nt (gi_rules gi) eof ->
         (forall (seq : list nat) (l : nat),
          ~ is_nt (gi_rules gi) l -> exists b : nat, first_seq (gi_rules gi) (seq ++ [l]) b) ->
         eof < gi_nsyms gi ->
         forall t : tables,
         generate_tables gi = inr t ->
         (forall s a : nat, s < length (t_aut t) -> a < gi_nsyms gi -> cellz (t_dense t) s a <> 0%Z) /\
         (forall s : nat, s < length (t_aut t) -> cellz (t_dense t) s 0 = err_code (length (t_aut t))).
Proof. exact PipelineConds.pipeline_cells. Qed.
Print Assumptions C05_conditions_hold.

From YG Require Import LRBase CompleteDriver Pipeline PipelineRun PipelineConds.
Close Scope Z_scope.
Open Scope nat_scope.

(* so the packed lookups of an emitted table equal its dense cells as soon as no goto column can land on a negative slot: one boolean condition on the offset vector, evaluated on the implementation's arrays for every corpus grammar on every run *)
Theorem C05_packed_agrees_offsets :
  forall gi : ginfo,
         (forall r d : nat, nth_error (rhs_of (gi_rules gi) r) d <> Some 0) ->
         lhs_of (gi_rules gi) 0 = 0 ->
         (forall r d : nat, nth_error (rhs_of (gi_rules gi) r) d <> Some eof) ->
         rhs_of (gi_rules gi) 0 = [start_user (gi_rules gi)] ->
         ~ is_nt (gi_rules gi) eof ->
         (forall (seq : list nat) (l : nat),
          ~ is_nt (gi_rules gi) l -> exists b : nat, first_seq (gi_rules gi) (seq ++ [l]) b) ->
         eof < gi_nsyms gi ->
         forall t : tables,
         generate_tables gi = inr t ->
         (forall s : nat,
          s < length (t_aut t) -> (0 <= nth s (p_off (t_packed t)) 0 + Z.of_nat (S (gi_nterm gi)))%Z) ->
         packed_agrees gi t.
Proof. exact PipelineConds.packed_agrees_from_offsets. Qed.
Print Assumptions C05_packed_agrees_offsets.

From YG Require Import LRBase CompleteDriver LR0Build Resolve PackCore Pipeline PipelineRun Front WfGrammar YParser EndToEnd EndToEndWf.
Close Scope Z_scope.
Open Scope nat_scope.

(* from the bytes of the grammar file: the packed lookup of every (state, symbol) equals the cell of the matrix, under the one condition on the offset vector that is evaluated on the arrays of every run (the conditions on the matrix itself - no zero cell, error code in column 0 - are proved for every text) *)
Theorem C05_from_the_text :
  forall (s : list Ascii.ascii) (b : built) (t : tables),
         generate_text s = GOk b t ->
         (forall q : nat,
          q < length (t_aut t) -> (0 <= nth q (p_off (t_packed t)) 0 + Z.of_nat (S (gi_nterm (b_gi b))))%Z) ->
         packed_agrees (b_gi b) t.
Proof. exact EndToEndWf.text_packed_agrees. Qed.
Print Assumptions C05_from_the_text.

From YG Require Import LRBase PackCore Pipeline PipelineProofs PackOffsets.
Close Scope Z_scope.
Open Scope nat_scope.

(* the condition on the offset vector is itself a consequence of the two proved conditions as soon as every row has a non-error cell among the terminal columns (that cell, or the error code in column 0, differs from the row default and is stored at offset + column >= 0) *)
Theorem C05_offsets_from_actions :
  forall (dense : list (list Z)) (nterm nsyms : nat),
         0 < nsyms ->
         (forall s a : nat, s < length dense -> a < nsyms -> cellz dense s a <> 0%Z) ->
         (forall s : nat, s < length dense -> cellz dense s 0 = err_code (length dense)) ->
         (forall s : nat,
          s < length dense ->
          exists a : nat, a <= nterm /\ a < nsyms /\ cellz dense s a <> err_code (length dense)) ->
         forall s : nat,
         s < length dense ->
         (0 <= nth s (p_off (compress dense nterm nsyms (length dense))) 0 + Z.of_nat (S nterm))%Z.
Proof. exact PackOffsets.offsets_from_actions. Qed.
Print Assumptions C05_offsets_from_actions.

From YG Require Import LRBase CompleteDriver LR0Build Resolve PackCore Pipeline PipelineRun Front WfGrammar YParser EndToEnd EndToEndWf PackOffsetsText.
Close Scope Z_scope.
Open Scope nat_scope.

(* from the bytes of the grammar file, with the condition stated on the matrix alone: if every state has some action other than the error action on a terminal column, the packed lookup of every (state, symbol) equals the cell of the matrix *)
Theorem C05_from_the_text_actions :
  forall (s : list Ascii.ascii) (b : built) (t : tables),
         generate_text s = GOk b t ->
         (forall q : nat,
          q < length (t_aut t) ->
          exists a : nat,
            a <= gi_nterm (b_gi b) /\
            a < gi_nsyms (b_gi b) /\ cellz (t_dense t) q a <> err_code (length (t_aut t))) ->
         packed_agrees (b_gi b) t.
Proof. exact PackOffsetsText.text_packed_agrees_actions. Qed.
Print Assumptions C05_from_the_text_actions.
