(* Originally a design-phase spike: a generic fuelled saturation "add successors until nothing
   new appears", with soundness, closedness and fuel sufficiency by counting. It is the common
   core of item-set closure, reads*, includes*, nullable paths and DFS reachability. *)
From Coq Require Import List Arith Lia Bool Relations.
Import ListNotations.

Section Sat.
Variable A : Type.
Variable eqb : A -> A -> bool.
Hypothesis eqb_eq : forall a b, eqb a b = true <-> a = b.
Variable succ : A -> list A.

Fixpoint mem (x : A) (l : list A) : bool := match l with [] => false | y :: l' => eqb x y || mem x l' end.
Lemma mem_In x l : mem x l = true <-> In x l.
Proof. induction l; simpl; [split; [discriminate|tauto]|]. rewrite orb_true_iff, eqb_eq, IHl. split; intros [H|H]; auto. Qed.

Fixpoint add_new (news I : list A) : list A :=
  match news with [] => I | x :: n' => if mem x I then add_new n' I else add_new n' (I ++ [x]) end.
Definition round (I : list A) : list A := add_new (flat_map succ I) I.
Fixpoint saturate (fuel : nat) (I : list A) : list A :=
  match fuel with
  | 0 => I
  | S f => let I' := round I in if Nat.eqb (length I') (length I) then I else saturate f I'
  end.

Lemma add_new_In news I x : In x (add_new news I) -> In x I \/ In x news.
Proof.
  revert I; induction news as [|y n IH]; intros I H; simpl in *; auto.
  destruct (mem y I); apply IH in H; [tauto|]. destruct H as [H|H]; auto. apply in_app_or in H. simpl in H. tauto.
Qed.
Lemma add_new_incl news I x : In x I -> In x (add_new news I).
Proof. revert I; induction news as [|y n IH]; intros I H; simpl; auto. destruct (mem y I); apply IH; auto. apply in_or_app; auto. Qed.
Lemma add_new_length news I : length I <= length (add_new news I).
Proof.
  revert I; induction news as [|y n IH]; intros I; simpl; auto.
  destruct (mem y I); auto. etransitivity; [|apply IH]. rewrite app_length; simpl; lia.
Qed.
Lemma add_new_same news I : length (add_new news I) = length I -> forall x, In x news -> In x I.
Proof.
  revert I; induction news as [|y n IH]; intros I H x Hx; simpl in *; [tauto|].
  destruct (mem y I) eqn:E.
  - destruct Hx as [<-|Hx]; [apply mem_In; auto|]. apply IH; auto.
  - exfalso. pose proof (add_new_length n (I ++ [y])) as Hl. rewrite app_length in Hl. simpl in Hl. lia.
Qed.
Lemma add_new_nodup news I : NoDup I -> NoDup (add_new news I).
Proof.
  revert I; induction news as [|y n IH]; intros I H; simpl; auto.
  destruct (mem y I) eqn:E; auto. apply IH.
  apply NoDup_rev in H. rewrite <- (rev_involutive (I ++ [y])). apply NoDup_rev. rewrite rev_app_distr. simpl.
  constructor; auto. intros Hin. apply in_rev in Hin. apply mem_In in Hin. congruence.
Qed.

Definition step (a b : A) : Prop := In b (succ a).
Definition closed (I : list A) : Prop := forall a b, In a I -> step a b -> In b I.

(* soundness: everything in the result is reachable from the start set *)
Lemma saturate_sound fuel : forall I0 I, (forall x, In x I -> exists s, In s I0 /\ clos_refl_trans _ step s x) ->
  forall x, In x (saturate fuel I) -> exists s, In s I0 /\ clos_refl_trans _ step s x.
Proof.
  induction fuel as [|f IH]; intros I0 I H x Hx; simpl in Hx; auto.
  destruct (Nat.eqb _ _); auto. eapply IH; [|exact Hx].
  intros y Hy. apply add_new_In in Hy. destruct Hy as [Hy|Hy]; auto.
  apply in_flat_map in Hy. destruct Hy as (a & Ha & Hb). destruct (H a Ha) as (s & Hs & Hr).
  exists s. split; auto. eapply rt_trans; [exact Hr|apply rt_step; exact Hb].
Qed.
Lemma saturate_incl fuel : forall I x, In x I -> In x (saturate fuel I).
Proof. induction fuel as [|f IH]; intros I x H; simpl; auto. destruct (Nat.eqb _ _); auto. apply IH, add_new_incl; auto. Qed.

(* closedness, given a finite universe that bounds the growth *)
Lemma saturate_closed (U : list A) fuel : forall I, NoDup I -> incl I U -> (forall a b, In a U -> step a b -> In b U) ->
  length U < length I + fuel -> closed (saturate fuel I).
Proof.
  induction fuel as [|f IH]; intros I Hnd Hincl HU Hlen; simpl.
  - exfalso. pose proof (NoDup_incl_length Hnd Hincl). lia.
  - destruct (Nat.eqb_spec (length (round I)) (length I)) as [E|E].
    + intros a b Ha Hb. unfold round in E. eapply add_new_same; eauto. apply in_flat_map. exists a; auto.
    + apply IH; auto.
      * apply add_new_nodup; auto.
      * intros x Hx. apply add_new_In in Hx. destruct Hx as [Hx|Hx]; auto.
        apply in_flat_map in Hx. destruct Hx as (a & Ha & Hb). eapply HU; eauto.
      * pose proof (add_new_length (flat_map succ I) I). unfold round in *. lia.
Qed.

(* a closed set containing the start contains everything reachable *)
Lemma closed_reach I s x : closed I -> In s I -> clos_refl_trans _ step s x -> In x I.
Proof. intros Hc Hs Hr. apply clos_rt_rt1n in Hr. induction Hr; auto. apply IHHr. eapply Hc; eauto. Qed.

Theorem saturate_spec (U : list A) I0 : NoDup I0 -> incl I0 U -> (forall a b, In a U -> step a b -> In b U) ->
  forall x, In x (saturate (S (length U)) I0) <-> exists s, In s I0 /\ clos_refl_trans _ step s x.
Proof.
  intros Hnd Hincl HU x. split.
  - apply saturate_sound. intros y Hy. exists y. split; auto. apply rt_refl.
  - intros (s & Hs & Hr). eapply closed_reach; [|apply saturate_incl; exact Hs|exact Hr].
    apply (saturate_closed U); auto. lia.
Qed.

End Sat.
Print Assumptions saturate_spec.
