(* C03, second sentence, for the tables the pipeline emits: a conflict warning is recorded for a cell exactly when the
   candidate actions of that cell - the shift on the symbol and the reductions whose (exact LALR(1), PipelineLA)
   lookahead set contains it - meet, in the pairwise resolution, a pair that the precedence declarations do not decide. *)
From Coq Require Import List Arith ZArith Bool Lia.
Import ListNotations.
From YG Require Import LRBase LR0Build Resolve TableCert LAExec PackCore Pipeline.

Lemma warn_pairs_lacks : forall rest a, (exists w, In w (warn_pairs a rest)) <-> lacks_prec a rest.
Proof.
  induction rest as [|b rest IH]; intros a; cbn [warn_pairs lacks_prec].
  - split; [intros [w []] | intros []].
  - destruct (resolve_pair a b) as [w|]; [apply IH|].
    split; [auto | intros _; eexists; left; reflexivity].
Qed.

Definition cell_undecided (l : list cand) : Prop := match l with c :: rest => lacks_prec c rest | [] => False end.
Lemma cell_warnings_undecided l : (exists w, In w (cell_warnings l)) <-> cell_undecided l.
Proof. destruct l as [|c rest]; cbn [cell_warnings cell_undecided]; [split; [intros [w []] | intros []] | apply warn_pairs_lacks]. Qed.

Theorem pipeline_warnings gi t : generate_tables gi = inr t ->
  forall q a,
    (exists w, In (q, a, w) (t_warn t)) <->
    q < length (t_aut t) /\ a < gi_nsyms gi /\
    cell_undecided (candidates (gi_rules gi) (t_aut t) (la_lookup (t_la t)) (sprec_of gi) (rprec_of gi) q a).
Proof.
  unfold generate_tables. destruct (unproductive gi); [|discriminate].
  destruct (build (gi_rules gi)) as [aut|]; [|discriminate].
  intro H. inversion H; subst t. clear H. cbn [t_aut t_warn t_la].
  intros q a. unfold warnings. split.
  - intros [w Hin]. apply in_flat_map in Hin. destruct Hin as (q0 & Hq & Hin). apply in_flat_map in Hin. destruct Hin as (a0 & Ha & Hin).
    apply in_map_iff in Hin. destruct Hin as (w0 & E & Hw). inversion E; subst q0 a0 w0. clear E.
    apply in_seq in Hq. apply in_seq in Ha. split; [lia|]. split; [lia|]. apply cell_warnings_undecided. eauto.
  - intros (Hq & Ha & Hu). apply cell_warnings_undecided in Hu. destruct Hu as [w Hw]. exists w.
    apply in_flat_map. exists q. split; [apply in_seq; lia|]. apply in_flat_map. exists a. split; [apply in_seq; lia|].
    apply in_map_iff. exists w. auto.
Qed.

(* a cell with fewer than two candidate actions never warns: warnings only come from conflicts *)
Lemma undecided_needs_two l : cell_undecided l -> 2 <= length l.
Proof. destruct l as [|c [|b rest]]; cbn [cell_undecided lacks_prec length]; [intros [] | intros [] | lia]. Qed.

(* and if every pair that can meet carries a precedence on both sides, nothing is reported *)
Lemma decided_pair a b : c_prec a <> (-1)%Z -> c_prec b <> (-1)%Z -> resolve_pair a b <> None.
Proof.
  intros Ha Hb. unfold resolve_pair.
  destruct (is_reduce b && is_shift a); cbv beta iota zeta;
    (destruct (Z.eqb_spec (c_prec a) (-1)); [contradiction|]); (destruct (Z.eqb_spec (c_prec b) (-1)); [contradiction|]); cbn [orb];
    repeat match goal with |- context [if ?c then _ else _] => destruct c end;
    try discriminate; repeat match goal with |- context [match ?x with LEFT => _ | RIGHT => _ | NONE => _ end] => destruct x end; discriminate.
Qed.
