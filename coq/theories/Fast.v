(* The part of the back end up to the dense table (without row displacement), for grammars whose tables are too large for
   the list-based first-fit search of the model to finish in reasonable time.  Proved equal to the corresponding fields of
   Pipeline.generate_tables, so that every theorem about generate_tables speaks about what this function returns. *)
From Coq Require Import List Arith ZArith Bool.
Import ListNotations.
From YG Require Import LRBase LR0Build Productive Resolve TableCert LASuperset LAExec PackCore Pipeline.

Record dense_tables := {
  dt_aut : automaton;
  dt_la : list (list (nat * list nat));
  dt_dense : list (list Z);
  dt_warn : list (nat * nat * (nat * nat));
  dt_conf : list (nat * nat)
}.

Definition generate_dense (gi : ginfo) : gen_error + dense_tables :=
  match unproductive gi with
  | (_ :: _) as l => inl (EUnproductive l)
  | [] =>
    match build (gi_rules gi) with
    | None => inl ETooManyStates
    | Some aut =>
      let n := length aut in
      let tabl := la_table (gi_rules gi) aut in
      let dense := dense_of n (gi_nsyms gi) (action_fun gi aut tabl) in
      inr {| dt_aut := aut; dt_la := tabl; dt_dense := dense;
             dt_warn := warnings gi aut tabl; dt_conf := conflict_cells gi aut tabl |}
    end
  end.

Definition dense_part (t : tables) : dense_tables :=
  {| dt_aut := t_aut t; dt_la := t_la t; dt_dense := t_dense t; dt_warn := t_warn t; dt_conf := t_conf t |}.

Theorem generate_dense_spec gi :
  generate_dense gi = match generate_tables gi with inl e => inl e | inr t => inr (dense_part t) end.
Proof.
  unfold generate_dense, generate_tables. destruct (unproductive gi); [|reflexivity].
  destruct (build (gi_rules gi)); reflexivity.
Qed.

(* ---------- the same pipeline with the row displacement computed once ----------
   PackCore.T', C' and D each start from `place_all order`; Pipeline.pack_matrix asks for D once per row, so the extracted
   code repeated the whole first-fit search once per row.  Here the search result is shared.  Same terms up to
   unfolding: the equalities are by computation. *)
Definition pack_matrix_fast (m : list (list Z)) (cols : nat) : list Z * list Z * list Z :=
  let rows := length m in
  let order := row_order m in
  let s := PackCore.place_all cols (cellz m) order in
  let occ := fst (fst s) in
  let disp := snd (fst s) in
  let slots := snd s in
  let n := S (list_max occ) in
  let tarr := map (fun p => match PackCore.assoc p slots with Some (i, j) => cellz m i j | None => 0%Z end) (seq 0 n) in
  let carr := map (fun p => match PackCore.assoc p slots with Some (i, _) => Z.of_nat i | None => (-1)%Z end) (seq 0 n) in
  let trim := PackCore.lead0 tarr in
  (skipn trim tarr,
   map (fun i => (match PackCore.assoc i disp with Some d => Z.of_nat d | None => 0 end - Z.of_nat trim)%Z) (seq 0 rows),
   skipn trim carr).

Lemma pack_matrix_fast_eq m cols : pack_matrix_fast m cols = pack_matrix m cols.
Proof. reflexivity. Qed.

Definition compress_fast (dense : list (list Z)) (nterm nsyms nstates : nat) : packed :=
  let '(t, d, c) := pack_matrix_fast (blanked dense nterm nsyms) nsyms in
  {| p_act := t; p_off := d; p_chk := c;
     p_adef := act_defaults dense nterm; p_gdef := goto_defaults dense nterm nsyms;
     p_nterm := nterm; p_err := err_code nstates |}.
Lemma compress_fast_eq dense nterm nsyms nstates : compress_fast dense nterm nsyms nstates = compress dense nterm nsyms nstates.
Proof. unfold compress_fast, compress. rewrite pack_matrix_fast_eq. reflexivity. Qed.

Definition generate_tables_fast (gi : ginfo) : gen_error + tables :=
  match unproductive gi with
  | (_ :: _) as l => inl (EUnproductive l)
  | [] =>
    match build (gi_rules gi) with
    | None => inl ETooManyStates
    | Some aut =>
      let n := length aut in
      let tabl := la_table (gi_rules gi) aut in
      let dense := dense_of n (gi_nsyms gi) (action_fun gi aut tabl) in
      let p := compress_fast dense (gi_nterm gi) (gi_nsyms gi) n in
      inr {| t_aut := aut; t_la := tabl; t_dense := dense;
             t_warn := warnings gi aut tabl;
             t_conf := conflict_cells gi aut tabl;
             t_packed := p; t_need_packed := need_packed p n (gi_nsyms gi) |}
    end
  end.

Theorem generate_tables_fast_eq gi : generate_tables_fast gi = generate_tables gi.
Proof.
  unfold generate_tables_fast, generate_tables. destruct (unproductive gi); [|reflexivity].
  destruct (build (gi_rules gi)); [|reflexivity]. cbv zeta. rewrite compress_fast_eq. reflexivity.
Qed.
