(* Every grammar object the front end delivers meets the well-formedness check under which the back-end theorems are
   stated (WfGrammar.wf_gi): rule 0 is 0 -> [S] with S a symbol of the file, no right-hand side mentions the internal
   start symbol or the end marker, every symbol is below nsyms, the end marker is no left-hand side.
   This is where F26 was found: before the repair a token declared with the code -1 (which gets no grammar symbol) could be
   named in a rule, and the name `start` then resolved to the internal start symbol.
   The one hypothesis - no rule is headed by a symbol literally called "$" - is discharged for every text in ParsedNames.v
   (the lexer produces no such identifier). *)
From Coq Require Import List Arith ZArith Bool Ascii NArith Lia Permutation.
Import ListNotations.
From YG Require Import LRBase Productive Resolve Pipeline Front FrontProofs FrontCodes FrontUsable WfGrammar.
Local Open Scope nat_scope.

Definition dsym : gsym := mkGsym [] 0%Z [] false 0%Z Resolve.NONE.

(* ---------- SymbolsMap lookup: the last symbol with the name ---------- *)
Lemma sif_spec syms n : forall k acc i, sym_index_from syms n k acc = Some i ->
  acc = Some i \/ (k <= i < k + length syms /\ name_eqb (s_name (nth (i - k) syms dsym)) n = true).
Proof.
  induction syms as [|s syms IH]; intros k acc i H; cbn [sym_index_from] in H; [left; exact H|].
  apply IH in H. destruct H as [H|[Hr Hm]].
  - destruct (name_eqb (s_name s) n) eqn:E; [|left; exact H].
    inversion H; subst i. right. split; [cbn [length]; lia|]. replace (k - k) with 0 by lia. exact E.
  - right. split; [cbn [length]; lia|]. replace (i - k) with (S (i - S k)) by lia. exact Hm.
Qed.

Lemma sif_acc syms n : forall k a, exists i, sym_index_from syms n k (Some a) = Some i /\ (i = a \/ k <= i).
Proof.
  induction syms as [|s syms IH]; intros k a; cbn [sym_index_from]; [exists a; auto|].
  destruct (name_eqb (s_name s) n).
  - destruct (IH (S k) k) as (i & Hi & [Heq|Hge]); exists i; (split; [exact Hi|right; lia]).
  - destruct (IH (S k) a) as (i & Hi & [Heq|Hge]); exists i; (split; [exact Hi|]); [left; exact Heq|right; lia].
Qed.

Lemma sif_hit syms n : forall k acc j, j < length syms -> name_eqb (s_name (nth j syms dsym)) n = true ->
  exists i, sym_index_from syms n k acc = Some i /\ k + j <= i.
Proof.
  induction syms as [|s syms IH]; intros k acc j Hj Hm; [cbn in Hj; lia|]. cbn [sym_index_from]. destruct j as [|j].
  - cbn [nth] in Hm. rewrite Hm. destruct (sif_acc syms n (S k) k) as (i & Hi & [Heq|Hge]); exists i; (split; [exact Hi|lia]).
  - cbn [nth] in Hm. cbn [length] in Hj. destruct (IH (S k) (if name_eqb (s_name s) n then Some k else acc) j ltac:(lia) Hm) as (i & Hi & Hge).
    exists i. split; [exact Hi|lia].
Qed.

Lemma sym_index_lt syms n i : sym_index syms n = Some i -> i < length syms /\ name_eqb (s_name (nth i syms dsym)) n = true.
Proof.
  unfold sym_index. intros H. apply sif_spec in H. destruct H as [H|[Hr Hm]]; [discriminate|].
  rewrite Nat.sub_0_r in Hm. split; [lia|exact Hm].
Qed.

Lemma sym_index_ge syms n i j : sym_index syms n = Some i -> j < length syms -> s_name (nth j syms dsym) = n -> j <= i.
Proof.
  unfold sym_index. intros H Hj Hn. destruct (sif_hit syms n 0 None j Hj) as (i' & Hi' & Hge).
  - rewrite Hn. apply name_eqb_refl.
  - rewrite H in Hi'. inversion Hi'; subst. lia.
Qed.

Lemma map_opt_in {A B} (f : A -> option B) : forall l ys y, map_opt f l = Some ys -> In y ys -> exists x, In x l /\ f x = Some y.
Proof.
  induction l as [|x l IH]; intros ys y H Hy; cbn [map_opt] in H.
  - inversion H; subst. destruct Hy.
  - destruct (f x) as [y0|] eqn:Ef; [|discriminate]. destruct (map_opt f l) as [ys0|] eqn:El; [|discriminate].
    inversion H; subst ys. destruct Hy as [<-|Hy].
    + exists x. split; [left; reflexivity|exact Ef].
    + destruct (IH ys0 y eq_refl Hy) as (x' & Hx' & Hf). exists x'. split; [right; exact Hx'|exact Hf].
Qed.

(* ---------- a name that may be used in a rule has a grammar symbol of its own (index 2 or more) ---------- *)
Lemma sym_of_ident_name pl i : s_name (sym_of_ident pl i) = i_name i.
Proof. unfold sym_of_ident. destruct (i_typ i); [destruct (pre_map pl (i_name i)) as [[[p a] x]|]|]; reflexivity. Qed.

Lemma usable_in_ordered tab nm : tab_usable tab nm = true -> exists i, In i (ordered_idents tab) /\ i_name i = nm.
Proof.
  unfold tab_usable. destruct (tab_find tab nm) as [i|] eqn:Ef; [|discriminate]. intros Hv.
  destruct (tab_find_name tab nm i Ef) as [Hn Hin]. exists i. split; [|exact Hn].
  assert (Hs : In i (flat_map (fun n => match tab_find tab n with Some i => [i] | None => [] end) (sort_names (tab_names tab)))).
  { apply in_flat_map. exists nm. split.
    - apply (Permutation_in _ (Permutation_sym (sort_names_perm (tab_names tab)))). unfold tab_names. rewrite <- Hn. apply in_map. exact Hin.
    - rewrite Ef. left. reflexivity. }
  unfold ordered_idents. apply in_or_app. destruct (i_typ i) eqn:Et.
  - left. apply filter_In. split; [|exact Hv]. apply filter_In. split; [exact Hs|rewrite Et; reflexivity].
  - right. apply filter_In. split; [|exact Hv]. apply filter_In. split; [exact Hs|rewrite Et; reflexivity].
Qed.

Section Build.
Variable v : visited.
Let syms := symbols_of v.
Let n := length syms.

Lemma syms_len : 2 <= n.
Proof. unfold n, syms, symbols_of. cbn [length]. lia. Qed.

Lemma usable_position nm : tab_usable (vs_tab v) nm = true -> exists j, 2 <= j < n /\ s_name (nth j syms dsym) = nm.
Proof.
  intros H. destruct (usable_in_ordered _ _ H) as (i & Hin & Hn).
  set (l := map (sym_of_ident (vs_prelist v)) (ordered_idents (vs_tab v))).
  assert (Hl : In (sym_of_ident (vs_prelist v) i) l) by (apply in_map; exact Hin).
  destruct (In_nth l _ dsym Hl) as (j & Hj & Hnth).
  exists (S (S j)). unfold n, syms, symbols_of. fold l. cbn [length nth]. split; [lia|].
  rewrite Hnth, sym_of_ident_name. exact Hn.
Qed.

(* a usable name resolves to a symbol of the file: 2 <= index < n *)
Lemma usable_index nm i : tab_usable (vs_tab v) nm = true -> sym_index syms nm = Some i -> 2 <= i < n.
Proof.
  intros Hu Hi. destruct (usable_position nm Hu) as (j & [Hj2 Hjn] & Hname).
  pose proof (sym_index_ge syms nm i j Hi Hjn Hname). destruct (sym_index_lt syms nm i Hi) as [Hlt _]. fold n in Hlt. lia.
Qed.

Lemma nth1_dollar : s_name (nth 1 syms dsym) = dollar_name.
Proof. reflexivity. Qed.
End Build.

(* ---------- the theorem ---------- *)
Theorem front_wf a b :
  (forall r, In r (a_rules a) -> r_lhs r <> dollar_name) ->
  front a = inr b -> wf_gi (b_gi b) = true.
Proof.
  intros Hlhs Hf. unfold front in Hf. destruct (visit a) as [e|v] eqn:Ev; [discriminate|].
  pose proof (visit_cases a) as Hvc. rewrite Ev in Hvc. destruct Hvc as [Huse Hmap].
  unfold build_grammar in Hf.
  set (syms := symbols_of v) in *.
  destruct (sym_index (skipn 2 syms) (vs_start v)) as [s0|] eqn:Es; [|discriminate].
  destruct (map_opt (build_rule syms) (vs_rules v)) as [rs|] eqn:Er; [|discriminate].
  cbv zeta in Hf.
  set (rules := Build_rule 0 [S (S s0)] :: map fst rs) in *.
  destruct (filter _ (seq 0 (length syms))) as [|k0 rest0]; [|discriminate].
  match type of Hf with context [unproductive ?G] => set (gi := G) in * end.
  destruct (unproductive gi) as [|x l]; [|discriminate].
  inversion Hf; subst b. clear Hf. cbn [b_gi].
  (* every rule of the visitor comes from a rule of the file *)
  assert (Hvr : forall vr, In vr (vs_rules v) -> exists r, In r (a_rules a) /\ v_lhs vr = r_lhs r /\ v_rhs vr = rsyms (r_rhs r)).
  { intros vr Hin. assert (H : In (v_lhs vr, v_rhs vr) (map (fun x => (v_lhs x, v_rhs x)) (vs_rules v))) by (apply (in_map (fun x => (v_lhs x, v_rhs x))); exact Hin).
    rewrite Hmap in H. apply in_map_iff in H. destruct H as (r & Heq & Hr). inversion Heq. exists r. auto. }
  (* every built rule: left-hand side below n and not the end marker, right-hand side within 2..n-1 *)
  assert (Hrule : forall R, In R (map fst rs) -> lhs R < length syms /\ lhs R <> 1 /\ forall x, In x (rhs R) -> 2 <= x < length syms).
  { intros R HR. apply in_map_iff in HR. destruct HR as ([R' p] & HR' & Hin). cbn [fst] in HR'. subst R'.
    destruct (map_opt_in _ _ _ _ Er Hin) as (vr & Hvrin & Hb). unfold build_rule in Hb.
    destruct (sym_index syms (v_lhs vr)) as [lh|] eqn:El; [|discriminate].
    destruct (map_opt (sym_index syms) (v_rhs vr)) as [rr|] eqn:Err; [|discriminate].
    inversion Hb; subst R. cbn [lhs rhs]. clear Hb.
    destruct (Hvr vr Hvrin) as (r & Hr & Hl & Hrh).
    destruct (sym_index_lt syms _ _ El) as [Hlt Hm]. split; [exact Hlt|]. split.
    - intros ->. change (nth 1 syms dsym) with (mkGsym dollar_name (-1)%Z [] false (-1)%Z Resolve.NONE) in Hm. cbn [s_name] in Hm.
      apply name_eqb_eq in Hm. apply (Hlhs r Hr). rewrite <- Hl. symmetry. exact Hm.
    - intros x Hx. destruct (map_opt_in _ _ _ _ Err Hx) as (nm & Hnm & Hidx).
      apply (usable_index v nm x); [|exact Hidx]. apply (Huse r nm Hr). apply rsyms_in. rewrite <- Hrh. exact Hnm. }
  assert (Hn2 : 2 <= length syms) by apply (syms_len v).
  unfold wf_gi. change (gi_rules gi) with rules. change (gi_nsyms gi) with (length syms). unfold rules.
  cbn [lhs rhs]. rewrite Nat.eqb_refl. cbn [andb].
  apply andb_true_iff. split; [apply andb_true_iff; split; [apply andb_true_iff; split|]|].
  - (* the start symbol *)
    unfold sym_ok. apply andb_true_iff. split; [apply Nat.leb_le; lia|]. apply Nat.ltb_lt.
    destruct (sym_index_lt _ _ _ Es) as [Hlt _]. rewrite skipn_length in Hlt. lia.
  - apply forallb_forall. intros R HR. destruct (Hrule R HR) as (Hl & _ & Hr). apply andb_true_iff. split; [apply Nat.ltb_lt; exact Hl|].
    apply forallb_forall. intros x Hx. destruct (Hr x Hx). unfold sym_ok. apply andb_true_iff. split; [apply Nat.leb_le; lia|apply Nat.ltb_lt; lia].
  - apply negb_true_iff. unfold is_nt_b. cbn [existsb lhs]. unfold eof. cbn [Nat.eqb orb].
    destruct (existsb (fun R => Nat.eqb (lhs R) 1) (map fst rs)) eqn:Ex; [|reflexivity]. exfalso.
    apply existsb_exists in Ex. destruct Ex as (R & HR & HeqR). apply Nat.eqb_eq in HeqR. destruct (Hrule R HR) as (_ & Hne & _). congruence.
  - apply Nat.ltb_lt. unfold eof. lia.
Qed.
