(* Originally a design-phase spike: the lexer as a one-byte transducer, and the token-level
   round trip lex (render tokens separators) = tokens for a representative subset of
   Parser/Lex.go (identifiers, punctuation, char literals, %%, brace-balanced actions,
   blanks, // and /* */ comments with the corrected star handling). *)
From Coq Require Import List Arith Ascii String Bool Lia.
Import ListNotations.
Open Scope char_scope.

Definition code (c : ascii) : nat := nat_of_ascii c.
Definition is_letter (c : ascii) : bool :=
  (Nat.leb 65 (code c) && Nat.leb (code c) 90) || (Nat.leb 97 (code c) && Nat.leb (code c) 122).
Definition is_digit (c : ascii) : bool := Nat.leb 48 (code c) && Nat.leb (code c) 57.
Definition id_start (c : ascii) : bool := is_letter c || Ascii.eqb c "_".
Definition id_char (c : ascii) : bool := id_start c || is_digit c.

Inductive token := TId (s : list ascii) | TColon | TBar | TSemi | TChar (c : ascii) | TAct (s : list ascii) | TSect | TErr.

Inductive lstate :=
| Root | InId (acc : list ascii) | Slash | LineC | BlockC | BlockStar | Pct
| Chr1 | Chr2 (c : ascii) | Act (depth : nat) (acc : list ascii) | Stop.

Definition nl : ascii := ascii_of_nat 10.
Definition tab : ascii := ascii_of_nat 9.
Definition quote : ascii := ascii_of_nat 39.

Definition step_root (c : ascii) : lstate * list token :=
  if Ascii.eqb c " " || Ascii.eqb c tab || Ascii.eqb c nl then (Root, [])
  else if id_start c then (InId [c], [])
  else if Ascii.eqb c ":" then (Root, [TColon])
  else if Ascii.eqb c "|" then (Root, [TBar])
  else if Ascii.eqb c ";" then (Root, [TSemi])
  else if Ascii.eqb c "/" then (Slash, [])
  else if Ascii.eqb c "%" then (Pct, [])
  else if Ascii.eqb c quote then (Chr1, [])
  else if Ascii.eqb c "{" then (Act 1 [c], [])
  else (Stop, [TErr]).

Definition step (st : lstate) (c : ascii) : lstate * list token :=
  match st with
  | Root => step_root c
  | InId acc => if id_char c then (InId (c :: acc), [])
                else let '(st', out) := step_root c in (st', TId (rev acc) :: out)
  | Slash => if Ascii.eqb c "/" then (LineC, []) else if Ascii.eqb c "*" then (BlockC, []) else (Stop, [TErr])
  | LineC => if Ascii.eqb c nl then (Root, []) else (LineC, [])
  | BlockC => if Ascii.eqb c "*" then (BlockStar, []) else (BlockC, [])
  | BlockStar => if Ascii.eqb c "/" then (Root, []) else if Ascii.eqb c "*" then (BlockStar, []) else (BlockC, [])
  | Pct => if Ascii.eqb c "%" then (Root, [TSect]) else (Stop, [TErr])
  | Chr1 => (Chr2 c, [])
  | Chr2 c0 => if Ascii.eqb c quote then (Root, [TChar c0]) else (Stop, [TErr])
  | Act d acc => if Ascii.eqb c "{" then (Act (S d) (c :: acc), [])
                 else if Ascii.eqb c "}" then
                   match d with 1 => (Root, [TAct (rev (c :: acc))]) | _ => (Act (pred d) (c :: acc), []) end
                 else (Act d (c :: acc), [])
  | Stop => (Stop, [])
  end.

Fixpoint run (st : lstate) (inp : list ascii) : lstate * list token :=
  match inp with
  | [] => (st, [])
  | c :: r => let '(st1, o1) := step st c in let '(st2, o2) := run st1 r in (st2, o1 ++ o2)
  end.
Definition flush (st : lstate) : list token :=
  match st with Root | LineC => [] | InId acc => [TId (rev acc)] | Stop => [] | _ => [TErr] end.
Definition lex (inp : list ascii) : list token := let '(st, out) := run Root inp in out ++ flush st.

Lemma run_app st a b : run st (a ++ b) = let '(s1, o1) := run st a in let '(s2, o2) := run s1 b in (s2, o1 ++ o2).
Proof.
  revert st; induction a as [|c a IH]; intros st; simpl.
  - destruct (run st b); reflexivity.
  - destruct (step st c) as [st1 o1]. rewrite IH. destruct (run st1 a) as [s1 o1']. destruct (run s1 b) as [s2 o2].
    rewrite app_assoc. reflexivity.
Qed.

(* ---------- rendering ---------- *)
Inductive sep := Sp | Tb | Nl | LineCm (text : list ascii) | BlockCm (text : list ascii).

(* a block-comment body must not contain "*/"; prev tells whether the previous byte was '*' *)
Fixpoint no_close (prev : bool) (t : list ascii) : bool :=
  match t with
  | [] => true
  | c :: r => if prev && Ascii.eqb c "/" then false else no_close (Ascii.eqb c "*") r
  end.
Definition wf_sep (s : sep) : bool :=
  match s with
  | LineCm t => forallb (fun c => negb (Ascii.eqb c nl)) t
  | BlockCm t => no_close false t
  | _ => true
  end.
Definition render_sep (s : sep) : list ascii :=
  match s with
  | Sp => [" "] | Tb => [tab] | Nl => [nl]
  | LineCm t => "/" :: "/" :: t ++ [nl]
  | BlockCm t => "/" :: "*" :: t ++ ["*"; "/"]
  end.

Lemma line_body t : forallb (fun c => negb (Ascii.eqb c nl)) t = true -> forall rest, run LineC (t ++ nl :: rest) = run Root rest.
Proof.
  induction t as [|c t IH]; simpl; intros H rest.
  - try rewrite Ascii.eqb_refl. destruct (run Root rest); reflexivity.
  - apply andb_true_iff in H. destruct H as [Hc Ht]. apply negb_true_iff in Hc. rewrite Hc.
    rewrite IH by auto. destruct (run Root rest); reflexivity.
Qed.

Lemma block_body t : forall prev, no_close prev t = true -> forall rest,
  run (if prev then BlockStar else BlockC) (t ++ "*" :: "/" :: rest) = run Root rest.
Proof.
  induction t as [|c t IH]; intros prev H rest.
  - simpl. destruct prev; simpl; destruct (run Root rest); reflexivity.
  - simpl in H. cbn [app run].
    destruct prev; simpl in H; cbn [step].
    + destruct (Ascii.eqb c "/") eqn:E1; [discriminate|].
      destruct (Ascii.eqb c "*") eqn:E2.
      * specialize (IH true H rest). simpl in IH. rewrite IH. destruct (run Root rest); reflexivity.
      * specialize (IH false H rest). simpl in IH. rewrite IH. destruct (run Root rest); reflexivity.
    + destruct (Ascii.eqb c "*") eqn:E2.
      * specialize (IH true H rest). simpl in IH. rewrite IH. destruct (run Root rest); reflexivity.
      * specialize (IH false H rest). simpl in IH. rewrite IH. destruct (run Root rest); reflexivity.
Qed.

Lemma sep_run s rest : wf_sep s = true -> run Root (render_sep s ++ rest) = run Root rest.
Proof.
  destruct s; simpl; intros H; try (destruct (run Root rest); reflexivity).
  - rewrite <- app_assoc. simpl. rewrite line_body by auto. destruct (run Root rest); reflexivity.
  - rewrite <- app_assoc. simpl. pose proof (block_body text false H rest) as Hb. simpl in Hb. rewrite Hb.
    destruct (run Root rest); reflexivity.
Qed.

Lemma seps_run ss rest : forallb wf_sep ss = true -> run Root (flat_map render_sep ss ++ rest) = run Root rest.
Proof.
  induction ss as [|s ss IH]; simpl; intros H; auto.
  apply andb_true_iff in H. destruct H. rewrite <- app_assoc, sep_run, IH; auto.
Qed.

(* ---------- tokens ---------- *)
Definition lexfrom (st : lstate) (inp : list ascii) : list token := let '(s, o) := run st inp in o ++ flush s.
Lemma lex_is_lexfrom inp : lex inp = lexfrom Root inp. Proof. reflexivity. Qed.

Lemma lexfrom_seps ss k : forallb wf_sep ss = true -> lexfrom Root (flat_map render_sep ss ++ k) = lexfrom Root k.
Proof. intros H. unfold lexfrom. rewrite seps_run; auto. Qed.

Fixpoint act_ok (d : nat) (s : list ascii) : bool :=
  match s with
  | [] => false
  | c :: r => if Ascii.eqb c "{" then act_ok (S d) r
              else if Ascii.eqb c "}" then match d with 0 => false | 1 => match r with [] => true | _ => false end | S d' => act_ok d' r end
              else act_ok d r
  end.

Definition render_tok (t : token) : list ascii :=
  match t with
  | TId s => s | TColon => [":"] | TBar => ["|"] | TSemi => [";"]
  | TChar c => [quote; c; quote] | TAct s => s | TSect => ["%"; "%"] | TErr => []
  end.
Definition wf_tok (t : token) : bool :=
  match t with
  | TId s => match s with c :: r => id_start c && forallb id_char r | [] => false end
  | TAct s => match s with c :: r => Ascii.eqb c "{" && act_ok 1 r | [] => false end
  | TErr => false
  | _ => true
  end.
(* what may follow a token without a separator *)
Definition follows_ok (t : token) (k : list ascii) : bool :=
  match t, k with TId _, c :: _ => negb (id_char c) | _, _ => true end.

Lemma inid_chars cs : forallb id_char cs = true -> forall acc k, run (InId acc) (cs ++ k) = run (InId (rev cs ++ acc)) k.
Proof.
  induction cs as [|c cs IH]; simpl; intros H acc k; auto.
  apply andb_true_iff in H. destruct H as [Hc Hcs]. rewrite Hc. rewrite IH by auto.
  rewrite <- app_assoc. simpl. destruct (run (InId (rev cs ++ c :: acc)) k); reflexivity.
Qed.

Lemma lexfrom_inid acc k : match k with c :: _ => id_char c = false | [] => True end ->
  lexfrom (InId acc) k = TId (rev acc) :: lexfrom Root k.
Proof.
  destruct k as [|c r]; intros H; [reflexivity|].
  unfold lexfrom. cbn [run step]. rewrite H.
  destruct (step_root c) as [st' out]. destruct (run st' r) as [s2 o2]. reflexivity.
Qed.

Lemma act_run r : forall d acc k, act_ok d r = true -> 1 <= d ->
  run (Act d acc) (r ++ k) = let '(s, o) := run Root k in (s, TAct (rev acc ++ r) :: o).
Proof.
  induction r as [|c r IH]; intros d acc k H Hd; [discriminate|].
  simpl in H. cbn [app run step].
  destruct (Ascii.eqb c "{") eqn:E1.
  - rewrite IH by (auto; lia). destruct (run Root k). simpl. rewrite <- app_assoc. reflexivity.
  - destruct (Ascii.eqb c "}") eqn:E2.
    + destruct d as [|[|d']]; [discriminate| |].
      * destruct r; [|discriminate]. simpl. destruct (run Root k). simpl. reflexivity.
      * cbn [pred]. rewrite IH by (auto; lia). destruct (run Root k). simpl. rewrite <- app_assoc. reflexivity.
    + rewrite IH by auto. destruct (run Root k). simpl. rewrite <- app_assoc. reflexivity.
Qed.

Lemma id_start_char c : id_start c = true -> id_char c = true.
Proof. unfold id_char. intros ->. reflexivity. Qed.

(* a character that starts an identifier is none of the special bytes *)
Lemma step_root_id c : id_start c = true -> step_root c = (InId [c], []).
Proof.
  intros H. unfold step_root.
  destruct (Ascii.eqb c " " || Ascii.eqb c tab || Ascii.eqb c nl) eqn:E; [|rewrite H; reflexivity].
  exfalso. apply orb_true_iff in E. destruct E as [E|E]; [apply orb_true_iff in E; destruct E as [E|E]|];
    apply Ascii.eqb_eq in E; subst c; discriminate.
Qed.

Lemma lexfrom_tok t k : wf_tok t = true -> follows_ok t k = true -> lexfrom Root (render_tok t ++ k) = t :: lexfrom Root k.
Proof.
  destruct t as [s| | | |c|s| |]; intros Hwf Hf; try discriminate;
    try (unfold lexfrom; simpl; destruct (run Root k); reflexivity).
  - (* identifier *)
    destruct s as [|c r]; [discriminate|]. simpl in Hwf. apply andb_true_iff in Hwf. destruct Hwf as [Hc Hr].
    unfold lexfrom at 1. cbn [render_tok app run step]. rewrite (step_root_id c Hc).
    rewrite inid_chars by auto.
    assert (Hk : match k with c0 :: _ => id_char c0 = false | [] => True end).
    { destruct k; auto. simpl in Hf. apply negb_true_iff in Hf. auto. }
    pose proof (lexfrom_inid (rev r ++ [c]) k Hk) as Hl. unfold lexfrom in Hl.
    destruct (run (InId (rev r ++ [c])) k) as [s2 o2]. simpl. rewrite Hl.
    rewrite rev_app_distr, rev_involutive. reflexivity.
  - (* action *)
    destruct s as [|c r]; [discriminate|]. simpl in Hwf. apply andb_true_iff in Hwf. destruct Hwf as [Hc Hr].
    apply Ascii.eqb_eq in Hc. subst c.
    unfold lexfrom. cbn [render_tok app run step].
    assert (E : step_root "{" = (Act 1 ["{"], [])) by reflexivity. rewrite E.
    rewrite act_run by auto. destruct (run Root k). reflexivity.
Qed.

(* ---------- the round trip ---------- *)
Definition doc := list (list sep * token).
Fixpoint render (d : doc) (trail : list sep) : list ascii :=
  match d with
  | [] => flat_map render_sep trail
  | (ss, t) :: d' => flat_map render_sep ss ++ render_tok t ++ render d' trail
  end.
Fixpoint wf_doc (d : doc) (trail : list sep) : bool :=
  match d with
  | [] => forallb wf_sep trail
  | (ss, t) :: d' => forallb wf_sep ss && wf_tok t && follows_ok t (render d' trail) && wf_doc d' trail
  end.

Theorem lex_render d trail : wf_doc d trail = true -> lex (render d trail) = map snd d.
Proof.
  rewrite lex_is_lexfrom. induction d as [|[ss t] d IH]; simpl; intros H.
  - rewrite <- (app_nil_r (flat_map render_sep trail)). rewrite lexfrom_seps by auto. reflexivity.
  - apply andb_true_iff in H. destruct H as [H Hd]. apply andb_true_iff in H. destruct H as [H Hf].
    apply andb_true_iff in H. destruct H as [Hss Ht].
    rewrite lexfrom_seps by auto. rewrite lexfrom_tok by auto. rewrite IH by auto. reflexivity.
Qed.

Print Assumptions lex_render.

(* non-vacuity: a concrete document *)
Definition s2l (s : string) : list ascii := list_ascii_of_string s.
Example ex1 : lex (s2l "S : A /** first **/ | B { if x { y } } // c
 ; %%") = [TId (s2l "S"); TColon; TId (s2l "A"); TBar; TId (s2l "B"); TAct (s2l "{ if x { y } }"); TSemi; TSect].
Proof. vm_compute. reflexivity. Qed.
