(* C05: two of the three conditions under which the packed lookup equals the dense cell (PipelineProofs.packed_lookup_correct)
   hold for every table generate_tables emits - no cell is 0, and the column of the internal start symbol holds the error
   code - so that only the third one (no goto column can land on a negative slot) remains to be evaluated on the arrays. *)
From Coq Require Import List Arith ZArith Lia Bool.
Import ListNotations.
From YG Require Import LRBase CompleteDriver LR0Build LR0More LASuperset LASubset LAExec C03Assembly Resolve TableCert PackCore
  Pipeline PipelineRun PipelineLA.

Section Conds.
Variable gi : ginfo.
Let g := gi_rules gi.
Hypothesis no_start_in_rhs : forall r d, nth_error (rhs_of g r) d <> Some 0.
Hypothesis rule0_lhs : lhs_of g 0 = 0.
Hypothesis no_eof_in_rhs : forall r d, nth_error (rhs_of g r) d <> Some eof.
Hypothesis rule0_rhs : rhs_of g 0 = [start_user g].
Hypothesis eof_terminal : ~ is_nt g eof.
Hypothesis productive_all : forall seq l, ~ is_nt g l -> exists b, first_seq g (seq ++ [l]) b.
Hypothesis nsyms_ok : eof < gi_nsyms gi.
Hypothesis lhs_ok : forall r R, nth_error g r = Some R -> lhs R < gi_nsyms gi.

(* LR(1) lookaheads are terminals *)
Lemma lr1_terminal gamma it t : lr1 g gamma it t -> ~ is_nt g t.
Proof. induction 1; auto. eapply first_seq_term; eauto. Qed.

Lemma start_is_nt : is_nt g 0.
Proof.
  unfold is_nt. unfold rhs_of in rule0_rhs. unfold lhs_of in rule0_lhs.
  destruct (nth_error g 0) as [R|] eqn:E; [|discriminate]. exists 0, R. auto.
Qed.

Theorem pipeline_cells t : generate_tables gi = inr t ->
  (forall s a, s < length (t_aut t) -> a < gi_nsyms gi -> cellz (t_dense t) s a <> 0%Z) /\
  (forall s, s < length (t_aut t) -> cellz (t_dense t) s 0 = err_code (length (t_aut t))).
Proof.
  intros Ht. pose proof Ht as Ht0. revert Ht.
  unfold generate_tables. fold g. destruct (unproductive gi); [|discriminate].
  destruct (build g) as [aut|] eqn:Eb; [|discriminate].
  intro H. inversion H; subst t. clear H. cbn [t_aut t_dense t_la] in *.
  set (nst := length aut). set (tabl := la_table g aut). set (T := action_fun gi aut tabl).
  pose proof (build_structural g no_start_in_rhs rule0_lhs no_eof_in_rhs aut Eb) as Hstruct.
  destruct (build_goto_lt g rule0_lhs no_eof_in_rhs aut Eb) as [Hpos Hlt].
  assert (Hglen : 0 < length g).
  { unfold rhs_of in rule0_rhs. destruct (nth_error g 0) eqn:E; [|discriminate]. apply nth_error_Some. congruence. }
  destruct (build_more g Hglen (or_intror I) aut Eb) as (Hvalid & _ & Hjust & _).
  assert (Hitems : forall q r d, In (r, d) (items (LRBase.st aut q)) -> r < length g) by (intros q r d Hin; apply (Hvalid q (r, d) Hin)).
  pose proof (gen_table_cert g aut (la_lookup tabl) (sprec_of gi) (rprec_of gi) Hitems (ex_intro _ _ rule0_rhs) Hstruct) as Hcert.
  fold T in Hcert.
  split.
  - intros s a Hs Ha. fold nst. rewrite (dense_cell nst (gi_nsyms gi) T s a Hs Ha).
    unfold encode, err_code, acc_code. destruct (T s a) as [q'|r| |] eqn:E; try lia.
    + pose proof (c_shift _ _ _ Hcert _ _ _ E) as Hg. destruct (c_goto _ _ _ Hcert _ _ _ Hg) as [Hne _]. lia.
    + destruct (c_reduce _ _ _ Hcert _ _ _ E) as (Hr0 & _). lia.
  - intros s Hs. fold nst. assert (H0 : 0 < gi_nsyms gi) by (unfold eof in nsyms_ok; lia).
    rewrite (dense_cell nst (gi_nsyms gi) T s 0 Hs H0).
    assert (ET : T s 0 = Error).
    { unfold T, action_fun, gen_table.
      assert (Ec : candidates g aut (la_lookup tabl) (sprec_of gi) (rprec_of gi) s 0 = []).
      { unfold candidates.
        assert (Eg : goto aut s 0 = None).
        { destruct (goto aut s 0) as [q'|] eqn:Eg; [|reflexivity]. exfalso.
          destruct (Hjust s 0 q' Eg) as ([r d] & _ & Hn). unfold next_sym in Hn. cbn [fst snd] in Hn. exact (no_start_in_rhs r d Hn). }
        rewrite Eg. cbn [app].
        assert (Ef : filter (fun r => TableCert.nmem 0 (la' (la_lookup tabl) s r)) (complete_rules g aut s) = []).
        { assert (Hall : forall r, In r (complete_rules g aut s) -> TableCert.nmem 0 (la' (la_lookup tabl) s r) = false).
          { intros r Hr. unfold la'. destruct (Nat.eqb_spec r 0) as [->|Hr0]; [reflexivity|].
            destruct (TableCert.nmem 0 (la_lookup tabl s r)) eqn:En; [|reflexivity]. exfalso.
            assert (Hin0 : In 0 (la_lookup tabl s r)).
            { clear - En. induction (la_lookup tabl s r) as [|y l IH]; [discriminate|]. cbn [TableCert.nmem] in En.
              apply orb_true_iff in En. destruct En as [E|E]; [left; symmetry; apply Nat.eqb_eq; exact E | right; apply IH, E]. }
            assert (Hit : In (r, length (rhs_of g r)) (items (LRBase.st aut s))).
            { unfold complete_rules in Hr. apply in_map_iff in Hr. destruct Hr as ([r1 d1] & E1 & Hf). cbn [fst] in E1. subst r1.
              apply filter_In in Hf. destruct Hf as [Hin Hd]. cbn [fst snd] in Hd. apply Nat.eqb_eq in Hd. subst d1. exact Hin. }
            pose proof (pipeline_lookaheads_exact gi no_start_in_rhs rule0_lhs no_eof_in_rhs rule0_rhs eof_terminal productive_all _ Ht0 s r 0 Hs Hr0 Hit) as Hex.
            cbn [t_la t_aut] in Hex. apply Hex in Hin0. destruct Hin0 as (gamma & _ & Hl).
            exact (lr1_terminal _ _ _ Hl start_is_nt). }
          induction (complete_rules g aut s) as [|r l IH]; [reflexivity|]. cbn [filter].
          rewrite (Hall r (or_introl eq_refl)). apply IH. intros r' Hr'. apply Hall. right. exact Hr'. }
        rewrite Ef. reflexivity. }
      change (gi_rules gi) with g. rewrite Ec. reflexivity. }
    rewrite ET. reflexivity.
Qed.

(* hence: the packed lookups of an emitted table equal the dense cells as soon as no goto column can land on a negative
   slot - one boolean condition on the offset vector *)
Theorem packed_agrees_from_offsets t : generate_tables gi = inr t ->
  (forall s, s < length (t_aut t) -> (0 <= nth s (p_off (t_packed t)) 0 + Z.of_nat (S (gi_nterm gi)))%Z) ->
  packed_agrees gi t.
Proof.
  intros Ht Hoff. destruct (pipeline_cells t Ht) as [Hnz Hcol].
  apply (packed_agrees_from_conditions gi t Ht); auto. unfold eof in nsyms_ok. lia.
Qed.

(* the lexer interface: a token code that `translate` does not know becomes symbol 0 (the default of the switch), and the
   column of symbol 0 is the error action in every state - an unknown code is a syntax error wherever it arrives *)
Theorem unknown_code_is_error t : generate_tables gi = inr t ->
  forall s, s < length (t_aut t) -> dense_action (length (t_aut t)) (t_dense t) s 0 = Error.
Proof.
  intros Ht s Hs. destruct (pipeline_cells t Ht) as [_ Hcol]. unfold dense_action. rewrite (Hcol s Hs).
  unfold decode_z. rewrite Z.eqb_refl. reflexivity.
Qed.
End Conds.
