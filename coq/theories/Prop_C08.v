(* C08 - all backends implement the same parser *)
From Coq Require Import List Arith ZArith Bool Permutation.
Import ListNotations.
From YG Require Import LRBase CompleteDriver LR0Build LR0Complete LASuperset LASubset LAExec LR0More C03Assembly C02Assembly TableCert Resolve PackCore DriverSim Values Oracle Productive SortOrder LexRoundtrip.

(* the concrete array-and-pointer driver (all Go modes and TypeScript share it) equals the abstract machine on every table, input and fuel *)
Theorem C08_array_driver :
  forall (tab : table) (g : grammar) (act : semact) (fuel : nat) (s : pst) (inp : list tok) 
           (pos : nat) (reds : list nat),
         ok s -> crun tab g act fuel s inp pos reds = arun tab g act fuel (abs s) inp pos reds.
Proof. exact DriverSim.simulation. Qed.
Print Assumptions C08_array_driver.

(* packed and dense variants consult the same cells *)
Theorem C08_packed_lookup :
  forall (rows cols : nat) (cell : nat -> nat -> Z) (order : list nat),
         NoDup order ->
         (forall i : nat, (i < rows)%nat -> In i order) ->
         forall i j : nat, (i < rows)%nat -> (j < cols)%nat -> lookup cols cell order i j = cell i j.
Proof. exact PackCore.lookup_correct. Qed.
Print Assumptions C08_packed_lookup.

From YG Require Import LRBase Pipeline PipelineRun Drivers DriverSim.
Close Scope Z_scope.
Open Scope nat_scope.

(* C08/C05 for the pipeline: if the packed lookups equal the dense cells (packed_agrees; see C05_packed_agrees for when that holds), all five output variants - go, go -u, go -o, go -o -u, typescript: packed or dense table, global or object re-initialisation - return the same result (verdict, error position, reductions, value) on every input and every fuel *)
Theorem C08_variants :
  forall gi : ginfo,
         (forall r d : nat, nth_error (rhs_of (gi_rules gi) r) d <> Some 0) ->
         lhs_of (gi_rules gi) 0 = 0 ->
         (forall r d : nat, nth_error (rhs_of (gi_rules gi) r) d <> Some eof) ->
         (exists S : nat, rhs_of (gi_rules gi) 0 = [S]) ->
         eof < gi_nsyms gi ->
         (forall (r : nat) (R : rule), nth_error (gi_rules gi) r = Some R -> lhs R < gi_nsyms gi) ->
         forall t : tables,
         generate_tables gi = inr t ->
         packed_agrees gi t ->
         forall (v1 v2 : variant) (act : semact) (fuel : nat) (inp : list tok),
         (forall x : tok, In x inp -> fst x < gi_nsyms gi) ->
         parse v1 t (gi_rules gi) act fuel inp = parse v2 t (gi_rules gi) act fuel inp.
Proof. exact PipelineRun.pipeline_variants_agree. Qed.
Print Assumptions C08_variants.

From YG Require Import LRBase CompleteDriver LR0Build Resolve PackCore Pipeline PipelineRun Drivers DriverSim Values Front WfGrammar YParser EndToEnd EndToEndWf.
Close Scope Z_scope.
Open Scope nat_scope.

(* from the bytes of the grammar file: for the tables the generator computes for a text, the drivers of all variants (global and object form, packed and plain table) return the same result on every input, once the packed lookups agree with the matrix (C05_from_the_text) *)
Theorem C08_from_the_text :
  forall (s : list Ascii.ascii) (b : built) (t : tables),
         generate_text s = GOk b t ->
         packed_agrees (b_gi b) t ->
         forall (v1 v2 : variant) (act : semact) (fuel : nat) (inp : list tok),
         (forall x : tok, In x inp -> fst x < gi_nsyms (b_gi b)) ->
         parse v1 t (gi_rules (b_gi b)) act fuel inp = parse v2 t (gi_rules (b_gi b)) act fuel inp.
Proof. exact EndToEndWf.text_variants_agree. Qed.
Print Assumptions C08_from_the_text.
