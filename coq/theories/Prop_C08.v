(* C08 - all backends implement the same parser *)
From Coq Require Import List Arith ZArith Bool Permutation.
Import ListNotations.
From YG Require Import LRBase CompleteDriver LR0Build LR0Complete LASuperset LASubset LAExec LR0More C03Assembly C02Assembly TableCert Resolve PackCore DriverSim Values Oracle Productive SortOrder LexRoundtrip.

(* the concrete array-and-pointer driver (all Go modes and TypeScript share it) equals the abstract machine on every table, input and fuel *)
Theorem C08_array_driver :
  forall (tab : table) (g : grammar) (act : semact) (fuel : nat) (s : pst) (inp : list tok) 
           (pos : nat) (reds : list nat),
         ok s -> crun tab g act fuel s inp pos reds = arun tab g act fuel (abs s) inp pos reds.
Proof. exact DriverSim.simulation. Qed.
Print Assumptions C08_array_driver.

(* packed and dense variants consult the same cells *)
Theorem C08_packed_lookup :
  forall (rows cols : nat) (cell : nat -> nat -> Z) (order : list nat),
         NoDup order ->
         (forall i : nat, (i < rows)%nat -> In i order) ->
         forall i j : nat, (i < rows)%nat -> (j < cols)%nat -> lookup cols cell order i j = cell i j.
Proof. exact PackCore.lookup_correct. Qed.
Print Assumptions C08_packed_lookup.
