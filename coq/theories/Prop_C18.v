(* C18 - debug listing and automaton diagram describe the generated parser (the part that is logic:
   the rendering of a state's items and reduce annotations into one record label can be read back) *)
From Coq Require Import List Ascii Bool.
Import ListNotations.
From YG Require Import Emit.

(* a record label "field|field|...|field" determines its fields, provided no field contains the
   separator: rendering states, items and reduce annotations this way loses nothing *)
Theorem C18_label_injective :
  forall (sep : ascii) (l : list (list ascii)),
    l <> [] -> Forall (free sep) l -> split sep (join sep l) = l.
Proof. exact Emit.split_join. Qed.
Print Assumptions C18_label_injective.

From YG Require Import LRBase LR0Build Pipeline Draw.
Close Scope Z_scope.
Open Scope nat_scope.

(* the model of DrawGrammar on the matrix generated from an action function: an edge is drawn exactly for every shift/goto cell, with its symbol and target state *)
Theorem C18_diagram_edges :
  forall (aut : automaton) (nsyms : nat) (t : table),
         (forall q a q' : nat, t q a = Shift q' -> q' < length aut) ->
         (forall q a : nat, t q a <> Reduce 0) ->
         forall q a q' : nat,
         In (q, a, q') (draw_edges aut (dense_of (length aut) nsyms t)) <->
         q < length aut /\ a < nsyms /\ t q a = Shift q'.
Proof. exact Draw.draw_edges_spec. Qed.
Print Assumptions C18_diagram_edges.

From YG Require Import LRBase LR0Build Pipeline Draw.
Close Scope Z_scope.
Open Scope nat_scope.

(* one node per state, numbered as in the table, showing that state's items; a reduce line exactly for every reduction cell under its lookahead symbol; the accepting mark exactly where the table accepts *)
Theorem C18_diagram_nodes :
  forall (aut : automaton) (nsyms : nat) (t : table),
         (forall q a q' : nat, t q a = Shift q' -> q' < length aut) ->
         (forall q a : nat, t q a <> Reduce 0) ->
         forall q : nat,
         q < length aut ->
         exists nd : gnode,
           nth_error (draw_nodes aut (dense_of (length aut) nsyms t)) q = Some nd /\
           gn_state nd = q /\
           gn_items nd = items (nth q aut {| items := []; gotos := [] |}) /\
           (forall a r : nat, In (a, r) (gn_look nd) <-> a < nsyms /\ t q a = Reduce r) /\
           (gn_accept nd = true <-> (exists a : nat, a < nsyms /\ t q a = Accept)).
Proof. exact Draw.draw_nodes_items. Qed.
Print Assumptions C18_diagram_nodes.

From YG Require Import LRBase LR0Build Pipeline Draw DrawPipeline.
Close Scope Z_scope.
Open Scope nat_scope.

(* for the automaton and matrix of one generate_tables run, read the way every generated parser reads the matrix (dense_action): states, items, transitions, reductions with lookahead symbols and accepting state of the diagram are exactly those of the tables *)
Theorem C18_diagram_pipeline :
  forall gi : ginfo,
         (forall r d : nat, nth_error (rhs_of (gi_rules gi) r) d <> Some 0) ->
         lhs_of (gi_rules gi) 0 = 0 ->
         (forall r d : nat, nth_error (rhs_of (gi_rules gi) r) d <> Some eof) ->
         (exists S : nat, rhs_of (gi_rules gi) 0 = [S]) ->
         forall t : tables,
         generate_tables gi = inr t ->
         let n := length (t_aut t) in
         let tab := dense_action n (t_dense t) in
         let nodes := draw_nodes (t_aut t) (t_dense t) in
         let edges := draw_edges (t_aut t) (t_dense t) in
         map gn_state nodes = seq 0 n /\
         (forall q a q' : nat, In (q, a, q') edges <-> q < n /\ a < gi_nsyms gi /\ tab q a = Shift q') /\
         (forall q : nat,
          q < n ->
          exists nd : gnode,
            nth_error nodes q = Some nd /\
            gn_state nd = q /\
            gn_items nd = items (st (t_aut t) q) /\
            (forall a r : nat, In (a, r) (gn_look nd) <-> a < gi_nsyms gi /\ tab q a = Reduce r) /\
            (gn_accept nd = true <-> (exists a : nat, a < gi_nsyms gi /\ tab q a = Accept))).
Proof. exact DrawPipeline.pipeline_diagram. Qed.
Print Assumptions C18_diagram_pipeline.

From YG Require Import LRBase LR0Build Pipeline Draw DrawPipeline.
Close Scope Z_scope.
Open Scope nat_scope.

(* the listing (automaton with transitions, lookahead set of every reduction) covers the tables of the same run: every shift/goto is a listed transition, every reduction a complete item of its state under a symbol of its listed lookahead set, accept only with the completed start item on the end marker *)
Theorem C18_listing_covers_tables :
  forall gi : ginfo,
         (forall r d : nat, nth_error (rhs_of (gi_rules gi) r) d <> Some 0) ->
         lhs_of (gi_rules gi) 0 = 0 ->
         (forall r d : nat, nth_error (rhs_of (gi_rules gi) r) d <> Some eof) ->
         (exists S : nat, rhs_of (gi_rules gi) 0 = [S]) ->
         forall t : tables,
         generate_tables gi = inr t ->
         let n := length (t_aut t) in
         let tab := dense_action n (t_dense t) in
         forall q a : nat,
         q < n ->
         a < gi_nsyms gi ->
         (forall q' : nat, tab q a = Shift q' -> goto (t_aut t) q a = Some q') /\
         (forall r : nat,
          tab q a = Reduce r ->
          r <> 0 /\
          In (r, length (rhs_of (gi_rules gi) r)) (items (st (t_aut t) q)) /\ In a (la_lookup (t_la t) q r)) /\
         (tab q a = Accept -> In (0, 1) (items (st (t_aut t) q)) /\ a = eof).
Proof. exact DrawPipeline.pipeline_table_within_listing. Qed.
Print Assumptions C18_listing_covers_tables.

From YG Require Import EscapeDot.
Close Scope Z_scope.
Open Scope nat_scope.

(* the model of EscapeDotGraph (the repair of F25): the escaped text of a name reads back as the name *)
Theorem C18_escape_roundtrip :
  forall s : list Ascii.ascii, unescape (escape s) = s.
Proof. exact EscapeDot.unescape_escape. Qed.
Print Assumptions C18_escape_roundtrip.

From YG Require Import EscapeDot.
Close Scope Z_scope.
Open Scope nat_scope.

(* every character with a meaning inside a record label (backslash, quote, angle brackets, braces, bar) is protected in the escaped text *)
Theorem C18_escape_protected :
  forall s : list Ascii.ascii, protected (escape s) = true.
Proof. exact EscapeDot.escape_protected. Qed.
Print Assumptions C18_escape_protected.

From YG Require Import EscapeDot.
Close Scope Z_scope.
Open Scope nat_scope.

(* the fields of a record label - items, reduce lines - are read back one by one whatever characters the symbol names contain (C18_label_injective needed names without the separator) *)
Theorem C18_label_fields :
  forall l : list (list Ascii.ascii), l <> [] -> map unescape (splitp (joinbar (map escape l)) []) = l.
Proof. exact EscapeDot.split_escaped_fields. Qed.
Print Assumptions C18_label_fields.
