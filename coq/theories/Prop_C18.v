(* C18 - debug listing and automaton diagram describe the generated parser (the part that is logic:
   the rendering of a state's items and reduce annotations into one record label can be read back) *)
From Coq Require Import List Ascii Bool.
Import ListNotations.
From YG Require Import Emit.

(* a record label "field|field|...|field" determines its fields, provided no field contains the
   separator: rendering states, items and reduce annotations this way loses nothing *)
Theorem C18_label_injective :
  forall (sep : ascii) (l : list (list ascii)),
    l <> [] -> Forall (free sep) l -> split sep (join sep l) = l.
Proof. exact Emit.split_join. Qed.
Print Assumptions C18_label_injective.
