(* Model and proofs: Utils.EscapeDotGraph - what protects symbol names inside the record labels of the automaton diagram
   (the repair of finding F25): every character with a meaning inside a quoted DOT record label (backslash, quote, angle
   brackets, braces, bar) gets a backslash in front.  Proved: escaping can be undone, every metacharacter of the
   escaped text is protected, and fields of ANY content joined with bars are read back field by field. *)
From Coq Require Import List Arith Bool Ascii.
Import ListNotations.
Open Scope char_scope.

Definition bsl : ascii := "\".
Definition bar : ascii := "|".
Definition meta (c : ascii) : bool :=
  Ascii.eqb c bsl || Ascii.eqb c """" || Ascii.eqb c "<" || Ascii.eqb c ">" || Ascii.eqb c "{" || Ascii.eqb c "}" || Ascii.eqb c bar.

Fixpoint escape (s : list ascii) : list ascii :=
  match s with
  | [] => []
  | c :: r => if meta c then bsl :: c :: escape r else c :: escape r
  end.

(* reading an escaped text: a backslash protects the next character *)
Fixpoint unescape (s : list ascii) : list ascii :=
  match s with
  | [] => []
  | c :: r =>
    if Ascii.eqb c bsl then match r with d :: r' => d :: unescape r' | [] => [c] end
    else c :: unescape r
  end.

(* no metacharacter stands unprotected *)
Fixpoint protected (s : list ascii) : bool :=
  match s with
  | [] => true
  | c :: r =>
    if Ascii.eqb c bsl then match r with d :: r' => protected r' | [] => false end
    else negb (meta c) && protected r
  end.

(* splitting a label at the unprotected bars *)
Fixpoint splitp (s cur : list ascii) : list (list ascii) :=
  match s with
  | [] => [rev cur]
  | c :: r =>
    if Ascii.eqb c bsl then match r with d :: r' => splitp r' (d :: c :: cur) | [] => [rev (c :: cur)] end
    else if Ascii.eqb c bar then rev cur :: splitp r [] else splitp r (c :: cur)
  end.

Fixpoint joinbar (l : list (list ascii)) : list ascii :=
  match l with
  | [] => []
  | [x] => x
  | x :: l' => x ++ bar :: joinbar l'
  end.

Lemma meta_bsl : meta bsl = true.  Proof. reflexivity. Qed.
Lemma not_meta c : meta c = false -> Ascii.eqb c bsl = false /\ Ascii.eqb c bar = false.
Proof.
  unfold meta. intros H. repeat (apply orb_false_iff in H; destruct H as [H ?]). split; assumption.
Qed.

Theorem unescape_escape s : unescape (escape s) = s.
Proof.
  induction s as [|c r IH]; [reflexivity|]. cbn [escape]. destruct (meta c) eqn:E.
  - cbn [unescape]. change (Ascii.eqb bsl bsl) with true. cbv iota. rewrite IH. reflexivity.
  - destruct (not_meta c E) as [Hb _]. cbn [unescape]. rewrite Hb, IH. reflexivity.
Qed.

Theorem escape_protected s : protected (escape s) = true.
Proof.
  induction s as [|c r IH]; [reflexivity|]. cbn [escape]. destruct (meta c) eqn:E.
  - cbn [protected]. change (Ascii.eqb bsl bsl) with true. cbv iota. exact IH.
  - destruct (not_meta c E) as [Hb _]. cbn [protected]. rewrite Hb, E, IH. reflexivity.
Qed.

(* escaping is injective: different names never get the same label text *)
Corollary escape_injective a b : escape a = escape b -> a = b.
Proof. intros H. rewrite <- (unescape_escape a), <- (unescape_escape b), H. reflexivity. Qed.

Lemma splitp_escape x : forall rest cur, splitp (escape x ++ rest) cur = splitp rest (rev (escape x) ++ cur).
Proof.
  induction x as [|c r IH]; intros rest cur; [reflexivity|]. cbn [escape]. destruct (meta c) eqn:E.
  - cbn [app splitp]. change (Ascii.eqb bsl bsl) with true. cbv iota. rewrite IH. cbn [rev]. rewrite <- !app_assoc. reflexivity.
  - destruct (not_meta c E) as [Hb Hbar]. cbn [app splitp]. rewrite Hb, Hbar, IH. cbn [rev]. rewrite <- app_assoc. reflexivity.
Qed.

(* the fields of a record label - whatever characters the names contain - are read back one by one *)
Theorem split_escaped_fields l : l <> [] -> map unescape (splitp (joinbar (map escape l)) []) = l.
Proof.
  induction l as [|x l IH]; intros Hne; [contradiction|].
  destruct l as [|y l'].
  - cbn [map joinbar]. rewrite <- (app_nil_r (escape x)). rewrite splitp_escape. cbn [splitp map].
    rewrite app_nil_r, rev_involutive, unescape_escape. reflexivity.
  - change (joinbar (map escape (x :: y :: l'))) with (escape x ++ bar :: joinbar (map escape (y :: l'))).
    rewrite splitp_escape. cbn [splitp]. change (Ascii.eqb bar bsl) with false. change (Ascii.eqb bar bar) with true. cbv iota.
    rewrite app_nil_r, rev_involutive. cbn [map]. rewrite unescape_escape. f_equal. apply IH. discriminate.
Qed.
