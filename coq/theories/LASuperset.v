(* Originally a design-phase spike: the DeRemer-Pennello sets (DR, reads, includes, lookback
   with path conditions), viewed as item annotations, satisfy the closure conditions of the
   completeness certificate of Spike2 (the "every true lookahead is found" half of C03). *)
From Coq Require Import List Arith Lia Bool Relations.
Import ListNotations.
From YG Require Import LRBase CompleteDriver LR0Build.

Section DP.
Variables (g : grammar) (aut : automaton).

(* facts about the automaton provided by C09 (Spike3 / Spike5) *)
Hypothesis H_clos : forall q it B r' R', In it (items (st aut q)) -> next_sym g it = Some B ->
  nth_error g r' = Some R' -> lhs R' = B -> In (r', 0) (items (st aut q)).
Hypothesis H_goto : forall q it X, In it (items (st aut q)) -> next_sym g it = Some X ->
  exists q', goto aut q X = Some q' /\ In (fst it, S (snd it)) (items (st aut q')).
(* grammar facts *)
Hypothesis rule0_only_start : forall r R, nth_error g r = Some R -> lhs R = lhs_of g 0 -> r = 0.
Hypothesis start_not_in_rhs : forall r d, nth_error (rhs_of g r) d <> Some (lhs_of g 0).
Hypothesis eof_terminal : ~ is_nt g eof.
Variable S0 : nat.
Hypothesis rule0_rhs : rhs_of g 0 = [S0].

Inductive nullable : nat -> Prop :=
| null_rule r R : nth_error g r = Some R -> Forall nullable (rhs R) -> nullable (lhs R).
Definition nullable_seq (s : list nat) : Prop := Forall nullable s.

Inductive first_sym : nat -> nat -> Prop :=
| fsym_t a : ~ is_nt g a -> first_sym a a
| fsym_n r R b : nth_error g r = Some R -> first_in (rhs R) b -> first_sym (lhs R) b
with first_in : list nat -> nat -> Prop :=
| fin_here Y s b : first_sym Y b -> first_in (Y :: s) b
| fin_skip Y s b : nullable Y -> first_in s b -> first_in (Y :: s) b.
Scheme first_sym_ind2 := Induction for first_sym Sort Prop
  with first_in_ind2 := Induction for first_in Sort Prop.
Combined Scheme first_mutind from first_sym_ind2, first_in_ind2.

Fixpoint path (p : nat) (alpha : list nat) (q : nat) : Prop :=
  match alpha with [] => p = q | X :: a => exists p1, goto aut p X = Some p1 /\ path p1 a q end.
Lemma path_app p a X q q' : path p a q -> goto aut q X = Some q' -> path p (a ++ [X]) q'.
Proof. revert p; induction a as [|Y a IH]; simpl; intros p H Hg. - subst. exists q'; auto. - destruct H as (p1 & H1 & H2). exists p1; auto. Qed.

Definition ntrans := (nat * nat)%type.
Definition DR (x : ntrans) (t : nat) : Prop :=
  (exists r r2, goto aut (fst x) (snd x) = Some r /\ ~ is_nt g t /\ goto aut r t = Some r2) \/
  (x = (0, S0) /\ t = eof).
Definition reads (x y : ntrans) : Prop :=
  goto aut (fst x) (snd x) = Some (fst y) /\ nullable (snd y) /\ exists r2, goto aut (fst y) (snd y) = Some r2.
Definition includes (x y : ntrans) : Prop :=
  exists r R d, nth_error g r = Some R /\ r <> 0 /\ lhs R = snd y /\ nth_error (rhs R) d = Some (snd x) /\
    nullable_seq (skipn (S d) (rhs R)) /\ path (fst y) (firstn d (rhs R)) (fst x) /\
    exists q', goto aut (fst y) (snd y) = Some q'.
Definition Read (x : ntrans) (t : nat) : Prop := exists y, clos_refl_trans _ reads x y /\ DR y t.
Definition Follow (x : ntrans) (t : nat) : Prop := exists y, clos_refl_trans _ includes x y /\ Read y t.

(* lookahead annotation of an arbitrary item, obtained by looking back along its prefix *)
Definition LAm (q : nat) (it : item) (t : nat) : Prop :=
  exists p, path p (firstn (snd it) (rhs_of g (fst it))) q /\
    ((fst it = 0 /\ p = 0 /\ t = eof) \/ (fst it <> 0 /\ Follow (p, lhs_of g (fst it)) t)).

(* ---- goto propagation ---- *)
Lemma firstn_S_nth {A} (l : list A) d X : nth_error l d = Some X -> firstn (S d) l = firstn d l ++ [X].
Proof.
  revert d; induction l as [|y l IH]; intros [|d] H; simpl in *; try discriminate.
  - inversion H; auto. - f_equal; auto.
Qed.

Theorem la_prop q r d X q' t : nth_error (rhs_of g r) d = Some X -> goto aut q X = Some q' ->
  LAm q (r, d) t -> LAm q' (r, S d) t.
Proof.
  intros Hn Hg (p & Hp & Hc). exists p. cbn [fst snd] in *. split; auto.
  rewrite (firstn_S_nth _ _ _ Hn). eapply path_app; eauto.
Qed.

(* ---- FIRST through the automaton ---- *)
Definition nullstep (s s' : nat) : Prop := exists C, nullable C /\ goto aut s C = Some s'.
Definition RS (s : nat) (b : nat) : Prop := exists s2 s3, clos_refl_trans _ nullstep s s2 /\ ~ is_nt g b /\ goto aut s2 b = Some s3.

Lemma first_RS :
  (forall Y b, first_sym Y b -> forall s r d, In (r, d) (items (st aut s)) -> nth_error (rhs_of g r) d = Some Y -> RS s b) /\
  (forall seq b, first_in seq b -> forall s r d, In (r, d) (items (st aut s)) -> skipn d (rhs_of g r) = seq -> RS s b).
Proof.
  apply first_mutind.
  - intros a Ha s r d Hin Hn. destruct (H_goto s (r, d) a Hin Hn) as (q' & Hg & _).
    exists s, q'. split; [apply rt_refl|auto].
  - intros r' R b HR Hfi IH s r d Hin Hn.
    assert (Hin0 : In (r', 0) (items (st aut s))) by (eapply H_clos; eauto).
    apply (IH s r' 0 Hin0). simpl. unfold rhs_of. rewrite HR. reflexivity.
  - intros Y seq b Hfs IH s r d Hin Hsk. apply (IH s r d Hin).
    clear - Hsk. revert d Hsk. generalize (rhs_of g r) as l. induction l as [|y l IHl]; intros [|d] H; simpl in *; try discriminate.
    + inversion H; auto. + auto.
  - intros Y seq b Hnull Hfi IH s r d Hin Hsk.
    assert (Hn : nth_error (rhs_of g r) d = Some Y /\ skipn (S d) (rhs_of g r) = seq).
    { clear - Hsk. revert d Hsk. generalize (rhs_of g r) as l. induction l as [|y l IHl]; intros [|d] H; simpl in *; try discriminate.
      - inversion H; auto. - auto. }
    destruct Hn as [Hn Hsk']. destruct (H_goto s (r, d) Y Hin Hn) as (s1 & Hg & Hin1). simpl in Hin1.
    destruct (IH s1 r (S d) Hin1 Hsk') as (s2 & s3 & Hp & Hb & Hg2).
    exists s2, s3. split; auto. eapply rt_trans; [apply rt_step; exists Y; eauto|exact Hp].
Qed.

Lemma RS_Read s b : RS s b -> forall p A, goto aut p A = Some s -> Read (p, A) b.
Proof.
  intros (s2 & s3 & Hp & Hb & Hg). apply clos_rt_rt1n in Hp. induction Hp as [s|s s' s2 (C & HC & HgC) Hp IH]; intros p A HpA.
  - exists (p, A). split; [apply rt_refl|]. left. exists s, s3. auto.
  - destruct (IH Hg s C HgC) as (y & Hy & Hdr). exists y. split; auto.
    eapply rt_trans; [apply rt_step|exact Hy]. unfold reads. simpl. split; auto. split; auto. exists s'; auto.
Qed.

(* ---- relating the leftmost-expansion first_seq of Spike2 to the structural definition ---- *)
Lemma first_in_app_l s1 s2 b : first_in s1 b -> first_in (s1 ++ s2) b.
Proof. induction 1; simpl; [apply fin_here|apply fin_skip]; auto. Qed.
Lemma first_in_app_r s1 s2 b : nullable_seq s1 -> first_in s2 b -> first_in (s1 ++ s2) b.
Proof. induction 1; simpl; auto. intros. apply fin_skip; auto. Qed.
Lemma first_in_app_inv s1 s2 b : first_in (s1 ++ s2) b -> first_in s1 b \/ (nullable_seq s1 /\ first_in s2 b).
Proof.
  induction s1 as [|Y s1 IH]; simpl; intros H.
  - right. split; [constructor|auto].
  - inversion H; subst.
    + left. apply fin_here; auto.
    + destruct (IH H4) as [Hl|[Hn Hr]]; [left; apply fin_skip; auto|right; split; auto; constructor; auto].
Qed.

Lemma first_seq_split s b : first_seq g s b -> forall beta l, s = beta ++ [l] -> ~ is_nt g l ->
  first_in beta b \/ (nullable_seq beta /\ b = l).
Proof.
  induction 1 as [a s Ha | B s r R b HR HB Hfs IH]; intros beta l Heq Hl.
  - destruct beta as [|x beta]; simpl in Heq; inversion Heq; subst.
    + right. split; [constructor|auto].
    + left. apply fin_here. apply fsym_t; auto.
  - destruct beta as [|x beta]; simpl in Heq; inversion Heq; subst.
    + exfalso. apply Hl. exists r, R; auto.
    + destruct (IH (rhs R ++ beta) l) as [Hfi|[Hn Hbl]]; auto.
      * rewrite app_assoc; auto.
      * apply first_in_app_inv in Hfi. destruct Hfi as [Hfi|[Hn Hfi]].
        -- left. apply fin_here. eapply fsym_n; eauto.
        -- left. apply fin_skip; auto. eapply null_rule; eauto.
      * right. split; auto. apply Forall_app in Hn. destruct Hn as [Hn1 Hn2]. constructor; auto. eapply null_rule; eauto.
Qed.

(* ---- closure condition ---- *)
(* looking back along the prefix of an item reaches a state that has a transition on its lhs (C09) *)
Definition back_ok : Prop := forall q r d p, In (r, d) (items (st aut q)) -> path p (firstn d (rhs_of g r)) q -> r <> 0 ->
  exists q', goto aut p (lhs_of g r) = Some q'.

Theorem la_clos q r d B r' R' l b : back_ok -> In (r, d) (items (st aut q)) -> nth_error (rhs_of g r) d = Some B ->
  nth_error g r' = Some R' -> lhs R' = B -> LAm q (r, d) l -> ~ is_nt g l ->
  first_seq g (skipn (S d) (rhs_of g r) ++ [l]) b -> LAm q (r', 0) b.
Proof.
  intros Hback Hin Hn HR' HB (p & Hp & Hc) Hl Hfs. simpl in Hp, Hc.
  assert (Hr'0 : r' <> 0).
  { intros ->. apply (start_not_in_rhs r d). rewrite Hn. f_equal. unfold lhs_of. rewrite HR'. auto. }
  exists q. simpl. split; auto. right. split; auto.
  assert (HlhsB : lhs_of g r' = B) by (unfold lhs_of; rewrite HR'; auto). rewrite HlhsB.
  destruct (H_goto q (r, d) B Hin Hn) as (s1 & Hg1 & Hin1). simpl in Hin1.
  destruct (first_seq_split _ _ Hfs _ _ eq_refl Hl) as [Hfi|[Hnull ->]].
  - (* b in FIRST(beta): found by DR and reads *)
    pose proof (proj2 first_RS _ _ Hfi s1 r (S d) Hin1 eq_refl) as Hrs.
    exists (q, B). split; [apply rt_refl|]. eapply RS_Read; eauto.
  - (* beta nullable: l is inherited through includes (or is the end marker for rule 0) *)
    destruct Hc as [(-> & -> & ->)|(Hr0 & Hf)].
    + (* item of rule 0: start -> . S *)
      rewrite rule0_rhs in Hn, Hp.
      assert (d = 0 /\ B = S0) by (destruct d as [|[|d]]; simpl in Hn; inversion Hn; auto).
      destruct H as [-> ->]. simpl in Hp. subst q.
      exists (0, S0). split; [apply rt_refl|]. exists (0, S0). split; [apply rt_refl|]. right; auto.
    + destruct Hf as (y & Hy & Hrd).
      assert (HR : exists R, nth_error g r = Some R).
      { unfold rhs_of in Hn. destruct (nth_error g r); [eauto|destruct d; discriminate]. }
      destruct HR as (R & HR).
      exists y. split; auto. eapply rt_trans; [apply rt_step|exact Hy].
      destruct (Hback q r d p Hin Hp Hr0) as (q' & Hq').
      exists r, R, d. unfold rhs_of, lhs_of in *. rewrite HR in *. simpl. repeat split; auto. exists q'; auto.
Qed.

End DP.

Print Assumptions la_clos.
Print Assumptions la_prop.
