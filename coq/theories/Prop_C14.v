(* C14 - determinism *)
From Coq Require Import List Arith ZArith Bool Permutation.
Import ListNotations.
From YG Require Import LRBase CompleteDriver LR0Build LR0Complete LASuperset LASubset LAExec LR0More C03Assembly C02Assembly TableCert Resolve PackCore DriverSim Values Oracle Productive SortOrder LexRoundtrip.

(* sorting the keys first removes the dependence on map iteration order *)
Theorem C14_sort_independent :
  forall (A : Type) (leb : A -> A -> bool),
         (forall a b : A, leb a b = true \/ leb b a = true) ->
         (forall a b c : A, leb a b = true -> leb b c = true -> leb a c = true) ->
         (forall a b : A, leb a b = true -> leb b a = true -> a = b) ->
         forall l l' : list A, Permutation l l' -> isort A leb l = isort A leb l'.
Proof. exact SortOrder.isort_order_independent. Qed.
Print Assumptions C14_sort_independent.
