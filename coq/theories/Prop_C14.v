(* C14 - determinism *)
From Coq Require Import List Arith ZArith Bool Permutation.
Import ListNotations.
From YG Require Import LRBase CompleteDriver LR0Build LR0Complete LASuperset LASubset LAExec LR0More C03Assembly C02Assembly TableCert Resolve PackCore DriverSim Values Oracle Productive SortOrder LexRoundtrip.

(* sorting the keys first removes the dependence on map iteration order *)
Theorem C14_sort_independent :
  forall (A : Type) (leb : A -> A -> bool),
         (forall a b : A, leb a b = true \/ leb b a = true) ->
         (forall a b c : A, leb a b = true -> leb b c = true -> leb a c = true) ->
         (forall a b : A, leb a b = true -> leb b a = true -> a = b) ->
         forall l l' : list A, Permutation l l' -> isort A leb l = isort A leb l'.
Proof. exact SortOrder.isort_order_independent. Qed.
Print Assumptions C14_sort_independent.

From YG Require Import LRBase Resolve TableCert OrderIndep.
Close Scope Z_scope.
Open Scope nat_scope.

(* the table generator consults each lookahead set only through membership: whatever order (and with whatever repetitions) the elements of the DR/Read/Follow/lookahead sets are produced in, every cell of the generated table is the same *)
Theorem C14_lookahead_sets_as_sets :
  forall (g : grammar) (aut : automaton) (la1 la2 : nat -> nat -> list nat)
           (sprec rprec : nat -> Z * assoc),
         (forall q r : nat, Permutation (la1 q r) (la2 q r)) ->
         forall q a : nat, gen_table g aut la1 sprec rprec q a = gen_table g aut la2 sprec rprec q a.
Proof. exact OrderIndep.gen_table_permutation. Qed.
Print Assumptions C14_lookahead_sets_as_sets.

From YG Require Import Front OrderIndep.
Close Scope Z_scope.
Open Scope nat_scope.

(* the identifier table is a Go map; it is consumed only through sortedNames: for every permutation of the table the identifiers reach BuildLALR1 (and the automatic numbering, and the emitted constants) in the same order *)
Theorem C14_identifier_table_order :
  forall t1 t2 : list ident,
         Permutation t1 t2 -> NoDup (map i_name t1) -> ordered_idents t1 = ordered_idents t2.
Proof. exact OrderIndep.ordered_idents_order_independent. Qed.
Print Assumptions C14_identifier_table_order.

From YG Require Import Front OrderIndep.
Close Scope Z_scope.
Open Scope nat_scope.

(* sortedNames: bytewise order is a total order, so the sorted list of names does not depend on the order in which the map delivered them *)
Theorem C14_sorted_names :
  forall l l' : list name, Permutation l l' -> sort_names l = sort_names l'.
Proof. exact OrderIndep.sort_names_order_independent. Qed.
Print Assumptions C14_sorted_names.
