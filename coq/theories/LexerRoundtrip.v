(* C10, token level, on the lexer model that is compared with Parser/Lex.go on every run (Lexer.v):
   lexing any rendering of a token sequence - any mixture of blanks, tabs, newlines, // comments and
   /* */ comments (including runs of stars) between the tokens - gives back exactly the tokens.
   Part 1: the lexer unfolds one construct at a time. *)
From Coq Require Import List Arith Ascii Bool NArith Lia.
Import ListNotations.
From YG Require Import Lexer LexerProofs.
Open Scope char_scope.

(* ---------- unfolding ---------- *)
Lemma lex_unfold s :
  lex s = match lex_step [] s with
          | Done ts tl => (ts, tl)
          | Cont ts c' rest => let '(ts', tl) := lex_root (S (length rest)) c' rest in (ts ++ ts', tl)
          end.
Proof.
  unfold lex. cbn [lex_root]. destruct (lex_step [] s) as [ts tl|ts c' rest] eqn:E; [reflexivity|].
  apply lex_step_progress in E. rewrite (lex_root_fuel_indep (length s) (S (length rest)) c' rest) by lia. reflexivity.
Qed.
Lemma lex_cont s ts rest : lex_step [] s = Cont ts [] rest -> lex s = (ts ++ fst (lex rest), snd (lex rest)).
Proof. intro E. rewrite lex_unfold, E. unfold lex. destruct (lex_root (S (length rest)) [] rest). reflexivity. Qed.

(* ---------- character classes ---------- *)
Lemma eqb_false_of_pred (P : ascii -> bool) c d : P c = true -> P d = false -> Ascii.eqb c d = false.
Proof. intros Hc Hd. destruct (Ascii.eqb c d) eqn:E; [|reflexivity]. apply Ascii.eqb_eq in E. subst. congruence. Qed.

Definition starts_comment (s : list ascii) : bool := has_prefix ["/"; "/"] s || has_prefix ["/"; "*"] s.
Lemma not_slash_no_comment c s : Ascii.eqb "/" c = false -> has_prefix ["/"; "/"] (c :: s) = false /\ has_prefix ["/"; "*"] (c :: s) = false.
Proof. intro H. unfold has_prefix. cbn [strip]. rewrite H. split; reflexivity. Qed.

(* a character that is none of the characters rootState dispatches on before it looks at classes *)
Definition plain (c : ascii) : Prop :=
  Ascii.eqb "/" c = false /\ Ascii.eqb c "%" = false /\ Ascii.eqb c "$" = false /\ Ascii.eqb c "|" = false /\
  Ascii.eqb c ":" = false /\ Ascii.eqb c ";" = false /\ is_ws c = false /\ Ascii.eqb c quote = false /\ Ascii.eqb c dquote = false.

Lemma idstart_plain c : is_letter c || Ascii.eqb c "_" = true -> plain c.
Proof.
  intro H. set (P := fun c => is_letter c || Ascii.eqb c "_").
  assert (Hp : forall d, P d = false -> Ascii.eqb c d = false) by (intros d Hd; apply (eqb_false_of_pred P); assumption).
  unfold plain, is_ws. rewrite (Ascii.eqb_sym "/" c). rewrite !Hp by reflexivity. repeat split; reflexivity.
Qed.
Lemma digit_not_letter c : is_digit c = true -> is_letter c = false.
Proof.
  intro H. destruct (is_letter c) eqn:E; [|reflexivity]. exfalso.
  unfold is_letter, is_upper, is_lower, is_digit in *. apply andb_true_iff in H. destruct H as [H1 H2].
  apply N.leb_le in H1, H2. apply orb_true_iff in E. destruct E as [E|E]; apply andb_true_iff in E; destruct E as [E1 E2]; apply N.leb_le in E1, E2; lia.
Qed.
Lemma digit_plain c : is_digit c = true -> plain c /\ (is_letter c || Ascii.eqb c "_") = false /\ Ascii.eqb c "<" = false /\ Ascii.eqb c ">" = false.
Proof.
  intro H.
  assert (Hp : forall d, is_digit d = false -> Ascii.eqb c d = false) by (intros d Hd; apply (eqb_false_of_pred is_digit); assumption).
  rewrite (digit_not_letter c H).
  unfold plain, is_ws. rewrite (Ascii.eqb_sym "/" c). rewrite !Hp by reflexivity. repeat split; reflexivity.
Qed.

(* ---------- separators ---------- *)
Lemma lex_ws c s : is_ws c = true -> lex (c :: s) = lex s.
Proof.
  intro H.
  assert (Hs : Ascii.eqb "/" c = false).
  { rewrite Ascii.eqb_sym. apply (eqb_false_of_pred is_ws); [exact H|reflexivity]. }
  assert (E : lex_step [] (c :: s) = Cont [] [] s).
  { unfold lex_step. destruct (not_slash_no_comment c s Hs) as [-> ->].
    assert (Hp : forall d, is_ws d = false -> Ascii.eqb c d = false) by (intros d Hd; apply (eqb_false_of_pred is_ws); assumption).
    rewrite !Hp by reflexivity. rewrite H. reflexivity. }
  rewrite (lex_cont _ _ _ E). cbn [app]. destruct (lex s); reflexivity.
Qed.

Lemma after_line_app body s : (forall c, In c body -> Ascii.eqb c nl = false) -> after_line (body ++ nl :: s) = s.
Proof.
  induction body as [|c body IH]; intro H; cbn [app after_line]; [rewrite Ascii.eqb_refl; reflexivity|].
  rewrite (H c) by (left; reflexivity). apply IH. intros d Hd. apply H. right. exact Hd.
Qed.
Lemma lex_line_comment body s : (forall c, In c body -> Ascii.eqb c nl = false) -> lex ("/" :: "/" :: body ++ nl :: s) = lex s.
Proof.
  intro H.
  assert (E : lex_step [] ("/" :: "/" :: body ++ nl :: s) = Cont [] [] s).
  { unfold lex_step. unfold has_prefix at 1. cbn [strip Ascii.eqb Bool.eqb]. cbn [after_line]. cbn.
    rewrite after_line_app by exact H. reflexivity. }
  rewrite (lex_cont _ _ _ E). cbn [app]. destruct (lex s); reflexivity.
Qed.

Lemma block_comment_app : forall x b s, block_comment b x = Some [] -> block_comment b (x ++ s) = Some s.
Proof.
  induction x as [|c x IH]; intros b s H; cbn [block_comment app] in *; [discriminate|].
  destruct (b && Ascii.eqb c "/").
  - inversion H. subst x. reflexivity.
  - apply IH. exact H.
Qed.
(* a well-formed block comment body: with the closing two bytes appended it is closed exactly at its end *)
Definition wf_block (body : list ascii) : bool :=
  match block_comment false (body ++ ["*"; "/"]) with Some [] => true | _ => false end.
Lemma lex_block_comment body s : wf_block body = true -> lex ("/" :: "*" :: body ++ "*" :: "/" :: s) = lex s.
Proof.
  intro H. unfold wf_block in H. destruct (block_comment false (body ++ ["*"; "/"])) as [[|? ?]|] eqn:Eb; try discriminate.
  assert (E : lex_step [] ("/" :: "*" :: body ++ "*" :: "/" :: s) = Cont [] [] s).
  { unfold lex_step. unfold has_prefix. cbn [strip Ascii.eqb Bool.eqb skipn]. cbn.
    replace (body ++ "*" :: "/" :: s) with ((body ++ ["*"; "/"]) ++ s) by (rewrite <- app_assoc; reflexivity).
    rewrite (block_comment_app _ _ s Eb). reflexivity. }
  rewrite (lex_cont _ _ _ E). cbn [app]. destruct (lex s); reflexivity.
Qed.

(* ---------- tokens ---------- *)
Definition next_not (f : ascii -> bool) (s : list ascii) : Prop := match s with d :: _ => f d = false | [] => True end.

Lemma take_while_app f a s : forallb f a = true -> next_not f s -> take_while f (a ++ s) = (a, s).
Proof.
  induction a as [|c a IH]; intros Ha Hs; cbn [app take_while].
  - destruct s as [|d s]; [reflexivity|]. cbn in Hs. cbn [take_while]. rewrite Hs. reflexivity.
  - cbn [forallb] in Ha. apply andb_true_iff in Ha. destruct Ha as [Hc Ha]. rewrite Hc, (IH Ha Hs). reflexivity.
Qed.

Ltac finish_cont E s := rewrite (lex_cont _ _ _ E); cbn [app]; destruct (lex s); reflexivity.

Lemma lex_ident c cs s : (is_letter c || Ascii.eqb c "_") = true -> forallb is_idch cs = true -> next_not is_idch s ->
  lex (c :: cs ++ s) = (mkTok LxIdentifier (c :: cs) s :: fst (lex s), snd (lex s)).
Proof.
  intros Hc Hcs Hs. destruct (idstart_plain c Hc) as (H1 & H2 & H3 & H4 & H5 & H6 & H7 & H8 & H9).
  assert (E : lex_step [] (c :: cs ++ s) = Cont [mkTok LxIdentifier (c :: cs) s] [] s).
  { unfold lex_step. destruct (not_slash_no_comment c (cs ++ s) H1) as [-> ->].
    rewrite H2, H3, H4, H5, H6, H7, H8, H9, Hc. rewrite (take_while_app is_idch cs s Hcs Hs). reflexivity. }
  rewrite (lex_cont _ _ _ E). cbn [app fst snd]. destruct (lex s); reflexivity.
Qed.

Lemma lex_number c cs s : is_digit c = true -> forallb is_digit cs = true -> next_not is_digit s ->
  lex (c :: cs ++ s) = (mkTok LxNumber (c :: cs) s :: fst (lex s), snd (lex s)).
Proof.
  intros Hc Hcs Hs. destruct (digit_plain c Hc) as ((H1 & H2 & H3 & H4 & H5 & H6 & H7 & H8 & H9) & Hl & Hlt & Hgt).
  assert (E : lex_step [] (c :: cs ++ s) = Cont [mkTok LxNumber (c :: cs) s] [] s).
  { unfold lex_step. destruct (not_slash_no_comment c (cs ++ s) H1) as [-> ->].
    rewrite H2, H3, H4, H5, H6, H7, H8, H9, Hl, Hlt, Hgt, Hc. rewrite (take_while_app is_digit cs s Hcs Hs). reflexivity. }
  rewrite (lex_cont _ _ _ E). cbn [app fst snd]. destruct (lex s); reflexivity.
Qed.

(* punctuation and the section mark: the first bytes are concrete, the lexer computes *)
Inductive punct := PColon | PBar | PSemi | PLt | PGt.
Definition punct_char (p : punct) : ascii := match p with PColon => ":" | PBar => "|" | PSemi => ";" | PLt => "<" | PGt => ">" end.
Definition punct_kind (p : punct) : lkind := match p with PColon => LxDefine | PBar => LxOr | PSemi => LxEnd | PLt => LxLAngle | PGt => LxRAngle end.
Lemma lex_punct p s : lex (punct_char p :: s) = (mkTok (punct_kind p) [punct_char p] s :: fst (lex s), snd (lex s)).
Proof.
  assert (E : lex_step [] (punct_char p :: s) = Cont [mkTok (punct_kind p) [punct_char p] s] [] s) by (destruct p; reflexivity).
  rewrite (lex_cont _ _ _ E). cbn [app fst snd]. destruct (lex s); reflexivity.
Qed.
Lemma lex_section s : lex ("%" :: "%" :: s) = (mkTok LxSection ["%"; "%"] s :: fst (lex s), snd (lex s)).
Proof.
  assert (E : lex_step [] ("%" :: "%" :: s) = Cont [mkTok LxSection ["%"; "%"] s] [] s) by reflexivity.
  rewrite (lex_cont _ _ _ E). cbn [app fst snd]. destruct (lex s); reflexivity.
Qed.

(* character literals: any byte except the backslash between two quotes *)
Lemma lex_char d s : Ascii.eqb d bslash = false ->
  lex (quote :: d :: quote :: s) = (mkTok LxChar [d] s :: fst (lex s), snd (lex s)).
Proof.
  intro Hd.
  assert (E : lex_step [] (quote :: d :: quote :: s) = Cont [mkTok LxChar [d] s] [] s).
  { unfold lex_step. change (has_prefix ["/"; "/"] (quote :: d :: quote :: s)) with false.
    change (has_prefix ["/"; "*"] (quote :: d :: quote :: s)) with false. unfold bslash in Hd. cbn in Hd. cbn. rewrite Hd. reflexivity. }
  rewrite (lex_cont _ _ _ E). cbn [app fst snd]. destruct (lex s); reflexivity.
Qed.

(* actions: a brace-balanced byte string (the lexer counts braces, nothing else) *)
Lemma braces_app : forall x d s a, braces d x = Some (a, []) -> braces d (x ++ s) = Some (a, s).
Proof.
  induction x as [|c x IH]; intros d s a H; cbn [braces app] in *; [discriminate|].
  destruct (Ascii.eqb c "{").
  - destruct (braces (S d) x) as [[a' r']|] eqn:E; [|discriminate]. inversion H; subst. rewrite (IH _ s _ E). reflexivity.
  - destruct (Ascii.eqb c "}").
    + destruct d as [|[|d]]; try (inversion H; subst; reflexivity).
      destruct (braces (S d) x) as [[a' r']|] eqn:E; [|discriminate]. inversion H; subst. rewrite (IH _ s _ E). reflexivity.
    + destruct (braces d x) as [[a' r']|] eqn:E; [|discriminate]. inversion H; subst. rewrite (IH _ s _ E). reflexivity.
Qed.
Definition wf_action (bc : list ascii) : bool := match braces 1 bc with Some (a, []) => true | _ => false end.
Lemma wf_action_spec bc : wf_action bc = true -> braces 1 bc = Some (bc, []).
Proof.
  unfold wf_action. destruct (braces 1 bc) as [[a [|? ?]]|] eqn:E; try discriminate. intros _.
  assert (Ha : forall x d a r, braces d x = Some (a, r) -> x = a ++ r).
  { clear. induction x as [|c x IH]; intros d a r H; cbn [braces] in H; [discriminate|].
    destruct (Ascii.eqb c "{").
    - destruct (braces (S d) x) as [[a' r']|] eqn:E; [|discriminate]. inversion H; subst. cbn [app]. f_equal. eapply IH; eauto.
    - destruct (Ascii.eqb c "}").
      + destruct d as [|[|d]]; try (inversion H; subst; reflexivity).
        destruct (braces (S d) x) as [[a' r']|] eqn:E; [|discriminate]. inversion H; subst. cbn [app]. f_equal. eapply IH; eauto.
      + destruct (braces d x) as [[a' r']|] eqn:E; [|discriminate]. inversion H; subst. cbn [app]. f_equal. eapply IH; eauto. }
  pose proof (Ha _ _ _ _ E) as Hx. rewrite app_nil_r in Hx. subst a. reflexivity.
Qed.
Lemma lex_action bc s : wf_action bc = true ->
  lex ("{" :: bc ++ s) = (mkTok LxActionQuote ("{" :: bc) s :: fst (lex s), snd (lex s)).
Proof.
  intro H. apply wf_action_spec in H.
  assert (E : lex_step [] ("{" :: bc ++ s) = Cont [mkTok LxActionQuote ("{" :: bc) s] [] s).
  { unfold lex_step. change (has_prefix ["/"; "/"] ("{" :: bc ++ s)) with false. change (has_prefix ["/"; "*"] ("{" :: bc ++ s)) with false.
    cbn -[braces]. rewrite (braces_app bc 1 s bc H). reflexivity. }
  rewrite (lex_cont _ _ _ E). cbn [app fst snd]. destruct (lex s); reflexivity.
Qed.

Lemma lex_nil : lex [] = ([mkTok LxEOF [] []], Closed).
Proof. reflexivity. Qed.

(* ---------- directives ---------- *)
Inductive dirkw := DType | DToken | DLeft | DRight | DNonassoc | DPrec | DPrecedence | DStart.
Definition dir_word (k : dirkw) : list ascii :=
  match k with DType => w_type | DToken => w_token | DLeft => w_left | DRight => w_right | DNonassoc => w_nonassoc
             | DPrec => w_prec | DPrecedence => w_precedence | DStart => w_start end.
Definition dir_kind (k : dirkw) : lkind :=
  match k with DType => LxType | DToken => LxToken | DLeft => LxLeft | DRight => LxRight | DNonassoc => LxNone
             | DPrec => LxPrec | DPrecedence => LxPrecedence | DStart => LxStart end.

Lemma directive_word_kw k s : next_not is_idch s -> directive_word (dir_word k ++ s) = Some (dir_kind k, s).
Proof.
  intro Hs. unfold directive_word, accept_alpha_word. destruct k; destruct s as [|d s']; cbn in Hs |- *; try rewrite Hs; reflexivity.
Qed.
Lemma firstn_app_sub {A} (w s : list A) : firstn (length (w ++ s) - length s) (w ++ s) = w.
Proof.
  rewrite app_length. replace (length w + length s - length s) with (length w) by lia.
  rewrite firstn_app, Nat.sub_diag, firstn_all. cbn [firstn]. apply app_nil_r.
Qed.
Lemma lex_directive k s : next_not is_idch s ->
  lex ("%" :: dir_word k ++ s) = (mkTok (dir_kind k) ("%" :: dir_word k) s :: fst (lex s), snd (lex s)).
Proof.
  intro Hs.
  assert (E : lex_step [] ("%" :: dir_word k ++ s) = Cont [mkTok (dir_kind k) ("%" :: dir_word k) s] [] s).
  { unfold lex_step. change (has_prefix ["/"; "/"] ("%" :: dir_word k ++ s)) with false.
    change (has_prefix ["/"; "*"] ("%" :: dir_word k ++ s)) with false.
    cbn [Ascii.eqb Bool.eqb andb]. cbv zeta.
    rewrite (directive_word_kw k s Hs).
    assert (Hu : is_union (dir_kind k) = false) by (destruct k; reflexivity). rewrite Hu.
    rewrite firstn_app_sub.
    destruct k; reflexivity. }
  rewrite (lex_cont _ _ _ E). cbn [app fst snd]. destruct (lex s); reflexivity.
Qed.


(* ---------- %union { ... } and %{ ... %} ---------- *)
(* the body of %union as the text after the opening brace, closing brace included; the brace must be followed by white space *)
Definition wf_union (bc : list ascii) : bool := wf_action bc && match bc with d :: _ => is_ws d | [] => false end.
Lemma lex_union bc s : wf_union bc = true ->
  lex ("%" :: w_union ++ " " :: "{" :: bc ++ s) = (mkTok LxUnion (removelast bc) s :: fst (lex s), snd (lex s)).
Proof.
  intro H. unfold wf_union in H. apply andb_true_iff in H. destruct H as [Ha Hd]. apply wf_action_spec in Ha.
  destruct bc as [|d bc']; [discriminate|].
  assert (E : lex_step [] ("%" :: w_union ++ " " :: "{" :: (d :: bc') ++ s) = Cont [mkTok LxUnion (removelast (d :: bc')) s] [] s).
  { unfold lex_step, w_union. cbn -[braces removelast is_ws]. unfold union_body, accept_word. cbn -[braces removelast is_ws]. rewrite Hd.
    change (d :: bc' ++ s) with ((d :: bc') ++ s). rewrite (braces_app (d :: bc') 1 s (d :: bc') Ha). reflexivity. }
  rewrite (lex_cont _ _ _ E). cbn [app fst snd]. destruct (lex s); reflexivity.
Qed.

(* the prologue text: scanning it, followed by the terminator, stops exactly at the terminator *)
Definition code_ok (body : list ascii) : bool :=
  match code_end (body ++ ["%"; "}"]) with
  | Some (b, []) => if list_eq_dec ascii_dec b body then true else false
  | _ => false
  end.
Definition ws_or_end (s : list ascii) : Prop := match s with d :: _ => is_ws d = true | [] => True end.

Lemma code_end_more : forall body d r, code_end (body ++ ["%"; "}"]) = Some (body, []) -> is_ws d = true ->
  code_end (body ++ "%" :: "}" :: d :: r) = Some (body, d :: r).
Proof.
  induction body as [|c b IH]; intros d r H Hd.
  - cbn. rewrite Hd. reflexivity.
  - cbn [app] in *. cbn [code_end] in H.
    (* the test at c must fail in the old text, otherwise the first component would be empty *)
    destruct (if Ascii.eqb c "%" then match b ++ ["%"; "}"] with
              | e :: r0 => if Ascii.eqb e "}" then match r0 with d0 :: _ => if is_ws d0 then Some r0 else None | [] => Some r0 end else None
              | [] => None end else None) as [r1|] eqn:Et; [discriminate|].
    destruct (code_end (b ++ ["%"; "}"])) as [[a0 r0]|] eqn:Eb; [|discriminate].
    inversion H; subst a0 r0. specialize (IH d r eq_refl Hd).
    cbn [code_end]. rewrite IH.
    assert (Et' : (if Ascii.eqb c "%" then match b ++ "%" :: "}" :: d :: r with
              | e :: r0 => if Ascii.eqb e "}" then match r0 with d0 :: _ => if is_ws d0 then Some r0 else None | [] => Some r0 end else None
              | [] => None end else None) = None).
    { destruct (Ascii.eqb c "%"); [|reflexivity].
      destruct b as [|e [|e2 b2]]; cbn [app] in *.
      - reflexivity.
      - destruct (Ascii.eqb e "}"); [|reflexivity]. cbn in Et |- *. exact Et.
      - destruct (Ascii.eqb e "}"); [|reflexivity]. destruct (is_ws e2); [discriminate | reflexivity]. }
    rewrite Et'. reflexivity.
Qed.

Lemma lex_code body s : code_ok body = true -> ws_or_end s ->
  lex ("%" :: "{" :: body ++ "%" :: "}" :: s) = (mkTok LxCodeQuote body s :: fst (lex s), snd (lex s)).
Proof.
  intros H Hs. unfold code_ok in H.
  destruct (code_end (body ++ ["%"; "}"])) as [[b [|x l]]|] eqn:Ec; try discriminate.
  destruct (list_eq_dec ascii_dec b body) as [->|]; [|discriminate].
  assert (Ece : code_end (body ++ "%" :: "}" :: s) = Some (body, s)).
  { destruct s as [|d r]; [exact Ec | apply code_end_more; [exact Ec | exact Hs]]. }
  assert (E : lex_step [] ("%" :: "{" :: body ++ "%" :: "}" :: s) = Cont [mkTok LxCodeQuote body s] [] s).
  { unfold lex_step. change (has_prefix ["/"; "/"] ("%" :: "{" :: body ++ "%" :: "}" :: s)) with false.
    change (has_prefix ["/"; "*"] ("%" :: "{" :: body ++ "%" :: "}" :: s)) with false.
    cbn -[code_end]. rewrite Ece. reflexivity. }
  rewrite (lex_cont _ _ _ E). cbn [app fst snd]. destruct (lex s); reflexivity.
Qed.

(* ---------- documents ---------- *)
Inductive sepr := SWs (c : ascii) | SLine (body : list ascii) | SBlock (body : list ascii).
Definition wf_sep (x : sepr) : bool :=
  match x with
  | SWs c => is_ws c
  | SLine body => forallb (fun c => negb (Ascii.eqb c nl)) body
  | SBlock body => wf_block body
  end.
Definition render_sep (x : sepr) : list ascii :=
  match x with
  | SWs c => [c]
  | SLine body => "/" :: "/" :: body ++ [nl]
  | SBlock body => "/" :: "*" :: body ++ ["*"; "/"]
  end.
Definition render_seps (l : list sepr) : list ascii := flat_map render_sep l.

Inductive ltoken :=
| TkId (c : ascii) (cs : list ascii) | TkNum (c : ascii) (cs : list ascii) | TkPunct (p : punct) | TkSect
| TkChar (d : ascii) | TkAct (bc : list ascii) | TkDir (k : dirkw)
| TkUnion (bc : list ascii)       (* %union {bc : the text after the opening brace, closing brace included *)
| TkCode (body : list ascii).     (* %{body%} *)
Definition wf_tok (t : ltoken) : bool :=
  match t with
  | TkId c cs => (is_letter c || Ascii.eqb c "_") && forallb is_idch cs
  | TkNum c cs => is_digit c && forallb is_digit cs
  | TkChar d => negb (Ascii.eqb d bslash)
  | TkAct bc => wf_action bc
  | TkUnion bc => wf_union bc
  | TkCode body => code_ok body
  | _ => true
  end.
Definition render_tok (t : ltoken) : list ascii :=
  match t with
  | TkId c cs | TkNum c cs => c :: cs
  | TkPunct p => [punct_char p]
  | TkSect => ["%"; "%"]
  | TkChar d => [quote; d; quote]
  | TkAct bc => "{" :: bc
  | TkDir k => "%" :: dir_word k
  | TkUnion bc => "%" :: w_union ++ " " :: "{" :: bc
  | TkCode body => "%" :: "{" :: body ++ ["%"; "}"]
  end.
Definition tok_kind (t : ltoken) : lkind :=
  match t with
  | TkId _ _ => LxIdentifier | TkNum _ _ => LxNumber | TkPunct p => punct_kind p | TkSect => LxSection
  | TkChar _ => LxChar | TkAct _ => LxActionQuote | TkDir k => dir_kind k
  | TkUnion _ => LxUnion | TkCode _ => LxCodeQuote
  end.
Definition tok_value (t : ltoken) : list ascii :=
  match t with TkChar d => [d] | TkUnion bc => removelast bc | TkCode body => body | _ => render_tok t end.
(* what may follow a token without any separator: after an identifier, a number or a directive keyword no
   identifier character (a separator or a token that starts with another character is fine) *)
Definition gap_ok (t : ltoken) (rest : list ascii) : Prop :=
  match t with TkId _ _ | TkNum _ _ | TkDir _ => next_not is_idch rest | TkCode _ => ws_or_end rest | _ => True end.

Definition doc := list (list sepr * ltoken).
Fixpoint render (d : doc) (trail : list sepr) : list ascii :=
  match d with
  | [] => render_seps trail
  | (seps, t) :: d' => render_seps seps ++ render_tok t ++ render d' trail
  end.
Fixpoint expect (d : doc) (trail : list sepr) : list tok :=
  match d with
  | [] => []
  | (seps, t) :: d' => mkTok (tok_kind t) (tok_value t) (render d' trail) :: expect d' trail
  end.
Fixpoint wf_doc (d : doc) (trail : list sepr) : Prop :=
  match d with
  | [] => forallb wf_sep trail = true
  | (seps, t) :: d' => forallb wf_sep seps = true /\ wf_tok t = true /\ gap_ok t (render d' trail) /\ wf_doc d' trail
  end.

Lemma lex_seps l s : forallb wf_sep l = true -> lex (render_seps l ++ s) = lex s.
Proof.
  induction l as [|x l IH]; intro H; cbn [render_seps flat_map app]; [reflexivity|].
  cbn [forallb] in H. apply andb_true_iff in H. destruct H as [Hx Hl].
  fold (render_seps l). rewrite <- app_assoc.
  destruct x as [c|body|body]; cbn [render_sep wf_sep] in *.
  - cbn [app]. rewrite lex_ws by exact Hx. apply IH. exact Hl.
  - cbn [app]. rewrite <- app_assoc. cbn [app]. rewrite lex_line_comment; [apply IH; exact Hl|].
    intros c Hc. rewrite forallb_forall in Hx. specialize (Hx c Hc). apply negb_true_iff in Hx. exact Hx.
  - cbn [app]. rewrite <- app_assoc. cbn [app]. rewrite lex_block_comment by exact Hx. apply IH. exact Hl.
Qed.

Lemma is_digit_idch c : is_digit c = true -> is_idch c = true.
Proof. intro H. unfold is_idch. rewrite H. apply orb_true_r || (rewrite orb_true_r; reflexivity). Qed.
Lemma next_not_digit s : next_not is_idch s -> next_not is_digit s.
Proof.
  destruct s as [|d s]; cbn; [auto|]. intro H. destruct (is_digit d) eqn:E; [|reflexivity].
  apply is_digit_idch in E. congruence.
Qed.

Lemma lex_token t s : wf_tok t = true -> gap_ok t s ->
  lex (render_tok t ++ s) = (mkTok (tok_kind t) (tok_value t) s :: fst (lex s), snd (lex s)).
Proof.
  intros Hw Hg. destruct t as [c cs|c cs|p| |d|bc|k|bc|body]; cbn [render_tok tok_kind tok_value wf_tok gap_ok app] in *.
  - apply andb_true_iff in Hw. destruct Hw as [Hc Hcs]. apply lex_ident; assumption.
  - apply andb_true_iff in Hw. destruct Hw as [Hc Hcs]. apply lex_number; [assumption|assumption|apply next_not_digit; exact Hg].
  - apply lex_punct.
  - apply lex_section.
  - apply negb_true_iff in Hw. apply lex_char. exact Hw.
  - apply lex_action. exact Hw.
  - apply lex_directive. exact Hg.
  - rewrite <- !app_assoc. cbn [app]. apply lex_union. exact Hw.
  - rewrite <- app_assoc. cbn [app]. apply lex_code; assumption.
Qed.

(* C10, token level: whatever the layout, the lexer delivers exactly the tokens that were written, then EOF *)
Theorem lex_render d trail : wf_doc d trail -> lex (render d trail) = (expect d trail ++ [mkTok LxEOF [] []], Closed).
Proof.
  induction d as [|[seps t] d IH]; intro H; cbn [render expect wf_doc] in *.
  - rewrite <- (app_nil_r (render_seps trail)). rewrite lex_seps by exact H. apply lex_nil.
  - destruct H as (Hs & Hw & Hg & Hd). rewrite lex_seps by exact Hs.
    rewrite (lex_token t (render d trail) Hw Hg). rewrite (IH Hd). reflexivity.
Qed.
