(* C11 on the model: the identifier table produced by the visitor model (Front.visit_decl) always
   passes the code checker valid_codes - fixed codes are kept, automatic codes are fresh, and if the
   fixed codes are distinct so are all terminal codes.  Part 1: the table as a finite map. *)
From Coq Require Import List Arith ZArith Bool Ascii NArith Lia.
Import ListNotations.
From YG Require Import Front FrontProofs.

Lemma name_eqb_eq a b : name_eqb a b = true <-> a = b.
Proof.
  revert b. induction a as [|x a IH]; intros [|y b]; cbn [name_eqb]; try (split; [discriminate|discriminate]); [split; reflexivity|].
  rewrite andb_true_iff, Ascii.eqb_eq, IH. split; [intros [-> ->]; reflexivity|intro H; inversion H; auto].
Qed.
Lemma name_eqb_refl a : name_eqb a a = true. Proof. apply name_eqb_eq. reflexivity. Qed.
Lemma name_eqb_neq a b : name_eqb a b = false <-> a <> b.
Proof. split; [intros H E; apply name_eqb_eq in E; congruence|intro H; destruct (name_eqb a b) eqn:E; [apply name_eqb_eq in E; contradiction|reflexivity]]. Qed.
Lemma name_eqb_sym a b : name_eqb a b = name_eqb b a.
Proof. destruct (name_eqb a b) eqn:E. apply name_eqb_eq in E. subst. symmetry. apply name_eqb_refl.
  symmetry. apply name_eqb_neq. apply name_eqb_neq in E. auto. Qed.

(* ---------- the table as a finite map ---------- *)
Lemma tab_find_name t n i : tab_find t n = Some i -> i_name i = n /\ In i t.
Proof.
  induction t as [|x t IH]; cbn [tab_find]; [discriminate|].
  destruct (name_eqb (i_name x) n) eqn:E.
  - intro H. inversion H; subst. apply name_eqb_eq in E. split; [exact E|left; reflexivity].
  - intro H. destruct (IH H). split; [assumption|right; assumption].
Qed.
Lemma tab_find_none t n : tab_find t n = None <-> ~ In n (map i_name t).
Proof.
  induction t as [|x t IH]; cbn [tab_find map In]; [split; [intros _ []|reflexivity]|].
  destruct (name_eqb (i_name x) n) eqn:E.
  - apply name_eqb_eq in E. split; [discriminate|intro H; exfalso; apply H; left; exact E].
  - apply name_eqb_neq in E. rewrite IH. split; [intros H [H1|H1]; contradiction|intros H H1; apply H; right; exact H1].
Qed.
Lemma tab_has_in t n : tab_has t n = true <-> In n (map i_name t).
Proof.
  unfold tab_has. destruct (tab_find t n) eqn:E.
  - split; [intros _|reflexivity]. apply tab_find_name in E. destruct E as [<- Hin]. apply in_map. exact Hin.
  - split; [discriminate|]. intro H. apply tab_find_none in E. contradiction.
Qed.
Lemma tab_find_app t i n :
  tab_find (t ++ [i]) n = match tab_find t n with Some x => Some x | None => if name_eqb (i_name i) n then Some i else None end.
Proof.
  induction t as [|x t IH]; cbn [tab_find app]; [reflexivity|].
  destruct (name_eqb (i_name x) n); [reflexivity|exact IH].
Qed.
Lemma tab_update_names t n f : (forall i, i_name (f i) = i_name i) -> map i_name (tab_update t n f) = map i_name t.
Proof.
  intro Hf. induction t as [|x t IH]; cbn [tab_update map]; [reflexivity|].
  destruct (name_eqb (i_name x) n); cbn [map]; [rewrite Hf; reflexivity|rewrite IH; reflexivity].
Qed.
Lemma tab_find_update t n f m : (forall i, i_name (f i) = i_name i) ->
  tab_find (tab_update t n f) m = if name_eqb n m then option_map f (tab_find t n) else tab_find t m.
Proof.
  intro Hf. induction t as [|x t IH]; cbn [tab_update tab_find].
  - destruct (name_eqb n m); reflexivity.
  - destruct (name_eqb (i_name x) n) eqn:Exn.
    + apply name_eqb_eq in Exn. cbn [tab_find]. rewrite Hf, Exn.
      destruct (name_eqb n m); reflexivity.
    + cbn [tab_find]. destruct (name_eqb (i_name x) m) eqn:Exm.
      * destruct (name_eqb n m) eqn:Enm; [|reflexivity].
        apply name_eqb_eq in Enm. subst m. congruence.
      * exact IH.
Qed.

Definition vals (t : idtab) (n : name) : option Z := option_map i_value (tab_find t n).
Definition typs (t : idtab) (n : name) : option idtyp := option_map i_typ (tab_find t n).

(* ---------- number_auto ---------- *)
Definition set_value (v : Z) (old : ident) : ident := mkIdent (i_name old) (i_typ old) v (i_tag old) (i_alias old).
Lemma set_value_name v i : i_name (set_value v i) = i_name i. Proof. reflexivity. Qed.

Lemma number_auto_spec : forall names tab mx, NoDup names ->
  let '(tab', mx') := number_auto tab mx names in
  map i_name tab' = map i_name tab /\ (mx <= mx')%Z /\
  (forall n, typs tab' n = typs tab n) /\
  (forall n, ~ In n names -> vals tab' n = vals tab n) /\
  (forall n v, In n names -> vals tab n = Some v -> v <> 0%Z -> vals tab' n = Some v) /\
  (forall n, In n names -> vals tab n = Some 0%Z -> exists v, vals tab' n = Some v /\ (mx < v <= mx')%Z) /\
  (forall n1 n2, In n1 names -> In n2 names -> n1 <> n2 -> vals tab n1 = Some 0%Z -> vals tab n2 = Some 0%Z -> vals tab' n1 <> vals tab' n2).
Proof.
  induction names as [|n names IH]; intros tab mx Hnd; cbn [number_auto].
  - repeat split; auto; try lia; intros; try contradiction.
  - inversion Hnd as [|? ? Hn Hnd']; subst.
    destruct (tab_find tab n) as [i|] eqn:Ef.
    + destruct (Z.eqb_spec (i_value i) 0) as [Hz|Hnz].
      * (* n gets the next code *)
        set (tab1 := tab_update tab n (fun old => mkIdent (i_name old) (i_typ old) (mx + 1)%Z (i_tag old) (i_alias old))).
        assert (Hf : forall i0, i_name (mkIdent (i_name i0) (i_typ i0) (mx + 1)%Z (i_tag i0) (i_alias i0)) = i_name i0) by reflexivity.
        assert (Hv1 : forall m, vals tab1 m = if name_eqb n m then Some (mx + 1)%Z else vals tab m).
        { intro m. unfold vals, tab1. rewrite tab_find_update by exact Hf. destruct (name_eqb n m); [rewrite Ef; reflexivity|reflexivity]. }
        assert (Ht1 : forall m, typs tab1 m = typs tab m).
        { intro m. unfold typs, tab1. rewrite tab_find_update by exact Hf. destruct (name_eqb n m) eqn:E; [|reflexivity].
          apply name_eqb_eq in E. subst m. rewrite Ef. reflexivity. }
        specialize (IH tab1 (mx + 1)%Z Hnd').
        destruct (number_auto tab1 (mx + 1)%Z names) as [tab' mx'].
        destruct IH as (Hnames & Hle & Htyp & Hout & Hkeep & Hnew & Hdist).
        split; [rewrite Hnames; unfold tab1; apply tab_update_names; exact Hf|].
        split; [lia|].
        split; [intro m; rewrite Htyp; apply Ht1|].
        split.
        { intros m Hm. rewrite Hout by (intro H; apply Hm; right; exact H). rewrite Hv1.
          destruct (name_eqb n m) eqn:E; [apply name_eqb_eq in E; subst; exfalso; apply Hm; left; reflexivity|reflexivity]. }
        split.
        { intros m v [<-|Hm] Hv Hvn.
          - unfold vals in Hv. rewrite Ef in Hv. cbn in Hv. inversion Hv; subst. contradiction.
          - assert (Hnm : n <> m) by (intro; subst; contradiction).
            apply Hkeep; [exact Hm| |exact Hvn]. rewrite Hv1. apply name_eqb_neq in Hnm. rewrite Hnm. exact Hv. }
        split.
        { intros m [<-|Hm] Hv.
          - exists (mx + 1)%Z. rewrite Hout by exact Hn. rewrite Hv1, name_eqb_refl. split; [reflexivity|lia].
          - assert (Hnm : n <> m) by (intro; subst; contradiction).
            destruct (Hnew m Hm) as (v & Hv' & Hr); [rewrite Hv1; apply name_eqb_neq in Hnm; rewrite Hnm; exact Hv|].
            exists v. split; [exact Hv'|lia]. }
        { intros n1 n2 H1 H2 Hne Hv1' Hv2'.
          assert (Hsame : forall m, In m names -> vals tab m = Some 0%Z -> exists v, vals tab' m = Some v /\ (mx + 1 < v)%Z).
          { intros m Hm Hv. assert (Hnm : n <> m) by (intro; subst; contradiction).
            destruct (Hnew m Hm) as (v & Hv' & Hr); [rewrite Hv1; apply name_eqb_neq in Hnm; rewrite Hnm; exact Hv|]. exists v. split; [exact Hv'|lia]. }
          assert (Hhead : vals tab' n = Some (mx + 1)%Z) by (rewrite Hout by exact Hn; rewrite Hv1, name_eqb_refl; reflexivity).
          destruct H1 as [<-|H1]; destruct H2 as [<-|H2].
          - contradiction.
          - destruct (Hsame n2 H2 Hv2') as (v & Hv & Hr). rewrite Hhead, Hv. intro E. inversion E. lia.
          - destruct (Hsame n1 H1 Hv1') as (v & Hv & Hr). rewrite Hhead, Hv. intro E. inversion E. lia.
          - assert (Hn1 : n <> n1) by (intro; subst; contradiction). assert (Hn2 : n <> n2) by (intro; subst; contradiction).
            apply Hdist; auto; rewrite Hv1.
            + apply name_eqb_neq in Hn1. rewrite Hn1. exact Hv1'.
            + apply name_eqb_neq in Hn2. rewrite Hn2. exact Hv2'. }
      * (* n already has a code *)
        specialize (IH tab mx Hnd'). destruct (number_auto tab mx names) as [tab' mx'].
        destruct IH as (Hnames & Hle & Htyp & Hout & Hkeep & Hnew & Hdist).
        assert (Hvn : vals tab n = Some (i_value i)) by (unfold vals; rewrite Ef; reflexivity).
        split; [exact Hnames|]. split; [exact Hle|]. split; [exact Htyp|].
        split; [intros m Hm; apply Hout; intro H; apply Hm; right; exact H|].
        split.
        { intros m v [<-|Hm] Hv Hvz; [rewrite Hout by exact Hn; exact Hv|apply Hkeep; assumption]. }
        split.
        { intros m [<-|Hm] Hv; [rewrite Hvn in Hv; inversion Hv; contradiction|apply Hnew; assumption]. }
        { intros n1 n2 [<-|H1] [<-|H2] Hne Hv1 Hv2; try (rewrite Hvn in *; inversion Hv1; contradiction); try (rewrite Hvn in *; inversion Hv2; contradiction).
          apply Hdist; assumption. }
    + (* n is not in the table *)
      specialize (IH tab mx Hnd'). destruct (number_auto tab mx names) as [tab' mx'].
      destruct IH as (Hnames & Hle & Htyp & Hout & Hkeep & Hnew & Hdist).
      assert (Hvn : vals tab n = None) by (unfold vals; rewrite Ef; reflexivity).
      split; [exact Hnames|]. split; [exact Hle|]. split; [exact Htyp|].
      split; [intros m Hm; apply Hout; intro H; apply Hm; right; exact H|].
      split.
      { intros m v [<-|Hm] Hv Hvz; [rewrite Hvn in Hv; discriminate|apply Hkeep; assumption]. }
      split.
      { intros m [<-|Hm] Hv; [rewrite Hvn in Hv; discriminate|apply Hnew; assumption]. }
      { intros n1 n2 [<-|H1] [<-|H2] Hne Hv1 Hv2; try (rewrite Hvn in *; discriminate).
        apply Hdist; assumption. }
Qed.

(* ---------- the declared numbers ---------- *)
Definition pairs_of (ds : list ident) : list (name * Z) := map (fun i => (i_name i, i_value i)) ds.
Definition lnz (ds : list ident) (n : name) : option Z := last_nonzero (pairs_of ds) n.
Definition val0 (ds : list ident) (n : name) : Z := match lnz ds n with Some v => v | None => 0%Z end.
Definition declared (ds : list ident) (n : name) : bool := existsb (fun i => name_eqb (i_name i) n) ds.

Lemma last_nonzero_snoc l p n :
  last_nonzero (l ++ [p]) n = if name_eqb (fst p) n && negb (Z.eqb (snd p) 0) then Some (snd p) else last_nonzero l n.
Proof. unfold last_nonzero. rewrite fold_left_app. reflexivity. Qed.
Lemma lnz_snoc ds id n :
  lnz (ds ++ [id]) n = if name_eqb (i_name id) n && negb (Z.eqb (i_value id) 0) then Some (i_value id) else lnz ds n.
Proof. unfold lnz, pairs_of. rewrite map_app. cbn [map]. rewrite last_nonzero_snoc. reflexivity. Qed.
Lemma declared_snoc ds id n : declared (ds ++ [id]) n = declared ds n || name_eqb (i_name id) n.
Proof. unfold declared. rewrite existsb_app. cbn [existsb]. rewrite orb_false_r. reflexivity. Qed.

Lemma last_nonzero_in : forall l n v, last_nonzero l n = Some v -> In (n, v) l /\ v <> 0%Z.
Proof.
  intros l. induction l as [|p l IH] using rev_ind; intros n v H; [discriminate|].
  rewrite last_nonzero_snoc in H. destruct (name_eqb (fst p) n && negb (Z.eqb (snd p) 0)) eqn:E.
  - inversion H; subst. apply andb_true_iff in E. destruct E as [E1 E2]. apply name_eqb_eq in E1.
    apply negb_true_iff in E2. apply Z.eqb_neq in E2. split; [|exact E2].
    apply in_or_app. right. left. destruct p; cbn in *; subst; reflexivity.
  - destruct (IH _ _ H). split; [apply in_or_app; left; assumption|assumption].
Qed.
Lemma lnz_in ds n v : lnz ds n = Some v -> v <> 0%Z /\ exists id, In id ds /\ i_name id = n /\ i_value id = v.
Proof.
  intro H. apply last_nonzero_in in H. destruct H as [Hin Hnz]. split; [exact Hnz|].
  unfold pairs_of in Hin. apply in_map_iff in Hin. destruct Hin as (id & E & Hid). inversion E; subst. exists id. auto.
Qed.
Lemma declared_in ds n : declared ds n = true <-> exists id, In id ds /\ i_name id = n.
Proof.
  unfold declared. rewrite existsb_exists. split; intros (id & H1 & H2); exists id; (split; [exact H1|]); apply name_eqb_eq; exact H2.
Qed.

(* ---------- the token fold ---------- *)
Record tinv (ds : list ident) (s : dstate) : Prop := {
  ti_nodup : NoDup (map i_name (ds_tab s));
  ti_vals : forall n, vals (ds_tab s) n = if declared ds n then Some (val0 ds n) else None;
  ti_two : (2 <= ds_max s)%Z;
  ti_max : forall id, In id ds -> (i_value id <= ds_max s)%Z
}.

Lemma NoDup_snoc {A} (l : list A) x : NoDup l -> ~ In x l -> NoDup (l ++ [x]).
Proof.
  induction l as [|y l IH]; intros Hnd Hx; cbn [app]; [constructor; [intros []|constructor]|].
  inversion Hnd; subst. constructor.
  - intro H. apply in_app_or in H. destruct H as [H|[H|[]]]; [contradiction|subst; apply Hx; left; reflexivity].
  - apply IH; [assumption|intro H; apply Hx; right; exact H].
Qed.

Lemma add_token_inv ds s id : tinv ds s -> tinv (ds ++ [id]) (add_token s id).
Proof.
  intros [Hnd Hv H2 Hm]. unfold add_token.
  set (mx := if Z.ltb (ds_max s) (i_value id) then i_value id else ds_max s).
  assert (Hmx : (ds_max s <= mx)%Z /\ (i_value id <= mx)%Z) by (unfold mx; destruct (Z.ltb_spec (ds_max s) (i_value id)); lia).
  destruct (tab_has (ds_tab s) (i_name id)) eqn:Eh; constructor; cbn [ds_tab ds_max].
  - rewrite tab_update_names by reflexivity. exact Hnd.
  - intro n. unfold vals. rewrite tab_find_update by reflexivity. rewrite declared_snoc. unfold val0. rewrite lnz_snoc.
    destruct (name_eqb (i_name id) n) eqn:E.
    + apply name_eqb_eq in E. subst n. rewrite orb_true_r. cbn [andb].
      pose proof (Hv (i_name id)) as Hvi. unfold vals in Hvi.
      unfold tab_has in Eh. destruct (tab_find (ds_tab s) (i_name id)) as [old|] eqn:Ef; [|discriminate].
      cbn [option_map] in *. destruct (declared ds (i_name id)); [|discriminate]. inversion Hvi as [Hold].
      unfold merge_token. cbn [i_value]. destruct (Z.eqb (i_value id) 0); cbn [negb]; [rewrite Hold; reflexivity|reflexivity].
    + rewrite orb_false_r. cbn [andb]. exact (Hv n).
  - lia.
  - intros x Hx. apply in_app_or in Hx. destruct Hx as [Hx|[<-|[]]]; [specialize (Hm _ Hx); lia|lia].
  - rewrite map_app. cbn [map]. apply NoDup_snoc; [exact Hnd|]. intro H. apply tab_has_in in H. congruence.
  - intro n. unfold vals. rewrite tab_find_app. rewrite declared_snoc. unfold val0. rewrite lnz_snoc.
    pose proof (Hv n) as Hvn. unfold vals in Hvn.
    destruct (name_eqb (i_name id) n) eqn:E.
    + apply name_eqb_eq in E. subst n. rewrite orb_true_r. cbn [andb].
      unfold tab_has in Eh. destruct (tab_find (ds_tab s) (i_name id)) eqn:Ef; [discriminate|].
      cbn [option_map] in *. destruct (declared ds (i_name id)) eqn:Ed; [discriminate|].
      assert (Hl : lnz ds (i_name id) = None).
      { destruct (lnz ds (i_name id)) eqn:El; [|reflexivity]. apply lnz_in in El. destruct El as (_ & x & Hx & Hn & _).
        assert (declared ds (i_name id) = true) by (apply declared_in; exists x; auto). congruence. }
      rewrite Hl. destruct (Z.eqb_spec (i_value id) 0) as [->|]; reflexivity.
    + rewrite orb_false_r. cbn [andb]. destruct (tab_find (ds_tab s) n); exact Hvn.
  - lia.
  - intros x Hx. apply in_app_or in Hx. destruct Hx as [Hx|[<-|[]]]; [specialize (Hm _ Hx); lia|lia].
Qed.

Lemma fold_tokens_inv : forall l ds s, tinv ds s -> tinv (ds ++ l) (fold_left add_token l s).
Proof.
  induction l as [|id l IH]; intros ds s H; cbn [fold_left]; [rewrite app_nil_r; exact H|].
  replace (ds ++ id :: l) with ((ds ++ [id]) ++ l) by (rewrite <- app_assoc; reflexivity).
  apply IH. apply add_token_inv. exact H.
Qed.

Lemma tinv_init : tinv [] (mkDstate [] 2%Z 0 []).
Proof. constructor; cbn; [constructor|reflexivity|lia|intros ? []]. Qed.

(* ---------- the stages after the tokens keep what matters ---------- *)
Record jinv (ds : list ident) (tab : idtab) (mx : Z) : Prop := {
  j_nodup : NoDup (map i_name tab);
  j_vals : forall n v, vals tab n = Some v -> v = val0 ds n;
  j_has : forall id, In id ds -> tab_has tab (i_name id) = true;
  j_two : (2 <= mx)%Z;
  j_max : forall id, In id ds -> (i_value id <= mx)%Z
}.

Lemma tinv_jinv ds s : tinv ds s -> jinv ds (ds_tab s) (ds_max s).
Proof.
  intros [Hnd Hv H2 Hm]. constructor; auto.
  - intros n v H. rewrite Hv in H. destruct (declared ds n); inversion H; reflexivity.
  - intros id Hid. unfold tab_has. pose proof (Hv (i_name id)) as H. unfold vals in H.
    assert (Hd : declared ds (i_name id) = true) by (apply declared_in; exists id; auto). rewrite Hd in H.
    destruct (tab_find (ds_tab s) (i_name id)); [reflexivity|discriminate].
Qed.

Lemma undeclared_val0 ds tab mx n : jinv ds tab mx -> tab_has tab n = false -> val0 ds n = 0%Z.
Proof.
  intros J Hn. unfold val0. destruct (lnz ds n) eqn:E; [|reflexivity].
  apply lnz_in in E. destruct E as (_ & id & Hid & Hname & _). rewrite <- Hname in Hn. rewrite (j_has _ _ _ J id Hid) in Hn. discriminate.
Qed.

Lemma jinv_append ds tab mx n ty tag al : jinv ds tab mx -> tab_has tab n = false -> jinv ds (tab ++ [mkIdent n ty 0%Z tag al]) mx.
Proof.
  intros J Hn. pose proof (undeclared_val0 _ _ _ _ J Hn) as H0. destruct J as [Hnd Hv Hh H2 Hm]. constructor; auto.
  - rewrite map_app. cbn [map i_name]. apply NoDup_snoc; [exact Hnd|]. intro H. apply tab_has_in in H. congruence.
  - intros m v. unfold vals. rewrite tab_find_app. destruct (tab_find tab m) eqn:Ef.
    + intro H. apply Hv. unfold vals. rewrite Ef. exact H.
    + cbn [i_name]. destruct (name_eqb n m) eqn:E; [|discriminate]. apply name_eqb_eq in E. subst m. cbn. intro H. inversion H. symmetry. exact H0.
  - intros id Hid. specialize (Hh id Hid). unfold tab_has in *. rewrite tab_find_app. destruct (tab_find tab (i_name id)); [reflexivity|discriminate].
Qed.

Lemma jinv_retag ds tab mx n tag : jinv ds tab mx ->
  jinv ds (tab_update tab n (fun old => mkIdent (i_name old) (i_typ old) (i_value old) tag (i_alias old))) mx.
Proof.
  intros [Hnd Hv Hh H2 Hm]. constructor; auto.
  - rewrite tab_update_names by reflexivity. exact Hnd.
  - intros m v. unfold vals. rewrite tab_find_update by reflexivity. destruct (name_eqb n m) eqn:E.
    + apply name_eqb_eq in E. subst m. destruct (tab_find tab n) eqn:Ef; [|discriminate]. cbn. intro H. apply Hv. unfold vals. rewrite Ef. exact H.
    + apply Hv.
  - intros id Hid. specialize (Hh id Hid). unfold tab_has in *. rewrite tab_find_update by reflexivity.
    destruct (name_eqb n (i_name id)) eqn:E; [|exact Hh]. apply name_eqb_eq in E. rewrite E. destruct (tab_find tab (i_name id)); [reflexivity|discriminate].
Qed.

Lemma add_type_jinv ds s tn : jinv ds (ds_tab s) (ds_max s) -> jinv ds (ds_tab (add_type s tn)) (ds_max (add_type s tn)).
Proof.
  intro J. destruct tn as [tag n]. unfold add_type. cbn [ds_tab ds_max].
  destruct (tab_has (ds_tab s) n) eqn:E; [apply jinv_retag; exact J|apply jinv_append; assumption].
Qed.
Lemma fold_types_jinv ds : forall l s, jinv ds (ds_tab s) (ds_max s) ->
  jinv ds (ds_tab (fold_left add_type l s)) (ds_max (fold_left add_type l s)).
Proof. induction l as [|x l IH]; intros s J; cbn [fold_left]; [exact J|]. apply IH. apply add_type_jinv. exact J. Qed.

Lemma add_precs_tab : forall lines s s', add_precs s lines = inr s' -> ds_tab s' = ds_tab s /\ ds_max s' = ds_max s.
Proof.
  induction lines as [|line lines IH]; intros s s' H; cbn [add_precs] in H; [inversion H; auto|].
  destruct (add_prec_line (ds_tab s) (S (ds_precidx s)) line (ds_prelist s)) as [e|pl]; [discriminate|].
  apply IH in H. cbn [ds_tab ds_max] in H. exact H.
Qed.

(* ---------- sorting the names is a permutation ---------- *)
From Coq Require Import Permutation.
Lemma ins_name_perm x l : Permutation (ins_name x l) (x :: l).
Proof.
  induction l as [|y l IH]; cbn [ins_name]; [reflexivity|].
  destruct (name_leb x y); [reflexivity|]. rewrite IH. apply perm_swap.
Qed.
Lemma sort_names_perm l : Permutation (sort_names l) l.
Proof.
  unfold sort_names. induction l as [|x l IH]; cbn [fold_right]; [reflexivity|].
  rewrite ins_name_perm. constructor. exact IH.
Qed.

(* ---------- small list facts ---------- *)
Lemma nodup_app_disj {A} (l1 l2 : list A) x : NoDup (l1 ++ l2) -> In x l1 -> In x l2 -> False.
Proof.
  induction l1 as [|y l1 IH]; intros Hnd H1 H2; [destruct H1|].
  cbn [app] in Hnd. inversion Hnd; subst. destruct H1 as [<-|H1].
  - apply H3. apply in_or_app. right. exact H2.
  - apply IH; assumption.
Qed.
Lemma nodup_app_r {A} (l1 l2 : list A) : NoDup (l1 ++ l2) -> NoDup l2.
Proof. induction l1 as [|y l1 IH]; intro H; [exact H|]. cbn [app] in H. inversion H; subst. apply IH. assumption. Qed.

Lemma flat_map_nodup_inj {A B} (g : A -> list B) (L : list A) a b x :
  NoDup L -> NoDup (flat_map g L) -> In a L -> In b L -> In x (g a) -> In x (g b) -> a = b.
Proof.
  induction L as [|c L IH]; intros HL Hnd Ha Hb Hxa Hxb; [destruct Ha|].
  cbn [flat_map] in Hnd. inversion HL as [|? ? Hc HL']; subst.
  destruct Ha as [<-|Ha]; destruct Hb as [<-|Hb]; [reflexivity| | |].
  - exfalso. apply (nodup_app_disj _ _ x Hnd Hxa). apply in_flat_map. exists b. auto.
  - exfalso. apply (nodup_app_disj _ _ x Hnd Hxb). apply in_flat_map. exists a. auto.
  - apply IH; auto. apply nodup_app_r in Hnd. exact Hnd.
Qed.

Lemma existsb_name_in x l : existsb (name_eqb x) l = true <-> In x l.
Proof.
  rewrite existsb_exists. split; [intros (y & Hy & E); apply name_eqb_eq in E; subst; exact Hy|intro H; exists x; split; [exact H|apply name_eqb_refl]].
Qed.
Lemma dedup_names_in l n : In n (dedup_names l) <-> In n l.
Proof.
  induction l as [|x l IH]; cbn [dedup_names]; [reflexivity|].
  destruct (existsb (name_eqb x) l) eqn:E.
  - rewrite IH. split; [intro H; right; exact H|]. intros [<-|H]; [apply existsb_name_in; exact E|exact H].
  - cbn [In]. rewrite IH. reflexivity.
Qed.
Lemma dedup_names_nodup l : NoDup (dedup_names l).
Proof.
  induction l as [|x l IH]; cbn [dedup_names]; [constructor|].
  destruct (existsb (name_eqb x) l) eqn:E; [exact IH|].
  constructor; [|exact IH]. rewrite dedup_names_in. intro H. apply existsb_name_in in H. congruence.
Qed.

(* distinct names with the same fixed code contradict NoDup of the fixed codes *)
Lemma fixed_codes_inj l n1 n2 v : NoDup (fixed_codes l) -> last_nonzero l n1 = Some v -> last_nonzero l n2 = Some v -> n1 = n2.
Proof.
  intros Hnd H1 H2. unfold fixed_codes in Hnd.
  pose proof (last_nonzero_in _ _ _ H1) as [Hi1 _]. pose proof (last_nonzero_in _ _ _ H2) as [Hi2 _].
  apply (flat_map_nodup_inj (fun n => match last_nonzero l n with Some v => [v] | None => [] end) (dedup_names (map fst l)) n1 n2 v).
  - apply dedup_names_nodup.
  - exact Hnd.
  - apply dedup_names_in. apply (in_map fst) in Hi1. exact Hi1.
  - apply dedup_names_in. apply (in_map fst) in Hi2. exact Hi2.
  - rewrite H1. left. reflexivity.
  - rewrite H2. left. reflexivity.
Qed.
Lemma fixed_codes_declared l c : In c (fixed_codes l) -> exists n, In (n, c) l.
Proof.
  unfold fixed_codes. rewrite in_flat_map. intros (n & _ & H). destruct (last_nonzero l n) eqn:E; [|destruct H].
  destruct H as [<-|[]]. apply last_nonzero_in in E. exists n. apply E.
Qed.

Lemma NoDup_map_local {A B} (f : A -> B) (l : list A) :
  NoDup l -> (forall x y, In x l -> In y l -> f x = f y -> x = y) -> NoDup (map f l).
Proof.
  induction l as [|x l IH]; intros Hnd Hinj; cbn [map]; [constructor|].
  inversion Hnd; subst. constructor.
  - intro H. apply in_map_iff in H. destruct H as (y & E & Hy).
    assert (y = x) by (apply Hinj; [right; exact Hy|left; reflexivity|exact E]). subst. contradiction.
  - apply IH; [assumption|]. intros a b Ha Hb. apply Hinj; right; assumption.
Qed.

Definition is_term (i : ident) : bool := match i_typ i with TermId => true | NontermId => false end.
Lemma term_codes_filter t : term_codes t = map (fun i => (i_name i, i_value i)) (filter is_term t).
Proof.
  unfold term_codes. induction t as [|i t IH]; cbn [flat_map filter]; [reflexivity|].
  unfold is_term at 1. destruct (i_typ i); cbn [app map]; rewrite IH; reflexivity.
Qed.

Lemma tab_find_in t i : NoDup (map i_name t) -> In i t -> tab_find t (i_name i) = Some i.
Proof.
  induction t as [|x t IH]; intros Hnd Hin; [destruct Hin|]. cbn [map] in Hnd. inversion Hnd; subst.
  cbn [tab_find]. destruct Hin as [<-|Hin]; [rewrite name_eqb_refl; reflexivity|].
  destruct (name_eqb (i_name x) (i_name i)) eqn:E; [|apply IH; assumption].
  apply name_eqb_eq in E. exfalso. apply H1. rewrite E. apply in_map. exact Hin.
Qed.

(* ---------- C11 on the model ---------- *)
Theorem visit_decl_valid_codes d s :
  visit_decl d = inr s -> valid_codes (declared_pairs d) (term_codes (ds_tab s)) = true.
Proof.
  unfold visit_decl. set (ds := concat (d_tokens d)).
  pose proof (fold_tokens_inv ds [] _ tinv_init) as T. cbn [app] in T.
  set (s1 := fold_left add_token ds (mkDstate [] 2%Z 0 [])) in *.
  pose proof (fold_types_jinv ds (d_types d) s1 (tinv_jinv _ _ T)) as J2.
  set (s2 := fold_left add_type (d_types d) s1) in *.
  destruct (add_precs s2 (d_precs d)) as [e|s3] eqn:Ep; [discriminate|].
  apply add_precs_tab in Ep. destruct Ep as [Et Em].
  set (tab := if negb (is_nil (d_start d)) && negb (tab_has (ds_tab s3) (d_start d))
              then ds_tab s3 ++ [mkIdent (d_start d) NontermId 0 [] []] else ds_tab s3).
  assert (J : jinv ds tab (ds_max s3)).
  { unfold tab. rewrite Et, Em. destruct (negb (is_nil (d_start d)) && negb (tab_has (ds_tab s2) (d_start d))) eqn:E; [|exact J2].
    apply andb_true_iff in E. destruct E as [_ E]. apply negb_true_iff in E. apply jinv_append; assumption. }
  pose proof (number_auto_spec (sort_names (tab_names tab)) tab (ds_max s3)) as NA.
  assert (Hperm : Permutation (sort_names (tab_names tab)) (map i_name tab)) by apply sort_names_perm.
  assert (Hnd : NoDup (sort_names (tab_names tab))) by (eapply Permutation_NoDup; [symmetry; exact Hperm|apply (j_nodup _ _ _ J)]).
  specialize (NA Hnd).
  destruct (number_auto tab (ds_max s3) (sort_names (tab_names tab))) as [tab' mx'].
  destruct NA as (Hnames & Hle & Htyp & Hout & Hkeep & Hnew & Hdist).
  intro H. inversion H; subst s. cbn [ds_tab]. clear H.
  assert (Hall : forall n, In n (map i_name tab) -> In n (sort_names (tab_names tab))) by (intros n Hn; eapply Permutation_in; [symmetry; exact Hperm|exact Hn]).
  assert (Hnd' : NoDup (map i_name tab')) by (rewrite Hnames; apply (j_nodup _ _ _ J)).
  (* every identifier of the final table: its value is the fixed one, or a fresh one *)
  assert (Hcase : forall i, In i tab' ->
            (exists v, lnz ds (i_name i) = Some v /\ i_value i = v) \/
            (lnz ds (i_name i) = None /\ (ds_max s3 < i_value i)%Z /\ vals tab (i_name i) = Some 0%Z)).
  { intros i Hi. pose proof (tab_find_in _ _ Hnd' Hi) as Hf.
    assert (Hin : In (i_name i) (map i_name tab)) by (rewrite <- Hnames; apply in_map; exact Hi).
    assert (Hv' : vals tab' (i_name i) = Some (i_value i)) by (unfold vals; rewrite Hf; reflexivity).
    destruct (tab_find tab (i_name i)) as [i0|] eqn:Ef0; [|apply tab_find_none in Ef0; contradiction].
    assert (Hv0 : vals tab (i_name i) = Some (i_value i0)) by (unfold vals; rewrite Ef0; reflexivity).
    pose proof (j_vals _ _ _ J _ _ Hv0) as Hval. unfold val0 in Hval.
    destruct (lnz ds (i_name i)) as [v|] eqn:El.
    - left. exists v. split; [reflexivity|]. apply lnz_in in El. destruct El as [Hnz _].
      rewrite Hval in Hv0. rewrite (Hkeep _ _ (Hall _ Hin) Hv0 Hnz) in Hv'. inversion Hv'. reflexivity.
    - right. rewrite Hval in Hv0. split; [reflexivity|]. split; [|exact Hv0].
      destruct (Hnew _ (Hall _ Hin) Hv0) as (v & Hv & Hr). rewrite Hv in Hv'. inversion Hv'. lia. }
  assert (Hfixle : forall c, In c (fixed_codes (declared_pairs d)) -> (c <= ds_max s3)%Z).
  { intros c Hc. apply fixed_codes_declared in Hc. destruct Hc as (n & Hc). unfold declared_pairs in Hc.
    apply in_map_iff in Hc. destruct Hc as (id & E & Hid). inversion E; subst. rewrite Em. apply (j_max _ _ _ J2). exact Hid. }
  unfold valid_codes. apply andb_true_iff. split.
  - apply forallb_forall. intros p Hp. rewrite term_codes_filter in Hp. apply in_map_iff in Hp. destruct Hp as (i & <- & Hi).
    apply filter_In in Hi. destruct Hi as [Hi _]. cbn [fst snd].
    change (last_nonzero (declared_pairs d) (i_name i)) with (lnz ds (i_name i)).
    destruct (Hcase i Hi) as [(v & El & Ev)|(El & Hgt & _)]; rewrite El.
    + apply Z.eqb_eq. exact Ev.
    + apply andb_true_iff. split; apply negb_true_iff.
      * destruct (existsb (Z.eqb (i_value i)) (fixed_codes (declared_pairs d))) eqn:Ex; [|reflexivity].
        apply existsb_exists in Ex. destruct Ex as (c & Hc & E). apply Z.eqb_eq in E. subst c. specialize (Hfixle _ Hc). lia.
      * apply Z.eqb_neq. pose proof (j_two _ _ _ J). lia.
  - destruct (nodup_z (fixed_codes (declared_pairs d))) eqn:Efix; [|reflexivity].
    apply nodup_z_spec in Efix. apply nodup_z_spec.
    rewrite term_codes_filter, map_map. cbn [snd].
    apply NoDup_map_local.
    + apply NoDup_filter. eapply NoDup_map_inv. exact Hnd'.
    + intros x y Hx Hy Exy. apply filter_In in Hx. apply filter_In in Hy. destruct Hx as [Hx _]. destruct Hy as [Hy _].
      assert (Hname : i_name x = i_name y).
      { destruct (Hcase x Hx) as [(vx & Elx & Evx)|(Elx & Hgx & Hzx)]; destruct (Hcase y Hy) as [(vy & Ely & Evy)|(Ely & Hgy & Hzy)].
        - apply (fixed_codes_inj (declared_pairs d) _ _ vx Efix); [exact Elx|]. change (lnz ds (i_name y) = Some vx). rewrite Ely. f_equal. congruence.
        - exfalso. assert (In vx (fixed_codes (declared_pairs d))).
          { unfold fixed_codes. apply in_flat_map. exists (i_name x). split.
            - apply dedup_names_in. apply last_nonzero_in in Elx. destruct Elx as [Hin _]. apply (in_map fst) in Hin. exact Hin.
            - change (last_nonzero (declared_pairs d) (i_name x)) with (lnz ds (i_name x)). rewrite Elx. left. reflexivity. }
          specialize (Hfixle _ H). lia.
        - exfalso. assert (In vy (fixed_codes (declared_pairs d))).
          { unfold fixed_codes. apply in_flat_map. exists (i_name y). split.
            - apply dedup_names_in. apply last_nonzero_in in Ely. destruct Ely as [Hin _]. apply (in_map fst) in Hin. exact Hin.
            - change (last_nonzero (declared_pairs d) (i_name y)) with (lnz ds (i_name y)). rewrite Ely. left. reflexivity. }
          specialize (Hfixle _ H). lia.
        - destruct (list_eq_dec Ascii.ascii_dec (i_name x) (i_name y)) as [E|Hne]; [exact E|exfalso].
          assert (Hinx : In (i_name x) (map i_name tab)) by (rewrite <- Hnames; apply in_map; exact Hx).
          assert (Hiny : In (i_name y) (map i_name tab)) by (rewrite <- Hnames; apply in_map; exact Hy).
          apply (Hdist _ _ (Hall _ Hinx) (Hall _ Hiny) Hne Hzx Hzy).
          unfold vals. rewrite (tab_find_in _ _ Hnd' Hx), (tab_find_in _ _ Hnd' Hy). cbn. f_equal. exact Exy. }
      pose proof (tab_find_in _ _ Hnd' Hx) as Fx. pose proof (tab_find_in _ _ Hnd' Hy) as Fy. rewrite Hname in Fx. rewrite Fx in Fy. inversion Fy. reflexivity.
Qed.

(* left-hand sides that were not declared become nonterminals: the terminals and their codes stay *)
Lemma term_codes_app t i : term_codes (t ++ [i]) = term_codes t ++ match i_typ i with TermId => [(i_name i, i_value i)] | NontermId => [] end.
Proof. unfold term_codes. rewrite flat_map_app. cbn [flat_map]. rewrite app_nil_r. reflexivity. Qed.
Lemma add_lhs_term_codes : forall rs tab mx, term_codes (fst (add_lhs tab mx rs)) = term_codes tab.
Proof.
  induction rs as [|r rs IH]; intros tab mx; cbn [add_lhs]; [reflexivity|].
  destruct (tab_has tab (r_lhs r)); [apply IH|]. rewrite IH, term_codes_app. cbn [i_typ]. apply app_nil_r.
Qed.

Theorem visit_valid_codes a v :
  visit a = inr v -> valid_codes (declared_pairs (a_decl a)) (term_codes (vs_tab v)) = true.
Proof.
  unfold visit. destruct (visit_decl (a_decl a)) as [e|s] eqn:E; [discriminate|].
  pose proof (add_lhs_term_codes (a_rules a) (ds_tab s) (ds_max s)) as Hl.
  destruct (add_lhs (ds_tab s) (ds_max s) (a_rules a)) as [tab mx]. cbn [fst] in Hl.
  destruct (visit_rules_list tab (ds_prelist s) (a_rules a)) as [e|vs]; [discriminate|].
  intro H. inversion H; subst. cbn [vs_tab]. rewrite Hl. apply visit_decl_valid_codes. exact E.
Qed.
