(* C07 - semantic values *)
From Coq Require Import List Arith ZArith Bool Permutation.
Import ListNotations.
From YG Require Import LRBase CompleteDriver LR0Build LR0Complete LASuperset LASubset LAExec LR0More C03Assembly C02Assembly TableCert Resolve PackCore DriverSim Values Oracle Productive SortOrder LexRoundtrip.

(* an accepted run returns the bottom-up evaluation of the semantic actions over the parse tree: Dollar[n] is the n-th right-hand-side value for rules of every length *)
Theorem C07_values :
  forall (g : grammar) (act : semact) (aut : automaton) (tab : table),
         cert g aut tab ->
         (forall q r : nat,
          In (r, 0%nat) (items (LRBase.st aut q)) ->
          r <> 0%nat -> (r < length g)%nat -> exists q' : nat, tab q (lhs_of g r) = Shift q') ->
         forall (fuel : nat) (inp0 : list (nat * Z)) (stk : list entry) (inp : list tok) 
           (pos : nat) (reds : list nat),
         (forall (a : nat) (v : Z), In (a, v) inp0 -> a <> eof) ->
         vinv g act aut inp0 stk inp reds ->
         match arun tab g act fuel stk inp pos reds with
         | RAcc v out =>
             exists t : vtree,
               vvalid g t /\
               Some (vroot g t) = hd_error (rhs_of g 0) /\ vyield t = inp0 /\ vpost t = out /\ v = veval act t
         | RCrash | RNil => False
         | _ => True
         end.
Proof. exact Values.arun_values. Qed.
Print Assumptions C07_values.

(* the checker used on the real parsers: success means the reported value is the evaluation of a valid tree *)
Theorem C07_replay_checker :
  forall (g : grammar) (act : semact) (w : list tok) (reds : list (nat * nat)) (v : Z),
         replay g act [] w 0 reds = Some v ->
         exists t : vtree,
           vvalid g t /\
           Some (vroot g t) = hd_error (rhs_of g 0) /\
           vyield t = w /\ vpost t = map fst reds /\ v = veval act t.
Proof. exact Oracle.replay_sound. Qed.
Print Assumptions C07_replay_checker.

From YG Require Import LRBase TableCert Pipeline PipelineRun Drivers DriverSim Values.
Close Scope Z_scope.
Open Scope nat_scope.

(* C07 for the parsers the pipeline emits (same statement as C06_pipeline): in every variant the value returned for an accepted input is the bottom-up evaluation of the semantic actions over the parse tree, for rules of every length *)
Theorem C07_pipeline :
  forall gi : ginfo,
         (forall r d : nat, nth_error (rhs_of (gi_rules gi) r) d <> Some 0) ->
         lhs_of (gi_rules gi) 0 = 0 ->
         (forall r d : nat, nth_error (rhs_of (gi_rules gi) r) d <> Some eof) ->
         (exists S : nat, rhs_of (gi_rules gi) 0 = [S]) ->
         eof < gi_nsyms gi ->
         (forall (r : nat) (R : rule), nth_error (gi_rules gi) r = Some R -> lhs R < gi_nsyms gi) ->
         forall t : tables,
         generate_tables gi = inr t ->
         packed_agrees gi t ->
         (forall q r : nat,
          In (r, 0) (items (st (t_aut t) q)) ->
          r <> 0 ->
          r < length (gi_rules gi) ->
          exists q' : nat,
            gen_table (gi_rules gi) (t_aut t) (la_lookup (t_la t)) (sprec_of gi) (rprec_of gi) q
              (lhs_of (gi_rules gi) r) = Shift q') ->
         forall (v : variant) (act : semact) (fuel : nat) (inp : list tok),
         (forall x : tok, In x inp -> fst x <> eof /\ fst x < gi_nsyms gi) ->
         match parse v t (gi_rules gi) act fuel inp with
         | RAcc value out =>
             exists tr : vtree,
               vvalid (gi_rules gi) tr /\
               Some (vroot (gi_rules gi) tr) = hd_error (rhs_of (gi_rules gi) 0) /\
               vyield tr = inp /\ vpost tr = out /\ value = veval act tr
         | RCrash | RNil => False
         | _ => True
         end.
Proof. exact PipelineRun.pipeline_values. Qed.
Print Assumptions C07_pipeline.

From YG Require Import LRBase Pipeline Front FrontAlign.
Close Scope Z_scope.
Open Scope nat_scope.

(* the action of a production: the reduce function takes the action code of production i from entry i-1 of the rule list of the grammar file; the two lists are aligned (production i+1 is built from entry i), so every production runs the action written next to it *)
Theorem C07_action_alignment :
  forall (v : visited) (b : built),
         build_grammar v = inr b ->
         length (gi_rules (b_gi b)) = S (length (vs_rules v)) /\
         (forall (i : nat) (r : vrule),
          nth_error (vs_rules v) i = Some r ->
          exists R : rule,
            nth_error (gi_rules (b_gi b)) (S i) = Some R /\
            sym_index (b_syms b) (v_lhs r) = Some (lhs R) /\
            map_opt (sym_index (b_syms b)) (v_rhs r) = Some (rhs R) /\
            nth_error (b_rule_prec b) (S i) =
            Some match v_prec r with
                 | Some n => sym_index (b_syms b) n
                 | None => None
                 end).
Proof. exact FrontAlign.rules_aligned. Qed.
Print Assumptions C07_action_alignment.

From Coq Require Import NArith Ascii.
From YG Require Import EmitAction.
Close Scope Z_scope.
Open Scope nat_scope.

(* which value a reference to the n-th symbol denotes in the emitted code: cell n of the Dollar slice (C07_values: Dollar is the slice of the rule's symbols), the union field named by the tag of symbol n - and nothing is emitted when n is out of range or the symbol has no tag *)
Theorem C07_reference_code :
  forall (ao am : list Ascii.ascii) (rtags : list (list Ascii.ascii)) (ds out : list Ascii.ascii),
         arg_code ao am rtags ds = Some out <->
         (exists (k : nat) (tag : list Ascii.ascii),
            N.to_nat (dig_val 0 ds) = S k /\
            nth_error rtags k = Some tag /\ tag <> [] /\ out = ao ++ ds ++ am ++ tag).
Proof. exact EmitAction.arg_code_spec. Qed.
Print Assumptions C07_reference_code.

From YG Require Import LRBase CompleteDriver LR0Build Resolve TableCert PackCore Pipeline PipelineRun Drivers DriverSim Values Front WfGrammar YParser EndToEnd GotoAfterReduce EndToEndWf.
Close Scope Z_scope.
Open Scope nat_scope.

(* from the bytes of the grammar file: for the tables the generator computes for a text, in every variant, the value returned for an accepted input is the bottom-up evaluation of the actions over a parse tree whose yield is that input and whose post-order is the sequence of reductions performed; no run crashes or returns nil. The only hypothesis left is the agreement of the packed lookups with the matrix (C05_from_the_text); that after every reduction there is a goto is proved of every emitted table (C07_goto_after_reduce) *)
Theorem C07_from_the_text :
  forall (s : list Ascii.ascii) (b : built) (t : tables),
         generate_text s = GOk b t ->
         packed_agrees (b_gi b) t ->
         forall (v : variant) (act : semact) (fuel : nat) (inp : list tok),
         (forall x : tok, In x inp -> fst x <> eof /\ fst x < gi_nsyms (b_gi b)) ->
         match parse v t (gi_rules (b_gi b)) act fuel inp with
         | RAcc value out =>
             exists tr : vtree,
               vvalid (gi_rules (b_gi b)) tr /\
               Some (vroot (gi_rules (b_gi b)) tr) = hd_error (rhs_of (gi_rules (b_gi b)) 0) /\
               vyield tr = inp /\ vpost tr = out /\ value = veval act tr
         | RCrash | RNil => False
         | _ => True
         end.
Proof. exact EndToEndWf.text_values. Qed.
Print Assumptions C07_from_the_text.

From YG Require Import LRBase CompleteDriver LR0Build Resolve TableCert PackCore Pipeline PipelineRun Drivers DriverSim Values Front WfGrammar YParser EndToEnd GotoAfterReduce EndToEndWf.
Close Scope Z_scope.
Open Scope nat_scope.

(* in every state that holds an initial item A -> . w of a rule other than rule 0 the emitted table has a shift entry in the column of A: the item is there because some item of the state has A after the dot (closure), so the automaton has a transition on A, and no reduction competes for the column of a nonterminal (lookaheads are terminals) *)
Theorem C07_goto_after_reduce :
  forall gi : ginfo,
         (forall r d : nat, nth_error (rhs_of (gi_rules gi) r) d <> Some 0) ->
         lhs_of (gi_rules gi) 0 = 0 ->
         (forall r d : nat, nth_error (rhs_of (gi_rules gi) r) d <> Some eof) ->
         rhs_of (gi_rules gi) 0 = [start_user (gi_rules gi)] ->
         ~ is_nt (gi_rules gi) eof ->
         (forall (seq : list nat) (l : nat),
          ~ is_nt (gi_rules gi) l -> exists b : nat, first_seq (gi_rules gi) (seq ++ [l]) b) ->
         forall t : tables,
         generate_tables gi = inr t ->
         forall q r : nat,
         In (r, 0) (items (LRBase.st (t_aut t) q)) ->
         r <> 0 ->
         r < length (gi_rules gi) ->
         exists q' : nat,
           gen_table (gi_rules gi) (t_aut t) (la_lookup (t_la t)) (sprec_of gi) (rprec_of gi) q
             (lhs_of (gi_rules gi) r) = Shift q'.
Proof. exact GotoAfterReduce.goto_after_reduce. Qed.
Print Assumptions C07_goto_after_reduce.
