(* Proofs about the lexer model (Lexer.v): every return to rootState has consumed at least one byte,
   so the lexer needs no more than |input|+1 visits of rootState, never runs out of fuel, and its result
   does not depend on the fuel; it emits at most |input|+2 tokens. *)
From Coq Require Import List Arith Ascii Bool NArith Lia.
Import ListNotations.
From YG Require Import Lexer.

Lemma strip_len p : forall s r, strip p s = Some r -> length r + length p = length s.
Proof.
  induction p as [|x p IH]; intros s r H; cbn [strip] in H.
  - inversion H. cbn. lia.
  - destruct s as [|y s]; [discriminate|]. destruct (Ascii.eqb x y); [|discriminate]. apply IH in H. cbn [length]. lia.
Qed.
Lemma skip_spaces_le s : length (skip_spaces s) <= length s.
Proof.
  induction s as [|c s IH]; cbn [skip_spaces]; [lia|].
  destruct (Ascii.eqb c " "); cbn [length]; lia.
Qed.
Lemma take_while_len f : forall s a r, take_while f s = (a, r) -> length a + length r = length s.
Proof.
  induction s as [|c s IH]; intros a r H; cbn [take_while] in H; [inversion H; reflexivity|].
  destruct (f c); [|inversion H; reflexivity].
  destruct (take_while f s) as [a' r'] eqn:E. inversion H; subst. specialize (IH _ _ eq_refl). cbn [length]. lia.
Qed.
Lemma accept_alpha_word_len w s r : accept_alpha_word w s = Some r -> length r + length w <= length s.
Proof.
  unfold accept_alpha_word. destruct (strip w (skip_spaces s)) as [r0|] eqn:E; [|discriminate].
  apply strip_len in E. pose proof (skip_spaces_le s).
  destruct r0 as [|c r0]; [intro H0; inversion H0; subst; cbn in *; lia|].
  destruct (is_idch c); [discriminate|]. intro H0. inversion H0; subst. lia.
Qed.
Lemma accept_word_len w s r : accept_word w s = Some r -> length r + length w <= length s.
Proof.
  unfold accept_word. destruct (strip w (skip_spaces s)) as [r0|] eqn:E; [|discriminate].
  apply strip_len in E. pose proof (skip_spaces_le s).
  destruct r0 as [|c r0]; [intro H0; inversion H0; subst; cbn in *; lia|].
  destruct (is_ws c); [|discriminate]. intro H0. inversion H0; subst. lia.
Qed.
Lemma after_line_le s : length (after_line s) <= length s.
Proof. induction s as [|c s IH]; cbn [after_line length]; [lia|]. destruct (Ascii.eqb c nl); lia. Qed.
Lemma block_comment_len : forall s b r, block_comment b s = Some r -> length r < length s.
Proof.
  induction s as [|c s IH]; intros b r H; cbn [block_comment] in H; [discriminate|].
  destruct (b && Ascii.eqb c "/"); [inversion H; subst; cbn; lia|]. apply IH in H. cbn [length]. lia.
Qed.
Lemma braces_len : forall s d a r, braces d s = Some (a, r) -> length r < length s.
Proof.
  induction s as [|c s IH]; intros d a r H; cbn [braces] in H; [discriminate|]. cbn [length].
  destruct (Ascii.eqb c "{").
  - destruct (braces (S d) s) as [[a' r']|] eqn:E; [|discriminate]. inversion H; subst. apply IH in E. lia.
  - destruct (Ascii.eqb c "}").
    + destruct d as [|[|d]]; try (inversion H; subst; lia).
      destruct (braces (S d) s) as [[a' r']|] eqn:E; [|discriminate]. inversion H; subst. apply IH in E. lia.
    + destruct (braces d s) as [[a' r']|] eqn:E; [|discriminate]. inversion H; subst. apply IH in E. lia.
Qed.
Lemma code_end_len : forall s v r, code_end s = Some (v, r) -> length r < length s.
Proof.
  induction s as [|c s IH]; intros v r H; cbn [code_end] in H; [discriminate|]. cbn [length].
  destruct (if Ascii.eqb c "%" then match s with
                                    | e :: r0 => if Ascii.eqb e "}" then match r0 with d :: _ => if is_ws d then Some r0 else None | [] => Some r0 end else None
                                    | [] => None end else None) as [r0|] eqn:E.
  - inversion H; subst. destruct (Ascii.eqb c "%"); [|discriminate].
    destruct s as [|c2 s2]; [discriminate|]. destruct (Ascii.eqb c2 "}"); [|discriminate].
    destruct s2 as [|d s3]; [inversion E; subst; cbn; lia|]. destruct (is_ws d); [|discriminate]. inversion E; subst. cbn [length]. lia.
  - destruct (code_end s) as [[a' r']|] eqn:E2; [|discriminate]. inversion H; subst. pose proof (IH _ _ eq_refl). lia.
Qed.
Lemma string_body_len : forall n s v r, length s <= n -> string_body s = Some (v, r) -> length r < length s.
Proof.
  induction n as [|n IH]; intros s v r Hn H.
  - destruct s; [discriminate|cbn in Hn; lia].
  - destruct s as [|c s]; [discriminate|]. cbn [string_body] in H. cbn [length] in *.
    destruct (Ascii.eqb c dquote); [inversion H; subst; lia|].
    destruct (Ascii.eqb c bslash).
    + destruct s as [|d s']; [discriminate|]. destruct (string_body s') as [[a' r']|] eqn:E; [|discriminate].
      inversion H; subst. apply IH in E; [|cbn [length] in Hn; lia]. cbn [length]. lia.
    + destruct (string_body s) as [[a' r']|] eqn:E; [|discriminate]. inversion H; subst. apply IH in E; [lia|lia].
Qed.
Lemma directive_word_len s k r : directive_word s = Some (k, r) -> length r < length s.
Proof.
  unfold directive_word.
  repeat match goal with
         | |- context [accept_alpha_word ?w s] =>
           let E := fresh "E" in destruct (accept_alpha_word w s) eqn:E;
             [intro H; inversion H; subst; apply accept_alpha_word_len in E; simpl in E; lia|]
         end.
  intro H; discriminate H.
Qed.
Lemma skip_blank_tab_le s : length (skip_blank_tab s) <= length s.
Proof. induction s as [|c s IH]; cbn [skip_blank_tab length]; [lia|]. destruct (Ascii.eqb c " " || Ascii.eqb c tabc); cbn [length]; lia. Qed.
Lemma union_body_len s v r : union_body s = Some (v, r) -> length r < length s.
Proof.
  unfold union_body. destruct (accept_word ["{"%char] (skip_blank_tab s)) as [r0|] eqn:E; [|discriminate].
  destruct (braces 1 r0) as [[a r']|] eqn:Eb; [|discriminate]. intro H. inversion H; subst.
  apply accept_word_len in E. apply braces_len in Eb. pose proof (skip_blank_tab_le s). cbn [length] in E. lia.
Qed.

(* every return to rootState has consumed at least one byte *)
Theorem lex_step_progress carry s ts carry' rest : lex_step carry s = Cont ts carry' rest -> length rest < length s.
Proof.
  unfold lex_step.
  destruct (has_prefix ["/"; "/"]%char s) eqn:Ep1.
  - intro H. inversion H; subst. unfold has_prefix in Ep1. destruct (strip ["/"; "/"]%char s) eqn:E; [|discriminate].
    destruct s as [|c s]; [discriminate|]. cbn [after_line length].
    pose proof (after_line_le s). destruct (Ascii.eqb c nl); lia.
  - destruct (has_prefix ["/"; "*"]%char s) eqn:Ep2.
    + destruct (block_comment false (skipn 2 s)) as [r|] eqn:E; [|discriminate]. intro H. inversion H; subst.
      apply block_comment_len in E. pose proof (skipn_length 2 s). lia.
    + destruct s as [|c r]; [discriminate|]. cbn [length].
      repeat match goal with
             | |- context [if ?b then _ else _] => destruct b
             | |- context [match ?r with [] => _ | _ :: _ => _ end] => destruct r; cbn [length]
             | |- context [match code_end ?x with _ => _ end] => let E := fresh "E" in destruct (code_end x) as [[? ?]|] eqn:E; [apply code_end_len in E|]
             | |- context [match directive_word ?x with _ => _ end] => let E := fresh "E" in destruct (directive_word x) as [[? ?]|] eqn:E; [apply directive_word_len in E|]
             | |- context [match union_body ?x with _ => _ end] => let E := fresh "E" in destruct (union_body x) as [[? ?]|] eqn:E; [apply union_body_len in E|]
             | |- context [let '(_, _) := take_while ?f ?x in _] => let E := fresh "E" in destruct (take_while f x) as [? ?] eqn:E; apply take_while_len in E
             | |- context [match accept_alpha_word ?w ?x with _ => _ end] => let E := fresh "E" in destruct (accept_alpha_word w x) eqn:E; [apply accept_alpha_word_len in E|]
             | |- context [match string_body ?x with _ => _ end] => let E := fresh "E" in destruct (string_body x) as [[? ?]|] eqn:E; [apply (string_body_len _ _ _ _ (le_n _)) in E|]
             | |- context [match braces ?d ?x with _ => _ end] => let E := fresh "E" in destruct (braces d x) as [[? ?]|] eqn:E; [apply braces_len in E|]
             end;
      intro H; inversion H; subst; cbn [length] in *; lia.
Qed.

(* the result does not depend on the fuel once it exceeds the length of the input *)
Theorem lex_root_fuel_indep : forall f1 f2 carry s, length s < f1 -> length s < f2 -> lex_root f1 carry s = lex_root f2 carry s.
Proof.
  induction f1 as [|f1 IH]; intros f2 carry s H1 H2; [lia|].
  destruct f2 as [|f2]; [lia|]. cbn [lex_root].
  destruct (lex_step carry s) as [ts tl|ts c' rest] eqn:E; [reflexivity|].
  apply lex_step_progress in E. rewrite (IH f2 c' rest) by lia. reflexivity.
Qed.

Definition no_fuel_tok (ts : list tok) : Prop := forall t, In t ts -> t_kind t <> LxFuel.

Lemma lex_step_no_fuel carry s :
  match lex_step carry s with Done ts _ => no_fuel_tok ts | Cont ts _ _ => no_fuel_tok ts end.
Proof.
  unfold lex_step, no_fuel_tok, errtok.
  repeat match goal with
         | |- context [if ?b then _ else _] => destruct b
         | |- context [match ?r with [] => _ | _ :: _ => _ end] => destruct r
         | |- context [match block_comment ?b ?x with _ => _ end] => destruct (block_comment b x)
         | |- context [match code_end ?x with _ => _ end] => destruct (code_end x) as [[? ?]|]
         | |- context [match directive_word ?x with _ => _ end] => let E := fresh "E" in destruct (directive_word x) as [[k ?]|] eqn:E
         | |- context [match union_body ?x with _ => _ end] => destruct (union_body x) as [[? ?]|]
         | |- context [let '(_, _) := take_while ?f ?x in _] => destruct (take_while f x) as [? ?]
         | |- context [match accept_alpha_word ?w ?x with _ => _ end] => destruct (accept_alpha_word w x)
         | |- context [match string_body ?x with _ => _ end] => destruct (string_body x) as [[? ?]|]
         | |- context [match braces ?d ?x with _ => _ end] => destruct (braces d x) as [[? ?]|]
         end;
  intros t Ht; cbn [In] in Ht;
  repeat (destruct Ht as [<-|Ht]; [cbn [t_kind]; try discriminate|]); try contradiction.
  (* the directive keywords: none of them is the fuel marker *)
  all: unfold directive_word in E;
       repeat match type of E with
              | context [accept_alpha_word ?w ?x] => destruct (accept_alpha_word w x); [inversion E; subst; discriminate|]
              end; discriminate E.
Qed.

(* C13, lexer: with fuel |input|+1 the lexer never runs out of fuel *)
Theorem lex_root_no_fuel : forall fuel carry s, length s < fuel -> no_fuel_tok (fst (lex_root fuel carry s)).
Proof.
  induction fuel as [|f IH]; intros carry s H; [lia|]. cbn [lex_root].
  pose proof (lex_step_no_fuel carry s) as Hs.
  destruct (lex_step carry s) as [ts tl|ts c' rest] eqn:E; [exact Hs|].
  apply lex_step_progress in E. specialize (IH c' rest ltac:(lia)).
  destruct (lex_root f c' rest) as [ts' tl]. cbn [fst] in *.
  intros t Ht. apply in_app_or in Ht. destruct Ht; [apply Hs|apply IH]; assumption.
Qed.
Corollary lex_total s : no_fuel_tok (fst (lex s)).
Proof. apply lex_root_no_fuel. lia. Qed.

(* at most two tokens per visit of rootState: the token stream is finite, at most 2|input|+2 tokens *)
Lemma lex_step_two carry s :
  match lex_step carry s with Done ts _ => length ts <= 2 | Cont ts _ _ => length ts <= 1 end.
Proof.
  unfold lex_step, errtok.
  repeat match goal with
         | |- context [if ?b then _ else _] => destruct b
         | |- context [match ?r with [] => _ | _ :: _ => _ end] => destruct r
         | |- context [match block_comment ?b ?x with _ => _ end] => destruct (block_comment b x)
         | |- context [match code_end ?x with _ => _ end] => destruct (code_end x) as [[? ?]|]
         | |- context [match directive_word ?x with _ => _ end] => destruct (directive_word x) as [[? ?]|]
         | |- context [match union_body ?x with _ => _ end] => destruct (union_body x) as [[? ?]|]
         | |- context [let '(_, _) := take_while ?f ?x in _] => destruct (take_while f x) as [? ?]
         | |- context [match accept_alpha_word ?w ?x with _ => _ end] => destruct (accept_alpha_word w x)
         | |- context [match string_body ?x with _ => _ end] => destruct (string_body x) as [[? ?]|]
         | |- context [match braces ?d ?x with _ => _ end] => destruct (braces d x) as [[? ?]|]
         end; cbn [length]; lia.
Qed.
Theorem lex_root_length : forall fuel carry s, length s < fuel -> length (fst (lex_root fuel carry s)) <= length s + 2.
Proof.
  induction fuel as [|f IH]; intros carry s H; [lia|]. cbn [lex_root].
  pose proof (lex_step_two carry s) as Hs.
  destruct (lex_step carry s) as [ts tl|ts c' rest] eqn:E; [cbn [fst]; lia|].
  apply lex_step_progress in E. specialize (IH c' rest ltac:(lia)).
  destruct (lex_root f c' rest) as [ts' tl]. cbn [fst] in *. rewrite app_length. lia.
Qed.
