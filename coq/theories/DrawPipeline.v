(* Proofs: the diagram DrawGrammar builds from the automaton and the dense matrix of one generate_tables run shows
   exactly what that matrix, read the way every generated parser reads it (dense_action), does. *)
From Coq Require Import List Arith ZArith Bool Lia.
Import ListNotations.
From YG Require Import LRBase LR0Build LR0More Resolve TableCert LAExec PackCore Pipeline PipelineRun Draw.

Lemma gen_table_no_reduce0 g aut la' sprec rprec q a : gen_table g aut la' sprec rprec q a <> Reduce 0.
Proof.
  unfold gen_table. destruct (resolve (candidates g aut la' sprec rprec q a)) as [[w b]|]; [|discriminate].
  unfold decode. destruct (c_kind w) as [q'|[|r]|]; discriminate.
Qed.

(* a reduction stands in the table only under a symbol of the lookahead set of that rule in that state *)
Lemma gen_table_reduce_la g aut la0 sprec rprec q a r :
  gen_table g aut la0 sprec rprec q a = Reduce r -> r <> 0 /\ TableCert.nmem a (la0 q r) = true.
Proof.
  unfold gen_table. intros H. destruct (resolve (candidates g aut la0 sprec rprec q a)) as [[w fl]|] eqn:E; [|discriminate].
  destruct (resolve_mem _ _ _ E) as [Hin|Hk]; [|rewrite Hk in H; discriminate].
  destruct w as [k p asc]. simpl in H. destruct k as [q0|[|r0]|]; try discriminate. inversion H; subst.
  destruct (cand_reduce _ _ _ _ _ _ _ _ _ _ Hin) as [_ Hl]. split; [discriminate|]. unfold la' in Hl. simpl in Hl. exact Hl.
Qed.

Lemma nmem_In a l : TableCert.nmem a l = true <-> In a l.
Proof.
  induction l as [|y l IH]; simpl; [split; [discriminate | tauto]|].
  rewrite orb_true_iff, IH, Nat.eqb_eq. split; intros [H|H]; auto.
Qed.

Section Diagram.
Variable gi : ginfo.
Let g := gi_rules gi.
Hypothesis no_start_in_rhs : forall r d, nth_error (rhs_of g r) d <> Some 0.
Hypothesis rule0_lhs : lhs_of g 0 = 0.
Hypothesis no_eof_in_rhs : forall r d, nth_error (rhs_of g r) d <> Some eof.
Hypothesis rule0 : exists S, rhs_of g 0 = [S].

Theorem pipeline_diagram t : generate_tables gi = inr t ->
  let n := length (t_aut t) in
  let tab := dense_action n (t_dense t) in
  let nodes := draw_nodes (t_aut t) (t_dense t) in
  let edges := draw_edges (t_aut t) (t_dense t) in
  map gn_state nodes = seq 0 n /\
  (forall q a q', In (q, a, q') edges <-> q < n /\ a < gi_nsyms gi /\ tab q a = Shift q') /\
  (forall q, q < n -> exists nd, nth_error nodes q = Some nd /\ gn_state nd = q /\
      gn_items nd = items (LRBase.st (t_aut t) q) /\
      (forall a r, In (a, r) (gn_look nd) <-> a < gi_nsyms gi /\ tab q a = Reduce r) /\
      (gn_accept nd = true <-> exists a, a < gi_nsyms gi /\ tab q a = Accept)).
Proof.
  unfold generate_tables. fold g. destruct (unproductive gi); [|discriminate].
  destruct (build g) as [aut|] eqn:Eb; [|discriminate].
  intro H. inversion H; subst t. clear H. cbn [t_aut t_dense].
  set (nst := length aut). set (tabl := la_table g aut). set (T := action_fun gi aut tabl).
  pose proof (build_structural g no_start_in_rhs rule0_lhs no_eof_in_rhs aut Eb) as Hstruct.
  destruct (build_goto_lt g rule0_lhs no_eof_in_rhs aut Eb) as [Hpos Hlt].
  assert (Hglen : 0 < length g).
  { destruct rule0 as [S HS]. unfold rhs_of in HS. destruct (nth_error g 0) eqn:E; [|discriminate]. apply nth_error_Some. congruence. }
  destruct (build_more g Hglen (or_intror I) aut Eb) as (Hvalid & _).
  assert (Hitems : forall q r d, In (r, d) (items (LRBase.st aut q)) -> r < length g) by (intros q r d Hin; apply (Hvalid q (r, d) Hin)).
  pose proof (gen_table_cert g aut (la_lookup tabl) (sprec_of gi) (rprec_of gi) Hitems rule0 Hstruct) as Hcert.
  fold T in Hcert.
  assert (Hshift : forall q a q', T q a = Shift q' -> 0 < q' < nst).
  { intros q a q' E. apply (c_shift _ _ _ Hcert) in E. split; [|eapply Hlt; exact E].
    destruct (c_goto _ _ _ Hcert _ _ _ E) as [Hne _]. lia. }
  assert (Hlt' : forall q a q', T q a = Shift q' -> q' < nst) by (intros q a q' E; apply (Hshift q a q' E)).
  assert (Hno0 : forall q a, T q a <> Reduce 0) by (intros q a; apply gen_table_no_reduce0).
  assert (Hag : agree nst (gi_nsyms gi) T (dense_action nst (dense_of nst (gi_nsyms gi) T))).
  { apply dense_agrees. intros q a q' _ _ E. apply (Hshift q a q' E). }
  subst nst. cbv zeta. split; [apply draw_nodes_states|]. split.
  - intros q a q'. rewrite (draw_edges_spec aut (gi_nsyms gi) T Hlt' Hno0 q a q').
    split; intros (Hq & Ha & E); (split; [exact Hq | split; [exact Ha|]]); [rewrite <- (Hag q a Hq Ha) | rewrite (Hag q a Hq Ha)]; exact E.
  - intros q Hq. destruct (draw_nodes_items aut (gi_nsyms gi) T Hlt' Hno0 q Hq) as (nd & E1 & E2 & E3 & E4 & E5).
    exists nd. split; [exact E1|]. split; [exact E2|]. split; [exact E3|]. split.
    + intros a r. rewrite (E4 a r). split; intros [Ha E]; (split; [exact Ha|]); [rewrite <- (Hag q a Hq Ha) | rewrite (Hag q a Hq Ha)]; exact E.
    + rewrite E5. split; intros (a & Ha & E); exists a; (split; [exact Ha|]); [rewrite <- (Hag q a Hq Ha) | rewrite (Hag q a Hq Ha)]; exact E.
Qed.

(* what the listing shows (the automaton with its transitions, the lookahead set of every reduction) covers the tables:
   every shift/goto of the table is a transition of the listed automaton, every reduction of the table is a complete item
   of its state and stands under a symbol of the listed lookahead set, the table accepts only in the state holding
   the completed start item; the converse fails only where conflict resolution dropped an action *)
Theorem pipeline_table_within_listing t : generate_tables gi = inr t ->
  let n := length (t_aut t) in
  let tab := dense_action n (t_dense t) in
  forall q a, q < n -> a < gi_nsyms gi ->
    (forall q', tab q a = Shift q' -> goto (t_aut t) q a = Some q') /\
    (forall r, tab q a = Reduce r -> r <> 0 /\ In (r, length (rhs_of g r)) (items (LRBase.st (t_aut t) q)) /\ In a (la_lookup (t_la t) q r)) /\
    (tab q a = Accept -> In (0, 1) (items (LRBase.st (t_aut t) q)) /\ a = eof).
Proof.
  unfold generate_tables. fold g. destruct (unproductive gi); [|discriminate].
  destruct (build g) as [aut|] eqn:Eb; [|discriminate].
  intro H. inversion H; subst t. clear H. cbn [t_aut t_dense t_la].
  set (tabl := la_table g aut). set (T := action_fun gi aut tabl).
  pose proof (build_structural g no_start_in_rhs rule0_lhs no_eof_in_rhs aut Eb) as Hstruct.
  destruct (build_goto_lt g rule0_lhs no_eof_in_rhs aut Eb) as [Hpos Hlt].
  assert (Hglen : 0 < length g).
  { destruct rule0 as [S HS]. unfold rhs_of in HS. destruct (nth_error g 0) eqn:E; [|discriminate]. apply nth_error_Some. congruence. }
  destruct (build_more g Hglen (or_intror I) aut Eb) as (Hvalid & _).
  assert (Hitems : forall q r d, In (r, d) (items (LRBase.st aut q)) -> r < length g) by (intros q r d Hin; apply (Hvalid q (r, d) Hin)).
  pose proof (gen_table_cert g aut (la_lookup tabl) (sprec_of gi) (rprec_of gi) Hitems rule0 Hstruct) as Hcert.
  fold T in Hcert.
  assert (Hshift : forall q a q', T q a = Shift q' -> 0 < q' < length aut).
  { intros q a q' E. apply (c_shift _ _ _ Hcert) in E. split; [|eapply Hlt; exact E].
    destruct (c_goto _ _ _ Hcert _ _ _ E) as [Hne _]. lia. }
  assert (Hag : agree (length aut) (gi_nsyms gi) T (dense_action (length aut) (dense_of (length aut) (gi_nsyms gi) T))).
  { apply dense_agrees. intros q a q' _ _ E. apply (Hshift q a q' E). }
  cbv zeta. intros q a Hq Ha. rewrite <- (Hag q a Hq Ha). split; [|split].
  - intros q' E. apply (c_shift _ _ _ Hcert _ _ _ E).
  - intros r E. destruct (c_reduce _ _ _ Hcert _ _ _ E) as (H0 & _ & Hin).
    split; [exact H0|]. split; [exact Hin|].
    destruct (gen_table_reduce_la _ _ _ _ _ _ _ _ E) as [_ Hl]. apply nmem_In, Hl.
  - intros E. apply (c_accept _ _ _ Hcert _ _ E).
Qed.
End Diagram.
