(* C06: a token is shifted only if it can continue a sentence.  For the automaton built by LR0Build.build and ANY table
   satisfying the certificate (so for every lookahead function and every precedence assignment): whenever the LR machine,
   in a configuration reachable from the start, shifts the next input token, the input read so far followed by that
   token is a prefix of a sentence of the grammar.  Hence a token that cannot continue any sentence is never shifted:
   the error is reported with that token as lookahead, before anything after it is requested.  (LALR(1) parsers may
   still perform reductions before they report the error; they never consume the bad token.)
   The proof goes through the classical soundness of LR(1) items over access paths (LASubset.lr1): the symbols on the
   stack are a viable prefix. *)
From Coq Require Import List Arith Lia Bool.
Import ListNotations.
From YG Require Import LRBase CompleteDriver LR0Build LR0More LASuperset LASubset C03Assembly.

Section Derive.
Variable g : grammar.

(* derivations between sentential forms: replace a nonterminal by the right-hand side of one of its rules *)
Inductive derives : list nat -> list nat -> Prop :=
| d_refl s : derives s s
| d_step s a r R b : derives s (a ++ lhs R :: b) -> nth_error g r = Some R -> derives s (a ++ rhs R ++ b).

Lemma derives_trans s t u : derives s t -> derives t u -> derives s u.
Proof. intros H1 H2. induction H2 as [|t a r R b H IH HR]; [exact H1 | eapply d_step; eauto]. Qed.

Lemma derives_ctx l r0 s t : derives s t -> derives (l ++ s ++ r0) (l ++ t ++ r0).
Proof.
  induction 1 as [s|s a r R b H IH HR]; [constructor|].
  replace (l ++ (a ++ rhs R ++ b) ++ r0) with ((l ++ a) ++ rhs R ++ (b ++ r0)) by (rewrite <- !app_assoc; reflexivity).
  eapply d_step; [|exact HR].
  replace ((l ++ a) ++ lhs R :: b ++ r0) with (l ++ (a ++ lhs R :: b) ++ r0) by (rewrite <- !app_assoc; reflexivity).
  exact IH.
Qed.

Lemma derives_app s1 t1 s2 t2 : derives s1 t1 -> derives s2 t2 -> derives (s1 ++ s2) (t1 ++ t2).
Proof.
  intros H1 H2. apply derives_trans with (t1 ++ s2).
  - pose proof (derives_ctx [] s2 _ _ H1) as H. exact H.
  - pose proof (derives_ctx t1 [] _ _ H2) as H. rewrite !app_nil_r in H. exact H.
Qed.

(* a parse tree is a derivation of its yield from its root *)
Lemma forest_derives : forall n ts, fsize ts <= n -> all_valid g ts -> derives (map (root g) ts) (flat_map yield ts).
Proof.
  induction n as [|n IH]; intros ts Hn Hv.
  - destruct ts as [|t ts]; [constructor|]. exfalso. cbn [fsize fold_right] in Hn. destruct t; simpl in Hn; lia.
  - destruct ts as [|t ts]; [constructor|].
    cbn [all_valid] in Hv. destruct Hv as [Ht Hts].
    cbn [map flat_map]. change (root g t :: map (root g) ts) with ([root g t] ++ map (root g) ts).
    assert (Hsz : size t + fsize ts <= S n) by exact Hn.
    apply derives_app.
    + destruct t as [a|r ch]; [constructor|].
      apply valid_node in Ht. destruct Ht as (Hr & Hmap & Hch).
      cbn [root yield]. unfold lhs_of, rhs_of in *. destruct (nth_error g r) as [R|] eqn:ER; [|apply nth_error_None in ER; lia].
      apply derives_trans with (rhs R).
      * pose proof (d_step [lhs R] [] r R [] (d_refl _) ER) as H. cbn [app] in H. rewrite app_nil_r in H. exact H.
      * rewrite <- Hmap. apply IH; [|exact Hch]. cbn [size] in Hsz. fold (fsize ch) in Hsz. lia.
    + apply IH; [|exact Hts]. destruct t; simpl in Hsz; lia.
Qed.
End Derive.

Section Viable.
Variables (g : grammar) (aut : automaton) (S0 : nat).
Hypothesis no_start_in_rhs : forall r d, nth_error (rhs_of g r) d <> Some 0.
Hypothesis rule0_lhs : lhs_of g 0 = 0.
Hypothesis no_eof_in_rhs : forall r d, nth_error (rhs_of g r) d <> Some eof.
Hypothesis rule0_rhs : rhs_of g 0 = [S0].
Hypothesis eof_terminal : ~ is_nt g eof.
Hypothesis first_nonempty : forall seq l, ~ is_nt g l -> exists b, first_seq g (seq ++ [l]) b.
Hypothesis Hb : build g = Some aut.

Lemma firstn_S_nth {A} (l : list A) d x : nth_error l d = Some x -> firstn (S d) l = firstn d l ++ [x].
Proof.
  revert d; induction l as [|y l IH]; intros [|d] H; simpl in *; try discriminate.
  - inversion H; reflexivity.
  - f_equal. apply IH, H.
Qed.
Lemma split_nth {A} (l : list A) d x : nth_error l d = Some x -> l = firstn d l ++ x :: skipn (S d) l.
Proof.
  revert d; induction l as [|y l IH]; intros [|d] H; simpl in *; try discriminate.
  - inversion H; reflexivity.
  - f_equal. apply IH, H.
Qed.

(* soundness of LR(1) items: the access path of an item, completed by the rest of its rule, is part of a sentential form *)
Lemma lr1_sound gamma it t : lr1 g gamma it t ->
  exists alpha delta, gamma = alpha ++ firstn (snd it) (rhs_of g (fst it)) /\
                      derives g [0] (alpha ++ lhs_of g (fst it) :: delta).
Proof.
  induction 1 as [|gamma r d X t H IH Hn|gamma r d B r' R' t b H IH HB HR' Hl Hf].
  - exists [], []. cbn [fst snd firstn app]. rewrite rule0_lhs. split; [reflexivity | constructor].
  - destruct IH as (alpha & delta & -> & Hd). exists alpha, delta. cbn [fst snd] in *.
    rewrite (firstn_S_nth _ _ _ Hn), app_assoc. split; [reflexivity | exact Hd].
  - destruct IH as (alpha & delta & -> & Hd). cbn [fst snd] in *.
    exists (alpha ++ firstn d (rhs_of g r)), (skipn (S d) (rhs_of g r) ++ delta).
    cbn [firstn]. rewrite app_nil_r. split; [reflexivity|].
    assert (HR : exists R, nth_error g r = Some R /\ rhs R = rhs_of g r /\ lhs R = lhs_of g r).
    { unfold rhs_of, lhs_of in *. destruct (nth_error g r) as [R|]; [eauto | destruct d; discriminate]. }
    destruct HR as (R & ER & Erhs & Elhs).
    pose proof (d_step g [0] alpha r R delta) as Hs. rewrite Elhs in Hs. specialize (Hs Hd ER). rewrite Erhs in Hs.
    rewrite (split_nth _ _ _ HB) in Hs. rewrite <- !app_assoc in Hs. cbn [app] in Hs.
    replace (lhs_of g r') with B by (unfold lhs_of; rewrite HR'; symmetry; exact Hl).
    rewrite <- app_assoc. exact Hs.
Qed.

Lemma glen : 0 < length g.
Proof. unfold rhs_of in rule0_rhs. destruct g; [discriminate | simpl; lia]. Qed.

(* every item of a state has an LR(1) instance for every access path of the state (LASubset.valid_items for `build`) *)
Lemma items_valid gamma q x : path aut 0 gamma q -> In x (items (st aut q)) -> exists t, lr1 g gamma x t.
Proof.
  intros Hp Hx.
  destruct (valid_items g aut) with (gamma := gamma) (q := q) (x := x) as (t & _ & Ht); auto; [| |eauto].
  - intros y Hy. rewrite (items0 g aut rule0_lhs no_eof_in_rhs Hb) in Hy. apply closure_in. exact Hy.
  - intros q0 X q1 Hg y Hy. rewrite (edge_items g aut rule0_lhs no_eof_in_rhs Hb q0 X q1 Hg) in Hy. apply closure_in. exact Hy.
Qed.

(* the stack symbols followed by a symbol the state can shift are a viable prefix *)
Theorem shift_extends gamma q a q' : path aut 0 gamma q -> goto aut q a = Some q' ->
  exists beta, derives g [0] (gamma ++ a :: beta).
Proof.
  intros Hp Hg.
  destruct (build_more g glen (or_intror I) aut Hb) as (_ & _ & Hjust & _).
  destruct (Hjust q a q' Hg) as ([r d] & Hin & Hn). unfold next_sym in Hn. cbn [fst snd] in Hn.
  destruct (items_valid gamma q (r, d) Hp Hin) as (t & Hl).
  destruct (lr1_sound gamma (r, d) t Hl) as (alpha & delta & -> & Hd). cbn [fst snd] in *.
  assert (HR : exists R, nth_error g r = Some R /\ rhs R = rhs_of g r /\ lhs R = lhs_of g r).
  { unfold rhs_of, lhs_of in *. destruct (nth_error g r) as [R|]; [eauto | destruct d; discriminate]. }
  destruct HR as (R & ER & Erhs & Elhs).
  pose proof (d_step g [0] alpha r R delta) as Hs. rewrite Elhs in Hs. specialize (Hs Hd ER). rewrite Erhs in Hs.
  rewrite (split_nth _ _ _ Hn) in Hs.
  exists (skipn (S d) (rhs_of g r) ++ delta).
  rewrite <- !app_assoc in Hs. cbn [app] in Hs. rewrite <- app_assoc. exact Hs.
Qed.

(* the symbols of a well-formed stack, bottom first, spell an access path of its top state *)
Fixpoint stack_syms (stk : list (nat * nat)) : list nat :=
  match stk with
  | [] => []
  | e :: rest => match rest with [] => [] | _ :: _ => stack_syms rest ++ [snd e] end
  end.
Lemma wf_path stk : wf_stack aut stk ->
  path aut 0 (stack_syms stk) (top_state stk) /\ map snd stk = rev (stack_syms stk) ++ [eof].
Proof.
  induction 1 as [|q X stk Hwf [IHp IHm] Hg].
  - split; reflexivity.
  - destruct stk as [|e stk']; [exfalso; exact (wf_nonempty _ _ Hwf eq_refl)|].
    change (stack_syms ((q, X) :: e :: stk')) with (stack_syms (e :: stk') ++ [X]).
    split.
    + cbn [top_state]. eapply path_app; eauto.
    + change (map snd ((q, X) :: e :: stk')) with (X :: map snd (e :: stk')). rewrite IHm. rewrite rev_app_distr. reflexivity.
Qed.

(* every string of symbols derives a terminal string when every symbol does (C12: no unproductive nonterminal) *)
Definition terminal_string (z : list nat) : Prop := forall x, In x z -> ~ is_nt g x.
Hypothesis all_productive : forall X, exists z, terminal_string z /\ derives g [X] z.
Lemma string_productive beta : exists z, terminal_string z /\ derives g beta z.
Proof.
  induction beta as [|X beta (z & Hz & Hd)]; [exists []; split; [intros x [] | constructor]|].
  destruct (all_productive X) as (z1 & Hz1 & Hd1). exists (z1 ++ z). split.
  - intros x Hx. apply in_app_or in Hx. destruct Hx; auto.
  - change (X :: beta) with ([X] ++ beta). apply derives_app; assumption.
Qed.

(* C06: whenever the machine shifts the next token, what it has read so far plus that token begins a sentence *)
Theorem shifted_token_continues_a_sentence tab w stk inp' reds a q' :
  cert g aut tab -> LRBase.inv g aut w stk (a :: inp') reds -> tab (top_state stk) a = Shift q' ->
  exists pre z, w = pre ++ a :: inp' /\ terminal_string z /\ derives g [0] (pre ++ a :: z).
Proof.
  intros C (Hwf & ts & Hroot & Hval & Hy & _) Ha.
  destruct (wf_path stk Hwf) as [Hp Hm].
  pose proof (c_shift _ _ _ C _ _ _ Ha) as Hg.
  destruct (shift_extends _ _ _ _ Hp Hg) as (beta & Hd).
  destruct (string_productive beta) as (z & Hz & Hbz).
  rewrite Hm in Hroot. apply app_inj_tail in Hroot. destruct Hroot as [Hroot _].
  assert (Hgam : stack_syms stk = map (root g) (rev ts)).
  { rewrite map_rev, Hroot, rev_involutive. reflexivity. }
  exists (flat_map yield (rev ts)), z. split; [symmetry; exact Hy|]. split; [exact Hz|].
  eapply derives_trans; [exact Hd|].
  rewrite Hgam. apply derives_app.
  - apply (forest_derives g (fsize (rev ts)) (rev ts) (le_n _)). apply all_valid_rev. exact Hval.
  - change (a :: beta) with ([a] ++ beta). change (a :: z) with ([a] ++ z). apply derives_app; [constructor | exact Hbz].
Qed.

End Viable.

(* ---------- the same along a run: configurations reached step by step from the initial one ---------- *)
Definition conf := (list (nat * nat) * list nat * list nat)%type.
Definition step (tab : table) (g : grammar) (c : conf) : option conf :=
  let '(stk, inp, reds) := c in
  match tab (top_state stk) (hd eof inp) with
  | Shift q' => Some ((q', hd eof inp) :: stk, tl inp, reds)
  | Reduce r =>
    match nth_error g r with
    | None => None
    | Some R =>
      let stk' := skipn (length (rhs R)) stk in
      match stk' with
      | [] => None
      | _ :: _ => match tab (top_state stk') (lhs R) with
                  | Shift q' => Some ((q', lhs R) :: stk', inp, r :: reds)
                  | _ => None
                  end
      end
    end
  | _ => None
  end.
Fixpoint nsteps (n : nat) (tab : table) (g : grammar) (c : conf) : option conf :=
  match n with
  | 0 => Some c
  | S m => match step tab g c with Some c' => nsteps m tab g c' | None => None end
  end.

(* `step` is one iteration of LRBase.run *)
Lemma run_step f tab g stk inp reds s i r :
  step tab g (stk, inp, reds) = Some (s, i, r) -> run (S f) tab g stk inp reds = run f tab g s i r.
Proof.
  unfold step. cbn [run]. destruct (tab (top_state stk) (hd eof inp)) as [q'|r0| |]; try discriminate.
  - intros H; inversion H; reflexivity.
  - destruct (nth_error g r0) as [R|]; [|discriminate]. cbv zeta.
    destruct (skipn (length (rhs R)) stk) as [|e stk']; [discriminate|].
    destruct (tab (top_state (e :: stk')) (lhs R)); try discriminate. intros H; inversion H; reflexivity.
Qed.

Section Along.
Variables (g : grammar) (aut : automaton) (tab : table).
Hypothesis C : cert g aut tab.

Lemma step_inv w stk inp reds s i r :
  LRBase.inv g aut w stk inp reds -> step tab g (stk, inp, reds) = Some (s, i, r) -> LRBase.inv g aut w s i r.
Proof.
  intros (Hwf & ts & Hroot & Hval & Hy & Hp) Hs. unfold step in Hs.
  destruct (tab (top_state stk) (hd eof inp)) as [q'|r0| |] eqn:Ha; try discriminate.
  - (* shift *)
    inversion Hs; subst s i r. clear Hs.
    pose proof (c_shift _ _ _ C _ _ _ Ha) as Hg.
    destruct inp as [|a inp]; [simpl in Hg; rewrite (c_noeof _ _ _ C) in Hg; discriminate|].
    cbn [hd tl] in *. split; [constructor; auto|]. exists (Leaf a :: ts). simpl. repeat split; auto.
    + f_equal. exact Hroot.
    + rewrite flat_map_app'. simpl. rewrite <- app_assoc. simpl. exact Hy.
    + rewrite flat_map_app'. simpl. rewrite app_nil_r. exact Hp.
  - (* reduce *)
    destruct (c_reduce _ _ _ C _ _ _ Ha) as (Hr0 & Hrlt & Hit).
    destruct (nth_error g r0) as [R|] eqn:HR; [|discriminate].
    assert (HrhsR : rhs_of g r0 = rhs R) by (unfold rhs_of; rewrite HR; reflexivity).
    assert (HlhsR : lhs_of g r0 = lhs R) by (unfold lhs_of; rewrite HR; reflexivity).
    rewrite HrhsR in Hit.
    destruct (suffix g aut tab C _ Hwf _ _ Hit) as (Hlen & Hsym & _).
    cbv zeta in Hs. set (k := length (rhs R)) in *.
    destruct (skipn k stk) as [|e stk'] eqn:Hsk; [discriminate|].
    rewrite <- Hsk in *.
    destruct (tab (top_state (skipn k stk)) (lhs R)) as [q'| | |] eqn:Hgo; try discriminate.
    inversion Hs; subst s i r. clear Hs.
    pose proof (c_shift _ _ _ C _ _ _ Hgo) as Hg.
    split; [constructor; auto; apply wf_skipn; auto|].
    assert (Hkts : k <= length ts).
    { apply (f_equal (@length _)) in Hroot. rewrite app_length, !map_length in Hroot. simpl in Hroot. lia. }
    exists (Node r0 (rev (firstn k ts)) :: skipn k ts).
    assert (Hsplit : ts = firstn k ts ++ skipn k ts) by (symmetry; apply firstn_skipn).
    assert (Hfk : map (root g) (firstn k ts) = rev (rhs R)).
    { rewrite <- firstn_map.
      assert (firstn k (map (root g) ts) = firstn k (map snd stk)).
      { rewrite <- Hroot. rewrite firstn_app. rewrite map_length.
        replace (k - length ts) with 0 by lia. simpl. rewrite app_nil_r. reflexivity. }
      rewrite H. rewrite <- firstn_map in Hsym. rewrite Hsym.
      rewrite HrhsR. unfold k. rewrite firstn_all. reflexivity. }
    split; [|split; [|split]].
    + cbn [map root]. rewrite HlhsR. simpl. f_equal.
      rewrite <- skipn_map. rewrite <- skipn_map.
      rewrite <- Hroot. rewrite skipn_app. rewrite map_length.
      replace (k - length ts) with 0 by lia. simpl. rewrite skipn_map. reflexivity.
    + cbn [all_valid]. split; [|apply all_valid_skipn; exact Hval].
      apply valid_node. split; [exact Hrlt|]. split.
      * rewrite map_rev, Hfk, rev_involutive. symmetry; exact HrhsR.
      * apply all_valid_rev. apply all_valid_firstn. exact Hval.
    + cbn [rev]. rewrite flat_map_app'. cbn [flat_map yield]. rewrite app_nil_r.
      rewrite <- Hy. f_equal. rewrite Hsplit at 3. rewrite rev_app_distr, flat_map_app'. reflexivity.
    + cbn [rev]. rewrite flat_map_app'. cbn [flat_map post]. rewrite app_nil_r.
      rewrite <- Hp.
      rewrite Hsplit at 3. rewrite rev_app_distr, flat_map_app'. rewrite app_assoc. reflexivity.
Qed.

Lemma nsteps_inv n : forall w c stk inp reds,
  LRBase.inv g aut w (fst (fst c)) (snd (fst c)) (snd c) -> nsteps n tab g c = Some (stk, inp, reds) -> LRBase.inv g aut w stk inp reds.
Proof.
  induction n as [|m IH]; intros w [[s0 i0] r0] stk inp reds Hinv H; cbn [nsteps fst snd] in *.
  - inversion H; subst. exact Hinv.
  - destruct (step tab g (s0, i0, r0)) as [[[s1 i1] r1]|] eqn:Es; [|discriminate].
    apply (IH w (s1, i1, r1) stk inp reds); [|exact H]. cbn [fst snd]. eapply step_inv; eauto.
Qed.

Lemma inv_initial w : LRBase.inv g aut w [(0, eof)] w [].
Proof. split; [constructor|]. exists []. simpl. repeat split; reflexivity. Qed.
End Along.

Section Final.
Variables (g : grammar) (aut : automaton) (S0 : nat) (tab : table).
Hypothesis no_start_in_rhs : forall r d, nth_error (rhs_of g r) d <> Some 0.
Hypothesis rule0_lhs : lhs_of g 0 = 0.
Hypothesis no_eof_in_rhs : forall r d, nth_error (rhs_of g r) d <> Some eof.
Hypothesis rule0_rhs : rhs_of g 0 = [S0].
Hypothesis eof_terminal : ~ is_nt g eof.
Hypothesis first_nonempty : forall seq l, ~ is_nt g l -> exists b, first_seq g (seq ++ [l]) b.
Hypothesis Hb : build g = Some aut.
Hypothesis C : cert g aut tab.
Hypothesis all_productive : forall X, exists z, terminal_string g z /\ derives g [X] z.

(* after any number of steps from the initial configuration on input w: if the next action is a shift of the next token
   a, then (what has been read) ++ [a] begins a sentence; so a token that cannot continue a sentence is never shifted *)
Theorem run_never_shifts_a_bad_token n w stk a inp' reds q' :
  nsteps n tab g ([(0, eof)], w, []) = Some (stk, a :: inp', reds) -> tab (top_state stk) a = Shift q' ->
  exists pre z, w = pre ++ a :: inp' /\ terminal_string g z /\ derives g [0] (pre ++ a :: z).
Proof.
  intros Hn Ha.
  pose proof (nsteps_inv g aut tab C n w ([(0, eof)], w, []) stk (a :: inp') reds (inv_initial g aut w) Hn) as Hinv.
  eapply (shifted_token_continues_a_sentence g aut S0); eauto.
Qed.
End Final.

(* the productivity predicate of C12 (Productive.productive: what the sweep of CalculateCanTerminate computes) gives
   the derivations used above *)
From YG Require Import Productive.
Lemma productive_derives g is_term :
  (forall a, is_term a = true -> ~ is_nt g a) ->
  forall X, productive g is_term X -> exists z, terminal_string g z /\ derives g [X] z.
Proof.
  intros Ht. apply productive_ind'.
  - intros a Ha. exists [a]. split; [intros x [<-|[]]; apply Ht, Ha | constructor].
  - intros r R HR _ Hall.
    assert (Hs : exists z, terminal_string g z /\ derives g (rhs R) z).
    { induction Hall as [|Y l (z1 & Hz1 & Hd1) _ (z & Hz & Hd)]; [exists []; split; [intros x [] | constructor]|].
      exists (z1 ++ z). split; [intros x Hx; apply in_app_or in Hx; destruct Hx; auto|].
      change (Y :: l) with ([Y] ++ l). apply derives_app; assumption. }
    destruct Hs as (z & Hz & Hd). exists z. split; [exact Hz|].
    eapply derives_trans; [|exact Hd].
    pose proof (d_step g [lhs R] [] r R [] (d_refl g _) HR) as H. cbn [app] in H. rewrite app_nil_r in H. exact H.
Qed.
