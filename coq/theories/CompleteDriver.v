(* Originally a design-phase spike: completeness of the abstract LR driver from a
   Jourdan-Pottier-Leroy style certificate, by induction on parse trees. *)
From Coq Require Import List Arith Lia Bool.
Import ListNotations.
From YG Require Import LRBase.

Definition is_nt (g : grammar) (X : nat) : Prop := exists r R, nth_error g r = Some R /\ lhs R = X.

(* first_seq g seq b : b can begin a string derived from seq (seq ends with a terminal) *)
Inductive first_seq (g : grammar) : list nat -> nat -> Prop :=
| fs_here a s : ~ is_nt g a -> first_seq g (a :: s) a
| fs_expand B s r R b : nth_error g r = Some R -> lhs R = B -> first_seq g (rhs R ++ s) b -> first_seq g (B :: s) b.

(* trees whose leaves are terminals different from eof *)
Fixpoint tvalid (g : grammar) (t : tree) : Prop :=
  match t with
  | Leaf a => ~ is_nt g a /\ a <> eof
  | Node r ch => r <> 0 /\ r < length g /\ map (root g) ch = rhs_of g r /\
                 (fix all (l : list tree) : Prop := match l with [] => True | x :: l' => tvalid g x /\ all l' end) ch
  end.
Fixpoint all_tvalid (g : grammar) (l : list tree) : Prop := match l with [] => True | x :: l' => tvalid g x /\ all_tvalid g l' end.
Lemma tvalid_node g r ch : tvalid g (Node r ch) <-> r <> 0 /\ r < length g /\ map (root g) ch = rhs_of g r /\ all_tvalid g ch.
Proof. simpl. split; intros (A & B & C & D); repeat split; auto; clear A B C; induction ch; simpl in *; tauto. Qed.

Fixpoint size (t : tree) : nat := match t with Leaf _ => 1 | Node _ ch => S (fold_right (fun x n => size x + n) 0 ch) end.
Definition fsize (l : list tree) : nat := fold_right (fun x n => size x + n) 0 l.

Lemma cons_skipn {A} (x : A) tl i L : x :: tl = skipn i L -> nth_error L i = Some x /\ tl = skipn (S i) L.
Proof.
  revert i; induction L as [|y L IH]; intros i H.
  - destruct i; discriminate.
  - destruct i as [|i]; simpl in *.
    + inversion H; auto.
    + apply IH in H. destruct H as [H1 H2]. split; auto.
Qed.

Section Complete.
Variables (g : grammar) (aut : automaton) (tab : table).
Variable ann : nat -> item -> list nat.

Record ccert : Prop := {
  k_shift : forall q r d a, In (r, d) (items (st aut q)) -> nth_error (rhs_of g r) d = Some a -> ~ is_nt g a ->
            exists q', goto aut q a = Some q' /\ tab q a = Shift q';
  k_goto : forall q r d B, In (r, d) (items (st aut q)) -> nth_error (rhs_of g r) d = Some B -> is_nt g B ->
            exists q', goto aut q B = Some q' /\ tab q B = Shift q';
  k_prop : forall q r d X q', In (r, d) (items (st aut q)) -> nth_error (rhs_of g r) d = Some X -> goto aut q X = Some q' ->
            In (r, S d) (items (st aut q')) /\ incl (ann q (r, d)) (ann q' (r, S d));
  k_clos : forall q r d B r' R', In (r, d) (items (st aut q)) -> nth_error (rhs_of g r) d = Some B ->
            nth_error g r' = Some R' -> lhs R' = B ->
            In (r', 0) (items (st aut q)) /\
            forall l b, In l (ann q (r, d)) -> first_seq g (skipn (S d) (rhs_of g r) ++ [l]) b -> In b (ann q (r', 0));
  k_reduce : forall q r l, In (r, length (rhs_of g r)) (items (st aut q)) -> r <> 0 -> r < length g -> In l (ann q (r, length (rhs_of g r))) ->
            tab q l = Reduce r;
  k_start : In (0, 0) (items (st aut 0)) /\ In eof (ann 0 (0, 0));
  k_accept : forall q, In (0, 1) (items (st aut q)) -> tab q eof = Accept;
  k_eof_t : ~ is_nt g eof;
  k_rule0 : exists S, rhs_of g 0 = [S]
}.
Hypothesis K : ccert.

(* the first token of (yield of a forest ++ [c]) is in first_seq (roots ++ [c]) *)
Lemma first_forest n : forall fs c, fsize fs <= n -> all_tvalid g fs -> ~ is_nt g c ->
  first_seq g (map (root g) fs ++ [c]) (hd eof (flat_map yield fs ++ [c])).
Proof.
  induction n as [|n IH]; intros fs c Hn Hv Hc.
  - destruct fs as [|t fs]; [simpl; constructor; auto|]. simpl in Hn. destruct t; simpl in Hn; lia.
  - destruct fs as [|t fs]; [simpl; constructor; auto|].
    destruct t as [a | r ch].
    + simpl. destruct Hv as [[Ha _] _]. constructor; auto.
    + destruct Hv as [Hv Hvs]. apply tvalid_node in Hv. destruct Hv as (Hr0 & Hrlt & Hroots & Hch).
      destruct (nth_error g r) as [R|] eqn:HR; [|apply nth_error_None in HR; lia].
      cbn [map root flat_map yield].
      apply fs_expand with (r := r) (R := R); auto.
      { unfold lhs_of. rewrite HR. reflexivity. }
      specialize (IH (ch ++ fs) c).
      rewrite map_app, flat_map_app in IH. rewrite <- !app_assoc in IH.
      unfold rhs_of in Hroots. rewrite HR in Hroots. rewrite <- Hroots.
      rewrite <- app_assoc.
      apply IH; auto.
      * cbn [fsize fold_right size] in Hn. fold (fsize ch) in Hn. fold (fsize fs) in Hn.
        unfold fsize. rewrite fold_right_app. fold (fsize fs).
        clear - Hn. induction ch as [|x ch IHc]; simpl in *; [lia|].
        fold (fsize ch) in *.
        assert (fold_right (fun x n => size x + n) (fsize fs) ch <= fsize ch + fsize fs).
        { clear. induction ch; simpl; [lia|]. fold (fsize ch). lia. }
        lia.
      * clear - Hch Hvs. induction ch; simpl in *; tauto.
Qed.


Definition steps (n : nat) stk inp reds stk' inp' reds' : Prop :=
  forall fuel, run (n + fuel) tab g stk inp reds = run fuel tab g stk' inp' reds'.

Lemma steps_trans n1 n2 a1 a2 a3 b1 b2 b3 c1 c2 c3 :
  steps n1 a1 a2 a3 b1 b2 b3 -> steps n2 b1 b2 b3 c1 c2 c3 -> steps (n1 + n2) a1 a2 a3 c1 c2 c3.
Proof. intros H1 H2 fuel. rewrite <- Nat.add_assoc, H1, H2. reflexivity. Qed.

Lemma hd_app_c (ys rest : list nat) : hd eof (ys ++ rest) = hd eof (ys ++ [hd eof rest]).
Proof. destruct ys; simpl; auto. Qed.

Lemma lhs_is_nt r : r < length g -> is_nt g (lhs_of g r).
Proof.
  intros H. destruct (nth_error g r) as [R|] eqn:HR; [|apply nth_error_None in HR; lia].
  exists r, R. split; auto. unfold lhs_of. rewrite HR. reflexivity.
Qed.

Lemma first_seq_term s b : first_seq g s b -> ~ is_nt g b.
Proof. induction 1; auto. Qed.

Lemma sim N : forall t, size t <= N -> tvalid g t ->
  forall stk rest reds r d l, wf_stack aut stk ->
    In (r, d) (items (st aut (top_state stk))) -> nth_error (rhs_of g r) d = Some (root g t) ->
    In l (ann (top_state stk) (r, d)) ->
    first_seq g (skipn (S d) (rhs_of g r) ++ [l]) (hd eof rest) ->
    exists n q', goto aut (top_state stk) (root g t) = Some q' /\
      steps n stk (yield t ++ rest) reds ((q', root g t) :: stk) rest (rev (post t) ++ reds).
Proof.
  induction N as [|N IHN]; intros t Hsz Hv stk rest reds r d l Hwf Hit Hnth Hl Hfs.
  { destruct t; simpl in Hsz; lia. }
  destruct t as [a | r' ch].
  - (* leaf *)
    destruct Hv as [Hterm Hneof]. cbn [root] in *.
    destruct (k_shift K _ _ _ _ Hit Hnth Hterm) as (q' & Hg & Htab).
    exists 1, q'. split; auto. intros fuel. cbn [yield app post rev]. cbn [Nat.add run hd tl].
    rewrite Htab. reflexivity.
  - (* node *)
    apply tvalid_node in Hv. destruct Hv as (Hr0 & Hrlt & Hroots & Hch).
    cbn [root] in *. set (B := lhs_of g r') in *.
    assert (HB : is_nt g B) by (apply lhs_is_nt; auto).
    destruct (nth_error g r') as [R'|] eqn:HR'; [|apply nth_error_None in HR'; lia].
    assert (HlhsR : lhs R' = B) by (unfold B, lhs_of; rewrite HR'; reflexivity).
    assert (HrhsR : rhs_of g r' = rhs R') by (unfold rhs_of; rewrite HR'; reflexivity).
    destruct (k_clos K _ _ _ _ _ _ Hit Hnth HR' HlhsR) as (Hit0 & Hann0).
    set (c := hd eof rest) in *.
    assert (Hc : In c (ann (top_state stk) (r', 0))) by (eapply Hann0; eauto).
    assert (Hcterm : ~ is_nt g c) by (eapply first_seq_term; eauto).
    (* children *)
    assert (Kids : forall todo i stk_i reds_i, wf_stack aut stk_i ->
              In (r', i) (items (st aut (top_state stk_i))) ->
              map (root g) todo = skipn i (rhs_of g r') -> all_tvalid g todo -> fsize todo <= N ->
              In c (ann (top_state stk_i) (r', i)) ->
              exists n stk_k, steps n stk_i (flat_map yield todo ++ rest) reds_i stk_k rest (rev (flat_map post todo) ++ reds_i) /\
                wf_stack aut stk_k /\ In (r', i + length todo) (items (st aut (top_state stk_k))) /\
                In c (ann (top_state stk_k) (r', i + length todo)) /\
                skipn (length todo) stk_k = stk_i).
    { induction todo as [|t todo IHt]; intros i stk_i reds_i Hwfi Hiti Hrt Hvt Hszt Hci.
      - exists 0, stk_i. simpl. rewrite Nat.add_0_r. split; [intros fuel; reflexivity|]. repeat split; auto.
      - destruct Hvt as [Hvt Hvts]. cbn [fsize fold_right] in Hszt. fold (fsize todo) in Hszt.
        cbn [map] in Hrt.
        assert (Hnth_i : nth_error (rhs_of g r') i = Some (root g t) /\ map (root g) todo = skipn (S i) (rhs_of g r')).
        { apply cons_skipn; exact Hrt. }
        destruct Hnth_i as [Hnth_i Hrt'].
        assert (Hfs_i : first_seq g (skipn (S i) (rhs_of g r') ++ [c]) (hd eof (flat_map yield todo ++ rest))).
        { rewrite hd_app_c. fold c. rewrite <- Hrt'. apply first_forest with (n := fsize todo); auto. }
        destruct (IHN t ltac:(lia) Hvt stk_i (flat_map yield todo ++ rest) reds_i r' i c Hwfi Hiti Hnth_i Hci Hfs_i)
          as (n1 & q1 & Hg1 & Hst1).
        destruct (k_prop K _ _ _ _ _ Hiti Hnth_i Hg1) as (Hit1 & Hincl).
        destruct (IHt (S i) ((q1, root g t) :: stk_i) (rev (post t) ++ reds_i)) as (n2 & stk_k & Hst2 & Hwfk & Hitk & Hck & Hskip); auto.
        { constructor; auto. } { lia. }
        exists (n1 + n2), stk_k. split; [|split; [|split; [|split]]]; auto.
        + cbn [flat_map]. rewrite <- app_assoc. eapply steps_trans; [exact Hst1|].
          rewrite rev_app_distr, <- app_assoc. exact Hst2.
        + cbn [length]. rewrite Nat.add_succ_r. exact Hitk.
        + cbn [length]. rewrite Nat.add_succ_r. exact Hck.
        + cbn [length]. 
          assert (length todo < length stk_k).
          { apply (f_equal (@length _)) in Hskip. rewrite skipn_length in Hskip. simpl in Hskip. lia. }
          clear - Hskip H. revert stk_k Hskip H. generalize (length todo) as m.
          induction m; intros [|e s] Hs Hl; simpl in *; try lia.
          * inversion Hs; reflexivity.
          * apply IHm; auto. lia. }
    destruct (Kids ch 0 stk reds Hwf Hit0) as (n & stk_k & Hst & Hwfk & Hitk & Hck & Hskip); auto.
    { cbn [size] in Hsz. fold (fsize ch) in Hsz. lia. }
    simpl in Hitk, Hck.
    assert (Hlen : length ch = length (rhs_of g r')).
    { rewrite <- Hroots, map_length. reflexivity. }
    rewrite Hlen in Hitk, Hck.
    pose proof (k_reduce K _ _ _ Hitk Hr0 Hrlt Hck) as Hred.
    destruct (k_goto K _ _ _ _ Hit Hnth HB) as (q' & Hg & Hgo).
    exists (n + 1), q'. split; auto.
    eapply steps_trans; [exact Hst|].
    intros fuel. cbn [Nat.add run]. fold c. rewrite Hred, HR'.
    rewrite <- HrhsR, <- Hlen, Hskip.
    destruct stk as [|e stk0] eqn:Estk; [inversion Hwf|]. rewrite <- Estk in *.
    rewrite HlhsR, Hgo.
    cbn [post]. rewrite rev_app_distr. reflexivity.
Qed.


Theorem complete t : tvalid g t -> Some (root g t) = hd_error (rhs_of g 0) ->
  exists fuel, run fuel tab g [(0, eof)] (yield t) [] = Acc (post t).
Proof.
  intros Hv Hroot. destruct (k_rule0 K) as [S HS]. rewrite HS in Hroot. simpl in Hroot. inversion Hroot as [HrS].
  destruct (k_start K) as [Hit0 Hann0].
  destruct (sim (size t) t (le_n _) Hv [(0, eof)] [] [] 0 0 eof) as (n & q' & Hg & Hst); auto.
  - constructor.
  - rewrite HS. simpl. congruence.
  - rewrite HS. simpl. constructor. apply (k_eof_t K).
  - exists (n + 1). rewrite app_nil_r in Hst. rewrite Hst. cbn [run top_state hd].
    assert (Hnth : nth_error (rhs_of g 0) 0 = Some (root g t)) by (rewrite HS; simpl; congruence).
    destruct (k_prop K _ _ _ _ _ Hit0 Hnth Hg) as [Hit1 _].
    rewrite (k_accept K _ Hit1). rewrite app_nil_r, rev_involutive. reflexivity.
Qed.

End Complete.

Print Assumptions complete.
