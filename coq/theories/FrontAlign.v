(* The grammar object and the rule list of the grammar file stay aligned: production i of the grammar object (i >= 1) is
   built from rule i-1 of the visitor's list - same left-hand side and right-hand-side symbols, looked up by name.  The
   generators take the action code, the rule comment and the trace text of production i from that list entry
   (RootVistor.GetRules(i-1)), so this is what makes "the exact rule text" (C17) and "the action of the rule" (C07) hold. *)
From Coq Require Import List Arith ZArith Bool.
Import ListNotations.
From YG Require Import LRBase Pipeline Front.

Lemma map_opt_nth {A B} (f : A -> option B) : forall l ys i x,
  map_opt f l = Some ys -> nth_error l i = Some x -> exists y, nth_error ys i = Some y /\ f x = Some y.
Proof.
  induction l as [|a l IH]; intros ys i x H Hn; [destruct i; discriminate|].
  cbn [map_opt] in H. destruct (f a) as [y|] eqn:Ea; [|discriminate]. destruct (map_opt f l) as [ys'|] eqn:El; [|discriminate].
  inversion H; subst ys. destruct i as [|i]; cbn [nth_error] in *.
  - inversion Hn; subst. exists y. auto.
  - apply (IH ys' i x eq_refl Hn).
Qed.
Lemma map_opt_length {A B} (f : A -> option B) : forall l ys, map_opt f l = Some ys -> length ys = length l.
Proof.
  induction l as [|a l IH]; intros ys H; cbn [map_opt] in H; [inversion H; reflexivity|].
  destruct (f a); [|discriminate]. destruct (map_opt f l) eqn:E; [|discriminate]. inversion H. cbn [length]. f_equal. apply IH. reflexivity.
Qed.

Theorem rules_aligned v b : build_grammar v = inr b ->
  length (gi_rules (b_gi b)) = S (length (vs_rules v)) /\
  forall i r, nth_error (vs_rules v) i = Some r ->
    exists R, nth_error (gi_rules (b_gi b)) (S i) = Some R /\
              sym_index (b_syms b) (v_lhs r) = Some (lhs R) /\
              map_opt (sym_index (b_syms b)) (v_rhs r) = Some (rhs R) /\
              nth_error (b_rule_prec b) (S i) = Some (match v_prec r with Some n => sym_index (b_syms b) n | None => None end).
Proof.
  unfold build_grammar.
  destruct (sym_index (skipn 2 (symbols_of v)) (vs_start v)) as [s0|]; [|discriminate].
  destruct (map_opt (build_rule (symbols_of v)) (vs_rules v)) as [rs|] eqn:Er; [|discriminate].
  destruct (filter _ (seq 0 (length (symbols_of v)))); [|discriminate].
  match goal with |- context [unproductive ?gi] => destruct (unproductive gi) end; [|discriminate].
  intros H. inversion H; subst b. clear H. cbn [b_gi b_syms b_rule_prec gi_rules].
  split.
  - cbn [length]. rewrite map_length. f_equal. apply (map_opt_length _ _ _ Er).
  - intros i r Hn. destruct (map_opt_nth _ _ _ i r Er Hn) as ([R p] & Hy & Hb).
    unfold build_rule in Hb.
    destruct (sym_index (symbols_of v) (v_lhs r)) as [l|] eqn:El; [|discriminate].
    destruct (map_opt (sym_index (symbols_of v)) (v_rhs r)) as [rr|] eqn:Err; [|discriminate].
    inversion Hb; subst R p. clear Hb.
    exists (Build_rule l rr). cbn [nth_error lhs rhs]. repeat split.
    + rewrite nth_error_map, Hy. reflexivity.
    + rewrite nth_error_map, Hy. reflexivity.
Qed.
