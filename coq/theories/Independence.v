(* Proofs for C15: parses on one parser are independent of the parses before them (histories of any length, accepted
   and rejected inputs mixed), and parsers on distinct contexts may be interleaved step by step in any order: each
   behaves as if it ran alone.  The interleaving theorem is about the small-step form of the driver (one iteration of the
   Parser loop per step), shown equal to DriverSim.crun.  The same system with ONE shared stack (what the default mode
   would be without PushContex/PopContex) is refuted by a two-step schedule, so the statement separates the designs. *)
From Coq Require Import List Arith ZArith Lia Bool.
Import ListNotations.
From YG Require Import LRBase DriverSim Drivers.

Section Ind.
Variables (tab : table) (g : grammar) (act : semact).

(* ---- cell 0 of the stack array is never overwritten by a run ---- *)
Lemma hd_upd l i e : 1 <= i -> hd_error (upd l i e) = hd_error l.
Proof. destruct l as [|x l]; destruct i as [|i]; simpl; intros H; try lia; reflexivity. Qed.

Lemma hd_push s e x : 1 <= sp s -> hd_error (stk s) = Some x -> hd_error (stk (push s e)) = Some x.
Proof.
  intros Hsp Hh. unfold push. destruct (Nat.leb (length (stk s)) (sp s)); cbn [stk].
  - destruct (stk s); [discriminate | exact Hh].
  - rewrite hd_upd by exact Hsp. exact Hh.
Qed.

Lemma cfinal_head fuel : forall s inp x,
  hd_error (stk s) = Some x -> hd_error (stk (cfinal tab g act fuel s inp)) = Some x.
Proof.
  induction fuel as [|f IH]; intros s inp x Hh; [exact Hh|].
  cbn [cfinal].
  destruct (Nat.eqb_spec (sp s) 0) as [|Hsp]; [exact Hh|].
  destruct (Nat.ltb (length (stk s)) (sp s)); [exact Hh|].
  destruct (nth_error (stk s) (sp s - 1)) as [top|]; [|exact Hh].
  destruct (tab (e_st top) (la inp)) as [q'|r| |]; try exact Hh.
  - apply IH, hd_push; [lia | exact Hh].
  - destruct (nth_error g r) as [R|]; [|exact Hh].
    destruct (Nat.ltb_spec (sp s - 1) (length (rhs R))) as [|Hk]; [exact Hh|].
    cbn [stk sp].
    destruct (nth_error (stk s) (sp s - length (rhs R) - 1)) as [below|]; [|exact Hh].
    destruct (tab (e_st below) (lhs R)) as [q'| | |]; try exact Hh.
    apply IH, hd_push; cbn [stk sp]; [lia | exact Hh].
Qed.

(* ---- histories on one parser ---- *)
Definition good (s : pst) : Prop := hd_error (stk s) = Some init_entry \/ stk s = [].

Lemma init_b_head obj s : good s -> hd_error (stk (init_b obj s)) = Some init_entry.
Proof.
  unfold init_b, init_object, init_global; destruct obj; cbn [stk]; [|reflexivity].
  intros [H| ->]; [|reflexivity]. destruct (stk s); [discriminate | exact H].
Qed.

Lemma good_after obj fuel s inp : good s -> good (state_after_tab tab obj g act fuel s inp).
Proof. intros H; left; unfold state_after_tab; apply cfinal_head, init_b_head, H. Qed.

Lemma parse_from_fresh obj fuel s inp : good s ->
  parse_from_tab tab obj g act fuel s inp = arun tab g act fuel [init_entry] inp 0 [].
Proof.
  intros H; unfold parse_from_tab, init_b; destruct obj; [apply reinit_object, H | apply reinit_global].
Qed.

Theorem history_independent obj fuel : forall inps s, good s ->
  history_tab tab obj g act fuel s inps = map (fun inp => arun tab g act fuel [init_entry] inp 0 []) inps.
Proof.
  induction inps as [|inp rest IH]; intros s H; [reflexivity|].
  cbn [history_tab map]. rewrite (parse_from_fresh obj fuel s inp H). f_equal. apply IH, good_after, H.
Qed.

(* ---- the driver in small steps ---- *)
Inductive status := Running | Finished (r : result).
(* what belongs to one Parser call besides the stack: rest of the input, position, reductions so far *)
Record local := { l_inp : list tok; l_pos : nat; l_reds : list nat; l_status : status }.

Definition step (s : pst) (l : local) : pst * local :=
  match l_status l with
  | Finished _ => (s, l)
  | Running =>
    let fin r := (s, {| l_inp := l_inp l; l_pos := l_pos l; l_reds := l_reds l; l_status := Finished r |}) in
    if Nat.eqb (sp s) 0 then fin RNil else if Nat.ltb (length (stk s)) (sp s) then fin RNil else
    match nth_error (stk s) (sp s - 1) with
    | None => fin RCrash
    | Some top =>
      match tab (e_st top) (la (l_inp l)) with
      | Error => fin (RRej (l_pos l) (rev (l_reds l)))
      | Accept => fin (RAcc (e_val top) (rev (l_reds l)))
      | Shift q' => (push s {| e_st := q'; e_sym := la (l_inp l); e_val := laval (l_inp l) |},
                     {| l_inp := tl (l_inp l); l_pos := S (l_pos l); l_reds := l_reds l; l_status := Running |})
      | Reduce r =>
        match nth_error g r with
        | None => fin RCrash
        | Some R =>
          let k := length (rhs R) in
          if Nat.ltb (sp s - 1) k then fin RCrash else
          let dollar := firstn (S k) (skipn (sp s - 1 - k) (stk s)) in
          let v := act r (map e_val (tl dollar)) in
          let s1 := {| stk := stk s; sp := sp s - k |} in
          match nth_error (stk s1) (sp s1 - 1) with
          | None => fin RCrash
          | Some below =>
            match tab (e_st below) (lhs R) with
            | Shift q' => (push s1 {| e_st := q'; e_sym := lhs R; e_val := v |},
                           {| l_inp := l_inp l; l_pos := l_pos l; l_reds := r :: l_reds l; l_status := Running |})
            | _ => fin RCrash
            end
          end
        end
      end
    end
  end.

Definition conf := (pst * local)%type.
Definition step1 (c : conf) : conf := step (fst c) (snd c).
Fixpoint iter (n : nat) (c : conf) : conf := match n with 0 => c | S m => iter m (step1 c) end.
Definition outcome (c : conf) : result := match l_status (snd c) with Finished r => r | Running => RFuel end.
Definition start (s : pst) (inp : list tok) : conf := (s, {| l_inp := inp; l_pos := 0; l_reds := []; l_status := Running |}).

Lemma iter_finished n : forall s l r, l_status l = Finished r -> iter n (s, l) = (s, l).
Proof.
  induction n as [|m IH]; intros s l r H; [reflexivity|].
  cbn [iter]. unfold step1, step; cbn [fst snd]. rewrite H. apply (IH s l r H).
Qed.

(* n steps of the small-step driver = the big-step driver with fuel n *)
Theorem steps_are_crun : forall n s inp pos reds,
  outcome (iter n (s, {| l_inp := inp; l_pos := pos; l_reds := reds; l_status := Running |})) = crun tab g act n s inp pos reds.
Proof.
  induction n as [|m IH]; intros s inp pos reds; [reflexivity|].
  cbn [iter crun]. unfold step1, step; cbn [fst snd l_status l_inp l_pos l_reds].
  assert (Hfin : forall r, outcome (iter m (s, {| l_inp := inp; l_pos := pos; l_reds := reds; l_status := Finished r |})) = r).
  { intros r. rewrite (iter_finished m _ _ r); reflexivity. }
  destruct (Nat.eqb (sp s) 0); [apply Hfin|].
  destruct (Nat.ltb (length (stk s)) (sp s)); [apply Hfin|].
  destruct (nth_error (stk s) (sp s - 1)) as [top|]; [|apply Hfin].
  destruct (tab (e_st top) (la inp)) as [q'|r| |]; try apply Hfin.
  - apply IH.
  - destruct (nth_error g r) as [R|]; [|apply Hfin].
    destruct (Nat.ltb (sp s - 1) (length (rhs R))); [apply Hfin|].
    destruct (nth_error (stk {| stk := stk s; sp := sp s - length (rhs R) |}) (sp {| stk := stk s; sp := sp s - length (rhs R) |} - 1)) as [below|]; [|apply Hfin].
    destruct (tab (e_st below) (lhs R)) as [q'| | |]; try apply Hfin.
    apply IH.
Qed.

(* ---- object mode: every context owns its stack; a scheduler picks which context makes the next step ---- *)
Definition heap := nat -> conf.                      (* context id -> that context's stack and running parse *)
Definition put (H : heap) (i : nat) (c : conf) : heap := fun j => if Nat.eqb j i then c else H j.
Definition sys_step (H : heap) (i : nat) : heap := put H i (step1 (H i)).
Definition sys_run (sched : list nat) (H : heap) : heap := fold_left sys_step sched H.

Theorem interleaving_independent : forall sched H i,
  sys_run sched H i = iter (count_occ Nat.eq_dec sched i) (H i).
Proof.
  induction sched as [|j sched IH]; intros H i; [reflexivity|].
  unfold sys_run in *; cbn [fold_left count_occ]. rewrite IH.
  unfold sys_step, put. destruct (Nat.eq_dec j i) as [->|Hne].
  - rewrite Nat.eqb_refl. reflexivity.
  - destruct (Nat.eqb_spec i j); [congruence | reflexivity].
Qed.

(* contexts that were re-initialised (ParserInit on a context whose cell 0 is intact, or a fresh context) and then run
   under any schedule: context i reports what the abstract machine reports for its own input, whatever the others do *)
Theorem contexts_independent (inps : nat -> list tok) (olds : nat -> pst) sched i :
  (forall j, good (olds j)) ->
  let H0 := fun j => start (init_object (olds j)) (inps j) in
  outcome (sys_run sched H0 i) = arun tab g act (count_occ Nat.eq_dec sched i) [init_entry] (inps i) 0 [].
Proof.
  intros Hg H0. rewrite interleaving_independent. unfold H0, start.
  rewrite steps_are_crun. apply reinit_object, Hg.
Qed.

(* ---- one shared stack (default mode without PushContex): the scheduler picks which parse makes the next step ---- *)
Definition shared := (pst * (nat -> local))%type.
Definition shared_step (S : shared) (i : nat) : shared :=
  let '(s', l') := step (fst S) (snd S i) in (s', fun j => if Nat.eqb j i then l' else snd S j).
Definition shared_run (sched : list nat) (S : shared) : shared := fold_left shared_step sched S.

End Ind.

(* the grammar S -> a with its table; two parses of "a" on one shared stack, scheduled A, B, B, ...: B is rejected,
   although "a" is a sentence and B alone accepts it *)
Definition toy_g : grammar := [{| lhs := 3; rhs := [2] |}].
Definition toy_tab : table := fun q a =>
  match q, a with
  | 0, 2 => Shift 1 | 0, 3 => Shift 2 | 1, 1 => Reduce 0 | 2, 1 => Accept | _, _ => Error
  end.
Definition toy_act : semact := fun _ vs => match vs with v :: _ => v | [] => 0%Z end.
Definition toy_start : shared :=
  (init_global {| stk := []; sp := 0 |},
   fun _ => {| l_inp := [(2, 7%Z)]; l_pos := 0; l_reds := []; l_status := Running |}).

Example alone_accepts :
  l_status (snd (shared_run toy_tab toy_g toy_act [1; 1; 1; 1] toy_start) 1) = Finished (RAcc 7%Z [0]).
Proof. vm_compute. reflexivity. Qed.

Example shared_stack_interferes_refuted :
  l_status (snd (shared_run toy_tab toy_g toy_act [0; 1; 1; 1; 1] toy_start) 1) = Finished (RRej 0 []).
Proof. vm_compute. reflexivity. Qed.

(* the same two parses on two contexts: B accepts under that schedule too *)
Example contexts_do_not_interfere :
  outcome (sys_run toy_tab toy_g toy_act [0; 1; 1; 1; 1]
             (fun j => start (init_object {| stk := []; sp := 0 |}) [(2, 7%Z)]) 1) = RAcc 7%Z [0].
Proof. vm_compute. reflexivity. Qed.
