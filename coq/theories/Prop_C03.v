(* C03 - lookaheads are exactly LALR(1); warnings iff unresolved conflict *)
From Coq Require Import List Arith ZArith Bool Permutation.
Import ListNotations.
From YG Require Import LRBase CompleteDriver LR0Build LR0Complete LASuperset LASubset LAExec LR0More C03Assembly C02Assembly TableCert Resolve PackCore DriverSim Values Oracle Productive SortOrder LexRoundtrip.

(* the executable lookahead list of every reduction in every state is exactly the set of LR(1) lookaheads over all access paths of that state (= union over the canonical LR(1) states with that core) *)
Theorem C03_lookahead :
  forall (g : grammar) (aut : automaton) (S0 : nat),
         (forall r d : nat, nth_error (rhs_of g r) d <> Some 0%nat) ->
         lhs_of g 0 = 0%nat ->
         (forall r d : nat, nth_error (rhs_of g r) d <> Some eof) ->
         rhs_of g 0 = [S0] ->
         ~ is_nt g eof ->
         (forall (seq : list nat) (l : nat), ~ is_nt g l -> exists b : nat, first_seq g (seq ++ [l]) b) ->
         build g = Some aut ->
         forall nullable_b : nat -> bool,
         (forall X : nat, nullable_b X = true <-> nullable g X) ->
         forall is_nt_b : nat -> bool,
         (forall X : nat, is_nt_b X = true <-> is_nt g X) ->
         forall q r t : nat,
         r <> 0%nat ->
         In (r, length (rhs_of g r)) (items (LRBase.st aut q)) ->
         In t (LAl g aut S0 nullable_b is_nt_b q r) <-> LALR_LA g aut q (r, length (rhs_of g r)) t.
Proof. exact C03Assembly.C03_model. Qed.
Print Assumptions C03_lookahead.

(* a warning is printed for a cell exactly when some pair met by the pairwise resolution lacks a precedence *)
Theorem C03_warning :
  forall (a : cand) (rest : list cand), snd (resolve_from a rest) = true <-> lacks_prec a rest.
Proof. exact Resolve.warning_iff. Qed.
Print Assumptions C03_warning.

From YG Require Import LRBase CompleteDriver LASuperset LASubset TableCert Pipeline PipelineLA.
Close Scope Z_scope.
Open Scope nat_scope.

(* C03 for the tables the pipeline emits: the lookahead table computed with sharing (nullable list once, Follow once per nonterminal transition) holds, for every reduction in every state, exactly the LR(1) lookaheads over all access paths of that state, i.e. the union over the canonical LR(1) states with that core *)
Theorem C03_pipeline :
  forall gi : ginfo,
         (forall r d : nat, nth_error (rhs_of (gi_rules gi) r) d <> Some 0) ->
         lhs_of (gi_rules gi) 0 = 0 ->
         (forall r d : nat, nth_error (rhs_of (gi_rules gi) r) d <> Some eof) ->
         rhs_of (gi_rules gi) 0 = [start_user (gi_rules gi)] ->
         ~ is_nt (gi_rules gi) eof ->
         (forall (seq : list nat) (l : nat),
          ~ is_nt (gi_rules gi) l -> exists b : nat, first_seq (gi_rules gi) (seq ++ [l]) b) ->
         forall t : tables,
         generate_tables gi = inr t ->
         forall q r a : nat,
         q < length (t_aut t) ->
         r <> 0 ->
         In (r, length (rhs_of (gi_rules gi) r)) (items (st (t_aut t) q)) ->
         In a (la_lookup (t_la t) q r) <->
         C03Assembly.LALR_LA (gi_rules gi) (t_aut t) q (r, length (rhs_of (gi_rules gi) r)) a.
Proof. exact PipelineLA.pipeline_lookaheads_exact. Qed.
Print Assumptions C03_pipeline.

From YG Require Import LRBase LR0Build Resolve TableCert Pipeline PipelineWarn.
Close Scope Z_scope.
Open Scope nat_scope.

(* for the tables the pipeline emits: a conflict warning is recorded for a cell exactly when the candidate actions of that cell (the shift on the symbol and the reductions whose lookahead set - exact LALR(1) by C03_pipeline - contains it) meet, in the pairwise resolution, a pair that the precedence declarations do not decide *)
Theorem C03_warning_pipeline :
  forall (gi : ginfo) (t : tables),
         generate_tables gi = inr t ->
         forall q a : nat,
         (exists w : nat * nat, In (q, a, w) (t_warn t)) <->
         q < length (t_aut t) /\
         a < gi_nsyms gi /\
         cell_undecided
           (candidates (gi_rules gi) (t_aut t) (la_lookup (t_la t)) (sprec_of gi) (rprec_of gi) q a).
Proof. exact PipelineWarn.pipeline_warnings. Qed.
Print Assumptions C03_warning_pipeline.

From YG Require Import LRBase LR0Build Resolve TableCert Pipeline PipelineWarn.
Close Scope Z_scope.
Open Scope nat_scope.

(* such a cell has at least two candidate actions: warnings only come from LALR(1) conflicts *)
Theorem C03_warning_needs_conflict :
  forall l : list cand, cell_undecided l -> 2 <= length l.
Proof. exact PipelineWarn.undecided_needs_two. Qed.
Print Assumptions C03_warning_needs_conflict.

From YG Require Import LRBase CompleteDriver C03Assembly Pipeline WfGrammar.
Close Scope Z_scope.
Open Scope nat_scope.

(* the same under the boolean well-formedness check of the grammar object alone *)
Theorem C03_checked :
  forall gi : ginfo,
         wf_gi gi = true ->
         forall t : tables,
         generate_tables gi = inr t ->
         forall q r a : nat,
         q < length (t_aut t) ->
         r <> 0 ->
         In (r, length (rhs_of (gi_rules gi) r)) (items (st (t_aut t) q)) ->
         In a (la_lookup (t_la t) q r) <->
         LALR_LA (gi_rules gi) (t_aut t) q (r, length (rhs_of (gi_rules gi) r)) a.
Proof. exact WfGrammar.checked_lookaheads. Qed.
Print Assumptions C03_checked.

From YG Require Import LRBase CompleteDriver LR0Build Resolve Pipeline PipelineRun Front WfGrammar YParser EndToEnd FrontWf ParsedNames EndToEndWf.
Close Scope Z_scope.
Open Scope nat_scope.

(* from the bytes of the grammar file: the lookahead sets computed for the grammar object built from the text are exactly the LALR(1) sets *)
Theorem C03_from_the_text :
  forall (s : list Ascii.ascii) (b : built) (t : tables),
         generate_text s = GOk b t ->
         forall q r a : nat,
         q < length (t_aut t) ->
         r <> 0 ->
         In (r, length (rhs_of (gi_rules (b_gi b)) r)) (items (st (t_aut t) q)) ->
         In a (la_lookup (t_la t) q r) <->
         C03Assembly.LALR_LA (gi_rules (b_gi b)) (t_aut t) q (r, length (rhs_of (gi_rules (b_gi b)) r)) a.
Proof. exact EndToEndWf.text_lookaheads. Qed.
Print Assumptions C03_from_the_text.
