(* Model: the whole generator up to the tables, from the bytes of the grammar file:
     text --Lexer.lex--> tokens --YParser--> AST --Front.visit/build_grammar--> grammar object --Pipeline--> tables.
   Definitions only. *)
From Coq Require Import List Ascii.
Import ListNotations.
From YG Require Import Lexer YParser Front Pipeline.

Inductive gen_result :=
| GSyntax (r : parse_result)              (* the parser refuses the text *)
| GFront (e : front_error)                (* the visitor / BuildLALR1 refuses the grammar *)
| GTooMany                                (* more than 2000 states *)
| GOk (b : built) (t : tables).

Definition generate_text (s : list ascii) : gen_result :=
  match parse_text s with
  | PAst a =>
    match front a with
    | inl e => GFront e
    | inr b =>
      match generate_tables (b_gi b) with
      | inr t => GOk b t
      | inl (EUnproductive l) => GFront (FUnproductive l)
      | inl ETooManyStates => GTooMany
      end
    end
  | r => GSyntax r
  end.
