(* Originally a design-phase spike: LALR/Table.go conflict resolution (with the reduce/reduce
   default corrected) and the cell-level statements of C04. *)
From Coq Require Import List ZArith Lia Bool.
Import ListNotations.
Open Scope Z_scope.

Inductive assoc := LEFT | RIGHT | NONE.
Inductive kind := KShift (q : nat) | KReduce (r : nat) | KError.
Record cand := { c_kind : kind; c_prec : Z; c_assoc : assoc }.       (* c_prec = -1 : no precedence *)

Definition is_shift (a : cand) : bool := match c_kind a with KShift _ => true | _ => false end.
Definition is_reduce (a : cand) : bool := match c_kind a with KReduce _ => true | _ => false end.
Definition action_index (a : cand) : Z :=      (* Action.ActionIndex *)
  match c_kind a with KShift q => Z.of_nat q | KReduce r => - Z.of_nat r | KError => 0 end.

(* ResolveConflict: None = "cannot resolve conflict" *)
Definition resolve_pair (a1 a2 : cand) : option cand :=
  let '(first, second) := if is_reduce a2 && is_shift a1 then (a2, a1) else (a1, a2) in
  if (c_prec first =? -1) || (c_prec second =? -1) then None
  else if c_prec first >? c_prec second then Some first
  else if c_prec first =? c_prec second then
    match c_assoc first, c_assoc second with
    | NONE, _ | _, NONE => Some {| c_kind := KError; c_prec := c_prec first; c_assoc := NONE |}
    | LEFT, _ => Some first
    | RIGHT, _ => Some second
    end
  else Some second.

(* UseDefaultResolveConflict, with the comparison the right way round *)
Definition default_pair (a1 a2 : cand) : cand :=
  if is_shift a1 then a1 else if is_shift a2 then a2
  else if action_index a1 <? action_index a2 then a2 else a1.

(* CheckAndResolveConflict: pairwise left fold; the boolean counts as "a warning was printed" *)
Fixpoint resolve_from (a : cand) (rest : list cand) : cand * bool :=
  match rest with
  | [] => (a, false)
  | b :: rest' =>
    match resolve_pair a b with
    | Some w => resolve_from w rest'
    | None => let '(w, _) := resolve_from (default_pair a b) rest' in (w, true)
    end
  end.
Definition resolve (l : list cand) : option (cand * bool) :=
  match l with [] => None | a :: rest => Some (resolve_from a rest) end.

Definition sh q p a := {| c_kind := KShift q; c_prec := p; c_assoc := a |}.
Definition rd r p a := {| c_kind := KReduce r; c_prec := p; c_assoc := a |}.

(* --- C04, sentence 1: both sides carry a precedence --- *)
Theorem C04_sr_prec q r ps pr asc ar : ps <> -1 -> pr <> -1 ->
  resolve [sh q ps asc; rd r pr ar] =
  Some (if pr >? ps then rd r pr ar
        else if pr <? ps then sh q ps asc
        else match ar, asc with
             | NONE, _ | _, NONE => {| c_kind := KError; c_prec := pr; c_assoc := NONE |}
             | LEFT, _ => rd r pr ar
             | RIGHT, _ => sh q ps asc
             end, false).
Proof.
  intros Hs Hr. unfold resolve, resolve_from, resolve_pair. simpl.
  destruct (Z.eqb_spec pr (-1)); [contradiction|]. destruct (Z.eqb_spec ps (-1)); [contradiction|]. simpl.
  destruct (Z.gtb_spec pr ps), (Z.ltb_spec pr ps), (Z.eqb_spec pr ps); try lia; try reflexivity.
  destruct ar, asc; reflexivity.
Qed.

(* in a shift/reduce pair at one level both sides have the associativity of that level *)
Corollary C04_sr_same_level q r p a : p <> -1 ->
  resolve [sh q p a; rd r p a] =
  Some (match a with LEFT => rd r p a | RIGHT => sh q p a | NONE => {| c_kind := KError; c_prec := p; c_assoc := NONE |} end, false).
Proof.
  intros H. rewrite C04_sr_prec by auto.
  destruct (Z.gtb_spec p p), (Z.ltb_spec p p); try lia. destruct a; reflexivity.
Qed.

(* --- sentence 2: without applicable precedence --- *)
Theorem C04_sr_default q r ps pr asc ar : ps = -1 \/ pr = -1 ->
  resolve [sh q ps asc; rd r pr ar] = Some (sh q ps asc, true).
Proof.
  intros H. unfold resolve, resolve_from, resolve_pair. simpl.
  destruct (Z.eqb_spec pr (-1)), (Z.eqb_spec ps (-1)); simpl; try reflexivity. lia.
Qed.

Theorem C04_rr_default r1 r2 p1 p2 a1 a2 : p1 = -1 \/ p2 = -1 -> (r1 < r2)%nat ->
  resolve [rd r1 p1 a1; rd r2 p2 a2] = Some (rd r1 p1 a1, true).
Proof.
  intros H Hlt. unfold resolve, resolve_from, resolve_pair. simpl.
  assert (E : (action_index (rd r1 p1 a1) <? action_index (rd r2 p2 a2)) = false).
  { unfold action_index; simpl. apply Z.ltb_ge. lia. }
  destruct (Z.eqb_spec p1 (-1)), (Z.eqb_spec p2 (-1)); simpl; try lia;
    unfold default_pair; simpl; rewrite E; reflexivity.
Qed.

(* a warning is printed exactly when some pair along the fold lacks a precedence *)
Fixpoint lacks_prec (a : cand) (rest : list cand) : Prop :=
  match rest with
  | [] => False
  | b :: rest' => match resolve_pair a b with
                  | Some w => lacks_prec w rest'
                  | None => True
                  end
  end.
Theorem warning_iff a rest : snd (resolve_from a rest) = true <-> lacks_prec a rest.
Proof.
  revert a; induction rest as [|b rest IH]; intros a; simpl.
  - split; [discriminate|tauto].
  - destruct (resolve_pair a b) as [w|]; [apply IH|].
    destruct (resolve_from (default_pair a b) rest). simpl. tauto.
Qed.

Print Assumptions C04_sr_prec.
Print Assumptions C04_rr_default.
