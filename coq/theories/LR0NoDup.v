(* C09: the worklist construction never registers the same item list twice - no duplicate states. *)
From Coq Require Import List Arith Lia Bool.
Import ListNotations.
From YG Require Import LRBase LR0Build.

Lemma find_state_none T : forall sts i, find_state T sts i = None -> ~ In T (map items sts).
Proof.
  induction sts as [|s sts IH]; intros i H; cbn [find_state map In] in *; [tauto|].
  destruct (list_eqb (items s) T) eqn:E; [discriminate|].
  intros [Heq|Hin]; [apply list_eqb_eq in Heq; congruence|apply (IH _ H Hin)].
Qed.
Lemma find_state_some T : forall sts i j, find_state T sts i = Some j -> i <= j < i + length sts /\ items (nth (j - i) sts {| items := []; gotos := [] |}) = T.
Proof.
  induction sts as [|s sts IH]; intros i j H; cbn [find_state] in H; [discriminate|].
  destruct (list_eqb (items s) T) eqn:E.
  - inversion H; subst. apply list_eqb_eq in E. rewrite Nat.sub_diag. cbn [length nth]. split; [lia|exact E].
  - apply IH in H. destruct H as [Hr Hi]. cbn [length]. split; [lia|].
    replace (j - i) with (S (j - S i)) by lia. exact Hi.
Qed.

Lemma NoDup_snoc' {A} (l : list A) x : NoDup l -> ~ In x l -> NoDup (l ++ [x]).
Proof.
  induction l as [|y l IH]; intros Hnd Hx; cbn [app]; [constructor; [intros []|constructor]|].
  inversion Hnd; subst. constructor.
  - intro H. apply in_app_or in H. destruct H as [H|[H|[]]]; [contradiction|subst; apply Hx; left; reflexivity].
  - apply IH; [assumption|intro H; apply Hx; right; exact H].
Qed.

Lemma register_nodup g I : forall Xs sts gts, NoDup (map items sts) -> NoDup (map items (fst (register g I Xs sts gts))).
Proof.
  induction Xs as [|X Xs IH]; intros sts gts H; cbn [register]; [exact H|].
  destruct (find_state (closure g (advance g I X)) sts 0) as [j|] eqn:E; [apply IH; exact H|].
  apply IH. rewrite map_app. cbn [map items]. apply NoDup_snoc'; [exact H|]. eapply find_state_none; exact E.
Qed.
Lemma set_gotos_items : forall sts i gts, map items (set_gotos sts i gts) = map items sts.
Proof.
  induction sts as [|s sts IH]; intros i gts; cbn [set_gotos map]; [reflexivity|].
  destruct i; cbn [map items]; [reflexivity|]. rewrite IH. reflexivity.
Qed.
Lemma build_loop_nodup g : forall fuel sts i aut, NoDup (map items sts) -> build_loop fuel g sts i = Some aut -> NoDup (map items aut).
Proof.
  induction fuel as [|f IH]; intros sts i aut H Hb; cbn [build_loop] in Hb; [discriminate|].
  destruct (nth_error sts i) as [s|]; [|inversion Hb; subst; exact H].
  pose proof (register_nodup g (items s) (syms_after g (items s)) sts [] H) as Hr.
  destruct (register g (items s) (syms_after g (items s)) sts []) as [sts' gts]. cbn [fst] in Hr.
  eapply IH; [|exact Hb]. rewrite set_gotos_items. exact Hr.
Qed.

(* no two states of the automaton have the same item list *)
Theorem build_no_duplicate_states g aut : build g = Some aut ->
  NoDup (map items aut) /\
  forall i j, i < length aut -> j < length aut -> items (st aut i) = items (st aut j) -> i = j.
Proof.
  intro Hb. unfold build in Hb.
  assert (Hnd : NoDup (map items aut)).
  { eapply build_loop_nodup; [|exact Hb]. cbn. constructor; [intros []|constructor]. }
  split; [exact Hnd|]. intros i j Hi Hj E.
  apply (proj1 (NoDup_nth (map items aut) []) Hnd i j); try (rewrite map_length; assumption).
  change (@nil item) with (items {| items := []; gotos := [] |}). rewrite !map_nth. exact E.
Qed.
