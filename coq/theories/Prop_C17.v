(* C17 - the parse trace tells the truth *)
From Coq Require Import List Arith ZArith Bool.
Import ListNotations.
From YG Require Import LRBase DriverSim Trace.

(* the reductions printed by the traced machine (one line per reduction, before its goto push) are
   exactly the reductions the parser performed, in order - for accepted and for rejected inputs *)
Theorem C17_trace_reductions :
  forall (tab : table) (g : grammar) (act : semact) (fuel : nat) (stk : list entry) (inp : list tok) (pos : nat) (reds : list nat),
    match arun tab g act fuel stk inp pos reds with
    | RAcc _ out | RRej _ out => out = (rev reds ++ reds_of (atrace tab g act fuel stk inp))%list
    | _ => True
    end.
Proof. exact Trace.trace_reductions. Qed.
Print Assumptions C17_trace_reductions.

(* the printed run is a legal run of the LR automaton on the given input: every shift line names the
   token read and the state the table prescribes, every reduce line names the lookahead that selected
   it, the rule, and the goto state, and is followed by the push of the left-hand side *)
Theorem C17_trace_legal :
  forall (tab : table) (g : grammar) (act : semact) (fuel : nat) (stk : list entry) (inp : list tok),
    exists (states' : list nat) (inp' : list tok),
      replay_trace tab g (map e_st stk) inp (atrace tab g act fuel stk inp) = Some (states', inp').
Proof. exact Trace.trace_legal. Qed.
Print Assumptions C17_trace_legal.
