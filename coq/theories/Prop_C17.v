(* C17 - the parse trace tells the truth *)
From Coq Require Import List Arith ZArith Bool.
Import ListNotations.
From YG Require Import LRBase DriverSim Trace.

(* the reductions printed by the traced machine (one line per reduction, before its goto push) are
   exactly the reductions the parser performed, in order - for accepted and for rejected inputs *)
Theorem C17_trace_reductions :
  forall (tab : table) (g : grammar) (act : semact) (fuel : nat) (stk : list entry) (inp : list tok) (pos : nat) (reds : list nat),
    match arun tab g act fuel stk inp pos reds with
    | RAcc _ out | RRej _ out => out = (rev reds ++ reds_of (atrace tab g act fuel stk inp))%list
    | _ => True
    end.
Proof. exact Trace.trace_reductions. Qed.
Print Assumptions C17_trace_reductions.

(* the printed run is a legal run of the LR automaton on the given input: every shift line names the
   token read and the state the table prescribes, every reduce line names the lookahead that selected
   it, the rule, and the goto state, and is followed by the push of the left-hand side *)
Theorem C17_trace_legal :
  forall (tab : table) (g : grammar) (act : semact) (fuel : nat) (stk : list entry) (inp : list tok),
    exists (states' : list nat) (inp' : list tok),
      replay_trace tab g (map e_st stk) inp (atrace tab g act fuel stk inp) = Some (states', inp').
Proof. exact Trace.trace_legal. Qed.
Print Assumptions C17_trace_legal.

From YG Require Import LRBase Pipeline Front FrontAlign.
Close Scope Z_scope.
Open Scope nat_scope.

(* the exact rule text: the generators print, for production i of the grammar object, the text of entry i-1 of the rule list of the grammar file (GetRules(i-1)); the two are aligned - production i+1 is built from list entry i, same left-hand side and right-hand-side symbols looked up by name - so the text printed for a reduction names the production that is reduced *)
Theorem C17_rule_text_alignment :
  forall (v : visited) (b : built),
         build_grammar v = inr b ->
         length (gi_rules (b_gi b)) = S (length (vs_rules v)) /\
         (forall (i : nat) (r : vrule),
          nth_error (vs_rules v) i = Some r ->
          exists R : rule,
            nth_error (gi_rules (b_gi b)) (S i) = Some R /\
            sym_index (b_syms b) (v_lhs r) = Some (lhs R) /\
            map_opt (sym_index (b_syms b)) (v_rhs r) = Some (rhs R) /\
            nth_error (b_rule_prec b) (S i) =
            Some match v_prec r with
                 | Some n => sym_index (b_syms b) n
                 | None => None
                 end).
Proof. exact FrontAlign.rules_aligned. Qed.
Print Assumptions C17_rule_text_alignment.
