(* Proofs about the front-end model (Front.v): the token-code checker is sound. *)
From Coq Require Import List Arith ZArith Bool Ascii NArith Lia.
Import ListNotations.
From YG Require Import Front.

Lemma nodup_z_spec l : nodup_z l = true <-> NoDup l.
Proof.
  induction l as [|x l IH]; simpl.
  - split; [constructor|reflexivity].
  - rewrite andb_true_iff, negb_true_iff, IH. split.
    + intros [Hx Hl]. constructor; [|exact Hl]. intro Hin.
      assert (E : existsb (Z.eqb x) l = true) by (apply existsb_exists; exists x; split; [exact Hin|apply Z.eqb_refl]).
      congruence.
    + intro H. inversion H as [|? ? Hx Hl]; subst. split; [|exact Hl].
      destruct (existsb (Z.eqb x) l) eqn:E; [|reflexivity].
      apply existsb_exists in E. destruct E as [y [Hy E]]. apply Z.eqb_eq in E. subst y. contradiction.
Qed.

Theorem valid_codes_sound decls final :
  valid_codes decls final = true ->
  (forall n c v, In (n, c) final -> last_nonzero decls n = Some v -> c = v) /\
  (forall n c, In (n, c) final -> last_nonzero decls n = None -> c <> (-1)%Z /\ ~ In c (fixed_codes decls)) /\
  (NoDup (fixed_codes decls) -> NoDup (map snd final)).
Proof.
  unfold valid_codes. rewrite andb_true_iff. intros [H1 H2].
  rewrite forallb_forall in H1. repeat split.
  - intros n c v Hin Hl. specialize (H1 _ Hin). cbn [fst snd] in H1. rewrite Hl in H1. apply Z.eqb_eq in H1. exact H1.
  - specialize (H1 _ H). cbn [fst snd] in H1. rewrite H0 in H1. apply andb_true_iff in H1. destruct H1 as [_ H1].
    apply negb_true_iff in H1. intro E. subst c. discriminate H1.
  - specialize (H1 _ H). cbn [fst snd] in H1. rewrite H0 in H1. apply andb_true_iff in H1. destruct H1 as [H1 _].
    apply negb_true_iff in H1. intro Hin.
    assert (E : existsb (Z.eqb c) (fixed_codes decls) = true) by (apply existsb_exists; exists c; split; [exact Hin|apply Z.eqb_refl]).
    congruence.
  - intro Hnd. apply nodup_z_spec in Hnd. rewrite Hnd in H2. apply nodup_z_spec. exact H2.
Qed.
