(* C04/C10 on the visitor model: which symbol gives a rule its precedence, and which action a rule carries. *)
From Coq Require Import List Arith ZArith Bool Ascii.
Import ListNotations.
From YG Require Import Front FrontUsable.

(* the last symbol of the list that has a precedence level, p0 if none has *)
Definition last_level (pl : list (nat * assoc_kw * name)) (ns : list name) (p0 : option name) : option name :=
  fold_left (fun p n => match pre_map pl n with Some _ => Some n | None => p end) ns p0.
(* the last action body of the right-hand side, a0 if there is none *)
Definition last_action (es : list relem) (a0 : list ascii) : list ascii :=
  fold_left (fun a e => match e with RAct c => c | RSym _ => a end) es a0.

Lemma scan_rhs_prec tab pl : forall es syms prec act syms' prec' act',
  scan_rhs tab pl es syms prec act = inr (syms', prec', act') ->
  prec' = last_level pl (rsyms es) prec /\ act' = last_action es act.
Proof.
  induction es as [|e es IH]; intros syms prec act syms' prec' act' H; cbn [scan_rhs] in H.
  - inversion H; subst. split; reflexivity.
  - destruct e as [n|c].
    + destruct (tab_usable tab n); [|discriminate]. apply IH in H. cbn [rsyms last_level last_action fold_left]. exact H.
    + apply IH in H. cbn [rsyms last_action fold_left]. exact H.
Qed.

(* a rule takes its precedence from the symbol named by %prec (none at all if that symbol has no level), and without
   %prec from the last right-hand-side symbol that has a level; it carries the last action body written in it *)
Theorem visit_rule_prec tab pl r v : visit_rule tab pl r = inr v ->
  v_prec v = (if is_nil (r_prec r) then last_level pl (rsyms (r_rhs r)) None
              else match pre_map pl (r_prec r) with Some _ => Some (r_prec r) | None => None end)
  /\ v_action v = last_action (r_rhs r) [] /\ v_lhs v = r_lhs r /\ v_rhs v = rsyms (r_rhs r).
Proof.
  unfold visit_rule. destruct (scan_rhs tab pl (r_rhs r) [] None []) as [e|[[syms p] a]] eqn:E; [discriminate|].
  intros H. inversion H; subst v. clear H. cbn [v_prec v_action v_lhs v_rhs].
  destruct (scan_rhs_prec tab pl _ _ _ _ _ _ _ E) as [-> ->].
  pose proof (scan_rhs_spec tab pl (r_rhs r) [] None []) as S. rewrite E in S. destruct S as [_ ->].
  repeat split; reflexivity.
Qed.
