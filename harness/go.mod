module verifharness

go 1.18

require (
	github.com/acekingke/yaccgo v0.0.0
	github.com/awalterschulze/gographviz v2.0.3+incompatible
	github.com/spf13/cobra v1.5.0
)

require (
	github.com/inconshreveable/mousetrap v1.0.0 // indirect
	github.com/spf13/pflag v1.0.5 // indirect
)

replace github.com/acekingke/yaccgo => /repo
