//go:build verif

// packrt: utils.PackTable / UnPackTable round trip on integer matrices read from stdin
// (one per line: rows cols cells...). Prints one JSON object per matrix.
package main

import (
	"bufio"
	"encoding/json"
	"fmt"
	"os"
	"strconv"
	"strings"

	utils "github.com/acekingke/yaccgo/Utils"
)

type out struct {
	T        []int   `json:"t"`
	D        []int   `json:"d"`
	C        []int   `json:"c"`
	Unpacked [][]int `json:"unpacked"`
	Panic    string  `json:"panic,omitempty"`
}

func one(rows, cols int, cells []int) (o out) {
	defer func() {
		if r := recover(); r != nil {
			o.Panic = fmt.Sprint(r)
		}
	}()
	m := make([][]int, rows)
	for i := range m {
		m[i] = append([]int{}, cells[i*cols:(i+1)*cols]...)
	}
	t, d, c := utils.PackTable(m)
	o.T, o.D, o.C = t, d, c
	o.Unpacked = utils.UnPackTable(rows, cols, t, d, c)
	return
}

func main() {
	sc := bufio.NewScanner(os.Stdin)
	sc.Buffer(make([]byte, 1<<20), 1<<26)
	enc := json.NewEncoder(os.Stdout)
	for sc.Scan() {
		f := strings.Fields(sc.Text())
		if len(f) < 2 {
			continue
		}
		v := make([]int, len(f))
		for i, s := range f {
			v[i], _ = strconv.Atoi(s)
		}
		enc.Encode(one(v[0], v[1], v[2:]))
	}
}
