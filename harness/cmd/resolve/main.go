//go:build verif

// resolve: lalr.ResolveConflict and UseDefaultResolveConflict on every ordered pair of a finite grid of actions.
package main

import (
	"fmt"

	lalr "github.com/acekingke/yaccgo/LALR"
	symbol "github.com/acekingke/yaccgo/Symbol"
)

func grid() []*lalr.Action {
	var out []*lalr.Action
	for ty := 0; ty < 3; ty++ {
		var idx []int
		switch ty {
		case 0:
			idx = []int{5, 7}
		case 1:
			idx = []int{-3, -4}
		default:
			idx = []int{0}
		}
		for _, p := range []int{-1, 1, 2} {
			for a := 0; a < 3; a++ {
				for _, i := range idx {
					out = append(out, &lalr.Action{ActionType: lalr.E_ActionType(ty), ActionIndex: i, PrecType: symbol.E_Precedence(a), Prec: p})
				}
			}
		}
	}
	return out
}

func show(a *lalr.Action) string {
	return fmt.Sprintf("%d %d %d %d", int(a.ActionType), a.Prec, int(a.PrecType), a.ActionIndex)
}

func main() {
	l := &lalr.LALR1{}
	g := grid()
	for _, a := range g {
		for _, b := range g {
			a1, b1 := *a, *b
			res := "none"
			if w, err := l.ResolveConflict(&a1, &b1); err == nil {
				res = show(w)
			}
			a2, b2 := *a, *b
			d := l.UseDefaultResolveConflict(&a2, &b2)
			fmt.Printf("P %s | %s -> %s ; %s\n", show(a), show(b), res, show(d))
		}
	}
}
