//go:build verif

// genseq: several generations in ONE process, with the option sets given, as a program that uses the generator as a
// library (or a long-running service) would do; prints the SHA-256 of every output file.  The determinism check (C14)
// compares them with the outputs of fresh processes.
package main

import (
	"bufio"
	"crypto/sha256"
	"encoding/hex"
	"encoding/json"
	"fmt"
	"os"
	"path/filepath"

	builder "github.com/acekingke/yaccgo/Builder"
	utils "github.com/acekingke/yaccgo/Utils"
)

type in struct {
	File string   `json:"file"`
	Seq  []string `json:"seq"` // each of: go, go-u, go-o, go-o-u, ts
}

func one(src, mode, out string) (res string) {
	defer func() {
		if r := recover(); r != nil {
			res = "panic:" + fmt.Sprint(r)
		}
	}()
	utils.PackFlags, utils.ObjectMode = true, false
	var err error
	switch mode {
	case "go":
	case "go-u":
		utils.PackFlags = false
	case "go-o":
		utils.ObjectMode = true
	case "go-o-u":
		utils.PackFlags, utils.ObjectMode = false, true
	}
	if mode == "ts" {
		err = builder.TsGenFromString(src, out)
	} else {
		err = builder.TemplateGenFromString(src, out)
	}
	if err != nil {
		return "err:" + err.Error()
	}
	b, e := os.ReadFile(out)
	if e != nil {
		return "err:" + e.Error()
	}
	h := sha256.Sum256(b)
	return hex.EncodeToString(h[:])
}

func main() {
	tmp, _ := os.MkdirTemp("", "verifseq")
	defer os.RemoveAll(tmp)
	devnull, _ := os.OpenFile(os.DevNull, os.O_WRONLY, 0)
	real := os.Stdout
	sc := bufio.NewScanner(os.Stdin)
	sc.Buffer(make([]byte, 1<<20), 1<<26)
	enc := json.NewEncoder(real)
	for sc.Scan() {
		var c in
		if json.Unmarshal(sc.Bytes(), &c) != nil {
			continue
		}
		b, err := os.ReadFile(c.File)
		if err != nil {
			enc.Encode([]string{"err:read"})
			continue
		}
		os.Stdout = devnull
		outs := []string{}
		for k, m := range c.Seq {
			outs = append(outs, one(string(b), m, filepath.Join(tmp, fmt.Sprintf("o%d", k))))
		}
		os.Stdout = real
		enc.Encode(outs)
	}
}
