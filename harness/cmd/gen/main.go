//go:build verif

// gen: runs yaccgo's generators in-process on input files under a deadline and reports, per file
// and per entry point (generate go, generate typescript, debug), how the call ended:
//   ok | err:<message> | panic:<message> | timeout
// Used by the termination check (C13): a hang inside the library is a timeout here; the process
// then exits with status 3 because its state is unusable (the driver restarts it after that file).
package main

import (
	"bufio"
	"encoding/json"
	"fmt"
	"io"
	"os"
	"path/filepath"
	"strings"
	"time"

	builder "github.com/acekingke/yaccgo/Builder"
	parser "github.com/acekingke/yaccgo/Parser"
	utils "github.com/acekingke/yaccgo/Utils"
)

type Out struct {
	ID      string `json:"id"`
	Go      string `json:"go"`
	Ts      string `json:"ts"`
	Debug   string `json:"debug"`
	GoLen   int    `json:"golen"`
	TsLen   int    `json:"tslen"`
	Timeout bool   `json:"timeout,omitempty"`
	Stage   string `json:"stage,omitempty"`
}

func guarded(f func() error) (res string) {
	defer func() {
		if r := recover(); r != nil {
			res = "panic:" + fmt.Sprint(r)
		}
	}()
	if err := f(); err != nil {
		return "err:" + err.Error()
	}
	return "ok"
}

func main() {
	timeout := 5 * time.Second
	for i := 1; i < len(os.Args); i++ {
		if os.Args[i] == "-timeout" {
			i++
			var ms int
			fmt.Sscan(os.Args[i], &ms)
			timeout = time.Duration(ms) * time.Millisecond
		}
	}
	tmp, err := os.MkdirTemp("", "verifgen")
	if err != nil {
		panic(err)
	}
	defer os.RemoveAll(tmp)
	realOut := os.Stdout
	devnull, _ := os.OpenFile(os.DevNull, os.O_WRONLY, 0)
	enc := json.NewEncoder(realOut)
	sc := bufio.NewScanner(os.Stdin)
	sc.Buffer(make([]byte, 1<<20), 1<<26)
	for sc.Scan() {
		path := strings.TrimSpace(sc.Text())
		if path == "" {
			continue
		}
		b, err := os.ReadFile(path)
		if err != nil {
			enc.Encode(Out{ID: path, Go: "err:read"})
			continue
		}
		src := string(b)
		o := Out{ID: path}
		stage := make(chan string, 8)
		done := make(chan Out, 1)
		go func() {
			os.Stdout = devnull
			stage <- "go"
			gofile := filepath.Join(tmp, "o.go")
			utils.PackFlags, utils.ObjectMode, utils.DebugFlags = true, false, false
			o.Go = guarded(func() error { return builder.TemplateGenFromString(src, gofile) })
			if fi, e := os.Stat(gofile); e == nil {
				o.GoLen = int(fi.Size())
			}
			os.Remove(gofile)
			stage <- "ts"
			tsfile := filepath.Join(tmp, "o.ts")
			o.Ts = guarded(func() error { return builder.TsGenFromString(src, tsfile) })
			if fi, e := os.Stat(tsfile); e == nil {
				o.TsLen = int(fi.Size())
			}
			os.Remove(tsfile)
			stage <- "debug"
			utils.DebugFlags = true
			o.Debug = guarded(func() error { _, e := parser.ParseAndBuild(src); return e })
			utils.DebugFlags = false
			os.Stdout = realOut
			done <- o
		}()
		last := ""
		timer := time.After(timeout)
	wait:
		for {
			select {
			case s := <-stage:
				last = s
				timer = time.After(timeout)
			case r := <-done:
				enc.Encode(r)
				break wait
			case <-timer:
				os.Stdout = realOut
				enc.Encode(Out{ID: path, Timeout: true, Stage: last})
				os.Exit(3)
			}
		}
	}
	_ = io.Discard
}
