//go:build verif

// digraph: runs lalr.Digraph on relations read from stdin (JSON {k, pairs, fp} per line) and prints F.
package main

import (
	"bufio"
	"encoding/json"
	"os"

	lalr "github.com/acekingke/yaccgo/LALR"
)

type in struct {
	K      int      `json:"k"`
	Pairs  [][2]int `json:"pairs"`
	Pairs2 [][2]int `json:"pairs2"` // optional second relation: F of the first pass is the base of the second (reads, then includes)
	FP     [][]int  `json:"fp"`
}

func main() {
	sc := bufio.NewScanner(os.Stdin)
	sc.Buffer(make([]byte, 1<<20), 1<<26)
	enc := json.NewEncoder(os.Stdout)
	for sc.Scan() {
		var c in
		if json.Unmarshal(sc.Bytes(), &c) != nil {
			continue
		}
		X := make([]int, c.K)
		fp := map[int][]int{}
		f := map[int][]int{}
		for i := 0; i < c.K; i++ {
			X[i] = i
			// built the way yaccgo builds its sets: one append at a time, so that the slices have the same spare capacity
			for _, v := range c.FP[i] {
				fp[i] = append(fp[i], v)
			}
			f[i] = []int{}
		}
		lalr.Digraph(X, lalr.VerifRelations(c.Pairs), fp, &f)
		if c.Pairs2 != nil {
			f2 := map[int][]int{}
			lalr.Digraph(X, lalr.VerifRelations(c.Pairs2), f, &f2)
			f = f2
		}
		out := make([][]int, c.K)
		for i := 0; i < c.K; i++ {
			out[i] = append([]int{}, f[i]...)
		}
		enc.Encode(out)
	}
}
