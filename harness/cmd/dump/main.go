//go:build verif

// dump: runs yaccgo's pipeline in-process on grammar files and prints one JSON object per file
// with everything the correspondence checks compare (interfaces I1-I5, I7, I8 of DESIGN.md).
// Built from /repo's working tree with -tags verif on every check run.
package main

import (
	"bufio"
	"encoding/json"
	"fmt"
	"io"
	"os"
	"sort"
	"strings"
	"time"

	builder "github.com/acekingke/yaccgo/Builder"
	lalr "github.com/acekingke/yaccgo/LALR"
	parser "github.com/acekingke/yaccgo/Parser"
	utils "github.com/acekingke/yaccgo/Utils"
)

type Sym struct {
	ID    int    `json:"id"`
	Name  string `json:"name"`
	Value int    `json:"value"`
	Tag   string `json:"tag"`
	NT    bool   `json:"nt"`
	Eps   bool   `json:"eps"`
	Prec  int    `json:"prec"`
	Assoc int    `json:"assoc"`
}
type Rule struct {
	Lhs     int    `json:"lhs"`
	Rhs     []int  `json:"rhs"`
	PrecSym int    `json:"precsym"`
	Action  string `json:"action"`
	VLhs    string `json:"vlhs"`
	VRhs    []string `json:"vrhs"`
	VPrec   string `json:"vprec"`
}
type State struct {
	Items [][2]int `json:"items"`
	Gotos [][2]int `json:"gotos"`
}
type Ident struct {
	Name  string `json:"name"`
	Typ   int    `json:"typ"`
	Value int    `json:"value"`
	Tag   string `json:"tag"`
	Alias string `json:"alias"`
}
type Tok struct {
	Kind  string `json:"kind"`
	Value string `json:"value"`
	Line  int    `json:"line"`
	Col   int    `json:"col"`
	EndAt int    `json:"endat"`
}
type Out struct {
	ID       string           `json:"id"`
	OK       bool             `json:"ok"`
	Err      string           `json:"err,omitempty"`
	Panic    string           `json:"panic,omitempty"`
	Timeout  bool             `json:"timeout,omitempty"`
	Stdout   string           `json:"stdout"`
	Symbols  []Sym            `json:"symbols,omitempty"`
	NTerm    int              `json:"nterm"`
	Rules    []Rule           `json:"rules,omitempty"`
	LR0      []State          `json:"lr0,omitempty"`
	Trans    [][4]int         `json:"trans,omitempty"`
	DR       map[string][]int `json:"dr,omitempty"`
	Read     map[string][]int `json:"read,omitempty"`
	Follow   map[string][]int `json:"follow,omitempty"`
	LA       map[string][]int `json:"la,omitempty"`
	GTable   [][]int          `json:"gtable,omitempty"`
	ErrCode  int              `json:"errcode"`
	AccCode  int              `json:"acccode"`
	Need     bool             `json:"needpacked"`
	Act      []int            `json:"act,omitempty"`
	Off      []int            `json:"off,omitempty"`
	Chk      []int            `json:"chk,omitempty"`
	ADef     []int            `json:"adef,omitempty"`
	GDef     []int            `json:"gdef,omitempty"`
	Code     string           `json:"code"`
	Union    string           `json:"union"`
	Epilogue string           `json:"epilogue"`
	Idents   []Ident          `json:"idents,omitempty"`
	Tokens   []Tok            `json:"tokens,omitempty"`
	Dot      string           `json:"dot,omitempty"`
	Ast      *Ast             `json:"ast,omitempty"`
	AstErr   string           `json:"asterr,omitempty"`
}

// the parser's AST (Parser/Parser.go DeclareNode, RuleDefNode) as plain data
type AstPrec struct {
	Assoc int    `json:"assoc"`
	Name  string `json:"name"`
}
type AstType struct {
	Tag  string `json:"tag"`
	Name string `json:"name"`
}
type AstElem struct {
	T int    `json:"t"`
	E string `json:"e"`
}
type AstRule struct {
	Line int       `json:"line"`
	Lhs  string    `json:"lhs"`
	Prec string    `json:"prec"`
	Rhs  []AstElem `json:"rhs"`
}
type Ast struct {
	Code   string      `json:"code"`
	Union  string      `json:"union"`
	Start  string      `json:"start"`
	Tokens [][]Ident   `json:"tokens"`
	Precs  [][]AstPrec `json:"precs"`
	Types  []AstType   `json:"types"`
	Rules  []AstRule   `json:"rules"`
}

func astOf(src string) (a *Ast, errs string) {
	defer func() {
		if r := recover(); r != nil {
			a, errs = nil, "panic:"+fmt.Sprint(r)
		}
	}()
	root, err := parser.Parse(src)
	if err != nil {
		return nil, "err:" + err.Error()
	}
	d := root.Declare.(*parser.DeclareNode)
	a = &Ast{Code: d.CodeList, Union: d.Union, Start: d.StartSym, Tokens: [][]Ident{}, Precs: [][]AstPrec{}, Types: []AstType{}, Rules: []AstRule{}}
	for _, td := range d.TokenDefList {
		line := []Ident{}
		for _, id := range td.IdentifyList {
			line = append(line, Ident{id.Name, int(id.IDTyp), id.Value, id.Tag, id.Alias})
		}
		a.Tokens = append(a.Tokens, line)
	}
	for _, pl := range d.PrecDefList {
		line := []AstPrec{}
		for _, p := range pl {
			line = append(line, AstPrec{int(p.AssocType), p.IdName})
		}
		a.Precs = append(a.Precs, line)
	}
	for _, t := range d.TypeDefList {
		a.Types = append(a.Types, AstType{t.Tag, t.IdName})
	}
	for _, r := range root.Rules.(*parser.RuleDefNode).RuleDefList {
		rr := AstRule{Line: r.LineNo, Lhs: r.LeftPart, Prec: r.PrecSym, Rhs: []AstElem{}}
		for _, e := range r.RightPart {
			rr.Rhs = append(rr.Rhs, AstElem{int(e.ElemType), e.Element})
		}
		a.Rules = append(a.Rules, rr)
	}
	return a, ""
}

func setmap(m map[int][]int) map[string][]int {
	out := make(map[string][]int)
	for k, v := range m {
		c := append([]int{}, v...)
		sort.Ints(c)
		out[fmt.Sprint(k)] = c
	}
	return out
}

// captureStdout runs f with os.Stdout redirected into a buffer.
func captureStdout(f func()) string {
	old := os.Stdout
	r, w, err := os.Pipe()
	if err != nil {
		panic(err)
	}
	os.Stdout = w
	done := make(chan string)
	go func() {
		b, _ := io.ReadAll(r)
		done <- string(b)
	}()
	func() {
		defer func() {
			w.Close()
			os.Stdout = old
		}()
		f()
	}()
	return <-done
}

func build(id, src string, wantTokens, wantDot, wantAst bool) (out Out) {
	out.ID = id
	if wantAst {
		out.Ast, out.AstErr = astOf(src)
	}
	if wantTokens {
		for _, t := range parser.VerifTokens(src) {
			out.Tokens = append(out.Tokens, Tok{string(t.Kind), t.Value, t.Line, t.Column, t.EndAt})
		}
	}
	var w *parser.Walker
	var err error
	out.Stdout = captureStdout(func() {
		defer func() {
			if r := recover(); r != nil {
				out.Panic = fmt.Sprint(r)
			}
		}()
		w, err = parser.ParseAndBuild(src)
	})
	if out.Panic != "" {
		return
	}
	if err != nil {
		out.Err = err.Error()
		return
	}
	out.OK = true
	root := w.VistorNode.(*parser.RootVistor)
	l := root.LALR1
	g := l.G
	symid := map[string]int{}
	for _, s := range g.Symbols {
		out.Symbols = append(out.Symbols, Sym{int(s.ID), s.Name, s.Value, s.Tag, s.IsNonTerminator, s.IsEpsilonClosure, s.Prec, int(s.PrecType)})
		symid[s.Name] = int(s.ID)
	}
	out.NTerm = len(g.VtSet)
	for i, r := range g.ProductoinRules {
		rr := Rule{Lhs: int(r.LeftPart.ID), PrecSym: -1, Rhs: []int{}}
		for _, s := range r.RighPart {
			rr.Rhs = append(rr.Rhs, int(s.ID))
		}
		if r.PrecSymbol != nil {
			rr.PrecSym = int(r.PrecSymbol.ID)
		}
		if i > 0 {
			v := root.GetRules(i - 1)
			rr.Action = v.ActionCode
			rr.VLhs = v.LeftPart.Name
			for _, s := range v.RighPart {
				rr.VRhs = append(rr.VRhs, s.Name)
			}
			if v.PrecIdSym != nil {
				rr.VPrec = v.PrecIdSym.Id.Name
			}
		}
		out.Rules = append(out.Rules, rr)
	}
	for _, ic := range g.LR0.LR0Closure {
		st := State{Items: [][2]int{}, Gotos: [][2]int{}}
		for _, it := range ic.Items {
			st.Items = append(st.Items, [2]int{it.RuleIndex, it.Dot})
		}
		for _, gt := range ic.GoTo {
			st.Gotos = append(st.Gotos, [2]int{int(gt.Sym.ID), gt.ItemCl})
		}
		out.LR0 = append(out.LR0, st)
	}
	out.Trans = l.VerifTrans()
	out.DR, out.Read, out.Follow, out.LA = setmap(l.DRSet), setmap(l.ReadSet), setmap(l.FollowSet), setmap(l.LookAheadSet)
	out.GTable = l.GTable
	out.ErrCode, out.AccCode = l.GenErrorCode(), l.GenAcceptCode()
	out.Need = l.NeedPacked
	out.Act, out.Off, out.Chk, out.ADef, out.GDef = l.ActionTable, l.OffsetTable, l.CheckTable, l.ActionDef, l.GoToDef
	out.Code, out.Union, out.Epilogue = root.GetCode(), root.GetUion(), root.GetCodeCopy()
	ids := root.GetIdsymtabl()
	names := make([]string, 0, len(ids))
	for n := range ids {
		names = append(names, n)
	}
	sort.Strings(names)
	for _, n := range names {
		id := ids[n]
		out.Idents = append(out.Idents, Ident{id.Name, int(id.IDTyp), id.Value, id.Tag, id.Alias})
	}
	if wantDot {
		func() {
			defer func() {
				if r := recover(); r != nil {
					out.Dot = "PANIC " + fmt.Sprint(r)
				}
			}()
			out.Dot = l.DrawGrammar(l.GTable).String()
		}()
	}
	return
}

var _ = builder.TemplateGenFromString
var _ = lalr.MaxInt
var _ = utils.PackFlags

func main() {
	// usage: dump [-tokens] [-dot] [-debug] [-timeout ms] < list-of-files   (one path per line)
	wantTokens, wantDot, wantAst := false, false, false
	timeout := 10 * time.Second
	for i := 1; i < len(os.Args); i++ {
		switch os.Args[i] {
		case "-tokens":
			wantTokens = true
		case "-dot":
			wantDot = true
		case "-ast":
			wantAst = true
		case "-debug":
			utils.DebugFlags = true
		case "-timeout":
			i++
			var ms int
			fmt.Sscan(os.Args[i], &ms)
			timeout = time.Duration(ms) * time.Millisecond
		}
	}
	realOut := os.Stdout
	enc := json.NewEncoder(realOut)
	sc := bufio.NewScanner(os.Stdin)
	sc.Buffer(make([]byte, 1<<20), 1<<26)
	for sc.Scan() {
		path := strings.TrimSpace(sc.Text())
		if path == "" {
			continue
		}
		b, err := os.ReadFile(path)
		if err != nil {
			enc.Encode(Out{ID: path, Err: "read: " + err.Error()})
			continue
		}
		ch := make(chan Out, 1)
		go func() { ch <- build(path, string(b), wantTokens, wantDot, wantAst) }()
		select {
		case o := <-ch:
			enc.Encode(o)
		case <-time.After(timeout):
			// a hang inside the library: report and stop, the process state is unusable
			os.Stdout = realOut
			enc.Encode(Out{ID: path, Timeout: true})
			os.Exit(3)
		}
	}
}
