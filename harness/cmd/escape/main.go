//go:build verif

// escape: utils.EscapeDotGraph on byte strings (hex on stdin, hex on stdout), for the comparison with the Coq model
// EscapeDot.escape.
package main

import (
	"bufio"
	"encoding/hex"
	"fmt"
	"os"
	"strings"

	utils "github.com/acekingke/yaccgo/Utils"
)

func main() {
	sc := bufio.NewScanner(os.Stdin)
	sc.Buffer(make([]byte, 1<<20), 1<<24)
	w := bufio.NewWriter(os.Stdout)
	defer w.Flush()
	for sc.Scan() {
		b, err := hex.DecodeString(strings.TrimSpace(sc.Text()))
		if err != nil {
			fmt.Fprintln(w, "ERR")
			continue
		}
		fmt.Fprintln(w, hex.EncodeToString([]byte(utils.EscapeDotGraph(string(b)))))
	}
}
