#!/bin/bash
# usage: wv.sh <wave> Cxx...   : import each finished seed of the wave and run its check
w=$1; shift
cd /verif
for p in "$@"; do
  timeout 2400 python3 tools/seedcheck.py import /tmp/mut$w/${p}_out ${p}-w$w 2>&1 | grep -v WARN | tail -1
  python3 tools/seedcheck.py run ${p}-w$w 2>&1 | grep -v WARN | cut -c1-160
done
