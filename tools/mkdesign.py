#!/usr/bin/env python3
"""Rebuilds section 11 of DESIGN.md from tools/design_built.md and the seeded/*/meta.json verdicts."""
import glob, json, os, re
V = os.path.dirname(os.path.dirname(os.path.abspath(__file__)))
s = open(os.path.join(V, 'DESIGN.md')).read()
i = s.find('\n## 11. As built')
if i >= 0:
    s = s[:i].rstrip('\n') + '\n'
s = s.replace("""Status of this file: written before any framework code. It fixes the approach,
the formal statements, the tie between model and code, and the order of work.
Sections 5.x are the per-property decisions; section 6 lists the defects already
found in the unchanged tree while reading and probing it (they shape what is a
theorem and what is a `_refuted` lemma); section 9 is the trusted base.""", """Status of this file: sections 0-10 were written before any framework code and fix the
approach, the formal statements, the tie between model and code and the order of work;
they are kept as the plan. **Section 11 ("As built") is the authoritative account of what
exists now**: the files, which theorem decides which property and what is still only
checked by the correspondence run, the defects found and repaired, the false alarms that
were corrected, the seeded changes and which check catches which. Where sections 3-5 and
section 11 differ, section 11 is right.""")
rows = []
for f in sorted(glob.glob(os.path.join(V, 'seeded/*/meta.json'))):
    m = json.load(open(f))
    files = m.get('files_changed')
    if isinstance(files, list):
        files = ', '.join(str(x).split('/')[-1] for x in files[:2])
    cl = lambda t, n: re.sub(r'\s+', ' ', (t or ''))[:n].replace('|', '/')
    rows.append('| `%s` | %s | %s | %s | %s | %s |' % (m['seed'], m['property'], files, cl(m.get('summary'), 170), cl(m.get('needs_to_manifest'), 150),
                                                  '; '.join('%s %s' % (k.replace(':quick', ''), v['verdict']) for k, v in m.get('checks', {}).items())))
built = open(os.path.join(V, 'tools/design_built.md')).read().replace('@SEEDTAB@', '\n'.join(rows))
open(os.path.join(V, 'DESIGN.md'), 'w').write(s.rstrip('\n') + '\n' + built)
print('DESIGN.md rebuilt,', len(rows), 'seeds')
